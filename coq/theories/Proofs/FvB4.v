(* C14 phase 2: agreement of the two reader models on the documented subset (part B4) *)
From stdpp Require Import strings gmap sets pretty.
From CG Require Import Model.FastVerilog Proofs.FastVerilogProofs Gen.Gen_fastv.
From CG Require Import Proofs.FvA0 Proofs.FvA1 Proofs.FvA2 Proofs.FvP1 Proofs.FvE1 Proofs.FvE2 Proofs.FvE3 Proofs.FvE4 Proofs.FvA3 Proofs.FvE5 Proofs.FvE6 Proofs.FvE7 Proofs.FvA4 Proofs.FvA5 Proofs.FvA6 Proofs.FvA7 Proofs.FvA8 Proofs.FvA9 Proofs.FvA10 Proofs.FvB1 Proofs.FvB2 Proofs.FvB3.
Open Scope string_scope.

Section fastchar.
  Variables (a : ast) (bbs : list bbdef).
  Hypothesis Hsub : in_subset a bbs = true.
  Let HF := in_subset_facts a bbs Hsub.
  Let t0 := kt0 a. Let t1 := kt1 a.
  Let SS := sF t0 t1 bbs a.
  Let adds := ((a_items a ≫= gadd' t0 t1 bbs) ++ (a_items a ≫= aadd t0 t1))%list.
  Let edges := ((a_items a ≫= gedge' t0 t1 bbs) ++ (a_items a ≫= aedge t0 t1))%list.

  Lemma fast_fresh : t0 ∉ idents a ∧ t1 ∉ idents a.
  Proof. split; apply tie_name_fresh. Qed.
  Lemma tie_name_cases R b : tie_name R b = b ∨ ∃ j, tie_name R b = cand b j.
  Proof.
    unfold tie_name. case_bool_decide; [right|by left].
    generalize (S (size R)) 0%N. intros f. induction f as [|f IH]; intros i; simpl; [eauto|]. case_bool_decide; eauto.
  Qed.
  Lemma fast_ne : t0 ≠ t1.
  Proof.
    unfold t0, t1, kt0, kt1.
    destruct (tie_name_cases (idents a) fast_tie0) as [->|[i ->]]; destruct (tie_name_cases (idents a) fast_tie1) as [->|[j ->]];
      unfold cand, pre; vm_compute fast_tie0; vm_compute fast_tie1; simpl; intros H; simplify_eq/=.
  Qed.

  Lemma sI_S : sI SS = list_to_set (decl_inputs a).
  Proof. unfold SS, sF. rewrite stp_fold_I, (inputs_eq a). cbn [sI s0]. set_solver. Qed.
  Let Hfg := fgood_of a bbs Hsub.
  Let Hfr3 : t0 ∉ idents a ∧ t1 ∉ idents a ∧ t1 ∉ idents a := conj (proj1 fast_fresh) (conj (proj2 fast_fresh) (proj2 fast_fresh)).

  Definition fg0 : circuit := foldl (λ g n, <[n := mk_node Input false ∅]> g) ∅ (decl_inputs a).
  Definition fgt : circuit := <[t1 := mk_node C1 false ∅]> (<[t0 := mk_node C0 false ∅]> fg0).
  Definition fg2 : circuit := foldl (λ g p, <[p.2 := mk_node p.1 false ∅]> g) fgt (grouped adds).
  Definition fg3' : circuit := foldl nx_add_edge fg2 edges.

  Lemma fg0_lookup m : fg0 !! m = if decide (m ∈ decl_inputs a) then Some (mk_node Input false ∅) else None.
  Proof.
    unfold fg0. destruct (decide (m ∈ decl_inputs a)) as [Hin|Hnin].
    - apply (foldl_insert_last (λ n : string, n) (λ _, mk_node Input false ∅)); [eauto|done].
    - rewrite (foldl_insert_other (λ n : string, n) (λ _, mk_node Input false ∅)) by (by rewrite list_fmap_id). apply lookup_empty.
  Qed.
  Lemma view_G it o v : it ∈ a_items a → (o, v) ∈ views t0 t1 bbs it → sG SS !! o = Some v.
  Proof. intros. apply (G_iff a bbs Hsub t0 t1 fast_fresh). eauto. Qed.
  Lemma not_driver_tie m : m ∉ idents a → dotted m = false → sG SS !! m = None.
  Proof.
    intros Hm Hd. destruct (sG SS !! m) as [v|] eqn:E; [|done]. destruct (G_key a bbs Hsub t0 t1 fast_fresh m v E) as [_ [?|?]]; congruence.
  Qed.
  Lemma fast_nodot : dotted t0 = false ∧ dotted t1 = false.
  Proof. split; apply tie_name_not_dotted; by vm_compute. Qed.
  Lemma fg2_lookup m : fg2 !! m = match sG SS !! m with Some (t, _) => Some (mk_node t false ∅) | None => fgt !! m end.
  Proof.
    unfold fg2. destruct (sG SS !! m) as [[t fis]|] eqn:E.
    - apply (foldl_insert_last snd (λ p, mk_node p.1 false ∅)).
      + exists (t, m). split; [|done]. apply (proj2 (grouped_elem _ _)). apply (adds_elem t0 t1 bbs _ _ _ Hfg). apply (G_iff a bbs Hsub t0 t1 fast_fresh) in E as (it & Hit & Hv). eauto.
      + intros [t' m'] Hp Hm'. simpl in Hm'. subst m'. apply (proj1 (grouped_elem _ _)) in Hp. apply (adds_elem t0 t1 bbs _ _ _ Hfg) in Hp as (it & fis' & Hit & Hv).
        rewrite (view_G it m _ Hit Hv) in E. by injection E as ->.
    - apply (foldl_insert_other snd (λ p, mk_node p.1 false ∅)). intros Hin. apply elem_of_list_fmap in Hin as ([t' m'] & Hm' & Hp). simpl in Hm'. subst m'.
      apply (proj1 (grouped_elem _ _)) in Hp. apply (adds_elem t0 t1 bbs _ _ _ Hfg) in Hp as (it & fis' & Hit & Hv). by rewrite (view_G it m _ Hit Hv) in E.
  Qed.
  Lemma fgt_lookup m : fgt !! m = if decide (m = t1) then Some (mk_node C1 false ∅) else if decide (m = t0) then Some (mk_node C0 false ∅) else fg0 !! m.
  Proof. unfold fgt. destruct (decide (m = t1)) as [->|]; [by rewrite lookup_insert|]. rewrite lookup_insert_ne by done.
         destruct (decide (m = t0)) as [->|]; [by rewrite lookup_insert|]. by rewrite lookup_insert_ne. Qed.

  Lemma edge_source it v t fis u : it ∈ a_items a → (v, (t, fis)) ∈ views t0 t1 bbs it → u ∈ fis →
    (∃ v', (u, v') ∈ views t0 t1 bbs it) ∨ u = t0 ∨ u = t1 ∨ u ∈ item_uses bbs it.
  Proof.
    intros Hit Hv Hu. destruct it as [ns|ns|ns|t' inst ops|l r|bb inst conns]; try (cbn [FvA3.views FvA3.gate_view] in Hv; by apply elem_of_nil in Hv).
    - right. apply (uses_sub a bbs t0 t1 t1 HF Hfr3 _ u Hit). cbn [FvA3.uses]. cbn [FvA3.views] in Hv. destruct (FvA3.gate_view t0 t1 _) as [[o' [t'' fis']]|]; [|by apply elem_of_nil in Hv].
      apply elem_of_list_singleton in Hv. by injection Hv as <- <- <-.
    - right. apply (uses_sub a bbs t0 t1 t1 HF Hfr3 _ u Hit). cbn [FvA3.uses]. cbn [FvA3.views] in Hv. destruct (FvA3.gate_view t0 t1 _) as [[o' [t'' fis']]|]; [|by apply elem_of_nil in Hv].
      apply elem_of_list_singleton in Hv. by injection Hv as <- <- <-.
    - cbn [FvA3.views] in Hv |- *. destruct (find_bb_first bbs bb) as [d|] eqn:Hf; [|by apply elem_of_nil in Hv]. unfold FvA3.inst_views in Hv |- *. apply elem_of_app in Hv as [Hv|Hv].
      + apply elem_of_list_fmap in Hv as ([p t''] & [= -> -> ->] & Hpt). cbn [fst] in Hu. right.
        apply (uses_sub a bbs t0 t1 t1 HF Hfr3 _ u Hit). cbn [FvA3.uses]. rewrite Hf.
        apply elem_of_list_fmap in Hu as ([p' n] & -> & [[Heq Hpi] Hin]%elem_of_list_filter). apply elem_of_list_fmap. exists (p', n). split; [done|]. by apply elem_of_list_filter.
      + apply elem_of_list_fmap in Hv as ([p n] & [= -> -> ->] & [Hpi Hin]%elem_of_list_filter). apply elem_of_list_singleton in Hu as ->. left.
        destruct (fgood_of a bbs Hsub _ Hit) as (d' & Hf' & Hdisj & Hc). rewrite Hf in Hf'. injection Hf' as <-.
        apply conn_dict_elem in Hin as (o & Hin & _). destruct (Hc p (Some o) Hin) as [[Hp|Hp] _]; [done|].
        eexists. apply elem_of_app. left. apply elem_of_list_fmap. exists (p, BbOut). split; [done|]. apply pin_list_elem. auto.
  Qed.
  Lemma edges_dom e : e ∈ edges → e.1 ∈ dom fg2 ∧ e.2 ∈ dom fg2.
  Proof.
    destruct e as [u v]. intros He. apply (edges_elem t0 t1 bbs _ _ _ Hfg) in He as (it & t & fis & Hit & Hv & Hu). cbn [fst snd]. split.
    - apply elem_of_dom. rewrite fg2_lookup. destruct (sG SS !! u) as [[??]|] eqn:E; [eauto|]. rewrite fgt_lookup.
      destruct (decide (u = t1)); [eauto|]. destruct (decide (u = t0)); [eauto|].
      (* u is an operand of the entry: a pin of the same instance, a tie, or a used net *)
      destruct (edge_source it v t fis u Hit Hv Hu) as [Hk|[?|[?|Hiu]]]; [|done|done|].
      { destruct Hk as (v' & Hv'). by rewrite (view_G it u v' Hit Hv') in E. }
      destruct (sf_uses a bbs HF u) as [Hd|Hi]; [apply elem_of_list_bind; eauto| |].
      + apply elem_of_list_bind in Hd as (it' & Hd & Hit').
        pose proof (drivers_sub a bbs t0 t1 t1 HF Hfr3 it' u Hit' Hd) as Hk. unfold it_driver in Hk. apply elem_of_list_fmap in Hk as ([o' v'] & Heq & Hv'). simpl in Heq. subst o'.
        by rewrite (view_G it' u v' Hit' Hv') in E.
      + rewrite fg0_lookup, decide_True by done. eauto.
    - apply elem_of_dom. rewrite fg2_lookup, (view_G it v _ Hit Hv). eauto.
  Qed.

  Theorem fast_g3_lookup m : fg3' !! m = lookF t0 t1 SS m.
  Proof.
    unfold fg3'. rewrite nx_fold_eq by (intros e He; by apply edges_dom). rewrite add_edges_lookup, fg2_lookup. unfold lookF.
    destruct fast_fresh as [Hf0 Hf1].
    assert (Hnoedge : sG SS !! m = None → drivers_of edges m = ∅).
    { intros HG. apply set_eq. intros u. rewrite elem_of_drivers_of. split; [|set_solver]. intros He.
      apply (edges_elem t0 t1 bbs _ _ _ Hfg) in He as (it & t & fis & Hit & Hv & Hu). by rewrite (view_G it m _ Hit Hv) in HG. }
    destruct (decide (m = t0)) as [->|Hm0].
    { rewrite (not_driver_tie t0 Hf0 (proj1 fast_nodot)) in *. rewrite fgt_lookup. rewrite decide_False by apply fast_ne. rewrite decide_True by done.
      simpl. rewrite Hnoedge by done. unfold upd_fi, mk_node. simpl. do 2 f_equal. set_solver. }
    destruct (decide (m = t1)) as [->|Hm1].
    { rewrite (not_driver_tie t1 Hf1 (proj2 fast_nodot)) in *. rewrite fgt_lookup. rewrite decide_True by done.
      simpl. rewrite Hnoedge by done. unfold upd_fi, mk_node. simpl. do 2 f_equal. set_solver. }
    destruct (sG SS !! m) as [[t fis]|] eqn:E.
    - simpl. unfold upd_fi, mk_node. simpl. do 2 f_equal. apply set_eq. intros u. rewrite elem_of_union, elem_of_drivers_of, elem_of_list_to_set.
      split.
      + intros [?|He]; [set_solver|]. apply (edges_elem t0 t1 bbs _ _ _ Hfg) in He as (it & t' & fis' & Hit & Hv & Hu).
        rewrite (view_G it m _ Hit Hv) in E. by injection E as _ ->.
      + intros Hu. right. apply (edges_elem t0 t1 bbs _ _ _ Hfg). apply (G_iff a bbs Hsub t0 t1 fast_fresh) in E as (it & Hit & Hv). eauto 7.
    - rewrite fgt_lookup, decide_False, decide_False, fg0_lookup by done. rewrite sI_S.
      destruct (decide (m ∈ decl_inputs a)).
      + rewrite decide_True by (by apply elem_of_list_to_set). simpl. rewrite Hnoedge by done. unfold upd_fi, mk_node. simpl. do 2 f_equal. set_solver.
      + rewrite decide_False by (by rewrite elem_of_list_to_set). done.
  Qed.
End fastchar.
