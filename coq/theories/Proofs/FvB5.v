(* C14 phase 2: agreement of the two reader models on modules without blackbox instances (part B5) *)
From stdpp Require Import strings gmap sets pretty.
From CG Require Import Model.FastVerilog Proofs.FastVerilogProofs Gen.Gen_fastv.
From CG Require Import Proofs.FvA0 Proofs.FvA1 Proofs.FvA2 Proofs.FvA3 Proofs.FvA4 Proofs.FvA5 Proofs.FvA6 Proofs.FvA7 Proofs.FvA8 Proofs.FvA9 Proofs.FvA10 Proofs.FvB1 Proofs.FvB2 Proofs.FvB3 Proofs.FvB4.
Open Scope string_scope.

Lemma drop_if_unused g t : (∀ m i, g !! m = Some i → t ∉ n_fi i) → ∀ m, drop_unused g t !! m = if decide (m = t) then None else g !! m.
Proof.
  intros H m. rewrite drop_unused_lookup.
  assert (Hf : fanout g t = ∅). { apply set_eq. intros x. rewrite elem_of_fanout. split; [|set_solver]. intros (i & Hi & Hin). by destruct (H x i Hi). }
  destruct (decide (m = t)) as [->|]; [by rewrite decide_True|]. rewrite decide_False by tauto. done.
Qed.

Theorem fast_sem_char a bbs : in_subset a bbs = true → no_inst a = true →
  ∃ g3 g4, (∀ m, g3 !! m = lookF (kt0 a) (kt1 a) (sF (kt0 a) (kt1 a) a) m) ∧
    (∀ m, g4 !! m = mark (decl_outputs a) g3 m) ∧
    fast_sem a bbs = Ok {| c_name := a_name a; c_g := drop_unused (drop_unused g4 (kt0 a)) (kt1 a); c_bbs := ∅ |}.
Proof.
  intros Hsub Hni. pose proof (in_subset_facts a bbs Hsub) as HF.
  exists (fg3' a). 
  destruct (set_output_lookup (decl_outputs a) (fg3' a)) as (g4 & Hso & Hg4).
  { intros o Ho. apply elem_of_dom. rewrite (fast_g3_lookup a bbs Hsub Hni). unfold lookF.
    destruct (decide (o = kt0 a)); [eauto|]. destruct (decide (o = kt1 a)); [eauto|].
    destruct (sf_outs a bbs HF o Ho) as [Hd|Hi].
    - rewrite (drivers_eq a bbs (kt0 a) (kt1 a)) in Hd by done. apply elem_of_list_bind in Hd as (it & Hd & Hit).
      unfold it_driver in Hd. destruct (gate_view (kt0 a) (kt1 a) it) as [[o' v]|] eqn:Ev; [|by apply elem_of_nil in Hd].
      apply elem_of_list_singleton in Hd as ->. rewrite (view_G a bbs Hsub Hni it o' v Hit Ev). destruct v. eauto.
    - destruct (sG _ !! o) as [[??]|]; [eauto|]. rewrite (sI_S a bbs Hsub Hni), decide_True by (by apply elem_of_list_to_set). eauto. }
  exists g4. split; [apply (fast_g3_lookup a bbs Hsub Hni)|]. split; [done|].
  unfold fast_sem. fold (kt0 a). fold (kt1 a).
  rewrite (fast_scan_good (kt0 a) (kt1 a)) by (intros; by eapply fgood_of). cbn [rbind].
  rewrite (fast_assigns_good (kt0 a) (kt1 a)) by (intros; by eapply fgood_of). cbn [s_adds s_edges s_bbs scan0 app foldl].
  unfold fg3', fg2, fgt, fg0 in Hso. rewrite Hso. done.
Qed.
