(* C14 phase 2: agreement of the two reader models on the documented subset (part B5) *)
From stdpp Require Import strings gmap sets pretty.
From CG Require Import Model.FastVerilog Proofs.FastVerilogProofs Gen.Gen_fastv.
From CG Require Import Proofs.FvA0 Proofs.FvA1 Proofs.FvA2 Proofs.FvP1 Proofs.FvE1 Proofs.FvE2 Proofs.FvE3 Proofs.FvE4 Proofs.FvA3 Proofs.FvE5 Proofs.FvE6 Proofs.FvE7 Proofs.FvA4 Proofs.FvA5 Proofs.FvA6 Proofs.FvA7 Proofs.FvA8 Proofs.FvA9 Proofs.FvA10 Proofs.FvB1 Proofs.FvB2 Proofs.FvB3 Proofs.FvB4.
Open Scope string_scope.

Lemma drop_if_unused g t : (∀ m i, g !! m = Some i → t ∉ n_fi i) → ∀ m, drop_unused g t !! m = if decide (m = t) then None else g !! m.
Proof.
  intros H m. rewrite drop_unused_lookup.
  assert (Hf : fanout g t = ∅). { apply set_eq. intros x. rewrite elem_of_fanout. split; [|set_solver]. intros (i & Hi & Hin). by destruct (H x i Hi). }
  destruct (decide (m = t)) as [->|]; [by rewrite decide_True|]. rewrite decide_False by tauto. done.
Qed.

Theorem fast_sem_char a bbs : in_subset a bbs = true →
  ∃ g3 g4 B, (∀ m, g3 !! m = lookF (kt0 a) (kt1 a) (sF (kt0 a) (kt1 a) bbs a) m) ∧
    (∀ m, g4 !! m = mark (decl_outputs a) g3 m) ∧
    fast_sem a bbs = Ok {| c_name := a_name a; c_g := drop_unused (drop_unused g4 (kt0 a)) (kt1 a); c_bbs := B |}.
Proof.
  intros Hsub. pose proof (in_subset_facts a bbs Hsub) as HF. pose proof (fast_fresh a) as Hfr.
  assert (Hfr3 : kt0 a ∉ idents a ∧ kt1 a ∉ idents a ∧ kt1 a ∉ idents a) by (destruct Hfr; done).
  exists (fg3' a bbs).
  destruct (set_output_lookup (decl_outputs a) (fg3' a bbs)) as (g4 & Hso & Hg4).
  { intros o Ho. apply elem_of_dom. rewrite (fast_g3_lookup a bbs Hsub). unfold lookF.
    destruct (decide (o = kt0 a)); [eauto|]. destruct (decide (o = kt1 a)); [eauto|].
    destruct (sf_outs a bbs HF o Ho) as [Hd|Hi].
    - apply elem_of_list_bind in Hd as (it & Hd & Hit).
      pose proof (drivers_sub a bbs (kt0 a) (kt1 a) (kt1 a) HF Hfr3 it o Hit Hd) as Hk. unfold it_driver in Hk. apply elem_of_list_fmap in Hk as ([o' v] & Heq & Hv). simpl in Heq. subst o'.
      rewrite (view_G a bbs Hsub it o v Hit Hv). destruct v as [??]. eauto.
    - destruct (sG _ !! o) as [[??]|]; [eauto|]. rewrite (sI_S a bbs Hsub), decide_True by (by apply elem_of_list_to_set). eauto. }
  exists g4. eexists. split; [apply (fast_g3_lookup a bbs Hsub)|]. split; [done|].
  unfold fast_sem. fold (kt0 a). fold (kt1 a).
  rewrite (fast_scan_good (kt0 a) (kt1 a) bbs) by (intros; by eapply fgood_of). cbn [rbind].
  rewrite (fast_assigns_good (kt0 a) (kt1 a) bbs) by (intros; by eapply fgood_of). cbn [s_adds s_edges s_bbs scan0 app foldl].
  unfold fg3', fg2, fgt, fg0 in Hso. rewrite Hso. done.
Qed.
