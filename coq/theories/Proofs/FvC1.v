(* C14 phase 2: agreement of the two reader models on the documented subset (part C1) *)
From stdpp Require Import strings gmap sets pretty.
From CG Require Import Model.FastVerilog Proofs.FastVerilogProofs Gen.Gen_fastv.
From CG Require Import Proofs.FvA0 Proofs.FvA1 Proofs.FvA2 Proofs.FvP1 Proofs.FvE1 Proofs.FvE2 Proofs.FvE3 Proofs.FvE4 Proofs.FvA3 Proofs.FvE5 Proofs.FvE6 Proofs.FvE7 Proofs.FvA4 Proofs.FvA5 Proofs.FvA6 Proofs.FvA7 Proofs.FvA8 Proofs.FvA9 Proofs.FvA10 Proofs.FvB1 Proofs.FvB2 Proofs.FvB3 Proofs.FvB4 Proofs.FvB5.
Open Scope string_scope.


(* the graph both readers arrive at, as a function of the names of the constant nodes *)
Definition finT (t0 t1 : string) (bbs : list bbdef) (a : ast) (m : string) : option ninfo :=
  let U := a_items a ≫= uses t0 t1 bbs in
  if decide (m = t0) then (if decide (t0 ∈ U) then Some (mk_node C0 false ∅) else None) else
  if decide (m = t1) then (if decide (t1 ∈ U) then Some (mk_node C1 false ∅) else None) else
  match sG (sF t0 t1 bbs a) !! m with
  | Some (t, fis) => Some (mk_node t (bool_decide (m ∈ decl_outputs a)) (list_to_set fis))
  | None => if decide (m ∈ decl_inputs a) then Some (mk_node Input (bool_decide (m ∈ decl_outputs a)) ∅) else None
  end.

Section fin.
  Variables (a : ast) (bbs : list bbdef).
  Hypothesis Hsub : in_subset a bbs = true.
  Let HF := in_subset_facts a bbs Hsub.
  Variables (t0 t1 : string).
  Hypothesis Hfr : t0 ∉ idents a ∧ t1 ∉ idents a.
  Hypothesis Hne : t0 ≠ t1.
  Let SS := sF t0 t1 bbs a.
  Let U := a_items a ≫= uses t0 t1 bbs.
  Notation views := (views t0 t1 bbs).

  Lemma uses_entry it u : u ∈ uses t0 t1 bbs it → ∃ o t fis, (o, (t, fis)) ∈ views it ∧ u ∈ fis.
  Proof.
    destruct it as [ns|ns|ns|t' inst ops|l r|bb inst conns].
    1-3: (simpl; intros H; by apply elem_of_nil in H).
    - cbn [FvA3.uses FvA3.views]. destruct (FvA3.gate_view t0 t1 (IGate t' inst ops)) as [[o [t fis]]|]; [|intros H; by apply elem_of_nil in H].
      intros Hu. exists o, t, fis. split; [by left|done].
    - cbn [FvA3.uses FvA3.views]. destruct (FvA3.gate_view t0 t1 (IAssign l r)) as [[o [t fis]]|]; [|intros H; by apply elem_of_nil in H].
      intros Hu. exists o, t, fis. split; [by left|done].
    - cbn [FvA3.uses FvA3.views].
      destruct (find_bb_first bbs bb) as [d|]; [|intros H; by apply elem_of_nil in H]. intros ([p n] & -> & [Hpi Hin]%elem_of_list_filter)%elem_of_list_fmap. cbn [fst snd] in *.
      exists (pin inst p), BbIn. eexists. split.
      + unfold FvA3.inst_views. apply elem_of_app. left. apply elem_of_list_fmap. exists (p, BbIn). split; [done|]. apply pin_list_elem. auto.
      + cbn [fst]. apply elem_of_list_fmap. exists (p, n). split; [done|]. by apply elem_of_list_filter.
  Qed.
  Lemma entry_uses it o t fis u : (o, (t, fis)) ∈ views it → u ∈ fis → dotted u = false → u ∈ uses t0 t1 bbs it.
  Proof.
    destruct it as [ns|ns|ns|t' inst ops|l r|bb inst conns].
    1-3: (simpl; intros H; by apply elem_of_nil in H).
    - cbn [FvA3.uses FvA3.views]. destruct (FvA3.gate_view t0 t1 (IGate t' inst ops)) as [[o' [t'' fis']]|]; [|intros H; by apply elem_of_nil in H].
      intros [= -> -> ->]%elem_of_list_singleton. done.
    - cbn [FvA3.uses FvA3.views]. destruct (FvA3.gate_view t0 t1 (IAssign l r)) as [[o' [t'' fis']]|]; [|intros H; by apply elem_of_nil in H].
      intros [= -> -> ->]%elem_of_list_singleton. done.
    - cbn [FvA3.uses FvA3.views]. destruct (find_bb_first bbs bb) as [d|]; [|intros H; by apply elem_of_nil in H]. unfold FvA3.inst_views. intros [Hv|Hv]%elem_of_app Hu Hd.
      + apply elem_of_list_fmap in Hv as ([p t''] & [= -> -> ->] & _). cbn [fst] in Hu.
        apply elem_of_list_fmap in Hu as ([p' n] & -> & [[_ Hpi] Hin]%elem_of_list_filter). apply elem_of_list_fmap. exists (p', n). split; [done|]. by apply elem_of_list_filter.
      + apply elem_of_list_fmap in Hv as ([p n] & [= -> -> ->] & _). apply elem_of_list_singleton in Hu as ->. by rewrite pin_dotted in Hd.
  Qed.

  (* a graph whose nodes carry exactly the fan-ins of the state *)
  Definition carries (g : circuit) : Prop :=
    (∀ o t fis, sG SS !! o = Some (t, fis) → ∃ i, g !! o = Some i ∧ n_fi i = list_to_set fis) ∧
    (∀ m i, g !! m = Some i → n_fi i = ∅ ∨ ∃ t fis, sG SS !! m = Some (t, fis) ∧ n_fi i = list_to_set fis).
  Lemma used_iff g t : dotted t = false → carries g → (fanout g t = ∅ ↔ t ∉ U).
  Proof.
    intros Hdt [H1 H2]. rewrite fanout_empty_iff. split.
    - intros H Hu. apply elem_of_list_bind in Hu as (it & Hu & Hit). destruct (uses_entry it t Hu) as (o & ty & fis & Hv & Hin).
      pose proof (proj2 (G_iff a bbs Hsub t0 t1 Hfr o (ty, fis)) (ex_intro _ it (conj Hit Hv))) as HG.
      destruct (H1 o ty fis HG) as (i & Hi & Hfi). apply (H o i Hi). rewrite Hfi. by apply elem_of_list_to_set.
    - intros Hu m i Hi Hin. destruct (H2 m i Hi) as [He|(ty & fis & HG & Hfi)]; [set_solver|].
      apply Hu. apply (G_iff a bbs Hsub t0 t1 Hfr) in HG as (it & Hit & Hv). apply elem_of_list_bind. exists it. split; [|done].
      rewrite Hfi in Hin. apply elem_of_list_to_set in Hin. by eapply entry_uses.
  Qed.
  Lemma outs_not_tie o : o ∈ decl_outputs a → o ≠ t0 ∧ o ≠ t1.
  Proof. intros Ho%decl_outputs_idents. destruct Hfr. split; intros ->; done. Qed.
End fin.
