(* C14 phase 2: agreement of the two reader models on modules without blackbox instances (part C1) *)
From stdpp Require Import strings gmap sets pretty.
From CG Require Import Model.FastVerilog Proofs.FastVerilogProofs Gen.Gen_fastv.
From CG Require Import Proofs.FvA0 Proofs.FvA1 Proofs.FvA2 Proofs.FvA3 Proofs.FvA4 Proofs.FvA5 Proofs.FvA6 Proofs.FvA7 Proofs.FvA8 Proofs.FvA9 Proofs.FvA10 Proofs.FvB1 Proofs.FvB2 Proofs.FvB3 Proofs.FvB4 Proofs.FvB5.
Open Scope string_scope.

Lemma fanout_empty_iff g t : fanout g t = ∅ ↔ ∀ m i, g !! m = Some i → t ∉ n_fi i.
Proof.
  split.
  - intros H m i Hi Hin. assert (m ∈ fanout g t) by (apply elem_of_fanout; eauto). set_solver.
  - intros H. apply set_eq. intros x. rewrite elem_of_fanout. split; [|set_solver]. intros (i & Hi & Hin). by destruct (H x i Hi).
Qed.

(* the graph both readers arrive at, as a function of the names of the constant nodes *)
Definition finT (t0 t1 : string) (a : ast) (m : string) : option ninfo :=
  let U := a_items a ≫= it_uses t0 t1 in
  if decide (m = t0) then (if decide (t0 ∈ U) then Some (mk_node C0 false ∅) else None) else
  if decide (m = t1) then (if decide (t1 ∈ U) then Some (mk_node C1 false ∅) else None) else
  match sG (sF t0 t1 a) !! m with
  | Some (t, fis) => Some (mk_node t (bool_decide (m ∈ decl_outputs a)) (list_to_set fis))
  | None => if decide (m ∈ decl_inputs a) then Some (mk_node Input (bool_decide (m ∈ decl_outputs a)) ∅) else None
  end.

Section fin.
  Variables (a : ast) (bbs : list bbdef).
  Hypothesis Hsub : in_subset a bbs = true.
  Hypothesis Hni : no_inst a = true.
  Let HF := in_subset_facts a bbs Hsub.
  Variables (t0 t1 : string).
  Hypothesis Hfr : t0 ∉ idents a ∧ t1 ∉ idents a.
  Hypothesis Hne : t0 ≠ t1.
  Let SS := sF t0 t1 a.
  Let U := a_items a ≫= it_uses t0 t1.

  (* a graph whose nodes carry exactly the fan-ins of the state *)
  Definition carries (g : circuit) : Prop :=
    (∀ o t fis, sG SS !! o = Some (t, fis) → ∃ i, g !! o = Some i ∧ n_fi i = list_to_set fis) ∧
    (∀ m i, g !! m = Some i → n_fi i = ∅ ∨ ∃ t fis, sG SS !! m = Some (t, fis) ∧ n_fi i = list_to_set fis).
  Lemma used_iff g t : carries g → (fanout g t = ∅ ↔ t ∉ U).
  Proof.
    intros [H1 H2]. rewrite fanout_empty_iff. split.
    - intros H Hu. apply elem_of_list_bind in Hu as (it & Hu & Hit). unfold it_uses in Hu.
      destruct (gate_view t0 t1 it) as [[o [ty fis]]|] eqn:Ev; [|by apply elem_of_nil in Hu].
      pose proof (proj2 (G_iff a bbs Hsub Hni t0 t1 o (ty, fis)) (ex_intro _ it (conj Hit Ev))) as HG.
      destruct (H1 o ty fis HG) as (i & Hi & Hfi). apply (H o i Hi). rewrite Hfi. by apply elem_of_list_to_set.
    - intros Hu m i Hi Hin. destruct (H2 m i Hi) as [He|(ty & fis & HG & Hfi)]; [set_solver|].
      apply Hu. apply (G_iff a bbs Hsub Hni) in HG as (it & Hit & Hv). apply elem_of_list_bind. exists it. split; [|done].
      unfold it_uses. rewrite Hv. rewrite Hfi in Hin. by apply elem_of_list_to_set in Hin.
  Qed.
  Lemma outs_not_tie o : o ∈ decl_outputs a → o ≠ t0 ∧ o ≠ t1.
  Proof. intros Ho%decl_outputs_idents. destruct Hfr. split; intros ->; done. Qed.
End fin.
