(* C14 phase 2: agreement of the two reader models on the documented subset (part C2) *)
From stdpp Require Import strings gmap sets pretty.
From CG Require Import Model.FastVerilog Proofs.FastVerilogProofs Gen.Gen_fastv.
From CG Require Import Proofs.FvA0 Proofs.FvA1 Proofs.FvA2 Proofs.FvP1 Proofs.FvE1 Proofs.FvE2 Proofs.FvE3 Proofs.FvE4 Proofs.FvA3 Proofs.FvE5 Proofs.FvE6 Proofs.FvE7 Proofs.FvA4 Proofs.FvA5 Proofs.FvA6 Proofs.FvA7 Proofs.FvA8 Proofs.FvA9 Proofs.FvA10 Proofs.FvB1 Proofs.FvB2 Proofs.FvB3 Proofs.FvB4 Proofs.FvB5 Proofs.FvC1.
Open Scope string_scope.

Section fin2.
  Variables (a : ast) (bbs : list bbdef).
  Hypothesis Hsub : in_subset a bbs = true.
  Let HF := in_subset_facts a bbs Hsub.
  Variables (t0 t1 : string).
  Hypothesis Hfr : t0 ∉ idents a ∧ t1 ∉ idents a.
  Hypothesis Hne : t0 ≠ t1.
  Hypothesis Hdot : dotted t0 = false ∧ dotted t1 = false.
  Let SS := sF t0 t1 bbs a.
  Let U := a_items a ≫= uses t0 t1 bbs.
  Let Hfr3 : t0 ∉ idents a ∧ t1 ∉ idents a ∧ t1 ∉ idents a := conj (proj1 Hfr) (conj (proj2 Hfr) (proj2 Hfr)).
  Notation carries := (carries a bbs t0 t1).

  Lemma key_ok o v : sG SS !! o = Some v → o ∉ decl_inputs a ∧ (dotted o = true ∨ o ∈ idents a).
  Proof. by apply (G_key a bbs Hsub t0 t1 Hfr). Qed.
  Lemma key_ne o v t : sG SS !! o = Some v → t ∉ idents a → dotted t = false → o ≠ t.
  Proof. intros HG Ht Hd ->. destruct (key_ok _ _ HG) as [_ [?|?]]; congruence. Qed.

  Lemma drop_step g t : carries g → t ∉ idents a → dotted t = false →
    carries (drop_unused g t) ∧ ∀ m, drop_unused g t !! m = if decide (m = t ∧ t ∉ U) then None else g !! m.
  Proof.
    intros Hc Ht Hdt.
    assert (Hl : ∀ m, drop_unused g t !! m = if decide (m = t ∧ t ∉ U) then None else g !! m).
    { intros m. rewrite drop_unused_lookup. pose proof (used_iff a bbs Hsub t0 t1 Hfr Hne g t Hdt Hc) as Hu.
      destruct (decide (m = t ∧ fanout g t = ∅)) as [[-> Hf]|Hn].
      - rewrite decide_True; [done|]. split; [done|]. by apply Hu.
      - rewrite decide_False; [done|]. intros [-> Hx]. apply Hn. split; [done|]. by apply Hu. }
    split; [|done]. destruct Hc as [H1 H2]. split.
    - intros o ty fis HG. destruct (H1 o ty fis HG) as (i & Hi & Hfi). exists i. split; [|done]. rewrite Hl.
      rewrite decide_False; [done|]. intros [Heq _]. by apply (key_ne _ _ t HG).
    - intros m i. rewrite Hl. destruct (decide (m = t ∧ t ∉ U)); [done|]. apply H2.
  Qed.

  Lemma uses_elem u : u ∈ U → u = t0 ∨ u = t1 ∨ (u ∈ idents a ∧ (sG SS !! u ≠ None ∨ u ∈ decl_inputs a)).
  Proof.
    intros (it & Hu & Hit)%elem_of_list_bind.
    destruct (uses_sub a bbs t0 t1 t1 HF Hfr3 it u Hit Hu) as [?|[?|Hiu]]; [auto|auto|]. right. right.
    assert (Hd : u ∈ a_items a ≫= item_drivers bbs ∨ u ∈ decl_inputs a) by (apply (sf_uses a bbs HF); apply elem_of_list_bind; eauto).
    destruct Hd as [Hd|Hi].
    - apply elem_of_list_bind in Hd as (it' & Hd & Hit'). split; [by eapply (drivers_idents a bbs)|].
      pose proof (drivers_sub a bbs t0 t1 t1 HF Hfr3 it' u Hit' Hd) as Hk. unfold it_driver in Hk. apply elem_of_list_fmap in Hk as ([o' v'] & Heq & Hv'). simpl in Heq. subst o'.
      pose proof (proj2 (G_iff a bbs Hsub t0 t1 Hfr u v') (ex_intro _ it' (conj Hit' Hv'))) as HG. left. unfold SS. intros Hx. rewrite Hx in HG. done.
    - split; [|by right]. unfold decl_inputs in Hi. apply elem_of_list_bind in Hi as (it' & Hi & Hit'). eapply idents_item; [exact Hit'|].
      destruct it'; try (by apply elem_of_nil in Hi). done.
  Qed.

  (* fast reader: marking + dropping the unused constants gives finT *)
  Lemma fast_fin g3 g4 : (∀ m, g3 !! m = lookF t0 t1 SS m) → (∀ m, g4 !! m = mark (decl_outputs a) g3 m) →
    ∀ m, drop_unused (drop_unused g4 t0) t1 !! m = finT t0 t1 bbs a m.
  Proof.
    intros Hg3 Hg4. destruct Hfr as [Hf0 Hf1].
    assert (HsI : ∀ m, m ∈ sI SS ↔ m ∈ decl_inputs a).
    { intros m. unfold SS, sF. rewrite stp_fold_I, (inputs_eq a). cbn [sI s0]. set_solver. }
    unfold SS in *.
    assert (Hc4 : carries g4).
    { split.
      - intros o ty fis HG. rewrite Hg4. unfold mark. rewrite Hg3. unfold lookF.
        rewrite decide_False by (by apply (key_ne _ _ t0 HG); [|apply Hdot]). rewrite decide_False by (by apply (key_ne _ _ t1 HG); [|apply Hdot]). rewrite HG. simpl. eexists. split; [done|].
        by destruct (decide (o ∈ decl_outputs a)).
      - intros m i. rewrite Hg4. unfold mark. rewrite Hg3. intros (i0 & Hi0 & ->)%fmap_Some.
        assert (Hfi : ∀ b : bool, n_fi (if b then set_out true i0 else i0) = n_fi i0) by (by intros []).
        assert (Hfi' : n_fi (if decide (m ∈ decl_outputs a) then set_out true i0 else i0) = n_fi i0) by (by destruct (decide _)).
        rewrite Hfi'. clear Hfi Hfi'. unfold lookF in Hi0.
        destruct (decide (m = t0)); [injection Hi0 as <-; by left|].
        destruct (decide (m = t1)); [injection Hi0 as <-; by left|].
        destruct (sG (sF t0 t1 bbs a) !! m) as [[ty fis]|] eqn:E.
        + injection Hi0 as <-. right. exists ty, fis. done.
        + destruct (decide (m ∈ sI (sF t0 t1 bbs a))); [|done]. injection Hi0 as <-. by left. }
    destruct (drop_step g4 t0 Hc4 Hf0 (proj1 Hdot)) as [Hc5 Hl5]. destruct (drop_step _ t1 Hc5 Hf1 (proj2 Hdot)) as [_ Hl6].
    intros m. rewrite Hl6, Hl5. unfold finT. fold U.
    destruct (decide (m = t0)) as [->|Hm0].
    { rewrite decide_False by (intros [? _]; done). destruct (decide (t0 ∈ U)).
      - rewrite decide_False by tauto. rewrite Hg4. unfold mark. rewrite Hg3. unfold lookF. rewrite decide_True by done. simpl.
        rewrite decide_False; [done|]. intros Ho. by destruct (outs_not_tie a t0 t1 Hfr t0 Ho).
      - by rewrite decide_True. }
    destruct (decide (m = t1)) as [->|Hm1].
    { destruct (decide (t1 ∈ U)).
      - rewrite decide_False by tauto. rewrite decide_False by tauto. rewrite Hg4. unfold mark. rewrite Hg3. unfold lookF.
        rewrite decide_False by done. rewrite decide_True by done. simpl.
        rewrite decide_False; [done|]. intros Ho. by destruct (outs_not_tie a t0 t1 Hfr t1 Ho).
      - by rewrite decide_True. }
    rewrite decide_False by tauto. rewrite decide_False by tauto. rewrite Hg4. unfold mark. rewrite Hg3. unfold lookF.
    rewrite decide_False by done. rewrite decide_False by done.
    destruct (sG (sF t0 t1 bbs a) !! m) as [[ty fis]|]; simpl.
    - destruct (decide (m ∈ decl_outputs a)); [rewrite bool_decide_eq_true_2 by done; reflexivity|rewrite bool_decide_eq_false_2 by done; reflexivity].
    - destruct (decide (m ∈ sI (sF t0 t1 bbs a))) as [Hi|Hi].
      + rewrite decide_True by (by apply HsI). simpl.
        destruct (decide (m ∈ decl_outputs a)); [rewrite bool_decide_eq_true_2 by done; reflexivity|rewrite bool_decide_eq_false_2 by done; reflexivity].
      + rewrite decide_False by (by rewrite <- HsI). done.
  Qed.

  (* full reader: the same function (placeholders for floating nets do not occur inside the subset; tie_x is never used) *)
  Lemma full_fin tx g0 g1 : tx ∉ idents a → dotted tx = false → tx ≠ t0 → tx ≠ t1 →
    (∀ m, g0 !! m = look t0 t1 tx SS m) → (∀ m, g1 !! m = mark (decl_outputs a) g0 m) →
    ∀ m, drop3 g1 t0 t1 tx !! m = finT t0 t1 bbs a m.
  Proof.
    intros Hfx Hdx Hx0 Hx1 Hg0 Hg1. pose proof Hfr as [Hf0 Hf1].
    assert (HsI : ∀ m, m ∈ sI SS ↔ m ∈ decl_inputs a).
    { intros m. unfold SS, sF. rewrite stp_fold_I, (inputs_eq a). cbn [sI s0]. set_solver. }
    assert (HsU : ∀ m, m ∈ sU SS ↔ m ∈ U).
    { intros m. unfold SS, sF. rewrite stp_fold_U. cbn [sU s0]. rewrite elem_of_union, elem_of_list_to_set. set_solver. }
    assert (HxU : tx ∉ U).
    { intros Hu. destruct (uses_elem tx Hu) as [?|[?|[? _]]]; done. }
    unfold SS in *.
    assert (Hc1 : carries g1).
    { split.
      - intros o ty fis HG. rewrite Hg1. unfold mark. rewrite Hg0.
        assert (Hnt : ¬ tie t0 t1 tx o).
        { unfold FvA3.tie. intros [Hq|[Hq|Hq]]; [apply (key_ne _ _ t0 HG)|apply (key_ne _ _ t1 HG)|apply (key_ne _ _ tx HG)]; try done; apply Hdot. }
        rewrite look_nontie by done. unfold look_rest. rewrite HG. simpl. eexists. split; [done|].
        by destruct (decide (o ∈ decl_outputs a)).
      - intros m i. rewrite Hg1. unfold mark. rewrite Hg0. intros (i0 & Hi0 & ->)%fmap_Some.
        assert (Hfi' : n_fi (if decide (m ∈ decl_outputs a) then set_out true i0 else i0) = n_fi i0) by (by destruct (decide _)).
        rewrite Hfi'. clear Hfi'. unfold look in Hi0.
        destruct (decide (m = t0)); [injection Hi0 as <-; by left|].
        destruct (decide (m = t1)); [injection Hi0 as <-; by left|].
        destruct (decide (m = tx)); [injection Hi0 as <-; by left|].
        destruct (sG (sF t0 t1 bbs a) !! m) as [[ty fis]|] eqn:E.
        + injection Hi0 as <-. right. exists ty, fis. done.
        + destruct (decide (m ∈ sI (sF t0 t1 bbs a))); [injection Hi0 as <-; by left|].
          destruct (decide (m ∈ sU (sF t0 t1 bbs a))); [injection Hi0 as <-; by left|done]. }
    destruct (drop_step g1 t0 Hc1 Hf0 (proj1 Hdot)) as [Hc2 Hl2]. destruct (drop_step _ t1 Hc2 Hf1 (proj2 Hdot)) as [Hc3 Hl3]. destruct (drop_step _ tx Hc3 Hfx Hdx) as [_ Hl4].
    intros m. unfold drop3. rewrite !drop_unused_full_eq, Hl4, Hl3, Hl2. unfold finT. fold U.
    destruct (decide (m = t0)) as [->|Hm0].
    { rewrite decide_False by (intros [? _]; done). rewrite decide_False by (intros [? _]; done). destruct (decide (t0 ∈ U)).
      - rewrite decide_False by tauto. rewrite Hg1. unfold mark. rewrite Hg0. unfold look. rewrite decide_True by done. simpl.
        rewrite decide_False; [done|]. intros Ho. by destruct (outs_not_tie a t0 t1 (conj Hf0 Hf1) t0 Ho).
      - by rewrite decide_True. }
    destruct (decide (m = t1)) as [->|Hm1].
    { rewrite decide_False by (intros [? _]; done). destruct (decide (t1 ∈ U)).
      - rewrite decide_False by tauto. rewrite decide_False by tauto. rewrite Hg1. unfold mark. rewrite Hg0. unfold look.
        rewrite decide_False by done. rewrite decide_True by done. simpl.
        rewrite decide_False; [done|]. intros Ho. by destruct (outs_not_tie a t0 t1 (conj Hf0 Hf1) t1 Ho).
      - by rewrite decide_True. }
    destruct (decide (m = tx)) as [->|Hmx].
    { rewrite decide_True by done. destruct (sG (sF t0 t1 bbs a) !! tx) as [v|] eqn:E.
      - by destruct (key_ne _ _ tx E).
      - rewrite decide_False; [done|]. intros Hi. apply Hfx. unfold decl_inputs in Hi. apply elem_of_list_bind in Hi as (it' & Hi & Hit').
        eapply idents_item; [exact Hit'|]. destruct it'; try (by apply elem_of_nil in Hi). done. }
    rewrite decide_False by tauto. rewrite decide_False by tauto. rewrite decide_False by tauto. rewrite Hg1. unfold mark. rewrite Hg0.
    rewrite look_nontie by (unfold tie; tauto). unfold look_rest.
    destruct (sG (sF t0 t1 bbs a) !! m) as [[ty fis]|] eqn:E; simpl.
    - destruct (decide (m ∈ decl_outputs a)); [rewrite bool_decide_eq_true_2 by done; reflexivity|rewrite bool_decide_eq_false_2 by done; reflexivity].
    - destruct (decide (m ∈ sI (sF t0 t1 bbs a))) as [Hi|Hi].
      + rewrite decide_True by (by apply HsI). simpl.
        destruct (decide (m ∈ decl_outputs a)); [rewrite bool_decide_eq_true_2 by done; reflexivity|rewrite bool_decide_eq_false_2 by done; reflexivity].
      + rewrite (decide_False (P := m ∈ decl_inputs a)) by (intros Hq; apply Hi, HsI, Hq). rewrite decide_False; [done|].
        intros Hu%HsU. destruct (uses_elem m Hu) as [?|[?|[_ [HG|Hin]]]]; [done|done|done|]. apply Hi. by apply HsI.
  Qed.
End fin2.
