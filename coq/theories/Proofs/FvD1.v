(* C14 phase 2: agreement of the two reader models on the documented subset (part D1) *)
From stdpp Require Import strings gmap sets pretty.
From CG Require Import Model.FastVerilog.
Open Scope string_scope.

(* cancellation of equal pairs commutes with a renaming that is injective on the operand list *)
Section cancel.
  Context {A B : Type} `{EqDecision A, EqDecision B}.
  Definition occ_gen (f : A) (l : list A) : nat := length (filter (λ x, x = f) l).
  Definition cancel_gen (l : list A) : list A := filter (λ f, Nat.odd (occ_gen f l)) (remove_dups l).
End cancel.
Lemma cancel_pairs_gen l : cancel_pairs l = cancel_gen l.
Proof. reflexivity. Qed.

Section cancel_fmap.
  Context {A B : Type} `{EqDecision A, EqDecision B} (f : A → B).
  Lemma occ_fmap x l : (∀ y, y ∈ l → f y = f x → y = x) → occ_gen (f x) (f <$> l) = occ_gen x l.
  Proof.
    unfold occ_gen. induction l as [|y l IH]; intros H; [done|]. rewrite fmap_cons, !filter_cons.
    destruct (decide (y = x)) as [->|Hne].
    - rewrite decide_True by done. simpl. f_equal. apply IH. intros; apply H; [by right|done].
    - rewrite decide_False by (intros Hf; apply Hne, H; [by left|done]). apply IH. intros; apply H; [by right|done].
  Qed.
  Lemma remove_dups_fmap l : (∀ x y, x ∈ l → y ∈ l → f x = f y → x = y) → remove_dups (f <$> l) = f <$> remove_dups l.
  Proof.
    induction l as [|x l IH]; intros H; [done|]. rewrite fmap_cons. cbn [remove_dups].
    assert (IH' : remove_dups (f <$> l) = f <$> remove_dups l) by (apply IH; intros; apply H; try (by right); done).
    destruct (decide_rel elem_of x l) as [Hin|Hnin]; destruct (decide_rel elem_of (f x) (f <$> l)) as [Hin'|Hnin']; try done.
    - exfalso. apply Hnin'. by apply elem_of_list_fmap_1.
    - exfalso. apply elem_of_list_fmap in Hin' as (y & Hy & Hyl). apply Hnin.
      assert (x = y) as -> by (apply H; [by left|by right|done]). done.
    - by rewrite IH'.
  Qed.
  Lemma filter_fmap_on (P : B → Prop) (Q : A → Prop) `{∀ x, Decision (P x), ∀ x, Decision (Q x)} (k : list A) :
    (∀ y, y ∈ k → P (f y) ↔ Q y) → filter P (f <$> k) = f <$> filter Q k.
  Proof.
    induction k as [|y k IH]; intros Hk; [done|]. rewrite fmap_cons, !filter_cons.
    assert (IH' : filter P (f <$> k) = f <$> filter Q k) by (apply IH; intros; apply Hk; by right).
    destruct (decide (Q y)) as [HQ|HQ].
    - rewrite decide_True by (apply Hk; [by left|done]). by rewrite fmap_cons, IH'.
    - rewrite decide_False; [done|]. intros HP. apply HQ, Hk; [by left|done].
  Qed.
  Lemma cancel_gen_fmap l : (∀ x y, x ∈ l → y ∈ l → f x = f y → x = y) → cancel_gen (f <$> l) = f <$> cancel_gen l.
  Proof.
    intros H. unfold cancel_gen. rewrite remove_dups_fmap by done. apply filter_fmap_on.
    intros y Hy. rewrite elem_of_remove_dups in Hy. cbv beta. rewrite occ_fmap.
    - tauto.
    - intros z Hz Hf. apply H; assumption.
  Qed.
End cancel_fmap.
