(* C14 phase 2: agreement of the two reader models on modules without blackbox instances (part D2) *)
From stdpp Require Import strings gmap sets pretty.
From CG Require Import Model.FastVerilog Proofs.FastVerilogProofs Gen.Gen_fastv.
From CG Require Import Proofs.FvA0 Proofs.FvA1 Proofs.FvA2 Proofs.FvA3 Proofs.FvA4 Proofs.FvA5 Proofs.FvA6 Proofs.FvA7 Proofs.FvA8 Proofs.FvA9 Proofs.FvA10 Proofs.FvB1 Proofs.FvB2 Proofs.FvB3 Proofs.FvB4 Proofs.FvB5 Proofs.FvC1 Proofs.FvC2 Proofs.FvD1.
Open Scope string_scope.

(* ---- the statements with symbolic constants: what both readers build, before a name is chosen for the constant nodes *)
Definition norm_sym (t : gtype) (l : list opd) : gtype * list opd :=
  if is_parity t then
    let c := cancel_gen l in if bool_decide (c = []) then (Buf, [OConst (if bool_decide (t = Xor) then "1'b0" else "1'b1")]) else (t, c)
  else (t, l).
Definition gate_view_sym (it : item) : option (string * (gtype * list opd)) :=
  match it with
  | IGate t _ (ONet o :: ins) => Some (o, norm_sym t ins)
  | IAssign l r => Some (l, (Buf, [r]))
  | _ => None end.
Definition goodop (a : ast) (o : opd) : Prop := match o with ONet s => s ∈ idents a | OConst s => s = "1'b0" ∨ s = "1'b1" end.
Definition symv (t0 t1 : string) (v : gtype * list opd) : gtype * list string := (v.1, nm t0 t1 <$> v.2).

Section sym.
  Variables (a : ast) (t0 t1 : string).
  Hypothesis Hfr : t0 ∉ idents a ∧ t1 ∉ idents a.
  Hypothesis Hne : t0 ≠ t1.
  Notation nm := (nm t0 t1). Notation goodop := (goodop a).

  Lemma nm_const0 : nm (OConst "1'b0") = t0. Proof. done. Qed.
  Lemma nm_const1 : nm (OConst "1'b1") = t1. Proof. done. Qed.
  Lemma nm_inj x y : goodop x → goodop y → nm x = nm y → x = y.
  Proof.
    destruct Hfr as [H0 H1].
    destruct x as [s|s], y as [s'|s']; cbn [FvD2.goodop]; intros Hx Hy.
    - cbn [FvA3.nm]. by intros ->.
    - destruct Hy as [->| ->]; rewrite ?nm_const0, ?nm_const1; cbn [FvA3.nm]; intros ->; done.
    - destruct Hx as [->| ->]; rewrite ?nm_const0, ?nm_const1; cbn [FvA3.nm]; intros <-; done.
    - destruct Hx as [->| ->], Hy as [->| ->]; rewrite ?nm_const0, ?nm_const1; try done; intros ?; done.
  Qed.
  Lemma norm_nm t l : Forall goodop l → norm t0 t1 t (nm <$> l) = symv t0 t1 (norm_sym t l).
  Proof.
    intros Hl. unfold norm, norm_sym, symv. destruct (is_parity t); [|done].
    rewrite cancel_pairs_gen, (cancel_gen_fmap nm l).
    2:{ intros x y Hx Hy. apply nm_inj; by eapply (proj1 (Forall_forall _ _) Hl). }
    destruct (cancel_gen l) as [|c0 cs] eqn:E; [|done]. simpl. by case_bool_decide.
  Qed.
  Lemma norm_sym_good t l : Forall goodop l → Forall goodop (norm_sym t l).2.
  Proof.
    intros Hl. unfold norm_sym. destruct (is_parity t); [|done]. case_bool_decide; simpl.
    - apply Forall_singleton. simpl. case_bool_decide; auto.
    - apply Forall_forall. intros x Hx. unfold cancel_gen in Hx. apply elem_of_list_filter in Hx as [_ Hx]. rewrite elem_of_remove_dups in Hx.
      by eapply (proj1 (Forall_forall _ _) Hl).
  Qed.

  Definition itemgood (it : item) : Prop :=
    match it with
    | IGate t _ ops => ∃ o ins, ops = ONet o :: ins ∧ Forall goodop ins
    | IAssign l r => goodop r
    | IInst _ _ _ => False
    | _ => True end.
  Lemma view_sym it : itemgood it → gate_view t0 t1 it = (λ p, (p.1, symv t0 t1 p.2)) <$> gate_view_sym it.
  Proof.
    destruct it as [ns|ns|ns|t inst ops|l r|bb inst conns]; cbn [itemgood]; try done.
    intros (o & ins & -> & Hl). cbn [gate_view gate_view_sym fmap option_fmap option_map]. by rewrite norm_nm.
  Qed.
  Lemma view_sym_good it o v : itemgood it → gate_view_sym it = Some (o, v) → Forall goodop v.2.
  Proof.
    destruct it as [ns|ns|ns|t inst ops|l r|bb inst conns]; cbn [itemgood]; try done.
    - intros (o' & ins & -> & Hl) [= <- <-]. by apply norm_sym_good.
    - intros Hr [= <- <-]. by apply Forall_singleton.
  Qed.

  Definition stp_sym (G : gmap string (gtype * list opd)) (it : item) :=
    match gate_view_sym it with Some (o, v) => <[o := v]> G | None => G end.
  Lemma sG_sym items : ∀ s G, sG s = symv t0 t1 <$> G → (∀ it, it ∈ items → itemgood it) →
    sG (foldl (stp t0 t1) s items) = symv t0 t1 <$> foldl stp_sym G items.
  Proof.
    induction items as [|it items IH]; intros s G Hs Hg; cbn [foldl]; [done|]. apply IH; [|intros; apply Hg; by right].
    assert (Hi : itemgood it) by (apply Hg; by left). unfold stp_sym.
    destruct it as [ns|ns|ns|t inst ops|l r|bb inst conns]; try done; unfold stp; rewrite (view_sym _ Hi);
      destruct (gate_view_sym _) as [[o [ty l']]|]; cbn [fmap option_fmap option_map fst snd sG]; try done; by rewrite fmap_insert, Hs.
  Qed.
  Lemma symG_good items : ∀ G, (∀ o v, G !! o = Some v → Forall goodop v.2) → (∀ it, it ∈ items → itemgood it) →
    ∀ o v, foldl stp_sym G items !! o = Some v → Forall goodop v.2.
  Proof.
    induction items as [|it items IH]; intros G HG Hg; cbn [foldl]; [done|]. apply IH; [|intros; apply Hg; by right].
    assert (Hi : itemgood it) by (apply Hg; by left). unfold stp_sym. destruct (gate_view_sym it) as [[o v]|] eqn:E; [|done].
    intros o' v' [[-> <-]|[_ ?]]%lookup_insert_Some; [by eapply view_sym_good|by eapply HG].
  Qed.
End sym.
Definition symG (a : ast) : gmap string (gtype * list opd) := foldl stp_sym ∅ (a_items a).
