(* C14 phase 2: agreement of the two reader models on the documented subset (part D2) *)
From stdpp Require Import strings gmap sets pretty.
From CG Require Import Model.FastVerilog Proofs.FastVerilogProofs Gen.Gen_fastv.
From CG Require Import Proofs.FvA0 Proofs.FvA1 Proofs.FvA2 Proofs.FvP1 Proofs.FvE1 Proofs.FvE2 Proofs.FvE3 Proofs.FvE4 Proofs.FvA3 Proofs.FvE5 Proofs.FvE6 Proofs.FvE7 Proofs.FvA4 Proofs.FvA5 Proofs.FvA6 Proofs.FvA7 Proofs.FvA8 Proofs.FvA9 Proofs.FvA10 Proofs.FvB1 Proofs.FvB2 Proofs.FvB3 Proofs.FvB4 Proofs.FvB5 Proofs.FvC1 Proofs.FvC2 Proofs.FvD1.
Open Scope string_scope.

(* ---- the statements with symbolic constants: what both readers build, before a name is chosen for the constant nodes *)
Definition norm_sym (t : gtype) (l : list opd) : gtype * list opd :=
  if is_parity t then
    let c := cancel_gen l in if bool_decide (c = []) then (Buf, [OConst (if bool_decide (t = Xor) then "1'b0" else "1'b1")]) else (t, c)
  else (t, l).
Definition gate_view_sym (it : item) : option (string * (gtype * list opd)) :=
  match it with
  | IGate t _ (ONet o :: ins) => Some (o, norm_sym t ins)
  | IAssign l r => Some (l, (Buf, [r]))
  | _ => None end.
(* operands on the input pins of an instance *)
Definition in_ops (d : bbdef) (conns : list (string * option opd)) : list (string * opd) :=
  omap (λ c : string * option opd, match c.2 with Some o => if bool_decide (c.1 ∈ bb_in d) then Some (c.1, o) else None | None => None end) conns.
Definition out_ops (d : bbdef) (conns : list (string * option opd)) : list (string * opd) :=
  omap (λ c : string * option opd, match c.2 with Some o => if bool_decide (c.1 ∈ bb_in d) then None else Some (c.1, o) | None => None end) conns.
Definition inst_views_sym (d : bbdef) (inst : string) (conns : list (string * option opd)) : list (string * (gtype * list opd)) :=
  ((λ pt : string * gtype, (pin inst pt.1, (pt.2, snd <$> filter (λ c : string * opd, c.1 = pt.1) (in_ops d conns)))) <$> pin_list d) ++
  ((λ c : string * opd, (opd_text c.2, (Buf, [ONet (pin inst c.1)]))) <$> out_ops d conns).
Definition views_sym (bbs : list bbdef) (it : item) : list (string * (gtype * list opd)) :=
  match it with
  | IInst bb inst conns => match find_bb_first bbs bb with Some d => inst_views_sym d inst conns | None => [] end
  | _ => match gate_view_sym it with Some e => [e] | None => [] end
  end.
Definition uses_sym (bbs : list bbdef) (it : item) : list opd :=
  match it with
  | IInst bb inst conns => match find_bb_first bbs bb with Some d => snd <$> in_ops d conns | None => [] end
  | _ => match gate_view_sym it with Some (_, (_, l)) => l | None => [] end
  end.
Definition goodop (a : ast) (o : opd) : Prop := match o with ONet s => s ∈ idents a ∨ dotted s = true | OConst s => s = "1'b0" ∨ s = "1'b1" end.
Definition symv (t0 t1 : string) (v : gtype * list opd) : gtype * list string := (v.1, nm t0 t1 <$> v.2).

Section sym.
  Variables (a : ast) (bbs : list bbdef) (t0 t1 : string).
  Hypothesis Hfr : t0 ∉ idents a ∧ t1 ∉ idents a.
  Hypothesis Hne : t0 ≠ t1.
  Hypothesis Hdot : dotted t0 = false ∧ dotted t1 = false.
  Notation nm := (nm t0 t1). Notation goodop := (goodop a).

  Lemma nm_const0 : nm (OConst "1'b0") = t0. Proof. done. Qed.
  Lemma nm_const1 : nm (OConst "1'b1") = t1. Proof. done. Qed.
  Lemma good_net_ne s : s ∈ idents a ∨ dotted s = true → s ≠ t0 ∧ s ≠ t1.
  Proof. destruct Hfr, Hdot. intros [?|?]; split; intros ->; congruence. Qed.
  Lemma nm_inj x y : goodop x → goodop y → nm x = nm y → x = y.
  Proof.
    destruct x as [s|s], y as [s'|s']; cbn [FvD2.goodop]; intros Hx Hy.
    - cbn [FvA3.nm]. by intros ->.
    - destruct (good_net_ne s Hx). destruct Hy as [->| ->]; rewrite ?nm_const0, ?nm_const1; cbn [FvA3.nm]; intros ->; done.
    - destruct (good_net_ne s' Hy). destruct Hx as [->| ->]; rewrite ?nm_const0, ?nm_const1; cbn [FvA3.nm]; intros <-; done.
    - destruct Hx as [->| ->], Hy as [->| ->]; rewrite ?nm_const0, ?nm_const1; try done; intros ?; done.
  Qed.
  Lemma norm_nm t l : Forall goodop l → norm t0 t1 t (nm <$> l) = symv t0 t1 (norm_sym t l).
  Proof.
    intros Hl. unfold norm, norm_sym, symv. destruct (is_parity t); [|done].
    rewrite cancel_pairs_gen, (cancel_gen_fmap nm l).
    2:{ intros x y Hx Hy. apply nm_inj; by eapply (proj1 (Forall_forall _ _) Hl). }
    destruct (cancel_gen l) as [|c0 cs] eqn:E; [|done]. simpl. by case_bool_decide.
  Qed.
  Lemma norm_sym_good t l : Forall goodop l → Forall goodop (norm_sym t l).2.
  Proof.
    intros Hl. unfold norm_sym. destruct (is_parity t); [|done]. case_bool_decide; simpl.
    - apply Forall_singleton. simpl. case_bool_decide; auto.
    - apply Forall_forall. intros x Hx. unfold cancel_gen in Hx. apply elem_of_list_filter in Hx as [_ Hx]. rewrite elem_of_remove_dups in Hx.
      by eapply (proj1 (Forall_forall _ _) Hl).
  Qed.

  Definition itemgood (it : item) : Prop :=
    match it with
    | IGate t _ ops => ∃ o ins, ops = ONet o :: ins ∧ Forall goodop ins
    | IAssign l r => goodop r
    | IInst bb inst conns => ∃ d, find_bb_first bbs bb = Some d ∧ (∀ p o, (p, Some o) ∈ conns → goodop o ∧ (p ∉ bb_in d → is_net o = true))
    | _ => True end.

  Lemma in_ops_dict d conns : snd <$> filter (λ c : string * string, c.1 ∈ bb_in d) (conn_dict t0 t1 conns) = nm <$> (snd <$> in_ops d conns).
  Proof.
    induction conns as [|[p [o|]] conns IH]; [done| |].
    - rewrite conn_dict_cons_some, filter_cons. unfold in_ops. cbn [omap list_omap fst snd]. fold (in_ops d conns).
      destruct (decide (p ∈ bb_in d)); [rewrite bool_decide_eq_true_2 by done|rewrite bool_decide_eq_false_2 by done]; cbn [fst snd]; [rewrite !fmap_cons; cbn [snd]; by rewrite IH|done].
    - rewrite conn_dict_cons_none. unfold in_ops. cbn [omap list_omap fst snd]. fold (in_ops d conns). done.
  Qed.
  Lemma pin_ops_dict d conns p : snd <$> filter (λ c : string * string, c.1 = p ∧ c.1 ∈ bb_in d) (conn_dict t0 t1 conns) = nm <$> (snd <$> filter (λ c : string * opd, c.1 = p) (in_ops d conns)).
  Proof.
    induction conns as [|[p' [o|]] conns IH]; [done| |].
    - rewrite conn_dict_cons_some, filter_cons. unfold in_ops. cbn [omap list_omap fst snd]. fold (in_ops d conns).
      destruct (decide (p' ∈ bb_in d)) as [Hpi|Hpi]; [rewrite bool_decide_eq_true_2 by done|rewrite bool_decide_eq_false_2 by done]; cbn [fst snd].
      + rewrite filter_cons. cbn [fst]. destruct (decide (p' = p)) as [->|Hne'].
        * rewrite decide_True by done. rewrite !fmap_cons. cbn [snd]. by rewrite IH.
        * rewrite decide_False by tauto. done.
      + rewrite decide_False by tauto. done.
    - rewrite conn_dict_cons_none. unfold in_ops. cbn [omap list_omap fst snd]. fold (in_ops d conns). done.
  Qed.
  Lemma out_ops_dict d conns : (∀ p o, (p, Some o) ∈ conns → p ∉ bb_in d → is_net o = true) →
    filter (λ c : string * string, c.1 ∉ bb_in d) (conn_dict t0 t1 conns) = (λ c : string * opd, (c.1, opd_text c.2)) <$> out_ops d conns.
  Proof.
    intros Hn. induction conns as [|[p [o|]] conns IH]; [done| |].
    - rewrite conn_dict_cons_some, filter_cons. unfold out_ops. cbn [omap list_omap fst snd]. fold (out_ops d conns).
      assert (IH' := IH (λ p' o' H, Hn p' o' (elem_of_list_further _ _ _ H))).
      destruct (decide (p ∉ bb_in d)) as [Hpi|Hpi].
      + rewrite bool_decide_eq_false_2 by done. rewrite fmap_cons. cbn [fst snd]. rewrite IH'. f_equal. f_equal.
        specialize (Hn p o (elem_of_list_here _ _) Hpi). by destruct o.
      + rewrite bool_decide_eq_true_2 by (destruct (decide (p ∈ bb_in d)); done). done.
    - rewrite conn_dict_cons_none. unfold out_ops. cbn [omap list_omap fst snd]. fold (out_ops d conns). apply IH. intros p' o' H. apply Hn. by right.
  Qed.

  Lemma views_sym_eq it : itemgood it → views t0 t1 bbs it = (λ e, (e.1, symv t0 t1 e.2)) <$> views_sym bbs it.
  Proof.
    destruct it as [ns|ns|ns|t inst ops|l r|bb inst conns]; cbn [itemgood]; try done.
    - intros (o & ins & -> & Hl). cbn [FvA3.views views_sym FvA3.gate_view gate_view_sym]. rewrite norm_nm by done. reflexivity.
    - intros (d & Hf & Hc). cbn [FvA3.views views_sym]. rewrite Hf. unfold FvA3.inst_views, inst_views_sym. rewrite fmap_app, <- !list_fmap_compose. f_equal.
      + apply list_fmap_ext. intros i [p t] _. cbn [fst snd compose]. unfold symv. cbn [fst snd]. by rewrite pin_ops_dict.
      + rewrite (out_ops_dict d conns) by (intros p o Hin Hp; by apply (Hc p o Hin)). rewrite <- list_fmap_compose. done.
  Qed.
  Lemma uses_sym_eq it : itemgood it → uses t0 t1 bbs it = nm <$> uses_sym bbs it.
  Proof.
    destruct it as [ns|ns|ns|t inst ops|l r|bb inst conns]; cbn [itemgood]; try done.
    - intros (o & ins & -> & Hl). cbn [FvA3.uses uses_sym FvA3.gate_view gate_view_sym]. rewrite norm_nm by done. done.
    - intros (d & Hf & Hc). cbn [FvA3.uses uses_sym]. rewrite Hf. apply in_ops_dict.
  Qed.
  Lemma in_ops_elem d conns p o : (p, o) ∈ in_ops d conns → (p, Some o) ∈ conns ∧ p ∈ bb_in d.
  Proof.
    unfold in_ops. rewrite elem_of_list_omap. intros ([p' [o'|]] & Hin & Heq); cbn [fst snd] in Heq; [|done]. case_bool_decide; [|done]. by injection Heq as -> ->.
  Qed.
  Lemma out_ops_elem d conns p o : (p, o) ∈ out_ops d conns → (p, Some o) ∈ conns ∧ p ∉ bb_in d.
  Proof.
    unfold out_ops. rewrite elem_of_list_omap. intros ([p' [o'|]] & Hin & Heq); cbn [fst snd] in Heq; [|done]. case_bool_decide; [done|]. by injection Heq as -> ->.
  Qed.
  Lemma views_sym_good it o v : itemgood it → (o, v) ∈ views_sym bbs it → Forall goodop v.2.
  Proof.
    destruct it as [ns|ns|ns|t inst ops|l r|bb inst conns]; cbn [itemgood].
    1-3: (intros _ H; by apply elem_of_nil in H).
    - intros (o' & ins & -> & Hl). cbn [views_sym gate_view_sym]. intros [= -> ->]%elem_of_list_singleton. by apply norm_sym_good.
    - cbn [views_sym gate_view_sym]. intros Hr [= -> ->]%elem_of_list_singleton. by apply Forall_singleton.
    - intros (d & Hf & Hc). cbn [views_sym]. rewrite Hf. unfold inst_views_sym. intros [Hv|Hv]%elem_of_app.
      + apply elem_of_list_fmap in Hv as ([p t] & [= -> ->] & _). cbn [snd]. apply Forall_forall. intros x ([p' o'] & -> & [_ Hin]%elem_of_list_filter)%elem_of_list_fmap.
        apply in_ops_elem in Hin as [Hin _]. by destruct (Hc p' o' Hin).
      + apply elem_of_list_fmap in Hv as ([p o'] & [= -> ->] & _). cbn [snd]. apply Forall_singleton. cbn [FvD2.goodop]. right. apply pin_dotted.
  Qed.

  Definition stp_sym (G : gmap string (gtype * list opd)) (it : item) := foldl (λ G e, <[e.1 := e.2]> G) G (views_sym bbs it).
  Lemma foldl_ins_fmap {V W} (f : V → W) (l : list (string * V)) : ∀ G : gmap string V,
    foldl (λ G e, <[e.1 := e.2]> G) (f <$> G) ((λ e : string * V, (e.1, f e.2)) <$> l) = f <$> foldl (λ G e, <[e.1 := e.2]> G) G l.
  Proof. induction l as [|e l IH]; intros G; [done|]. cbn [foldl fmap list_fmap fst snd]. by rewrite <- fmap_insert, IH. Qed.
  Lemma sG_sym items : ∀ s G, sG s = symv t0 t1 <$> G → (∀ it, it ∈ items → itemgood it) →
    sG (foldl (stp t0 t1 bbs) s items) = symv t0 t1 <$> foldl stp_sym G items.
  Proof.
    induction items as [|it items IH]; intros s G Hs Hg; cbn [foldl]; [done|]. apply IH; [|intros; apply Hg; by right].
    assert (Hi : itemgood it) by (apply Hg; by left). unfold stp_sym.
    destruct it as [ns|ns|ns|t inst ops|l r|bb inst conns]; try done; unfold stp; cbn [sG]; rewrite (views_sym_eq _ Hi), Hs; apply foldl_ins_fmap.
  Qed.
End sym.
Definition symG (bbs : list bbdef) (a : ast) : gmap string (gtype * list opd) := foldl (stp_sym bbs) ∅ (a_items a).
