(* C14 phase 2: agreement of the two reader models on the documented subset (part D3) *)
From stdpp Require Import strings gmap sets pretty.
From CG Require Import Model.FastVerilog Proofs.FastVerilogProofs Gen.Gen_fastv Base.Compose.
From CG Require Import Proofs.FvA0 Proofs.FvA1 Proofs.FvA2 Proofs.FvP1 Proofs.FvE1 Proofs.FvE2 Proofs.FvE3 Proofs.FvE4 Proofs.FvA3 Proofs.FvE5 Proofs.FvE6 Proofs.FvE7 Proofs.FvA4 Proofs.FvA5 Proofs.FvA6 Proofs.FvA7 Proofs.FvA8 Proofs.FvA9 Proofs.FvA10 Proofs.FvB1 Proofs.FvB2 Proofs.FvB3 Proofs.FvB4 Proofs.FvB5 Proofs.FvC1 Proofs.FvC2 Proofs.FvD1 Proofs.FvD2.
Open Scope string_scope.

Definition all_ops (bbs : list bbdef) (a : ast) : list opd := a_items a ≫= uses_sym bbs.

Section symfacts.
  Variables (a : ast) (bbs : list bbdef).
  Hypothesis Hsub : in_subset a bbs = true.
  Let HF := in_subset_facts a bbs Hsub.
  Notation symG := (symG bbs a). Notation all_ops := (all_ops bbs a). Notation goodop := (goodop a).

  Lemma itemgood_of it : it ∈ a_items a → itemgood a bbs it.
  Proof.
    intros Hit. pose proof (fgood_of a bbs Hsub it Hit) as Hg.
    destruct it as [ns|ns|ns|t inst ops|l r|bb inst conns]; cbn [fgood itemgood] in *; try done.
    - destruct Hg as (o & ins & -> & Ht & Hc & Hio & Hnets). exists o, ins. split; [done|]. apply Forall_forall. intros x Hx.
      destruct x as [s|s]; cbn [FvD2.goodop].
      + left. eapply idents_item; [exact Hit|]. cbn [item_ids]. right. rewrite bind_cons. apply elem_of_app. right. apply elem_of_list_bind. exists (ONet s). split; [by left|done].
      + rewrite forallb_forall in Hc. specialize (Hc (OConst s)). rewrite <- elem_of_list_In in Hc. specialize (Hc Hx). simpl in Hc.
        apply orb_true_iff in Hc as [?%bool_decide_eq_true|?%bool_decide_eq_true]; auto.
    - destruct Hg as [Hc Hn]. destruct r as [s|s]; cbn [FvD2.goodop].
      + left. eapply idents_item; [exact Hit|]. right. by left.
      + simpl in Hc. apply orb_true_iff in Hc as [?%bool_decide_eq_true|?%bool_decide_eq_true]; auto.
    - destruct Hg as (d & Hf & Hdisj & Hc). exists d. split; [done|]. intros p o Hin. destruct (Hc p (Some o) Hin) as [_ Ho]. destruct (Ho o eq_refl) as [Hco Hid].
      split.
      + destruct o as [s|s]; cbn [FvD2.goodop].
        * left. eapply idents_item; [exact Hit|]. cbn [item_ids]. right. right. apply elem_of_list_bind. exists (p, Some (ONet s)). split; [|done]. cbn [fst snd from_option opd_ids]. right. by left.
        * simpl in Hco. apply orb_true_iff in Hco as [?%bool_decide_eq_true|?%bool_decide_eq_true]; auto.
      + intros Hp. pose proof (item_ok_of a bbs HF _ Hit) as Hok. destruct (item_ok_inst _ _ _ _ Hok) as (d' & Hf' & _ & _ & Hc'). rewrite Hf in Hf'. injection Hf' as <-.
        destruct (Hc' p (Some o) Hin) as [_ Ho']. by destruct (Ho' o eq_refl) as [_ Hn]; apply Hn.
  Qed.
  Lemma foldl_ins_from {V} (l : list (string * V)) : ∀ (G : gmap string V) o v,
    foldl (λ G e, <[e.1 := e.2]> G) G l !! o = Some v → G !! o = Some v ∨ (o, v) ∈ l.
  Proof.
    induction l as [|e l IH]; intros G o v H; [by left|]. cbn [foldl] in H. apply IH in H as [H|H]; [|right; by right].
    apply lookup_insert_Some in H as [[<- <-]|[_ H]]; [right; destruct e; by left|by left].
  Qed.
  Lemma symG_from items : ∀ G o v, foldl (stp_sym bbs) G items !! o = Some v → G !! o = Some v ∨ ∃ it, it ∈ items ∧ (o, v) ∈ views_sym bbs it.
  Proof.
    induction items as [|it items IH]; intros G o v; cbn [foldl]; [auto|]. intros H. apply IH in H as [H|(it' & ? & ?)]; [|right; exists it'; split; [by right|done]].
    unfold stp_sym in H. apply foldl_ins_from in H as [?|?]; [by left|right; exists it; split; [by left|done]].
  Qed.
  Lemma symG_item o v : symG !! o = Some v → ∃ it, it ∈ a_items a ∧ (o, v) ∈ views_sym bbs it.
  Proof. intros H. apply symG_from in H as [H|?]; [by rewrite lookup_empty in H|done]. Qed.
  Lemma uses_sym_good it x : it ∈ a_items a → x ∈ uses_sym bbs it → goodop x.
  Proof.
    intros Hit Hx. pose proof (itemgood_of it Hit) as Hg. destruct it as [ns|ns|ns|t inst ops|l r|bb inst conns]; cbn [itemgood] in Hg.
    1-3: (cbn [uses_sym gate_view_sym] in Hx; by apply elem_of_nil in Hx).
    - destruct Hg as (o & ins & -> & Hl). cbn [uses_sym gate_view_sym] in Hx. pose proof (norm_sym_good a t ins Hl) as Hn. destruct (norm_sym t ins). by eapply (proj1 (Forall_forall _ _) Hn).
    - cbn [uses_sym gate_view_sym] in Hx. apply elem_of_list_singleton in Hx as ->. done.
    - destruct Hg as (d & Hf & Hc). cbn [uses_sym] in Hx. rewrite Hf in Hx. apply elem_of_list_fmap in Hx as ([p o] & -> & [Hin _]%in_ops_elem). by destruct (Hc p o Hin).
  Qed.
  Lemma all_ops_good x : x ∈ all_ops → goodop x.
  Proof. intros (it & Hx & Hit)%elem_of_list_bind. by eapply uses_sym_good. Qed.
  (* operands of a node: well-formed; a constant among them is a "use" *)
  Lemma symG_ops o v x : symG !! o = Some v → x ∈ v.2 → goodop x ∧ (∀ k, x = OConst k → x ∈ all_ops).
  Proof.
    intros (it & Hit & Hv)%symG_item Hx. pose proof (itemgood_of it Hit) as Hg. split.
    - pose proof (views_sym_good a bbs it o v Hg Hv) as Hgd. by eapply (proj1 (Forall_forall _ _) Hgd).
    - intros k ->. apply elem_of_list_bind. exists it. split; [|done].
      destruct it as [ns|ns|ns|t inst ops|l r|bb inst conns]; cbn [itemgood] in Hg.
      1-3: (cbn [views_sym gate_view_sym] in Hv; by apply elem_of_nil in Hv).
      + destruct Hg as (o' & ins & -> & _). cbn [views_sym uses_sym gate_view_sym] in *. apply elem_of_list_singleton in Hv as [= -> ->]. by destruct (norm_sym t ins).
      + cbn [views_sym uses_sym gate_view_sym] in *. apply elem_of_list_singleton in Hv as [= -> ->]. done.
      + destruct Hg as (d & Hf & _). cbn [views_sym uses_sym] in *. rewrite Hf in *. unfold inst_views_sym in Hv. apply elem_of_app in Hv as [Hv|Hv].
        * apply elem_of_list_fmap in Hv as ([p t] & [= -> ->] & _). cbn [snd] in Hx. apply elem_of_list_fmap in Hx as (c & -> & [_ Hc]%elem_of_list_filter).
          apply elem_of_list_fmap. eauto.
        * apply elem_of_list_fmap in Hv as ([p o'] & [= -> ->] & _). cbn [snd] in Hx. by apply elem_of_list_singleton in Hx.
  Qed.
  Lemma symG_type o v : symG !! o = Some v → v.1 ∈ primitive_gates ∨ v.1 = BbIn ∨ v.1 = BbOut.
  Proof.
    intros (it & Hit & Hv)%symG_item. pose proof (fgood_of a bbs Hsub it Hit) as Hg.
    destruct it as [ns|ns|ns|t inst ops|l r|bb inst conns]; cbn [views_sym gate_view_sym fgood] in *; try (by apply elem_of_nil in Hv).
    - destruct Hg as (o' & ins & -> & Ht & _). apply elem_of_list_singleton in Hv as [= -> ->]. left. unfold norm_sym. destruct (is_parity t); [|done].
      case_bool_decide; [vm_compute; set_solver|done].
    - apply elem_of_list_singleton in Hv as [= -> ->]. left. vm_compute. set_solver.
    - destruct Hg as (d & Hf & _). rewrite Hf in Hv. unfold inst_views_sym in Hv. apply elem_of_app in Hv as [Hv|Hv].
      + apply elem_of_list_fmap in Hv as ([p t] & [= -> ->] & [[_ ->]|[_ ->]]%pin_list_elem); auto.
      + apply elem_of_list_fmap in Hv as ([p o'] & [= -> ->] & _). left. vm_compute. set_solver.
  Qed.

  Section withT.
    Variables (t0 t1 : string).
    Hypothesis Hfr : t0 ∉ idents a ∧ t1 ∉ idents a.
    Hypothesis Hne : t0 ≠ t1.
    Hypothesis Hdot : dotted t0 = false ∧ dotted t1 = false.
    Lemma sG_symG : sG (sF t0 t1 bbs a) = symv t0 t1 <$> symG.
    Proof. unfold sF, FvD2.symG. apply (sG_sym a bbs t0 t1 Hfr Hne Hdot); [by rewrite fmap_empty|]. apply itemgood_of. Qed.
    Lemma uses_ops : a_items a ≫= uses t0 t1 bbs = nm t0 t1 <$> all_ops.
    Proof.
      unfold FvD3.all_ops. assert (H : ∀ l, (∀ it, it ∈ l → it ∈ a_items a) → l ≫= uses t0 t1 bbs = nm t0 t1 <$> (l ≫= uses_sym bbs)).
      { induction l as [|it l IH]; intros Hl; [done|]. rewrite !bind_cons, fmap_app, IH by (intros; apply Hl; by right). f_equal.
        apply (uses_sym_eq a bbs t0 t1 Hfr Hne Hdot). apply itemgood_of, Hl. by left. }
      by apply H.
    Qed.
    Lemma used_sym k x : (x = OConst "1'b0" ∧ k = t0) ∨ (x = OConst "1'b1" ∧ k = t1) → k ∈ a_items a ≫= uses t0 t1 bbs ↔ x ∈ all_ops.
    Proof.
      intros Hk. rewrite uses_ops. split.
      - intros (y & Hy & Hin)%elem_of_list_fmap. assert (x = y) as ->; [|done].
        apply (nm_inj a t0 t1 Hfr Hne Hdot); [destruct Hk as [[-> _]|[-> _]]; simpl; auto|by apply all_ops_good|].
        destruct Hk as [[-> ->]|[-> ->]]; done.
      - intros Hin. apply elem_of_list_fmap. exists x. split; [|done]. destruct Hk as [[-> ->]|[-> ->]]; done.
    Qed.
    (* finT through the symbolic state *)
    Lemma finT_sym m : finT t0 t1 bbs a m =
      if decide (m = t0) then (if decide (OConst "1'b0" ∈ all_ops) then Some (mk_node C0 false ∅) else None) else
      if decide (m = t1) then (if decide (OConst "1'b1" ∈ all_ops) then Some (mk_node C1 false ∅) else None) else
      match symG !! m with
      | Some v => Some (mk_node v.1 (bool_decide (m ∈ decl_outputs a)) (list_to_set (nm t0 t1 <$> v.2)))
      | None => if decide (m ∈ decl_inputs a) then Some (mk_node Input (bool_decide (m ∈ decl_outputs a)) ∅) else None
      end.
    Proof.
      unfold finT. rewrite sG_symG, lookup_fmap.
      destruct (decide (m = t0)).
      { destruct (decide (t0 ∈ _)) as [Hu|Hu]; [rewrite decide_True; [done|]|rewrite decide_False; [done|]];
          [apply (used_sym t0 (OConst "1'b0")); auto|intros Hx; apply Hu; apply (used_sym t0 (OConst "1'b0")); auto]. }
      destruct (decide (m = t1)).
      { destruct (decide (t1 ∈ _)) as [Hu|Hu]; [rewrite decide_True; [done|]|rewrite decide_False; [done|]];
          [apply (used_sym t1 (OConst "1'b1")); auto|intros Hx; apply Hu; apply (used_sym t1 (OConst "1'b1")); auto]. }
      destruct (symG !! m) as [[t l]|]; done.
    Qed.
  End withT.
End symfacts.
