(* C14 phase 2: agreement of the two reader models on modules without blackbox instances (part D3) *)
From stdpp Require Import strings gmap sets pretty.
From CG Require Import Model.FastVerilog Proofs.FastVerilogProofs Gen.Gen_fastv Base.Compose.
From CG Require Import Proofs.FvA0 Proofs.FvA1 Proofs.FvA2 Proofs.FvA3 Proofs.FvA4 Proofs.FvA5 Proofs.FvA6 Proofs.FvA7 Proofs.FvA8 Proofs.FvA9 Proofs.FvA10 Proofs.FvB1 Proofs.FvB2 Proofs.FvB3 Proofs.FvB4 Proofs.FvB5 Proofs.FvC1 Proofs.FvC2 Proofs.FvD1 Proofs.FvD2.
Open Scope string_scope.

Definition it_ops (it : item) : list opd := match gate_view_sym it with Some (_, (_, l)) => l | None => [] end.
Definition all_ops (a : ast) : list opd := a_items a ≫= it_ops.

Section symfacts.
  Variables (a : ast) (bbs : list bbdef).
  Hypothesis Hsub : in_subset a bbs = true.
  Hypothesis Hni : no_inst a = true.
  Let HF := in_subset_facts a bbs Hsub.

  Lemma itemgood_of it : it ∈ a_items a → itemgood a it.
  Proof.
    intros Hit. pose proof (fgood_of a bbs Hsub Hni it Hit) as Hg.
    destruct it as [ns|ns|ns|t inst ops|l r|bb inst conns]; cbn [fgood itemgood] in *; try done.
    - destruct Hg as (o & ins & -> & Ht & Hc & Hio & Hnets). exists o, ins. split; [done|]. apply Forall_forall. intros x Hx.
      destruct x as [s|s]; cbn [goodop].
      + eapply idents_item; [exact Hit|]. cbn [item_ids]. right. rewrite bind_cons. apply elem_of_app. right. apply elem_of_list_bind. exists (ONet s). split; [by left|done].
      + rewrite forallb_forall in Hc. specialize (Hc (OConst s)). rewrite <- elem_of_list_In in Hc. specialize (Hc Hx). simpl in Hc.
        apply orb_true_iff in Hc as [?%bool_decide_eq_true|?%bool_decide_eq_true]; auto.
    - destruct Hg as [Hc Hn]. destruct r as [s|s]; cbn [goodop].
      + eapply idents_item; [exact Hit|]. right. by left.
      + simpl in Hc. apply orb_true_iff in Hc as [?%bool_decide_eq_true|?%bool_decide_eq_true]; auto.
  Qed.
  Lemma symG_from items : ∀ G o v, foldl stp_sym G items !! o = Some v → G !! o = Some v ∨ ∃ it, it ∈ items ∧ gate_view_sym it = Some (o, v).
  Proof.
    induction items as [|it items IH]; intros G o v; cbn [foldl]; [auto|]. intros H. apply IH in H as [H|(it' & ? & ?)]; [|right; exists it'; split; [by right|done]].
    unfold stp_sym in H. destruct (gate_view_sym it) as [[o' v']|] eqn:E; [|auto].
    apply lookup_insert_Some in H as [[-> ->]|[_ ?]]; [right; exists it; split; [by left|done]|auto].
  Qed.
  Lemma symG_item o v : symG a !! o = Some v → ∃ it, it ∈ a_items a ∧ gate_view_sym it = Some (o, v).
  Proof. intros H. apply symG_from in H as [H|?]; [by rewrite lookup_empty in H|done]. Qed.
  Lemma symG_ops o v x : symG a !! o = Some v → x ∈ v.2 → x ∈ all_ops a ∧ goodop a x.
  Proof.
    intros (it & Hit & Hv)%symG_item Hx. split.
    - apply elem_of_list_bind. exists it. split; [|done]. unfold it_ops. rewrite Hv. by destruct v.
    - pose proof (view_sym_good a it o v (itemgood_of it Hit) Hv) as Hg. by eapply (proj1 (Forall_forall _ _) Hg).
  Qed.
  Lemma symG_type o v : symG a !! o = Some v → v.1 ∈ primitive_gates.
  Proof.
    intros (it & Hit & Hv)%symG_item. pose proof (fgood_of a bbs Hsub Hni it Hit) as Hg.
    destruct it as [ns|ns|ns|t inst ops|l r|bb inst conns]; cbn [gate_view_sym fgood] in *; try done.
    - destruct Hg as (o' & ins & -> & Ht & _). injection Hv as <- <-. unfold norm_sym. destruct (is_parity t); [|done].
      case_bool_decide; [vm_compute; set_solver|done].
    - injection Hv as <- <-. vm_compute. set_solver.
  Qed.
  Lemma all_ops_good x : x ∈ all_ops a → goodop a x.
  Proof.
    intros (it & Hx & Hit)%elem_of_list_bind. unfold it_ops in Hx. destruct (gate_view_sym it) as [[o [t l]]|] eqn:E; [|by apply elem_of_nil in Hx].
    pose proof (view_sym_good a it o (t, l) (itemgood_of it Hit) E) as Hg. by eapply (proj1 (Forall_forall _ _) Hg).
  Qed.

  Section withT.
    Variables (t0 t1 : string).
    Hypothesis Hfr : t0 ∉ idents a ∧ t1 ∉ idents a.
    Hypothesis Hne : t0 ≠ t1.
    Lemma sG_symG : sG (sF t0 t1 a) = symv t0 t1 <$> symG a.
    Proof. unfold sF, symG. apply (sG_sym a t0 t1 Hfr Hne); [by rewrite fmap_empty|]. apply itemgood_of. Qed.
    Lemma uses_ops : a_items a ≫= it_uses t0 t1 = nm t0 t1 <$> all_ops a.
    Proof.
      unfold all_ops. assert (H : ∀ l, (∀ it, it ∈ l → it ∈ a_items a) → l ≫= it_uses t0 t1 = nm t0 t1 <$> (l ≫= it_ops)).
      { induction l as [|it l IH]; intros Hl; [done|]. rewrite !bind_cons, fmap_app, IH by (intros; apply Hl; by right). f_equal.
        unfold it_uses, it_ops. rewrite (view_sym a t0 t1 Hfr Hne it) by (apply itemgood_of, Hl; by left).
        destruct (gate_view_sym it) as [[o [t l']]|]; done. }
      by apply H.
    Qed.
    Lemma used_sym k x : (x = OConst "1'b0" ∧ k = t0) ∨ (x = OConst "1'b1" ∧ k = t1) → k ∈ a_items a ≫= it_uses t0 t1 ↔ x ∈ all_ops a.
    Proof.
      intros Hk. rewrite uses_ops. split.
      - intros (y & Hy & Hin)%elem_of_list_fmap. assert (x = y) as ->; [|done].
        apply (nm_inj a t0 t1 Hfr Hne); [destruct Hk as [[-> _]|[-> _]]; simpl; auto|by apply all_ops_good|].
        destruct Hk as [[-> ->]|[-> ->]]; done.
      - intros Hin. apply elem_of_list_fmap. exists x. split; [|done]. destruct Hk as [[-> ->]|[-> ->]]; done.
    Qed.
    (* finT through the symbolic state *)
    Lemma finT_sym m : finT t0 t1 a m =
      if decide (m = t0) then (if decide (OConst "1'b0" ∈ all_ops a) then Some (mk_node C0 false ∅) else None) else
      if decide (m = t1) then (if decide (OConst "1'b1" ∈ all_ops a) then Some (mk_node C1 false ∅) else None) else
      match symG a !! m with
      | Some v => Some (mk_node v.1 (bool_decide (m ∈ decl_outputs a)) (list_to_set (nm t0 t1 <$> v.2)))
      | None => if decide (m ∈ decl_inputs a) then Some (mk_node Input (bool_decide (m ∈ decl_outputs a)) ∅) else None
      end.
    Proof.
      unfold finT. rewrite sG_symG, lookup_fmap.
      destruct (decide (m = t0)).
      { destruct (decide (t0 ∈ _)) as [Hu|Hu]; [rewrite decide_True; [done|]|rewrite decide_False; [done|]];
          [apply (used_sym t0 (OConst "1'b0")); auto|intros Hx; apply Hu; apply (used_sym t0 (OConst "1'b0")); auto]. }
      destruct (decide (m = t1)).
      { destruct (decide (t1 ∈ _)) as [Hu|Hu]; [rewrite decide_True; [done|]|rewrite decide_False; [done|]];
          [apply (used_sym t1 (OConst "1'b1")); auto|intros Hx; apply Hu; apply (used_sym t1 (OConst "1'b1")); auto]. }
      destruct (symG a !! m) as [[t l]|]; done.
    Qed.
  End withT.
End symfacts.
