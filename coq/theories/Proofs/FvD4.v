(* C14 phase 2: agreement of the two reader models on the documented subset (part D4) *)
From stdpp Require Import strings gmap sets pretty.
From CG Require Import Model.FastVerilog Proofs.FastVerilogProofs Gen.Gen_fastv Base.Sem Base.Compose.
From CG Require Import Proofs.FvA0 Proofs.FvA1 Proofs.FvA2 Proofs.FvP1 Proofs.FvE1 Proofs.FvE2 Proofs.FvE3 Proofs.FvE4 Proofs.FvA3 Proofs.FvE5 Proofs.FvE6 Proofs.FvE7 Proofs.FvA4 Proofs.FvA5 Proofs.FvA6 Proofs.FvA7 Proofs.FvA8 Proofs.FvA9 Proofs.FvA10 Proofs.FvB1 Proofs.FvB2 Proofs.FvB3 Proofs.FvB4 Proofs.FvB5 Proofs.FvC1 Proofs.FvC2 Proofs.FvD1 Proofs.FvD2 Proofs.FvD3.
Open Scope string_scope.

Lemma rename_lookup (σ : string → string) `{!Inj (=) (=) σ} (c : circuit) m : (∀ n, σ (σ n) = n) →
  rename σ c !! m = ren_info σ <$> c !! σ m.
Proof. intros Hinv. unfold rename. rewrite <- (Hinv m) at 1. by rewrite lookup_kmap, lookup_fmap. Qed.

(* the right-hand side of finT_sym as a function *)
Definition FS (bbs : list bbdef) (a : ast) (t0 t1 : string) (m : string) : option ninfo :=
  if decide (m = t0) then (if decide (OConst "1'b0" ∈ all_ops bbs a) then Some (mk_node C0 false ∅) else None) else
  if decide (m = t1) then (if decide (OConst "1'b1" ∈ all_ops bbs a) then Some (mk_node C1 false ∅) else None) else
  match symG bbs a !! m with
  | Some v => Some (mk_node v.1 (bool_decide (m ∈ decl_outputs a)) (list_to_set (nm t0 t1 <$> v.2)))
  | None => if decide (m ∈ decl_inputs a) then Some (mk_node Input (bool_decide (m ∈ decl_outputs a)) ∅) else None
  end.

Section swap.
  Variables (a : ast) (bbs : list bbdef).
  Hypothesis Hsub : in_subset a bbs = true.
  Let HF := in_subset_facts a bbs Hsub.
  Variables (t0 t1 : string).
  Hypothesis Hfr : t0 ∉ idents a ∧ t1 ∉ idents a.
  Hypothesis Hd : distinct6 t0 t1 "?x".
  Hypothesis Hdot : dotted t0 = false ∧ dotted t1 = false.
  Let σ := tie_swap t0 t1 "?x".

  Lemma six_neq : t0 ≠ t1 ∧ t0 ≠ "?x" ∧ t0 ≠ "1'b0" ∧ t0 ≠ "1'b1" ∧ t0 ≠ "1'bx" ∧ t1 ≠ "?x" ∧ t1 ≠ "1'b0" ∧ t1 ≠ "1'b1" ∧ t1 ≠ "1'bx".
  Proof. unfold distinct6 in Hd. rewrite !NoDup_cons, !elem_of_cons in Hd. naive_solver. Qed.
  Definition keyish (s : string) : Prop := s ∈ idents a ∨ dotted s = true.
  Lemma ident_not_six s : keyish s → s ∉ [t0; t1; "?x"; "1'b0"; "1'b1"; "1'bx"].
  Proof.
    destruct Hfr as [H0 H1]. destruct Hdot as [Hd0 Hd1]. rewrite !elem_of_cons. intros [Hs|Hs].
    - pose proof (sf_ident a bbs HF s Hs) as Hi. intros [->|[->|[->|[->|[->|[->|Hn]]]]]]; try done; try (vm_compute in Hi; discriminate). by apply elem_of_nil in Hn.
    - intros [->|[->|[->|[->|[->|[->|Hn]]]]]]; try congruence; try (vm_compute in Hs; discriminate). by apply elem_of_nil in Hn.
  Qed.
  Lemma σ_ident s : keyish s → σ s = s.
  Proof. intros Hs. apply tie_swap_id. by apply ident_not_six. Qed.
  Lemma σ_t0 : σ t0 = "1'b0". Proof. unfold σ, tie_swap. by rewrite decide_True. Qed.
  Lemma σ_t1 : σ t1 = "1'b1".
  Proof. destruct six_neq as (? & ? & ? & ? & ? & ? & ? & ? & ?). unfold σ, tie_swap. rewrite decide_False, decide_False, decide_True by done. done. Qed.
  Lemma σ_invol n : σ (σ n) = n. Proof. by apply tie_swap_invol. Qed.
  Global Instance σ_inj : Inj (=) (=) σ. Proof. by apply tie_swap_inj. Qed.
  Lemma σ_k0 : σ "1'b0" = t0. Proof. rewrite <- σ_t0. apply σ_invol. Qed.
  Lemma σ_k1 : σ "1'b1" = t1. Proof. rewrite <- σ_t1. apply σ_invol. Qed.

  Lemma nonident_none m : ¬ keyish m → symG bbs a !! m = None ∧ m ∉ decl_inputs a.
  Proof.
    intros Hm. split.
    - destruct (symG bbs a !! m) as [v|] eqn:E; [|done]. exfalso. apply Hm.
      assert (HG : sG (sF "1'b0" "1'b1" bbs a) !! m = Some (symv "1'b0" "1'b1" v)).
      { rewrite (sG_symG a bbs Hsub "1'b0" "1'b1"); [by rewrite lookup_fmap, E| |done|by vm_compute].
        split; intros Hs; pose proof (sf_ident a bbs HF _ Hs) as Hi; vm_compute in Hi; discriminate. }
      assert (Hk0 : "1'b0" ∉ idents a ∧ "1'b1" ∉ idents a) by (split; intros Hs; pose proof (sf_ident a bbs HF _ Hs) as Hi; vm_compute in Hi; discriminate).
      destruct (G_key a bbs Hsub "1'b0" "1'b1" Hk0 m _ HG) as [_ [?|?]]; [by right|by left].
    - intros Hi. apply Hm. left. unfold decl_inputs in Hi. apply elem_of_list_bind in Hi as (it' & Hi & Hit').
      eapply idents_item; [exact Hit'|]. destruct it'; try (by apply elem_of_nil in Hi). done.
  Qed.
  Lemma FS_nonident u0 u1 m : ¬ keyish m → m ≠ u0 → m ≠ u1 → FS bbs a u0 u1 m = None.
  Proof. intros Hm H0 H1. unfold FS. rewrite decide_False, decide_False by done. destruct (nonident_none m Hm) as [-> Hi]. by rewrite decide_False. Qed.
  Lemma σ_nm x : goodop a x → σ (nm t0 t1 x) = nm "1'b0" "1'b1" x.
  Proof.
    destruct x as [s|s]; cbn [goodop].
    - intros Hs. cbn [nm]. by apply σ_ident.
    - intros [->| ->]; [apply σ_t0|apply σ_t1].
  Qed.

  Lemma k_not_ident : ¬ keyish "1'b0" ∧ ¬ keyish "1'b1" ∧ ¬ keyish "1'bx" ∧ ¬ keyish "?x".
  Proof. repeat split; (intros [Hs|Hs]; [pose proof (sf_ident a bbs HF _ Hs) as Hi; vm_compute in Hi; discriminate|vm_compute in Hs; discriminate]). Qed.
  Lemma tie_not_keyish : ¬ keyish t0 ∧ ¬ keyish t1.
  Proof. destruct Hfr, Hdot. split; intros [?|?]; congruence. Qed.

  (* renaming the constants of the T-instance to their canonical names gives the canonical instance *)
  Lemma swap_FS m : ren_info σ <$> FS bbs a t0 t1 (σ m) = FS bbs a "1'b0" "1'b1" m.
  Proof.
    destruct six_neq as (N01 & N0x & N00 & N0b & N0c & N1x & N10 & N11 & N1c). destruct tie_not_keyish as [Hf0 Hf1].
    destruct k_not_ident as (Hk0 & Hk1 & Hkx & Hqx).
    destruct (decide (m = "1'b0")) as [->|Hm0].
    { rewrite σ_k0. unfold FS. rewrite !decide_True by done. destruct (decide _); [|done]. simpl. unfold ren_info, mk_node. simpl. by rewrite set_map_empty. }
    destruct (decide (m = "1'b1")) as [->|Hm1].
    { rewrite σ_k1. unfold FS. rewrite (decide_False (P := t1 = t0)) by done. rewrite (decide_False (P := "1'b1" = "1'b0")) by done.
      rewrite !decide_True by done. destruct (decide _); [|done]. simpl. unfold ren_info, mk_node. simpl. by rewrite set_map_empty. }
    destruct (decide (m = t0)) as [->|Hmt0].
    { rewrite σ_t0. rewrite (FS_nonident t0 t1 "1'b0") by done. rewrite (FS_nonident "1'b0" "1'b1" t0) by done. done. }
    destruct (decide (m = t1)) as [->|Hmt1].
    { rewrite σ_t1. rewrite (FS_nonident t0 t1 "1'b1") by done. rewrite (FS_nonident "1'b0" "1'b1" t1) by done. done. }
    assert (Hdec : keyish m ∨ ¬ keyish m). { unfold keyish. destruct (decide (m ∈ idents a)); [tauto|]. destruct (dotted m); [tauto|]. right. intros [?|?]; done. }
    destruct Hdec as [Hmi|Hmi].
    - rewrite σ_ident by done. unfold FS. rewrite (decide_False (P := m = t0)), (decide_False (P := m = t1)), (decide_False (P := m = "1'b0")), (decide_False (P := m = "1'b1")) by done.
      destruct (symG bbs a !! m) as [v|] eqn:E.
      + simpl. unfold ren_info, mk_node. simpl. do 2 f_equal. apply set_eq. intros x. rewrite elem_of_map, elem_of_list_to_set. split.
        * intros (y & -> & Hy). apply elem_of_list_to_set in Hy. apply elem_of_list_fmap in Hy as (z & -> & Hz).
          apply elem_of_list_fmap. exists z. split; [|done]. apply σ_nm. by destruct (symG_ops a bbs Hsub m v z E Hz).
        * intros (z & -> & Hz)%elem_of_list_fmap. exists (nm t0 t1 z). split.
          -- symmetry. apply σ_nm. by destruct (symG_ops a bbs Hsub m v z E Hz).
          -- apply elem_of_list_to_set. by apply elem_of_list_fmap_1.
      + destruct (decide (m ∈ decl_inputs a)); [|done]. simpl. unfold ren_info, mk_node. simpl. by rewrite set_map_empty.
    - assert (Hs : ¬ keyish (σ m)). { intros Hs. apply Hmi. rewrite <- (σ_invol m). by rewrite (σ_ident _ Hs). }
      rewrite (FS_nonident t0 t1 (σ m)); [|done| |].
      + by rewrite (FS_nonident "1'b0" "1'b1" m).
      + intros Hx. apply Hm0. rewrite <- (σ_invol m), Hx. apply σ_t0.
      + intros Hx. apply Hm1. rewrite <- (σ_invol m), Hx. apply σ_t1.
  Qed.
End swap.
