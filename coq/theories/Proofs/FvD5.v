(* C14 phase 2: agreement of the two reader models on the documented subset (part D5) *)
From stdpp Require Import strings gmap sets pretty.
From CG Require Import Model.FastVerilog Proofs.FastVerilogProofs Gen.Gen_fastv Base.Sem Base.Compose.
From CG Require Import Proofs.FvA0 Proofs.FvA1 Proofs.FvA2 Proofs.FvP1 Proofs.FvE1 Proofs.FvE2 Proofs.FvE3 Proofs.FvE4 Proofs.FvA3 Proofs.FvE5 Proofs.FvE6 Proofs.FvE7 Proofs.FvA4 Proofs.FvA5 Proofs.FvA6 Proofs.FvA7 Proofs.FvA8 Proofs.FvA9 Proofs.FvA10 Proofs.FvB1 Proofs.FvB2 Proofs.FvB3 Proofs.FvB4 Proofs.FvB5 Proofs.FvC1 Proofs.FvC2 Proofs.FvD1 Proofs.FvD2 Proofs.FvD3 Proofs.FvD4.
Open Scope string_scope.

Lemma support_elim c n : n ∈ support c → n ∈ dom c ∨ ∃ m i, c !! m = Some i ∧ n ∈ n_fi i.
Proof.
  unfold support. rewrite elem_of_union. intros [?|H]; [by left|]. right. revert H.
  apply (map_fold_ind (λ acc c, n ∈ acc → ∃ m i, c !! m = Some i ∧ n ∈ n_fi i)); [set_solver|].
  intros k j m acc Hk IH. rewrite elem_of_union. intros [Hin|Hin].
  - exists k, j. by rewrite lookup_insert.
  - destruct (IH Hin) as (m' & i & Hm' & Hi). exists m', i. split; [|done]. rewrite lookup_insert_ne; [done|]. intros ->. by rewrite Hk in Hm'.
Qed.

Section untie.
  Variables (a : ast) (bbs : list bbdef).
  Hypothesis Hsub : in_subset a bbs = true.
  Variables (t0 t1 : string).
  Hypothesis Hfr : t0 ∉ idents a ∧ t1 ∉ idents a.
  Hypothesis Hd : distinct6 t0 t1 "?x".
  Hypothesis Hdot : dotted t0 = false ∧ dotted t1 = false.
  Let σ := tie_swap t0 t1 "?x".

  Lemma untie_fin c : (∀ m, c !! m = finT t0 t1 bbs a m) → ∀ m, untie_g c !! m = FS bbs a "1'b0" "1'b1" m.
  Proof.
    intros Hc. unfold σ in *. destruct (six_neq a t0 t1 Hfr Hd Hdot) as (N01 & N0x & N00 & N0b & N0c & N1x & N10 & N11 & N1c).
    assert (HcF : ∀ m, c !! m = FS bbs a t0 t1 m). { intros m. rewrite Hc. by apply (finT_sym a bbs Hsub t0 t1 Hfr N01 Hdot). }
    pose proof (σ_inj t0 t1 Hd) as Hinj.
    assert (Hext : untie_g c = rename (tie_swap t0 t1 "?x") c).
    { unfold untie_g. apply (rename_g_ext _ (tie_swap t0 t1 "?x") c). intros n Hn. unfold cname, ty.
      assert (Hcase : (n = t0 ∧ OConst "1'b0" ∈ all_ops bbs a) ∨ (n = t1 ∧ OConst "1'b1" ∈ all_ops bbs a) ∨ keyish a n).
      { apply support_elim in Hn as [Hn|(m & i & Hm & Hi)].
        - apply elem_of_dom in Hn as [i Hi]. rewrite HcF in Hi. unfold FS in Hi.
          destruct (decide (n = t0)) as [->|]; [destruct (decide _); [auto|done]|].
          destruct (decide (n = t1)) as [->|]; [destruct (decide _); [auto|done]|].
          right. right. assert (Hdec : keyish a n ∨ ¬ keyish a n). { unfold keyish. destruct (decide (n ∈ idents a)); [tauto|]. destruct (dotted n); [tauto|]. right. intros [?|?]; done. }
          destruct Hdec as [|Hni']; [done|]. destruct (nonident_none a bbs Hsub n Hni') as [HG Hin]. rewrite HG in Hi.
          by rewrite decide_False in Hi.
        - rewrite HcF in Hm. unfold FS in Hm.
          destruct (decide (m = t0)); [destruct (decide _); [injection Hm as <-; set_solver|done]|].
          destruct (decide (m = t1)); [destruct (decide _); [injection Hm as <-; set_solver|done]|].
          destruct (symG bbs a !! m) as [v|] eqn:E.
          + injection Hm as <-. cbn [n_fi mk_node] in Hi. apply elem_of_list_to_set in Hi. apply elem_of_list_fmap in Hi as (z & -> & Hz).
            destruct (symG_ops a bbs Hsub m v z E Hz) as [Hgood Hall]. destruct z as [s|s]; cbn [goodop nm] in *; [right; right; exact Hgood|].
            pose proof (Hall s eq_refl) as Hin'. destruct Hgood as [->| ->]; [left|right; left]; done.
          + destruct (decide (m ∈ decl_inputs a)); [injection Hm as <-; set_solver|done]. }
      rewrite HcF. destruct Hcase as [[-> Hu]|[[-> Hu]|Hid]].
      - unfold FS. rewrite decide_True, decide_True by done. simpl. symmetry. apply σ_t0.
      - unfold FS. rewrite (decide_False (P := t1 = t0)) by done. rewrite decide_True, decide_True by done. simpl. symmetry. by apply (σ_t1 a t0 t1 Hfr Hd Hdot).
      - rewrite (σ_ident a bbs Hsub t0 t1 Hfr Hdot n Hid). unfold FS.
        destruct (tie_not_keyish a t0 t1 Hfr Hdot) as [Hf0 Hf1]. rewrite decide_False by (intros ->; done). rewrite decide_False by (intros ->; done).
        destruct (symG bbs a !! n) as [v|] eqn:E.
        + simpl. destruct (symG_type a bbs Hsub n v E) as [Ht|[Ht|Ht]]; [destruct v.1; try done; vm_compute in Ht; set_solver|by rewrite Ht|by rewrite Ht].
        + destruct (decide (n ∈ decl_inputs a)); done. }
    intros m. rewrite Hext. rewrite (rename_lookup (tie_swap t0 t1 "?x") c m (σ_invol t0 t1 Hd)). rewrite HcF. by apply (swap_FS a bbs Hsub t0 t1 Hfr Hd Hdot).
  Qed.
End untie.
