(* C14 phase 2: agreement of the two reader models on the documented subset (part D6) *)
From stdpp Require Import strings gmap sets pretty.
From CG Require Import Model.FastVerilog Proofs.FastVerilogProofs Gen.Gen_fastv Base.Sem Base.Compose.
From CG Require Import Proofs.FvA0 Proofs.FvA1 Proofs.FvA2 Proofs.FvP1 Proofs.FvE1 Proofs.FvE2 Proofs.FvE3 Proofs.FvE4 Proofs.FvA3 Proofs.FvE5 Proofs.FvE6 Proofs.FvE7 Proofs.FvA4 Proofs.FvA5 Proofs.FvA6 Proofs.FvA7 Proofs.FvA8 Proofs.FvA9 Proofs.FvA10 Proofs.FvB1 Proofs.FvB2 Proofs.FvB3 Proofs.FvB4 Proofs.FvB5 Proofs.FvC1 Proofs.FvC2 Proofs.FvD1 Proofs.FvD2 Proofs.FvD3 Proofs.FvD4 Proofs.FvD5.
Open Scope string_scope.

Lemma uid_in_cases U n : uid_in U n = n ∨ ∃ j, uid_in U n = cand n j.
Proof.
  unfold uid_in. case_bool_decide; [right|by left].
  generalize (S (size U)) 0%N. intros f. induction f as [|f IH]; intros i; simpl; [eauto|]. case_bool_decide; eauto.
Qed.

Ltac six := unfold distinct6; rewrite !NoDup_cons, !elem_of_cons, !elem_of_nil; repeat split;
  try (let H := fresh in intros H; repeat (destruct H as [H|H]); simplify_eq/=; done); try apply NoDup_nil; try exact I.

Lemma fast_distinct6 a : distinct6 (kt0 a) (kt1 a) "?x".
Proof.
  unfold kt0, kt1.
  destruct (tie_name_cases (idents a) fast_tie0) as [->|[i ->]]; destruct (tie_name_cases (idents a) fast_tie1) as [->|[j ->]];
    unfold cand, pre; vm_compute fast_tie0; vm_compute fast_tie1; simpl; six.
Qed.
Lemma full_distinct6 a : distinct6 (ft0 a) (ft1 a) "?x".
Proof.
  unfold ft0, ft1.
  destruct (uid_in_cases (idents a) full_tie0) as [->|[i ->]]; destruct (uid_in_cases (dom (fg1 a) ∪ idents a) full_tie1) as [->|[j ->]];
    unfold cand, pre; vm_compute full_tie0; vm_compute full_tie1; simpl; six.
Qed.

(* THE AGREEMENT THEOREM: every AST of the documented subset *)
Theorem agree_all a bbs : in_subset a bbs = true → agreement a bbs.
Proof.
  intros Hsub. pose proof (in_subset_facts a bbs Hsub) as HF.
  destruct (fast_sem_char a bbs Hsub) as (g3 & g4 & Bf & Hg3 & Hg4 & Hfast).
  destruct (full_sem_char a bbs Hsub) as (C1 & g1 & Hrel & Hg1 & Hfull).
  destruct (full_ties_facts a) as (_ & (Hl0 & Hl1 & Hlx) & N01 & N0x & N1x).
  destruct (full_ties_nodot a) as (Hd0 & Hd1 & Hdx).
  destruct (fast_fresh a) as [Hk0 Hk1]. pose proof (fast_nodot a) as Hkd.
  eexists _, _. split; [exact Hfast|]. split; [exact Hfull|].
  destruct (registry_agree a bbs _ _ (sf_bbs a bbs HF) Hfast Hfull) as [_ Hbbs]. cbn [c_bbs] in Hbbs.
  unfold untie, with_g. cbn [c_name c_g c_bbs]. rewrite Hbbs. f_equal. apply map_eq. intros m.
  rewrite (untie_fin a bbs Hsub (kt0 a) (kt1 a) (conj Hk0 Hk1) (fast_distinct6 a) Hkd).
  2:{ apply (fast_fin a bbs Hsub (kt0 a) (kt1 a) (conj Hk0 Hk1) (fast_ne a) Hkd g3 g4 Hg3 Hg4). }
  rewrite (untie_fin a bbs Hsub (ft0 a) (ft1 a) (conj Hl0 Hl1) (full_distinct6 a) (conj Hd0 Hd1)); [done|].
  apply (full_fin a bbs Hsub (ft0 a) (ft1 a) (conj Hl0 Hl1) N01 (conj Hd0 Hd1) (ftx a) (c_g C1) g1); try done; by apply not_eq_sym.
Qed.
Corollary agree_gates a bbs : in_subset a bbs = true → no_inst a = true → agreement a bbs.
Proof. intros H _. by apply agree_all. Qed.
