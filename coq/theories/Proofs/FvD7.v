(* C14 phase 2: agreement of the two reader models on the documented subset (part D7) *)
From stdpp Require Import strings gmap sets pretty.
From CG Require Import Model.FastVerilog Proofs.FastVerilogProofs Gen.Gen_fastv Base.Sem Base.Compose.
From CG Require Import Proofs.FvA0 Proofs.FvA1 Proofs.FvA2 Proofs.FvP1 Proofs.FvE1 Proofs.FvE2 Proofs.FvE3 Proofs.FvE4 Proofs.FvA3 Proofs.FvE5 Proofs.FvE6 Proofs.FvE7 Proofs.FvA4 Proofs.FvA5 Proofs.FvA6 Proofs.FvA7 Proofs.FvA8 Proofs.FvA9 Proofs.FvA10 Proofs.FvB1 Proofs.FvB2 Proofs.FvB3 Proofs.FvB4 Proofs.FvB5 Proofs.FvC1 Proofs.FvC2 Proofs.FvD1 Proofs.FvD2 Proofs.FvD3 Proofs.FvD4 Proofs.FvD5 Proofs.FvD6.
Open Scope string_scope.

Section shape.
  Variables (a : ast) (bbs : list bbdef).
  Hypothesis Hsub : in_subset a bbs = true.
  Variables (t0 t1 : string).
  Hypothesis Hfr : t0 ∉ idents a ∧ t1 ∉ idents a.
  Hypothesis Hd : distinct6 t0 t1 "?x".
  Hypothesis Hdot : dotted t0 = false ∧ dotted t1 = false.

  Lemma fin_tie_shape c : (∀ m, c !! m = finT t0 t1 bbs a m) → tie_shape c t0 t1 "?x".
  Proof.
    intros Hc. split; [done|]. destruct (six_neq a t0 t1 Hfr Hd Hdot) as (N01 & N0x & N00 & N0b & N0c & N1x & N10 & N11 & N1c).
    assert (HcF : ∀ m, c !! m = FS bbs a t0 t1 m). { intros m. rewrite Hc. by apply (finT_sym a bbs Hsub t0 t1 Hfr N01 Hdot). }
    intros n Hn. unfold cname, ty.
    assert (Hcase : (n = t0 ∧ OConst "1'b0" ∈ all_ops bbs a) ∨ (n = t1 ∧ OConst "1'b1" ∈ all_ops bbs a) ∨ keyish a n).
    { apply support_elim in Hn as [Hn|(m & i & Hm & Hi)].
      - apply elem_of_dom in Hn as [i Hi]. rewrite HcF in Hi. unfold FS in Hi.
        destruct (decide (n = t0)) as [->|]; [destruct (decide _); [auto|done]|].
        destruct (decide (n = t1)) as [->|]; [destruct (decide _); [auto|done]|].
        right. right. assert (Hdec : keyish a n ∨ ¬ keyish a n). { unfold keyish. destruct (decide (n ∈ idents a)); [tauto|]. destruct (dotted n); [tauto|]. right. intros [?|?]; done. }
        destruct Hdec as [|Hni']; [done|]. destruct (nonident_none a bbs Hsub n Hni') as [HG Hin]. rewrite HG in Hi.
        by rewrite decide_False in Hi.
      - rewrite HcF in Hm. unfold FS in Hm.
        destruct (decide (m = t0)); [destruct (decide _); [injection Hm as <-; set_solver|done]|].
        destruct (decide (m = t1)); [destruct (decide _); [injection Hm as <-; set_solver|done]|].
        destruct (symG bbs a !! m) as [v|] eqn:E.
        + injection Hm as <-. cbn [n_fi mk_node] in Hi. apply elem_of_list_to_set in Hi. apply elem_of_list_fmap in Hi as (z & -> & Hz).
          destruct (symG_ops a bbs Hsub m v z E Hz) as [Hgood Hall]. destruct z as [s|s]; cbn [goodop nm] in *; [right; right; exact Hgood|].
          pose proof (Hall s eq_refl) as Hin'. destruct Hgood as [->| ->]; [left|right; left]; done.
        + destruct (decide (m ∈ decl_inputs a)); [injection Hm as <-; set_solver|done]. }
    rewrite HcF. destruct Hcase as [[-> Hu]|[[-> Hu]|Hid]].
    - unfold FS. rewrite decide_True, decide_True by done. simpl. symmetry. apply σ_t0.
    - unfold FS. rewrite (decide_False (P := t1 = t0)) by done. rewrite decide_True, decide_True by done. simpl. symmetry. by apply (σ_t1 a t0 t1 Hfr Hd Hdot).
    - rewrite (σ_ident a bbs Hsub t0 t1 Hfr Hdot n Hid). unfold FS.
      destruct (tie_not_keyish a t0 t1 Hfr Hdot) as [Hf0 Hf1]. rewrite decide_False by (intros ->; done). rewrite decide_False by (intros ->; done).
      destruct (symG bbs a !! n) as [v|] eqn:E.
      + simpl. destruct (symG_type a bbs Hsub n v E) as [Ht|[Ht|Ht]]; [destruct v.1; try done; vm_compute in Ht; set_solver|by rewrite Ht|by rewrite Ht].
      + destruct (decide (n ∈ decl_inputs a)); done.
  Qed.

  (* inputs and outputs of the common function *)
  Lemma fin_inputs c : (∀ m, c !! m = finT t0 t1 bbs a m) → inputs c = list_to_set (decl_inputs a).
  Proof.
    intros Hc. destruct (six_neq a t0 t1 Hfr Hd Hdot) as (N01 & _). apply set_eq. intros m. rewrite elem_of_inputs, elem_of_list_to_set. split.
    - intros (i & Hi & Hty). rewrite Hc, (finT_sym a bbs Hsub t0 t1 Hfr N01 Hdot) in Hi.
      destruct (decide (m = t0)); [destruct (decide _); by simplify_eq/=|]. destruct (decide (m = t1)); [destruct (decide _); by simplify_eq/=|].
      destruct (symG bbs a !! m) as [v|] eqn:E.
      + simplify_eq/=. destruct (symG_type a bbs Hsub m v E) as [Ht|[Ht|Ht]]; rewrite Hty in Ht; [vm_compute in Ht; set_solver|done|done].
      + destruct (decide (m ∈ decl_inputs a)); [done|by simplify_eq/=].
    - intros Hm. rewrite Hc, (finT_sym a bbs Hsub t0 t1 Hfr N01 Hdot).
      assert (Hmi : m ∈ idents a).
      { unfold decl_inputs in Hm. apply elem_of_list_bind in Hm as (it' & Hi & Hit'). eapply idents_item; [exact Hit'|]. destruct it'; try (by apply elem_of_nil in Hi). done. }
      destruct Hfr as [Hf0 Hf1]. rewrite decide_False by (intros ->; done). rewrite decide_False by (intros ->; done).
      destruct (symG bbs a !! m) as [v|] eqn:E.
      + exfalso. assert (HG : sG (sF t0 t1 bbs a) !! m = Some (symv t0 t1 v)) by (rewrite (sG_symG a bbs Hsub t0 t1 (conj Hf0 Hf1) N01 Hdot); by rewrite lookup_fmap, E).
        by destruct (G_key a bbs Hsub t0 t1 (conj Hf0 Hf1) m _ HG) as [? _].
      + rewrite decide_True by done. eauto.
  Qed.
End shape.

(* THE PROPERTY for every AST of the documented subset: same name, registry, inputs; graphs identical apart from the names
   of the constant nodes; every consistent valuation of the fast reader's circuit is matched by one of the full reader's circuit
   that agrees on every net of the netlist (hence the same function at every output and blackbox input pin) *)
Theorem property_all a bbs : in_subset a bbs = true →
  ∃ Cf Cl, fast_sem a bbs = Ok Cf ∧ full_sem a bbs = Ok Cl ∧ untie Cf = untie Cl ∧
    c_name Cf = c_name Cl ∧ c_bbs Cf = c_bbs Cl ∧ inputs (c_g Cf) = inputs (c_g Cl) ∧
    ∀ vf, consistent (c_g Cf) vf → ∃ vl, consistent (c_g Cl) vl ∧ ∀ n, n ∈ idents a ∨ dotted n = true → vl n = vf n.
Proof.
  intros Hsub. pose proof (in_subset_facts a bbs Hsub) as HF.
  destruct (fast_sem_char a bbs Hsub) as (g3 & g4 & Bf & Hg3 & Hg4 & Hfast).
  destruct (full_sem_char a bbs Hsub) as (C1 & g1 & Hrel & Hg1 & Hfull).
  destruct (full_ties_facts a) as (_ & (Hl0 & Hl1 & Hlx) & N01 & N0x & N1x).
  destruct (full_ties_nodot a) as (Hd0 & Hd1 & Hdx).
  destruct (fast_fresh a) as [Hk0 Hk1]. pose proof (fast_nodot a) as Hkd.
  pose proof (fast_fin a bbs Hsub (kt0 a) (kt1 a) (conj Hk0 Hk1) (fast_ne a) Hkd g3 g4 Hg3 Hg4) as Hf.
  assert (Hl : ∀ m, drop3 g1 (ft0 a) (ft1 a) (ftx a) !! m = finT (ft0 a) (ft1 a) bbs a m).
  { apply (full_fin a bbs Hsub (ft0 a) (ft1 a) (conj Hl0 Hl1) N01 (conj Hd0 Hd1) (ftx a) (c_g C1) g1); try done; by apply not_eq_sym. }
  destruct (agree_all a bbs Hsub) as (Cf & Cl & HCf & HCl & Hun).
  rewrite Hfast in HCf. injection HCf as <-. rewrite Hfull in HCl. injection HCl as <-.
  destruct (registry_agree a bbs _ _ (sf_bbs a bbs HF) Hfast Hfull) as [_ Hbbs]. cbn [c_bbs] in Hbbs.
  eexists _, _. split; [exact Hfast|]. split; [exact Hfull|]. split; [exact Hun|]. cbn [c_name c_g c_bbs]. split; [done|]. split; [done|]. split.
  - rewrite (fin_inputs a bbs Hsub _ _ (conj Hk0 Hk1) (fast_distinct6 a) Hkd _ Hf).
    by rewrite (fin_inputs a bbs Hsub _ _ (conj Hl0 Hl1) (full_distinct6 a) (conj Hd0 Hd1) _ Hl).
  - intros vf Hvf.
    pose proof (fin_tie_shape a bbs Hsub _ _ (conj Hk0 Hk1) (fast_distinct6 a) Hkd _ Hf) as Hsf.
    pose proof (fin_tie_shape a bbs Hsub _ _ (conj Hl0 Hl1) (full_distinct6 a) (conj Hd0 Hd1) _ Hl) as Hsl.
    assert (Hug : untie_g (drop_unused (drop_unused g4 (kt0 a)) (kt1 a)) = untie_g (drop3 g1 (ft0 a) (ft1 a) (ftx a))).
    { unfold untie, with_g in Hun. by injection Hun. }
    destruct (untie_same_function _ _ _ _ _ _ _ _ Hsf Hsl Hug vf Hvf) as (vl & Hvl & Hag). exists vl. split; [done|].
    intros n Hn. apply Hag.
    + by apply (ident_not_six a bbs Hsub _ _ (conj Hk0 Hk1) Hkd).
    + by apply (ident_not_six a bbs Hsub _ _ (conj Hl0 Hl1) (conj Hd0 Hd1)).
Qed.
Corollary property_gates a bbs : in_subset a bbs = true → no_inst a = true →
  ∃ Cf Cl, fast_sem a bbs = Ok Cf ∧ full_sem a bbs = Ok Cl ∧ untie Cf = untie Cl ∧
    c_name Cf = c_name Cl ∧ c_bbs Cf = c_bbs Cl ∧ inputs (c_g Cf) = inputs (c_g Cl) ∧
    ∀ vf, consistent (c_g Cf) vf → ∃ vl, consistent (c_g Cl) vl ∧ ∀ n, n ∈ idents a → vl n = vf n.
Proof.
  intros H _. destruct (property_all a bbs H) as (Cf & Cl & H1 & H2 & H3 & H4 & H5 & H6 & H7). exists Cf, Cl. repeat (split; [done|]).
  intros vf Hvf. destruct (H7 vf Hvf) as (vl & ? & Hag). exists vl. split; [done|]. intros n Hn. apply Hag. by left.
Qed.
