(* C14 phase 2: agreement of the two reader models on modules without blackbox instances (part D7) *)
From stdpp Require Import strings gmap sets pretty.
From CG Require Import Model.FastVerilog Proofs.FastVerilogProofs Gen.Gen_fastv Base.Sem Base.Compose.
From CG Require Import Proofs.FvA0 Proofs.FvA1 Proofs.FvA2 Proofs.FvA3 Proofs.FvA4 Proofs.FvA5 Proofs.FvA6 Proofs.FvA7 Proofs.FvA8 Proofs.FvA9 Proofs.FvA10 Proofs.FvB1 Proofs.FvB2 Proofs.FvB3 Proofs.FvB4 Proofs.FvB5 Proofs.FvC1 Proofs.FvC2 Proofs.FvD1 Proofs.FvD2 Proofs.FvD3 Proofs.FvD4 Proofs.FvD5 Proofs.FvD6.
Open Scope string_scope.

Section shape.
  Variables (a : ast) (bbs : list bbdef).
  Hypothesis Hsub : in_subset a bbs = true.
  Hypothesis Hni : no_inst a = true.
  Variables (t0 t1 : string).
  Hypothesis Hfr : t0 ∉ idents a ∧ t1 ∉ idents a.
  Hypothesis Hd : distinct6 t0 t1 "?x".

  Lemma fin_tie_shape c : (∀ m, c !! m = finT t0 t1 a m) → tie_shape c t0 t1 "?x".
  Proof.
    intros Hc. split; [done|]. destruct (six_neq a t0 t1 Hfr Hd) as (N01 & N0x & N00 & N0b & N0c & N1x & N10 & N11 & N1c).
    assert (HcF : ∀ m, c !! m = FS a t0 t1 m). { intros m. rewrite Hc. by apply (finT_sym a bbs Hsub Hni t0 t1 Hfr N01). }
    intros n Hn. unfold cname, ty.
    assert (Hcase : (n = t0 ∧ OConst "1'b0" ∈ all_ops a) ∨ (n = t1 ∧ OConst "1'b1" ∈ all_ops a) ∨ n ∈ idents a).
    { apply support_elim in Hn as [Hn|(m & i & Hm & Hi)].
      - apply elem_of_dom in Hn as [i Hi]. rewrite HcF in Hi. unfold FS in Hi.
        destruct (decide (n = t0)) as [->|]; [destruct (decide _); [auto|done]|].
        destruct (decide (n = t1)) as [->|]; [destruct (decide _); [auto|done]|].
        right. right. destruct (decide (n ∈ idents a)) as [|Hni']; [done|]. destruct (nonident_none a n Hni') as [HG Hin]. rewrite HG in Hi.
        by rewrite decide_False in Hi.
      - rewrite HcF in Hm. unfold FS in Hm.
        destruct (decide (m = t0)); [destruct (decide _); [injection Hm as <-; set_solver|done]|].
        destruct (decide (m = t1)); [destruct (decide _); [injection Hm as <-; set_solver|done]|].
        destruct (symG a !! m) as [v|] eqn:E.
        + injection Hm as <-. cbn [n_fi mk_node] in Hi. apply elem_of_list_to_set in Hi. apply elem_of_list_fmap in Hi as (z & -> & Hz).
          destruct (symG_ops a bbs Hsub Hni m v z E Hz) as [Hall Hgood]. destruct z as [s|s]; cbn [goodop nm] in *; [auto|].
          destruct Hgood as [->| ->]; [left|right; left]; done.
        + destruct (decide (m ∈ decl_inputs a)); [injection Hm as <-; set_solver|done]. }
    rewrite HcF. destruct Hcase as [[-> Hu]|[[-> Hu]|Hid]].
    - unfold FS. rewrite decide_True, decide_True by done. simpl. symmetry. apply σ_t0.
    - unfold FS. rewrite (decide_False (P := t1 = t0)) by done. rewrite decide_True, decide_True by done. simpl. symmetry. by apply (σ_t1 a).
    - rewrite (σ_ident a bbs Hsub t0 t1 Hfr n Hid). unfold FS.
      destruct Hfr as [Hf0 Hf1]. rewrite decide_False by (intros ->; done). rewrite decide_False by (intros ->; done).
      destruct (symG a !! n) as [v|] eqn:E.
      + simpl. pose proof (symG_type a bbs Hsub Hni n v E) as Ht. destruct v.1; try done; vm_compute in Ht; set_solver.
      + destruct (decide (n ∈ decl_inputs a)); done.
  Qed.

  (* inputs and outputs of the common function *)
  Lemma fin_inputs c : (∀ m, c !! m = finT t0 t1 a m) → inputs c = list_to_set (decl_inputs a).
  Proof.
    intros Hc. destruct (six_neq a t0 t1 Hfr Hd) as (N01 & _). apply set_eq. intros m. rewrite elem_of_inputs, elem_of_list_to_set. split.
    - intros (i & Hi & Hty). rewrite Hc, (finT_sym a bbs Hsub Hni t0 t1 Hfr N01) in Hi.
      destruct (decide (m = t0)); [destruct (decide _); by simplify_eq/=|]. destruct (decide (m = t1)); [destruct (decide _); by simplify_eq/=|].
      destruct (symG a !! m) as [v|] eqn:E.
      + simplify_eq/=. pose proof (symG_type a bbs Hsub Hni m v E) as Ht. rewrite Hty in Ht. vm_compute in Ht. set_solver.
      + destruct (decide (m ∈ decl_inputs a)); [done|by simplify_eq/=].
    - intros Hm. rewrite Hc, (finT_sym a bbs Hsub Hni t0 t1 Hfr N01).
      assert (Hmi : m ∈ idents a).
      { unfold decl_inputs in Hm. apply elem_of_list_bind in Hm as (it' & Hi & Hit'). eapply idents_item; [exact Hit'|]. destruct it'; try (by apply elem_of_nil in Hi). done. }
      destruct Hfr as [Hf0 Hf1]. rewrite decide_False by (intros ->; done). rewrite decide_False by (intros ->; done).
      destruct (symG a !! m) as [v|] eqn:E.
      + exfalso. apply (symG_item a) in E as (it & Hit & Hv).
        pose proof (view_sym a t0 t1 (conj Hf0 Hf1) N01 it (itemgood_of a bbs Hsub Hni it Hit)) as Hvs. rewrite Hv in Hvs. simpl in Hvs.
        by destruct (driver_ident a bbs Hsub Hni t0 t1 it m _ Hit Hvs).
      + rewrite decide_True by done. eauto.
  Qed.
End shape.

(* THE PROPERTY for modules without blackbox instances: same inputs, same registry and name, graphs identical apart from the names
   of the constant nodes, and every consistent valuation of the fast reader's circuit is matched by one of the full reader's circuit
   that agrees on every net of the netlist (hence the same function at every output) *)
Theorem property_gates a bbs : in_subset a bbs = true → no_inst a = true →
  ∃ Cf Cl, fast_sem a bbs = Ok Cf ∧ full_sem a bbs = Ok Cl ∧ untie Cf = untie Cl ∧
    c_name Cf = c_name Cl ∧ c_bbs Cf = c_bbs Cl ∧ inputs (c_g Cf) = inputs (c_g Cl) ∧
    ∀ vf, consistent (c_g Cf) vf → ∃ vl, consistent (c_g Cl) vl ∧ ∀ n, n ∈ idents a → vl n = vf n.
Proof.
  intros Hsub Hni.
  destruct (fast_sem_char a bbs Hsub Hni) as (g3 & g4 & Hg3 & Hg4 & Hfast).
  destruct (full_sem_char a bbs Hsub Hni) as (C1 & g1 & Hrel & _ & Hg1 & Hfull).
  destruct (full_ties_facts a) as (_ & (Hl0 & Hl1 & Hlx) & N01 & N0x & N1x).
  destruct (fast_fresh a) as [Hk0 Hk1].
  pose proof (fast_fin a bbs Hsub Hni (kt0 a) (kt1 a) (conj Hk0 Hk1) (fast_ne a) g3 g4 Hg3 Hg4) as Hf.
  assert (Hl : ∀ m, drop3 g1 (ft0 a) (ft1 a) (ftx a) !! m = finT (ft0 a) (ft1 a) a m).
  { apply (full_fin a bbs Hsub Hni (ft0 a) (ft1 a) (conj Hl0 Hl1) N01 (ftx a) (c_g C1) g1); try done; by apply not_eq_sym. }
  destruct (agree_gates a bbs Hsub Hni) as (Cf & Cl & HCf & HCl & Hun).
  rewrite Hfast in HCf. injection HCf as <-. rewrite Hfull in HCl. injection HCl as <-.
  eexists _, _. split; [exact Hfast|]. split; [exact Hfull|]. split; [exact Hun|]. cbn [c_name c_g c_bbs]. split; [done|]. split; [done|]. split.
  - rewrite (fin_inputs a bbs Hsub Hni _ _ (conj Hk0 Hk1) (fast_distinct6 a) _ Hf).
    by rewrite (fin_inputs a bbs Hsub Hni _ _ (conj Hl0 Hl1) (full_distinct6 a) _ Hl).
  - intros vf Hvf.
    pose proof (fin_tie_shape a bbs Hsub Hni _ _ (conj Hk0 Hk1) (fast_distinct6 a) _ Hf) as Hsf.
    pose proof (fin_tie_shape a bbs Hsub Hni _ _ (conj Hl0 Hl1) (full_distinct6 a) _ Hl) as Hsl.
    assert (Hug : untie_g (drop_unused (drop_unused g4 (kt0 a)) (kt1 a)) = untie_g (drop3 g1 (ft0 a) (ft1 a) (ftx a))).
    { unfold untie, with_g in Hun. by injection Hun. }
    destruct (untie_same_function _ _ _ _ _ _ _ _ Hsf Hsl Hug vf Hvf) as (vl & Hvl & Hag). exists vl. split; [done|].
    intros n Hn. apply Hag.
    + by apply (ident_not_six a bbs Hsub _ _ (conj Hk0 Hk1)).
    + by apply (ident_not_six a bbs Hsub _ _ (conj Hl0 Hl1)).
Qed.
