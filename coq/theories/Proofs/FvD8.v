(* C14 phase 2: agreement of the two reader models on the documented subset (part D8) *)
From stdpp Require Import strings gmap sets pretty.
From CG Require Import Model.FastVerilog Proofs.FastVerilogProofs Gen.Gen_fastv Base.Sem Base.Compose.
From CG Require Import Proofs.FvA0 Proofs.FvA1 Proofs.FvA2 Proofs.FvP1 Proofs.FvE1 Proofs.FvE2 Proofs.FvE3 Proofs.FvE4 Proofs.FvA3 Proofs.FvE5 Proofs.FvE6 Proofs.FvE7 Proofs.FvA4 Proofs.FvA5 Proofs.FvA6 Proofs.FvA7 Proofs.FvA8 Proofs.FvA9 Proofs.FvA10 Proofs.FvB1 Proofs.FvB2 Proofs.FvB3 Proofs.FvB4 Proofs.FvB5 Proofs.FvC1 Proofs.FvC2 Proofs.FvD1 Proofs.FvD2 Proofs.FvD3 Proofs.FvD4 Proofs.FvD5 Proofs.FvD6 Proofs.FvD7.
Open Scope string_scope.

Section outs.
  Variables (a : ast) (bbs : list bbdef).
  Hypothesis Hsub : in_subset a bbs = true.
  Variables (t0 t1 : string).
  Hypothesis Hfr : t0 ∉ idents a ∧ t1 ∉ idents a.

  Lemma fin_outputs c : (∀ m, c !! m = finT t0 t1 bbs a m) → outputs c = list_to_set (decl_outputs a).
  Proof.
    intros Hc. pose proof (in_subset_facts a bbs Hsub) as HF. destruct Hfr as [Hf0 Hf1].
    assert (Hfr3 : t0 ∉ idents a ∧ t1 ∉ idents a ∧ t1 ∉ idents a) by done.
    apply set_eq. intros m. rewrite elem_of_outputs, elem_of_list_to_set. split.
    - intros (i & Hi & Ho). rewrite Hc in Hi. unfold finT in Hi.
      destruct (decide (m = t0)); [destruct (decide _); by simplify_eq/=|]. destruct (decide (m = t1)); [destruct (decide _); by simplify_eq/=|].
      destruct (sG (sF t0 t1 bbs a) !! m) as [[t fis]|].
      + simplify_eq/=. by apply bool_decide_eq_true in Ho.
      + destruct (decide (m ∈ decl_inputs a)); [|done]. simplify_eq/=. by apply bool_decide_eq_true in Ho.
    - intros Hm. rewrite Hc. unfold finT.
      destruct (outs_not_tie a t0 t1 (conj Hf0 Hf1) m Hm) as [N0 N1]. rewrite decide_False, decide_False by done.
      destruct (sG (sF t0 t1 bbs a) !! m) as [[t fis]|] eqn:E.
      + eexists. split; [done|]. simpl. by apply bool_decide_eq_true.
      + destruct (sf_outs a bbs HF m Hm) as [Hd|Hi].
        * exfalso. apply elem_of_list_bind in Hd as (it & Hd & Hit).
          pose proof (drivers_sub a bbs t0 t1 t1 HF Hfr3 it m Hit Hd) as Hk. unfold it_driver in Hk. apply elem_of_list_fmap in Hk as ([o' v] & Heq & Hv). simpl in Heq. subst o'.
          pose proof (proj2 (G_iff a bbs Hsub t0 t1 (conj Hf0 Hf1) m v) (ex_intro _ it (conj Hit Hv))) as HG. by rewrite HG in E.
        * rewrite decide_True by done. eexists. split; [done|]. simpl. by apply bool_decide_eq_true.
  Qed.
End outs.

Theorem property_io a bbs : in_subset a bbs = true →
  ∃ Cf Cl, fast_sem a bbs = Ok Cf ∧ full_sem a bbs = Ok Cl ∧
    inputs (c_g Cf) = list_to_set (decl_inputs a) ∧ inputs (c_g Cl) = list_to_set (decl_inputs a) ∧
    outputs (c_g Cf) = list_to_set (decl_outputs a) ∧ outputs (c_g Cl) = list_to_set (decl_outputs a).
Proof.
  intros Hsub.
  destruct (fast_sem_char a bbs Hsub) as (g3 & g4 & Bf & Hg3 & Hg4 & Hfast).
  destruct (full_sem_char a bbs Hsub) as (C1 & g1 & Hrel & Hg1 & Hfull).
  destruct (full_ties_facts a) as (_ & (Hl0 & Hl1 & Hlx) & N01 & N0x & N1x).
  destruct (full_ties_nodot a) as (Hd0 & Hd1 & Hdx).
  destruct (fast_fresh a) as [Hk0 Hk1]. pose proof (fast_nodot a) as Hkd.
  pose proof (fast_fin a bbs Hsub (kt0 a) (kt1 a) (conj Hk0 Hk1) (fast_ne a) Hkd g3 g4 Hg3 Hg4) as Hf.
  assert (Hl : ∀ m, drop3 g1 (ft0 a) (ft1 a) (ftx a) !! m = finT (ft0 a) (ft1 a) bbs a m).
  { apply (full_fin a bbs Hsub (ft0 a) (ft1 a) (conj Hl0 Hl1) N01 (conj Hd0 Hd1) (ftx a) (c_g C1) g1); try done; by apply not_eq_sym. }
  eexists _, _. split; [exact Hfast|]. split; [exact Hfull|]. cbn [c_g].
  split; [by apply (fin_inputs a bbs Hsub _ _ (conj Hk0 Hk1) (fast_distinct6 a) Hkd)|].
  split; [by apply (fin_inputs a bbs Hsub _ _ (conj Hl0 Hl1) (full_distinct6 a) (conj Hd0 Hd1))|].
  split; [by apply (fin_outputs a bbs Hsub _ _ (conj Hk0 Hk1))|by apply (fin_outputs a bbs Hsub _ _ (conj Hl0 Hl1))].
Qed.
Corollary property_gates_io a bbs : in_subset a bbs = true → no_inst a = true →
  ∃ Cf Cl, fast_sem a bbs = Ok Cf ∧ full_sem a bbs = Ok Cl ∧
    inputs (c_g Cf) = list_to_set (decl_inputs a) ∧ inputs (c_g Cl) = list_to_set (decl_inputs a) ∧
    outputs (c_g Cf) = list_to_set (decl_outputs a) ∧ outputs (c_g Cl) = list_to_set (decl_outputs a).
Proof. intros H _. by apply property_io. Qed.
