(* C14 phase 2: agreement of the two reader models on the documented subset (part E1) *)
From stdpp Require Import strings gmap sets pretty.
From CG Require Import Model.FastVerilog Proofs.FastVerilogProofs Gen.Gen_fastv.
From CG Require Import Proofs.FvA0 Proofs.FvA1 Proofs.FvA2.
Open Scope string_scope.

(* ---- add_blackbox on fresh pins *)
Lemma pin_inj inst p p' : pin inst p = pin inst p' → p = p'.
Proof. unfold pin. intros H. by simplify_list_eq. Qed.
Lemma pin_okname inst p : okname inst → okname (pin inst p).
Proof. intros [Hne Hd]. unfold pin. destruct inst as [|c r]; [done|]. split; [done|]. exact Hd. Qed.

Definition mk_step (inst : string) (st : circuit * list string * outcome) (pt : string * gtype) : circuit * list string * outcome :=
  match st with
  | (g, io, Done) => let '(g', o, nm) := add_g g (pin inst pt.1) pt.2 [] [] af_default in
                     (g', match o with Done => nm :: io | _ => io end, o)
  | _ => st end.
Lemma mkpins_ok inst l : ∀ g io, okname inst → NoDup (fst <$> l) →
  (∀ p t, (p, t) ∈ l → pin inst p ∉ dom g ∧ t ∈ supported_types) →
  ∃ g' io', foldl (mk_step inst) (g, io, Done) l = (g', io', Done) ∧
    (∀ p t, (p, t) ∈ l → g' !! pin inst p = Some (mk_node t false ∅)) ∧
    (∀ m, (∀ p t, (p, t) ∈ l → m ≠ pin inst p) → g' !! m = g !! m).
Proof.
  induction l as [|[p t] l IH]; intros g io Hon Hnd Hl; cbn [foldl].
  - exists g, io. split; [done|]. split; [intros ? ? H; by apply elem_of_nil in H|done].
  - rewrite fmap_cons in Hnd. apply NoDup_cons in Hnd as [Hp Hnd]. destruct (Hl p t) as [Hfr Hsup]; [by left|].
    unfold mk_step at 2. cbn [fst snd]. rewrite add_g_nil.
    rewrite (bool_decide_eq_false_2 _ Hfr), (bool_decide_eq_true_2 _ Hsup). cbn [negb].
    destruct (pin_okname inst p Hon) as [Hne Hdg]. rewrite (bool_decide_eq_false_2 _ Hne), Hdg.
    assert (Hfan : fanin g (pin inst p) = ∅). { unfold fanin. apply not_elem_of_dom in Hfr. by rewrite Hfr. }
    rewrite Hfan.
    destruct (IH (<[pin inst p := mk_node t false ∅]> g) (pin inst p :: io) Hon Hnd) as (g' & io' & Hfold & Hin & Hout).
    { intros p' t' Hpt. destruct (Hl p' t') as [? ?]; [by right|]. split; [|done]. rewrite dom_insert. apply not_elem_of_union. split; [|done].
      rewrite elem_of_singleton. intros Heq%pin_inj. subst p'. apply Hp. apply elem_of_list_fmap. exists (p, t'). split; done. }
    exists g', io'. split; [done|]. split.
    + intros p' t' [[= -> ->]|Hpt]%elem_of_cons; [|by eapply Hin].
      rewrite Hout; [by rewrite lookup_insert|]. intros p'' t'' Hpt'' Heq%pin_inj. subst p''. apply Hp. apply elem_of_list_fmap. exists (p, t''). split; done.
    + intros m Hm. rewrite Hout by (intros p' t' Hpt'; apply (Hm p' t'); by right). rewrite lookup_insert_ne; [done|]. intros <-. apply (Hm p t); [by left|done].
Qed.
