(* C14 phase 2: agreement of the two reader models on the documented subset (part E2) *)
From stdpp Require Import strings gmap sets pretty.
From CG Require Import Model.FastVerilog Proofs.FastVerilogProofs Gen.Gen_fastv.
From CG Require Import Proofs.FvA0 Proofs.FvA1 Proofs.FvA2 Proofs.FvE1.
Open Scope string_scope.

Definition conn_step (d : bbdef) (inst : string) (st : circuit * outcome) (kv : string * list string) : circuit * outcome :=
  match st with
  | (g, Done) => if bool_decide (kv.1 ∈ bb_in d) then connect_g g kv.2 [pin inst kv.1]
                 else if bool_decide (kv.1 ∈ bb_out d) then connect_g g [pin inst kv.1] kv.2 else (g, Fail ValueError)
  | _ => st end.

(* what one connection adds to the fan-in of node m *)
Definition conn_add (d : bbdef) (inst : string) (c : string * string) (m : string) : gset string :=
  if bool_decide (c.1 ∈ bb_in d) then (if decide (m = pin inst c.1) then {[c.2]} else ∅)
  else (if decide (m = c.2) then {[pin inst c.1]} else ∅).
Definition conns_add d inst (conns : list (string * string)) (m : string) : gset string := ⋃ ((λ c, conn_add d inst c m) <$> conns).

Lemma connect_in_done g n pn : n ∈ dom g → pn ∈ dom g → ty g pn = Some BbIn → fanin g pn = ∅ →
  ty g n ≠ Some BbIn → ty g n ≠ Some BbOut → (connect_g g [n] [pn]).2 = Done.
Proof.
  intros Hn Hp Hty Hfi Hn1 Hn2. unfold connect_g.
  rewrite (bool_decide_eq_false_2 ([n] = [])), (bool_decide_eq_false_2 ([pn] = [])) by done. cbn [orb app forallb].
  rewrite (bool_decide_eq_true_2 _ Hn), (bool_decide_eq_true_2 _ Hp). cbn [andb negb].
  assert (Hchk : connect_check g [n] [pn] = true).
  { unfold connect_check. cbn [existsb length]. rewrite !orb_false_r, Hty, Hfi, size_empty.
    replace (is_in (Some BbIn) conn_no_fanin) with false by (by vm_compute).
    replace (is_in (Some BbIn) conn_single_fanin) with true by (by vm_compute). cbn [orb andb negb Nat.add Nat.ltb Nat.leb].
    apply negb_true_iff, orb_false_iff. split.
    - destruct (is_in (ty g n) conn_no_fanout) eqn:E; [|done]. apply is_in_true in E as (t & Ht & Hin). unfold conn_no_fanout in Hin.
      apply elem_of_list_singleton in Hin as ->. done.
    - destruct (is_in (ty g n) conn_bbout) eqn:E; [|done]. apply is_in_true in E as (t & Ht & Hin). unfold conn_bbout in Hin.
      apply elem_of_list_singleton in Hin as ->. done. }
  by rewrite Hchk.
Qed.
Lemma connect_out_done g n pn : n ∈ dom g → pn ∈ dom g → ty g pn = Some BbOut → fanout g pn = ∅ →
  ty g n = Some Buf → fanin g n = ∅ → (connect_g g [pn] [n]).2 = Done.
Proof.
  intros Hn Hp Hty Hfo Hnt Hnf. unfold connect_g.
  rewrite (bool_decide_eq_false_2 ([n] = [])), (bool_decide_eq_false_2 ([pn] = [])) by done. cbn [orb app forallb].
  rewrite (bool_decide_eq_true_2 _ Hn), (bool_decide_eq_true_2 _ Hp). cbn [andb negb].
  assert (Hchk : connect_check g [pn] [n] = true).
  { unfold connect_check. cbn [existsb length]. rewrite !orb_false_r, Hty, Hnt, Hnf, Hfo, size_empty. by vm_compute. }
  by rewrite Hchk.
Qed.

Section conns.
  Variables (d : bbdef) (inst : string).
  Definition kind_ok (g : circuit) (p n : string) : Prop :=
    n ∈ dom g ∧ pin inst p ∈ dom g ∧ (∀ q, n ≠ pin inst q) ∧
    (p ∈ bb_in d → ty g (pin inst p) = Some BbIn ∧ fanin g (pin inst p) = ∅ ∧ ty g n ≠ Some BbIn ∧ ty g n ≠ Some BbOut) ∧
    (p ∉ bb_in d → p ∈ bb_out d ∧ ty g (pin inst p) = Some BbOut ∧ fanout g (pin inst p) = ∅ ∧ ty g n = Some Buf ∧ fanin g n = ∅).
  Definition cpre (g : circuit) (conns : list (string * string)) : Prop :=
    NoDup (fst <$> conns) ∧ (∀ p n, (p, n) ∈ conns → kind_ok g p n) ∧
    (∀ p n p' n', (p, n) ∈ conns → (p', n') ∈ conns → p ∉ bb_in d → p' ∉ bb_in d → p ≠ p' → n ≠ n').

  Lemma upd_ty (g g' : circuit) (X : string → gset string) x : (∀ m, g' !! m = upd_fi (λ s, s ∪ X m) <$> g !! m) → ty g' x = ty g x.
  Proof. intros H. unfold ty. rewrite H. by destruct (g !! x). Qed.
  Lemma upd_dom (g g' : circuit) (X : string → gset string) : (∀ m, g' !! m = upd_fi (λ s, s ∪ X m) <$> g !! m) → dom g' = dom g.
  Proof. intros H. apply set_eq. intros x. rewrite !elem_of_dom, H. destruct (g !! x); simpl; split; intros [? ?]; eauto; done. Qed.
  Lemma upd_fanin (g g' : circuit) (X : string → gset string) x : (∀ m, g' !! m = upd_fi (λ s, s ∪ X m) <$> g !! m) → x ∈ dom g → fanin g' x = fanin g x ∪ X x.
  Proof. intros H [i Hi]%elem_of_dom. unfold fanin. rewrite H, Hi. done. Qed.

  Lemma conns_ok conns : ∀ g, cpre g conns →
    ∃ g', foldl (conn_step d inst) (g, Done) ((λ c : string * string, (c.1, [c.2])) <$> conns) = (g', Done) ∧
          ∀ m, g' !! m = upd_fi (λ s, s ∪ conns_add d inst conns m) <$> g !! m.
  Proof.
    induction conns as [|[p n] conns IH]; intros g (Hnd & Hk & Hout); cbn [foldl fmap list_fmap].
    - exists g. split; [done|]. intros m. unfold conns_add. simpl. destruct (g !! m) as [[t o fi]|]; simpl; [|done].
      unfold upd_fi. simpl. do 2 f_equal. set_solver.
    - rewrite fmap_cons in Hnd. apply NoDup_cons in Hnd as [Hp Hnd]. cbn [fst snd] in *.
      destruct (Hk p n) as (Hn & Hpn & Hnp & Hin & Ho); [by left|].
      set (X := conn_add d inst (p, n)).
      assert (Hstep : ∃ g1, conn_step d inst (g, Done) (p, [n]) = (g1, Done) ∧ ∀ m, g1 !! m = upd_fi (λ s, s ∪ X m) <$> g !! m).
      { unfold conn_step, X, conn_add. cbn [fst snd]. case_bool_decide as Hpi.
        - destruct (Hin Hpi) as (H1 & H2 & H3 & H4).
          pose proof (connect_in_done g n (pin inst p) Hn Hpn H1 H2 H3 H4) as Hd.
          destruct (connect_g g [n] [pin inst p]) as [g1 o] eqn:E. simpl in Hd. subst o. exists g1. split; [done|].
          intros m. pose proof (connect_g_lookup g [n] [pin inst p] m) as Hl. rewrite E in Hl. simpl in Hl. rewrite Hl by done.
          destruct (g !! m) as [[t o fi]|]; simpl; [|done]. unfold upd_fi. simpl. do 2 f_equal.
          destruct (decide (m = pin inst p)) as [->|]; [rewrite decide_True by set_solver|rewrite decide_False by set_solver]; set_solver.
        - destruct (Ho Hpi) as (Hpo & H1 & H2 & H3 & H4). rewrite (bool_decide_eq_true_2 _ Hpo).
          pose proof (connect_out_done g n (pin inst p) Hn Hpn H1 H2 H3 H4) as Hd.
          destruct (connect_g g [pin inst p] [n]) as [g1 o] eqn:E. simpl in Hd. subst o. exists g1. split; [done|].
          intros m. pose proof (connect_g_lookup g [pin inst p] [n] m) as Hl. rewrite E in Hl. simpl in Hl. rewrite Hl by done.
          destruct (g !! m) as [[t o fi]|]; simpl; [|done]. unfold upd_fi. simpl. do 2 f_equal.
          destruct (decide (m = n)) as [->|]; [rewrite decide_True by set_solver|rewrite decide_False by set_solver]; set_solver. }
      destruct Hstep as (g1 & -> & Hg1).
      pose proof (upd_dom g g1 X Hg1) as Hdom.
      destruct (IH g1) as (g' & -> & Hg').
      { split; [done|]. split.
        - intros p' n' Hpn'. assert (Hne : p' ≠ p). { intros ->. apply Hp. apply elem_of_list_fmap. exists (p, n'). done. }
          destruct (Hk p' n') as (Hn' & Hpn'' & Hnp' & Hin' & Ho'); [by right|].
          split; [by rewrite Hdom|]. split; [by rewrite Hdom|]. split; [done|]. split.
          + intros Hpi'. destruct (Hin' Hpi') as (H1 & H2 & H3 & H4). rewrite !(upd_ty g g1 X _ Hg1). split; [done|]. split; [|done].
            rewrite (upd_fanin g g1 X _ Hg1 Hpn''), H2. unfold X, conn_add. cbn [fst snd]. case_bool_decide.
            * rewrite decide_False; [set_solver|]. intros Heq%pin_inj. done.
            * rewrite decide_False; [set_solver|]. intros Heq. by apply (Hnp p').
          + intros Hpi'. destruct (Ho' Hpi') as (Hpo' & H1 & H2 & H3 & H4). rewrite !(upd_ty g g1 X _ Hg1). split; [done|]. split; [done|]. split; [|split; [done|]].
            * apply fanout_empty_iff. intros m i Hi Hin2. rewrite Hg1 in Hi. destruct (g !! m) as [i0|] eqn:E0; [|done]. simpl in Hi. injection Hi as <-.
              simpl in Hin2. apply elem_of_union in Hin2 as [Hin2|Hin2].
              -- apply (proj1 (fanout_empty_iff g (pin inst p')) H2 m i0 E0 Hin2).
              -- unfold X, conn_add in Hin2. cbn [fst snd] in Hin2. case_bool_decide; destruct (decide _); try set_solver.
            * rewrite (upd_fanin g g1 X _ Hg1 Hn'), H4. unfold X, conn_add. cbn [fst snd]. case_bool_decide as Hpi.
              -- rewrite decide_False; [set_solver|]. apply Hnp'.
              -- rewrite decide_False; [set_solver|]. intros ->. apply (Hout p' n p n); [by right|by left|done|done|done|done].
        - intros p1 n1 p2 n2 H1 H2. apply Hout; by right. }
      exists g'. split; [done|]. intros m. rewrite Hg', Hg1. destruct (g !! m) as [[t o fi]|]; simpl; [|done].
      unfold upd_fi. simpl. do 2 f_equal. unfold conns_add. rewrite fmap_cons. simpl. fold X. set_solver.
  Qed.
End conns.
