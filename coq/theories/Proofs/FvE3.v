(* C14 phase 2: agreement of the two reader models on the documented subset (part E3) *)
From stdpp Require Import strings gmap sets pretty.
From CG Require Import Model.FastVerilog Proofs.FastVerilogProofs Gen.Gen_fastv.
From CG Require Import Proofs.FvA0 Proofs.FvA1 Proofs.FvA2 Proofs.FvE1 Proofs.FvE2.
Open Scope string_scope.

Definition pin_list (d : bbdef) : list (string * gtype) :=
  ((λ p, (p, BbIn)) <$> elements (bb_in d)) ++ ((λ p, (p, BbOut)) <$> elements (bb_out d)).

(* add_blackbox on a fresh instance whose connections are legal *)
Lemma add_blackbox_spec C d inst (conns : list (string * string)) :
  inst ∉ dom (c_bbs C) → okname inst → bb_in d ## bb_out d →
  (∀ p, p ∈ bb_in d ∪ bb_out d → pin inst p ∉ dom (c_g C)) →
  (∀ m i q, c_g C !! m = Some i → pin inst q ∉ n_fi i) →
  NoDup (fst <$> conns) →
  (∀ p n, (p, n) ∈ conns → (p ∈ bb_in d ∨ p ∈ bb_out d) ∧ n ∈ dom (c_g C) ∧ (∀ q, n ≠ pin inst q) ∧
      (p ∈ bb_in d → ty (c_g C) n ≠ Some BbIn ∧ ty (c_g C) n ≠ Some BbOut) ∧
      (p ∈ bb_out d → ty (c_g C) n = Some Buf ∧ fanin (c_g C) n = ∅)) →
  (∀ p n p' n', (p, n) ∈ conns → (p', n') ∈ conns → p ∈ bb_out d → p' ∈ bb_out d → p ≠ p' → n ≠ n') →
  ∃ g', add_blackbox C d inst (elements (bb_in d)) (elements (bb_out d)) ((λ c : string * string, (c.1, [c.2])) <$> conns) =
          ({| c_name := c_name C; c_g := g'; c_bbs := <[inst := d]> (c_bbs C) |}, Done) ∧
    ∀ m, g' !! m =
      match list_find (λ pt, m = pin inst pt.1) (pin_list d) with
      | Some (_, pt) => Some (mk_node pt.2 false (conns_add d inst conns m))
      | None => upd_fi (λ s, s ∪ conns_add d inst conns m) <$> c_g C !! m
      end.
Proof.
  intros Hinst Hon Hdisj Hfresh Hnofan Hnd Hconn Hout.
  assert (Hpl : NoDup (fst <$> pin_list d)).
  { assert (Hfst : ∀ (t : gtype) (l : list string), fst <$> ((λ p, (p, t)) <$> l) = l) by (intros t l; induction l as [|x l IH]; [done|]; rewrite !fmap_cons, IH; done).
    unfold pin_list. rewrite fmap_app, !Hfst.
    apply NoDup_app. split; [apply NoDup_elements|]. split; [|apply NoDup_elements]. intros x Hx1%elem_of_elements Hx2%elem_of_elements. set_solver. }
  assert (Hpl_elem : ∀ p t, (p, t) ∈ pin_list d ↔ (p ∈ bb_in d ∧ t = BbIn) ∨ (p ∈ bb_out d ∧ t = BbOut)).
  { intros p t. unfold pin_list. rewrite elem_of_app, !elem_of_list_fmap. split.
    - intros [(x & [= -> ->] & Hx)|(x & [= -> ->] & Hx)]; apply elem_of_elements in Hx; auto.
    - intros [[Hp ->]|[Hp ->]]; [left|right]; exists p; (split; [done|by apply elem_of_elements]). }
  destruct (mkpins_ok inst (pin_list d) (c_g C) [] Hon Hpl) as (gp & io & Hmk & Hpin & Hoth).
  { intros p t Hpt. apply Hpl_elem in Hpt as [[Hp ->]|[Hp ->]]; (split; [apply Hfresh; set_solver|vm_compute; set_solver]). }
  assert (Hfind : ∀ m, match list_find (λ pt, m = pin inst pt.1) (pin_list d) with
                       | Some (_, pt) => m = pin inst pt.1 ∧ pt ∈ pin_list d | None => ∀ p t, (p, t) ∈ pin_list d → m ≠ pin inst p end).
  { intros m. destruct (list_find _ _) as [[k pt]|] eqn:E.
    - apply list_find_Some in E as (Hk & Hm & _). split; [done|]. by eapply elem_of_list_lookup_2.
    - intros p t Hpt Hm. eapply list_find_None in E. rewrite Forall_forall in E. by apply (E (p, t) Hpt). }
  assert (Hgp : ∀ m, gp !! m = match list_find (λ pt, m = pin inst pt.1) (pin_list d) with
                                | Some (_, pt) => Some (mk_node pt.2 false ∅) | None => c_g C !! m end).
  { intros m. specialize (Hfind m). destruct (list_find _ _) as [[k [p t]]|].
    - destruct Hfind as [-> Hpt]. by apply Hpin.
    - by apply Hoth. }
  assert (Hgp_old : ∀ m, m ∈ dom (c_g C) → gp !! m = c_g C !! m).
  { intros m Hm. rewrite Hgp. specialize (Hfind m). destruct (list_find _ _) as [[k [p t]]|]; [|done]. destruct Hfind as [-> Hpt].
    exfalso. apply Hpl_elem in Hpt as [[Hp _]|[Hp _]]; apply (Hfresh p); set_solver. }
  destruct (conns_ok d inst conns gp) as (g' & Hcf & Hg').
  { split; [done|]. split.
    - intros p n Hpn. destruct (Hconn p n Hpn) as (Hkind & Hn & Hnp & Hin & Ho).
      assert (Hgn : gp !! n = c_g C !! n) by by apply Hgp_old.
      split; [apply elem_of_dom; rewrite Hgn; by apply elem_of_dom|].
      assert (Hpp : ∀ t, (p, t) ∈ pin_list d → gp !! pin inst p = Some (mk_node t false ∅)) by (intros; by eapply Hpin).
      split; [destruct Hkind as [Hp|Hp]; apply elem_of_dom; [rewrite (Hpp BbIn)|rewrite (Hpp BbOut)]; try eauto; apply Hpl_elem; auto|].
      split; [done|]. split.
      + intros Hp. unfold ty, fanin. rewrite (Hpp BbIn) by (apply Hpl_elem; auto). rewrite Hgn. simpl. destruct (Hin Hp). done.
      + intros Hp. destruct Hkind as [?|Hp']; [done|]. split; [done|]. unfold ty, fanin. rewrite (Hpp BbOut) by (apply Hpl_elem; auto). rewrite Hgn. simpl.
        destruct (Ho Hp') as [H1 H2]. split; [done|]. split; [|done].
        apply fanout_empty_iff. intros m i Hi Hin2. rewrite Hgp in Hi. specialize (Hfind m). destruct (list_find _ _) as [[k [p' t']]|].
        * injection Hi as <-. set_solver.
        * by apply (Hnofan m i p Hi).
    - intros p n p' n' H1 H2 Hp Hp' Hne. destruct (Hconn p n H1) as ([?|?] & _); [done|]. destruct (Hconn p' n' H2) as ([?|?] & _); [done|]. by eapply Hout. }
  unfold add_blackbox. rewrite (bool_decide_eq_false_2 _ Hinst).
  unfold mk_step, pin_list in Hmk. cbn [with_bbs c_g]. rewrite Hmk.
  unfold conn_step in Hcf. rewrite Hcf. cbn [fst snd]. eexists. split; [done|].
  intros m. rewrite Hg', Hgp. destruct (list_find _ _) as [[k [p t]]|]; simpl; [|done]. unfold upd_fi, mk_node. simpl. do 2 f_equal. set_solver.
Qed.
