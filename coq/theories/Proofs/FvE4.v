(* C14 phase 2: agreement of the two reader models on the documented subset (part E4) *)
From stdpp Require Import strings gmap sets pretty.
From CG Require Import Model.FastVerilog Proofs.FastVerilogProofs Gen.Gen_fastv.
From CG Require Import Proofs.FvA0 Proofs.FvA1 Proofs.FvA2 Proofs.FvE1 Proofs.FvE2 Proofs.FvE3.
Open Scope string_scope.

Lemma add_buf_spec g n : okname n → add_node g n Buf [] = Ok (<[n := mk_node Buf false (fanin g n)]> g).
Proof.
  intros [Hne Hdig]. unfold add_node, add_g. cbn [af_uid af_redef af_conn af_out fl_parse negb]. rewrite andb_false_r.
  rewrite (bool_decide_eq_true_2 (Buf ∈ supported_types)) by (vm_compute; set_solver). cbn [negb length Nat.ltb Nat.leb andb].
  rewrite (bool_decide_eq_true_2 (@nil string = [])) by done. cbn [negb andb].
  rewrite (bool_decide_eq_false_2 (n = "")) by done. rewrite Hdig. cbn [app foldl].
  rewrite connect_nil_r. unfold connect_g. rewrite (bool_decide_eq_true_2 (@nil string = [])) by done. cbn [orb]. done.
Qed.

(* nets on the listed output pins are (re)declared as buffers *)
Definition nets_of (dict : list (string * string)) (l : list string) : list string :=
  l ≫= λ p, match list_find (λ kv : string * string, kv.1 = p) dict with Some (_, kv) => [kv.2] | None => [] end.
Lemma outs_fold dict l : ∀ g, (∀ n, n ∈ nets_of dict l → okname n ∧ fanin g n = ∅) →
  ∃ g1, foldl (λ st p, rbind st (λ g, match list_find (λ kv : string * string, kv.1 = p) dict with
                                       | Some (_, kv) => add_node g kv.2 Buf [] | None => Ok g end)) (Ok g) l = Ok g1 ∧
        ∀ m, g1 !! m = if decide (m ∈ nets_of dict l) then Some (mk_node Buf false ∅) else g !! m.
Proof.
  induction l as [|p l IH]; intros g Hn; cbn [foldl rbind].
  - exists g. split; [done|]. intros m. destruct (decide (m ∈ nets_of dict [])) as [H|]; [by apply elem_of_nil in H|done].
  - unfold nets_of in *. rewrite bind_cons in Hn. destruct (list_find _ dict) as [[k kv]|] eqn:E.
    + destruct (Hn kv.2) as [Hok Hfi]; [apply elem_of_app; left; by left|]. rewrite add_buf_spec by done. rewrite Hfi.
      destruct (IH (<[kv.2 := mk_node Buf false ∅]> g)) as (g1 & -> & Hg1).
      { intros n Hin. destruct (Hn n) as [? Hf]; [apply elem_of_app; by right|]. split; [done|]. unfold fanin in *.
        destruct (decide (n = kv.2)) as [->|]; [by rewrite lookup_insert|by rewrite lookup_insert_ne]. }
      exists g1. split; [done|]. intros m. rewrite Hg1, bind_cons, E. destruct (decide (m ∈ l ≫= _)) as [Hin|Hnin].
      * rewrite decide_True by (apply elem_of_app; by right). done.
      * destruct (decide (m = kv.2)) as [->|Hne]; [rewrite lookup_insert, decide_True by (apply elem_of_app; left; by left); done|].
        rewrite lookup_insert_ne by done. rewrite decide_False; [done|]. intros [Hx|Hx]%elem_of_app; [|done]. apply elem_of_list_singleton in Hx. done.
    + destruct (IH g) as (g1 & -> & Hg1); [intros n Hin; apply Hn; apply elem_of_app; by right|].
      exists g1. split; [done|]. intros m. rewrite Hg1, bind_cons, E. simpl. done.
Qed.

(* nets not seen yet become undriven buffers (the transformer's add_blackbox wrapper) *)
Lemma ins_fold (dict : list (string * string)) : ∀ g, (∀ kv, kv ∈ dict → okname kv.2) →
  ∃ g2, foldl (λ st (kv : string * string), rbind st (λ g, if bool_decide (kv.2 ∈ dom g) then Ok g else add_plain g kv.2 Buf)) (Ok g) dict = Ok g2 ∧
        ∀ m, g2 !! m = if decide (m ∈ snd <$> dict ∧ m ∉ dom g) then Some (mk_node Buf false ∅) else g !! m.
Proof.
  induction dict as [|kv dict IH]; intros g Hok; cbn [foldl rbind].
  - exists g. split; [done|]. intros m. rewrite decide_False; [done|]. intros [H _]. by apply elem_of_nil in H.
  - assert (Hk : okname kv.2) by (apply Hok; by left). assert (Hd : ∀ kv', kv' ∈ dict → okname kv'.2) by (intros; apply Hok; by right).
    case_bool_decide as Hin.
    + destruct (IH g Hd) as (g2 & -> & Hg2). exists g2. split; [done|]. intros m. rewrite Hg2, fmap_cons.
      destruct (decide (m ∈ snd <$> dict ∧ m ∉ dom g)) as [[? ?]|Hn].
      * rewrite decide_True; [done|]. split; [by right|done].
      * rewrite decide_False; [done|]. intros [Hm Hnd]. apply elem_of_cons in Hm as [->|Hm]; [done|]. by apply Hn.
    + rewrite add_plain_fresh by (try done; vm_compute; set_solver).
      destruct (IH (<[kv.2 := mk_node Buf false ∅]> g) Hd) as (g2 & -> & Hg2). exists g2. split; [done|]. intros m. rewrite Hg2, fmap_cons.
      destruct (decide (m = kv.2)) as [->|Hne].
      * rewrite decide_False by (intros [_ Hx]; apply Hx; rewrite dom_insert; set_solver). rewrite lookup_insert.
        rewrite decide_True; [done|]. split; [by left|done].
      * rewrite lookup_insert_ne by done. destruct (decide (m ∈ snd <$> dict ∧ m ∉ dom (<[kv.2:=mk_node Buf false ∅]> g))) as [[H1 H2]|Hn].
        -- rewrite decide_True; [done|]. split; [by right|]. rewrite dom_insert in H2. set_solver.
        -- rewrite decide_False; [done|]. intros [Hm Hnd]. apply Hn. split; [apply elem_of_cons in Hm as [->|Hm]; done|]. rewrite dom_insert. set_solver.
Qed.
