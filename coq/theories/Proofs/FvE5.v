(* C14 phase 2: agreement of the two reader models on the documented subset (part E5) *)
From stdpp Require Import strings gmap sets pretty.
From CG Require Import Model.FastVerilog Proofs.FastVerilogProofs Gen.Gen_fastv.
From CG Require Import Proofs.FvA0 Proofs.FvA1 Proofs.FvA2 Proofs.FvP1 Proofs.FvE1 Proofs.FvE2 Proofs.FvE3 Proofs.FvE4 Proofs.FvA3.
Open Scope string_scope.

Lemma foldl_ins_other {V} (l : list (string * V)) : ∀ (G : gmap string V) m,
  m ∉ fst <$> l → foldl (λ G e, <[e.1 := e.2]> G) G l !! m = G !! m.
Proof.
  induction l as [|e l IH]; intros G m Hm; cbn [foldl]; [done|]. rewrite fmap_cons, not_elem_of_cons in Hm. destruct Hm as [Hne Hm].
  rewrite IH by done. by rewrite lookup_insert_ne.
Qed.
Lemma foldl_ins_in {V} (l : list (string * V)) : ∀ (G : gmap string V) m v,
  NoDup (fst <$> l) → (m, v) ∈ l → foldl (λ G e, <[e.1 := e.2]> G) G l !! m = Some v.
Proof.
  induction l as [|e l IH]; intros G m v Hnd Hin; [by apply elem_of_nil in Hin|]. cbn [foldl].
  rewrite fmap_cons in Hnd. apply NoDup_cons in Hnd as [He Hnd]. apply elem_of_cons in Hin as [<-|Hin].
  - rewrite foldl_ins_other by done. by rewrite lookup_insert.
  - by apply IH.
Qed.
Lemma foldl_ins_dom {V} (l : list (string * V)) (G : gmap string V) m :
  is_Some (foldl (λ G e, <[e.1 := e.2]> G) G l !! m) → is_Some (G !! m) ∨ m ∈ fst <$> l.
Proof.
  revert G. induction l as [|e l IH]; intros G H; cbn [foldl] in H; [by left|]. apply IH in H as [H|H]; [|right; rewrite fmap_cons; by right].
  destruct (decide (m = e.1)) as [->|]; [right; rewrite fmap_cons; by left|]. rewrite lookup_insert_ne in H by done. by left.
Qed.

Section dict.
  Variables (t0 t1 tx : string).
  Notation nm := (nm t0 t1). Notation conn_dict := (conn_dict t0 t1).

  Lemma full_opd_ok o : const_ok o = true → full_opd t0 t1 tx o = Ok (nm o).
  Proof.
    destruct o as [s|s]; [done|]. simpl. intros Ho.
    apply orb_true_iff in Ho as [->%bool_decide_eq_true| ->%bool_decide_eq_true]; vm_compute; done.
  Qed.
  Lemma mapM_conns (conns : list (string * option opd)) : (∀ p o, (p, Some o) ∈ conns → const_ok o = true) →
    mapM_res (λ c : string * option opd, match c.2 with None => Ok (c.1, None)
                 | Some o => rmap (λ s, (c.1, Some s)) (full_opd t0 t1 tx o) end) conns = Ok ((λ c : string * option opd, (c.1, nm <$> c.2)) <$> conns).
  Proof.
    induction conns as [|[p [o|]] conns IH]; intros H; [done| |]; cbn [mapM_res fmap list_fmap fst snd option_fmap option_map].
    - rewrite IH by (intros; eapply H; by right). rewrite (full_opd_ok o) by (apply (H p); by left). done.
    - rewrite IH by (intros; eapply H; by right). done.
  Qed.
  Lemma dict_set_fresh {A} k (v : A) (d : list (string * A)) : k ∉ fst <$> d → dict_set k v d = (d ++ [(k, v)])%list.
  Proof. induction d as [|[k' v'] d IH]; [done|]. rewrite fmap_cons, not_elem_of_cons. intros [Hne Hd]. cbn [dict_set]. rewrite bool_decide_eq_false_2 by done. by rewrite IH. Qed.
  Lemma conn_dict_cons_some p o conns : conn_dict ((p, Some o) :: conns) = (p, nm o) :: conn_dict conns.
  Proof. done. Qed.
  Lemma conn_dict_cons_none p conns : conn_dict ((p, None) :: conns) = conn_dict conns.
  Proof. done. Qed.
  Lemma dict_fold (conns : list (string * option opd)) : ∀ acc : list (string * string), NoDup ((fst <$> acc) ++ (fst <$> conns))%list →
    foldl (λ d (c : string * option string), match c.2 with Some s => dict_set c.1 s d | None => d end) acc ((λ c : string * option opd, (c.1, nm <$> c.2)) <$> conns)
      = (acc ++ conn_dict conns)%list.
  Proof.
    induction conns as [|[p [o|]] conns IH]; intros acc Hnd; rewrite ?conn_dict_cons_some, ?conn_dict_cons_none; cbn [foldl fmap list_fmap fst snd option_fmap option_map].
    - by rewrite app_nil_r.
    - rewrite fmap_cons in Hnd. apply NoDup_app in Hnd as (H1 & H2 & H3). apply NoDup_cons in H3 as [H3 H4].
      rewrite dict_set_fresh by (intros Hx; apply (H2 p Hx); by left). rewrite IH.
      + by rewrite <- app_assoc.
      + rewrite fmap_app. cbn [fmap list_fmap fst]. apply NoDup_app. split; [apply NoDup_app; split; [done|]; split; [|apply NoDup_singleton]|].
        * intros x Hx ->%elem_of_list_singleton. apply (H2 p Hx). by left.
        * split; [|done]. intros x [Hx| ->%elem_of_list_singleton]%elem_of_app Hx'; [apply (H2 x Hx); by right|done].
    - rewrite fmap_cons in Hnd. apply IH. apply NoDup_app in Hnd as (H1 & H2 & H3). apply NoDup_cons in H3 as [H3 H4].
      apply NoDup_app. split; [done|]. split; [|done]. intros x Hx Hx'. apply (H2 x Hx). by right.
  Qed.
  Lemma conn_dict_elem conns p n : (p, n) ∈ conn_dict conns ↔ ∃ o, (p, Some o) ∈ conns ∧ n = nm o.
  Proof.
    unfold FvA3.conn_dict. rewrite elem_of_list_omap. split.
    - intros ([p' [o|]] & Hin & Heq); simpl in Heq; [|done]. injection Heq as <- <-. eauto.
    - intros (o & Hin & ->). exists (p, Some o). done.
  Qed.
  Lemma conn_dict_keys conns : NoDup (fst <$> conns) → NoDup (fst <$> conn_dict conns).
  Proof.
    induction conns as [|[p [o|]] conns IH]; [done| |]; rewrite fmap_cons; intros [Hp Hnd]%NoDup_cons.
    - rewrite conn_dict_cons_some, fmap_cons. apply NoDup_cons. split; [|by apply IH]. intros ([p' n] & Heq & Hin)%elem_of_list_fmap. simpl in Heq. subst p'.
      apply conn_dict_elem in Hin as (o' & Hin & _). apply Hp. apply elem_of_list_fmap. exists (p, Some o'). done.
    - rewrite conn_dict_cons_none. by apply IH.
  Qed.
End dict.

Lemma nodup_fst_fun {A B} (l : list (A * B)) x y1 y2 : NoDup (fst <$> l) → (x, y1) ∈ l → (x, y2) ∈ l → y1 = y2.
Proof.
  induction l as [|[a b] l IH]; intros Hnd H1 H2; [by apply elem_of_nil in H1|]. rewrite fmap_cons in Hnd. apply NoDup_cons in Hnd as [Ha Hnd].
  apply elem_of_cons in H1 as [H1|H1], H2 as [H2|H2].
  - congruence.
  - exfalso. injection H1 as -> ->. apply Ha. apply elem_of_list_fmap. by exists (a, y2).
  - exfalso. injection H2 as -> ->. apply Ha. apply elem_of_list_fmap. by exists (a, y1).
  - by apply IH.
Qed.
Lemma nets_of_elem (dict : list (string * string)) l n : NoDup (fst <$> dict) → n ∈ nets_of dict l ↔ ∃ p, p ∈ l ∧ (p, n) ∈ dict.
Proof.
  intros Hnd. unfold nets_of. rewrite elem_of_list_bind. split.
  - intros (p & Hn & Hp). destruct (list_find _ dict) as [[k kv]|] eqn:E; [|by apply elem_of_nil in Hn]. apply elem_of_list_singleton in Hn as ->.
    apply list_find_Some in E as (Hk & Hkv & _). exists p. split; [done|]. rewrite <- Hkv. destruct kv. by eapply elem_of_list_lookup_2.
  - intros (p & Hp & Hin). exists p. split; [|done]. destruct (list_find_elem_of (λ kv : string * string, kv.1 = p) dict (p, n) Hin eq_refl) as [[k kv] E]. rewrite E.
    apply list_find_Some in E as (Hk & Hkv & _). apply elem_of_list_singleton. destruct kv as [p' n']. simpl in Hkv. subst p'.
    apply elem_of_list_lookup_2 in Hk. assert (n' = n) as -> by (eapply nodup_fst_fun; eauto). done.
Qed.
