(* C14 phase 2: agreement of the two reader models on the documented subset (part E6) *)
From stdpp Require Import strings gmap sets pretty.
From CG Require Import Model.FastVerilog Proofs.FastVerilogProofs Gen.Gen_fastv.
From CG Require Import Proofs.FvA0 Proofs.FvA1 Proofs.FvA2 Proofs.FvP1 Proofs.FvE1 Proofs.FvE2 Proofs.FvE3 Proofs.FvE4 Proofs.FvA3 Proofs.FvE5.
Open Scope string_scope.

Lemma pin_list_elem d p t : (p, t) ∈ pin_list d ↔ (p ∈ bb_in d ∧ t = BbIn) ∨ (p ∈ bb_out d ∧ t = BbOut).
Proof.
  unfold pin_list. rewrite elem_of_app, !elem_of_list_fmap. split.
  - intros [(x & [= -> ->] & Hx)|(x & [= -> ->] & Hx)]; apply elem_of_elements in Hx; auto.
  - intros [[Hp ->]|[Hp ->]]; [left|right]; exists p; (split; [done|by apply elem_of_elements]).
Qed.
Lemma pin_list_nodup d : bb_in d ## bb_out d → NoDup (fst <$> pin_list d).
Proof.
  intros Hdisj. assert (Hfst : ∀ (t : gtype) (l : list string), fst <$> ((λ p, (p, t)) <$> l) = l) by (intros t l; induction l as [|x l IH]; [done|]; rewrite !fmap_cons, IH; done).
  unfold pin_list. rewrite fmap_app, !Hfst.
  apply NoDup_app. split; [apply NoDup_elements|]. split; [|apply NoDup_elements]. intros x Hx1%elem_of_elements Hx2%elem_of_elements. set_solver.
Qed.
Lemma conns_add_elem d inst dict m x : x ∈ conns_add d inst dict m ↔
  ∃ c, c ∈ dict ∧ ((c.1 ∈ bb_in d ∧ m = pin inst c.1 ∧ x = c.2) ∨ (c.1 ∉ bb_in d ∧ m = c.2 ∧ x = pin inst c.1)).
Proof.
  unfold conns_add. rewrite elem_of_union_list. split.
  - intros (X & (c & -> & Hc)%elem_of_list_fmap & Hx). exists c. split; [done|]. unfold conn_add in Hx. case_bool_decide; destruct (decide _); set_solver.
  - intros (c & Hc & Hor). exists (conn_add d inst c m). split; [apply elem_of_list_fmap; eauto|]. unfold conn_add.
    destruct Hor as [(H1 & -> & ->)|(H1 & -> & ->)]; [rewrite bool_decide_eq_true_2 by done|rewrite bool_decide_eq_false_2 by done]; rewrite decide_True by done; set_solver.
Qed.
(* add_blackbox_spec in a form without list_find *)
Lemma abs_result d inst dict (g0 g' : circuit) : bb_in d ## bb_out d →
  (∀ m, g' !! m = match list_find (λ pt, m = pin inst pt.1) (pin_list d) with
                  | Some (_, pt) => Some (mk_node pt.2 false (conns_add d inst dict m))
                  | None => upd_fi (λ s, s ∪ conns_add d inst dict m) <$> g0 !! m end) →
  (∀ p t, (p, t) ∈ pin_list d → g' !! pin inst p = Some (mk_node t false (conns_add d inst dict (pin inst p)))) ∧
  (∀ m, (∀ p t, (p, t) ∈ pin_list d → m ≠ pin inst p) → g' !! m = upd_fi (λ s, s ∪ conns_add d inst dict m) <$> g0 !! m).
Proof.
  intros Hdisj Hg'. split.
  - intros p t Hpt. rewrite Hg'. destruct (list_find _ _) as [[k [p' t']]|] eqn:E.
    + apply list_find_Some in E as (Hk & Heq & _). simpl in Heq. apply pin_inj in Heq. subst p'. apply elem_of_list_lookup_2 in Hk.
      by rewrite (nodup_fst_fun _ p t t' (pin_list_nodup d Hdisj) Hpt Hk).
    + eapply list_find_None in E. rewrite Forall_forall in E. by destruct (E (p, t) Hpt).
  - intros m Hm. rewrite Hg'. destruct (list_find _ _) as [[k [p' t']]|] eqn:E; [|done].
    apply list_find_Some in E as (Hk & Heq & _). apply elem_of_list_lookup_2 in Hk. by destruct (Hm p' t' Hk).
Qed.
