(* C14 phase 2: agreement of the two reader models on the documented subset (part E7) *)
From stdpp Require Import strings gmap sets pretty.
From CG Require Import Model.FastVerilog Proofs.FastVerilogProofs Gen.Gen_fastv.
From CG Require Import Proofs.FvA0 Proofs.FvA1 Proofs.FvA2 Proofs.FvP1 Proofs.FvE1 Proofs.FvE2 Proofs.FvE3 Proofs.FvE4 Proofs.FvA3 Proofs.FvE5 Proofs.FvE6.
Open Scope string_scope.

Section inst.
  Variables (t0 t1 tx : string) (bbs : list bbdef).
  Notation nm := (nm t0 t1). Notation conn_dict := (conn_dict t0 t1). Notation look := (look t0 t1 tx). Notation rel := (rel t0 t1 tx).
  Notation tie := (tie t0 t1 tx). Notation stp := (stp t0 t1 bbs).

  Record inst_pre (s : st) (C : Circuit) (bb inst : string) (conns : list (string * option opd)) (d : bbdef) : Prop := {
    ip_first : find_bb_first bbs bb = Some d; ip_last : find_bb_last bbs bb = Some d;
    ip_new : inst ∉ dom (c_bbs C); ip_name : okname inst; ip_disj : bb_in d ## bb_out d;
    ip_nodup : NoDup (fst <$> conns);
    ip_pins : ∀ p o, (p, o) ∈ conns → p ∈ bb_in d ∨ p ∈ bb_out d;
    ip_const : ∀ p o, (p, Some o) ∈ conns → const_ok o = true;
    ip_fresh : ∀ p, p ∈ bb_in d ∨ p ∈ bb_out d → look s (pin inst p) = None ∧ ¬ tie (pin inst p);
    ip_nofan : ∀ o t fis q, sG s !! o = Some (t, fis) → pin inst q ∉ fis;
    ip_nets : ∀ p n, (p, n) ∈ conn_dict conns → okname n ∧ (∀ q, n ≠ pin inst q) ∧
                (p ∈ bb_in d → ∀ i, look s n = Some i → n_ty i ≠ BbIn ∧ n_ty i ≠ BbOut) ∧
                (p ∉ bb_in d → ¬ tie n ∧ sG s !! n = None ∧ n ∉ sI s);
    ip_outs : ∀ p n p' n', (p, n) ∈ conn_dict conns → (p', n') ∈ conn_dict conns → p ∉ bb_in d → p' ∉ bb_in d → p ≠ p' → n ≠ n' }.

  Lemma look_fi s m i : look s m = Some i → n_fi i = ∅ ∨ ∃ t fis, sG s !! m = Some (t, fis) ∧ n_fi i = list_to_set fis.
  Proof.
    unfold FvA3.look. destruct (decide (m = t0)); [intros [= <-]; by left|]. destruct (decide (m = t1)); [intros [= <-]; by left|].
    destruct (decide (m = tx)); [intros [= <-]; by left|]. destruct (sG s !! m) as [[t fis]|]; [intros [= <-]; right; eauto|].
    destruct (decide (m ∈ sI s)); [intros [= <-]; by left|]. destruct (decide (m ∈ sU s)); [intros [= <-]; by left|done].
  Qed.

  Lemma inst_step s C bb inst conns d : rel (c_g C) s → inst_pre s C bb inst conns d →
    ∃ C', full_item t0 t1 tx bbs C (IInst bb inst conns) = Ok C' ∧ rel (c_g C') (stp s (IInst bb inst conns)) ∧
          c_bbs C' = <[inst := d]> (c_bbs C).
  Proof.
    intros Hrel [Hfirst Hlast Hnew Hname Hdisj Hnd Hpins Hconst Hfresh Hnofan Hnets Houts].
    set (dict := conn_dict conns) in *.
    assert (Hdk : NoDup (fst <$> dict)) by by apply conn_dict_keys.
    assert (Hdpin : ∀ p n, (p, n) ∈ dict → p ∈ bb_in d ∨ p ∈ bb_out d).
    { intros p n (o & Hin & _)%conn_dict_elem. by eapply Hpins. }
    cbn [full_item]. rewrite (mapM_conns t0 t1 tx conns Hconst). cbn [rbind]. rewrite Hlast.
    rewrite (dict_fold t0 t1 conns []) by done. rewrite app_nil_l. fold dict.
    (* output nets become buffers *)
    assert (Hno : ∀ n, n ∈ nets_of dict (elements (bb_out d)) ↔ ∃ p, p ∉ bb_in d ∧ (p, n) ∈ dict).
    { intros n. rewrite (nets_of_elem dict _ n Hdk). split.
      - intros (p & Hp%elem_of_elements & Hin). exists p. split; [set_solver|done].
      - intros (p & Hp & Hin). exists p. split; [|done]. apply elem_of_elements. destruct (Hdpin p n Hin); done. }
    destruct (outs_fold dict (elements (bb_out d)) (c_g C)) as (g1 & -> & Hg1).
    { intros n (p & Hp & Hin)%Hno. destruct (Hnets p n Hin) as (Hok & _ & _ & Ho). split; [done|]. destruct (Ho Hp) as (Hnt & HG & HI).
      unfold fanin. rewrite Hrel. by apply look_fanin_undriven. }
    cbn [rbind].
    destruct (ins_fold dict g1) as (g2 & -> & Hg2).
    { intros [p n] Hin. by destruct (Hnets p n Hin). }
    cbn [rbind].
    assert (Hg1dom : ∀ m, m ∈ dom g1 ↔ m ∈ nets_of dict (elements (bb_out d)) ∨ is_Some (look s m)).
    { intros m. rewrite elem_of_dom, Hg1, Hrel. destruct (decide (m ∈ nets_of dict _)); [split; [auto|eauto]|]. tauto. }
    assert (Hnotnet : ∀ p, pin inst p ∉ snd <$> dict).
    { intros p ([p' n] & Heq & Hin)%elem_of_list_fmap. simpl in Heq. destruct (Hnets p' n Hin) as (_ & Hnp & _). by apply (Hnp p). }
    assert (Hpin2 : ∀ p, p ∈ bb_in d ∨ p ∈ bb_out d → g2 !! pin inst p = None).
    { intros p Hp. rewrite Hg2. rewrite decide_False by (intros [Hx _]; by apply (Hnotnet p)). rewrite Hg1.
      rewrite decide_False; [rewrite Hrel; by destruct (Hfresh p Hp)|].
      intros (p' & _ & Hin)%Hno. destruct (Hnets p' _ Hin) as (_ & Hnp & _). by apply (Hnp p). }
    assert (Hg2fi : ∀ m i, g2 !! m = Some i → n_fi i = ∅ ∨ ∃ t fis, sG s !! m = Some (t, fis) ∧ n_fi i = list_to_set fis).
    { intros m i. rewrite Hg2. destruct (decide _); [intros [= <-]; by left|]. rewrite Hg1. destruct (decide _); [intros [= <-]; by left|].
      rewrite Hrel. apply look_fi. }
    destruct (add_blackbox_spec (with_g C g2) d inst dict) as (g' & Hab & Hg'); cbn [with_g c_g c_bbs c_name]; try done.
    { intros p Hp. apply not_elem_of_dom, Hpin2. set_solver. }
    { intros m i q Hi Hin. destruct (Hg2fi m i Hi) as [He|(t & fis & HG & Hfi)]; [set_solver|]. rewrite Hfi in Hin.
      apply elem_of_list_to_set in Hin. by apply (Hnofan m t fis q). }
    { intros p n Hin. destruct (Hnets p n Hin) as (Hok & Hnp & Hi & Ho). split; [by eapply Hdpin|].
      assert (Hn2 : n ∈ dom g2).
      { apply elem_of_dom. rewrite Hg2. destruct (decide _); [eauto|]. apply elem_of_dom. destruct (decide (n ∈ dom g1)); [done|].
        exfalso. apply n0. split; [|done]. apply elem_of_list_fmap. by exists (p, n). }
      split; [done|]. split; [done|]. split.
      - intros Hp. unfold ty. rewrite Hg2. destruct (decide _); [simpl; split; done|]. rewrite Hg1. destruct (decide _); [simpl; split; done|].
        rewrite Hrel. specialize (Hi Hp). destruct (look s n) as [i|]; [|done]. simpl. destruct (Hi i eq_refl). split; congruence.
      - intros Hp. assert (Hpi : p ∉ bb_in d) by set_solver. assert (Hnn : n ∈ nets_of dict (elements (bb_out d))) by (apply Hno; eauto).
        unfold ty, fanin. rewrite Hg2. rewrite decide_False by (intros [_ Hx]; apply Hx, Hg1dom; by left). rewrite Hg1, decide_True by done. done. }
    { intros p n p' n' H1 H2 Hp Hp' Hne. apply (Houts p n p' n'); try done; set_solver. }
    rewrite Hab. eexists. split; [done|]. split; [|done]. cbn [c_g].
    destruct (abs_result d inst dict g2 g' Hdisj Hg') as [Hgp Hgo].
    (* the new state *)
    unfold FvA3.stp. cbn [views FvA3.views uses FvA3.uses]. rewrite Hfirst. fold dict.
    set (ents := inst_views t0 t1 d inst conns).
    assert (Hents : ∀ k v, (k, v) ∈ ents ↔
              (∃ p t, (p, t) ∈ pin_list d ∧ k = pin inst p ∧ v = (t, snd <$> filter (λ c : string * string, c.1 = p ∧ c.1 ∈ bb_in d) dict)) ∨
              (∃ p, (p, k) ∈ dict ∧ p ∉ bb_in d ∧ v = (Buf, [pin inst p]))).
    { intros k v. unfold ents, FvA3.inst_views. fold dict. rewrite elem_of_app, !elem_of_list_fmap. split.
      - intros [([p t] & [= -> ->] & Hpt)|([p n] & [= -> ->] & [Hp Hin]%elem_of_list_filter)]; [left; eauto|right; eauto].
      - intros [(p & t & Hpt & -> & ->)|(p & Hin & Hp & ->)]; [left; by exists (p, t)|right; exists (p, k); split; [done|by apply elem_of_list_filter]]. }
    assert (Hkeys : NoDup (fst <$> ents)).
    { unfold ents, FvA3.inst_views. fold dict. rewrite fmap_app, <- !list_fmap_compose. apply NoDup_app. split; [|split].
      - apply (NoDup_fmap_2_strong _ (pin_list d)); [|by apply NoDup_fmap_1 with fst, pin_list_nodup].
        intros [p t] [p' t'] H1 H2 Heq%pin_inj. simpl in Heq. subst p'. f_equal. by eapply nodup_fst_fun; [apply pin_list_nodup|..].
      - intros k ([p t] & -> & _)%elem_of_list_fmap ([p' n] & Heq & [_ Hin]%elem_of_list_filter)%elem_of_list_fmap. simpl in Heq.
        destruct (Hnets p' n Hin) as (_ & Hnp & _). by apply (Hnp p).
      - apply (NoDup_fmap_2_strong _ (filter _ dict)); [|apply NoDup_filter; by apply NoDup_fmap_1 with fst].
        intros [p n] [p' n'] [Hp H1]%elem_of_list_filter [Hp' H2]%elem_of_list_filter Heq. simpl in *. subst n'.
        destruct (decide (p = p')) as [->|Hne]; [done|]. by destruct (Houts p n p' n H1 H2 Hp Hp' Hne). }
    intros m.
    (* the three kinds of nodes *)
    destruct (decide (m ∈ (λ pt : string * gtype, pin inst pt.1) <$> pin_list d)) as [Hispin|Hnopin'].
    2: assert (Hnopin : ¬ ∃ p t, (p, t) ∈ pin_list d ∧ m = pin inst p) by (intros (p & t & Hpt & ->); apply Hnopin'; apply elem_of_list_fmap; by exists (p, t)).
    1: apply elem_of_list_fmap in Hispin as ([p t] & -> & Hpt); cbn [fst].
    { rewrite (Hgp p t Hpt). assert (Hp : p ∈ bb_in d ∨ p ∈ bb_out d) by (apply pin_list_elem in Hpt; tauto).
      destruct (Hfresh p Hp) as [_ Hnt]. rewrite look_nontie by done. unfold look_rest. cbn [sG sI sU].
      rewrite (foldl_ins_in ents (sG s) (pin inst p) (t, snd <$> filter (λ c : string * string, c.1 = p ∧ c.1 ∈ bb_in d) dict) Hkeys) by (apply Hents; left; eauto).
      f_equal. unfold mk_node. f_equal. apply set_eq. intros x. rewrite conns_add_elem, elem_of_list_to_set, elem_of_list_fmap. split.
      - intros ([p' n] & Hin & [(H1 & Heq%pin_inj & ->)|(H1 & Heq & ->)]); simpl in *.
        + subst p'. exists (p, n). split; [done|]. by apply elem_of_list_filter.
        + destruct (Hnets p' n Hin) as (_ & Hnp & _). by destruct (Hnp p).
      - intros ([p' n] & -> & [[Heq Hpi] Hin]%elem_of_list_filter). simpl in *. subst p'. exists (p, n). split; [done|]. left. done. }
    assert (Hmnp : ∀ p t, (p, t) ∈ pin_list d → m ≠ pin inst p) by (intros p t Hpt ->; apply Hnopin; eauto).
    rewrite (Hgo m Hmnp).
    destruct (decide (m ∈ snd <$> filter (λ c : string * string, c.1 ∉ bb_in d) dict)) as [Hisout|Hnoout'].
    2: assert (Hnoout : ¬ ∃ p, (p, m) ∈ dict ∧ p ∉ bb_in d) by (intros (p & Hin & Hp); apply Hnoout'; apply elem_of_list_fmap; exists (p, m); split; [done|by apply elem_of_list_filter]).
    1: apply elem_of_list_fmap in Hisout as ([p n] & Heq & [Hp Hin]%elem_of_list_filter); cbn [fst snd] in *; subst n.
    { destruct (Hnets p m Hin) as (_ & Hnp & _ & Ho). destruct (Ho Hp) as (Hnt & HG & HI).
      rewrite Hg2. rewrite decide_False by (intros [_ Hx]; apply Hx, Hg1dom; left; apply Hno; eauto). rewrite Hg1, decide_True by (apply Hno; eauto).
      rewrite look_nontie by done. unfold look_rest. cbn [sG sI sU].
      rewrite (foldl_ins_in ents (sG s) m (Buf, [pin inst p]) Hkeys) by (apply Hents; right; eauto).
      simpl. unfold upd_fi, mk_node. simpl. do 2 f_equal. apply set_eq. intros x. rewrite elem_of_union, conns_add_elem. split.
      - intros [?|([p' n] & Hin' & [(H1 & Heq & ->)|(H1 & Heq & ->)])]; [set_solver| |]; simpl in *.
        + by destruct (Hnp p').
        + subst n. destruct (decide (p = p')) as [->|Hne]; [set_solver|]. by destruct (Houts p m p' m Hin Hin' Hp H1 Hne).
      - intros Hx. assert (x = pin inst p) as -> by set_solver. right. exists (p, m). split; [done|]. right. done. }
    (* every other node: constants unchanged; nets on input pins may appear as placeholders *)
    assert (Hca : conns_add d inst dict m = ∅).
    { apply set_eq. intros x. rewrite conns_add_elem. split; [|set_solver]. intros ([p n] & Hin & [(H1 & -> & _)|(H1 & -> & _)]); simpl in *.
      - exfalso. destruct (Hdpin p n Hin) as [Hp|Hp]; [apply (Hmnp p BbIn)|apply (Hmnp p BbOut)]; try done; apply pin_list_elem; auto.
      - exfalso. apply Hnoout. eauto. }
    rewrite Hca. assert (Hid : ∀ o : option ninfo, upd_fi (λ s0, s0 ∪ ∅) <$> o = o).
    { intros [[ty0 o0 fi0]|]; simpl; [|done]. unfold upd_fi. simpl. do 2 f_equal. set_solver. }
    rewrite Hid, Hg2, Hg1. rewrite (decide_False (P := m ∈ nets_of dict (elements (bb_out d)))) by (intros (p & Hp & Hin)%Hno; apply Hnoout; eauto).
    assert (Hkeym : m ∉ fst <$> ents).
    { intros ([k v] & -> & [(p & t & Hpt & -> & _)|(p & Hin & Hp & _)]%Hents)%elem_of_list_fmap; simpl in *; [by apply (Hmnp p t)|apply Hnoout; eauto]. }
    assert (HmU : m ∈ snd <$> dict ↔ m ∈ snd <$> filter (λ c : string * string, c.1 ∈ bb_in d) dict).
    { rewrite !elem_of_list_fmap. split.
      - intros ([p n] & -> & Hin). exists (p, n). split; [done|]. apply elem_of_list_filter. split; [|done]. simpl.
        destruct (decide (p ∈ bb_in d)); [done|]. exfalso. apply Hnoout. eauto.
      - intros ([p n] & -> & [_ Hin]%elem_of_list_filter). by exists (p, n). }
    destruct (decide (tie m)) as [Htm|Htm].
    { destruct (look_tie t0 t1 tx s m Htm) as (i & Hi & _). rewrite decide_False.
      - rewrite Hrel. unfold FvA3.look, FvA3.tie in *. cbn [sG sI sU].
        destruct (decide (m = t0)); [done|]. destruct (decide (m = t1)); [done|]. destruct (decide (m = tx)); [done|]. tauto.
      - intros [_ Hx]. apply Hx, Hg1dom. right. rewrite Hi. eauto. }
    rewrite (look_nontie _ _ _ _ m Htm). unfold look_rest. cbn [sG sI sU]. rewrite (foldl_ins_other ents (sG s) m Hkeym).
    assert (Hgm : c_g C !! m = look_rest s m) by (rewrite Hrel; by apply look_nontie).
    destruct (decide (m ∈ snd <$> dict ∧ m ∉ dom g1)) as [[Hmd Hmn]|Hn].
    - assert (Hls : look s m = None). { destruct (look s m) eqn:E; [|done]. exfalso. apply Hmn, Hg1dom. right. eauto. }
      rewrite look_nontie in Hls by done. unfold look_rest in Hls. destruct (sG s !! m) as [[??]|]; [done|]. destruct (decide (m ∈ sI s)); [done|].
      rewrite decide_True; [done|]. apply elem_of_union_r, elem_of_list_to_set. by apply HmU.
    - rewrite Hgm. unfold look_rest. destruct (sG s !! m) as [[??]|] eqn:E; [done|]. destruct (decide (m ∈ sI s)); [done|].
      destruct (decide (m ∈ sU s)); [rewrite decide_True by set_solver; done|].
      rewrite decide_False; [done|]. intros [?|Hu%elem_of_list_to_set]%elem_of_union; [done|]. apply Hn. split; [by apply HmU|].
      intros Hd%Hg1dom. destruct Hd as [(p & Hp & Hin)%Hno|Hs]; [apply Hnoout; eauto|].
      rewrite look_nontie in Hs by done. unfold look_rest in Hs. rewrite E in Hs. rewrite decide_False, decide_False in Hs by done. by destruct Hs.
  Qed.
End inst.
