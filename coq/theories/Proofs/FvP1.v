(* C14 phase 2: agreement of the two reader models on the documented subset (part P1) *)
From Coq Require Import Ascii.
From stdpp Require Import strings gmap sets pretty.
From CG Require Import Model.FastVerilog Proofs.FastVerilogProofs Gen.Gen_fastv.
From CG Require Import Proofs.FvA0 Proofs.FvA1.
Open Scope string_scope.

(* ---- names with a dot (pins) versus identifiers and tie names *)
Fixpoint dotted (s : string) : bool :=
  match s with EmptyString => false | String c r => Ascii.eqb c "."%char || dotted r end.
Lemma dotted_app s t : dotted (s ++ t) = dotted s || dotted t.
Proof. induction s as [|c s IH]; [done|]. change (String c s ++ t) with (String c (s ++ t)). cbn [dotted]. by rewrite IH, orb_assoc. Qed.
Lemma pin_dotted inst p : dotted (pin inst p) = true.
Proof. unfold pin. rewrite dotted_app. change ("." ++ p) with (String "."%char p). cbn [dotted]. rewrite Ascii.eqb_refl. by rewrite orb_true_r. Qed.
Lemma idchars_not_dotted r : forallb is_idchar (list_ascii_of_string r) = true → dotted r = false.
Proof.
  induction r as [|c r IH]; [done|]. cbn [list_ascii_of_string forallb dotted]. intros [Hc Hr]%andb_true_iff. rewrite (IH Hr), orb_false_r.
  destruct (Ascii.eqb_spec c "."%char) as [->|]; [by vm_compute in Hc|done].
Qed.
Lemma ident_not_dotted s : is_ident s = true → dotted s = false.
Proof.
  destruct s as [|c r]; [done|]. cbn [is_ident dotted]. intros [Hc Hr]%andb_true_iff. rewrite (idchars_not_dotted r Hr), orb_false_r.
  destruct (Ascii.eqb_spec c "."%char) as [->|]; [by vm_compute in Hc|done].
Qed.

(* decimal numerals have no dot *)
Lemma pretty_N_go_not_dotted x : ∀ s, dotted s = false → dotted (pretty_N_go x s) = false.
Proof.
  induction (N.lt_wf_0 x) as [x _ IH]. intros s Hs. destruct (decide (0 < x)%N) as [Hx|Hx].
  - rewrite pretty_N_go_step by done. apply IH; [apply N.div_lt; lia|]. cbn [dotted]. rewrite Hs, orb_false_r.
    unfold pretty_N_char. by repeat case_match.
  - assert (x = 0%N) as -> by lia. by rewrite pretty_N_go_0.
Qed.
Lemma pretty_N_not_dotted (x : N) : dotted (pretty x) = false.
Proof. unfold pretty, pretty_N. case_decide; [done|]. by apply pretty_N_go_not_dotted. Qed.
Lemma cand_not_dotted b j : dotted b = false → dotted (cand b j) = false.
Proof. intros Hb. unfold cand, pre. rewrite !dotted_app, Hb, pretty_N_not_dotted. done. Qed.
Lemma uid_in_not_dotted U b : dotted b = false → dotted (uid_in U b) = false.
Proof.
  intros Hb. unfold uid_in. case_bool_decide; [|done].
  generalize (S (size U)) 0%N. intros f. induction f as [|f IH]; intros i; simpl; [by apply cand_not_dotted|]. case_bool_decide; [apply IH|by apply cand_not_dotted].
Qed.
Lemma tie_name_not_dotted R b : dotted b = false → dotted (tie_name R b) = false.
Proof.
  intros Hb. unfold tie_name. case_bool_decide; [|done].
  generalize (S (size R)) 0%N. intros f. induction f as [|f IH]; intros i; simpl; [by apply cand_not_dotted|]. case_bool_decide; [apply IH|by apply cand_not_dotted].
Qed.

(* pin names determine the instance (instance names are identifiers) *)
Lemma pin_inj2 inst inst' p p' : dotted inst = false → dotted inst' = false → pin inst p = pin inst' p' → inst = inst' ∧ p = p'.
Proof.
  unfold pin. revert inst'. induction inst as [|c r IH]; intros [|c' r'] H1 H2 Heq.
  - split; [done|]. by simplify_eq/=.
  - exfalso. change ("" ++ "." ++ p) with (String "."%char p) in Heq. change (String c' r' ++ "." ++ p') with (String c' (r' ++ "." ++ p')) in Heq.
    injection Heq as <- _. cbn [dotted] in H2. by rewrite Ascii.eqb_refl in H2.
  - exfalso. change ("" ++ "." ++ p') with (String "."%char p') in Heq. change (String c r ++ "." ++ p) with (String c (r ++ "." ++ p)) in Heq.
    injection Heq as -> _. cbn [dotted] in H1. by rewrite Ascii.eqb_refl in H1.
  - change (String c r ++ "." ++ p) with (String c (r ++ "." ++ p)) in Heq. change (String c' r' ++ "." ++ p') with (String c' (r' ++ "." ++ p')) in Heq.
    injection Heq as -> Heq. cbn [dotted] in H1, H2. apply orb_false_iff in H1 as [_ H1]. apply orb_false_iff in H2 as [_ H2].
    destruct (IH r' H1 H2 Heq) as [-> ->]. done.
Qed.

(* NoDup of a bind, position-wise *)
Lemma NoDup_bind_pos {A} (f : A → list string) (l : list A) :
  (∀ x, x ∈ l → NoDup (f x)) → (∀ i j x y k, i ≠ j → l !! i = Some x → l !! j = Some y → k ∈ f x → k ∈ f y → False) → NoDup (l ≫= f).
Proof.
  induction l as [|x l IH]; intros H1 H2; [constructor|]. rewrite bind_cons. apply NoDup_app. split; [apply H1; by left|]. split.
  - intros k Hk (y & Hy & Hyl)%elem_of_list_bind. apply elem_of_list_lookup in Hyl as [j Hj]. by apply (H2 0 (S j) x y k).
  - apply IH; [intros; apply H1; by right|]. intros i j x' y' k Hij Hi Hj. apply (H2 (S i) (S j) x' y' k); [lia|done|done].
Qed.
Lemma NoDup_bind_inv {A} (f : A → list string) (l : list A) i j x y k :
  NoDup (l ≫= f) → i ≠ j → l !! i = Some x → l !! j = Some y → k ∈ f x → k ∈ f y → False.
Proof.
  revert i j. induction l as [|z l IH]; intros i j Hnd Hij Hi Hj Hkx Hky; [done|].
  rewrite bind_cons in Hnd. apply NoDup_app in Hnd as (H1 & H2 & H3).
  destruct i as [|i], j as [|j]; simplify_eq/=.
  - apply (H2 k Hkx). apply elem_of_list_bind. exists y. split; [done|]. by eapply elem_of_list_lookup_2.
  - apply (H2 k Hky). apply elem_of_list_bind. exists x. split; [done|]. by eapply elem_of_list_lookup_2.
  - apply (IH i j); try done. lia.
Qed.
