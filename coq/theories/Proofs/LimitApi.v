(* C05: the direct models of Model/Limit.v agree with the compositions of Base/Api.v operations that the Python code
   performs (disconnect, add(uid=True) with its two connects, add_blackbox): whenever the API-level function returns a
   circuit, the direct model returns the same circuit.  So the tie to the code goes through the one validated API model. *)
From stdpp Require Import strings gmap sets fin_sets pretty.
From CG Require Import Fold Model.Limit Proofs.ApiProofs Proofs.LimitProofs.
Open Scope string_scope.

Lemma ninfo_eq (i j : ninfo) : n_ty i = n_ty j → n_out i = n_out j → n_fi i ≡ n_fi j → i = j.
Proof. destruct i, j. simpl. intros -> -> ->%leibniz_equiv. done. Qed.

Lemma connect_g_done c us vs c' : connect_g c us vs = (c', Done) → us ≠ [] → vs ≠ [] →
  connect_check c us vs = true ∧ (∀ x, x ∈ (us ++ vs)%list → x ∈ dom c).
Proof.
  unfold connect_g. intros H Hu Hv.
  rewrite (bool_decide_eq_false_2 _ Hu), (bool_decide_eq_false_2 _ Hv) in H. simpl in H.
  destruct (forallb _ _) eqn:Hf; [|done]. simpl in H. destruct (connect_check c us vs); [|done]. split; [done|].
  intros x Hx. rewrite forallb_forall in Hf. apply elem_of_list_In in Hx. apply Hf in Hx. by apply bool_decide_eq_true in Hx.
Qed.

(* add(name, t, fanin=fi, fanout=fo, uid=True) accepted: the new node, and who now reads it *)
Lemma add_g_uid_done c name t fi fo c' m : add_g c name t fi fo fl_uid = (c', Done, m) → (∀ x, x ∈ fo → x ∈ dom c) →
  let c1 := <[m := mk_node t false ∅]> c in
  m = uid c name ∧ m ∉ dom c ∧ m ≠ "" ∧ starts_digit m = false ∧
  (∃ c2, connect_g c1 [m] fo = (c2, Done) ∧ connect_g c2 fi [m] = (c', Done)) ∧
  ∀ x, c' !! x = if decide (x = m) then Some (mk_node t false (list_to_set fi))
                 else upd_fi (λ s, s ∪ (if decide (x ∈ fo) then {[m]} else ∅)) <$> c !! x.
Proof.
  unfold add_g. cbn [af_uid af_redef af_conn af_out fl_uid negb andb]. set (m' := uid c name).
  assert (Hfresh : m' ∉ dom c) by apply uid_fresh.
  assert (Hfi : fanin c m' = ∅) by (unfold fanin; by rewrite (not_elem_of_dom_1 _ _ Hfresh)).
  rewrite Hfi.
  repeat (match goal with |- context [if ?b then (c, Fail ValueError, m') else _] => destruct b eqn:?; [done|] end).
  set (c1 := <[m' := mk_node t false ∅]> c).
  destruct (connect_g c1 [m'] fo) as [c2 o2] eqn:E2. destruct o2 as [|e2]; [|done].
  destruct (connect_g c2 fi [m']) as [c3 o3] eqn:E3. destruct o3 as [|[]]; try done.
  intros [= <- <-] Hfo. cbv zeta. fold c1.
  split_and!; try done.
  - match goal with H : bool_decide (m' = "") = false |- _ => by apply bool_decide_eq_false in H end.
  - eauto.
  - intros x.
    pose proof (connect_g_lookup c1 [m'] fo x) as L2. rewrite E2 in L2. specialize (L2 eq_refl). simpl in L2.
    pose proof (connect_g_lookup c2 fi [m'] x) as L3. rewrite E3 in L3. specialize (L3 eq_refl). simpl in L3.
    rewrite L3, L2. unfold c1. destruct (decide (x = m')) as [->|Hne].
    + rewrite lookup_insert. simpl. f_equal. apply ninfo_eq; simpl; [done|done|].
      rewrite decide_False by (intros Hin; apply Hfresh, Hfo, Hin). rewrite decide_True by set_solver. set_solver.
    + rewrite lookup_insert_ne by done. destruct (c !! x) as [j|]; simpl; [|done]. f_equal. apply ninfo_eq; simpl; [done|done|].
      rewrite (decide_False (P := x ∈ [m'])) by set_solver. destruct (decide (x ∈ fo)); set_solver.
Qed.

(* ------------------------------------------------------------------ disconnect of two wires *)
Lemma disconnect_in_lookup c f0 f1 n x :
  disconnect_g c [f0; f1] [n] !! x = if decide (x = n) then upd_fi (λ s, s ∖ {[f0; f1]}) <$> c !! x else c !! x.
Proof.
  change (disconnect_g c [f0; f1] [n]) with (del_edge (del_edge c f0 n) f1 n). rewrite !del_edge_lookup.
  destruct (decide (x = n)); [|done]. destruct (c !! x) as [j|]; simpl; [|done]. f_equal. apply ninfo_eq; simpl; [done|done|set_solver].
Qed.
Lemma disconnect_out_lookup c n f0 f1 x :
  disconnect_g c [n] [f0; f1] !! x = if decide (x ∈ [f0; f1]) then upd_fi (λ s, s ∖ {[n]}) <$> c !! x else c !! x.
Proof.
  change (disconnect_g c [n] [f0; f1]) with (del_edge (del_edge c n f0) n f1). rewrite !del_edge_lookup.
  destruct (decide (x = f1)) as [E1|N1]; destruct (decide (x = f0)) as [E0|N0].
  - rewrite decide_True by set_solver. destruct (c !! x) as [j|]; simpl; [|done]. f_equal. apply ninfo_eq; simpl; [done|done|set_solver].
  - rewrite decide_True by set_solver. done.
  - rewrite decide_True by set_solver. done.
  - rewrite decide_False by set_solver. done.
Qed.
Lemma disconnect_dom c us vs : dom (disconnect_g c us vs) = dom c.
Proof. unfold disconnect_g. by destruct (del_edges_sub c (pairs us vs)). Qed.
Lemma uid_dom c c' n : dom c' = dom c → uid c' n = uid c n.
Proof. unfold uid. by intros ->. Qed.
Lemma of_add_ok r c' : of_add r = Ok c' → ∃ m, r = (c', Done, m).
Proof. destruct r as [[g o] m]. unfold of_add. simpl. destruct o; [|done]. intros [= ->]. eauto. Qed.

(* ------------------------------------------------------------------ limit_fanin step *)
Lemma base_op_three t : t ∈ six → base_op t ∈ [And; Or; Xor].
Proof. unfold six. rewrite !elem_of_cons, elem_of_nil. intros [->|[->|[->|[->|[->|[->|[]]]]]]]; simpl; set_solver. Qed.
(* connect([.., u, ..], [m]) with m a 2-operand gate is rejected when u is a blackbox pin *)
Lemma bb_driver_rejected t0 tb rest : tb ∈ [And; Or; Xor] →
  (is_in (Some t0) conn_no_fanout || (is_in (Some t0) conn_bbout && (negb (is_in (Some tb) [Buf]) || false || rest))) = false →
  is_in (Some t0) [BbIn; BbOut] = false.
Proof.
  rewrite !elem_of_cons, elem_of_nil. intros [->|[->|[->|[]]]]; destruct t0; vm_compute; intros; done.
Qed.

Lemma fanin_step_api_sound T c k n f0 f1 i c' : limit_tables_ok T = true → closed c →
  fanin_step_api T c k n f0 f1 i = Ok c' → fanin_step T c k n f0 f1 i = Ok c'.
Proof.
  intros HT Hcl. unfold fanin_step_api, fanin_step. destruct (c !! n) as [inf|] eqn:Hn; [|done].
  destruct (negb (k <? size (n_fi inf))%nat); [done|].
  destruct (bool_decide (f0 = f1) || negb (bool_decide (f0 ∈ n_fi inf)) || negb (bool_decide (f1 ∈ n_fi inf))) eqn:Hleg; [done|].
  destruct (assoc (t_gatemap T) (n_ty inf)) as [t'|] eqn:Ha; [|done].
  destruct (tables_gatemap _ _ _ HT Ha) as [Hsix ->].
  intros (m & Hadd)%of_add_ok.
  set (c0 := disconnect_g c [f0; f1] [n]) in *.
  assert (Hd0 : dom c0 = dom c) by apply disconnect_dom.
  assert (Hnd : n ∈ dom c) by (apply elem_of_dom; eauto).
  apply add_g_uid_done in Hadd as (Hm & Hfresh & Hne & Hdig & (c2 & E2 & E3) & Hlk).
  2:{ intros x ->%elem_of_list_singleton. by rewrite Hd0. }
  rewrite (uid_dom c c0) in Hm by done. rewrite Hd0 in Hfresh.
  apply orb_false_iff in Hleg as [Hleg H1]. apply orb_false_iff in Hleg as [_ H0].
  apply negb_false_iff, bool_decide_eq_true in H0, H1.
  assert (Hf0m : f0 ≠ m) by (intros ->; apply Hfresh; by eapply Hcl).
  assert (Hf1m : f1 ≠ m) by (intros ->; apply Hfresh; by eapply Hcl).
  assert (Hnm : n ≠ m) by (intros ->; done).
  (* the guards of the direct model *)
  assert (Hmulti : is_multi (base_op (n_ty inf)) = true).
  { unfold limit_tables_ok in HT. rewrite !andb_true_iff in HT. destruct HT as (((((((_ & _) & Hp) & _) & _) & _) & _) & _).
    apply bool_decide_eq_true in Hp. unfold is_multi. apply bool_decide_eq_true. rewrite Hp.
    clear -Hsix. unfold six in *. rewrite !elem_of_cons, elem_of_nil in Hsix. destruct Hsix as [->|[->|[->|[->|[->|[->|[]]]]]]]; simpl; set_solver. }
  rewrite Hmulti. cbn [negb]. rewrite <- Hm, Hdig.
  assert (Hbb : existsb (λ f, is_in (ty c f) [BbIn; BbOut]) [f0; f1] = false).
  { apply connect_g_done in E3 as [Hchk _]; [|done|done].
    pose proof (connect_g_lookup (<[m:=mk_node (base_op (n_ty inf)) false ∅]> c0) [m] [n]) as L2. rewrite E2 in L2. simpl in L2.
    assert (Hty2 : ∀ x, x ≠ m → ty c2 x = ty c x).
    { intros x Hx. unfold ty at 1. rewrite (L2 x eq_refl), lookup_insert_ne by done. unfold c0. rewrite disconnect_in_lookup.
      destruct (decide (x = n)); unfold ty; destruct (c !! x); done. }
    assert (Hty2m : ty c2 m = Some (base_op (n_ty inf))).
    { unfold ty. rewrite (L2 m eq_refl), lookup_insert. done. }
    unfold connect_check in Hchk. apply andb_true_iff in Hchk as [_ Hchk]. apply negb_true_iff in Hchk.
    cbn [existsb] in Hchk. rewrite !orb_false_iff in Hchk. destruct Hchk as ((G0a & G0b) & (G1a & G1b) & _).
    rewrite Hty2m, !Hty2 in * by done. cbn [existsb]. apply orb_false_iff. split; [|apply orb_false_iff; split; [|done]].
    - destruct (ty c f0) as [t0|]; [|done]. eapply (bb_driver_rejected t0 _ _ (base_op_three _ Hsix)). by rewrite G0a, G0b.
    - destruct (ty c f1) as [t1|]; [|done]. eapply (bb_driver_rejected t1 _ _ (base_op_three _ Hsix)). by rewrite G1a, G1b. }
  rewrite Hbb. f_equal. apply map_eq. intros x. rewrite Hlk. unfold regrouped.
  destruct (decide (x = m)) as [->|Hxm].
  - rewrite lookup_insert. f_equal. apply ninfo_eq; simpl; [done|done|clear; set_solver].
  - rewrite lookup_insert_ne by done. unfold c0. rewrite disconnect_in_lookup. destruct (decide (x = n)) as [->|Hxn].
    + rewrite lookup_insert, Hn. simpl. f_equal. apply ninfo_eq; simpl; [done|done|]. rewrite decide_True by (clear; set_solver). clear. set_solver.
    + rewrite lookup_insert_ne by done. destruct (c !! x) as [j|]; simpl; [|done]. f_equal. apply ninfo_eq; simpl; [done|done|].
      rewrite decide_False by (clear -Hxn; set_solver). clear. set_solver.
Qed.

(* ------------------------------------------------------------------ limit_fanout step *)
Lemma bb_source_rejected t0 rest : (is_in (Some t0) conn_no_fanout || (is_in (Some t0) conn_bbout && (negb (is_in (Some Buf) [Buf]) || false || rest))) = false →
  rest = true → is_in (Some t0) [BbIn; BbOut] = false.
Proof. intros H ->. revert H. destruct t0; vm_compute; intros; done. Qed.

Lemma fanout_step_api_sound T c k n f0 f1 i c' : limit_tables_ok T = true → closed c → 2 ≤ k →
  fanout_step_api T c k n f0 f1 i = Ok c' → fanout_step T c k n f0 f1 i = Ok c'.
Proof.
  intros HT Hcl Hk. unfold fanout_step_api, fanout_step. destruct (c !! n) as [inf|] eqn:Hn; [|done]. cbv zeta.
  destruct (k <? size (fanout c n))%nat eqn:Hsz; [|done]. cbn [negb]. apply Nat.ltb_lt in Hsz.
  destruct (bool_decide (f0 = f1) || negb (bool_decide (f0 ∈ fanout c n)) || negb (bool_decide (f1 ∈ fanout c n))) eqn:Hleg; [done|].
  destruct (tables_parts T HT) as (_ & _ & Hh & _). rewrite Hh.
  intros (m & Hadd)%of_add_ok.
  set (c0 := disconnect_g c [n] [f0; f1]) in *.
  assert (Hd0 : dom c0 = dom c) by apply disconnect_dom.
  assert (Hnd : n ∈ dom c) by (apply elem_of_dom; eauto).
  apply orb_false_iff in Hleg as [Hleg H1]. apply orb_false_iff in Hleg as [Hne H0].
  apply negb_false_iff, bool_decide_eq_true in H0, H1. apply bool_decide_eq_false in Hne.
  assert (Hf0d : f0 ∈ dom c) by (apply elem_of_fanout in H0 as (? & ? & _); apply elem_of_dom; eauto).
  assert (Hf1d : f1 ∈ dom c) by (apply elem_of_fanout in H1 as (? & ? & _); apply elem_of_dom; eauto).
  apply add_g_uid_done in Hadd as (Hm & Hfresh & Hmne & Hdig & (c2 & E2 & E3) & Hlk).
  2:{ intros x. rewrite !elem_of_cons, elem_of_nil, Hd0. intros [->|[->|[]]]; done. }
  rewrite (uid_dom c c0) in Hm by done. rewrite Hd0 in Hfresh.
  assert (Hf0m : f0 ≠ m) by (intros ->; done). assert (Hf1m : f1 ≠ m) by (intros ->; done). assert (Hnm : n ≠ m) by (intros ->; done).
  rewrite bool_decide_eq_true_2 by (clear; set_solver). cbn [negb]. rewrite <- Hm, Hdig.
  set (c1 := <[m:=mk_node Buf false ∅]> c0) in *.
  assert (L1 : ∀ x, x ≠ m → c1 !! x = if decide (x ∈ [f0; f1]) then upd_fi (λ s, s ∖ {[n]}) <$> c !! x else c !! x).
  { intros x Hx. unfold c1, c0. by rewrite lookup_insert_ne, disconnect_out_lookup. }
  pose proof (connect_g_lookup c1 [m] [f0; f1]) as L2. rewrite E2 in L2. simpl in L2.
  (* loads accept the helper *)
  assert (Hloads : existsb (λ f, is_in (ty c f) conn_no_fanin
              || (is_in (ty c f) conn_single_fanin && (1 <? size (fanin c f ∖ {[n]}) + 1)%nat)) [f0; f1] = false).
  { apply connect_g_done in E2 as [Hchk _]; [|done|done].
    unfold connect_check in Hchk. apply andb_true_iff in Hchk as [Hchk _]. apply negb_true_iff in Hchk.
    assert (Hl1 : ∀ f, f ∈ [f0; f1] → f ≠ m → ty c1 f = ty c f ∧ fanin c1 f = fanin c f ∖ {[n]}).
    { intros f Hf Hfm. unfold ty, fanin. rewrite (L1 f Hfm), decide_True by done. destruct (c !! f); simpl; [done|]. split; [done|clear; set_solver]. }
    cbn [existsb length] in *. destruct (Hl1 f0) as [T0 F0]; [clear; set_solver|done|]. destruct (Hl1 f1) as [T1 F1]; [clear; set_solver|done|].
    rewrite T0, F0, T1, F1 in Hchk. exact Hchk. }
  rewrite Hloads.
  (* the source may drive the helper *)
  assert (Hsrc : is_in (Some (n_ty inf)) [BbIn; BbOut] = false).
  { apply connect_g_done in E3 as [Hchk _]; [|done|done].
    unfold connect_check in Hchk. apply andb_true_iff in Hchk as [_ Hchk]. apply negb_true_iff in Hchk.
    cbn [existsb length] in Hchk. rewrite orb_false_r in Hchk.
    assert (Hc2n : ty c2 n = Some (n_ty inf)).
    { unfold ty. rewrite (L2 n eq_refl), (L1 n) by done. destruct (decide (n ∈ [f0; f1])); rewrite Hn; done. }
    assert (Hc2m : ty c2 m = Some Buf).
    { unfold ty. rewrite (L2 m eq_refl). unfold c1. by rewrite lookup_insert. }
    rewrite Hc2n, Hc2m in Hchk. eapply bb_source_rejected; [exact Hchk|].
    (* a third load is still wired to n *)
    apply Nat.ltb_lt.
    destruct (size_pos_elem_of (fanout c n ∖ {[f0; f1]})) as [f2 Hf2].
    { rewrite size_difference by (clear -H0 H1; set_solver). rewrite size_union, !size_singleton by (clear -Hne; set_solver). lia. }
    apply elem_of_difference in Hf2 as [Hf2 Hf2n]. apply elem_of_fanout in Hf2 as (j2 & Hj2 & Hin2).
    assert (f2 ≠ m) by (intros ->; apply Hfresh, elem_of_dom; eauto).
    assert (f2 ∈ fanout c2 n) as Hin.
    { apply elem_of_fanout. rewrite (L2 f2 eq_refl), (L1 f2) by done. repeat (rewrite decide_False by (clear -Hf2n; set_solver)).
      rewrite Hj2. simpl. eexists. split; [reflexivity|]. simpl. clear -Hin2. set_solver. }
    apply elem_size_ge_1 in Hin. lia. }
  rewrite Hsrc. f_equal. apply map_eq. intros x. rewrite Hlk. unfold buffered.
  destruct (decide (x = m)) as [->|Hxm].
  - rewrite lookup_insert. f_equal. apply ninfo_eq; simpl; [done|done|clear; set_solver].
  - rewrite lookup_insert_ne, lookup_reroute by done. unfold c0. rewrite disconnect_out_lookup.
    destruct (decide (x ∈ [f0; f1])) as [Hin|Hin].
    + rewrite bool_decide_eq_true_2 by (clear -Hin; set_solver). destruct (c !! x) as [j|]; simpl; [|done]. f_equal.
      apply ninfo_eq; simpl; [done|done|clear; set_solver].
    + rewrite bool_decide_eq_false_2 by (clear -Hin; set_solver). destruct (c !! x) as [j|]; simpl; [|done]. f_equal.
      apply ninfo_eq; simpl; [done|done|clear; set_solver].
Qed.

(* ------------------------------------------------------------------ whole runs *)
Lemma fanin_step_closed T c k n f0 f1 i c' : limit_tables_ok T = true → closed c → fanin_step T c k n f0 f1 i = Ok c' → closed c'.
Proof.
  intros HT Hcl Hs. apply fanin_step_inv in Hs as (inf & t' & m & Hn & Hk & Hne & H0 & H1 & Ha & Hm & _ & _ & _ & ->).
  destruct (tables_gatemap _ _ _ HT Ha) as [Hsix ->].
  by destruct (regrouped_spec c n inf m f0 f1 Hcl Hn Hne H0 H1 Hm Hsix) as (? & _ & _).
Qed.
Lemma fanout_step_closed T c k n f0 f1 i c' : limit_tables_ok T = true → closed c → fanout_step T c k n f0 f1 i = Ok c' → closed c'.
Proof.
  intros HT Hcl Hs. apply fanout_step_inv in Hs as (m & Hn & Hk & Hne & H0 & H1 & Hm & _ & _ & ->).
  destruct (tables_parts T HT) as (_ & _ & -> & _).
  destruct (buffered_spec c n m {[f0; f1]} Hcl Hn Hm) as (? & _ & _); [clear -H0 H1; set_solver|done].
Qed.

Lemma fanin_steps_api_sound T : limit_tables_ok T = true → ∀ steps c k st c', closed c →
  steps_api (fanin_step_api T) fanin_final c k st steps = Ok c' → fanin_steps T c k st steps = Ok c'.
Proof.
  intros HT. induction steps as [|[[n f0] f1] rest IH]; intros c k st c' Hcl; simpl; [done|].
  destruct (next_index st n) as [[i st']|]; [|done].
  destruct (fanin_step_api T c k n f0 f1 i) as [c1| | |] eqn:Hs; try done. simpl. intros Hrest.
  apply (fanin_step_api_sound T c k n f0 f1 i c1 HT Hcl) in Hs. rewrite Hs. simpl.
  apply IH; [|done]. by eapply fanin_step_closed.
Qed.
Lemma fanout_steps_api_sound T : limit_tables_ok T = true → ∀ steps c k st c', closed c → 2 ≤ k →
  steps_api (fanout_step_api T) fanout_final c k st steps = Ok c' → fanout_steps T c k st steps = Ok c'.
Proof.
  intros HT. induction steps as [|[[n f0] f1] rest IH]; intros c k st c' Hcl Hk; simpl; [done|].
  destruct (next_index st n) as [[i st']|]; [|done].
  destruct (fanout_step_api T c k n f0 f1 i) as [c1| | |] eqn:Hs; try done. simpl. intros Hrest.
  apply (fanout_step_api_sound T c k n f0 f1 i c1 HT Hcl Hk) in Hs. rewrite Hs. simpl.
  apply IH; [|done|done]. by eapply fanout_step_closed.
Qed.

Theorem limit_fanin_run_api_sound C k steps C' : limit_tables_ok gen_limit_tables = true → closed (c_g C) →
  limit_fanin_run_api C k steps = Ok C' → limit_fanin_run C k steps = Ok C'.
Proof.
  intros HT Hcl. unfold limit_fanin_run_api, limit_fanin_run, limit_fanin_run_with.
  change (t_in_min gen_limit_tables) with Gen_limit.fanin_min_k. destruct (k <? Gen_limit.fanin_min_k)%nat; [done|].
  destruct (steps_api _ _ _ _ _ _) as [c'| | |] eqn:Hs; try done. simpl. intros [= <-].
  by rewrite (fanin_steps_api_sound _ HT _ _ _ _ _ Hcl Hs).
Qed.
Theorem limit_fanout_run_api_sound C k steps C' : limit_tables_ok gen_limit_tables = true → closed (c_g C) →
  limit_fanout_run_api C k steps = Ok C' → limit_fanout_run C k steps = Ok C'.
Proof.
  intros HT Hcl. unfold limit_fanout_run_api, limit_fanout_run, limit_fanout_run_with.
  change (t_out_min gen_limit_tables) with Gen_limit.fanout_min_k.
  destruct (tables_parts _ HT) as (_ & _ & _ & _ & Hmin). change (t_out_min gen_limit_tables) with Gen_limit.fanout_min_k in Hmin.
  rewrite Hmin. destruct (k <? 2)%nat eqn:Hk; [done|]. apply Nat.ltb_ge in Hk.
  destruct (steps_api _ _ _ _ _ _) as [c'| | |] eqn:Hs; try done. simpl. intros [= <-].
  by rewrite (fanout_steps_api_sound _ HT _ _ _ _ _ Hcl Hk Hs).
Qed.

(* ------------------------------------------------------------------ add_blackbox of the generic flop *)
Definition pinF (inst : string) (st : circuit * list string * outcome) (pt : string * gtype) : circuit * list string * outcome :=
  match st with
  | (g, io, Done) => let '(g', o, nm) := add_g g (pin inst pt.1) pt.2 [] [] af_default in
                     (g', match o with Done => nm :: io | _ => io end, o)
  | _ => st end.
Lemma pinF_fail inst pts g io e : foldl (pinF inst) (g, io, Fail e) pts = (g, io, Fail e).
Proof. induction pts as [|pt pts IH]; simpl; [done|apply IH]. Qed.
Lemma pinF_done inst pts : ∀ g io g' io', foldl (pinF inst) (g, io, Done) pts = (g', io', Done) →
  g' = foldl (λ g pt, <[pin inst pt.1 := mk_node pt.2 false ∅]> g) g pts ∧ ∀ pt, pt ∈ pts → pin inst pt.1 ∉ dom g.
Proof.
  induction pts as [|[p t] pts IH]; intros g io g' io'; simpl.
  - intros [= <- _]. split; [done|]. by intros pt ?%elem_of_nil.
  - rewrite add_g_nil. destruct (bool_decide (pin inst p ∈ dom g)) eqn:Hd; [by rewrite pinF_fail|].
    destruct (negb (bool_decide (t ∈ Gen_types.supported_types))); [by rewrite pinF_fail|].
    destruct (bool_decide (pin inst p = "")); [by rewrite pinF_fail|].
    destruct (starts_digit (pin inst p)); [by rewrite pinF_fail|].
    apply bool_decide_eq_false in Hd.
    assert (Hfi : fanin g (pin inst p) = ∅) by (unfold fanin; by rewrite (not_elem_of_dom_1 _ _ Hd)). rewrite Hfi.
    intros H. apply IH in H as [-> Hfresh]. split; [done|].
    intros pt [->|Hpt]%elem_of_cons; [done|]. specialize (Hfresh pt Hpt). rewrite dom_insert in Hfresh. set_solver.
Qed.

Definition connF (inst : string) (d : bbdef) (st : circuit * outcome) (kv : string * list string) : circuit * outcome :=
  match st with
  | (g, Done) => if bool_decide (kv.1 ∈ bb_in d) then connect_g g kv.2 [pin inst kv.1]
                 else if bool_decide (kv.1 ∈ bb_out d) then connect_g g [pin inst kv.1] kv.2 else (g, Fail ValueError)
  | _ => st end.
Lemma connF_fail inst d g e l : foldl (connF inst d) (g, Fail e) l = (g, Fail e).
Proof. induction l; simpl; done. Qed.
Lemma connF_in inst d g p ns : p ∈ bb_in d → connF inst d (g, Done) (p, ns) = connect_g g ns [pin inst p].
Proof. intros H. unfold connF. cbn [fst snd]. by rewrite bool_decide_eq_true_2. Qed.
Lemma connF_out inst d g p ns : p ∉ bb_in d → p ∈ bb_out d → connF inst d (g, Done) (p, ns) = connect_g g [pin inst p] ns.
Proof. intros H1 H2. unfold connF. cbn [fst snd]. by rewrite bool_decide_eq_false_2, bool_decide_eq_true_2. Qed.

Lemma add_blackbox_ff_done C g2 n q inst C' :
  add_blackbox (with_g C g2) ff_def inst ["clk";"d"] ["q"] [("d",[n]); ("q",[q]); ("clk",[clk_name])] = (C', Done) →
  inst ∉ dom (c_bbs C) ∧ pin inst "clk" ∉ dom g2 ∧ pin inst "d" ∉ dom g2 ∧ pin inst "q" ∉ dom g2 ∧
  let g3 := <[pin inst "q" := mk_node BbOut false ∅]> (<[pin inst "d" := mk_node BbIn false ∅]> (<[pin inst "clk" := mk_node BbIn false ∅]> g2)) in
  ∃ g4 g5 g6, connect_g g3 [n] [pin inst "d"] = (g4, Done) ∧ connect_g g4 [pin inst "q"] [q] = (g5, Done) ∧
    connect_g g5 [clk_name] [pin inst "clk"] = (g6, Done) ∧
    C' = {| c_name := c_name C; c_g := g6; c_bbs := <[inst := ff_def]> (c_bbs C) |}.
Proof.
  unfold add_blackbox. cbn [c_bbs c_g with_g with_bbs]. destruct (bool_decide (inst ∈ dom (c_bbs C))) eqn:Hi; [done|].
  apply bool_decide_eq_false in Hi.
  change (foldl _ (g2, [], Done) _) with (foldl (pinF inst) (g2, [], Done) [("clk", BbIn); ("d", BbIn); ("q", BbOut)]).
  destruct (foldl (pinF inst) _ _) as [[g io] o] eqn:Ep.
  destruct o as [|e].
  2:{ simpl. destruct e; done. }
  apply pinF_done in Ep as [-> Hfresh].
  set (g3 := foldl (λ g pt, <[pin inst pt.1 := mk_node pt.2 false ∅]> g) g2 [("clk", BbIn); ("d", BbIn); ("q", BbOut)]).
  change (foldl _ (g3, Done) ?l) with (foldl (connF inst ff_def) (g3, Done) l).
  change (foldl (connF inst ff_def) (g3, Done) [("d", [n]); ("q", [q]); ("clk", [clk_name])])
    with (foldl (connF inst ff_def) (connF inst ff_def (g3, Done) ("d", [n])) [("q", [q]); ("clk", [clk_name])]).
  rewrite (connF_in inst ff_def g3 "d" [n]) by (vm_compute; set_solver).
  destruct (connect_g g3 [n] [pin inst "d"]) as [g4 [|e4]] eqn:E4.
  2:{ rewrite connF_fail. pose proof (connect_g_fail g3 [n] [pin inst "d"] e4) as Hf. rewrite E4 in Hf. destruct (Hf eq_refl) as [-> _]. done. }
  change (foldl (connF inst ff_def) (g4, Done) [("q", [q]); ("clk", [clk_name])])
    with (foldl (connF inst ff_def) (connF inst ff_def (g4, Done) ("q", [q])) [("clk", [clk_name])]).
  rewrite (connF_out inst ff_def g4 "q" [q]) by (vm_compute; set_solver).
  destruct (connect_g g4 [pin inst "q"] [q]) as [g5 [|e5]] eqn:E5.
  2:{ rewrite connF_fail. pose proof (connect_g_fail g4 [pin inst "q"] [q] e5) as Hf. rewrite E5 in Hf. destruct (Hf eq_refl) as [-> _]. done. }
  change (foldl (connF inst ff_def) (g5, Done) [("clk", [clk_name])]) with (connF inst ff_def (g5, Done) ("clk", [clk_name])).
  rewrite (connF_in inst ff_def g5 "clk" [clk_name]) by (vm_compute; set_solver).
  destruct (connect_g g5 [clk_name] [pin inst "clk"]) as [g6 [|e6]] eqn:E6.
  2:{ pose proof (connect_g_fail g5 [clk_name] [pin inst "clk"] e6) as Hf. rewrite E6 in Hf. destruct (Hf eq_refl) as [-> _]. done. }
  cbn [fst snd]. intros [= <-].
  split; [done|]. split; [apply (Hfresh ("clk", BbIn)); set_solver|]. split; [apply (Hfresh ("d", BbIn)); set_solver|].
  split; [apply (Hfresh ("q", BbOut)); set_solver|]. exists g4, g5, g6. done.
Qed.

(* ------------------------------------------------------------------ insert_registers: one flop through the API *)
Lemma pairs_single n l : pairs [n] l = (λ v, (n, v)) <$> l.
Proof. unfold pairs. simpl. rewrite app_nil_r. induction l as [|v l IH]; simpl; [done|by f_equal]. Qed.
Lemma disconnect_from_lookup g n l x :
  disconnect_g g [n] l !! x = if decide (x ∈ l) then upd_fi (λ s, s ∖ {[n]}) <$> g !! x else g !! x.
Proof.
  unfold disconnect_g. rewrite pairs_single. rewrite <- del_edges_from_lookup.
  f_equal. generalize g. induction l as [|v l IH]; intros g0; simpl; [done|apply IH].
Qed.
