(* C05: insert_registers through Base/Api.v (disconnect_g, add_g(uid), add_blackbox) returns what the direct model returns. *)
From stdpp Require Import strings gmap sets fin_sets pretty.
From CG Require Import Fold Model.Limit Proofs.ApiProofs Proofs.LimitProofs Proofs.LimitApi.
Open Scope string_scope.

Lemma bb_clock_rejected t0 rest : (is_in (Some t0) conn_no_fanout || (is_in (Some t0) conn_bbout && (negb (is_in (Some BbIn) [Buf]) || false || rest))) = false →
  is_in (Some t0) [BbIn; BbOut] = false.
Proof. destruct t0; vm_compute; intros; done. Qed.
Lemma bbin_source_rejected t0 rest : (is_in (Some t0) conn_no_fanout || rest) = false → is_in (Some t0) [BbIn] = false.
Proof. destruct t0; vm_compute; intros; done. Qed.

Ltac sgl := first [by apply elem_of_list_singleton | intros ?%elem_of_list_singleton; done].

Lemma splice_api_sound C n i C' : closed (c_g C) → n ∈ dom (c_g C) → clk_name ∈ dom (c_g C) →
  splice_api default_reg_args C n i = Ok C' → splice C n i = Ok C'.
Proof.
  intros Hcl Hn Hclk. unfold splice_api. cbn [ra_ff ra_ins ra_outs ra_d ra_q ra_other ra_suffix default_reg_args].
  set (g := c_g C). set (fo := elements (fanout g n)). set (g1 := disconnect_g g [n] fo).
  destruct (add_g g1 (n ++ reg_suffix ++ pretty i) Buf [] fo fl_uid) as [[g2 o] q] eqn:Ea.
  destruct o as [|e]; [|done].
  assert (Hconns : foldl (λ d kv, dict_set d kv.1 [kv.2]) [("d", [n]); ("q", [q])] [(clk_name, clk_name)]
                   = [("d", [n]); ("q", [q]); ("clk", [clk_name])]) by reflexivity.
  rewrite Hconns. clear Hconns.
  destruct (add_blackbox _ _ _ _ _ _) as [C'' o'] eqn:Eb. destruct o' as [|e']; [|done]. intros [= ->].
  assert (Hd1 : dom g1 = dom g) by apply disconnect_dom.
  assert (Hfo : ∀ x, x ∈ fo ↔ x ∈ fanout g n) by (intros; apply elem_of_elements).
  apply add_g_uid_done in Ea as (Hq & Hqf & Hqne & Hqd & _ & L2).
  2:{ intros x Hx%Hfo. rewrite Hd1. apply elem_of_fanout in Hx as (? & ? & _). apply elem_of_dom. eauto. }
  rewrite (uid_dom g g1) in Hq by done. rewrite Hd1 in Hqf.
  apply add_blackbox_ff_done in Eb as (Hinst & Pc & Pd & Pq & g4 & g5 & g6 & E4 & E5 & E6 & ->).
  set (inst := "ff_" ++ n) in *. set (pc := pin inst "clk") in *. set (pd := pin inst "d") in *. set (pq := pin inst "q") in *.
  assert (Hdom2 : ∀ x, x ∈ dom g2 ↔ x = q ∨ x ∈ dom g).
  { intros x. rewrite !elem_of_dom, L2. destruct (decide (x = q)) as [->|Hne]; [split; eauto|].
    unfold g1. rewrite disconnect_from_lookup. destruct (decide (x ∈ fo)); destruct (g !! x); simpl; split; intros H; try tauto; try (destruct H as [?|[? ?]]; done); eauto;
      try (destruct H as [? H]; done). }
  assert (Npq : pq ≠ q ∧ pd ≠ q ∧ pc ≠ q).
  { split_and!; intros E; [apply Pq|apply Pd|apply Pc]; apply Hdom2; by left. }
  destruct Npq as (Nq1 & Nq2 & Nq3).
  assert (Pcg : pc ∉ dom g ∧ pd ∉ dom g ∧ pq ∉ dom g).
  { split_and!; intros E; [apply Pc|apply Pd|apply Pq]; apply Hdom2; by right. }
  destruct Pcg as (Pcg & Pdg & Pqg).
  assert (Ndc : pd ≠ pc) by (intros E%pin_port_inj; done). assert (Nqc : pq ≠ pc) by (intros E%pin_port_inj; done).
  assert (Nqd : pq ≠ pd) by (intros E%pin_port_inj; done).
  set (g3 := <[pq:=mk_node BbOut false ∅]> (<[pd:=mk_node BbIn false ∅]> (<[pc:=mk_node BbIn false ∅]> g2))) in *.
  pose proof (connect_g_lookup g3 [n] [pd]) as L4. rewrite E4 in L4. simpl in L4. pose proof (λ m, L4 m eq_refl) as L4'. clear L4. rename L4' into L4.
  pose proof (connect_g_lookup g4 [pq] [q]) as L5. rewrite E5 in L5. simpl in L5. pose proof (λ m, L5 m eq_refl) as L5'. clear L5. rename L5' into L5.
  pose proof (connect_g_lookup g5 [clk_name] [pc]) as L6. rewrite E6 in L6. simpl in L6. pose proof (λ m, L6 m eq_refl) as L6'. clear L6. rename L6' into L6.
  assert (Hold : ∀ x, x ∈ dom g → x ≠ q ∧ x ≠ pc ∧ x ≠ pd ∧ x ≠ pq) by (intros x Hx; split_and!; intros ->; done).
  assert (Hty3 : ∀ x, x ∈ dom g → ty g3 x = ty g x).
  { intros x Hx. destruct (Hold x Hx) as (? & ? & ? & ?). unfold ty, g3. rewrite !lookup_insert_ne by done. rewrite L2, decide_False by done.
    unfold g1. rewrite disconnect_from_lookup. destruct (decide (x ∈ fo)); destruct (g !! x); done. }
  (* guards of the direct model *)
  unfold splice. cbv zeta. fold g. rewrite <- Hq, Hqd. fold inst. rewrite (bool_decide_eq_false_2 _ Hinst).
  assert (Hpins : existsb (λ p, bool_decide (pin inst p ∈ dom (<[q:=mk_node Buf false {[pin inst "q"]}]> (reroute g n q (fanout g n))))) ["clk"; "d"; "q"] = false).
  { cbn [existsb]. fold pc pd pq. rewrite dom_insert_L, dom_reroute.
    rewrite !bool_decide_eq_false_2; [done| | |]; intros [E%elem_of_singleton|E]%elem_of_union; done. }
  rewrite Hpins.
  assert (Hsrc : is_in (ty g n) [BbIn; BbOut] || is_in (ty g clk_name) [BbIn; BbOut] = false).
  { apply orb_false_iff. split.
    - apply connect_g_done in E4 as [Hchk _]; [|done|done]. unfold connect_check in Hchk. apply andb_true_iff in Hchk as [_ Hchk].
      apply negb_true_iff in Hchk. cbn [existsb] in Hchk. rewrite orb_false_r in Hchk. rewrite (Hty3 n Hn) in Hchk.
      assert (T3d : ty g3 pd = Some BbIn).
      { unfold ty, g3. rewrite lookup_insert_ne, lookup_insert by done. done. }
      rewrite T3d in Hchk. destruct (ty g n) as [t0|]; [|done]. eapply bb_clock_rejected. exact Hchk.
    - apply connect_g_done in E6 as [Hchk _]; [|done|done]. unfold connect_check in Hchk. apply andb_true_iff in Hchk as [_ Hchk].
      apply negb_true_iff in Hchk. cbn [existsb] in Hchk. rewrite orb_false_r in Hchk.
      assert (T5 : ty g5 clk_name = ty g clk_name).
      { destruct (Hold _ Hclk) as (? & ? & ? & ?). rewrite <- (Hty3 _ Hclk). unfold ty. rewrite L5, L4. destruct (g3 !! clk_name) as [j|]; simpl; reflexivity. }
      assert (T5c : ty g5 pc = Some BbIn).
      { unfold ty. rewrite L5, L4. unfold g3. rewrite lookup_insert_ne, lookup_insert_ne, lookup_insert by done. done. }
      rewrite T5, T5c in Hchk. destruct (ty g clk_name) as [t0|]; [|done]. eapply bb_clock_rejected. exact Hchk. }
  rewrite Hsrc. f_equal. f_equal. apply map_eq. intros x. rewrite L6, L5, L4. unfold g3. fold pc pd pq.
  destruct (decide (x = pd)) as [->|X1].
  { rewrite lookup_insert, lookup_insert_ne, lookup_insert by done. simpl. f_equal. apply ninfo_eq; simpl; [done|done|].
    rewrite (decide_False (P := pd ∈ [pc])), (decide_False (P := pd ∈ [q])), (decide_True (P := pd ∈ [pd])) by sgl. clear. set_solver. }
  rewrite (lookup_insert_ne _ pd) by done.
  destruct (decide (x = pc)) as [->|X2].
  { rewrite lookup_insert, lookup_insert_ne, lookup_insert_ne, lookup_insert by done. simpl. f_equal. apply ninfo_eq; simpl; [done|done|].
    rewrite (decide_True (P := pc ∈ [pc])), (decide_False (P := pc ∈ [q])), (decide_False (P := pc ∈ [pd])) by sgl. clear. set_solver. }
  rewrite (lookup_insert_ne _ pc) by done.
  destruct (decide (x = pq)) as [->|X3].
  { rewrite !lookup_insert. simpl. f_equal. apply ninfo_eq; simpl; [done|done|].
    rewrite (decide_False (P := pq ∈ [pc])), (decide_False (P := pq ∈ [q])), (decide_False (P := pq ∈ [pd])) by sgl. clear. set_solver. }
  rewrite (lookup_insert_ne _ pq), (lookup_insert_ne _ pq), (lookup_insert_ne _ pd), (lookup_insert_ne _ pc) by done.
  rewrite L2. destruct (decide (x = q)) as [->|X4].
  { rewrite lookup_insert. simpl. f_equal. apply ninfo_eq; simpl; [done|done|].
    rewrite (decide_False (P := q ∈ [pc])), (decide_True (P := q ∈ [q])), (decide_False (P := q ∈ [pd])) by sgl. clear. set_solver. }
  rewrite lookup_insert_ne, lookup_reroute by done. unfold g1. rewrite disconnect_from_lookup.
  rewrite (decide_False (P := x ∈ [pc])), (decide_False (P := x ∈ [q])), (decide_False (P := x ∈ [pd])) by sgl.
  destruct (decide (x ∈ fo)) as [Hin|Hin].
  - rewrite bool_decide_eq_true_2 by (by apply Hfo). destruct (g !! x) as [j|]; simpl; [|done]. f_equal. apply ninfo_eq; simpl; [done|done|clear; set_solver].
  - rewrite bool_decide_eq_false_2 by (by rewrite <- Hfo). destruct (g !! x) as [j|]; simpl; [|done]. f_equal. apply ninfo_eq; simpl; [done|done|clear; set_solver].
Qed.

Lemma splice_closed C n i C1 : closed (c_g C) → n ∈ dom (c_g C) → clk_name ∈ dom (c_g C) → splice C n i = Ok C1 →
  closed (c_g C1) ∧ dom (c_g C) ⊆ dom (c_g C1).
Proof.
  intros Hcl Hn Hclk Hs. apply splice_inv in Hs as (q & Hq & Hinst & Pd & Pc & Pq & N1 & N2 & N3 & Hg1 & _ & _).
  destruct (spliced_spec (c_g C) n q (pin (ff_inst n) "d") (pin (ff_inst n) "clk") (pin (ff_inst n) "q") Hcl Hn Hclk Hq Pd Pc Pq N1 N2 N3)
    as (Hcl1 & Hat1 & _).
  { intros E%pin_port_inj. discriminate. } { intros E%pin_port_inj. discriminate. } { intros E%pin_port_inj. discriminate. }
  rewrite Hg1. split; [done|by apply same_attrs_dom].
Qed.

Lemma splice_all_api_sound sel : ∀ C C', closed (c_g C) → clk_name ∈ dom (c_g C) → (∀ p, p ∈ sel → p.1 ∈ dom (c_g C)) →
  foldl (λ acc p, rbind acc (λ C', splice_api default_reg_args C' p.1 p.2)) (Ok C) sel = Ok C' → splice_all C sel = Ok C'.
Proof.
  induction sel as [|[n i] rest IH]; intros C C' Hcl Hclk Hsel; unfold splice_all; simpl; [done|].
  destruct (splice_api default_reg_args C n i) as [C1| | |] eqn:Hs.
  2-4: intros H; exfalso; by eapply (foldl_rbind_fail (λ x p, splice_api default_reg_args x p.1 p.2)) in H.
  assert (Hn : n ∈ dom (c_g C)) by (apply (Hsel (n, i)); left).
  apply (splice_api_sound C n i C1 Hcl Hn Hclk) in Hs. rewrite Hs.
  destruct (splice_closed C n i C1 Hcl Hn Hclk Hs) as [Hcl1 Hd1].
  intros Hrest. apply (IH C1 C' Hcl1); [by apply Hd1| |done].
  intros p Hp. apply Hd1, Hsel. by right.
Qed.

Theorem insert_registers_api_sound C s order C' : closed (c_g C) →
  insert_registers_api default_reg_args C s order = Ok C' → insert_registers C s order = Ok C'.
Proof.
  intros Hcl. unfold insert_registers_api, insert_registers. cbv zeta.
  destruct (bool_decide (NoDup order) && bool_decide (list_to_set order = dom (c_g C))) eqn:Hord; [|done]. cbn [negb].
  destruct (negb (bool_decide (c_g C = ∅)) && negb (acyclicb (c_g C))); [done|].
  destruct (reg_selection (c_g C) s order) as [sel| | |] eqn:Hsel; try done. simpl.
  change (add_other_inputs default_reg_args (c_g C)) with (with_clk (c_g C)). fold (with_clk (c_g C)).
  apply andb_true_iff in Hord as [_ Hord]. apply bool_decide_eq_true in Hord.
  destruct (with_clk_spec (c_g C) Hcl) as (Hcl1 & Hclk & Hd1 & _).
  apply splice_all_api_sound; simpl; try done.
  intros p Hp. apply Hd1. rewrite <- Hord. apply elem_of_list_to_set. by eapply reg_selection_in.
Qed.
