(* C05, additional conjunct of DESIGN.md appendix C: limit_fanin / limit_fanout return lint-clean circuits. *)
From Coq Require Import Ascii.
From stdpp Require Import strings gmap sets fin_sets pretty.
From CG Require Import Fold Model.Limit Proofs.LintProofs Proofs.LimitProofs.
Open Scope string_scope.

Lemma lint_tables_ok : tables_ok gen_tables = true.
Proof. vm_compute. reflexivity. Qed.
Lemma lint_clean_iff C : lint_clean C ↔ ¬ violates C default_flags.
Proof. unfold lint_clean, lint. apply lint_ok_iff, lint_tables_ok. Qed.

(* ---- names: the helper names are <node name><dot-free tail> ---- *)
Lemma has_dot_app a b : has_dot (a ++ b) = has_dot a || has_dot b.
Proof. induction a as [|ch a IH]; simpl; [done|]. destruct (Ascii.eqb ch "."); [done|apply IH]. Qed.
Lemma before_dot_app a b : has_dot a = true → before_dot (a ++ b) = before_dot a.
Proof. induction a as [|ch a IH]; simpl; [done|]. destruct (Ascii.eqb ch "."); [done|]. intros H. f_equal. by apply IH. Qed.
Lemma pretty_N_char_nodot x : Ascii.eqb (pretty_N_char x) "." = false.
Proof. unfold pretty_N_char. repeat (case_match; try done). Qed.
Lemma has_dot_pretty_N_go x : ∀ s, has_dot s = false → has_dot (pretty_N_go x s) = false.
Proof.
  induction (N.lt_wf_0 x) as [x _ IH]. intros s Hs.
  destruct (decide (0 < x)%N) as [Hx|Hx].
  - rewrite pretty_N_go_step by done. apply IH; [by apply N.div_lt|].
    simpl. by rewrite pretty_N_char_nodot.
  - assert (x = 0%N) as -> by lia. by rewrite pretty_N_go_0.
Qed.
Lemma has_dot_pretty_N (x : N) : has_dot (pretty x) = false.
Proof. unfold pretty, pretty_N. case_decide; [done|]. by apply has_dot_pretty_N_go. Qed.
Lemma has_dot_pretty_nat (x : nat) : has_dot (pretty x) = false.
Proof. apply has_dot_pretty_N. Qed.

Lemma str_app_nil_r (n : string) : n = n ++ "".
Proof. induction n as [|a n IH]; [done|]. change (String a n = String a (n ++ "")). f_equal. exact IH. Qed.
Lemma str_app_assoc (a b c : string) : (a ++ b) ++ c = a ++ (b ++ c).
Proof. induction a as [|x a IH]; [done|]. change (String x ((a ++ b) ++ c) = String x (a ++ (b ++ c))). by f_equal. Qed.
Lemma uid_loop_shape used n : ∀ fuel i, ∃ j : N, uid_loop fuel used n i = n ++ "_" ++ pretty j.
Proof. induction fuel as [|f IH]; intros i; simpl; [eauto|]. case_bool_decide; eauto. Qed.
Lemma uid_shape (c : circuit) n : ∃ tail, uid c n = n ++ tail ∧ has_dot tail = false.
Proof.
  unfold uid, uid_in. case_bool_decide.
  - destruct (uid_loop_shape (dom c) n (S (size (dom c))) 0%N) as [j ->]. eexists. split; [done|].
    rewrite has_dot_app. simpl. apply has_dot_pretty_N.
  - exists "". split; [apply str_app_nil_r|done].
Qed.
Lemma helper_name_ok (c : circuit) (bbs : gset string) n suffix (i : nat) :
  has_dot suffix = false → (has_dot n = true → before_dot n ∈ bbs) →
  let m := uid c (n ++ suffix ++ pretty i) in has_dot m = true → before_dot m ∈ bbs.
Proof.
  intros Hs Hn m. destruct (uid_shape c (n ++ suffix ++ pretty i)) as (tail & Hm & Ht). unfold m. rewrite Hm.
  replace ((n ++ suffix ++ pretty i) ++ tail) with (n ++ (suffix ++ pretty i ++ tail)).
  2:{ by rewrite !str_app_assoc. }
  rewrite has_dot_app. rewrite !has_dot_app, Hs, has_dot_pretty_nat, Ht. simpl. rewrite orb_false_r.
  intros Hd. rewrite before_dot_app by done. by apply Hn.
Qed.

(* ---- a generic preservation lemma: old nodes keep their attributes and their "driven / at most one driver" status,
        drivers of blackbox outputs keep their loads, new nodes are well-formed plain gates ---- *)
Lemma ty_preserved c c' x t : same_attrs c c' → ty c x = Some t → ty c' x = Some t.
Proof.
  intros H Hx. unfold ty in *. specialize (H x). destruct (c !! x) as [i|]; [|done]. simpl in Hx.
  destruct H as (i' & -> & Ht & _). simpl. congruence.
Qed.

Lemma lint_preserved (C C' : Circuit) :
  c_bbs C' = c_bbs C → same_attrs (c_g C) (c_g C') →
  (∀ x i i', c_g C !! x = Some i → c_g C' !! x = Some i' →
     (n_fi i' = ∅ ↔ n_fi i = ∅) ∧ (size (n_fi i) ≤ 1 → size (n_fi i') ≤ 1)) →
  (∀ x i, c_g C !! x = Some i → n_ty i = BbOut → fanout (c_g C') x = fanout (c_g C) x) →
  (∀ x i', c_g C !! x = None → c_g C' !! x = Some i' →
     n_ty i' ∈ [And; Or; Xor; Buf] ∧ n_fi i' ≠ ∅ ∧ (n_ty i' = Buf → size (n_fi i') ≤ 1) ∧
     (has_dot x = true → before_dot x ∈ dom (c_bbs C))) →
  lint_clean C → lint_clean C'.
Proof.
  intros Hbb Hat Hold Hbbo Hnew. rewrite !lint_clean_iff. intros Hnv Hv. apply Hnv. clear Hnv.
  destruct Hv as [(x & i' & Hx & Hviol)|(inst & d & Hd & Hbv)].
  - destruct (c_g C !! x) as [i|] eqn:Hxo.
    + left. exists x, i. split; [done|].
      pose proof (Hat x) as Hax. rewrite Hxo in Hax. destruct Hax as (i'' & Hx'' & Hty & Hout). simplify_eq.
      destruct (Hold x i i' Hxo Hx) as [Hemp Hsz].
      unfold node_violates in *. rewrite Hbb, Hty in Hviol.
      destruct Hviol as [H|[H|[H|[H|[H|[H|[H|H]]]]]]].
      * by left.
      * right; by left.
      * right; right; left. destruct H as [? Hne]. split; [done|]. intros He. apply Hne. by apply Hemp.
      * right; right; right; left. destruct H as [Hb H]. split; [done|]. rewrite (Hbbo x i Hxo Hb) in H.
        destruct H as [H|(m & Hm & Hmt)]; [by left|right]. exists m. split; [done|]. intros Ht. apply Hmt. by eapply ty_preserved.
      * right; right; right; right; left. destruct H as [? Hs]. split; [done|]. lia.
      * right; right; right; right; right; left. destruct H as (? & ? & He). split_and!; try done. by apply Hemp.
      * destruct H as [? _]. done.
      * destruct H as [? _]. done.
    + exfalso. destruct (Hnew x i' Hxo Hx) as (Hty & Hne & Hbuf & Hdot).
      unfold node_violates in Hviol. rewrite Hbb in Hviol.
      assert (Hcases : n_ty i' = And ∨ n_ty i' = Or ∨ n_ty i' = Xor ∨ n_ty i' = Buf).
      { rewrite !elem_of_cons, elem_of_nil in Hty. tauto. }
      destruct Hviol as [H|[H|[H|[H|[H|[H|[H|H]]]]]]].
      * apply H. unfold doc_supported. destruct Hcases as [->|[->|[->| ->]]]; set_solver.
      * destruct H as [Hd Hb]. by apply Hb, Hdot.
      * destruct H as [H _]. unfold doc_no_fanin in H. destruct Hcases as [E|[E|[E|E]]]; rewrite E in H; set_solver.
      * destruct H as [H _]. destruct Hcases as [E|[E|[E|E]]]; congruence.
      * destruct H as [H Hs]. unfold doc_single in H. destruct Hcases as [E|[E|[E|E]]]; [rewrite E in H; set_solver..|].
        specialize (Hbuf E). lia.
      * destruct H as (_ & _ & He). done.
      * destruct H as [? _]. done.
      * destruct H as [? _]. done.
  - right. exists inst, d. rewrite Hbb in Hd. split; [done|].
    destruct Hbv as [(p & Hp & Ht)|(p & Hp & Ht)]; [left|right]; exists p; (split; [done|]); intros Hc; apply Ht; by eapply ty_preserved.
Qed.

(* ---- the name rule of a node of a lint-clean circuit ---- *)
Lemma lint_clean_name C n i : lint_clean C → c_g C !! n = Some i → has_dot n = true → before_dot n ∈ dom (c_bbs C).
Proof.
  rewrite lint_clean_iff. intros Hnv Hn Hd. destruct (decide (before_dot n ∈ dom (c_bbs C))) as [|Hno]; [done|].
  exfalso. apply Hnv. left. exists n, i. split; [done|]. right; left. done.
Qed.

(* ---- limit_fanin ---- *)
Lemma fanin_step_lint T C c k n f0 f1 i c' : limit_tables_ok T = true → closed c → lint_clean (with_g C c) →
  fanin_step T c k n f0 f1 i = Ok c' → lint_clean (with_g C c').
Proof.
  intros HT Hcl Hlint Hs.
  apply fanin_step_inv in Hs as (inf & t' & m & Hn & Hk & Hne & H0 & H1 & Ha & Hm & Hmu & Hb0 & Hb1 & ->).
  destruct (tables_gatemap _ _ _ HT Ha) as [Hsix ->].
  destruct (regrouped_spec c n inf m f0 f1 Hcl Hn Hne H0 H1 Hm Hsix) as (_ & Hat & _).
  assert (Hnm : n ≠ m) by (intros ->; apply Hm; by apply elem_of_dom).
  assert (Hmnone : c !! m = None) by (by apply not_elem_of_dom).
  assert (Hlk : ∀ x, x ≠ m → x ≠ n → regrouped c n inf (base_op (n_ty inf)) m f0 f1 !! x = c !! x).
  { intros x X1 X2. unfold regrouped. by rewrite !lookup_insert_ne. }
  assert (Hlkn : regrouped c n inf (base_op (n_ty inf)) m f0 f1 !! n = Some (upd_fi (λ s, {[m]} ∪ s ∖ {[f0; f1]}) inf)).
  { unfold regrouped. rewrite lookup_insert_ne by done. apply lookup_insert. }
  assert (Hlkm : regrouped c n inf (base_op (n_ty inf)) m f0 f1 !! m = Some (mk_node (base_op (n_ty inf)) false {[f0; f1]})).
  { unfold regrouped. apply lookup_insert. }
  apply (lint_preserved (with_g C c)); simpl; [done|done| | | |done].
  - intros x j j' Hx Hx'. destruct (decide (x = n)) as [->|Hxn].
    + rewrite Hlkn in Hx'. simplify_eq. simpl. split.
      * split; intros He; exfalso; [clear -He|clear -He H0]; set_solver.
      * intros Hsz. exfalso. assert (size ({[f0; f1]} : gset string) ≤ size (n_fi inf)) as Hle by (apply subseteq_size; clear -H0 H1; set_solver).
        rewrite size_union, !size_singleton in Hle by (clear -Hne; set_solver). lia.
    + rewrite Hlk in Hx' by (try done; intros ->; congruence). by simplify_eq.
  - intros x j Hx Hty. apply set_eq. intros y. rewrite !elem_of_fanout.
    assert (Hxf : x ≠ f0 ∧ x ≠ f1).
    { split; intros ->; [apply Hb0|apply Hb1]; unfold ty; rewrite Hx; simpl; by rewrite Hty. }
    assert (Hxm : x ≠ m) by (intros ->; congruence).
    destruct (decide (y = m)) as [->|Hym].
    { rewrite Hlkm, Hmnone. split; [|by intros (? & ? & _)]. intros (? & [= <-] & Hin). simpl in Hin. clear -Hin Hxf. set_solver. }
    destruct (decide (y = n)) as [->|Hyn].
    { rewrite Hlkn, Hn. split; intros (? & [= <-] & Hin); eexists; (split; [done|]); simpl in *; clear -Hin Hxf Hxm; set_solver. }
    by rewrite Hlk.
  - intros x j' Hx Hx'. destruct (decide (x = m)) as [->|Hxm].
    + rewrite Hlkm in Hx'. simplify_eq. simpl. split_and!.
      * clear -Hsix. unfold six in Hsix. rewrite !elem_of_cons, elem_of_nil in *. destruct Hsix as [->|[->|[->|[->|[->|[->|[]]]]]]]; simpl; tauto.
      * clear. set_solver.
      * intros Hb. exfalso. clear -Hsix Hb. unfold six in Hsix. rewrite !elem_of_cons, elem_of_nil in Hsix.
        destruct Hsix as [E|[E|[E|[E|[E|[E|[]]]]]]]; rewrite E in Hb; done.
      * destruct (tables_suffix T HT) as [Hsuf _]. apply helper_name_ok; [done|].
        by apply (lint_clean_name (with_g C c) n inf).
    + destruct (decide (x = n)) as [->|Hxn]; [congruence|]. rewrite Hlk in Hx' by done. congruence.
Qed.

(* ---- limit_fanout ---- *)
Lemma fanout_step_lint T C c k n f0 f1 i c' : limit_tables_ok T = true → closed c → lint_clean (with_g C c) →
  fanout_step T c k n f0 f1 i = Ok c' → lint_clean (with_g C c').
Proof.
  intros HT Hcl Hlint Hs.
  apply fanout_step_inv in Hs as (m & Hn & Hk & Hne & H0 & H1 & Hm & Hmu & Hbn & ->).
  destruct (tables_parts T HT) as (_ & _ & Hh & _). rewrite Hh.
  set (L := ({[f0; f1]} : gset string)).
  assert (HL : L ⊆ fanout c n) by (unfold L; clear -H0 H1; set_solver).
  destruct (buffered_spec c n m L Hcl Hn Hm HL) as (_ & Hat & _).
  assert (Hnm : n ≠ m) by (intros ->; done).
  assert (Hmnone : c !! m = None) by (by apply not_elem_of_dom).
  assert (Hlk : ∀ x, x ≠ m → buffered c n m Buf L !! x =
            (λ j, if bool_decide (x ∈ L) then upd_fi (λ s, {[m]} ∪ s ∖ {[n]}) j else j) <$> c !! x).
  { intros x X1. unfold buffered. by rewrite lookup_insert_ne, lookup_reroute. }
  assert (Hlkm : buffered c n m Buf L !! m = Some (mk_node Buf false {[n]})) by apply lookup_insert.
  assert (HLin : ∀ x j, c !! x = Some j → x ∈ L → n ∈ n_fi j ∧ m ∉ n_fi j).
  { intros x j Hx HxL. split; [|by eapply closed_not_in]. apply HL, elem_of_fanout in HxL as (j' & ? & ?). by simplify_eq. }
  apply (lint_preserved (with_g C c)); simpl; [done|done| | | |done].
  - intros x j j' Hx Hx'. assert (x ≠ m) by (intros ->; congruence). rewrite Hlk, Hx in Hx' by done. simpl in Hx'. simplify_eq.
    case_bool_decide as HxL; [|done]. destruct (HLin x j Hx HxL) as [Hin Hnin]. simpl. split.
    + split; intros He; exfalso; [clear -He|clear -He Hin]; set_solver.
    + intros Hsz. rewrite size_union by (clear -Hin Hnin; set_solver).
      rewrite size_difference by (clear -Hin; set_solver). rewrite !size_singleton. lia.
  - intros x j Hx Hty. apply set_eq. intros y. rewrite !elem_of_fanout.
    assert (Hxn : x ≠ n). { intros ->. apply Hbn. unfold ty. rewrite Hx. simpl. by rewrite Hty. }
    assert (Hxm : x ≠ m) by (intros ->; congruence).
    destruct (decide (y = m)) as [->|Hym].
    { rewrite Hlkm, Hmnone. split; [|by intros (? & ? & _)]. intros (? & [= <-] & Hin). simpl in Hin. clear -Hin Hxn. set_solver. }
    rewrite Hlk by done. destruct (c !! y) as [jy|] eqn:Hy; simpl; [|split; by intros (? & ? & _)].
    case_bool_decide; [|done]. split; intros (? & [= <-] & Hin); eexists; (split; [done|]); simpl in *; clear -Hin Hxn Hxm; set_solver.
  - intros x j' Hx Hx'. destruct (decide (x = m)) as [->|Hxm].
    + rewrite Hlkm in Hx'. simplify_eq. cbn [n_fi n_ty mk_node]. split_and!.
      * clear. set_solver.
      * clear. set_solver.
      * intros _. by rewrite size_singleton.
      * destruct (tables_suffix T HT) as [_ Hsuf]. apply helper_name_ok; [done|].
        apply elem_of_dom in Hn as [inf Hn]. by apply (lint_clean_name (with_g C c) n inf).
    + rewrite Hlk, Hx in Hx' by done. done.
Qed.

(* ---- whole runs ---- *)
Lemma with_g_eta C : with_g C (c_g C) = C.
Proof. by destruct C. Qed.

Lemma fanin_steps_lint T C : limit_tables_ok T = true → ∀ steps c k st c', closed c → lint_clean (with_g C c) →
  fanin_steps T c k st steps = Ok c' → lint_clean (with_g C c').
Proof.
  intros HT. induction steps as [|[[n f0] f1] rest IH]; intros c k st c' Hcl Hl; simpl.
  - destruct (forallb _ _); [|done]. by intros [= <-].
  - destruct (next_index st n) as [[i st']|]; [|done].
    destruct (fanin_step T c k n f0 f1 i) as [c1| | |] eqn:Hs; try done. simpl. intros Hrest.
    pose proof (fanin_step_lint T C c k n f0 f1 i c1 HT Hcl Hl Hs) as Hl1.
    apply fanin_step_inv in Hs as (inf & t' & m & Hn & Hk & Hne & H0 & H1 & Ha & Hm & _ & _ & _ & ->).
    destruct (tables_gatemap _ _ _ HT Ha) as [Hsix ->].
    destruct (regrouped_spec c n inf m f0 f1 Hcl Hn Hne H0 H1 Hm Hsix) as (Hcl1 & _ & _).
    eapply IH; eauto.
Qed.
Theorem limit_fanin_lint T C k steps C' : limit_tables_ok T = true → closed (c_g C) → lint_clean C →
  limit_fanin_run_with T C k steps = Ok C' → lint_clean C'.
Proof.
  intros HT Hcl Hl. unfold limit_fanin_run_with. top_if; [done|].
  destruct (fanin_steps T (c_g C) k ls_init steps) as [c'| | |] eqn:Hs; try done. simpl. intros [= <-].
  eapply fanin_steps_lint; eauto.
Qed.

Lemma fanout_steps_lint T C : limit_tables_ok T = true → ∀ steps c k st c', closed c → lint_clean (with_g C c) →
  fanout_steps T c k st steps = Ok c' → lint_clean (with_g C c').
Proof.
  intros HT. induction steps as [|[[n f0] f1] rest IH]; intros c k st c' Hcl Hl; simpl.
  - destruct (forallb _ _); [|done]. by intros [= <-].
  - destruct (next_index st n) as [[i st']|]; [|done].
    destruct (fanout_step T c k n f0 f1 i) as [c1| | |] eqn:Hs; try done. simpl. intros Hrest.
    pose proof (fanout_step_lint T C c k n f0 f1 i c1 HT Hcl Hl Hs) as Hl1.
    apply fanout_step_inv in Hs as (m & Hn & Hk & Hne & H0 & H1 & Hm & _ & _ & ->).
    destruct (tables_parts T HT) as (_ & _ & Hh & _). rewrite Hh in *.
    destruct (buffered_spec c n m {[f0; f1]} Hcl Hn Hm) as (Hcl1 & _ & _); [clear -H0 H1; set_solver|].
    eapply IH; eauto.
Qed.
Theorem limit_fanout_lint T C k steps C' : limit_tables_ok T = true → closed (c_g C) → lint_clean C →
  limit_fanout_run_with T C k steps = Ok C' → lint_clean C'.
Proof.
  intros HT Hcl Hl. unfold limit_fanout_run_with. top_if; [done|].
  destruct (fanout_steps T (c_g C) k ls_init steps) as [c'| | |] eqn:Hs; try done. simpl. intros [= <-].
  eapply fanout_steps_lint; eauto.
Qed.
