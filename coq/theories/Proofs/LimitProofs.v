(* Proofs for C05 (limit_fanin, limit_fanout, insert_registers). *)
From stdpp Require Import strings gmap sets fin_sets pretty.
From CG Require Import Fold Model.Limit.
Open Scope string_scope.

(* ------------------------------------------------------------------ equivalence bookkeeping *)
Lemma agrees_mono (S S' : gset string) v v' : S ⊆ S' → agrees S' v v' → agrees S v v'.
Proof. intros Hs H n Hn. apply H. set_solver. Qed.
Lemma agrees_trans (S : gset string) v1 v2 v3 : agrees S v1 v2 → agrees S v2 v3 → agrees S v1 v3.
Proof. intros H1 H2 n Hn. rewrite H1 by done. by apply H2. Qed.
Lemma agrees_sym (S : gset string) v1 v2 : agrees S v1 v2 → agrees S v2 v1.
Proof. intros H n Hn. symmetry. by apply H. Qed.
Lemma agrees_refl (S : gset string) v : agrees S v v.
Proof. by intros n Hn. Qed.

Lemma equiv_on_refl S c : equiv_on S c c.
Proof. split; intros v Hv; exists v; split; auto using agrees_refl. Qed.
Lemma equiv_on_trans (S S' : gset string) c1 c2 c3 : S ⊆ S' → equiv_on S c1 c2 → equiv_on S' c2 c3 → equiv_on S c1 c3.
Proof.
  intros Hs [H12 H21] [H23 H32]. split.
  - intros v3 Hv3. destruct (H23 v3 Hv3) as (v2 & Hv2 & Ha2). destruct (H12 v2 Hv2) as (v1 & Hv1 & Ha1).
    exists v1. split; [done|]. eapply agrees_trans; [done|]. by eapply agrees_mono.
  - intros v1 Hv1. destruct (H21 v1 Hv1) as (v2 & Hv2 & Ha2). destruct (H32 v2 Hv2) as (v3 & Hv3 & Ha3).
    exists v3. split; [done|]. eapply agrees_trans; [|done]. by eapply agrees_mono.
Qed.

(* ------------------------------------------------------------------ uid returns a fresh name *)
Definition uid_next (i : N) : N := if (i <? 10)%N then (i + 1)%N else (i * 7)%N.
Lemma uid_next_gt i : (i < uid_next i)%N.
Proof. unfold uid_next. destruct (N.ltb_spec i 10); lia. Qed.
Definition uid_cand (n : string) (i : N) : string := n ++ "_" ++ pretty i.
Lemma uid_cand_inj n i j : uid_cand n i = uid_cand n j → i = j.
Proof. unfold uid_cand. intros H. apply (inj (String.append n)) in H. apply (inj (String.append "_")) in H. by apply (inj pretty) in H. Qed.

Lemma uid_loop_pigeon (used : gset string) n : ∀ fuel i (seen : gset string),
  seen ⊆ used → (∀ x, x ∈ seen → ∃ j, (j < i)%N ∧ x = uid_cand n j) →
  uid_loop fuel used n i ∈ used → size seen + fuel + 1 ≤ size used.
Proof.
  induction fuel as [|fuel IH]; intros i seen Hsub Hseen Hin; simpl in Hin; fold (uid_cand n i) in Hin.
  - assert (uid_cand n i ∉ seen). { intros (j & Hj & He)%Hseen. apply uid_cand_inj in He. lia. }
    assert (size ({[uid_cand n i]} ∪ seen) ≤ size used) by (apply subseteq_size; set_solver).
    rewrite size_union, size_singleton in * by set_solver. lia.
  - case_bool_decide as Hc; [|done].
    assert (uid_cand n i ∉ seen). { intros (j & Hj & He)%Hseen. apply uid_cand_inj in He. lia. }
    fold (uid_next i) in Hin.
    specialize (IH (uid_next i) ({[uid_cand n i]} ∪ seen)).
    rewrite size_union, size_singleton in IH by set_solver.
    assert (1 + size seen + fuel + 1 ≤ size used); [|lia]. apply IH; [set_solver| |done].
    intros x [->%elem_of_singleton|Hx]%elem_of_union.
    + exists i. split; [apply uid_next_gt|done].
    + destruct (Hseen x Hx) as (j & Hj & ->). exists j. split; [|done]. pose proof (uid_next_gt i). lia.
Qed.
Lemma uid_in_fresh (used : gset string) n : uid_in used n ∉ used.
Proof.
  unfold uid_in. case_bool_decide; [|done]. intros Hin.
  pose proof (uid_loop_pigeon used n (S (size used)) 0%N ∅) as Hp. rewrite size_empty in Hp.
  assert (0 + S (size used) + 1 ≤ size used); [|lia]. apply Hp; [set_solver|set_solver|done].
Qed.
Lemma uid_fresh (c : circuit) n : uid c n ∉ dom c.
Proof. apply uid_in_fresh. Qed.

(* ------------------------------------------------------------------ gate-level facts *)
Lemma gate_val_pair t v f0 f1 : f0 ≠ f1 → g_inv t = false → gate_val t v {[f0; f1]} = g_op t (v f0) (v f1).
Proof.
  intros Hne Hinv. unfold gate_val. rewrite Hinv, Bool.xorb_false_l. fold (gfold t (v <$> elements ({[f0; f1]} : gset string))).
  rewrite (gfold_split t v _ f0) by set_solver. f_equal.
  replace (({[f0; f1]} : gset string) ∖ {[f0]}) with ({[f1]} : gset string) by (apply leibniz_equiv; set_solver).
  rewrite elements_singleton. simpl. apply g_op_unit.
Qed.
Lemma gate_val_single t v f : g_inv t = false → gate_val t v {[f]} = v f.
Proof. intros Hinv. unfold gate_val. rewrite Hinv, Bool.xorb_false_l, elements_singleton. simpl. apply g_op_unit. Qed.
(* an operand n is replaced by a node m that carries the same value *)
Lemma gate_val_replace t v (s : gset string) n m : n ∈ s → m ∉ s → v m = v n →
  gate_val t v ({[m]} ∪ s ∖ {[n]}) = gate_val t v s.
Proof.
  intros Hn Hm Hv. unfold gate_val. f_equal. fold (gfold t (v <$> elements ({[m]} ∪ s ∖ {[n]}))). fold (gfold t (v <$> elements s)).
  rewrite (gfold_split t v _ m) by set_solver. rewrite (gfold_split t v s n) by done. rewrite Hv. f_equal.
  f_equal. f_equal. f_equal. apply leibniz_equiv. set_solver.
Qed.

Definition plain_gate (t : gtype) : Prop := t ≠ C0 ∧ t ≠ C1.
Lemma node_ok_gate v n i : is_free i = false → n_ty i ≠ C0 → n_ty i ≠ C1 →
  node_ok v n i ↔ v n = gate_val (n_ty i) v (n_fi i).
Proof. intros Hf H0 H1. unfold node_ok. rewrite Hf. destruct (n_ty i); done. Qed.
Lemma node_ok_ext v v' n i : v n = v' n → agrees (n_fi i) v v' → node_ok v n i → node_ok v' n i.
Proof.
  intros Hn Ha. unfold node_ok. destruct (is_free i); [done|].
  assert (∀ t, gate_val t v (n_fi i) = gate_val t v' (n_fi i)) as Hg by (intros; by apply gate_val_ext).
  destruct (n_ty i); rewrite <- ?Hn, <- ?Hg; done.
Qed.
Lemma is_free_upd_fi f i : (n_fi i = ∅ ↔ f (n_fi i) = ∅) → is_free (upd_fi f i) = is_free i.
Proof.
  intros H. unfold is_free, upd_fi; simpl. destruct (n_ty i); try done; apply bool_decide_ext; done.
Qed.
Lemma node_ok_replace v x i n m : n ∈ n_fi i → m ∉ n_fi i → v m = v n →
  node_ok v x (upd_fi (λ s, {[m]} ∪ s ∖ {[n]}) i) ↔ node_ok v x i.
Proof.
  intros Hn Hm Hv. unfold node_ok. rewrite is_free_upd_fi by set_solver.
  destruct (is_free i); [done|]. cbn [upd_fi n_ty n_fi].
  assert (∀ t, gate_val t v ({[m]} ∪ n_fi i ∖ {[n]}) = gate_val t v (n_fi i)) as Hg by (intros; by apply gate_val_replace).
  destruct (n_ty i); rewrite ?Hg; done.
Qed.

(* ------------------------------------------------------------------ graph-level facts *)
Lemma consistent_insert_fresh (c : circuit) m i v : c !! m = None →
  consistent (<[m := i]> c) v ↔ node_ok v m i ∧ consistent c v.
Proof.
  intros Hm. unfold consistent. split.
  - intros H. split; [apply H; by rewrite lookup_insert|].
    intros n j Hn. apply H. rewrite lookup_insert_ne; [done|congruence].
  - intros [H1 H2] n j Hn. destruct (decide (n = m)) as [->|Hne].
    + rewrite lookup_insert in Hn. by simplify_eq.
    + rewrite lookup_insert_ne in Hn by done. eauto.
Qed.
Lemma consistent_insert_over (c : circuit) n i i' v : c !! n = Some i →
  (node_ok v n i' ↔ node_ok v n i) → consistent (<[n := i']> c) v ↔ consistent c v.
Proof.
  intros Hn Hok. unfold consistent. split; intros H x j Hx.
  - destruct (decide (x = n)) as [->|Hne].
    + simplify_eq. apply Hok. apply H. by rewrite lookup_insert.
    + apply H. by rewrite lookup_insert_ne.
  - destruct (decide (x = n)) as [->|Hne].
    + rewrite lookup_insert in Hx. simplify_eq. apply Hok. by apply H.
    + rewrite lookup_insert_ne in Hx by done. by apply H.
Qed.
Lemma closed_not_in (c : circuit) m x i : closed c → m ∉ dom c → c !! x = Some i → m ∉ n_fi i.
Proof. intros Hcl Hm Hx Hin. apply Hm. eapply Hcl; eauto. Qed.
(* changing the value of a name that is neither a node nor an operand changes nothing *)
Lemma consistent_fresh_ext (c : circuit) v v' m : closed c → m ∉ dom c → (∀ x, x ≠ m → v' x = v x) →
  consistent c v → consistent c v'.
Proof.
  intros Hcl Hm Hv Hc n i Hn. eapply node_ok_ext; [| |by apply Hc].
  - symmetry. apply Hv. intros ->. apply Hm. by apply elem_of_dom.
  - intros f Hf. symmetry. apply Hv. intros ->. by eapply closed_not_in.
Qed.

Lemma lookup_reroute c n m L x :
  reroute c n m L !! x = (λ i, if bool_decide (x ∈ L) then upd_fi (λ s, {[m]} ∪ s ∖ {[n]}) i else i) <$> c !! x.
Proof. unfold reroute. rewrite map_lookup_imap. by destruct (c !! x). Qed.
Lemma dom_reroute c n m L : dom (reroute c n m L) = dom c.
Proof.
  apply set_eq. intros x. rewrite !elem_of_dom, lookup_reroute. destruct (c !! x); simpl; split; intros [? ?]; eauto; done.
Qed.
Lemma reroute_consistent c n m (L : gset string) v : closed c → m ∉ dom c → L ⊆ fanout c n → v m = v n →
  consistent (reroute c n m L) v ↔ consistent c v.
Proof.
  intros Hcl Hm HL Hv.
  assert (∀ x i, c !! x = Some i → x ∈ L → n ∈ n_fi i ∧ m ∉ n_fi i) as HLx.
  { intros x i Hx HxL. split; [|by eapply closed_not_in].
    apply HL in HxL. apply elem_of_fanout in HxL as (j & Hj & ?). by simplify_eq. }
  unfold consistent. split; intros H x i Hx.
  - specialize (H x). rewrite lookup_reroute, Hx in H. simpl in H. specialize (H _ eq_refl).
    case_bool_decide as HxL; [|done]. destruct (HLx x i Hx HxL). by apply node_ok_replace in H.
  - rewrite lookup_reroute in Hx. destruct (c !! x) as [j|] eqn:Hj; [|done]. simpl in Hx. simplify_eq.
    case_bool_decide as HxL; [|by apply H]. destruct (HLx x j Hj HxL). apply node_ok_replace; auto.
Qed.

(* attributes: old nodes keep type and output mark, new nodes are unmarked non-inputs *)
Definition same_attrs (c c' : circuit) : Prop :=
  ∀ x, match c !! x with
       | Some i => ∃ i', c' !! x = Some i' ∧ n_ty i' = n_ty i ∧ n_out i' = n_out i
       | None => match c' !! x with None => True | Some i' => n_ty i' ≠ Input ∧ n_out i' = false end
       end.
Lemma same_attrs_io c c' : same_attrs c c' → inputs c' = inputs c ∧ outputs c' = outputs c.
Proof.
  intros H. split; apply set_eq; intros x; rewrite ?elem_of_inputs, ?elem_of_outputs; specialize (H x); split.
  - intros (i' & Hx & Ht). destruct (c !! x) as [i|].
    + destruct H as (i'' & ? & ? & ?). simplify_eq. exists i. split; congruence.
    + rewrite Hx in H. by destruct H.
  - intros (i & Hx & Ht). rewrite Hx in H. destruct H as (i' & ? & ? & ?). exists i'. split; congruence.
  - intros (i' & Hx & Ht). destruct (c !! x) as [i|].
    + destruct H as (i'' & ? & ? & ?). simplify_eq. exists i. split; congruence.
    + rewrite Hx in H. destruct H. congruence.
  - intros (i & Hx & Ht). rewrite Hx in H. destruct H as (i' & ? & ? & ?). exists i'. split; congruence.
Qed.
Lemma same_attrs_dom c c' : same_attrs c c' → dom c ⊆ dom c'.
Proof. intros H x [i Hx]%elem_of_dom. specialize (H x). rewrite Hx in H. destruct H as (i' & ? & _). apply elem_of_dom. eauto. Qed.

(* ------------------------------------------------------------------ what the table obligation gives *)
Definition six : list gtype := [And; Nand; Or; Nor; Xor; Xnor].
Lemma assoc_Some_in l t b : assoc l t = Some b → (t, b) ∈ l.
Proof.
  induction l as [|[a b'] l IH]; simpl; [done|]. case_decide as Ha.
  - intros [= ->]. subst. left.
  - intros H. right. auto.
Qed.
Lemma tables_parts T : limit_tables_ok T = true →
  (∀ t, t ∈ six → assoc (t_gatemap T) t = Some (base_op t)) ∧ (∀ p, p ∈ t_gatemap T → p.1 ∈ six) ∧
  t_helper T = Buf ∧ t_in_min T = 2 ∧ t_out_min T = 2.
Proof.
  unfold limit_tables_ok. rewrite !andb_true_iff. intros (((((((H1 & H2) & _) & H4) & H5) & H6) & _) & _).
  rewrite forallb_forall in H1, H2. split; [|split; [|split; [|split]]].
  - intros t Ht. apply elem_of_list_In in Ht. apply H1 in Ht. by apply bool_decide_eq_true in Ht.
  - intros p Hp. apply elem_of_list_In in Hp. apply H2 in Hp. by apply bool_decide_eq_true in Hp.
  - by apply bool_decide_eq_true in H4.
  - by apply Nat.eqb_eq in H5.
  - by apply Nat.eqb_eq in H6.
Qed.
Lemma tables_suffix T : limit_tables_ok T = true → has_dot (t_in_suffix T) = false ∧ has_dot (t_out_suffix T) = false.
Proof.
  unfold limit_tables_ok. rewrite !andb_true_iff, !negb_true_iff. tauto.
Qed.
Lemma tables_gatemap T t t' : limit_tables_ok T = true → assoc (t_gatemap T) t = Some t' → t ∈ six ∧ t' = base_op t.
Proof.
  intros (H1 & H2 & _)%tables_parts Ha. pose proof (assoc_Some_in _ _ _ Ha) as Hin. apply H2 in Hin. simpl in Hin.
  split; [done|]. apply H1 in Hin. congruence.
Qed.
Lemma six_facts t : t ∈ six →
  g_inv (base_op t) = false ∧ g_op (base_op t) = g_op t ∧ base_op t ≠ C0 ∧ base_op t ≠ C1 ∧ base_op t ≠ Input ∧
  t ≠ C0 ∧ t ≠ C1 ∧ (∀ o fi, is_free (mk_node (base_op t) o fi) = false) ∧ (∀ i, n_ty i = t → is_free i = false).
Proof.
  unfold six. rewrite !elem_of_cons, elem_of_nil.
  intros [->|[->|[->|[->|[->|[->|[]]]]]]]; repeat split; try done; intros i Hi; unfold is_free; by rewrite Hi.
Qed.

Ltac top_if := match goal with |- (if ?b then _ else _) = _ → _ => destruct b eqn:? end.

(* ------------------------------------------------------------------ one limit_fanin step *)
Definition regrouped (c : circuit) (n : string) (inf : ninfo) (t' : gtype) (m f0 f1 : string) : circuit :=
  <[m := mk_node t' false {[f0; f1]}]> (<[n := upd_fi (λ s, {[m]} ∪ s ∖ {[f0; f1]}) inf]> c).

Lemma fanin_step_inv T c k n f0 f1 i c' : fanin_step T c k n f0 f1 i = Ok c' →
  ∃ inf t' m, c !! n = Some inf ∧ k < size (n_fi inf) ∧ f0 ≠ f1 ∧ f0 ∈ n_fi inf ∧ f1 ∈ n_fi inf ∧
    assoc (t_gatemap T) (n_ty inf) = Some t' ∧ m ∉ dom c ∧ m = uid c (n ++ t_in_suffix T ++ pretty i) ∧
    ty c f0 ≠ Some BbOut ∧ ty c f1 ≠ Some BbOut ∧ c' = regrouped c n inf t' m f0 f1.
Proof.
  unfold fanin_step. destruct (c !! n) as [inf|]; [|done].
  destruct (k <? size (n_fi inf))%nat eqn:Hk; [|done]. simpl.
  destruct (bool_decide (f0 = f1)) eqn:E1; [done|]. destruct (bool_decide (f0 ∈ n_fi inf)) eqn:E2; [|done].
  destruct (bool_decide (f1 ∈ n_fi inf)) eqn:E3; [|done]. simpl.
  destruct (assoc (t_gatemap T) (n_ty inf)) as [t'|] eqn:Ha; [|done].
  destruct (is_multi t'); [|done]. simpl. destruct (starts_digit _); [done|].
  top_if; [done|]. intros [= <-].
  match goal with H : _ || (_ || false) = false |- _ => rename H into He end.
  rewrite !orb_false_iff in He. destruct He as (Eb0 & Eb1 & _).
  exists inf, t', (uid c (n ++ t_in_suffix T ++ pretty i)). split_and!; try done.
  - by apply Nat.ltb_lt.
  - by apply bool_decide_eq_false in E1.
  - by apply bool_decide_eq_true in E2.
  - by apply bool_decide_eq_true in E3.
  - apply uid_fresh.
  - intros Hty. by rewrite Hty in Eb0.
  - intros Hty. by rewrite Hty in Eb1.
Qed.

Lemma regrouped_spec c n inf m f0 f1 : closed c → c !! n = Some inf → f0 ≠ f1 → f0 ∈ n_fi inf → f1 ∈ n_fi inf →
  m ∉ dom c → n_ty inf ∈ six →
  let c' := regrouped c n inf (base_op (n_ty inf)) m f0 f1 in
  closed c' ∧ same_attrs c c' ∧ equiv_on (dom c) c c'.
Proof.
  intros Hcl Hn Hne H0 H1 Hm Hsix c'.
  destruct (six_facts _ Hsix) as (Hinv & Hop & Hb0 & Hb1 & HbI & Ht0 & Ht1 & Hfree' & Hfree).
  assert (Hnm : n ≠ m). { intros ->. apply Hm. by apply elem_of_dom. }
  assert (Hmfi : m ∉ n_fi inf) by (by eapply closed_not_in).
  assert (Hf0m : f0 ≠ m) by (intros ->; done). assert (Hf1m : f1 ≠ m) by (intros ->; done).
  set (inf' := upd_fi (λ s, {[m]} ∪ s ∖ {[f0; f1]}) inf).
  assert (Hmid : (<[n := inf']> c) !! m = None).
  { rewrite lookup_insert_ne by done. by apply not_elem_of_dom. }
  assert (Hfi' : is_free inf' = false) by (by apply Hfree).
  (* consistency of the new circuit, spelled out *)
  assert (Hchar : ∀ v, consistent c' v ↔
            v m = g_op (n_ty inf) (v f0) (v f1) ∧ v n = gate_val (n_ty inf) v ({[m]} ∪ n_fi inf ∖ {[f0; f1]}) ∧
            ∀ x j, x ≠ n → c !! x = Some j → node_ok v x j).
  { intros v. unfold c', regrouped. fold inf'. rewrite consistent_insert_fresh by done.
    rewrite node_ok_gate by (simpl; auto). simpl. rewrite gate_val_pair, Hop by done.
    split.
    - intros (Hvm & Hc). split; [done|]. split.
      + specialize (Hc n inf'). rewrite lookup_insert in Hc. specialize (Hc eq_refl).
        apply node_ok_gate in Hc; auto.
      + intros x j Hx Hj. apply Hc. by rewrite lookup_insert_ne.
    - intros (Hvm & Hvn & Hrest). split; [done|]. intros x j Hx. destruct (decide (x = n)) as [->|Hxn].
      + rewrite lookup_insert in Hx. simplify_eq. apply node_ok_gate; auto.
      + rewrite lookup_insert_ne in Hx by done. eauto. }
  split; [|split].
  - (* closed *)
    intros x j f Hx Hf. unfold c', regrouped in *. rewrite !dom_insert.
    destruct (decide (f = m)) as [->|Hfm]; [clear; set_solver|].
    assert (Hfd : f ∈ dom c); [|clear -Hfd; set_solver].
    destruct (decide (x = m)) as [->|Hxm].
    + rewrite lookup_insert in Hx. simplify_eq. simpl in Hf.
      apply elem_of_union in Hf as [Hf|Hf]; apply elem_of_singleton in Hf; subst; eapply Hcl; eauto.
    + rewrite lookup_insert_ne in Hx by done. destruct (decide (x = n)) as [->|Hxn].
      * rewrite lookup_insert in Hx. simplify_eq. simpl in Hf.
        apply elem_of_union in Hf as [Hf|Hf]; [by apply elem_of_singleton in Hf|].
        apply elem_of_difference in Hf as [Hf _]. eapply Hcl; eauto.
      * rewrite lookup_insert_ne in Hx by done. eapply Hcl; eauto.
  - (* attributes *)
    intros x. unfold c', regrouped. destruct (decide (x = m)) as [->|Hxm].
    + rewrite lookup_insert. apply not_elem_of_dom in Hm. rewrite Hm. simpl. done.
    + rewrite lookup_insert_ne by done. destruct (decide (x = n)) as [->|Hxn].
      * rewrite lookup_insert, Hn. eexists. split; [done|]. done.
      * rewrite lookup_insert_ne by done. destruct (c !! x) as [j|]; [|done]. eauto.
  - (* same behaviours *)
    split.
    + intros v' Hv'. exists v'. split; [|apply agrees_refl]. apply Hchar in Hv' as (Hvm & Hvn & Hrest).
      intros x j Hx. destruct (decide (x = n)) as [->|Hxn]; [|eauto]. simplify_eq.
      apply node_ok_gate; auto. rewrite Hvn. by apply regroup.
    + intros v Hv. set (v' := λ x, if decide (x = m) then g_op (n_ty inf) (v f0) (v f1) else v x).
      assert (Hv'x : ∀ x, x ≠ m → v' x = v x) by (intros x Hx; unfold v'; by rewrite decide_False).
      exists v'. split.
      * pose proof (consistent_fresh_ext c v v' m Hcl Hm Hv'x Hv) as Hcv'.
        apply Hchar. split; [|split].
        -- unfold v' at 1. rewrite decide_True by done. by rewrite !Hv'x.
        -- pose proof (Hcv' n inf Hn) as Hnok. apply node_ok_gate in Hnok; auto. rewrite Hnok. symmetry. apply regroup; auto.
           unfold v' at 1. rewrite decide_True by done. by rewrite !Hv'x.
        -- intros x j _ Hx. by apply Hcv'.
      * intros x Hx. apply Hv'x. intros ->. done.
Qed.

(* ------------------------------------------------------------------ limit_fanin: every accepted run *)
Lemma fanin_steps_spec T : limit_tables_ok T = true → ∀ steps c k st c', closed c → fanin_steps T c k st steps = Ok c' →
  closed c' ∧ dom c ⊆ dom c' ∧ inputs c' = inputs c ∧ outputs c' = outputs c ∧ equiv_on (dom c) c c' ∧
  ∀ n, size (fanin c' n) ≤ k.
Proof.
  intros HT. induction steps as [|[[n f0] f1] rest IH]; intros c k st c' Hcl; simpl.
  - destruct (forallb _ _) eqn:Hb; [|done]. intros [= <-]. split_and!; try done; [apply equiv_on_refl|].
    intros n. unfold fanin. destruct (c !! n) as [i|] eqn:Hn; [|cbn [fmap option_fmap option_map default]; rewrite size_empty; lia]. cbn [fmap option_fmap option_map default].
    rewrite forallb_forall in Hb. specialize (Hb (n, i)). simpl in Hb. apply Nat.leb_le, Hb.
    by apply elem_of_list_In, elem_of_map_to_list.
  - destruct (next_index st n) as [[i st']|]; [|done].
    destruct (fanin_step T c k n f0 f1 i) as [c1| | |] eqn:Hs; try done. simpl. intros Hrest.
    apply fanin_step_inv in Hs as (inf & t' & m & Hn & Hk & Hne & H0 & H1 & Ha & Hm & _ & _ & _ & ->).
    destruct (tables_gatemap _ _ _ HT Ha) as [Hsix ->].
    destruct (regrouped_spec c n inf m f0 f1 Hcl Hn Hne H0 H1 Hm Hsix) as (Hcl1 & Hat & Heq).
    destruct (IH _ _ _ _ Hcl1 Hrest) as (Hcl' & Hd & Hi & Ho & Heq' & Hb).
    destruct (same_attrs_io _ _ Hat) as [Hi1 Ho1]. pose proof (same_attrs_dom _ _ Hat) as Hd1.
    split_and!; [done|by etrans|congruence|congruence| |done].
    eapply equiv_on_trans; [exact Hd1|exact Heq|exact Heq'].
Qed.

Theorem limit_fanin_spec T C k steps C' : limit_tables_ok T = true → closed (c_g C) →
  limit_fanin_run_with T C k steps = Ok C' →
  2 ≤ k ∧ c_name C' = c_name C ∧ c_bbs C' = c_bbs C ∧ closed (c_g C') ∧ dom (c_g C) ⊆ dom (c_g C') ∧
  inputs (c_g C') = inputs (c_g C) ∧ outputs (c_g C') = outputs (c_g C) ∧
  (∀ n, size (fanin (c_g C') n) ≤ k) ∧ equiv_on (dom (c_g C)) (c_g C) (c_g C').
Proof.
  intros HT Hcl. unfold limit_fanin_run_with. destruct (tables_parts T HT) as (_ & _ & _ & Hmin & _). rewrite Hmin.
  destruct (k <? 2)%nat eqn:Hk; [done|]. apply Nat.ltb_ge in Hk.
  destruct (fanin_steps T (c_g C) k ls_init steps) as [c'| | |] eqn:Hs; try done. simpl. intros [= <-]. simpl.
  destruct (fanin_steps_spec T HT _ _ _ _ _ Hcl Hs) as (? & ? & ? & ? & ? & ?). split_and!; done.
Qed.
Lemma limit_fanin_rejects T C k steps : limit_tables_ok T = true → k < 2 → limit_fanin_run_with T C k steps = Raise ValueError.
Proof.
  intros HT Hk. unfold limit_fanin_run_with. destruct (tables_parts T HT) as (_ & _ & _ & -> & _).
  apply Nat.ltb_lt in Hk. by rewrite Hk.
Qed.

(* ------------------------------------------------------------------ one limit_fanout step *)
Definition buffered (c : circuit) (n m : string) (h : gtype) (L : gset string) : circuit :=
  <[m := mk_node h false {[n]}]> (reroute c n m L).

Lemma fanout_step_inv T c k n f0 f1 i c' : fanout_step T c k n f0 f1 i = Ok c' →
  ∃ m, n ∈ dom c ∧ k < size (fanout c n) ∧ f0 ≠ f1 ∧ f0 ∈ fanout c n ∧ f1 ∈ fanout c n ∧ m ∉ dom c ∧
       m = uid c (n ++ t_out_suffix T ++ pretty i) ∧ ty c n ≠ Some BbOut ∧
       c' = buffered c n m (t_helper T) {[f0; f1]}.
Proof.
  unfold fanout_step. destruct (c !! n) as [inf|] eqn:Hn; [|done]. cbv zeta.
  destruct (k <? size (fanout c n))%nat eqn:Hk; [|done]. cbn [negb].
  destruct (bool_decide (f0 = f1)) eqn:E1; [done|]. destruct (bool_decide (f0 ∈ fanout c n)) eqn:E2; [|done].
  destruct (bool_decide (f1 ∈ fanout c n)) eqn:E3; [|done]. cbn [negb orb].
  do 3 (top_if; [done|]). destruct (is_in (Some (n_ty inf)) [BbIn; BbOut]) eqn:Eb; [done|]. intros [= <-].
  exists (uid c (n ++ t_out_suffix T ++ pretty i)). split_and!; try done.
  - apply elem_of_dom. eauto.
  - by apply Nat.ltb_lt.
  - by apply bool_decide_eq_false in E1.
  - by apply bool_decide_eq_true in E2.
  - by apply bool_decide_eq_true in E3.
  - apply uid_fresh.
  - unfold ty. rewrite Hn. simpl. intros [= Hty]. by rewrite Hty in Eb.
Qed.

Lemma node_ok_buf v m o n : node_ok v m (mk_node Buf o {[n]}) ↔ v m = v n.
Proof.
  rewrite node_ok_gate; [|unfold is_free; simpl; apply bool_decide_eq_false; set_solver|done|done].
  simpl. by rewrite gate_val_single.
Qed.

Lemma buffered_spec c n m (L : gset string) : closed c → n ∈ dom c → m ∉ dom c → L ⊆ fanout c n →
  let c' := buffered c n m Buf L in closed c' ∧ same_attrs c c' ∧ equiv_on (dom c) c c'.
Proof.
  intros Hcl Hn Hm HL c'.
  assert (Hnm : n ≠ m) by (intros ->; done).
  assert (Hmid : reroute c n m L !! m = None). { apply not_elem_of_dom. by rewrite dom_reroute. }
  assert (Hchar : ∀ v, consistent c' v ↔ v m = v n ∧ consistent c v).
  { intros v. unfold c', buffered. rewrite consistent_insert_fresh, node_ok_buf by done.
    split; intros [Hv Hc]; (split; [done|]); eapply reroute_consistent; eauto. }
  split; [|split].
  - intros x j f Hx Hf. unfold c', buffered in *. rewrite dom_insert, dom_reroute.
    destruct (decide (f = m)) as [->|Hfm]; [clear; set_solver|].
    assert (Hfd : f ∈ dom c); [|clear -Hfd; set_solver].
    destruct (decide (x = m)) as [->|Hxm].
    + rewrite lookup_insert in Hx. simplify_eq. simpl in Hf. apply elem_of_singleton in Hf. by subst.
    + rewrite lookup_insert_ne, lookup_reroute in Hx by done. destruct (c !! x) as [i|] eqn:Hi; [|done]. simpl in Hx. simplify_eq.
      case_bool_decide; [|by eapply Hcl]. simpl in Hf.
      apply elem_of_union in Hf as [Hf|Hf]; [by apply elem_of_singleton in Hf|].
      apply elem_of_difference in Hf as [Hf _]. by eapply Hcl.
  - intros x. unfold c', buffered. destruct (decide (x = m)) as [->|Hxm].
    + rewrite lookup_insert. apply not_elem_of_dom in Hm. by rewrite Hm.
    + rewrite lookup_insert_ne, lookup_reroute by done. destruct (c !! x) as [i|]; [|done]. simpl.
      eexists. split; [done|]. by case_bool_decide.
  - split.
    + intros v' [_ Hv']%Hchar. exists v'. split; [done|apply agrees_refl].
    + intros v Hv. set (v' := λ x, if decide (x = m) then v n else v x).
      assert (Hv'x : ∀ x, x ≠ m → v' x = v x) by (intros x Hx; unfold v'; by rewrite decide_False).
      exists v'. split.
      * apply Hchar. split; [|by eapply consistent_fresh_ext].
        unfold v' at 1. rewrite decide_True by done. by rewrite Hv'x.
      * intros x Hx. apply Hv'x. by intros ->.
Qed.

(* ------------------------------------------------------------------ limit_fanout: every accepted run *)
Lemma fanout_steps_spec T : limit_tables_ok T = true → ∀ steps c k st c', closed c → fanout_steps T c k st steps = Ok c' →
  closed c' ∧ dom c ⊆ dom c' ∧ inputs c' = inputs c ∧ outputs c' = outputs c ∧ equiv_on (dom c) c c' ∧
  ∀ n, size (fanout c' n) ≤ k.
Proof.
  intros HT. induction steps as [|[[n f0] f1] rest IH]; intros c k st c' Hcl; simpl.
  - destruct (forallb _ _) eqn:Hb; [|done]. intros [= <-]. split_and!; try done; [apply equiv_on_refl|].
    intros n. destruct (decide (n ∈ dom c)) as [Hn|Hn].
    + rewrite forallb_forall in Hb. apply Nat.leb_le, Hb. by apply elem_of_list_In, elem_of_elements.
    + replace (fanout c n) with (∅ : gset string); [rewrite size_empty; lia|].
      symmetry. apply leibniz_equiv, elem_of_equiv_empty. intros x (i & Hx & Hin)%elem_of_fanout.
      apply Hn. by eapply Hcl.
  - destruct (next_index st n) as [[i st']|]; [|done].
    destruct (fanout_step T c k n f0 f1 i) as [c1| | |] eqn:Hs; try done. simpl. intros Hrest.
    apply fanout_step_inv in Hs as (m & Hn & Hk & Hne & H0 & H1 & Hm & _ & _ & ->).
    destruct (tables_parts T HT) as (_ & _ & Hh & _). rewrite Hh in Hrest.
    destruct (buffered_spec c n m {[f0; f1]} Hcl Hn Hm) as (Hcl1 & Hat & Heq); [set_solver|].
    destruct (IH _ _ _ _ Hcl1 Hrest) as (Hcl' & Hd & Hi & Ho & Heq' & Hb).
    destruct (same_attrs_io _ _ Hat) as [Hi1 Ho1]. pose proof (same_attrs_dom _ _ Hat) as Hd1.
    split_and!; [done|by etrans|congruence|congruence| |done].
    eapply equiv_on_trans; [exact Hd1|exact Heq|exact Heq'].
Qed.

Theorem limit_fanout_spec T C k steps C' : limit_tables_ok T = true → closed (c_g C) →
  limit_fanout_run_with T C k steps = Ok C' →
  2 ≤ k ∧ c_name C' = c_name C ∧ c_bbs C' = c_bbs C ∧ closed (c_g C') ∧ dom (c_g C) ⊆ dom (c_g C') ∧
  inputs (c_g C') = inputs (c_g C) ∧ outputs (c_g C') = outputs (c_g C) ∧
  (∀ n, size (fanout (c_g C') n) ≤ k) ∧ equiv_on (dom (c_g C)) (c_g C) (c_g C').
Proof.
  intros HT Hcl. unfold limit_fanout_run_with. destruct (tables_parts T HT) as (_ & _ & _ & _ & Hmin). rewrite Hmin.
  destruct (k <? 2)%nat eqn:Hk; [done|]. apply Nat.ltb_ge in Hk.
  destruct (fanout_steps T (c_g C) k ls_init steps) as [c'| | |] eqn:Hs; try done. simpl. intros [= <-]. simpl.
  destruct (fanout_steps_spec T HT _ _ _ _ _ Hcl Hs) as (? & ? & ? & ? & ? & ?). split_and!; done.
Qed.
Lemma limit_fanout_rejects T C k steps : limit_tables_ok T = true → k < 2 → limit_fanout_run_with T C k steps = Raise ValueError.
Proof.
  intros HT Hk. unfold limit_fanout_run_with. destruct (tables_parts T HT) as (_ & _ & _ & _ & ->).
  apply Nat.ltb_lt in Hk. by rewrite Hk.
Qed.

(* ------------------------------------------------------------------ insert_registers: one flop *)
Lemma consistent_agree_dom (c : circuit) v v' : closed c → agrees (dom c) v v' → consistent c v → consistent c v'.
Proof.
  intros Hcl Ha Hc n i Hn. eapply node_ok_ext; [| |by apply Hc].
  - apply Ha. by apply elem_of_dom.
  - intros f Hf. apply Ha. by eapply Hcl.
Qed.
Lemma node_ok_bbin v m o n : node_ok v m (mk_node BbIn o {[n]}) ↔ v m = v n.
Proof.
  rewrite node_ok_gate; [|unfold is_free; simpl; apply bool_decide_eq_false; set_solver|done|done].
  simpl. by rewrite gate_val_single.
Qed.
Lemma node_ok_bbout v m o fi : node_ok v m (mk_node BbOut o fi) ↔ True.
Proof. done. Qed.

Definition spliced (g : circuit) (n q pd pc pq : string) : circuit :=
  <[pd := mk_node BbIn false {[n]}]> (<[pc := mk_node BbIn false {[clk_name]}]> (<[pq := mk_node BbOut false ∅]>
    (<[q := mk_node Buf false {[pq]}]> (reroute g n q (fanout g n))))).

Lemma spliced_spec g n q pd pc pq : closed g → n ∈ dom g → clk_name ∈ dom g →
  q ∉ dom g → pd ∉ dom g → pc ∉ dom g → pq ∉ dom g →
  q ≠ pd → q ≠ pc → q ≠ pq → pd ≠ pc → pd ≠ pq → pc ≠ pq →
  let g' := spliced g n q pd pc pq in
  closed g' ∧ same_attrs g g' ∧ pq ∈ dom g' ∧ pd ∈ dom g' ∧
  (∀ v, consistent g' v → v pq = v pd → consistent g v) ∧
  (∀ v, consistent g v → ∃ v', consistent g' v' ∧ v' pq = v' pd ∧ agrees (dom g) v' v).
Proof.
  intros Hcl Hn Hclk Hq Hpd Hpc Hpq N1 N2 N3 N4 N5 N6 g'.
  set (g0 := reroute g n q (fanout g n)).
  assert (Hd0 : dom g0 = dom g) by apply dom_reroute.
  assert (L1 : g0 !! q = None) by (apply not_elem_of_dom; by rewrite Hd0).
  assert (L2 : (<[q := mk_node Buf false {[pq]}]> g0) !! pq = None).
  { rewrite lookup_insert_ne by done. apply not_elem_of_dom. by rewrite Hd0. }
  assert (L3 : (<[pq := mk_node BbOut false ∅]> (<[q := mk_node Buf false {[pq]}]> g0)) !! pc = None).
  { rewrite !lookup_insert_ne by done. apply not_elem_of_dom. by rewrite Hd0. }
  assert (L4 : (<[pc := mk_node BbIn false {[clk_name]}]> (<[pq := mk_node BbOut false ∅]> (<[q := mk_node Buf false {[pq]}]> g0))) !! pd = None).
  { rewrite !lookup_insert_ne by done. apply not_elem_of_dom. by rewrite Hd0. }
  assert (Hchar : ∀ v, consistent g' v ↔ v pd = v n ∧ v pc = v clk_name ∧ v q = v pq ∧ consistent g0 v).
  { intros v. unfold g', spliced. fold g0.
    rewrite (consistent_insert_fresh _ pd) by done. rewrite (consistent_insert_fresh _ pc) by done.
    rewrite (consistent_insert_fresh _ pq) by done. rewrite (consistent_insert_fresh _ q) by done.
    rewrite !node_ok_bbin, node_ok_bbout, node_ok_buf. tauto. }
  assert (Hdom : dom g' = {[pd; pc; pq; q]} ∪ dom g).
  { unfold g', spliced. fold g0. rewrite !dom_insert_L, Hd0. clear. set_solver. }
  split_and!.
  - intros x j f Hx Hf. rewrite Hdom.
    assert (f ∈ ({[n; clk_name; pq; q]} : gset string) ∪ dom g); [|clear -H Hn Hclk; set_solver].
    unfold g', spliced in Hx. fold g0 in Hx.
    destruct (decide (x = pd)) as [->|X1]; [rewrite lookup_insert in Hx; simplify_eq; simpl in Hf; clear -Hf; set_solver|].
    rewrite lookup_insert_ne in Hx by done.
    destruct (decide (x = pc)) as [->|X2]; [rewrite lookup_insert in Hx; simplify_eq; simpl in Hf; clear -Hf; set_solver|].
    rewrite lookup_insert_ne in Hx by done.
    destruct (decide (x = pq)) as [->|X3]; [rewrite lookup_insert in Hx; simplify_eq; simpl in Hf; clear -Hf; set_solver|].
    rewrite lookup_insert_ne in Hx by done.
    destruct (decide (x = q)) as [->|X4]; [rewrite lookup_insert in Hx; simplify_eq; simpl in Hf; clear -Hf; set_solver|].
    rewrite lookup_insert_ne in Hx by done. unfold g0 in Hx. rewrite lookup_reroute in Hx.
    destruct (g !! x) as [i|] eqn:Hi; [|done]. simpl in Hx. simplify_eq.
    case_bool_decide.
    + simpl in Hf. apply elem_of_union in Hf as [Hf|Hf]; [apply elem_of_singleton in Hf; subst|].
      * (* the new buffer q *) clear. set_solver.
      * apply elem_of_difference in Hf as [Hf _]. apply elem_of_union_r. by eapply Hcl.
    + apply elem_of_union_r. by eapply Hcl.
  - intros x. unfold g', spliced. fold g0.
    destruct (decide (x = pd)) as [->|X1]; [rewrite lookup_insert; apply not_elem_of_dom in Hpd; by rewrite Hpd|].
    rewrite lookup_insert_ne by done.
    destruct (decide (x = pc)) as [->|X2]; [rewrite lookup_insert; apply not_elem_of_dom in Hpc; by rewrite Hpc|].
    rewrite lookup_insert_ne by done.
    destruct (decide (x = pq)) as [->|X3]; [rewrite lookup_insert; apply not_elem_of_dom in Hpq; by rewrite Hpq|].
    rewrite lookup_insert_ne by done.
    destruct (decide (x = q)) as [->|X4]; [rewrite lookup_insert; apply not_elem_of_dom in Hq; by rewrite Hq|].
    rewrite lookup_insert_ne by done. unfold g0. rewrite lookup_reroute. destruct (g !! x) as [i|]; [|done]. simpl.
    eexists. split; [done|]. by case_bool_decide.
  - rewrite Hdom. clear. set_solver.
  - rewrite Hdom. clear. set_solver.
  - intros v (E1 & E2 & E3 & Hc)%Hchar Et. eapply (reroute_consistent g n q (fanout g n)); eauto; congruence.
  - intros v Hv.
    set (v' := λ x, if decide (x = q ∨ x = pq ∨ x = pd) then v n else if decide (x = pc) then v clk_name else v x).
    assert (Hold : ∀ x, x ∈ dom g → v' x = v x).
    { intros x Hx. unfold v'. rewrite decide_False; [rewrite decide_False; [done|]|]; [intros ->; done|].
      intros [->|[->| ->]]; done. }
    assert (Hnew : v' q = v n ∧ v' pq = v n ∧ v' pd = v n ∧ v' pc = v clk_name).
    { unfold v'. rewrite !decide_True by tauto. split_and!; try done.
      rewrite decide_False, decide_True; [done|done|]. intros [?|[?|?]]; congruence. }
    destruct Hnew as (Q1 & Q2 & Q3 & Q4).
    exists v'. split_and!.
    + apply Hchar. rewrite Q1, Q2, Q3, Q4, (Hold n), (Hold clk_name) by done. split_and!; try done.
      assert (Hqn : v' q = v' n) by (by rewrite Q1, (Hold n)).
      apply (reroute_consistent g n q (fanout g n) v' Hcl Hq (reflexivity _) Hqn).
      eapply consistent_agree_dom; [done| |exact Hv]. intros x Hx. symmetry. by apply Hold.
    + congruence.
    + intros x Hx. by apply Hold.
Qed.

(* ------------------------------------------------------------------ insert_registers: all flops *)
Lemma same_attrs_refl c : same_attrs c c.
Proof. intros x. destruct (c !! x); eauto. Qed.
Lemma same_attrs_trans c1 c2 c3 : same_attrs c1 c2 → same_attrs c2 c3 → same_attrs c1 c3.
Proof.
  intros H12 H23 x. specialize (H12 x). specialize (H23 x). destruct (c1 !! x) as [i1|].
  - destruct H12 as (i2 & E2 & ? & ?). rewrite E2 in H23. destruct H23 as (i3 & ? & ? & ?). exists i3. split_and!; congruence.
  - destruct (c2 !! x) as [i2|]; [|done]. destruct H12 as [? ?]. destruct H23 as (i3 & -> & ? & ?). split; congruence.
Qed.

Lemma pin_port_inj inst p p' : pin inst p = pin inst p' → p = p'.
Proof. unfold pin. intros H. apply (inj (String.append inst)) in H. by apply (inj (String.append ".")) in H. Qed.

Definition ff_inst (n : string) : string := "ff_" ++ n.
Lemma splice_inv C n i C' : splice C n i = Ok C' →
  ∃ q, q ∉ dom (c_g C) ∧ ff_inst n ∉ dom (c_bbs C) ∧
       pin (ff_inst n) "d" ∉ dom (c_g C) ∧ pin (ff_inst n) "clk" ∉ dom (c_g C) ∧ pin (ff_inst n) "q" ∉ dom (c_g C) ∧
       q ≠ pin (ff_inst n) "d" ∧ q ≠ pin (ff_inst n) "clk" ∧ q ≠ pin (ff_inst n) "q" ∧
       c_g C' = spliced (c_g C) n q (pin (ff_inst n) "d") (pin (ff_inst n) "clk") (pin (ff_inst n) "q") ∧
       c_bbs C' = <[ff_inst n := ff_def]> (c_bbs C) ∧ c_name C' = c_name C.
Proof.
  unfold splice. cbv zeta. fold (ff_inst n). set (q := uid (c_g C) (n ++ reg_suffix ++ pretty i)).
  top_if; [done|]. destruct (bool_decide (ff_inst n ∈ dom (c_bbs C))) eqn:Hb; [done|].
  destruct (existsb _ _) eqn:He; [done|]. top_if; [done|]. intros [= <-]. simpl.
  simpl in He. rewrite !orb_false_iff in He. destruct He as (E1 & E2 & E3 & _).
  apply bool_decide_eq_false in E1, E2, E3, Hb.
  rewrite dom_insert_L, dom_reroute in E1, E2, E3.
  assert (Hq : q ∉ dom (c_g C)) by apply uid_fresh.
  exists q. split_and!; try done; first [clear -E1; set_solver|clear -E2; set_solver|clear -E3; set_solver].
Qed.

Lemma foldl_rbind_fail {A B} (f : A → B → res A) (r : res A) l : (∀ a, r ≠ Ok a) →
  ∀ a, foldl (λ acc p, rbind acc (λ x, f x p)) r l ≠ Ok a.
Proof.
  revert r. induction l as [|p l IH]; intros r Hr a; simpl; [apply Hr|].
  apply IH. intros a'. destruct r; simpl; try done. by destruct (Hr a0).
Qed.

Definition newinst (C C' : Circuit) (inst : string) : Prop := inst ∈ dom (c_bbs C') ∧ inst ∉ dom (c_bbs C).
Definition transp_new (C C' : Circuit) (v : val) : Prop :=
  ∀ inst, newinst C C' inst → v (pin inst "q") = v (pin inst "d").

Lemma splice_all_spec sel : ∀ C C', closed (c_g C) → clk_name ∈ dom (c_g C) → (∀ p, p ∈ sel → p.1 ∈ dom (c_g C)) →
  splice_all C sel = Ok C' →
  closed (c_g C') ∧ same_attrs (c_g C) (c_g C') ∧ dom (c_bbs C) ⊆ dom (c_bbs C') ∧
  (∀ inst, newinst C C' inst → pin inst "q" ∈ dom (c_g C') ∧ pin inst "d" ∈ dom (c_g C')) ∧
  (∀ v, consistent (c_g C') v → transp_new C C' v → consistent (c_g C) v) ∧
  (∀ v, consistent (c_g C) v → ∃ v', consistent (c_g C') v' ∧ transp_new C C' v' ∧ agrees (dom (c_g C)) v' v).
Proof.
  induction sel as [|[n i] rest IH]; intros C C' Hcl Hclk Hsel; unfold splice_all; simpl.
  - intros [= <-]. split_and!.
    + done.
    + apply same_attrs_refl.
    + done.
    + by intros inst [? ?].
    + done.
    + intros v Hv. exists v. split_and!; [done|by intros inst [? ?]|apply agrees_refl].
  - destruct (splice C n i) as [C1| | |] eqn:Hs.
    2-4: intros H; exfalso; by eapply (foldl_rbind_fail (λ x p, splice x p.1 p.2)) in H.
    fold (splice_all C1 rest). intros Hrest.
    apply splice_inv in Hs as (q & Hq & Hinst & Pd & Pc & Pq & N1 & N2 & N3 & Hg1 & Hb1 & _).
    assert (Hn : n ∈ dom (c_g C)) by (apply (Hsel (n, i)); left).
    destruct (spliced_spec (c_g C) n q (pin (ff_inst n) "d") (pin (ff_inst n) "clk") (pin (ff_inst n) "q") Hcl Hn Hclk Hq Pd Pc Pq N1 N2 N3)
      as (Hcl1 & Hat1 & Dq & Dd & HA1 & HB1).
    { intros E%pin_port_inj. discriminate. } { intros E%pin_port_inj. discriminate. } { intros E%pin_port_inj. discriminate. }
    rewrite <- Hg1 in *.
    pose proof (same_attrs_dom _ _ Hat1) as Hd1.
    destruct (IH C1 C' Hcl1) as (Hcl' & Hat' & Hbb' & Hpins' & HA' & HB'); [by apply Hd1| |done|].
    { intros p Hp. apply Hd1. apply Hsel. by right. }
    pose proof (same_attrs_dom _ _ Hat') as Hd'.
    assert (Hb1d : dom (c_bbs C1) = {[ff_inst n]} ∪ dom (c_bbs C)) by (rewrite Hb1; apply dom_insert_L).
    assert (Hnew : ∀ x, newinst C C' x → x = ff_inst n ∨ newinst C1 C' x).
    { intros x [Hx1 Hx2]. destruct (decide (x ∈ dom (c_bbs C1))) as [Hx|Hx]; [|right; by split].
      left. rewrite Hb1d in Hx. clear -Hx Hx2. set_solver. }
    assert (Hnew1 : ∀ x, newinst C1 C' x → newinst C C' x).
    { intros x [Hx1 Hx2]. split; [done|]. rewrite Hb1d in Hx2. clear -Hx2. set_solver. }
    assert (Hnewi : newinst C C' (ff_inst n)).
    { split; [|done]. apply Hbb'. rewrite Hb1d. clear. set_solver. }
    split_and!.
    + done.
    + by eapply same_attrs_trans.
    + etrans; [|exact Hbb']. rewrite Hb1d. clear. set_solver.
    + intros x [->|Hx]%Hnew; [split; by apply Hd'|by apply Hpins'].
    + intros v Hv Ht. apply HA1; [|by apply Ht]. apply HA'; [done|]. intros x Hx. by apply Ht, Hnew1.
    + intros v Hv. destruct (HB1 v Hv) as (v1 & Hv1 & Et & Ha1). destruct (HB' v1 Hv1) as (v' & Hv' & Ht' & Ha').
      exists v'. split_and!; [done| |].
      * intros x [->|Hx]%Hnew; [|by apply Ht']. rewrite !Ha' by done. done.
      * intros x Hx. rewrite Ha' by (by apply Hd1). by apply Ha1.
Qed.

(* ------------------------------------------------------------------ insert_registers *)
Lemma reg_selection_in g s order sel : reg_selection g s order = Ok sel → ∀ p, p ∈ sel → p.1 ∈ order.
Proof.
  unfold reg_selection. cbv zeta. top_if; [done|]. intros [= <-] p Hp.
  apply elem_of_list_bind in Hp as (l & Hp & _). apply elem_of_list_fmap in Hp as (n & -> & Hn).
  apply elem_of_list_filter in Hn as [_ Hn]. done.
Qed.

Definition with_clk (g : circuit) : circuit :=
  if bool_decide (clk_name ∈ dom g) then g else <[clk_name := mk_node Input false ∅]> g.
Lemma with_clk_spec g : closed g →
  closed (with_clk g) ∧ clk_name ∈ dom (with_clk g) ∧ dom g ⊆ dom (with_clk g) ∧
  outputs (with_clk g) = outputs g ∧ inputs g ⊆ inputs (with_clk g) ∧ inputs (with_clk g) ⊆ inputs g ∪ {[clk_name]} ∧
  (∀ v, consistent (with_clk g) v ↔ consistent g v).
Proof.
  intros Hcl. unfold with_clk. case_bool_decide as Hc; [split_and!; try done; clear; set_solver|].
  assert (Hl : g !! clk_name = None) by (by apply not_elem_of_dom).
  split_and!.
  - intros x j f Hx Hf. rewrite dom_insert. apply elem_of_union_r. destruct (decide (x = clk_name)) as [->|Hne].
    + rewrite lookup_insert in Hx. simplify_eq. simpl in Hf. clear -Hf. set_solver.
    + rewrite lookup_insert_ne in Hx by done. by eapply Hcl.
  - rewrite dom_insert. clear. set_solver.
  - rewrite dom_insert. clear. set_solver.
  - apply set_eq. intros x. rewrite !elem_of_outputs. destruct (decide (x = clk_name)) as [->|Hne].
    + rewrite lookup_insert, Hl. split; intros (i & ? & ?); simplify_eq; done.
    + by rewrite lookup_insert_ne.
  - intros x. rewrite !elem_of_inputs. intros (i & Hx & Ht). exists i. split; [|done].
    rewrite lookup_insert_ne; [done|]. intros <-. congruence.
  - intros x. rewrite elem_of_union, !elem_of_inputs, elem_of_singleton. intros (i & Hx & Ht).
    destruct (decide (x = clk_name)) as [->|Hne]; [by right|]. left. rewrite lookup_insert_ne in Hx by done. eauto.
  - intros v. rewrite consistent_insert_fresh by done. unfold node_ok. simpl. tauto.
Qed.

Theorem insert_registers_spec C s order C' : closed (c_g C) → bb_free C → insert_registers C s order = Ok C' →
  closed (c_g C') ∧ dom (c_g C) ⊆ dom (c_g C') ∧
  outputs (c_g C') = outputs (c_g C) ∧ inputs (c_g C) ⊆ inputs (c_g C') ∧ inputs (c_g C') ⊆ inputs (c_g C) ∪ {[clk_name]} ∧
  (∀ v', consistent (c_g C') v' → transparent C' v' → consistent (c_g C) v') ∧
  (∀ v, consistent (c_g C) v → ∃ v', consistent (c_g C') v' ∧ transparent C' v' ∧ agrees (dom (c_g C)) v' v).
Proof.
  intros Hcl Hbb. unfold insert_registers. cbv zeta. fold (with_clk (c_g C)).
  destruct (bool_decide (NoDup order) && bool_decide (list_to_set order = dom (c_g C))) eqn:Hord; [|done]. cbn [negb].
  top_if; [done|].
  destruct (reg_selection (c_g C) s order) as [sel| | |] eqn:Hsel; try done. simpl. intros Hsp.
  apply andb_true_iff in Hord as [_ Hord]. apply bool_decide_eq_true in Hord.
  destruct (with_clk_spec (c_g C) Hcl) as (Hcl1 & Hclk & Hd1 & Ho1 & Hi1 & Hi1' & Hc1).
  destruct (splice_all_spec sel (with_g C (with_clk (c_g C))) C') as (Hcl' & Hat & _ & _ & HA & HB); try done.
  { simpl. intros p Hp. apply Hd1. rewrite <- Hord. apply elem_of_list_to_set. by eapply reg_selection_in. }
  simpl in *. destruct (same_attrs_io _ _ Hat) as [Hi' Ho']. pose proof (same_attrs_dom _ _ Hat) as Hd'.
  assert (Htr : ∀ v, transparent C' v ↔ transp_new (with_g C (with_clk (c_g C))) C' v).
  { intros v. unfold transparent, transp_new, newinst. simpl. rewrite Hbb, dom_empty_L.
    split; intros H inst; [intros [? _]; by apply H|intros ?; apply H; split; [done|set_solver]]. }
  split_and!.
  - done.
  - by etrans.
  - congruence.
  - by rewrite Hi'.
  - by rewrite Hi'.
  - intros v Hv Ht. apply Hc1. apply HA; [done|]. by apply Htr.
  - intros v Hv. apply Hc1 in Hv. destruct (HB v Hv) as (v' & Hv' & Ht' & Ha'). exists v'. split_and!; [done|by apply Htr|].
    intros x Hx. apply Ha'. by apply Hd1.
Qed.

(* ------------------------------------------------------------------ the oracle's check implies the equivalence *)
Lemma equiv_check_sound c c' : equiv_check c c' = true → equiv_on (dom c) c c'.
Proof.
  unfold equiv_check, equiv_check_gen. rewrite !andb_true_iff. cbv zeta.
  intros (((((((Hcl & Hcl') & Hac) & Hac') & Hf1) & Hf2) & Hdom) & Hall).
  apply closedb_spec in Hcl, Hcl'. apply acyclicb_sound in Hac as [rk Hrk], Hac' as [rk' Hrk'].
  apply bool_decide_eq_true in Hf1, Hf2.
  assert (Hfree : free_nodes c' = free_nodes c) by (apply set_eq; intros x; clear -Hf1 Hf2; set_solver).
  rewrite forallb_forall in Hdom, Hall.
  assert (Hd : ∀ n, n ∈ dom c → n ∈ dom c').
  { intros n Hn. specialize (Hdom n). rewrite bool_decide_eq_true in Hdom. apply Hdom, elem_of_list_In, elem_of_elements, Hn. }
  assert (Hw : ∀ w, w ∈ all_vals (elements (free_nodes c')) → ∃ u u',
            consistent c u ∧ consistent c' u' ∧ agrees (free_nodes c') u w ∧ agrees (free_nodes c') u' w ∧
            ∀ n, n ∈ dom c → u n = u' n).
  { intros w Hin. apply elem_of_list_In, Hall in Hin. rewrite !andb_true_iff in Hin. destruct Hin as [[[[H1 H2] H3] H4] H5].
    eexists _, _. split_and!; [by apply consistentb_spec|by apply consistentb_spec| | |].
    - intros n Hn. rewrite eq_on_spec in H3. apply H3. by apply elem_of_elements.
    - intros n Hn. rewrite eq_on_spec in H4. apply H4. by apply elem_of_elements.
    - intros n Hn. rewrite forallb_forall in H5. apply eqb_true_iff, H5, elem_of_list_In, elem_of_elements, Hn. }
  split.
  - intros v' Hv'. destruct (all_vals_complete (elements (free_nodes c')) v') as (w & Hin & Hwv).
    destruct (Hw w Hin) as (u & u' & Hc & Hc' & Hfu & Hfu' & Heq). exists u. split; [done|].
    assert (agrees (dom c') v' u') as Hu.
    { apply (consistent_unique c' rk' Hrk'); auto. intros n Hn. rewrite Hfu' by done. symmetry. apply Hwv. by apply elem_of_elements. }
    intros n Hn. rewrite Heq by done. symmetry. apply Hu. by apply Hd.
  - intros v Hv. destruct (all_vals_complete (elements (free_nodes c')) v) as (w & Hin & Hwv).
    destruct (Hw w Hin) as (u & u' & Hc & Hc' & Hfu & Hfu' & Heq). exists u'. split; [done|].
    assert (agrees (dom c) v u) as Hu.
    { apply (consistent_unique c rk Hrk); auto. intros n Hn. rewrite <- Hfree in Hn. rewrite Hfu by done. symmetry. apply Hwv. by apply elem_of_elements. }
    intros n Hn. rewrite <- Heq by done. symmetry. by apply Hu.
Qed.

(* helper for the non-vacuity examples: the run is accepted and its result satisfies a boolean test *)
Definition ok_with {A} (P : A → bool) (r : res A) : bool := match r with Ok a => P a | _ => false end.
Lemma ok_with_spec {A} (P : A → bool) r : ok_with P r = true → ∃ a, r = Ok a ∧ P a = true.
Proof. destruct r; simpl; try done. eauto. Qed.
