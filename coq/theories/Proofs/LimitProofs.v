(* Proofs for C05 (limit_fanin, limit_fanout, insert_registers). *)
From stdpp Require Import strings gmap sets fin_sets pretty.
From CG Require Import Fold Model.Limit.
Open Scope string_scope.
