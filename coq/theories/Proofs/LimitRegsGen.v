(* C05: insert_registers with arbitrary flop, port names, other_flop_io and suffix (API-level model insert_registers_api):
   function preservation up to the inserted flops, for every argument combination within the stated guards. *)
From stdpp Require Import strings gmap sets fin_sets pretty.
From CG Require Import Fold Compose Model.Limit Proofs.ApiProofs Proofs.LimitProofs Proofs.LimitApi Proofs.LimitApiRegs.
Open Scope string_scope.

(* ------------------------------------------------------------------ one flop, abstractly: `pins` are the new pin nodes *)
Definition spliced_gen (g : circuit) (n q pq : string) (pins : circuit) : circuit :=
  pins ∪ <[q := mk_node Buf false {[pq]}]> (reroute g n q (fanout g n)).
Definition pins_ok (g pins : circuit) (n q pd pq : string) : Prop :=
  dom pins ## dom g ∧ q ∉ dom pins ∧ pd ≠ pq ∧
  pins !! pd = Some (mk_node BbIn false {[n]}) ∧ pins !! pq = Some (mk_node BbOut false ∅) ∧
  ∀ p i, pins !! p = Some i → n_out i = false ∧ ((n_ty i = BbIn ∧ n_fi i ⊆ dom g) ∨ (n_ty i = BbOut ∧ n_fi i = ∅)).

Lemma spliced_gen_spec g n q pd pq pins : closed g → n ∈ dom g → q ∉ dom g → pins_ok g pins n q pd pq →
  let g' := spliced_gen g n q pq pins in
  closed g' ∧ same_attrs g g' ∧ dom g' = dom pins ∪ ({[q]} ∪ dom g) ∧
  (∀ v, consistent g' v → v pq = v pd → consistent g v) ∧
  (∀ v, consistent g v → ∃ v', consistent g' v' ∧ v' pq = v' pd ∧ agrees (dom g) v' v).
Proof.
  intros Hcl Hn Hq (Hdisj & Hqp & Hdq & Hpd & Hpq & Hpins) g'.
  set (g0 := reroute g n q (fanout g n)). set (g1 := <[q := mk_node Buf false {[pq]}]> g0).
  assert (Hd0 : dom g0 = dom g) by apply dom_reroute.
  assert (Hd1 : dom g1 = {[q]} ∪ dom g) by (unfold g1; by rewrite dom_insert_L, Hd0).
  assert (Hdisj1 : dom pins ## dom g1) by (rewrite Hd1; clear -Hdisj Hqp; set_solver).
  assert (L0 : g0 !! q = None) by (apply not_elem_of_dom; by rewrite Hd0).
  assert (Hnq : n ≠ q) by (intros ->; done).
  assert (Hpdd : pd ∈ dom pins) by (apply elem_of_dom; eauto). assert (Hpqd : pq ∈ dom pins) by (apply elem_of_dom; eauto).
  assert (Hchar : ∀ v, consistent g' v ↔ consistent pins v ∧ v q = v pq ∧ consistent g0 v).
  { intros v. unfold g', spliced_gen. fold g0 g1. rewrite consistent_union by done. unfold g1.
    rewrite consistent_insert_fresh, node_ok_buf by done. done. }
  assert (Hdom : dom g' = dom pins ∪ ({[q]} ∪ dom g)).
  { unfold g', spliced_gen. fold g0 g1. by rewrite dom_union_L, Hd1. }
  assert (Hlk1 : ∀ x, pins !! x = None → g' !! x = g1 !! x).
  { intros x Hx. unfold g', spliced_gen. fold g0 g1. destruct (g1 !! x) as [j|] eqn:Hj.
    - by apply lookup_union_Some_raw; right. - apply lookup_union_None. done. }
  assert (Hlkp : ∀ x i, pins !! x = Some i → g' !! x = Some i).
  { intros x i Hx. unfold g', spliced_gen. by apply lookup_union_Some_l. }
  assert (Hpg : ∀ x, x ∈ dom g → pins !! x = None).
  { intros x Hx. apply not_elem_of_dom. clear -Hdisj Hx. set_solver. }
  split_and!.
  - intros x j f Hx Hf. rewrite Hdom. destruct (pins !! x) as [i|] eqn:Hpx.
    + rewrite (Hlkp x i Hpx) in Hx. simplify_eq. destruct (Hpins x j Hpx) as [_ [[_ Hs]|[_ He]]]; [|rewrite He in Hf; clear -Hf; set_solver].
      apply Hs in Hf. clear -Hf. set_solver.
    + rewrite (Hlk1 x Hpx) in Hx. unfold g1 in Hx. destruct (decide (x = q)) as [->|Hxq].
      * rewrite lookup_insert in Hx. simplify_eq. simpl in Hf. apply elem_of_singleton in Hf. subst f. clear -Hpqd. set_solver.
      * rewrite lookup_insert_ne in Hx by done. unfold g0 in Hx. rewrite lookup_reroute in Hx.
        destruct (g !! x) as [i|] eqn:Hi; [|done]. simpl in Hx. simplify_eq.
        case_bool_decide; simpl in Hf.
        -- apply elem_of_union in Hf as [Hf|Hf]; [apply elem_of_singleton in Hf; subst; clear; set_solver|].
           apply elem_of_difference in Hf as [Hf _]. assert (f ∈ dom g) by (by eapply Hcl). clear -H0. set_solver.
        -- assert (f ∈ dom g) by (by eapply Hcl). clear -H0. set_solver.
  - intros x. destruct (g !! x) as [i|] eqn:Hi.
    + assert (Hxd : x ∈ dom g) by (apply elem_of_dom; eauto). rewrite (Hlk1 x (Hpg x Hxd)). unfold g1.
      rewrite lookup_insert_ne by (intros ->; done). unfold g0. rewrite lookup_reroute, Hi. simpl.
      eexists. split; [done|]. by case_bool_decide.
    + destruct (pins !! x) as [j|] eqn:Hpx.
      * rewrite (Hlkp x j Hpx). destruct (Hpins x j Hpx) as [Ho [[Ht _]|[Ht _]]]; rewrite Ht; done.
      * rewrite (Hlk1 x Hpx). unfold g1. destruct (decide (x = q)) as [->|Hxq]; [by rewrite lookup_insert|].
        rewrite lookup_insert_ne by done. unfold g0. by rewrite lookup_reroute, Hi.
  - done.
  - intros v (Hp & Eq & Hc)%Hchar Et. pose proof (Hp pd _ Hpd) as Hok. apply node_ok_bbin in Hok.
    eapply (reroute_consistent g n q (fanout g n)); eauto; congruence.
  - intros v Hv.
    set (v' := λ x, if decide (x = q ∨ x = pq) then v n else
                    match pins !! x with Some i => gate_val (n_ty i) v (n_fi i) | None => v x end).
    assert (Hold : ∀ x, x ∈ dom g → v' x = v x).
    { intros x Hx. unfold v'. rewrite decide_False, (Hpg x Hx); [done|]. intros [->| ->]; [done|]. clear -Hdisj Hx Hpqd. set_solver. }
    assert (Q1 : v' q = v n) by (unfold v'; rewrite decide_True by tauto; done).
    assert (Q2 : v' pq = v n) by (unfold v'; rewrite decide_True by tauto; done).
    assert (Q3 : v' pd = v n).
    { unfold v'. rewrite decide_False, Hpd; [simpl; by rewrite gate_val_single|]. intros [->|?]; [|done]. done. }
    exists v'. split_and!; [|congruence|intros x Hx; by apply Hold].
    apply Hchar. split_and!.
    + intros p i Hp. destruct (Hpins p i Hp) as [_ [[Ht Hs]|[Ht He]]]; [|unfold node_ok, is_free; by rewrite Ht].
      destruct (decide (n_fi i = ∅)) as [He|Hne]; [unfold node_ok, is_free; rewrite Ht; by rewrite bool_decide_eq_true_2|].
      apply node_ok_gate; [unfold is_free; rewrite Ht; by apply bool_decide_eq_false|by rewrite Ht|by rewrite Ht|].
      assert (p ≠ q) by (intros ->; apply Hqp; apply elem_of_dom; eauto).
      assert (p ≠ pq) by (intros ->; rewrite Hpq in Hp; simplify_eq; done).
      unfold v' at 1. rewrite decide_False, Hp by tauto. apply gate_val_ext. intros f Hf. symmetry. apply Hold. by apply Hs.
    + congruence.
    + apply (reroute_consistent g n q (fanout g n) v' Hcl Hq (reflexivity _)); [by rewrite Q1, (Hold n)|].
      eapply consistent_agree_dom; [done| |exact Hv]. intros x Hx. symmetry. by apply Hold.
Qed.

(* ------------------------------------------------------------------ add_blackbox, any flop: the two folds *)
Definition bb_pts (ins outs : list string) : list (string * gtype) := ((λ p, (p, BbIn)) <$> ins) ++ ((λ p, (p, BbOut)) <$> outs).
Lemma add_blackbox_done_gen C0 d inst ins outs conns C' : add_blackbox C0 d inst ins outs conns = (C', Done) →
  inst ∉ dom (c_bbs C0) ∧ ∃ g3 io g', foldl (pinF inst) (c_g C0, [], Done) (bb_pts ins outs) = (g3, io, Done) ∧
    foldl (connF inst d) (g3, Done) conns = (g', Done) ∧
    C' = {| c_name := c_name C0; c_g := g'; c_bbs := <[inst := d]> (c_bbs C0) |}.
Proof.
  unfold add_blackbox. destruct (bool_decide (inst ∈ dom (c_bbs C0))) eqn:Hi; [done|]. apply bool_decide_eq_false in Hi.
  cbn [c_g c_bbs with_bbs with_g].
  change (foldl _ (c_g C0, [], Done) _) with (foldl (pinF inst) (c_g C0, [], Done) (bb_pts ins outs)).
  destruct (foldl (pinF inst) _ _) as [[g3 io] o] eqn:Ep. destruct o as [|e].
  2:{ simpl. destruct e; done. }
  change (foldl _ (g3, Done) conns) with (foldl (connF inst d) (g3, Done) conns).
  destruct (foldl (connF inst d) (g3, Done) conns) as [g' o'] eqn:Ec. cbn [fst snd].
  destruct o' as [|e']; [|destruct e'; done]. intros [= <-]. split; [done|]. exists g3, io, g'. done.
Qed.

Lemma pinF_done_nodup inst pts : ∀ g io g' io', foldl (pinF inst) (g, io, Done) pts = (g', io', Done) →
  NoDup ((λ pt, pin inst pt.1) <$> pts).
Proof.
  induction pts as [|[p t] pts IH]; intros g io g' io'; simpl; [intros _; constructor|].
  rewrite add_g_nil. destruct (bool_decide (pin inst p ∈ dom g)) eqn:Hd; [by rewrite pinF_fail|].
  destruct (negb (bool_decide (t ∈ Gen_types.supported_types))); [by rewrite pinF_fail|].
  destruct (bool_decide (pin inst p = "")); [by rewrite pinF_fail|].
  destruct (starts_digit (pin inst p)); [by rewrite pinF_fail|].
  intros H. pose proof (pinF_done inst pts _ _ _ _ H) as [_ Hfresh]. apply IH in H.
  constructor; [|done]. intros Hin. apply elem_of_list_fmap in Hin as (pt & Hpt & Hin).
  apply (Hfresh pt Hin). rewrite dom_insert, <- Hpt. clear. set_solver.
Qed.

Definition pin_map (inst : string) (pts : list (string * gtype)) : circuit :=
  list_to_map ((λ pt, (pin inst pt.1, mk_node pt.2 false ∅)) <$> pts).
Lemma foldl_pins_union inst pts : ∀ g, NoDup ((λ pt, pin inst pt.1) <$> pts) →
  foldl (λ g pt, <[pin inst pt.1 := mk_node pt.2 false ∅]> g) g pts = pin_map inst pts ∪ g.
Proof.
  induction pts as [|[p t] pts IH]; intros g Hnd; simpl.
  - unfold pin_map. simpl. by rewrite (left_id_L ∅ (∪)).
  - apply NoDup_cons in Hnd as [Hnin Hnd]. rewrite IH by done. unfold pin_map. simpl. fold (pin_map inst pts).
    assert (Hnone : pin_map inst pts !! pin inst p = None).
    { apply not_elem_of_list_to_map. rewrite <- list_fmap_compose. exact Hnin. }
    rewrite <- insert_union_r by done. by rewrite insert_union_l.
Qed.
Lemma pin_map_lookup inst pts x i : pin_map inst pts !! x = Some i →
  ∃ p t, (p, t) ∈ pts ∧ x = pin inst p ∧ i = mk_node t false ∅.
Proof.
  unfold pin_map. intros H%elem_of_list_to_map_2. apply elem_of_list_fmap in H as ([p t] & [= -> ->] & Hin). eauto.
Qed.
Lemma pin_map_lookup_in inst pts p t : NoDup ((λ pt, pin inst pt.1) <$> pts) → (p, t) ∈ pts →
  pin_map inst pts !! pin inst p = Some (mk_node t false ∅).
Proof.
  intros Hnd Hin. unfold pin_map. apply elem_of_list_to_map_1.
  - by rewrite <- list_fmap_compose.
  - apply elem_of_list_fmap. exists (p, t). done.
Qed.

(* connections: what every node gains *)
Definition contrib (inst : string) (d : bbdef) (kv : string * list string) (x : string) : gset string :=
  if bool_decide (kv.1 ∈ bb_in d) then (if decide (x = pin inst kv.1) then list_to_set kv.2 else ∅)
  else if bool_decide (kv.1 ∈ bb_out d) then (if decide (x ∈ kv.2) then {[pin inst kv.1]} else ∅) else ∅.
Definition dset (inst : string) (d : bbdef) (l : list (string * list string)) (x : string) : gset string :=
  foldr (λ kv acc, contrib inst d kv x ∪ acc) ∅ l.
Lemma connF_done inst d : ∀ l g g', foldl (connF inst d) (g, Done) l = (g', Done) →
  ∀ x, g' !! x = upd_fi (λ s, s ∪ dset inst d l x) <$> g !! x.
Proof.
  induction l as [|[k ns] l IH]; intros g g'.
  - simpl. intros [= <-] x. destruct (g !! x) as [j|]; simpl; [|done]. f_equal. apply ninfo_eq; simpl; [done|done|clear; set_solver].
  - cbn [foldl dset foldr]. unfold contrib. cbn [fst snd].
    destruct (decide (k ∈ bb_in d)) as [Hi|Hi].
    + rewrite connF_in, (bool_decide_eq_true_2 _ Hi) by done.
      destruct (connect_g g ns [pin inst k]) as [g1 o1] eqn:E1. destruct o1 as [|e1]; [|by rewrite connF_fail].
      intros H x. fold (dset inst d l x). rewrite (IH _ _ H x). pose proof (connect_g_lookup g ns [pin inst k] x) as L. rewrite E1 in L. simpl in L. rewrite (L eq_refl).
      destruct (g !! x) as [j|]; simpl; [|done]. f_equal. apply ninfo_eq; simpl; [done|done|].
      destruct (decide (x = pin inst k)) as [->|Hne].
      * rewrite decide_True by (apply elem_of_list_singleton; done). clear. set_solver.
      * rewrite decide_False by (intros ?%elem_of_list_singleton; done). clear. set_solver.
    + rewrite (bool_decide_eq_false_2 _ Hi). destruct (decide (k ∈ bb_out d)) as [Ho|Ho].
      * rewrite connF_out, (bool_decide_eq_true_2 _ Ho) by done.
        destruct (connect_g g [pin inst k] ns) as [g1 o1] eqn:E1. destruct o1 as [|e1]; [|by rewrite connF_fail].
        intros H x. fold (dset inst d l x). rewrite (IH _ _ H x). pose proof (connect_g_lookup g [pin inst k] ns x) as L. rewrite E1 in L. simpl in L. rewrite (L eq_refl).
        destruct (g !! x) as [j|]; simpl; [|done]. f_equal. apply ninfo_eq; simpl; [done|done|].
        destruct (decide (x ∈ ns)); clear; set_solver.
      * assert (connF inst d (g, Done) (k, ns) = (g, Fail ValueError)) as ->.
        { unfold connF. cbn [fst snd]. by rewrite (bool_decide_eq_false_2 _ Hi), (bool_decide_eq_false_2 _ Ho). }
        by rewrite connF_fail.
Qed.

(* ------------------------------------------------------------------ the connection dict and what it contributes *)
Definition other_conns (other : list (string * string)) : list (string * list string) := (λ kv, (kv.1, [kv.2])) <$> other.
Lemma dict_set_fresh l k v : k ∉ (fst <$> l) → dict_set l k v = (l ++ [(k, v)])%list.
Proof.
  induction l as [|[k' v'] l IH]; simpl; [done|]. intros Hn. rewrite decide_False by set_solver. f_equal. apply IH. set_solver.
Qed.
Lemma foldl_dict_set other : ∀ l, NoDup (fst <$> other) → (∀ kv, kv ∈ other → kv.1 ∉ (fst <$> l)) →
  foldl (λ d kv, dict_set d kv.1 [kv.2]) l other = (l ++ other_conns other)%list.
Proof.
  induction other as [|[k v] other IH]; intros l Hnd Hk; simpl; [by rewrite app_nil_r|].
  apply NoDup_cons in Hnd as [Hkn Hnd]. rewrite dict_set_fresh by (apply (Hk (k, v)); left).
  rewrite IH.
  - by rewrite <- app_assoc.
  - done.
  - intros kv Hkv. rewrite fmap_app, elem_of_app. intros [Hin|Hin].
    + apply (Hk kv); [by right|done].
    + simpl in Hin. apply elem_of_list_singleton in Hin. apply Hkn. rewrite <- Hin. apply elem_of_list_fmap. exists kv. by split.
Qed.

Lemma contrib_in inst d k ns x : k ∈ bb_in d → contrib inst d (k, ns) x = if decide (x = pin inst k) then list_to_set ns else ∅.
Proof. intros H. unfold contrib. cbn [fst snd]. by rewrite bool_decide_eq_true_2. Qed.
Lemma contrib_out inst d k ns x : k ∉ bb_in d → k ∈ bb_out d → contrib inst d (k, ns) x = if decide (x ∈ ns) then {[pin inst k]} else ∅.
Proof. intros H1 H2. unfold contrib. cbn [fst snd]. by rewrite bool_decide_eq_false_2, bool_decide_eq_true_2. Qed.
Lemma dset_tail_empty inst d other x : (∀ kv, kv ∈ other → kv.1 ∈ bb_in d ∧ x ≠ pin inst kv.1) → dset inst d (other_conns other) x = ∅.
Proof.
  induction other as [|[k v] other IH]; intros H; simpl; [done|].
  destruct (H (k, v)) as [Hi Hne]; [left|]. rewrite contrib_in, decide_False by done. rewrite IH; [clear; set_solver|].
  intros kv Hkv. apply H. by right.
Qed.
Lemma dset_tail_sub inst d other x : (∀ kv, kv ∈ other → kv.1 ∈ bb_in d) → dset inst d (other_conns other) x ⊆ list_to_set (snd <$> other).
Proof.
  induction other as [|[k v] other IH]; intros H; simpl; [done|].
  rewrite contrib_in by (apply (H (k, v)); left). assert (dset inst d (other_conns other) x ⊆ list_to_set (snd <$> other)) as IH'.
  { apply IH. intros kv Hkv. apply H. by right. }
  destruct (decide (x = pin inst k)); clear -IH'; set_solver.
Qed.

Record args_ok (A : reg_args) : Prop := {
  ao_ins : list_to_set (ra_ins A) = bb_in (ra_ff A);
  ao_outs : list_to_set (ra_outs A) = bb_out (ra_ff A);
  ao_disj : bb_in (ra_ff A) ## bb_out (ra_ff A);
  ao_d : ra_d A ∈ bb_in (ra_ff A);
  ao_q : ra_q A ∈ bb_out (ra_ff A);
  ao_keys_nodup : NoDup (fst <$> ra_other A);
  ao_keys : ∀ kv, kv ∈ ra_other A → kv.1 ∈ bb_in (ra_ff A) ∧ kv.1 ≠ ra_d A }.

(* ------------------------------------------------------------------ one flop through the API, any arguments within the guards *)
Lemma splice_api_step A C n i C1 : args_ok A → closed (c_g C) → n ∈ dom (c_g C) →
  (∀ kv, kv ∈ ra_other A → kv.2 ∈ dom (c_g C)) → splice_api A C n i = Ok C1 →
  let g := c_g C in let inst := "ff_" ++ n in let q := uid g (n ++ ra_suffix A ++ pretty i) in
  ∃ pins, q ∉ dom g ∧ inst ∉ dom (c_bbs C) ∧ pins_ok g pins n q (pin inst (ra_d A)) (pin inst (ra_q A)) ∧
    c_g C1 = spliced_gen g n q (pin inst (ra_q A)) pins ∧ c_bbs C1 = <[inst := ra_ff A]> (c_bbs C) ∧
    (∀ x, x ∈ dom pins ↔ ∃ p, p ∈ (ra_ins A ++ ra_outs A)%list ∧ x = pin inst p) ∧
    (∀ p, p ∈ ra_ins A → ∃ fi, pins !! pin inst p = Some (mk_node BbIn false fi) ∧
            (p = ra_d A ∨ (∃ v, (p, v) ∈ ra_other A) → fi ≠ ∅) ∧ size fi ≤ 1 ∧
            fi ⊆ {[n]} ∪ list_to_set (snd <$> ra_other A)) ∧
    (∀ p, p ∈ ra_outs A → pins !! pin inst p = Some (mk_node BbOut false ∅)).
Proof.
  intros [Hins Houts Hdisj Hd Hqo Hknd Hkeys] Hcl Hn Hvals. unfold splice_api. cbv zeta.
  set (g := c_g C). set (fo := elements (fanout g n)). set (g1 := disconnect_g g [n] fo). set (inst := "ff_" ++ n).
  destruct (add_g g1 (n ++ ra_suffix A ++ pretty i) Buf [] fo fl_uid) as [[g2 o] q] eqn:Ea.
  destruct o as [|e]; [|done].
  assert (Hqi : ra_q A ∉ bb_in (ra_ff A)) by (clear -Hdisj Hqo; set_solver).
  assert (Hdq : ra_d A ≠ ra_q A) by (intros E; apply Hqi; by rewrite <- E).
  rewrite (foldl_dict_set (ra_other A) [(ra_d A, [n]); (ra_q A, [q])] Hknd).
  2:{ intros kv Hkv. destruct (Hkeys kv Hkv) as [Hki Hkd]. simpl. rewrite !elem_of_cons, elem_of_nil.
      intros [E|[E|[]]]; [done|]. apply Hqi. by rewrite <- E. }
  destruct (add_blackbox _ _ _ _ _ _) as [C'' o'] eqn:Eb. destruct o' as [|e']; [|done]. intros [= ->].
  assert (Hd1 : dom g1 = dom g) by apply disconnect_dom.
  assert (Hfo : ∀ x, x ∈ fo ↔ x ∈ fanout g n) by (intros; apply elem_of_elements).
  apply add_g_uid_done in Ea as (Hq & Hqf & Hqne & Hqd & _ & L2).
  2:{ intros x Hx%Hfo. rewrite Hd1. apply elem_of_fanout in Hx as (? & ? & _). apply elem_of_dom. eauto. }
  rewrite (uid_dom g g1) in Hq by done. rewrite Hd1 in Hqf.
  apply add_blackbox_done_gen in Eb as (Hinst & g3 & io & g' & Ep & Ec & ->). cbn [c_g c_bbs c_name with_g] in *.
  pose proof (pinF_done_nodup _ _ _ _ _ _ Ep) as Hnd.
  apply pinF_done in Ep as [-> Hfresh]. rewrite (foldl_pins_union inst _ g2 Hnd) in Ec.
  set (pts := bb_pts (ra_ins A) (ra_outs A)) in *. set (PM := pin_map inst pts) in *.
  set (conns := ([(ra_d A, [n]); (ra_q A, [q])] ++ other_conns (ra_other A))%list) in *.
  pose proof (connF_done inst (ra_ff A) conns _ _ Ec) as Lg. set (D := dset inst (ra_ff A) conns) in *.
  (* membership in pts *)
  assert (Hpts : ∀ p t, (p, t) ∈ pts ↔ (p ∈ ra_ins A ∧ t = BbIn) ∨ (p ∈ ra_outs A ∧ t = BbOut)).
  { intros p t. unfold pts, bb_pts. rewrite elem_of_app, !elem_of_list_fmap. split.
    - intros [(y & [= -> ->] & Hy)|(y & [= -> ->] & Hy)]; eauto.
    - intros [[Hp ->]|[Hp ->]]; [left|right]; eauto. }
  assert (Hin_set : ∀ p, p ∈ ra_ins A ↔ p ∈ bb_in (ra_ff A)) by (intros p; by rewrite <- Hins, elem_of_list_to_set).
  assert (Hout_set : ∀ p, p ∈ ra_outs A ↔ p ∈ bb_out (ra_ff A)) by (intros p; by rewrite <- Houts, elem_of_list_to_set).
  assert (HPMin : ∀ p, p ∈ ra_ins A → PM !! pin inst p = Some (mk_node BbIn false ∅)).
  { intros p Hp. apply pin_map_lookup_in; [done|]. apply Hpts. by left. }
  assert (HPMout : ∀ p, p ∈ ra_outs A → PM !! pin inst p = Some (mk_node BbOut false ∅)).
  { intros p Hp. apply pin_map_lookup_in; [done|]. apply Hpts. by right. }
  assert (Hdom2 : ∀ x, x ∈ dom g2 ↔ x = q ∨ x ∈ dom g).
  { intros x. rewrite !elem_of_dom, L2. destruct (decide (x = q)) as [->|Hne]; [split; eauto|].
    unfold g1. rewrite disconnect_from_lookup. destruct (decide (x ∈ fo)); destruct (g !! x); simpl; split; intros H; try tauto; try (destruct H as [?|[? ?]]; done); eauto;
      try (destruct H as [? H]; done). }
  assert (HPM2 : ∀ x i0, PM !! x = Some i0 → x ∉ dom g2).
  { intros x i0 Hx. apply pin_map_lookup in Hx as (p & t & Hpt & -> & _). exact (Hfresh (p, t) Hpt). }
  (* contributions *)
  assert (Dform : ∀ x, D x = (if decide (x = pin inst (ra_d A)) then list_to_set [n] else ∅) ∪
             ((if decide (x ∈ [q]) then {[pin inst (ra_q A)]} else ∅) ∪ dset inst (ra_ff A) (other_conns (ra_other A)) x)).
  { intros x. unfold D, conns. cbn [app dset foldr]. rewrite contrib_in, contrib_out by done. done. }
  assert (Hq_notpin : ∀ p t, (p, t) ∈ pts → pin inst p ≠ q).
  { intros p t Hpt E. apply (Hfresh (p, t) Hpt). simpl. rewrite E. apply Hdom2. by left. }
  assert (Dold : ∀ x, PM !! x = None → D x = if decide (x = q) then {[pin inst (ra_q A)]} else ∅).
  { intros x Hx. rewrite Dform. rewrite decide_False.
    2:{ intros ->. rewrite HPMin in Hx; [done|]. by apply Hin_set. }
    rewrite dset_tail_empty.
    2:{ intros kv Hkv. destruct (Hkeys kv Hkv) as [Hki _]. split; [done|]. intros ->. rewrite HPMin in Hx; [done|]. by apply Hin_set. }
    destruct (decide (x = q)) as [->|Hne]; [rewrite decide_True by (by apply elem_of_list_singleton)|rewrite decide_False by (intros ?%elem_of_list_singleton; done)];
      clear; set_solver. }
  assert (Dd : D (pin inst (ra_d A)) = {[n]}).
  { rewrite Dform, decide_True by done. rewrite decide_False.
    2:{ intros E%elem_of_list_singleton. eapply (Hq_notpin (ra_d A) BbIn); [|done]. apply Hpts. left. split; [by apply Hin_set|done]. }
    rewrite dset_tail_empty; [clear; set_solver|].
    intros kv Hkv. destruct (Hkeys kv Hkv) as [Hki Hkd]. split; [done|]. intros E%pin_port_inj. done. }
  assert (Dout : ∀ p, p ∈ ra_outs A → D (pin inst p) = ∅).
  { intros p Hp. assert (Hpo : p ∈ bb_out (ra_ff A)) by (by apply Hout_set).
    assert (Hpi : p ∉ bb_in (ra_ff A)) by (clear -Hdisj Hpo; set_solver).
    rewrite Dform, decide_False by (intros E%pin_port_inj; apply Hpi; by rewrite E).
    rewrite decide_False.
    2:{ intros E%elem_of_list_singleton. eapply (Hq_notpin p BbOut); [|done]. apply Hpts. by right. }
    rewrite dset_tail_empty; [clear; set_solver|].
    intros kv Hkv. destruct (Hkeys kv Hkv) as [Hki _]. split; [done|]. intros E%pin_port_inj. apply Hpi. by rewrite E. }
  assert (Dsub : ∀ x, D x ⊆ {[n]} ∪ {[pin inst (ra_q A)]} ∪ list_to_set (snd <$> ra_other A)).
  { intros x. rewrite Dform. pose proof (dset_tail_sub inst (ra_ff A) (ra_other A) x (λ kv Hkv, proj1 (Hkeys kv Hkv))) as Hs.
    destruct (decide (x = pin inst (ra_d A))); destruct (decide (x ∈ [q])); clear -Hs; set_solver. }
  assert (Din : ∀ p, p ∈ ra_ins A → D (pin inst p) ⊆ dom g ∧ size (D (pin inst p)) ≤ 1 ∧
            (p = ra_d A ∨ (∃ v, (p, v) ∈ ra_other A) → D (pin inst p) ≠ ∅) ∧
            D (pin inst p) ⊆ {[n]} ∪ list_to_set (snd <$> ra_other A)).
  { intros p Hp. assert (Hnq : pin inst p ∉ [q]).
    { intros E%elem_of_list_singleton. eapply (Hq_notpin p BbIn); [|done]. apply Hpts. by left. }
    rewrite Dform, (decide_False (P := pin inst p ∈ [q])) by done.
    destruct (decide (p = ra_d A)) as [->|Hpd].
    - rewrite decide_True by done. rewrite dset_tail_empty.
      2:{ intros kv Hkv. destruct (Hkeys kv Hkv) as [Hki Hkd]. split; [done|]. intros E%pin_port_inj. done. }
      split_and!; [clear -Hn; set_solver| |intros _; clear; set_solver|clear; set_solver].
      replace (list_to_set [n] ∪ (∅ ∪ ∅)) with ({[n]} : gset string) by (apply leibniz_equiv; clear; set_solver). by rewrite size_singleton.
    - rewrite decide_False by (intros E%pin_port_inj; done).
      (* at most one entry of other_flop_io names this port *)
      assert (Ht : ∀ other, NoDup (fst <$> other) → (∀ kv, kv ∈ other → kv.1 ∈ bb_in (ra_ff A) ∧ kv.2 ∈ dom g) →
                 let T := dset inst (ra_ff A) (other_conns other) (pin inst p) in
                 T ⊆ dom g ∧ size T ≤ 1 ∧ ((∃ v, (p, v) ∈ other) → T ≠ ∅) ∧ ((∀ v, (p, v) ∉ other) → T = ∅)).
      { clear. induction other as [|[k v] other IH]; intros Hnd Hk T.
        - assert (T = ∅) as -> by done. split_and!; [done|rewrite size_empty; lia|intros [v Hv]; by apply elem_of_nil in Hv|done].
        - apply NoDup_cons in Hnd as [Hkn Hnd]. destruct (IH Hnd) as (I1 & I2 & I3 & I4); [intros kv Hkv; apply Hk; by right|].
          destruct (Hk (k, v)) as [Hki Hkv]; [left|]. simpl in Hki, Hkv.
          unfold T. simpl. rewrite contrib_in by done. destruct (decide (pin inst p = pin inst k)) as [E|E].
          + apply pin_port_inj in E. subst k.
            assert (He : dset inst (ra_ff A) (other_conns other) (pin inst p) = ∅).
            { apply I4. intros v' Hv'. apply Hkn. apply elem_of_list_fmap. exists (p, v'). done. }
            rewrite He. replace (list_to_set [v] ∪ ∅) with ({[v]} : gset string) by (apply leibniz_equiv; set_solver).
            split_and!; [set_solver|by rewrite size_singleton|intros _; set_solver|].
            intros Hno. exfalso. apply (Hno v). left.
          + replace (∅ ∪ dset inst (ra_ff A) (other_conns other) (pin inst p)) with (dset inst (ra_ff A) (other_conns other) (pin inst p))
              by (apply leibniz_equiv; set_solver).
            split_and!; [done|done| |].
            * intros [v' Hv']. apply I3. apply elem_of_cons in Hv' as [[= -> ->]|Hv']; [done|eauto].
            * intros Hno. apply I4. intros v' Hv'. apply (Hno v'). by right. }
      destruct (Ht (ra_other A) Hknd) as (T1 & T2 & T3 & _).
      { intros kv Hkv. split; [by apply Hkeys|by apply Hvals]. }
      replace (∅ ∪ (∅ ∪ dset inst (ra_ff A) (other_conns (ra_other A)) (pin inst p))) with (dset inst (ra_ff A) (other_conns (ra_other A)) (pin inst p))
        by (apply leibniz_equiv; clear; set_solver).
      split_and!; [done|done| |].
      + intros [?|Hex]; [done|by apply T3].
      + pose proof (dset_tail_sub inst (ra_ff A) (ra_other A) (pin inst p) (λ kv Hkv, proj1 (Hkeys kv Hkv))) as Hs. clear -Hs. set_solver. }
  (* the pin nodes after the connections *)
  set (pins := map_imap (λ x i0, Some (upd_fi (λ s, s ∪ D x) i0)) PM).
  assert (Lp : ∀ x, pins !! x = upd_fi (λ s, s ∪ D x) <$> PM !! x).
  { intros x. unfold pins. rewrite map_lookup_imap. by destruct (PM !! x). }
  assert (Hdp : ∀ x, x ∈ dom pins ↔ x ∈ dom PM).
  { intros x. rewrite !elem_of_dom, Lp. destruct (PM !! x); simpl; split; intros [? ?]; eauto; done. }
  rewrite <- Hq. exists pins. split_and!; [done|done| | |done| | |].
  - (* pins_ok *) split_and!.
    + intros x Hx Hxg. apply Hdp, elem_of_dom in Hx as [i0 Hx]. apply (HPM2 x i0 Hx). apply Hdom2. by right.
    + intros Hx. apply Hdp, elem_of_dom in Hx as [i0 Hx]. apply (HPM2 q i0 Hx). apply Hdom2. by left.
    + intros E%pin_port_inj. done.
    + rewrite Lp, HPMin by (by apply Hin_set). simpl. f_equal. apply ninfo_eq; simpl; [done|done|]. rewrite Dd. clear. set_solver.
    + rewrite Lp, HPMout by (by apply Hout_set). simpl. f_equal. apply ninfo_eq; simpl; [done|done|]. rewrite Dout by (by apply Hout_set). clear. set_solver.
    + intros x i0 Hx. rewrite Lp in Hx. destruct (PM !! x) as [j|] eqn:Hj; [|done]. simpl in Hx. simplify_eq.
      apply pin_map_lookup in Hj as (p & t & Hpt & -> & ->). simpl. split; [done|].
      apply Hpts in Hpt as [[Hp ->]|[Hp ->]].
      * left. split; [done|]. destruct (Din p Hp) as (Hs & _ & _ & _). clear -Hs. set_solver.
      * right. split; [done|]. rewrite (Dout p Hp). clear. set_solver.
  - (* the graph *) apply map_eq. intros x. rewrite Lg. unfold spliced_gen.
    destruct (PM !! x) as [i0|] eqn:Hx.
    + rewrite (lookup_union_Some_l _ _ _ i0 Hx). simpl. symmetry. apply lookup_union_Some_l. by rewrite Lp, Hx.
    + assert (Hpn : pins !! x = None) by (by rewrite Lp, Hx).
      rewrite (lookup_union_r _ _ _ Hx), (lookup_union_r _ _ _ Hpn), L2, (Dold x Hx).
      destruct (decide (x = q)) as [->|Hxq].
      * rewrite lookup_insert. simpl. f_equal. apply ninfo_eq; simpl; [done|done|clear; set_solver].
      * rewrite lookup_insert_ne, lookup_reroute by done. unfold g1. rewrite disconnect_from_lookup.
        destruct (decide (x ∈ fo)) as [Hin|Hin].
        -- rewrite bool_decide_eq_true_2 by (by apply Hfo). destruct (g !! x) as [j|]; simpl; [|done]. f_equal. apply ninfo_eq; simpl; [done|done|clear; set_solver].
        -- rewrite bool_decide_eq_false_2 by (by rewrite <- Hfo). destruct (g !! x) as [j|]; simpl; [|done]. f_equal. apply ninfo_eq; simpl; [done|done|clear; set_solver].
  - (* names of the pins *) intros x. rewrite Hdp, elem_of_dom. split.
    + intros [i0 Hx]. apply pin_map_lookup in Hx as (p & t & Hpt & -> & _). exists p. split; [|done].
      apply Hpts in Hpt as [[? _]|[? _]]; apply elem_of_app; eauto.
    + intros (p & Hp & ->). apply elem_of_app in Hp as [Hp|Hp]; [rewrite HPMin|rewrite HPMout]; eauto.
  - intros p Hp. destruct (Din p Hp) as (D1 & D2 & D3 & D4). exists (∅ ∪ D (pin inst p)). rewrite Lp, (HPMin p Hp). simpl.
    split_and!; [done| | |].
    + intros H. apply D3 in H. clear -H. set_solver.
    + by rewrite (left_id_L ∅ (∪)).
    + by rewrite (left_id_L ∅ (∪)).
  - intros p Hp. rewrite Lp, (HPMout p Hp). simpl. f_equal. apply ninfo_eq; simpl; [done|done|]. rewrite (Dout p Hp). clear. set_solver.
Qed.

(* ------------------------------------------------------------------ all flops *)
Definition transp_new_gen (dp qp : string) (C C' : Circuit) (v : val) : Prop :=
  ∀ inst, newinst C C' inst → v (pin inst qp) = v (pin inst dp).
Definition splice_api_all (A : reg_args) (C : Circuit) (sel : list (string * nat)) : res Circuit :=
  foldl (λ acc p, rbind acc (λ C', splice_api A C' p.1 p.2)) (Ok C) sel.

Lemma splice_api_all_spec A : args_ok A → ∀ sel C C', closed (c_g C) → (∀ p, p ∈ sel → p.1 ∈ dom (c_g C)) →
  (∀ kv, kv ∈ ra_other A → kv.2 ∈ dom (c_g C)) → splice_api_all A C sel = Ok C' →
  closed (c_g C') ∧ same_attrs (c_g C) (c_g C') ∧ dom (c_bbs C) ⊆ dom (c_bbs C') ∧
  (∀ inst, newinst C C' inst → pin inst (ra_q A) ∈ dom (c_g C') ∧ pin inst (ra_d A) ∈ dom (c_g C')) ∧
  (∀ v, consistent (c_g C') v → transp_new_gen (ra_d A) (ra_q A) C C' v → consistent (c_g C) v) ∧
  (∀ v, consistent (c_g C) v → ∃ v', consistent (c_g C') v' ∧ transp_new_gen (ra_d A) (ra_q A) C C' v' ∧ agrees (dom (c_g C)) v' v).
Proof.
  intros HA. induction sel as [|[n i] rest IH]; intros C C' Hcl Hsel Hvals; unfold splice_api_all; simpl.
  - intros [= <-]. split_and!.
    + done.
    + apply same_attrs_refl.
    + done.
    + by intros inst [? ?].
    + done.
    + intros v Hv. exists v. split_and!; [done|by intros inst [? ?]|apply agrees_refl].
  - destruct (splice_api A C n i) as [C1| | |] eqn:Hs.
    2-4: intros H; exfalso; by eapply (foldl_rbind_fail (λ x p, splice_api A x p.1 p.2)) in H.
    fold (splice_api_all A C1 rest). intros Hrest.
    assert (Hn : n ∈ dom (c_g C)) by (apply (Hsel (n, i)); left).
    destruct (splice_api_step A C n i C1 HA Hcl Hn Hvals Hs) as (pins & Hq & Hinst & Hpok & Hg1 & Hb1 & _).
    set (inst := "ff_" ++ n) in *. set (q := uid (c_g C) (n ++ ra_suffix A ++ pretty i)) in *.
    destruct (spliced_gen_spec (c_g C) n q (pin inst (ra_d A)) (pin inst (ra_q A)) pins Hcl Hn Hq Hpok) as (Hcl1 & Hat1 & Hdom1 & HA1 & HB1).
    rewrite <- Hg1 in *.
    pose proof (same_attrs_dom _ _ Hat1) as Hd1.
    destruct Hpok as (_ & _ & _ & Hpd & Hpq & _).
    assert (Dq : pin inst (ra_q A) ∈ dom (c_g C1)) by (rewrite Hdom1; apply elem_of_union_l, elem_of_dom; eauto).
    assert (Dd : pin inst (ra_d A) ∈ dom (c_g C1)) by (rewrite Hdom1; apply elem_of_union_l, elem_of_dom; eauto).
    destruct (IH C1 C' Hcl1) as (Hcl' & Hat' & Hbb' & Hpins' & HA' & HB'); [| |done|].
    { intros p Hp. apply Hd1. apply Hsel. by right. }
    { intros kv Hkv. by apply Hd1, Hvals. }
    pose proof (same_attrs_dom _ _ Hat') as Hd'.
    assert (Hb1d : dom (c_bbs C1) = {[inst]} ∪ dom (c_bbs C)) by (rewrite Hb1; apply dom_insert_L).
    assert (Hnew : ∀ x, newinst C C' x → x = inst ∨ newinst C1 C' x).
    { intros x [Hx1 Hx2]. destruct (decide (x ∈ dom (c_bbs C1))) as [Hx|Hx]; [|right; by split].
      left. rewrite Hb1d in Hx. clear -Hx Hx2. set_solver. }
    assert (Hnew1 : ∀ x, newinst C1 C' x → newinst C C' x).
    { intros x [Hx1 Hx2]. split; [done|]. rewrite Hb1d in Hx2. clear -Hx2. set_solver. }
    assert (Hnewi : newinst C C' inst).
    { split; [|done]. apply Hbb'. rewrite Hb1d. clear. set_solver. }
    split_and!.
    + done.
    + by eapply same_attrs_trans.
    + etrans; [|exact Hbb']. rewrite Hb1d. clear. set_solver.
    + intros x [->|Hx]%Hnew; [split; by apply Hd'|by apply Hpins'].
    + intros v Hv Ht. apply HA1; [|by apply Ht]. apply HA'; [done|]. intros x Hx. by apply Ht, Hnew1.
    + intros v Hv. destruct (HB1 v Hv) as (v1 & Hv1 & Et & Ha1). destruct (HB' v1 Hv1) as (v' & Hv' & Ht' & Ha').
      exists v'. split_and!; [done| |].
      * intros x [->|Hx]%Hnew; [|by apply Ht']. rewrite !Ha' by done. done.
      * intros x Hx. rewrite Ha' by (by apply Hd1). by apply Ha1.
Qed.

(* ------------------------------------------------------------------ the inputs named by other_flop_io *)
Definition add_input (g : circuit) (k : string) : circuit :=
  if bool_decide (k ∈ dom g) then g else <[k := mk_node Input false ∅]> g.
Lemma add_input_spec g k : closed g →
  closed (add_input g k) ∧ k ∈ dom (add_input g k) ∧ dom g ⊆ dom (add_input g k) ∧
  outputs (add_input g k) = outputs g ∧ inputs g ⊆ inputs (add_input g k) ∧ inputs (add_input g k) ⊆ inputs g ∪ {[k]} ∧
  (∀ v, consistent (add_input g k) v ↔ consistent g v).
Proof.
  intros Hcl. unfold add_input. case_bool_decide as Hc; [split_and!; try done; clear; set_solver|].
  assert (Hl : g !! k = None) by (by apply not_elem_of_dom).
  split_and!.
  - intros x j f Hx Hf. rewrite dom_insert. apply elem_of_union_r. destruct (decide (x = k)) as [->|Hne].
    + rewrite lookup_insert in Hx. simplify_eq. simpl in Hf. clear -Hf. set_solver.
    + rewrite lookup_insert_ne in Hx by done. by eapply Hcl.
  - rewrite dom_insert. clear. set_solver.
  - rewrite dom_insert. clear. set_solver.
  - apply set_eq. intros x. rewrite !elem_of_outputs. destruct (decide (x = k)) as [->|Hne].
    + rewrite lookup_insert, Hl. split; intros (i & ? & ?); simplify_eq; done.
    + by rewrite lookup_insert_ne.
  - intros x. rewrite !elem_of_inputs. intros (i & Hx & Ht). exists i. split; [|done].
    rewrite lookup_insert_ne; [done|]. intros <-. congruence.
  - intros x. rewrite elem_of_union, !elem_of_inputs, elem_of_singleton. intros (i & Hx & Ht).
    destruct (decide (x = k)) as [->|Hne]; [by right|]. left. rewrite lookup_insert_ne in Hx by done. eauto.
  - intros v. rewrite consistent_insert_fresh by done. unfold node_ok. simpl. tauto.
Qed.
Lemma add_other_inputs_spec A : ∀ g, closed g →
  let g1 := add_other_inputs A g in
  closed g1 ∧ (∀ kv, kv ∈ ra_other A → kv.1 ∈ dom g1) ∧ dom g ⊆ dom g1 ∧
  outputs g1 = outputs g ∧ inputs g ⊆ inputs g1 ∧ inputs g1 ⊆ inputs g ∪ list_to_set (fst <$> ra_other A) ∧
  (∀ v, consistent g1 v ↔ consistent g v).
Proof.
  unfold add_other_inputs. induction (ra_other A) as [|[k v0] l IH]; intros g Hcl; simpl.
  - split_and!; try done. + by intros kv ?%elem_of_nil. + clear; set_solver.
  - fold (add_input g k). destruct (add_input_spec g k Hcl) as (Hcl1 & Hk & Hd & Ho & Hi & Hi' & Hc).
    destruct (IH (add_input g k) Hcl1) as (Hcl2 & Hk2 & Hd2 & Ho2 & Hi2 & Hi2' & Hc2).
    split_and!.
    + done.
    + intros kv [->|Hkv]%elem_of_cons; [by apply Hd2|by apply Hk2].
    + by etrans.
    + congruence.
    + by etrans.
    + etrans; [exact Hi2'|]. clear -Hi'. set_solver.
    + intros v. by rewrite Hc2.
Qed.

(* ------------------------------------------------------------------ insert_registers, any arguments within the guards *)
Definition transparent_gen (dp qp : string) (C : Circuit) (v : val) : Prop :=
  ∀ inst, inst ∈ dom (c_bbs C) → v (pin inst qp) = v (pin inst dp).
Definition values_ok (A : reg_args) (g : circuit) : Prop :=
  ∀ kv, kv ∈ ra_other A → kv.2 ∈ dom g ∨ kv.2 ∈ (fst <$> ra_other A).

Theorem insert_registers_api_spec A C s order C' : args_ok A → closed (c_g C) → bb_free C → values_ok A (c_g C) →
  insert_registers_api A C s order = Ok C' →
  closed (c_g C') ∧ dom (c_g C) ⊆ dom (c_g C') ∧
  outputs (c_g C') = outputs (c_g C) ∧ inputs (c_g C) ⊆ inputs (c_g C') ∧
  inputs (c_g C') ⊆ inputs (c_g C) ∪ list_to_set (fst <$> ra_other A) ∧
  (∀ v', consistent (c_g C') v' → transparent_gen (ra_d A) (ra_q A) C' v' → consistent (c_g C) v') ∧
  (∀ v, consistent (c_g C) v → ∃ v', consistent (c_g C') v' ∧ transparent_gen (ra_d A) (ra_q A) C' v' ∧ agrees (dom (c_g C)) v' v).
Proof.
  intros HA Hcl Hbb Hvals. unfold insert_registers_api. cbv zeta.
  destruct (bool_decide (NoDup order) && bool_decide (list_to_set order = dom (c_g C))) eqn:Hord; [|done]. cbn [negb].
  top_if; [done|].
  destruct (reg_selection (c_g C) s order) as [sel| | |] eqn:Hsel; try done. simpl. intros Hsp.
  apply andb_true_iff in Hord as [_ Hord]. apply bool_decide_eq_true in Hord.
  destruct (add_other_inputs_spec A (c_g C) Hcl) as (Hcl1 & Hk1 & Hd1 & Ho1 & Hi1 & Hi1' & Hc1).
  destruct (splice_api_all_spec A HA sel (with_g C (add_other_inputs A (c_g C))) C') as (Hcl' & Hat & _ & _ & HA' & HB'); try done.
  { simpl. intros p Hp. apply Hd1. rewrite <- Hord. apply elem_of_list_to_set. by eapply reg_selection_in. }
  { simpl. intros kv Hkv. destruct (Hvals kv Hkv) as [H|H]; [by apply Hd1|].
    apply elem_of_list_fmap in H as (kv' & -> & Hkv'). by apply Hk1. }
  simpl in *. destruct (same_attrs_io _ _ Hat) as [Hi' Ho']. pose proof (same_attrs_dom _ _ Hat) as Hd'.
  assert (Htr : ∀ v, transparent_gen (ra_d A) (ra_q A) C' v ↔ transp_new_gen (ra_d A) (ra_q A) (with_g C (add_other_inputs A (c_g C))) C' v).
  { intros v. unfold transparent_gen, transp_new_gen, newinst. simpl. rewrite Hbb, dom_empty_L.
    split; intros H inst; [intros [? _]; by apply H|intros ?; apply H; split; [done|set_solver]]. }
  split_and!.
  - done.
  - by etrans.
  - congruence.
  - by rewrite Hi'.
  - by rewrite Hi'.
  - intros v Hv Ht. apply Hc1. apply HA'; [done|]. by apply Htr.
  - intros v Hv. apply Hc1 in Hv. destruct (HB' v Hv) as (v' & Hv' & Ht' & Ha'). exists v'. split_and!; [done|by apply Htr|].
    intros x Hx. apply Ha'. by apply Hd1.
Qed.
