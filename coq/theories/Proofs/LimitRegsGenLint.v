(* C05: lint-cleanness of insert_registers' result for arbitrary flop / ports / other_flop_io / suffix, within guards. *)
From Coq Require Import Ascii.
From stdpp Require Import strings gmap sets fin_sets pretty.
From CG Require Import Fold Model.Limit Proofs.LintProofs Proofs.ApiProofs Proofs.LimitProofs Proofs.LimitLint Proofs.LimitTotal
  Proofs.LimitApi Proofs.LimitApiRegs Proofs.LimitRegsLint Proofs.LimitRegsGen.
Open Scope string_scope.

(* additional guards for lint: dot-free suffix and key names, every input port of the flop is wired *)
Record lint_args_ok (A : reg_args) : Prop := {
  la_suffix : has_dot (ra_suffix A) = false;
  la_keys : ∀ kv, kv ∈ ra_other A → has_dot kv.1 = false;
  la_driven : ∀ p, p ∈ bb_in (ra_ff A) → p = ra_d A ∨ ∃ v, (p, v) ∈ ra_other A }.

Lemma splice_api_lint_step A C n i C1 : args_ok A → lint_args_ok A → closed (c_g C) → n ∈ dom (c_g C) →
  (∀ kv, kv ∈ ra_other A → kv.2 ∈ dom (c_g C) ∧ ty (c_g C) kv.2 ≠ Some BbOut) →
  has_dot n = false → ty (c_g C) n ≠ Some BbOut → lint_clean C → splice_api A C n i = Ok C1 → lint_clean C1.
Proof.
  intros HA [Lsuf Lkeys Ldrv] Hcl Hn Hvals Hnd Tn Hl Hs.
  destruct (splice_api_step A C n i C1 HA Hcl Hn (λ kv Hkv, proj1 (Hvals kv Hkv)) Hs) as (pins & Hq & Hinst & Hpok & Hg' & Hb' & Hnames & Hinp & Houtp).
  destruct HA as [Hins Houts Hdisj Hd Hqo Hknd Hkeys].
  set (g := c_g C) in *. set (inst := "ff_" ++ n) in *. set (q := uid g (n ++ ra_suffix A ++ pretty i)) in *.
  set (pd := pin inst (ra_d A)) in *. set (pq := pin inst (ra_q A)) in *.
  destruct (spliced_gen_spec g n q pd pq pins Hcl Hn Hq Hpok) as (Hcl' & Hat & Hdom' & _ & _).
  destruct Hpok as (Hdisjp & Hqp & Hdq & Hpd & Hpq & Hpall).
  assert (Hidot : has_dot inst = false) by (unfold inst; rewrite has_dot_app, Hnd; done).
  assert (Hbd : dom (c_bbs C1) = {[inst]} ∪ dom (c_bbs C)) by (rewrite Hb'; apply dom_insert_L).
  assert (Hin_set : ∀ p, p ∈ ra_ins A ↔ p ∈ bb_in (ra_ff A)) by (intros p; by rewrite <- Hins, elem_of_list_to_set).
  assert (Hout_set : ∀ p, p ∈ ra_outs A ↔ p ∈ bb_out (ra_ff A)) by (intros p; by rewrite <- Houts, elem_of_list_to_set).
  assert (Hpg : ∀ x, x ∈ dom g → pins !! x = None).
  { intros x Hx. apply not_elem_of_dom. clear -Hdisjp Hx. set_solver. }
  assert (Hlkp : ∀ x j, pins !! x = Some j → c_g C1 !! x = Some j).
  { intros x j Hx. rewrite Hg'. unfold spliced_gen. by apply lookup_union_Some_l. }
  assert (Hlk1 : ∀ x, pins !! x = None → c_g C1 !! x = (<[q := mk_node Buf false {[pq]}]> (reroute g n q (fanout g n))) !! x).
  { intros x Hx. rewrite Hg'. unfold spliced_gen. by apply lookup_union_r. }
  assert (Hlko : ∀ x, x ∈ dom g → c_g C1 !! x = (λ j, if bool_decide (x ∈ fanout g n) then upd_fi (λ s, {[q]} ∪ s ∖ {[n]}) j else j) <$> g !! x).
  { intros x Hx. rewrite (Hlk1 x (Hpg x Hx)), lookup_insert_ne by (intros ->; done). apply lookup_reroute. }
  assert (Hlkq : c_g C1 !! q = Some (mk_node Buf false {[pq]})).
  { rewrite Hlk1 by (by apply not_elem_of_dom). apply lookup_insert. }
  assert (Hpqd : pq ∈ dom pins) by (apply elem_of_dom; eauto).
  assert (Hpqg : pq ∉ dom g) by (clear -Hdisjp Hpqd; set_solver).
  assert (Hvset : ∀ f, f ∈ (list_to_set (snd <$> ra_other A) : gset string) → f ∈ dom g ∧ ty g f ≠ Some BbOut).
  { intros f Hf. apply elem_of_list_to_set, elem_of_list_fmap in Hf as (kv & -> & Hkv). by apply Hvals. }
  (* who reads a given node in the new graph *)
  assert (Hpinfi : ∀ y j, pins !! y = Some j → n_fi j ⊆ {[n]} ∪ list_to_set (snd <$> ra_other A)).
  { intros y j Hy. assert (Hyd : y ∈ dom pins) by (apply elem_of_dom; eauto).
    apply Hnames in Hyd as (p & Hp & ->). apply elem_of_app in Hp as [Hp|Hp].
    - destruct (Hinp p Hp) as (fi & Hfi & _ & _ & Hsub). rewrite Hfi in Hy. by simplify_eq.
    - rewrite (Houtp p Hp) in Hy. simplify_eq. simpl. clear. set_solver. }
  apply (lint_preserved_gen C C1); try done.
  - rewrite Hbd. clear. set_solver.
  - intros i0 d. rewrite Hb'. destruct (decide (i0 = inst)) as [->|Hne]; [|rewrite lookup_insert_ne by done; by left].
    rewrite lookup_insert. intros [= <-]. right. fold g.
    intros [(p & Hp & Ht)|(p & Hp & Ht)].
    + apply Hin_set in Hp. destruct (Hinp p Hp) as (fi & Hfi & _). apply Ht. unfold ty. by rewrite (Hlkp _ _ Hfi).
    + apply Hout_set in Hp. apply Ht. unfold ty. by rewrite (Hlkp _ _ (Houtp p Hp)).
  - rewrite Hg'. by apply same_attrs_kept.
  - intros x j j' Hx Hx'. fold g in Hx. assert (Hnin : q ∉ n_fi j) by exact (closed_not_in g q x j Hcl Hq Hx).
    rewrite Hlko, Hx in Hx' by (apply elem_of_dom; eauto). simpl in Hx'.
    case_bool_decide as HxL; [|by simplify_eq]. apply elem_of_fanout in HxL as (j2 & Hj2 & Hin).
    assert (j2 = j) as -> by congruence. assert (j' = upd_fi (λ s, {[q]} ∪ s ∖ {[n]}) j) as -> by congruence. simpl. split.
    + split; intros He; exfalso; [clear -He|clear -He Hin]; set_solver.
    + intros Hsz. rewrite size_union by (clear -Hin Hnin; set_solver).
      rewrite size_difference by (clear -Hin; set_solver). rewrite !size_singleton. lia.
  - intros x j Hx Hty. fold g in Hx |- *. apply set_eq. intros y. rewrite !elem_of_fanout.
    assert (Hxd : x ∈ dom g) by (apply elem_of_dom; eauto).
    assert (Hxn : x ≠ n) by (intros ->; apply Tn; unfold ty; rewrite Hx; simpl; by rewrite Hty).
    assert (Hxq : x ≠ q) by (intros ->; done). assert (Hxpq : x ≠ pq) by (intros ->; done).
    assert (Hxv : x ∉ (list_to_set (snd <$> ra_other A) : gset string)).
    { intros Hv. destruct (Hvset x Hv) as [_ Hnb]. apply Hnb. unfold ty. rewrite Hx. simpl. by rewrite Hty. }
    destruct (pins !! y) as [jy|] eqn:Hy.
    { rewrite (Hlkp y jy Hy). split.
      - intros (? & [= <-] & Hin). apply (Hpinfi y jy Hy) in Hin. clear -Hin Hxn Hxv. set_solver.
      - intros (? & Hgy & _). exfalso. assert (y ∈ dom pins) by (apply elem_of_dom; eauto). assert (y ∈ dom g) by (apply elem_of_dom; eauto).
        clear -Hdisjp H H0. set_solver. }
    rewrite (Hlk1 y Hy). destruct (decide (y = q)) as [->|Y4].
    { rewrite lookup_insert. split; [intros (? & [= <-] & Hin); simpl in Hin; clear -Hin Hxpq; set_solver|].
      intros (? & Hgy & _). exfalso. apply Hq. apply elem_of_dom. eauto. }
    rewrite lookup_insert_ne, lookup_reroute by done.
    destruct (g !! y) as [jy|] eqn:Hgy; simpl; [|split; by intros (? & ? & _)].
    case_bool_decide; [|done]. split; intros (? & [= <-] & Hin); eexists; (split; [done|]); simpl in *; clear -Hin Hxn Hxq; set_solver.
  - intros x i' Hx Hx'. fold g in Hx.
    destruct (pins !! x) as [jx|] eqn:Hpx.
    + (* a pin *) rewrite (Hlkp x jx Hpx) in Hx'. simplify_eq.
      assert (Hxd : x ∈ dom pins) by (apply elem_of_dom; eauto). apply Hnames in Hxd as (p & Hp & ->).
      assert (Hdot : before_dot (pin inst p) ∈ dom (c_bbs C1)).
      { rewrite before_dot_pin by done. rewrite Hbd. clear. set_solver. }
      apply elem_of_app in Hp as [Hp|Hp].
      * destruct (Hinp p Hp) as (fi & Hfi & Hne & Hsz & _). rewrite Hfi in Hpx. simplify_eq.
        assert (Hfne : fi ≠ ∅) by (apply Hne, Ldrv; by apply Hin_set).
        unfold node_violates. cbn [n_ty n_fi n_out mk_node].
        intros [H|[H|[H|[H|[H|[H|[H|H]]]]]]].
        -- apply H. unfold doc_supported. clear. set_solver.
        -- destruct H as [_ H]. done.
        -- destruct H as [H _]. unfold doc_no_fanin in H. clear -H. set_solver.
        -- destruct H as [H _]. done.
        -- destruct H as [_ H]. lia.
        -- destruct H as (_ & _ & H). done.
        -- destruct H as [H _]. done.
        -- destruct H as [H _]. done.
      * rewrite (Houtp p Hp) in Hpx. simplify_eq.
        assert (Hfo : ∀ y, y ∈ fanout (c_g C1) (pin inst p) → y = q).
        { intros y (jy & Hy & Hin)%elem_of_fanout. destruct (pins !! y) as [jy'|] eqn:Hpy.
          - rewrite (Hlkp y jy' Hpy) in Hy. simplify_eq. apply (Hpinfi y jy Hpy) in Hin. exfalso.
            assert (pin inst p ∈ dom g).
            { apply elem_of_union in Hin as [Hin|Hin]; [apply elem_of_singleton in Hin; by rewrite Hin|by apply Hvset]. }
            assert (pin inst p ∈ dom pins) by (apply Hnames; exists p; split; [apply elem_of_app; by right|done]).
            clear -Hdisjp H H0. set_solver.
          - rewrite (Hlk1 y Hpy) in Hy. destruct (decide (y = q)); [done|]. exfalso.
            rewrite lookup_insert_ne, lookup_reroute in Hy by done. destruct (g !! y) as [j0|] eqn:Hj0; [|done].
            assert (Hpn : pin inst p ∉ n_fi j0).
            { intros Hc. assert (pin inst p ∈ dom g) by (by eapply Hcl).
              assert (pin inst p ∈ dom pins) by (apply Hnames; exists p; split; [apply elem_of_app; by right|done]).
              clear -Hdisjp H H0. set_solver. }
            assert (pin inst p ≠ q) by (intros E; apply Hqp; rewrite <- E; apply Hnames; exists p; split; [apply elem_of_app; by right|done]).
            simpl in Hy. case_bool_decide; simplify_eq; simpl in Hin; try done. clear -Hin Hpn H. set_solver. }
        unfold node_violates. cbn [n_ty n_fi n_out mk_node].
        intros [H|[H|[H|[H|[H|[H|[H|H]]]]]]].
        -- apply H. unfold doc_supported. clear. set_solver.
        -- destruct H as [_ H]. done.
        -- destruct H as [_ H]. done.
        -- destruct H as [_ [H|(m & Hm & Hmt)]].
           ++ assert (size (fanout (c_g C1) (pin inst p)) ≤ size ({[q]} : gset string)) as Hle.
              { apply subseteq_size. intros y Hy. apply elem_of_singleton. by apply Hfo. }
              rewrite size_singleton in Hle. lia.
           ++ apply Hfo in Hm. subst m. apply Hmt. unfold ty. by rewrite Hlkq.
        -- destruct H as [H _]. unfold doc_single in H. clear -H. set_solver.
        -- destruct H as (_ & H & _). unfold doc_single, doc_multi in H. clear -H. set_solver.
        -- destruct H as [H _]. done.
        -- destruct H as [H _]. done.
    + (* the q buffer *) assert (x = q) as ->.
      { rewrite (Hlk1 x Hpx) in Hx'. destruct (decide (x = q)); [done|]. exfalso.
        rewrite lookup_insert_ne, lookup_reroute, Hx in Hx' by done. done. }
      rewrite Hlkq in Hx'. simplify_eq. unfold node_violates. cbn [n_ty n_fi n_out mk_node].
      intros [H|[H|[H|[H|[H|[H|[H|H]]]]]]].
      * apply H. unfold doc_supported. clear. set_solver.
      * destruct H as [Hd' H]. apply H. apply (helper_name_ok g (dom (c_bbs C1)) n (ra_suffix A) i); [done| |done]. intros E. congruence.
      * destruct H as [H _]. unfold doc_no_fanin in H. clear -H. set_solver.
      * destruct H as [H _]. done.
      * destruct H as [_ H]. rewrite size_singleton in H. lia.
      * destruct H as (_ & _ & H). clear -H. set_solver.
      * destruct H as [H _]. done.
      * destruct H as [H _]. done.
Qed.

(* ------------------------------------------------------------------ all flops *)
Lemma splice_api_all_lint A : args_ok A → lint_args_ok A → ∀ sel C C', closed (c_g C) →
  (∀ p, p ∈ sel → p.1 ∈ dom (c_g C) ∧ has_dot p.1 = false ∧ ty (c_g C) p.1 ≠ Some BbOut) →
  (∀ kv, kv ∈ ra_other A → kv.2 ∈ dom (c_g C) ∧ ty (c_g C) kv.2 ≠ Some BbOut) →
  lint_clean C → splice_api_all A C sel = Ok C' → lint_clean C'.
Proof.
  intros HA HL. induction sel as [|[n i] rest IH]; intros C C' Hcl Hsel Hvals Hl; unfold splice_api_all; simpl; [by intros [= <-]|].
  destruct (splice_api A C n i) as [C1| | |] eqn:Hs.
  2-4: intros H; exfalso; by eapply (foldl_rbind_fail (λ x p, splice_api A x p.1 p.2)) in H.
  fold (splice_api_all A C1 rest). intros Hrest.
  destruct (Hsel (n, i)) as (Hn & Hnd & Tn); [left|]. simpl in Hn, Hnd, Tn.
  pose proof (splice_api_lint_step A C n i C1 HA HL Hcl Hn Hvals Hnd Tn Hl Hs) as Hl1.
  destruct (splice_api_step A C n i C1 HA Hcl Hn (λ kv Hkv, proj1 (Hvals kv Hkv)) Hs) as (pins & Hq & Hinst & Hpok & Hg1 & _).
  destruct (spliced_gen_spec (c_g C) n _ _ _ pins Hcl Hn Hq Hpok) as (Hcl1 & Hat1 & _).
  rewrite <- Hg1 in *. pose proof (same_attrs_dom _ _ Hat1) as Hd1.
  assert (Hty : ∀ x, x ∈ dom (c_g C) → ty (c_g C) x ≠ Some BbOut → ty (c_g C1) x ≠ Some BbOut).
  { intros x Hx Hnb Ht. destruct (same_attrs_ty_inv _ _ x _ Hat1 Ht) as [?|Hnone]; [done|]. by apply not_elem_of_dom in Hnone. }
  apply (IH C1 C' Hcl1); [| |done|done].
  - intros p Hp. destruct (Hsel p) as (? & ? & ?); [by right|]. split_and!; [by apply Hd1|done|by apply Hty].
  - intros kv Hkv. destruct (Hvals kv Hkv) as [? ?]. split; [by apply Hd1|by apply Hty].
Qed.

(* ------------------------------------------------------------------ the added inputs *)
Lemma add_input_lint C k : closed (c_g C) → has_dot k = false → lint_clean C → lint_clean (with_g C (add_input (c_g C) k)).
Proof.
  intros Hcl Hk Hl. unfold add_input. case_bool_decide as Hc; [by rewrite with_g_eta|].
  assert (Hnone : c_g C !! k = None) by (by apply not_elem_of_dom).
  apply (lint_preserved_gen C); simpl; try done.
  - intros inst d Hd. by left.
  - intros x i Hx. exists i. split; [|done]. rewrite lookup_insert_ne; [done|]. intros <-. congruence.
  - intros x i i' Hx Hx'. rewrite lookup_insert_ne in Hx' by (intros <-; congruence). by simplify_eq.
  - intros x i Hx Hty. apply set_eq. intros y. rewrite !elem_of_fanout. destruct (decide (y = k)) as [->|Hne].
    + rewrite lookup_insert, Hnone. split; [intros (? & [= <-] & Hin); simpl in Hin; clear -Hin; set_solver|by intros (? & ? & _)].
    + by rewrite lookup_insert_ne.
  - intros x i' Hx Hx'. destruct (decide (x = k)) as [->|Hne]; [|rewrite lookup_insert_ne in Hx' by done; congruence].
    rewrite lookup_insert in Hx'. simplify_eq. unfold node_violates. cbn [n_ty n_fi n_out mk_node].
    intros [H|[H|[H|[H|[H|[H|[H|H]]]]]]].
    + apply H. unfold doc_supported. clear. set_solver.
    + destruct H as [H _]. congruence.
    + destruct H as [_ H]. done.
    + destruct H as [H _]. done.
    + destruct H as [H _]. unfold doc_single in H. clear -H. set_solver.
    + destruct H as (_ & H & _). unfold doc_single, doc_multi in H. clear -H. set_solver.
    + destruct H as [H _]. done.
    + destruct H as [H _]. done.
Qed.
Lemma add_input_ty g k x t : ty (add_input g k) x = Some t → ty g x = Some t ∨ t = Input.
Proof.
  unfold add_input. case_bool_decide; [by left|]. unfold ty. destruct (decide (x = k)) as [->|Hne].
  - rewrite lookup_insert. simpl. intros [= <-]. by right.
  - rewrite lookup_insert_ne by done. by left.
Qed.
Lemma add_other_inputs_lint A : (∀ kv, kv ∈ ra_other A → has_dot kv.1 = false) → ∀ C, closed (c_g C) → lint_clean C →
  lint_clean (with_g C (add_other_inputs A (c_g C))) ∧
  ∀ x, ty (add_other_inputs A (c_g C)) x = Some BbOut → ty (c_g C) x = Some BbOut.
Proof.
  unfold add_other_inputs. induction (ra_other A) as [|[k v0] l IH]; intros Hk C Hcl Hl; simpl.
  - split; [by rewrite with_g_eta|done].
  - fold (add_input (c_g C) k).
    destruct (add_input_spec (c_g C) k Hcl) as (Hcl1 & _).
    assert (Hl1 : lint_clean (with_g C (add_input (c_g C) k))) by (apply add_input_lint; [done|apply (Hk (k, v0)); left|done]).
    destruct (IH (λ kv Hkv, Hk kv (elem_of_list_further _ _ _ Hkv)) (with_g C (add_input (c_g C) k)) Hcl1 Hl1) as [Hl2 Hty2]. simpl in *.
    split; [done|]. intros x Hx. apply Hty2 in Hx. destruct (add_input_ty _ _ _ _ Hx) as [?|?]; done.
Qed.

(* ------------------------------------------------------------------ insert_registers, any arguments within the guards *)
Definition no_bbout_nodes (g : circuit) : Prop := ∀ n i, g !! n = Some i → n_ty i ≠ BbOut.

Theorem insert_registers_api_lint A C s order C' : args_ok A → lint_args_ok A → closed (c_g C) → bb_free C →
  no_bbout_nodes (c_g C) → values_ok A (c_g C) → lint_clean C →
  insert_registers_api A C s order = Ok C' → lint_clean C'.
Proof.
  intros HA HL Hcl Hbb Hnb Hvals Hl. unfold insert_registers_api. cbv zeta.
  destruct (bool_decide (NoDup order) && bool_decide (list_to_set order = dom (c_g C))) eqn:Hord; [|done]. cbn [negb].
  top_if; [done|].
  destruct (reg_selection (c_g C) s order) as [sel| | |] eqn:Hsel; try done. simpl. intros Hsp.
  apply andb_true_iff in Hord as [_ Hord]. apply bool_decide_eq_true in Hord.
  destruct (add_other_inputs_spec A (c_g C) Hcl) as (Hcl1 & Hk1 & Hd1 & _).
  destruct (add_other_inputs_lint A (la_keys A HL) C Hcl Hl) as [Hl1 Hty1].
  assert (Hnb1 : ∀ x, ty (add_other_inputs A (c_g C)) x ≠ Some BbOut).
  { intros x Hx. apply Hty1 in Hx. unfold ty in Hx. destruct (c_g C !! x) as [j|] eqn:Hj; [|done]. simpl in Hx. apply (Hnb x j Hj). congruence. }
  apply (splice_api_all_lint A HA HL sel (with_g C (add_other_inputs A (c_g C))) C'); simpl; try done.
  - intros p Hp. assert (Hpd : p.1 ∈ dom (c_g C)).
    { rewrite <- Hord. apply elem_of_list_to_set. by eapply reg_selection_in. }
    split_and!; [by apply Hd1| |done]. apply elem_of_dom in Hpd as [j Hj].
    destruct (has_dot p.1) eqn:Hdot; [|done]. exfalso.
    pose proof (lint_clean_name C p.1 j Hl Hj Hdot) as Hin. rewrite Hbb in Hin. clear -Hin. set_solver.
  - intros kv Hkv. split; [|done]. destruct (Hvals kv Hkv) as [H|H]; [by apply Hd1|].
    apply elem_of_list_fmap in H as (kv' & -> & Hkv'). by apply Hk1.
Qed.
