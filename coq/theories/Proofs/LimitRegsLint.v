(* C05: insert_registers returns a lint-clean circuit when given a lint-clean, blackbox-free one. *)
From Coq Require Import Ascii.
From stdpp Require Import strings gmap sets fin_sets pretty.
From CG Require Import Fold Model.Limit Proofs.LintProofs Proofs.LimitProofs Proofs.LimitLint Proofs.LimitTotal Proofs.LimitApiRegs.
Open Scope string_scope.

(* generic: old nodes keep attributes and driven / single-driver status, drivers of bb_outputs keep their loads, the registry
   only grows by instances whose pins are typed, and every new node is itself rule-conforming *)
Definition attrs_kept (c c' : circuit) : Prop :=
  ∀ x i, c !! x = Some i → ∃ i', c' !! x = Some i' ∧ n_ty i' = n_ty i ∧ n_out i' = n_out i.
Lemma same_attrs_kept c c' : same_attrs c c' → attrs_kept c c'.
Proof. intros H x i Hx. specialize (H x). by rewrite Hx in H. Qed.
Lemma ty_kept c c' x t : attrs_kept c c' → ty c x = Some t → ty c' x = Some t.
Proof.
  intros H Hx. unfold ty in *. destruct (c !! x) as [i|] eqn:Hi; [|done]. simpl in Hx.
  destruct (H x i Hi) as (i' & -> & Ht & _). simpl. congruence.
Qed.
Lemma lint_preserved_gen (C C' : Circuit) :
  dom (c_bbs C) ⊆ dom (c_bbs C') →
  (∀ inst d, c_bbs C' !! inst = Some d → c_bbs C !! inst = Some d ∨ ¬ bb_violates C' inst d) →
  attrs_kept (c_g C) (c_g C') →
  (∀ x i i', c_g C !! x = Some i → c_g C' !! x = Some i' →
     (n_fi i' = ∅ ↔ n_fi i = ∅) ∧ (size (n_fi i) ≤ 1 → size (n_fi i') ≤ 1)) →
  (∀ x i, c_g C !! x = Some i → n_ty i = BbOut → fanout (c_g C') x = fanout (c_g C) x) →
  (∀ x i', c_g C !! x = None → c_g C' !! x = Some i' → ¬ node_violates C' default_flags x i') →
  lint_clean C → lint_clean C'.
Proof.
  intros Hbd Hbb Hat Hold Hbbo Hnew. rewrite !lint_clean_iff. intros Hnv Hv. apply Hnv. clear Hnv.
  destruct Hv as [(x & i' & Hx & Hviol)|(inst & d & Hd & Hbv)].
  - destruct (c_g C !! x) as [i|] eqn:Hxo; [|exfalso; by eapply Hnew].
    left. exists x, i. split; [done|].
    destruct (Hat x i Hxo) as (i'' & Hx'' & Hty & Hout). simplify_eq.
    destruct (Hold x i i' Hxo Hx) as [Hemp Hsz].
    unfold node_violates in *. rewrite Hty in Hviol.
    destruct Hviol as [H|[H|[H|[H|[H|[H|[H|H]]]]]]].
    + by left.
    + right; left. destruct H as [? Hb]. split; [done|]. intros Hin. apply Hb. by apply Hbd.
    + right; right; left. destruct H as [? Hne]. split; [done|]. intros He. apply Hne. by apply Hemp.
    + right; right; right; left. destruct H as [Hb H]. split; [done|]. rewrite (Hbbo x i Hxo Hb) in H.
      destruct H as [H|(m & Hm & Hmt)]; [by left|right]. exists m. split; [done|]. intros Ht. apply Hmt. by eapply ty_kept.
    + right; right; right; right; left. destruct H as [? Hs]. split; [done|]. lia.
    + right; right; right; right; right; left. destruct H as (? & ? & He). split_and!; try done. by apply Hemp.
    + destruct H as [? _]. done.
    + destruct H as [? _]. done.
  - destruct (Hbb inst d Hd) as [Hdo|Hok]; [|done]. right. exists inst, d. split; [done|].
    destruct Hbv as [(p & Hp & Ht)|(p & Hp & Ht)]; [left|right]; exists p; (split; [done|]); intros Hc; apply Ht; by eapply ty_kept.
Qed.

Lemma has_dot_pin inst p : has_dot (pin inst p) = true.
Proof. unfold pin. rewrite has_dot_app. apply orb_true_iff. by right. Qed.
Lemma before_dot_nodot a b : has_dot a = false → before_dot (a ++ "." ++ b) = a.
Proof.
  induction a as [|ch a IH]; [done|]. intros H. simpl in H.
  change (String ch a ++ "." ++ b) with (String ch (a ++ "." ++ b)). cbn [before_dot].
  destruct (Ascii.eqb ch "."); [done|]. f_equal. by apply IH.
Qed.
Lemma before_dot_pin inst p : has_dot inst = false → before_dot (pin inst p) = inst.
Proof. apply before_dot_nodot. Qed.

Lemma splice_inv2 C n i C' : splice C n i = Ok C' →
  let q := uid (c_g C) (n ++ reg_suffix ++ pretty i) in
  is_in (ty (c_g C) n) [BbIn; BbOut] = false ∧ is_in (ty (c_g C) clk_name) [BbIn; BbOut] = false ∧
  q ∉ dom (c_g C) ∧ ff_inst n ∉ dom (c_bbs C) ∧
  pin (ff_inst n) "d" ∉ dom (c_g C) ∧ pin (ff_inst n) "clk" ∉ dom (c_g C) ∧ pin (ff_inst n) "q" ∉ dom (c_g C) ∧
  q ≠ pin (ff_inst n) "d" ∧ q ≠ pin (ff_inst n) "clk" ∧ q ≠ pin (ff_inst n) "q" ∧
  c_g C' = spliced (c_g C) n q (pin (ff_inst n) "d") (pin (ff_inst n) "clk") (pin (ff_inst n) "q") ∧
  c_bbs C' = <[ff_inst n := ff_def]> (c_bbs C).
Proof.
  unfold splice. cbv zeta. fold (ff_inst n). set (q := uid (c_g C) (n ++ reg_suffix ++ pretty i)).
  top_if; [done|]. destruct (bool_decide (ff_inst n ∈ dom (c_bbs C))) eqn:Hb; [done|].
  destruct (existsb _ _) eqn:He; [done|].
  destruct (is_in (ty (c_g C) n) [BbIn; BbOut] || is_in (ty (c_g C) clk_name) [BbIn; BbOut]) eqn:Hg; [done|].
  intros [= <-]. simpl.
  simpl in He. rewrite !orb_false_iff in He. destruct He as (E1 & E2 & E3 & _).
  apply bool_decide_eq_false in E1, E2, E3, Hb. apply orb_false_iff in Hg as [G1 G2].
  rewrite dom_insert_L, dom_reroute in E1, E2, E3.
  assert (Hq : q ∉ dom (c_g C)) by apply uid_fresh.
  split_and!; try done; first [clear -E1; set_solver|clear -E2; set_solver|clear -E3; set_solver].
Qed.

Lemma spliced_lookup g n q pd pc pq x :
  spliced g n q pd pc pq !! x =
    if decide (x = pd) then Some (mk_node BbIn false {[n]}) else
    if decide (x = pc) then Some (mk_node BbIn false {[clk_name]}) else
    if decide (x = pq) then Some (mk_node BbOut false ∅) else
    if decide (x = q) then Some (mk_node Buf false {[pq]}) else
    (λ j, if bool_decide (x ∈ fanout g n) then upd_fi (λ s, {[q]} ∪ s ∖ {[n]}) j else j) <$> g !! x.
Proof.
  unfold spliced. destruct (decide (x = pd)) as [->|?]; [by rewrite lookup_insert|]. rewrite lookup_insert_ne by done.
  destruct (decide (x = pc)) as [->|?]; [by rewrite lookup_insert|]. rewrite lookup_insert_ne by done.
  destruct (decide (x = pq)) as [->|?]; [by rewrite lookup_insert|]. rewrite lookup_insert_ne by done.
  destruct (decide (x = q)) as [->|?]; [by rewrite lookup_insert|]. rewrite lookup_insert_ne by done.
  apply lookup_reroute.
Qed.

Lemma splice_lint C n i C' : closed (c_g C) → n ∈ dom (c_g C) → clk_name ∈ dom (c_g C) → has_dot n = false →
  lint_clean C → splice C n i = Ok C' → lint_clean C'.
Proof.
  intros Hcl Hn Hclk Hnd Hl Hs.
  destruct (splice_inv2 C n i C' Hs) as (Gn & Gc & Hq & Hinst & Pd & Pc & Pq & N1 & N2 & N3 & Hg' & Hb').
  set (g := c_g C) in *. set (q := uid g (n ++ reg_suffix ++ pretty i)) in *. set (inst := ff_inst n) in *.
  set (pd := pin inst "d") in *. set (pc := pin inst "clk") in *. set (pq := pin inst "q") in *.
  assert (Ndc : pd ≠ pc) by (intros E%pin_port_inj; done). assert (Nqc : pq ≠ pc) by (intros E%pin_port_inj; done).
  assert (Nqd : pq ≠ pd) by (intros E%pin_port_inj; done).
  destruct (spliced_spec g n q pd pc pq Hcl Hn Hclk Hq Pd Pc Pq N1 N2 N3) as (Hcl' & Hat & _); [done..|].
  assert (Hidot : has_dot inst = false) by (unfold inst, ff_inst; rewrite has_dot_app, Hnd; done).
  assert (Hbd : dom (c_bbs C') = {[inst]} ∪ dom (c_bbs C)) by (rewrite Hb'; apply dom_insert_L).
  assert (Hold : ∀ x, x ∈ dom g → x ≠ q ∧ x ≠ pc ∧ x ≠ pd ∧ x ≠ pq) by (intros x Hx; split_and!; intros ->; done).
  assert (Hlko : ∀ x, x ∈ dom g → c_g C' !! x = (λ j, if bool_decide (x ∈ fanout g n) then upd_fi (λ s, {[q]} ∪ s ∖ {[n]}) j else j) <$> g !! x).
  { intros x Hx. destruct (Hold x Hx) as (? & ? & ? & ?). rewrite Hg', spliced_lookup. by rewrite !decide_False. }
  assert (Hnew : ∀ x, g !! x = None → is_Some (c_g C' !! x) → x = pd ∨ x = pc ∨ x = pq ∨ x = q).
  { intros x Hx. rewrite Hg', spliced_lookup. repeat (case_decide; [tauto|]). rewrite Hx. by intros [? ?]. }
  assert (Tn : ty g n ≠ Some BbOut ∧ ty g clk_name ≠ Some BbOut).
  { split; intros E; [rewrite E in Gn|rewrite E in Gc]; vm_compute in Gn, Gc; done. }
  destruct Tn as [Tn Tc].
  apply (lint_preserved_gen C C'); try done.
  - rewrite Hbd. clear. set_solver.
  - intros i0 d. rewrite Hb'. destruct (decide (i0 = inst)) as [->|Hne]; [|rewrite lookup_insert_ne by done; by left].
    rewrite lookup_insert. intros [= <-]. right. fold g.
    assert (Tpd : ty (c_g C') pd = Some BbIn) by (unfold ty; rewrite Hg', spliced_lookup, decide_True; done).
    assert (Tpc : ty (c_g C') pc = Some BbIn) by (unfold ty; rewrite Hg', spliced_lookup, decide_False, decide_True; done).
    assert (Tpq : ty (c_g C') pq = Some BbOut) by (unfold ty; rewrite Hg', spliced_lookup, decide_False, decide_False, decide_True; done).
    intros [(p & Hp & Ht)|(p & Hp & Ht)]; simpl in Hp.
    + apply elem_of_union in Hp as [Hp|Hp]; apply elem_of_singleton in Hp; subst p; done.
    + apply elem_of_singleton in Hp; subst p; done.
  - rewrite Hg'. by apply same_attrs_kept.
  - intros x j j' Hx Hx'. fold g in Hx. assert (Hnin : q ∉ n_fi j) by exact (closed_not_in g q x j Hcl Hq Hx).
    rewrite Hlko, Hx in Hx' by (apply elem_of_dom; eauto). simpl in Hx'.
    case_bool_decide as HxL; [|by simplify_eq]. apply elem_of_fanout in HxL as (j2 & Hj2 & Hin).
    assert (j2 = j) as -> by congruence. assert (j' = upd_fi (λ s, {[q]} ∪ s ∖ {[n]}) j) as -> by congruence. simpl. split.
    + split; intros He; exfalso; [clear -He|clear -He Hin]; set_solver.
    + intros Hsz. rewrite size_union by (clear -Hin Hnin; set_solver).
      rewrite size_difference by (clear -Hin; set_solver). rewrite !size_singleton. lia.
  - intros x j Hx Hty. fold g in Hx |- *. apply set_eq. intros y. rewrite !elem_of_fanout.
    assert (Hxd : x ∈ dom g) by (apply elem_of_dom; eauto). destruct (Hold x Hxd) as (X1 & X2 & X3 & X4).
    assert (Hxn : x ≠ n) by (intros ->; apply Tn; unfold ty; rewrite Hx; simpl; by rewrite Hty).
    assert (Hxc : x ≠ clk_name) by (intros ->; apply Tc; unfold ty; rewrite Hx; simpl; by rewrite Hty).
    rewrite Hg', spliced_lookup.
    destruct (decide (y = pd)) as [->|Y1].
    { split; [intros (? & [= <-] & Hin); simpl in Hin; clear -Hin Hxn; set_solver|]. intros (? & Hy & _). exfalso. apply Pd. apply elem_of_dom. eauto. }
    destruct (decide (y = pc)) as [->|Y2].
    { split; [intros (? & [= <-] & Hin); simpl in Hin; clear -Hin Hxc; set_solver|]. intros (? & Hy & _). exfalso. apply Pc. apply elem_of_dom. eauto. }
    destruct (decide (y = pq)) as [->|Y3].
    { split; [intros (? & [= <-] & Hin); simpl in Hin; clear -Hin; set_solver|]. intros (? & Hy & _). exfalso. apply Pq. apply elem_of_dom. eauto. }
    destruct (decide (y = q)) as [->|Y4].
    { split; [intros (? & [= <-] & Hin); simpl in Hin; clear -Hin X4; set_solver|]. intros (? & Hy & _). exfalso. apply Hq. apply elem_of_dom. eauto. }
    destruct (g !! y) as [jy|] eqn:Hy; simpl; [|split; by intros (? & ? & _)].
    case_bool_decide; [|done]. split; intros (? & [= <-] & Hin); eexists; (split; [done|]); simpl in *; clear -Hin Hxn X1; set_solver.
  - intros x i' Hx Hx'. fold g in Hx. destruct (Hnew x Hx (mk_is_Some _ _ Hx')) as [->|[->|[->| ->]]];
      rewrite Hg', spliced_lookup in Hx'.
    + rewrite decide_True in Hx' by done. simplify_eq. unfold node_violates. cbn [n_ty n_fi n_out mk_node].
      intros [H|[H|[H|[H|[H|[H|[H|H]]]]]]].
      * apply H. unfold doc_supported. clear. set_solver.
      * destruct H as [_ H]. apply H. unfold pd. rewrite before_dot_pin by done. rewrite Hbd. clear. set_solver.
      * destruct H as [H _]. unfold doc_no_fanin in H. clear -H. set_solver.
      * destruct H as [H _]. done.
      * destruct H as [_ H]. rewrite size_singleton in H. lia.
      * destruct H as (_ & _ & H). clear -H. set_solver.
      * destruct H as [H _]. done.
      * destruct H as [H _]. done.
    + rewrite decide_False, decide_True in Hx' by done. simplify_eq. unfold node_violates. cbn [n_ty n_fi n_out mk_node].
      intros [H|[H|[H|[H|[H|[H|[H|H]]]]]]].
      * apply H. unfold doc_supported. clear. set_solver.
      * destruct H as [_ H]. apply H. unfold pc. rewrite before_dot_pin by done. rewrite Hbd. clear. set_solver.
      * destruct H as [H _]. unfold doc_no_fanin in H. clear -H. set_solver.
      * destruct H as [H _]. done.
      * destruct H as [_ H]. rewrite size_singleton in H. lia.
      * destruct H as (_ & _ & H). clear -H. set_solver.
      * destruct H as [H _]. done.
      * destruct H as [H _]. done.
    + rewrite decide_False, decide_False, decide_True in Hx' by done. simplify_eq. unfold node_violates. cbn [n_ty n_fi n_out mk_node].
      assert (Hfo : ∀ y, y ∈ fanout (c_g C') pq → y = q).
      { intros y (jy & Hy & Hin)%elem_of_fanout. rewrite Hg', spliced_lookup in Hy.
        destruct (decide (y = pd)); [simplify_eq; simpl in Hin; apply elem_of_singleton in Hin; exfalso; apply Pq; by rewrite Hin|].
        destruct (decide (y = pc)); [simplify_eq; simpl in Hin; apply elem_of_singleton in Hin; exfalso; apply Pq; by rewrite Hin|].
        destruct (decide (y = pq)); [simplify_eq; simpl in Hin; clear -Hin; set_solver|].
        destruct (decide (y = q)); [done|]. exfalso.
        destruct (g !! y) as [j0|] eqn:Hj0; [|done].
        assert (Hpqn : pq ∉ n_fi j0) by exact (closed_not_in g pq y j0 Hcl Pq Hj0).
        simpl in Hy. case_bool_decide; simplify_eq; simpl in Hin; try done.
        clear -Hin Hpqn N3. set_solver. }
      intros [H|[H|[H|[H|[H|[H|[H|H]]]]]]].
      * apply H. unfold doc_supported. clear. set_solver.
      * destruct H as [_ H]. apply H. unfold pq. rewrite before_dot_pin by done. rewrite Hbd. clear. set_solver.
      * destruct H as [_ H]. done.
      * destruct H as [_ [H|(m & Hm & Hmt)]].
        -- assert (size (fanout (c_g C') pq) ≤ size ({[q]} : gset string)) as Hle.
           { apply subseteq_size. intros y Hy. apply elem_of_singleton. by apply Hfo. }
           rewrite size_singleton in Hle. lia.
        -- apply Hfo in Hm. subst m. apply Hmt. unfold ty. rewrite Hg', spliced_lookup.
           rewrite (decide_False (P := q = pd)), (decide_False (P := q = pc)), (decide_False (P := q = pq)), decide_True by done. done.
      * destruct H as [H _]. unfold doc_single in H. clear -H. set_solver.
      * destruct H as (_ & H & _). unfold doc_single, doc_multi in H. clear -H. set_solver.
      * destruct H as [H _]. done.
      * destruct H as [H _]. done.
    + rewrite (decide_False (P := q = pd)), (decide_False (P := q = pc)), (decide_False (P := q = pq)), decide_True in Hx' by done.
      simplify_eq. unfold node_violates. cbn [n_ty n_fi n_out mk_node].
      intros [H|[H|[H|[H|[H|[H|[H|H]]]]]]].
      * apply H. unfold doc_supported. clear. set_solver.
      * destruct H as [Hd H]. apply H. apply (helper_name_ok g (dom (c_bbs C')) n reg_suffix i); [done| |done]. intros E. congruence.
      * destruct H as [H _]. unfold doc_no_fanin in H. clear -H. set_solver.
      * destruct H as [H _]. done.
      * destruct H as [_ H]. rewrite size_singleton in H. lia.
      * destruct H as (_ & _ & H). clear -H. set_solver.
      * destruct H as [H _]. done.
      * destruct H as [H _]. done.
Qed.

(* ------------------------------------------------------------------ all flops, the clock input, the whole function *)
Lemma splice_all_lint sel : ∀ C C', closed (c_g C) → clk_name ∈ dom (c_g C) →
  (∀ p, p ∈ sel → p.1 ∈ dom (c_g C) ∧ has_dot p.1 = false) → lint_clean C → splice_all C sel = Ok C' → lint_clean C'.
Proof.
  induction sel as [|[n i] rest IH]; intros C C' Hcl Hclk Hsel Hl; unfold splice_all; simpl; [by intros [= <-]|].
  destruct (splice C n i) as [C1| | |] eqn:Hs.
  2-4: intros H; exfalso; by eapply (foldl_rbind_fail (λ x p, splice x p.1 p.2)) in H.
  fold (splice_all C1 rest). destruct (Hsel (n, i)) as [Hn Hnd]; [left|]. simpl in Hn, Hnd.
  destruct (splice_closed C n i C1 Hcl Hn Hclk Hs) as [Hcl1 Hd1].
  intros Hrest. apply (IH C1 C' Hcl1); [by apply Hd1| |exact (splice_lint C n i C1 Hcl Hn Hclk Hnd Hl Hs)|done].
  intros p Hp. destruct (Hsel p) as [? ?]; [by right|]. split; [by apply Hd1|done].
Qed.

Lemma with_clk_lint C : closed (c_g C) → lint_clean C → lint_clean (with_g C (with_clk (c_g C))).
Proof.
  intros Hcl Hl. unfold with_clk. case_bool_decide as Hc; [by rewrite with_g_eta|].
  assert (Hnone : c_g C !! clk_name = None) by (by apply not_elem_of_dom).
  apply (lint_preserved_gen C); simpl; try done.
  - intros inst d Hd. by left.
  - intros x i Hx. exists i. split; [|done]. rewrite lookup_insert_ne; [done|]. intros <-. congruence.
  - intros x i i' Hx Hx'. rewrite lookup_insert_ne in Hx' by (intros <-; congruence). by simplify_eq.
  - intros x i Hx Hty. apply set_eq. intros y. rewrite !elem_of_fanout. destruct (decide (y = clk_name)) as [->|Hne].
    + rewrite lookup_insert, Hnone. split; [intros (? & [= <-] & Hin); simpl in Hin; clear -Hin; set_solver|by intros (? & ? & _)].
    + by rewrite lookup_insert_ne.
  - intros x i' Hx Hx'. destruct (decide (x = clk_name)) as [->|Hne]; [|rewrite lookup_insert_ne in Hx' by done; congruence].
    rewrite lookup_insert in Hx'. simplify_eq. unfold node_violates. cbn [n_ty n_fi n_out mk_node].
    intros [H|[H|[H|[H|[H|[H|[H|H]]]]]]].
    + apply H. unfold doc_supported. clear. set_solver.
    + destruct H as [H _]. done.
    + destruct H as [_ H]. done.
    + destruct H as [H _]. done.
    + destruct H as [H _]. unfold doc_single in H. clear -H. set_solver.
    + destruct H as (_ & H & _). unfold doc_single, doc_multi in H. clear -H. set_solver.
    + destruct H as [H _]. done.
    + destruct H as [H _]. done.
Qed.

Theorem insert_registers_lint C s order C' : closed (c_g C) → bb_free C → lint_clean C →
  insert_registers C s order = Ok C' → lint_clean C'.
Proof.
  intros Hcl Hbb Hl. unfold insert_registers. cbv zeta. fold (with_clk (c_g C)).
  destruct (bool_decide (NoDup order) && bool_decide (list_to_set order = dom (c_g C))) eqn:Hord; [|done]. cbn [negb].
  top_if; [done|].
  destruct (reg_selection (c_g C) s order) as [sel| | |] eqn:Hsel; try done. simpl. intros Hsp.
  apply andb_true_iff in Hord as [_ Hord]. apply bool_decide_eq_true in Hord.
  destruct (with_clk_spec (c_g C) Hcl) as (Hcl1 & Hclk & Hd1 & _).
  apply (splice_all_lint sel (with_g C (with_clk (c_g C))) C'); simpl; try done; [|by apply with_clk_lint].
  intros p Hp. assert (Hpd : p.1 ∈ dom (c_g C)).
  { rewrite <- Hord. apply elem_of_list_to_set. by eapply reg_selection_in. }
  split; [by apply Hd1|]. apply elem_of_dom in Hpd as [j Hj].
  destruct (has_dot p.1) eqn:Hdot; [|done]. exfalso.
  pose proof (lint_clean_name C p.1 j Hl Hj Hdot) as Hin. rewrite Hbb in Hin. clear -Hin. set_solver.
Qed.
