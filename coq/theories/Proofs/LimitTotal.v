(* C05: the run validators accept SOME step list for every well-formed circuit (the while loops terminate and no
   call inside them is rejected), so the theorems about accepted runs are not vacuous for any such input. *)
From stdpp Require Import strings gmap sets fin_sets pretty.
From CG Require Import Fold Model.Limit Proofs.LintProofs Proofs.LimitProofs Proofs.LimitLint.
Open Scope string_scope.

(* ------------------------------------------------------------------ the node loop, generically *)
Definition visited (st : lstate) : gset string :=
  ls_done st ∪ match ls_cur st with Some (n, _) => {[n]} | None => ∅ end.
Lemma next_index_ok st n : (n ∉ visited st ∨ ∃ i, ls_cur st = Some (n, i)) →
  ∃ i st', next_index st n = Some (i, st') ∧ (∃ j, ls_cur st' = Some (n, j)) ∧ visited st' = visited st ∪ {[n]}.
Proof.
  unfold next_index, visited. destruct (ls_cur st) as [[n' i']|] eqn:Hc.
  - destruct (decide (n = n')) as [->|Hne].
    + intros _. eexists _, _. split; [done|]. simpl. split; [eauto|]. set_solver.
    + intros [Hv|[i [= -> _]]]; [|done]. destruct (decide (n ∈ ls_done st)) as [Hd|Hd]; [set_solver|].
      eexists _, _. split; [done|]. simpl. split; [eauto|]. set_solver.
  - intros _. eexists _, _. split; [done|]. simpl. split; [eauto|]. set_solver.
Qed.

Section loop.
  Context (k : nat).
  Context (stepf : circuit → nat → string → string → string → nat → res circuit).
  Context (stepsf : circuit → nat → lstate → list step3 → res circuit).
  Context (measure : circuit → string → nat) (I : circuit → Prop).
  Hypothesis steps_nil : ∀ c st, (∀ x, x ∈ dom c → measure c x ≤ k) → stepsf c k st [] = Ok c.
  Hypothesis steps_cons : ∀ c st n f0 f1 rest, stepsf c k st ((n, f0, f1) :: rest) =
    match next_index st n with None => BadOrder | Some (i, st') =>
      rbind (stepf c k n f0 f1 i) (λ c', stepsf c' k st' rest) end.
  Hypothesis progress : ∀ c n i, I c → n ∈ dom c → k < measure c n →
    ∃ f0 f1 c', stepf c k n f0 f1 i = Ok c' ∧ I c' ∧ dom c ⊆ dom c' ∧ S (measure c' n) = measure c n ∧
      (∀ x, x ∈ dom c → x ≠ n → measure c' x = measure c x) ∧ (∀ x, x ∈ dom c' → x ∉ dom c → measure c' x ≤ k).

  Lemma phase n : ∀ e c st, I c → n ∈ dom c → measure c n = k + e → (n ∉ visited st ∨ ∃ i, ls_cur st = Some (n, i)) →
    ∃ steps c' st', (∀ rest, stepsf c k st (steps ++ rest) = stepsf c' k st' rest) ∧ I c' ∧ dom c ⊆ dom c' ∧
      measure c' n = k ∧ (∀ x, x ∈ dom c → x ≠ n → measure c' x = measure c x) ∧
      (∀ x, x ∈ dom c' → x ∉ dom c → measure c' x ≤ k) ∧ visited st' ⊆ visited st ∪ {[n]}.
  Proof.
    induction e as [|e IH]; intros c st HI Hn Hm Hst.
    - exists [], c, st. split_and!; try done; [lia|set_solver].
    - destruct (next_index_ok st n Hst) as (i & st1 & Hni & Hcur & Hvis).
      destruct (progress c n i HI Hn) as (f0 & f1 & c1 & Hs & HI1 & Hd1 & Hm1 & Ho1 & Hn1); [lia|].
      destruct (IH c1 st1 HI1) as (steps & c' & st' & Heq & HI' & Hd' & Hmn & Ho' & Hn' & Hv'); [by apply Hd1|lia|by right|].
      exists ((n, f0, f1) :: steps), c', st'. split_and!; try done.
      + intros rest. simpl. rewrite steps_cons, Hni, Hs. simpl. apply Heq.
      + by etrans.
      + intros x Hx Hxn. rewrite Ho' by (try done; by apply Hd1). by apply Ho1.
      + intros x Hx Hxc. destruct (decide (x ∈ dom c1)) as [Hx1|Hx1]; [|by apply Hn'].
        destruct (decide (x = n)) as [->|Hxn]; [done|]. rewrite Ho' by done. by apply Hn1.
      + rewrite Hvis in Hv'. clear -Hv'. set_solver.
  Qed.

  Lemma all_nodes : ∀ l c st, I c → NoDup l → (∀ x, x ∈ l → x ∈ dom c ∧ x ∉ visited st) →
    (∀ x, x ∈ dom c → x ∉ l → measure c x ≤ k) → ∃ steps c', stepsf c k st steps = Ok c' ∧ I c'.
  Proof.
    induction l as [|n l IH]; intros c st HI Hnd Hl Hrest.
    - exists [], c. split; [|done]. apply steps_nil. intros x Hx. apply Hrest; [done|]. by intros ?%elem_of_nil.
    - apply NoDup_cons in Hnd as [Hnl Hnd]. destruct (Hl n) as [Hn Hnv]; [left|].
      destruct (decide (measure c n ≤ k)) as [Hle|Hgt].
      + apply (IH c st); try done.
        * intros x Hx. apply Hl. by right.
        * intros x Hx Hxl. destruct (decide (x = n)) as [->|Hne]; [done|]. apply Hrest; [done|]. set_solver.
      + destruct (phase n (measure c n - k) c st HI Hn) as (s1 & c1 & st1 & Heq & HI1 & Hd1 & Hmn & Ho1 & Hn1 & Hv1); [lia|by left|].
        destruct (IH c1 st1 HI1 Hnd) as (s2 & c' & Hs2 & HI').
        * intros x Hx. destruct (Hl x) as [Hxd Hxv]; [by right|]. split; [by apply Hd1|].
          intros Hin. apply Hv1 in Hin. apply elem_of_union in Hin as [?|Hs]; [done|]. apply elem_of_singleton in Hs. by subst.
        * intros x Hx Hxl. destruct (decide (x ∈ dom c)) as [Hxc|Hxc]; [|by apply Hn1].
          destruct (decide (x = n)) as [->|Hne]; [lia|]. rewrite Ho1 by done. apply Hrest; [done|]. set_solver.
        * exists (s1 ++ s2)%list, c'. split; [|done]. rewrite Heq. done.
  Qed.

  Lemma run_exists c : I c → ∃ steps c', stepsf c k ls_init steps = Ok c' ∧ I c'.
  Proof.
    intros HI. apply (all_nodes (elements (dom c)) c ls_init HI); [apply NoDup_elements| |].
    - intros x Hx%elem_of_elements. split; [done|]. unfold visited, ls_init. simpl. set_solver.
    - intros x Hx Hnx. exfalso. apply Hnx. by apply elem_of_elements.
  Qed.
End loop.

(* ------------------------------------------------------------------ facts used by both instances *)
Lemma two_elems (X : gset string) : 2 ≤ size X → ∃ a b, a ≠ b ∧ a ∈ X ∧ b ∈ X.
Proof.
  intros Hs. destruct (size_pos_elem_of X) as [a Ha]; [lia|].
  destruct (size_pos_elem_of (X ∖ {[a]})) as [b Hb].
  { rewrite size_difference by set_solver. rewrite size_singleton. lia. }
  exists a, b. set_solver.
Qed.
Lemma starts_digit_app n s : n ≠ "" → starts_digit (n ++ s) = starts_digit n.
Proof. by destruct n. Qed.
Lemma app_nonempty n s : n ≠ "" → n ++ s ≠ "".
Proof. by destruct n. Qed.

Definition good_names (c : circuit) : Prop := ∀ n, n ∈ dom c → n ≠ "" ∧ starts_digit n = false.
Definition no_bbin_driver (c : circuit) : Prop := ∀ n i f, c !! n = Some i → f ∈ n_fi i → ty c f ≠ Some BbIn.
(* well-formed: the networkx invariant, lint-clean, names that `add` accepts, and no edge out of a bb_input
   (`connect` rejects such edges; lint does not look at them) *)
Definition wf (C : Circuit) (c : circuit) : Prop :=
  closed c ∧ lint_clean (with_g C c) ∧ good_names c ∧ no_bbin_driver c.

Lemma lint_node C c n inf : lint_clean (with_g C c) → c !! n = Some inf → ¬ node_violates (with_g C c) default_flags n inf.
Proof. rewrite lint_clean_iff. intros Hl Hn Hv. apply Hl. left. eauto. Qed.
Lemma lint_multi C c n inf : lint_clean (with_g C c) → c !! n = Some inf → 1 < size (n_fi inf) → n_ty inf ∈ six.
Proof.
  intros Hl Hn Hs. pose proof (lint_node C c n inf Hl Hn) as Hv. unfold node_violates in Hv.
  assert (Hne : n_fi inf ≠ ∅) by (intros He; rewrite He, size_empty in Hs; lia).
  unfold six. destruct (n_ty inf) eqn:Et; try (clear; set_solver); exfalso; apply Hv.
  all: first [ left; unfold doc_supported; clear; set_solver
             | right; right; left; split; [unfold doc_no_fanin; clear; set_solver|done]
             | right; right; right; right; left; split; [unfold doc_single; clear; set_solver|done] ].
Qed.
Lemma lint_bbout_load C c f j n inf : lint_clean (with_g C c) → c !! f = Some j → n_ty j = BbOut →
  c !! n = Some inf → f ∈ n_fi inf → n_ty inf = Buf.
Proof.
  intros Hl Hf Ht Hn Hin. pose proof (lint_node C c f j Hl Hf) as Hv. unfold node_violates in Hv.
  destruct (decide (n_ty inf = Buf)) as [|Hnb]; [done|]. exfalso. apply Hv. right; right; right; left.
  split; [done|]. right. exists n. split; [simpl; apply elem_of_fanout; eauto|]. simpl. unfold ty. rewrite Hn. simpl. congruence.
Qed.
Lemma tables_is_multi T t : limit_tables_ok T = true → t ∈ six → is_multi (base_op t) = true.
Proof.
  unfold limit_tables_ok. rewrite !andb_true_iff. intros (((((((_ & _) & Hp) & _) & _) & _) & _) & _) Ht.
  apply bool_decide_eq_true in Hp. unfold is_multi. apply bool_decide_eq_true. rewrite Hp.
  unfold six in *. rewrite !elem_of_cons, elem_of_nil in Ht. destruct Ht as [->|[->|[->|[->|[->|[->|[]]]]]]]; simpl; set_solver.
Qed.

Lemma same_attrs_ty_inv c c' f t : same_attrs c c' → ty c' f = Some t → ty c f = Some t ∨ c !! f = None.
Proof.
  intros H Ht. specialize (H f). unfold ty in *. destruct (c !! f) as [i|]; [|by right]. left.
  destruct H as (i' & Hi' & Hty & _). rewrite Hi' in Ht. simpl in *. congruence.
Qed.
Lemma uid_name_ok c n s : n ≠ "" → starts_digit n = false → uid c (n ++ s) ≠ "" ∧ starts_digit (uid c (n ++ s)) = false.
Proof.
  intros Hn Hd. destruct (uid_shape c (n ++ s)) as (tail & -> & _). rewrite !str_app_assoc.
  split; [by apply app_nonempty|]. by rewrite starts_digit_app.
Qed.
Lemma is_in_bb_false c f : f ∈ dom c → ty c f ≠ Some BbIn → ty c f ≠ Some BbOut → is_in (ty c f) [BbIn; BbOut] = false.
Proof.
  intros [j Hj]%elem_of_dom H1 H2. unfold ty in *. rewrite Hj in *. simpl in *. apply bool_decide_eq_false.
  rewrite !elem_of_cons, elem_of_nil. intros [E|[E|[]]]; rewrite E in *; done.
Qed.

(* ------------------------------------------------------------------ limit_fanin *)
Lemma fanin_progress T C k : limit_tables_ok T = true → 2 ≤ k → ∀ c n i, wf C c → n ∈ dom c → k < size (fanin c n) →
  ∃ f0 f1 c', fanin_step T c k n f0 f1 i = Ok c' ∧ wf C c' ∧ dom c ⊆ dom c' ∧ S (size (fanin c' n)) = size (fanin c n) ∧
    (∀ x, x ∈ dom c → x ≠ n → size (fanin c' x) = size (fanin c x)) ∧ (∀ x, x ∈ dom c' → x ∉ dom c → size (fanin c' x) ≤ k).
Proof.
  intros HT Hk c n i (Hcl & Hl & Hgn & Hnb) Hn Hsz. apply elem_of_dom in Hn as [inf Hn].
  assert (Hfi : fanin c n = n_fi inf) by (unfold fanin; by rewrite Hn). rewrite Hfi in *.
  destruct (two_elems (n_fi inf)) as (f0 & f1 & Hne & H0 & H1); [lia|].
  assert (Hsix : n_ty inf ∈ six) by (eapply lint_multi; eauto; lia).
  destruct (Hgn n) as [Hnn Hnd]; [apply elem_of_dom; eauto|].
  set (m := uid c (n ++ t_in_suffix T ++ pretty i)).
  destruct (uid_name_ok c n (t_in_suffix T ++ pretty i) Hnn Hnd) as [Hmn Hmd]. fold m in Hmn, Hmd.
  assert (Hbb : ∀ f, f ∈ n_fi inf → is_in (ty c f) [BbIn; BbOut] = false).
  { intros f Hf. apply is_in_bb_false; [by eapply Hcl|by eapply Hnb|].
    intros Ht. unfold ty in Ht. destruct (c !! f) as [j|] eqn:Hj; [|done]. simpl in Ht.
    assert (Hjt : n_ty j = BbOut) by congruence.
    pose proof (lint_bbout_load C c f j n inf Hl Hj Hjt Hn Hf) as Hb. rewrite Hb in Hsix. clear -Hsix. unfold six in Hsix. set_solver. }
  assert (Hs : fanin_step T c k n f0 f1 i = Ok (regrouped c n inf (base_op (n_ty inf)) m f0 f1)).
  { unfold fanin_step. rewrite Hn. rewrite (proj2 (Nat.ltb_lt _ _) Hsz). cbn [negb].
    rewrite (bool_decide_eq_false_2 _ Hne), (bool_decide_eq_true_2 _ H0), (bool_decide_eq_true_2 _ H1). cbn [negb orb].
    destruct (tables_parts T HT) as (Hgm & _). rewrite (Hgm _ Hsix), (tables_is_multi T _ HT Hsix). cbn [negb].
    fold m. rewrite Hmd. cbn [existsb]. rewrite (Hbb f0 H0), (Hbb f1 H1). done. }
  eexists f0, f1, _. split; [exact Hs|].
  assert (Hm : m ∉ dom c) by apply uid_fresh.
  destruct (regrouped_spec c n inf m f0 f1 Hcl Hn Hne H0 H1 Hm Hsix) as (Hcl' & Hat & _).
  assert (Hnm : n ≠ m) by (intros E; apply Hm; rewrite <- E; apply elem_of_dom; eauto).
  assert (Hmfi : m ∉ n_fi inf) by exact (closed_not_in c m n inf Hcl Hm Hn).
  assert (Hlk : ∀ x, x ≠ m → x ≠ n → regrouped c n inf (base_op (n_ty inf)) m f0 f1 !! x = c !! x).
  { intros x X1 X2. unfold regrouped. by rewrite !lookup_insert_ne. }
  assert (Hlkn : regrouped c n inf (base_op (n_ty inf)) m f0 f1 !! n = Some (upd_fi (λ s, {[m]} ∪ s ∖ {[f0; f1]}) inf)).
  { unfold regrouped. rewrite lookup_insert_ne by done. apply lookup_insert. }
  assert (Hlkm : regrouped c n inf (base_op (n_ty inf)) m f0 f1 !! m = Some (mk_node (base_op (n_ty inf)) false {[f0; f1]})).
  { unfold regrouped. apply lookup_insert. }
  assert (Hdom : dom (regrouped c n inf (base_op (n_ty inf)) m f0 f1) = {[m]} ∪ dom c).
  { unfold regrouped. rewrite !dom_insert_L. assert (n ∈ dom c) by (apply elem_of_dom; eauto). clear -H. set_solver. }
  split_and!.
  - split_and!; [done|exact (fanin_step_lint T C c k n f0 f1 i _ HT Hcl Hl Hs)| |].
    + intros x. rewrite Hdom, elem_of_union, elem_of_singleton. intros [->|Hx]; [done|by apply Hgn].
    + intros x j f Hx Hf Hty.
      assert (Hfm : f ≠ m).
      { intros ->. unfold ty in Hty. rewrite Hlkm in Hty. simpl in Hty.
        assert (Hbt : base_op (n_ty inf) = BbIn) by congruence.
        clear -Hsix Hbt. unfold six in Hsix. rewrite !elem_of_cons, elem_of_nil in Hsix.
        destruct Hsix as [E|[E|[E|[E|[E|[E|[]]]]]]]; rewrite E in Hbt; done. }
      destruct (same_attrs_ty_inv _ _ f _ Hat Hty) as [Htc|Hnone].
      2:{ destruct (decide (x = m)) as [->|Hxm]; [rewrite Hlkm in Hx; simplify_eq; simpl in Hf|].
          - assert (f ∈ dom c) by (eapply Hcl; eauto; clear -Hf H0 H1; set_solver). by apply not_elem_of_dom in Hnone.
          - destruct (decide (x = n)) as [->|Hxn]; [rewrite Hlkn in Hx; simplify_eq; simpl in Hf|rewrite Hlk in Hx by done].
            + assert (f ∈ dom c) by (eapply Hcl; eauto; clear -Hf Hfm; set_solver). by apply not_elem_of_dom in Hnone.
            + assert (f ∈ dom c) by (eapply Hcl; eauto). by apply not_elem_of_dom in Hnone. }
      destruct (decide (x = m)) as [->|Hxm]; [rewrite Hlkm in Hx; simplify_eq; simpl in Hf|].
      { eapply (Hnb n inf f); eauto. clear -Hf H0 H1. set_solver. }
      destruct (decide (x = n)) as [->|Hxn]; [rewrite Hlkn in Hx; simplify_eq; simpl in Hf|rewrite Hlk in Hx by done].
      { eapply (Hnb n inf f); eauto. clear -Hf Hfm. set_solver. }
      eapply Hnb; eauto.
  - rewrite Hdom. clear. set_solver.
  - assert (Hfn : fanin (regrouped c n inf (base_op (n_ty inf)) m f0 f1) n = {[m]} ∪ n_fi inf ∖ {[f0; f1]}) by (unfold fanin; by rewrite Hlkn).
    rewrite Hfn. rewrite size_union by (clear -Hmfi; set_solver). rewrite size_difference by (clear -H0 H1; set_solver).
    rewrite size_union, !size_singleton by (clear -Hne; set_solver). lia.
  - intros x Hx Hxn. unfold fanin. rewrite Hlk; [done| |done]. intros ->. done.
  - intros x Hx Hxc. rewrite Hdom in Hx. assert (x = m) as -> by (clear -Hx Hxc; set_solver).
    assert (Hfm : fanin (regrouped c n inf (base_op (n_ty inf)) m f0 f1) m = {[f0; f1]}) by (unfold fanin; by rewrite Hlkm).
    rewrite Hfm. rewrite size_union, !size_singleton by (clear -Hne; set_solver). lia.
Qed.

Theorem limit_fanin_total T C k : limit_tables_ok T = true → 2 ≤ k → wf C (c_g C) →
  ∃ steps C', limit_fanin_run_with T C k steps = Ok C'.
Proof.
  intros HT Hk Hwf. unfold limit_fanin_run_with. destruct (tables_parts T HT) as (_ & _ & _ & -> & _).
  rewrite (proj2 (Nat.ltb_ge _ _) Hk).
  destruct (run_exists k (fanin_step T) (fanin_steps T) (λ c x, size (fanin c x)) (wf C)) with (c := c_g C) as (steps & c' & Hs & _).
  - intros c st Hall. simpl. rewrite (proj2 (forallb_forall _ _)); [done|].
    intros [x i] Hin%elem_of_list_In%elem_of_map_to_list. simpl. apply Nat.leb_le.
    specialize (Hall x). unfold fanin in Hall. rewrite Hin in Hall. apply Hall. apply elem_of_dom. eauto.
  - done.
  - intros c n i. by apply fanin_progress.
  - done.
  - exists steps. rewrite Hs. simpl. eauto.
Qed.

(* ------------------------------------------------------------------ limit_fanout *)
Lemma conn_tables : (∀ t, t ∈ conn_no_fanin ↔ t ∈ doc_no_fanin) ∧ (∀ t, t ∈ conn_single_fanin ↔ t ∈ doc_single).
Proof.
  assert (H1 : bool_decide (conn_no_fanin ≡ₚ doc_no_fanin) = true) by (vm_compute; reflexivity).
  assert (H2 : bool_decide (conn_single_fanin ≡ₚ doc_single) = true) by (vm_compute; reflexivity).
  apply bool_decide_eq_true in H1, H2. split; intros t; [by rewrite H1|by rewrite H2].
Qed.

Lemma fanout_buffered c n m (L : gset string) : closed c → n ∈ dom c → m ∉ dom c → L ⊆ fanout c n →
  let c' := buffered c n m Buf L in
  fanout c' n = {[m]} ∪ fanout c n ∖ L ∧ fanout c' m = L ∧ (∀ x, x ≠ n → x ≠ m → fanout c' x = fanout c x).
Proof.
  intros Hcl Hn Hm HL c'.
  assert (Hnm : n ≠ m) by (intros ->; done).
  assert (Hmnone : c !! m = None) by (by apply not_elem_of_dom).
  assert (Hlk : ∀ x, x ≠ m → c' !! x = (λ j, if bool_decide (x ∈ L) then upd_fi (λ s, {[m]} ∪ s ∖ {[n]}) j else j) <$> c !! x).
  { intros x X1. unfold c', buffered. by rewrite lookup_insert_ne, lookup_reroute. }
  assert (Hlkm : c' !! m = Some (mk_node Buf false {[n]})) by apply lookup_insert.
  assert (HLin : ∀ y, y ∈ L → ∃ j, c !! y = Some j ∧ n ∈ n_fi j ∧ m ∉ n_fi j).
  { intros y Hy. apply HL, elem_of_fanout in Hy as (j & Hj & ?). exists j. split_and!; [done..|]. by eapply closed_not_in. }
  split_and!.
  - apply set_eq. intros y. rewrite elem_of_union, elem_of_singleton, elem_of_difference, !elem_of_fanout.
    destruct (decide (y = m)) as [->|Hym].
    { rewrite Hlkm, Hmnone. split; [by left|]. intros _. eexists. split; [done|]. simpl. clear. set_solver. }
    rewrite Hlk by done. destruct (c !! y) as [j|] eqn:Hj; simpl.
    2:{ split; [by intros (? & ? & _)|]. intros [?|[(? & ? & _) _]]; done. }
    case_bool_decide as HyL.
    + destruct (HLin y HyL) as (j' & ? & Hnj & Hmj). simplify_eq. split.
      * intros (? & [= <-] & Hin). simpl in Hin. exfalso. clear -Hin Hnm. set_solver.
      * intros [?|[_ ?]]; done.
    + split.
      * intros (? & [= <-] & Hin). right. split; [eauto|done].
      * intros [?|[(? & [= <-] & Hin) _]]; [done|eauto].
  - apply set_eq. intros y. rewrite elem_of_fanout.
    destruct (decide (y = m)) as [->|Hym].
    { rewrite Hlkm. split.
      - intros (? & [= <-] & Hin). simpl in Hin. exfalso. clear -Hin Hnm. set_solver.
      - intros Hy. destruct (HLin m Hy) as (? & ? & _). congruence. }
    rewrite Hlk by done. split.
    + destruct (c !! y) as [j|] eqn:Hj; simpl; [|by intros (? & ? & _)]. case_bool_decide; [done|].
      intros (? & [= <-] & Hin). exfalso. by eapply (closed_not_in c m y j).
    + intros Hy. destruct (HLin y Hy) as (j & Hj & _ & _). rewrite Hj. simpl. rewrite bool_decide_eq_true_2 by done.
      eexists. split; [done|]. simpl. clear. set_solver.
  - intros x Hxn Hxm. apply set_eq. intros y. rewrite !elem_of_fanout.
    destruct (decide (y = m)) as [->|Hym].
    { rewrite Hlkm, Hmnone. split; [|by intros (? & ? & _)]. intros (? & [= <-] & Hin). simpl in Hin. clear -Hin Hxn. set_solver. }
    rewrite Hlk by done. destruct (c !! y) as [jy|] eqn:Hy; simpl; [|split; by intros (? & ? & _)].
    case_bool_decide; [|done]. split; intros (? & [= <-] & Hin); eexists; (split; [done|]); simpl in *; clear -Hin Hxn Hxm; set_solver.
Qed.

Lemma fanout_progress T C k : limit_tables_ok T = true → 2 ≤ k → ∀ c n i, wf C c → n ∈ dom c → k < size (fanout c n) →
  ∃ f0 f1 c', fanout_step T c k n f0 f1 i = Ok c' ∧ wf C c' ∧ dom c ⊆ dom c' ∧ S (size (fanout c' n)) = size (fanout c n) ∧
    (∀ x, x ∈ dom c → x ≠ n → size (fanout c' x) = size (fanout c x)) ∧ (∀ x, x ∈ dom c' → x ∉ dom c → size (fanout c' x) ≤ k).
Proof.
  intros HT Hk c n i (Hcl & Hl & Hgn & Hnb) Hnd Hsz. pose proof Hnd as Hn. apply elem_of_dom in Hn as [inf Hn].
  destruct (two_elems (fanout c n)) as (f0 & f1 & Hne & H0 & H1); [lia|].
  destruct (Hgn n Hnd) as [Hnn Hndg].
  set (m := uid c (n ++ t_out_suffix T ++ pretty i)).
  destruct (uid_name_ok c n (t_out_suffix T ++ pretty i) Hnn Hndg) as [Hmn Hmd]. fold m in Hmn, Hmd.
  destruct (tables_parts T HT) as (_ & _ & Hh & _).
  destruct conn_tables as [Hcn Hcs].
  assert (Hload : ∀ f, f ∈ fanout c n →
    (is_in (ty c f) conn_no_fanin || (is_in (ty c f) conn_single_fanin && (1 <? size (fanin c f ∖ {[n]}) + 1)%nat)) = false).
  { intros f (j & Hj & Hin)%elem_of_fanout. pose proof (lint_node C c f j Hl Hj) as Hv. unfold node_violates in Hv.
    unfold ty, fanin. rewrite Hj. simpl. apply orb_false_iff. split.
    - apply bool_decide_eq_false. rewrite Hcn. intros Hd. apply Hv. right; right; left. split; [done|]. clear -Hin. set_solver.
    - destruct (bool_decide (n_ty j ∈ conn_single_fanin)) eqn:Eb; [|done]. simpl. apply bool_decide_eq_true in Eb. rewrite Hcs in Eb.
      apply Nat.ltb_ge. assert (size (n_fi j) ≤ 1) as Hle.
      { destruct (decide (1 < size (n_fi j))) as [Hgt|]; [|lia]. exfalso. apply Hv. right; right; right; right; left. done. }
      rewrite size_difference by (clear -Hin; set_solver). rewrite size_singleton. lia. }
  assert (Hnty : is_in (Some (n_ty inf)) [BbIn; BbOut] = false).
  { simpl. apply bool_decide_eq_false. rewrite !elem_of_cons, elem_of_nil. intros [E|[E|[]]].
    - apply elem_of_fanout in H0 as (j & Hj & Hin). eapply (Hnb f0 j n); eauto. unfold ty. rewrite Hn. simpl. by rewrite E.
    - pose proof (lint_node C c n inf Hl Hn) as Hv. apply Hv. unfold node_violates. right; right; right; left.
      split; [done|]. left. simpl. lia. }
  assert (Hs : fanout_step T c k n f0 f1 i = Ok (buffered c n m Buf {[f0; f1]})).
  { unfold fanout_step. rewrite Hn. cbv zeta. rewrite (proj2 (Nat.ltb_lt _ _) Hsz). cbn [negb].
    rewrite (bool_decide_eq_false_2 _ Hne), (bool_decide_eq_true_2 _ H0), (bool_decide_eq_true_2 _ H1). cbn [negb orb].
    rewrite Hh. rewrite bool_decide_eq_true_2 by (clear; set_solver). cbn [negb].
    fold m. rewrite Hmd. cbn [existsb]. rewrite (Hload f0 H0), (Hload f1 H1). cbn [orb]. rewrite Hnty. done. }
  eexists f0, f1, _. split; [exact Hs|].
  assert (Hm : m ∉ dom c) by apply uid_fresh.
  set (L := ({[f0; f1]} : gset string)) in *.
  assert (HL : L ⊆ fanout c n) by (unfold L; clear -H0 H1; set_solver).
  destruct (buffered_spec c n m L Hcl Hnd Hm HL) as (Hcl' & Hat & _).
  destruct (fanout_buffered c n m L Hcl Hnd Hm HL) as (Hfn & Hfm & Hfo).
  assert (Hnm : n ≠ m) by (intros E; by rewrite E in Hnd).
  assert (Hlk : ∀ x, x ≠ m → buffered c n m Buf L !! x = (λ j, if bool_decide (x ∈ L) then upd_fi (λ s, {[m]} ∪ s ∖ {[n]}) j else j) <$> c !! x).
  { intros x X1. unfold buffered. by rewrite lookup_insert_ne, lookup_reroute. }
  assert (Hlkm : buffered c n m Buf L !! m = Some (mk_node Buf false {[n]})) by apply lookup_insert.
  assert (Hdom : dom (buffered c n m Buf L) = {[m]} ∪ dom c).
  { unfold buffered. by rewrite dom_insert_L, dom_reroute. }
  assert (Hmfo : m ∉ fanout c n).
  { intros (j & Hj & _)%elem_of_fanout. apply Hm. apply elem_of_dom. eauto. }
  split_and!.
  - split_and!; [done|exact (fanout_step_lint T C c k n f0 f1 i _ HT Hcl Hl Hs)| |].
    + intros x. rewrite Hdom, elem_of_union, elem_of_singleton. intros [->|Hx]; [done|by apply Hgn].
    + intros x j f Hx Hf Hty.
      assert (Hfm' : f ≠ m). { intros ->. unfold ty in Hty. rewrite Hlkm in Hty. done. }
      assert (Htc : ty c f = Some BbIn).
      { destruct (same_attrs_ty_inv _ _ f _ Hat Hty) as [|Hnone]; [done|]. exfalso.
        assert (f ∈ dom (buffered c n m Buf L)) as Hfd by (eapply Hcl'; eauto). rewrite Hdom in Hfd.
        apply not_elem_of_dom in Hnone. clear -Hfd Hnone Hfm'. set_solver. }
      destruct (decide (x = m)) as [->|Hxm].
      { rewrite Hlkm in Hx. simplify_eq. simpl in Hf. apply elem_of_singleton in Hf. subst f.
        apply elem_of_fanout in H0 as (j0 & Hj0 & Hin0). by eapply (Hnb f0 j0 n). }
      rewrite Hlk in Hx by done. destruct (c !! x) as [jx|] eqn:Hjx; [|done]. simpl in Hx. simplify_eq.
      case_bool_decide; [|by eapply (Hnb x jx f)]. simpl in Hf. eapply (Hnb x jx f); eauto. clear -Hf Hfm'. set_solver.
  - rewrite Hdom. clear. set_solver.
  - rewrite Hfn. rewrite size_union by (clear -Hmfo; set_solver). rewrite size_difference by done.
    unfold L. rewrite size_union, !size_singleton by (clear -Hne; set_solver). lia.
  - intros x Hx Hxn. rewrite Hfo; [done|done|]. intros ->. done.
  - intros x Hx Hxc. rewrite Hdom in Hx. assert (x = m) as -> by (clear -Hx Hxc; set_solver).
    rewrite Hfm. unfold L. rewrite size_union, !size_singleton by (clear -Hne; set_solver). lia.
Qed.

Theorem limit_fanout_total T C k : limit_tables_ok T = true → 2 ≤ k → wf C (c_g C) →
  ∃ steps C', limit_fanout_run_with T C k steps = Ok C'.
Proof.
  intros HT Hk Hwf. unfold limit_fanout_run_with. destruct (tables_parts T HT) as (_ & _ & _ & _ & ->).
  rewrite (proj2 (Nat.ltb_ge _ _) Hk).
  destruct (run_exists k (fanout_step T) (fanout_steps T) (λ c x, size (fanout c x)) (wf C)) with (c := c_g C) as (steps & c' & Hs & _).
  - intros c st Hall. simpl. rewrite (proj2 (forallb_forall _ _)); [done|].
    intros x Hin%elem_of_list_In%elem_of_elements. apply Nat.leb_le. by apply Hall.
  - done.
  - intros c n i. by apply fanout_progress.
  - done.
  - exists steps. rewrite Hs. simpl. eauto.
Qed.

(* boolean versions of the two side conditions (for examples and for the generator's sanity check) *)
Definition good_namesb (c : circuit) : bool :=
  forallb (λ n, negb (bool_decide (n = "")) && negb (starts_digit n)) (elements (dom c)).
Definition no_bbin_driverb (c : circuit) : bool :=
  forallb (λ p, forallb (λ f, negb (bool_decide (ty c f = Some BbIn))) (elements (n_fi p.2))) (map_to_list c).
Lemma good_namesb_spec c : good_namesb c = true → good_names c.
Proof.
  unfold good_namesb. rewrite forallb_forall. intros H n Hn. specialize (H n). rewrite <- elem_of_list_In, elem_of_elements in H.
  specialize (H Hn). apply andb_true_iff in H as [H1 H2]. apply negb_true_iff in H1, H2. by apply bool_decide_eq_false in H1.
Qed.
Lemma no_bbin_driverb_spec c : no_bbin_driverb c = true → no_bbin_driver c.
Proof.
  unfold no_bbin_driverb. rewrite forallb_forall. intros H n i f Hn Hf. specialize (H (n, i)).
  rewrite <- elem_of_list_In, elem_of_map_to_list in H. specialize (H Hn). simpl in H. rewrite forallb_forall in H.
  specialize (H f). rewrite <- elem_of_list_In, elem_of_elements in H. specialize (H Hf).
  apply negb_true_iff in H. by apply bool_decide_eq_false in H.
Qed.
