(* C05, last clause: acyclic_unroll of an already acyclic circuit -- assembled from C18's theorems (read-only imports). *)
From stdpp Require Import strings gmap sets fin_sets.
From CG Require Import Base.Oracle Model.Lint Model.AcyclicUnroll Proofs.AcyclicUnrollProofs Proofs.AcyclicUnrollLink
  Proofs.AcyclicUnrollTotal.
Open Scope string_scope.

Lemma acyclic_no_cycle c u : acyclic c → ¬ tc (λ a b, a ∈ fanin c b) u u.
Proof.
  intros [rank Hr] Ht.
  assert (∀ x y, tc (λ a b, a ∈ fanin c b) x y → rank x < rank y) as H.
  { intros x y Hxy. induction Hxy as [x y Hxy|x y z Hxy _ IH].
    - apply elem_of_fanin in Hxy as (i & Hi & Hin). eauto.
    - apply elem_of_fanin in Hxy as (i & Hi & Hin). specialize (Hr y i x Hi Hin). lia. }
  specialize (H u u Ht). lia.
Qed.
(* the feedback set the code computes (back edges on a cycle, for any node order) is empty *)
Lemma fas_of_acyclic c ord : acyclic c → fas_of_order c ord = ∅.
Proof.
  intros Ha. apply set_eq. intros u. split; [|set_solver]. intros Hu%fas_on_cycle. exfalso. by eapply acyclic_no_cycle.
Qed.

Theorem acyclic_unroll_of_acyclic C :
  lint_clean C → c_bbs C = ∅ → closed (c_g C) → plain (c_g C) → valid_names (c_g C) → free_are_inputs (c_g C) →
  names_ok (c_g C) [] → acyclic (c_g C) →
  ∃ A, acyclic_unroll C [] = Ok A ∧ c_bbs A = ∅ ∧ lint_clean A ∧ acyclic (c_g A) ∧
    outputs (c_g A) = outputs (c_g C) ∧ inputs (c_g A) = inputs (c_g C) ∧
    ∀ v w, consistent (c_g C) v → consistent (c_g A) w → agrees (inputs (c_g C)) w v → agrees (outputs (c_g C)) w v.
Proof.
  intros Hl Hbb Hcl Hpl Hvn Hfree Hnames Hac.
  assert (Hself : ∀ n, n ∉ fanin (c_g C) n).
  { intros n Hin. eapply (acyclic_no_cycle (c_g C) n); [done|]. by apply tc_once. }
  destruct (acyclic_unroll_correct C [] Hl Hbb Hcl Hpl Hvn Hself Hfree Hnames) as (A & HA & Hb & HlA & HaA & Ho & Hi & Hst).
  - constructor.
  - by intros f ?%elem_of_nil.
  - by apply cut_acyclic_nil.
  - exists A. split_and!; try done.
    + rewrite Hi. simpl. apply leibniz_equiv. set_solver.
    + intros v w Hv Hw Hag. apply (Hst v w Hv Hw Hag). by intros f ?%elem_of_nil.
Qed.
