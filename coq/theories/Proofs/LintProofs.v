(* lint decides the documented rule list (C20). *)
From stdpp Require Import strings gmap sets.
From CG Require Import Model.Lint.
Open Scope string_scope.

(* ---- the documented rules, declaratively (docstrings of utils.lint and circuit.py) ---- *)
Definition doc_supported := [Buf; And; Or; Xor; Not; Nand; Nor; Xnor; C0; C1; CX; Input; BbIn; BbOut].
Definition doc_no_fanin := [Input; C0; C1; CX; BbOut].
Definition doc_single := [Buf; Not; BbIn].
Definition doc_multi := [And; Nand; Or; Nor; Xor; Xnor].

Definition node_violates (C : Circuit) (f : lint_flags) (n : string) (i : ninfo) : Prop :=
  let c := c_g C in
  n_ty i ∉ doc_supported
  ∨ (has_dot n = true ∧ before_dot n ∉ dom (c_bbs C))
  ∨ (n_ty i ∈ doc_no_fanin ∧ n_fi i ≠ ∅)
  ∨ (n_ty i = BbOut ∧ (1 < size (fanout c n) ∨ ∃ m, m ∈ fanout c n ∧ ty c m ≠ Some Buf))
  ∨ (n_ty i ∈ doc_single ∧ 1 < size (n_fi i))
  ∨ (undriven f = true ∧ n_ty i ∈ (doc_single ++ doc_multi)%list ∧ n_fi i = ∅)
  ∨ (single_in f = true ∧ n_ty i ∈ doc_multi ∧ size (n_fi i) < 2)
  ∨ (unloaded f = true ∧ n_out i = false ∧ fanout c n = ∅).
Definition bb_violates (C : Circuit) (inst : string) (d : bbdef) : Prop :=
  (∃ p, p ∈ bb_in d ∧ ty (c_g C) (pin inst p) ≠ Some BbIn) ∨ (∃ p, p ∈ bb_out d ∧ ty (c_g C) (pin inst p) ≠ Some BbOut).
Definition violates (C : Circuit) (f : lint_flags) : Prop :=
  (∃ n i, c_g C !! n = Some i ∧ node_violates C f n i) ∨ (∃ inst d, c_bbs C !! inst = Some d ∧ bb_violates C inst d).

(* ---- obligations on the generated tables ---- *)
Definition all_types := [Buf; And; Or; Xor; Not; Nand; Nor; Xnor; C0; C1; CX; Input; BbIn; BbOut; Unsup; NoTy].
Lemma all_types_complete t : t ∈ all_types.
Proof. destruct t; unfold all_types; set_solver. Qed.
Definition same_members (l1 l2 : list gtype) : bool := forallb (λ t, eqb (inl t l1) (inl t l2)) all_types.
Lemma same_members_spec l1 l2 : same_members l1 l2 = true → ∀ t, inl t l1 = true ↔ t ∈ l2.
Proof.
  intros H t. unfold same_members in H. rewrite forallb_forall in H.
  specialize (H t). rewrite <- elem_of_list_In in H. specialize (H (all_types_complete t)).
  apply eqb_prop in H. rewrite H. unfold inl. apply bool_decide_eq_true.
Qed.
Definition tables_ok (T : tables) : bool :=
  same_members (supported_types T) doc_supported && same_members (zero_input_types T) doc_no_fanin
  && same_members (single_input_types T) doc_single && same_members (multi_input_types T) doc_multi.
Definition doc_tables := {| supported_types := doc_supported; zero_input_types := doc_no_fanin; single_input_types := doc_single; multi_input_types := doc_multi |}.
(* the specification made executable: the rule list over the documented tables *)
Definition violatesb (C : Circuit) (f : lint_flags) : bool := bool_decide (lint_with doc_tables C f = Raise ValueError).

Section with_tables.
  Context (T : tables).
  Hypothesis Htab : tables_ok T = true.
  Local Lemma tabs : (∀ t, inl t (supported_types T) = true ↔ t ∈ doc_supported) ∧ (∀ t, inl t (zero_input_types T) = true ↔ t ∈ doc_no_fanin)
     ∧ (∀ t, inl t (single_input_types T) = true ↔ t ∈ doc_single) ∧ (∀ t, inl t (multi_input_types T) = true ↔ t ∈ doc_multi).
  Proof.
    unfold tables_ok in Htab. rewrite !andb_true_iff in Htab. destruct Htab as [[[H1 H2] H3] H4].
    repeat split; intros; eapply same_members_spec; eauto.
  Qed.

  Lemma inl_app t l1 l2 : inl t (l1 ++ l2) = inl t l1 || inl t l2.
  Proof.
    unfold inl. apply eq_true_iff_eq. rewrite orb_true_iff, !bool_decide_eq_true. set_solver.
  Qed.

  Lemma size_gt0 (s : gset string) : (0 <? size s)%nat = true ↔ s ≠ ∅.
  Proof.
    rewrite Nat.ltb_lt. split; [intros H ->; rewrite size_empty in H; lia|]. intros H.
    assert (size s ≠ 0); [|lia]. apply size_non_empty_iff. by intros ?%leibniz_equiv.
  Qed.
  Lemma size_lt1 (s : gset string) : (size s <? 1)%nat = true ↔ s = ∅.
  Proof. rewrite Nat.ltb_lt. split; [intros H; apply leibniz_equiv, size_empty_iff; lia|intros ->; rewrite size_empty; lia]. Qed.

  Lemma some_nonbuf c (s : gset string) :
    existsb (λ m, negb (bool_decide (ty c m = Some Buf))) (elements s) = true ↔ ∃ m, m ∈ s ∧ ty c m ≠ Some Buf.
  Proof.
    rewrite existsb_exists. setoid_rewrite <- elem_of_list_In. setoid_rewrite elem_of_elements.
    setoid_rewrite negb_true_iff. setoid_rewrite bool_decide_eq_false. done.
  Qed.

  Lemma node_bad_iff C f n i : node_bad T C f n i = true ↔ node_violates C f n i.
  Proof.
    destruct tabs as (Hs & Hz & H1 & Hm).
    unfold node_bad, node_rules, node_violates. cbn [existsb id].
    rewrite orb_false_r, !orb_true_iff, !andb_true_iff.
    rewrite inl_app, orb_true_iff, elem_of_app.
    rewrite !negb_true_iff, !bool_decide_eq_true, !bool_decide_eq_false.
    rewrite size_gt0, size_lt1, !Nat.ltb_lt, Hz, !H1, !Hm.
    assert (Hsup : (n_ty i = NoTy ∨ inl (n_ty i) (supported_types T) = false ∧ n_ty i ≠ NoTy) ↔ n_ty i ∉ doc_supported).
    { rewrite <- Hs. destruct (inl (n_ty i) (supported_types T)) eqn:E.
      - split; [|done]. intros [HN|[? _]]; [|done]. rewrite HN in E. apply Hs in E. unfold doc_supported in E. set_solver.
      - split; [done|]. intros _. destruct (decide (n_ty i = NoTy)); auto. }
    rewrite some_nonbuf.
    clear -Hsup. tauto.
  Qed.

  Lemma pins_bad_iff C inst ps want : pins_bad C inst ps want = true ↔ ∃ p, p ∈ ps ∧ ty (c_g C) (pin inst p) ≠ Some want.
  Proof.
    unfold pins_bad. rewrite existsb_exists. setoid_rewrite <- elem_of_list_In. setoid_rewrite elem_of_elements.
    setoid_rewrite negb_true_iff. setoid_rewrite bool_decide_eq_false. done.
  Qed.
  Lemma bb_bad_iff C inst d : bb_bad C inst d = true ↔ bb_violates C inst d.
  Proof. unfold bb_bad, bb_violates. rewrite orb_true_iff, !pins_bad_iff. done. Qed.

  Lemma lint_raises_iff C f : lint_with T C f = Raise ValueError ↔ violates C f.
  Proof.
    unfold lint_with, violates.
    destruct (existsb _ (map_to_list (c_g C)) || existsb _ (map_to_list (c_bbs C))) eqn:E.
    - split; [intros _|done]. apply orb_true_iff in E as [E|E]; apply existsb_exists in E as ([k x] & Hin & Hb);
        apply elem_of_list_In, elem_of_map_to_list in Hin; simpl in Hb.
      + left. exists k, x. split; [done|]. by apply node_bad_iff.
      + right. exists k, x. split; [done|]. by apply bb_bad_iff.
    - split; [done|]. intros H. exfalso. apply orb_false_iff in E as [E1 E2].
      destruct H as [(n & i & Hn & Hv)|(inst & d & Hd & Hv)].
      + apply node_bad_iff in Hv. assert (existsb (λ p, node_bad T C f p.1 p.2) (map_to_list (c_g C)) = true); [|congruence].
        apply existsb_exists. exists (n, i). split; [|done]. by apply elem_of_list_In, elem_of_map_to_list.
      + apply bb_bad_iff in Hv. assert (existsb (λ p, bb_bad C p.1 p.2) (map_to_list (c_bbs C)) = true); [|congruence].
        apply existsb_exists. exists (inst, d). split; [|done]. by apply elem_of_list_In, elem_of_map_to_list.
  Qed.
  Lemma lint_total C f : lint_with T C f = Raise ValueError ∨ lint_with T C f = Ok ().
  Proof. unfold lint_with. destruct (_ || _); auto. Qed.
  Lemma lint_ok_iff C f : lint_with T C f = Ok () ↔ ¬ violates C f.
  Proof.
    rewrite <- lint_raises_iff. destruct (lint_total C f) as [H|H]; rewrite H.
    - split; [done|]. intros Hn. by destruct Hn.
    - split; [|done]. intros _ ?. done.
  Qed.
End with_tables.

Lemma violatesb_spec C f : violatesb C f = true ↔ violates C f.
Proof. unfold violatesb. rewrite bool_decide_eq_true. by apply lint_raises_iff. Qed.
