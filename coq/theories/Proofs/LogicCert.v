(* C13: generic certificate for list-built circuits: a node list in which every node comes after its fan-in gives a closed,
   acyclic circuit; free nodes of a lint-clean circuit without x constants / blackbox pins are its inputs. *)
From stdpp Require Import strings gmap sets fin_sets pretty numbers.
From CG Require Export Proofs.LogicKit.
From CG Require Import Model.Lint Proofs.LintProofs Proofs.LogicLint.
Open Scope string_scope.
Open Scope list_scope.

(* every node's fan-in lies in S or among the keys listed before it *)
Fixpoint topo (S : gset string) (l : list (string * ninfo)) : Prop :=
  match l with [] => True | ni :: r => n_fi ni.2 ⊆ S ∧ topo (S ∪ {[ni.1]}) r end.
Definition keyset (l : list (string * ninfo)) : gset string := list_to_set (l.*1).

Lemma keyset_app l1 l2 : keyset (l1 ++ l2) = keyset l1 ∪ keyset l2.
Proof. unfold keyset. by rewrite fmap_app, list_to_set_app_L. Qed.
Lemma keyset_cons ni l : keyset (ni :: l) = {[ni.1]} ∪ keyset l.
Proof. done. Qed.
Lemma elem_of_keyset l n : n ∈ keyset l ↔ n ∈ l.*1.
Proof. unfold keyset. by rewrite elem_of_list_to_set. Qed.

Lemma topo_mono S S' l : S ⊆ S' → topo S l → topo S' l.
Proof.
  revert S S'. induction l as [|ni r IH]; intros S S' Hs; [done|]. simpl. intros [H1 H2].
  split; [set_solver|]. eapply IH; [|exact H2]. set_solver.
Qed.
Lemma topo_app S l1 l2 : topo S (l1 ++ l2) ↔ topo S l1 ∧ topo (S ∪ keyset l1) l2.
Proof.
  revert S. induction l1 as [|ni r IH]; intros S; simpl.
  - split; [intros H; split; [done|]; eapply topo_mono; [|exact H]; set_solver|].
    intros [_ H]. eapply topo_mono; [|exact H]. unfold keyset. set_solver.
  - rewrite IH, keyset_cons. replace (S ∪ {[ni.1]} ∪ keyset r) with (S ∪ ({[ni.1]} ∪ keyset r)) by set_solver. tauto.
Qed.

Lemma topo_ranked l : NoDup (l.*1) → topo ∅ l →
  closed (list_to_map l) ∧ ∃ (rk : string → nat) (B : nat),
    (∀ n i f, (list_to_map l : circuit) !! n = Some i → f ∈ n_fi i → rk f < rk n) ∧
    (∀ n, n ∈ dom (list_to_map l : circuit) → rk n < B).
Proof.
  induction l as [|[n i] r IH] using rev_ind; intros Hnd Ht.
  - assert (E : (list_to_map [] : circuit) = ∅) by done. rewrite E.
    split; [intros n i f Hn; by rewrite lookup_empty in Hn|]. exists (λ _, 0), 1. split; [intros n i f Hn; by rewrite lookup_empty in Hn|].
    intros n Hn. rewrite dom_empty_L in Hn. set_solver.
  - rewrite fmap_app in Hnd. apply NoDup_app in Hnd as (Hnd & Hdisj & _).
    apply topo_app in Ht as [Ht Hlast]. simpl in Hlast. destruct Hlast as [Hfi _].
    destruct (IH Hnd Ht) as (Hcl & rk & B & Hrk & HB). clear IH.
    assert (Hn : n ∉ r.*1). { intros Hin. apply (Hdisj n Hin). simpl. left. }
    assert (Hdomr : dom (list_to_map r : circuit) = keyset r) by (unfold keyset; apply dom_list_to_map_L).
    rewrite list_to_map_snoc by done.
    assert (Hnd' : n ∉ dom (list_to_map r : circuit)) by (rewrite Hdomr, elem_of_keyset; done).
    assert (Hfi' : n_fi i ⊆ dom (list_to_map r : circuit)) by (rewrite Hdomr; set_solver).
    split.
    + intros m j f Hm Hf. rewrite dom_insert_L. destruct (decide (m = n)) as [->|Hne].
      * rewrite lookup_insert in Hm. injection Hm as <-. set_solver.
      * rewrite lookup_insert_ne in Hm by done. apply elem_of_union. right. eapply Hcl; eauto.
    + exists (λ x, if decide (x = n) then B else rk x), (S B). split.
      * intros m j f Hm Hf. destruct (decide (m = n)) as [->|Hne].
        -- rewrite lookup_insert in Hm. injection Hm as <-.
           assert (f ∈ dom (list_to_map r : circuit)) as Hfd by set_solver.
           assert (f ≠ n) by (intros ->; exact (Hnd' Hfd)).
           repeat case_decide; try done. by apply HB.
        -- rewrite lookup_insert_ne in Hm by done.
           assert (f ∈ dom (list_to_map r : circuit)) as Hfd by (eapply Hcl; eauto).
           assert (f ≠ n) by (intros ->; exact (Hnd' Hfd)).
           repeat case_decide; try done. eapply Hrk; eauto.
      * intros m. rewrite dom_insert_L, elem_of_union, elem_of_singleton. intros [->|Hm].
        -- repeat case_decide; try done. lia.
        -- assert (m ≠ n) by (intros ->; exact (Hnd' Hm)). repeat case_decide; try done. specialize (HB m Hm). lia.
Qed.

(* the interface used by the generators: a topologically ordered permutation of the node list *)
Lemma topo_combinational (l l' : list (string * ninfo)) : NoDup (l.*1) → l ≡ₚ l' → topo ∅ l' →
  closed (list_to_map l) ∧ acyclic (list_to_map l).
Proof.
  intros Hnd Hp Ht.
  assert (Hnd' : NoDup (l'.*1)) by (by rewrite <- Hp).
  rewrite (list_to_map_proper l l' Hnd Hp).
  destruct (topo_ranked l' Hnd' Ht) as (Hcl & rk & B & Hrk & _). split; [done|]. by exists rk.
Qed.

Lemma flat_map_perm {A B} (f g : A → list B) (l : list A) : (∀ x, f x ≡ₚ g x) → flat_map f l ≡ₚ flat_map g l.
Proof. intros H. induction l as [|x l IH]; [done|]. simpl. by rewrite H, IH. Qed.

(* free nodes = inputs for a lint-clean circuit whose nodes are inputs, constants 0/1 or gates *)
Definition plain_ty (t : gtype) : Prop := t ≠ CX ∧ t ≠ BbOut.
Lemma free_nodes_inputs (C : Circuit) : lint_clean C → (∀ n i, c_g C !! n = Some i → plain_ty (n_ty i)) →
  free_nodes (c_g C) = inputs (c_g C).
Proof.
  intros Hl Hp. apply (lint_ok_iff gen_tables lint_tables_ok) in Hl.
  apply set_eq. intros n. unfold free_nodes. rewrite elem_of_dom, elem_of_inputs. split.
  - intros [i Hi]. apply map_filter_lookup_Some in Hi as [Hi Hf]. simpl in Hf. exists i. split; [done|].
    destruct (Hp n i Hi) as [H1 H2]. unfold is_free in Hf.
    destruct (n_ty i) eqn:E; try done; apply bool_decide_eq_true in Hf; exfalso; apply Hl; left; exists n, i; (split; [done|]);
      unfold node_violates; rewrite E; do 5 right; left; (split; [reflexivity|]); (split; [|done]);
      unfold doc_single, doc_multi; repeat first [apply elem_of_list_here | apply elem_of_list_further].
  - intros (i & Hi & Ht). exists i. apply map_filter_lookup_Some. split; [done|]. simpl. unfold is_free. by rewrite Ht.
Qed.

(* what C11 needs of a generated block: closed, acyclic, and its free nodes are exactly the listed inputs *)
Definition combinational (c : circuit) (ins : list string) : Prop :=
  closed c ∧ acyclic c ∧ free_nodes c = list_to_set ins.
