(* C13: the ripple-carry adder and the mux are combinational blocks for every width: closed, acyclic, and their free
   nodes are exactly the named inputs. *)
From Coq Require Import Ascii.
From stdpp Require Import strings gmap sets fin_sets pretty numbers.
From CG Require Export Proofs.LogicCert.
From CG Require Import Model.Lint Proofs.LintProofs Proofs.LogicProofs Proofs.LogicLint Proofs.LogicIO Proofs.LogicMux.
Open Scope string_scope.
Open Scope list_scope.   (* ++ is list append; string append is +:+ *)

(* ------------------------------------------------------------------ small set facts *)
Lemma sub0 (X : gset string) : (list_to_set [] : gset string) ⊆ X.
Proof. set_solver. Qed.
Lemma sub1 (a : string) (X : gset string) : a ∈ X → (list_to_set [a] : gset string) ⊆ X.
Proof. set_solver. Qed.
Lemma sub2 (a b : string) (X : gset string) : a ∈ X → b ∈ X → (list_to_set [a; b] : gset string) ⊆ X.
Proof. set_solver. Qed.
Lemma in_here (a : string) (X : gset string) : a ∈ X ∪ {[a]}.
Proof. set_solver. Qed.
Lemma in_left (a b : string) (X : gset string) : a ∈ X → a ∈ X ∪ {[b]}.
Proof. set_solver. Qed.
Ltac in_chain := repeat first [apply in_here | assumption | apply in_left].

(* ================================================================== adder *)
(* the slice with its out_<i> buffer listed after the full adder that drives it *)
Definition adder_slice' (i : nat) : list (string * ninfo) :=
  [ nd (bitname "a_" i) Input false []; nd (bitname "b_" i) Input false [] ]
  ++ fa_sub (bitname "fa_" i) (bitname "a_" i) (bitname "b_" i) (carry_name i)
  ++ [nd (bitname "out_" i) Buf true [pre (bitname "fa_" i) "s"]].
Definition adder_l' (w : nat) (ci co : bool) : list (string * ninfo) :=
  nd "cin" (if ci then Input else C0) false [] :: flat_map adder_slice' (seq 0 w)
  ++ (if co then [nd "cout" Buf true [carry_name w]] else []).

Lemma adder_slice_perm i : adder_slice i ≡ₚ adder_slice' i.
Proof.
  unfold adder_slice, adder_slice'. cbn [app]. do 2 apply Permutation_skip. apply Permutation_cons_append.
Qed.
Lemma adder_l_perm w ci co : adder_l w ci co ≡ₚ adder_l' w ci co.
Proof.
  unfold adder_l, adder_l'. apply Permutation_skip. apply Permutation_app; [|done].
  apply flat_map_perm, adder_slice_perm.
Qed.

Lemma topo_slice' S i : carry_name i ∈ S → topo S (adder_slice' i).
Proof.
  intros Hc. unfold adder_slice', fa_sub, fa_core, nd. cbn [app topo fst snd n_fi mk_node].
  repeat split; first [apply sub0 | apply sub1; in_chain | apply sub2; in_chain].
Qed.
Lemma carry_in_slice' i : carry_name (S i) ∈ keyset (adder_slice' i).
Proof. apply elem_of_keyset. apply (elem_of_list_lookup_2 _ 13). reflexivity. Qed.

Lemma topo_slices n : ∀ S k, carry_name k ∈ S →
  topo S (flat_map adder_slice' (seq k n)) ∧ carry_name (k + n) ∈ S ∪ keyset (flat_map adder_slice' (seq k n)).
Proof.
  induction n as [|n IH]; intros S k Hc.
  - rewrite Nat.add_0_r. split; [done|]. apply elem_of_union. by left.
  - cbn [seq flat_map]. rewrite topo_app, keyset_app.
    destruct (IH (S ∪ keyset (adder_slice' k)) (Datatypes.S k)) as [H1 H2].
    { apply elem_of_union. right. apply carry_in_slice'. }
    split; [split; [by apply topo_slice'|exact H1]|].
    replace (k + Datatypes.S n) with (Datatypes.S k + n) by lia.
    by rewrite (assoc_L (∪)).
Qed.

Lemma adder_l'_topo w ci co : topo ∅ (adder_l' w ci co).
Proof.
  unfold adder_l'. cbn [topo]. split; [unfold nd; cbn [snd n_fi mk_node]; apply sub0|].
  destruct (topo_slices w (∅ ∪ {[(nd "cin" (if ci then Input else C0) false []).1]}) 0) as [H1 H2].
  { cbn [carry_name]. unfold nd. cbn [fst]. apply in_here. }
  apply topo_app. split; [exact H1|]. destruct co; [|done].
  cbn [topo]. split; [|done]. unfold nd at 2. cbn [snd n_fi mk_node]. apply sub1. exact H2.
Qed.

Lemma adder_plain w ci co n i : c_g (adder w ci co) !! n = Some i → plain_ty (n_ty i).
Proof.
  unfold adder, mkC. cbn [c_g]. intros Hin. apply elem_of_list_to_map_2 in Hin. unfold adder_l, nd in Hin.
  apply elem_of_cons in Hin as [Hin|Hin]; [|apply elem_of_app in Hin as [Hin|Hin]].
  - apply pair_eq' in Hin as [-> ->]. cbn [n_ty mk_node]. by destruct ci.
  - apply elem_of_flat_map in Hin as (k & _ & Hin). unfold adder_slice, fa_sub, fa_core, nd in Hin.
    apply elem_of_app in Hin as [Hin|Hin]; [|apply elem_of_app in Hin as [Hin|Hin]];
      split_mem Hin; apply pair_eq' in Hin as [-> ->]; cbn [n_ty mk_node]; done.
  - destruct co; [|by apply elem_of_nil in Hin]. apply elem_of_list_singleton in Hin. apply pair_eq' in Hin as [-> ->].
    done.
Qed.

Theorem adder_combinational w ci co :
  combinational (c_g (adder w ci co)) (names "a_" w ++ names "b_" w ++ (if ci then ["cin"] else [])).
Proof.
  destruct (topo_combinational (adder_l w ci co) (adder_l' w ci co)) as [Hcl Hac];
    [apply adder_keys_NoDup|apply adder_l_perm|apply adder_l'_topo|].
  split; [exact Hcl|]. split; [exact Hac|].
  rewrite free_nodes_inputs; [apply adder_inputs|apply adder_lint_clean|apply adder_plain].
Qed.

(* ================================================================== mux *)
(* rank by the first character: in_<i>, sel_<j> < not_sel_<j> < and_<i> < out *)
Definition mux_rk (n : string) : nat :=
  match n with
  | String "n" _ => 1
  | String "a" _ => 2
  | String "o" _ => 3
  | _ => 0
  end.
Lemma rk_in i : mux_rk (bitname "in_" i) = 0. Proof. reflexivity. Qed.
Lemma rk_sel i : mux_rk (bitname "sel_" i) = 0. Proof. reflexivity. Qed.
Lemma rk_not_sel i : mux_rk (bitname "not_sel_" i) = 1. Proof. reflexivity. Qed.
Lemma rk_and i : mux_rk (bitname "and_" i) = 2. Proof. reflexivity. Qed.
Lemma rk_out : mux_rk "out" = 3. Proof. reflexivity. Qed.

Lemma mux_tuple_elems k t x : t ∈ mux_tuples k → x ∈ t →
  ∃ j, j < k ∧ (x = bitname "sel_" j ∨ x = bitname "not_sel_" j).
Proof.
  revert t. induction k as [|k IH]; intros t Ht Hx.
  - change (mux_tuples 0) with [[] : list string] in Ht. apply elem_of_list_singleton in Ht. subst t.
    by apply elem_of_nil in Hx.
  - rewrite mux_tuples_S in Ht. apply elem_of_app in Ht as [Ht|Ht];
      apply elem_of_list_fmap in Ht as (t' & -> & Ht'); apply elem_of_cons in Hx as [-> |Hx].
    + exists k. split; [lia|by right].
    + destruct (IH t' Ht' Hx) as (j & Hj & Hor). exists j. split; [lia|done].
    + exists k. split; [lia|by left].
    + destruct (IH t' Ht' Hx) as (j & Hj & Hor). exists j. split; [lia|done].
Qed.

Section mux_cert.
  Context (w k : nat).
  Hypothesis Hw : w ≤ 2 ^ k.
  Local Notation c := (list_to_map (mux_l w k) : circuit).

  Local Lemma key_in i : i < w → bitname "in_" i ∈ dom c.
  Proof.
    intros Hi. eapply elem_of_dom_2, mux_l_lookup, elem_of_mux_l. left. exists i. split; [done|reflexivity].
  Qed.
  Local Lemma key_sel j : j < k → bitname "sel_" j ∈ dom c.
  Proof.
    intros Hj. eapply elem_of_dom_2, mux_l_lookup, elem_of_mux_l. right; left. exists j. split; [done|reflexivity].
  Qed.
  Local Lemma key_not_sel j : j < k → bitname "not_sel_" j ∈ dom c.
  Proof.
    intros Hj. eapply elem_of_dom_2, mux_l_lookup, elem_of_mux_l. right; right; left. exists j. split; [done|reflexivity].
  Qed.
  Local Lemma key_and i : i < w → bitname "and_" i ∈ dom c.
  Proof.
    intros Hi. destruct (lookup_lt_is_Some_2 (take w (mux_tuples k)) i) as [sel Hs].
    { rewrite take_length, mux_tuples_length. lia. }
    eapply elem_of_dom_2, mux_l_lookup, elem_of_mux_l. do 4 right. exists i, sel. split; [done|reflexivity].
  Qed.

  Local Lemma mux_fanin n i f : c !! n = Some i → f ∈ n_fi i → f ∈ dom c ∧ mux_rk f < mux_rk n.
  Proof.
    intros Hn Hf. apply elem_of_list_to_map_2, elem_of_mux_l in Hn. unfold nd in Hn.
    destruct Hn as [(i' & Hi & Hp)|[(j & Hj & Hp)|[(j & Hj & Hp)|[Hp|(i' & sel & Hs & Hp)]]]];
      apply pair_eq' in Hp as [-> ->]; cbn [n_fi mk_node] in Hf; apply elem_of_list_to_set in Hf.
    - by apply elem_of_nil in Hf.
    - by apply elem_of_nil in Hf.
    - apply elem_of_list_singleton in Hf. subst f. split; [by apply key_sel|]. rewrite rk_sel, rk_not_sel. lia.
    - apply elem_of_list_fmap in Hf as (i' & -> & Hi%elem_of_seq). split; [apply key_and; lia|].
      rewrite rk_and, rk_out. lia.
    - apply lookup_take_Some in Hs as [Hs Hi]. apply elem_of_app in Hf as [Hf|Hf].
      + destruct (mux_tuple_elems k sel f (elem_of_list_lookup_2 _ _ _ Hs) Hf) as (j & Hj & [-> | ->]).
        * split; [by apply key_sel|]. rewrite rk_sel, rk_and. lia.
        * split; [by apply key_not_sel|]. rewrite rk_not_sel, rk_and. lia.
      + apply elem_of_list_singleton in Hf. subst f. split; [by apply key_in|]. rewrite rk_in, rk_and. lia.
  Qed.

  Lemma mux_l_closed : closed c.
  Proof. intros n i f Hn Hf. by destruct (mux_fanin n i f Hn Hf). Qed.
  Lemma mux_l_acyclic : acyclic c.
  Proof. exists mux_rk. intros n i f Hn Hf. by destruct (mux_fanin n i f Hn Hf). Qed.

  Lemma mux_l_plain n i : c !! n = Some i → plain_ty (n_ty i).
  Proof.
    intros Hn. apply elem_of_list_to_map_2, elem_of_mux_l in Hn. unfold nd in Hn.
    destruct Hn as [(i' & Hi & Hp)|[(j & Hj & Hp)|[(j & Hj & Hp)|[Hp|(i' & sel & Hs & Hp)]]]];
      apply pair_eq' in Hp as [-> ->]; cbn [n_ty mk_node]; done.
  Qed.
End mux_cert.

Theorem mux_combinational w C : 1 ≤ w → mux w = Ok C →
  combinational (c_g C) (names "in_" w ++ names "sel_" (sel_width w)).
Proof.
  intros Hw HC. pose proof (mux_lint_clean w C Hw HC) as Hl. destruct (mux_io w C Hw HC) as [Hio _].
  rewrite mux_model in HC by done. injection HC as <-. cbn [c_g mkC] in *.
  pose proof (sel_width_spec w Hw) as Hk.
  split; [by apply mux_l_closed|]. split; [by apply mux_l_acyclic|].
  rewrite <- Hio. apply (free_nodes_inputs (mkC "mux" (mux_l w (sel_width w))) Hl).
  intros n i. cbn [c_g mkC]. apply mux_l_plain.
Qed.

Print Assumptions adder_combinational.
Print Assumptions mux_combinational.
