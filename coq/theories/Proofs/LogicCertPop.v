(* C13: the model circuit of logic.popcount(w) is combinational: closed, acyclic, free nodes = in_0 .. in_{w-1}. *)
From Coq Require Import Ascii.
From stdpp Require Import strings gmap sets fin_sets pretty numbers.
From CG Require Export Proofs.LogicCert.
From CG Require Import Model.Lint Proofs.LintProofs Proofs.LogicProofs Proofs.LogicLint Proofs.LogicPop Proofs.LogicPopAll.
Open Scope string_scope.
Open Scope list_scope.   (* ++ is list append; string append is +:+ *)

(* ================================================================== 1. generic topo facts *)
Lemma keyset_perm l l' : l ≡ₚ l' → keyset l = keyset l'.
Proof.
  intros H. apply set_eq. intros x. rewrite !elem_of_keyset. by rewrite H.
Qed.
Lemma topo_all S l : (∀ ni, ni ∈ l → n_fi ni.2 ⊆ S) → topo S l.
Proof.
  revert S. induction l as [|ni r IH]; intros S H; [done|]. cbn [topo]. split; [apply H; left|].
  apply IH. intros x Hx. transitivity S; [apply H; by right|]. set_solver.
Qed.
Lemma sub1 (y : string) (X : gset string) : y ∈ X → list_to_set [y] ⊆ X.
Proof. set_solver. Qed.
(* a name no fan-in mentions can be dropped from the available set *)
Lemma topo_strengthen x S l : (∀ ni, ni ∈ l → x ∉ n_fi ni.2) → topo (S ∪ {[x]}) l → topo S l.
Proof.
  revert S. induction l as [|ni r IH]; intros S H; [done|]. cbn [topo]. intros [H1 H2]. split.
  - pose proof (H ni ltac:(left)). set_solver.
  - apply IH; [intros; apply H; by right|]. eapply topo_mono; [|exact H2]. set_solver.
Qed.

(* ================================================================== 2. one slice, topologically ordered *)
(* a slice with abstract names: q' names the full adder's own nodes *)
Definition sl (q' : string → string) (a b out na nb car : string) : list (string * ninfo) :=
  nd a Buf false [na] :: nd b Buf false [nb] :: nd out Buf false [q' "s"] ::
  (nd (q' "x") Buf false [a] :: nd (q' "y") Buf false [b] :: nd (q' "cin") Buf false [car] :: fa_core q' false).
Definition sl' (q' : string → string) (a b out na nb car : string) : list (string * ninfo) :=
  nd a Buf false [na] :: nd b Buf false [nb] ::
  ((nd (q' "x") Buf false [a] :: nd (q' "y") Buf false [b] :: nd (q' "cin") Buf false [car] :: fa_core q' false)
   ++ [nd out Buf false [q' "s"]]).

Lemma sl_perm q' a b out na nb car : sl q' a b out na nb car ≡ₚ sl' q' a b out na nb car.
Proof. unfold sl, sl'. do 2 apply perm_skip. apply Permutation_cons_append. Qed.

Lemma sl'_topo S q' a b out na nb car : na ∈ S → nb ∈ S → car ∈ S → topo S (sl' q' a b out na nb car).
Proof.
  intros Ha Hb Hc. unfold sl', fa_core, nd. cbn [app topo fst snd n_fi mk_node].
  repeat split; set_solver.
Qed.
Lemma sl'_cout q' a b out na nb car : q' "cout" ∈ keyset (sl' q' a b out na nb car).
Proof.
  rewrite elem_of_keyset. unfold sl', fa_core, nd. cbn [app fmap list_fmap fst]. set_solver.
Qed.

Definition pc_slice' (q : string → string) (na nb : string) (i : nat) : list (string * ninfo) :=
  sl' (λ s, q (pre (bitname "fa_" i) s)) (q (bitname "a_" i)) (q (bitname "b_" i)) (q (bitname "out_" i)) na nb (q (carry_name i)).
Lemma pc_slice_perm q na nb i : pc_slice q na nb i ≡ₚ pc_slice' q na nb i.
Proof.
  change (pc_slice q na nb i) with
    (sl (λ s, q (pre (bitname "fa_" i) s)) (q (bitname "a_" i)) (q (bitname "b_" i)) (q (bitname "out_" i)) na nb (q (carry_name i))).
  apply sl_perm.
Qed.

(* ================================================================== 3. one adder instance *)
Definition pc_adder' (p : string) (aw : nat) (ns ms : list string) : list (string * ninfo) :=
  let q := pc_name p aw in
  nd (q "cin") C0 false [] :: flat_map (λ i, pc_slice' q (ns !!! i) (ms !!! i) i) (seq 0 aw)
  ++ [nd (q "cout") Buf false [q (carry_name aw)]].
Lemma pc_adder_perm p aw ns ms : pc_adder p aw ns ms ≡ₚ pc_adder' p aw ns ms.
Proof.
  unfold pc_adder, pc_adder'. cbv zeta. apply perm_skip. apply Permutation_app_tail.
  apply flat_map_perm. intros i. apply pc_slice_perm.
Qed.

Lemma slices_topo (q : string → string) (ns ms : list string) n : ∀ k A,
  (∀ j, k ≤ j < k + n → ns !!! j ∈ A ∧ ms !!! j ∈ A) → q (carry_name k) ∈ A →
  topo A (flat_map (λ i, pc_slice' q (ns !!! i) (ms !!! i) i) (seq k n)) ∧
  q (carry_name (k + n)) ∈ A ∪ keyset (flat_map (λ i, pc_slice' q (ns !!! i) (ms !!! i) i) (seq k n)).
Proof.
  induction n as [|n IH]; intros k A Hop Hc.
  - cbn [seq flat_map topo]. rewrite Nat.add_0_r. split; [done|]. apply elem_of_union. by left.
  - cbn [seq flat_map]. rewrite topo_app, keyset_app.
    destruct (Hop k ltac:(lia)) as [Hna Hnb].
    assert (Hc' : q (carry_name (S k)) ∈ A ∪ keyset (pc_slice' q (ns !!! k) (ms !!! k) k)).
    { apply elem_of_union. right. unfold pc_slice'.
      exact (sl'_cout (λ s, q (pre (bitname "fa_" k) s)) _ _ _ _ _ _). }
    destruct (IH (S k) (A ∪ keyset (pc_slice' q (ns !!! k) (ms !!! k) k))) as [Ht Hn]; [|exact Hc'|].
    { intros j Hj. destruct (Hop j ltac:(lia)). split; apply elem_of_union; by left. }
    split; [split; [by apply sl'_topo|exact Ht]|].
    replace (k + S n) with (S k + n) by lia. rewrite (assoc_L (∪)). exact Hn.
Qed.

Lemma pc_adder'_topo S p aw ns ms : length ns = aw → length ms = aw →
  (∀ x, x ∈ ns → x ∈ S) → (∀ x, x ∈ ms → x ∈ S) → topo S (pc_adder' p aw ns ms).
Proof.
  intros Hn Hm Hns Hms. unfold pc_adder'. cbv zeta. set (q := pc_name p aw).
  cbn [topo]. split; [unfold nd; cbn [snd n_fi mk_node]; set_solver|].
  destruct (slices_topo q ns ms aw 0 (S ∪ {[(nd (q "cin") C0 false []).1]})) as [Ht Hc].
  - intros j Hj. split; apply elem_of_union; left; [apply Hns|apply Hms];
      apply elem_of_list_lookup_total_2; lia.
  - apply elem_of_union. right. apply elem_of_singleton. reflexivity.
  - apply topo_app. split; [exact Ht|]. cbn [topo]. split; [|done].
    change (0 + aw) with aw in Hc. apply sub1. exact Hc.
Qed.

Lemma pc_adder_out_key p aw ns ms j : j ≤ aw → pre p (bitname "out_" j) ∈ keyset (pc_adder p aw ns ms).
Proof.
  intros Hj. rewrite elem_of_keyset. apply elem_of_list_fmap. destruct (decide (j = aw)) as [->|Hne].
  - exists (nd (pc_name p aw "cout") Buf false [pc_name p aw (carry_name aw)]). split; [reflexivity|].
    unfold pc_adder. right. apply elem_of_app. right. left.
  - exists (nd (pc_name p aw (bitname "out_" j)) Buf false [pc_name p aw (pre (bitname "fa_" j) "s")]). split.
    + unfold nd. cbn [fst]. by rewrite pc_name_bit.
    + unfold pc_adder. right. apply elem_of_app. left. apply elem_of_flat_map. exists j.
      split; [apply elem_of_seq; lia|]. unfold pc_slice. do 2 right. left.
Qed.

(* ================================================================== 4. the queue loop *)
Definition blk' (k : nat) (d : list string * list string) : list (string * ninfo) :=
  let aw := max (length d.1) (length d.2) in pc_adder' (bitname "add_" k) aw (pad aw d.1) (pad aw d.2).
Fixpoint blocks' (i : nat) (ds : list (list string * list string)) : list (string * ninfo) :=
  match ds with [] => [] | d :: r => blk' i d ++ blocks' (S i) r end.
Lemma blk_perm k d : blk k d ≡ₚ blk' k d.
Proof. apply pc_adder_perm. Qed.
Lemma blocks_perm i ds : blocks i ds ≡ₚ blocks' i ds.
Proof.
  revert i. induction ds as [|d ds IH]; intros i; [done|]. cbn [blocks blocks']. by rewrite blk_perm, IH.
Qed.

Lemma elem_of_pad aw l x : x ∈ pad aw l → x ∈ l ∨ x = "tie0".
Proof. unfold pad. intros [H|H]%elem_of_app; [by left|]. right. by apply elem_of_replicate in H as [-> _]. Qed.

Lemma blk'_topo S k d : "tie0" ∈ S → (∀ x, x ∈ d.1 → x ∈ S) → (∀ x, x ∈ d.2 → x ∈ S) → topo S (blk' k d).
Proof.
  intros Ht H1 H2. unfold blk'. cbv zeta. apply pc_adder'_topo.
  - apply pad_length. lia.
  - apply pad_length. lia.
  - intros x [Hx| ->]%elem_of_pad; [by apply H1|done].
  - intros x [Hx| ->]%elem_of_pad; [by apply H2|done].
Qed.

Lemma loop_topo fuel : ∀ i ps acc o acc' (S : gset string), popcount_loop fuel i ps acc = Ok (o, acc') →
  "tie0" ∈ S → (∀ l x, l ∈ ps → x ∈ l → x ∈ S) →
  ∃ ds, acc' = acc ++ blocks i ds ∧ topo S (blocks' i ds) ∧ ∀ x, x ∈ o → x ∈ S ∪ keyset (blocks i ds).
Proof.
  induction fuel as [|f IH]; intros i ps acc o acc' S H Ht Hps; [done|].
  cbn [popcount_loop] in H. destruct ps as [|ns [|ms rest]]; [done| |].
  - injection H as <- <-. exists []. split; [by rewrite app_nil_r|]. split; [done|].
    intros x Hx. apply elem_of_union. left. apply (Hps ns x); [left|done].
  - change (pc_adder (bitname "add_" i) (length ns `max` length ms) (pad (length ns `max` length ms) ns)
              (pad (length ns `max` length ms) ms)) with (blk i (ns, ms)) in H.
    apply (IH _ _ _ _ _ (S ∪ keyset (blk i (ns, ms)))) in H as (ds & -> & Htp & Ho).
    + exists ((ns, ms) :: ds). split; [cbn [blocks]; by rewrite app_assoc|]. split.
      * cbn [blocks']. apply topo_app. split.
        -- apply blk'_topo; [done| |]; intros x Hx; cbn [fst snd] in Hx.
           ++ apply (Hps ns x); [left|done].
           ++ apply (Hps ms x); [right; left|done].
        -- by rewrite <- (keyset_perm _ _ (blk_perm i (ns, ms))).
      * intros x Hx. cbn [blocks]. rewrite keyset_app, (assoc_L (∪)). exact (Ho x Hx).
    + apply elem_of_union. by left.
    + intros l x [Hl|Hl]%elem_of_app Hx.
      * apply elem_of_union. left. apply (Hps l x); [by do 2 right|done].
      * apply elem_of_list_singleton in Hl. subst l. apply elem_of_list_fmap in Hx as (j & -> & Hj%elem_of_seq).
        apply elem_of_union. right. unfold blk. cbv zeta. cbn [fst snd]. apply pc_adder_out_key. lia.
Qed.

(* ================================================================== 5. the whole node list *)
Definition pc_body' (w : nat) ds o : list (string * ninfo) := pc_ins w ++ blocks' 0 ds ++ pc_outs o.
Lemma body_perm w ds o : pc_body w ds o ≡ₚ pc_body' w ds o.
Proof. unfold pc_body, pc_body'. by rewrite blocks_perm. Qed.

Lemma popcount_l_shape' w l : popcount_l w = Ok l → ∃ ds o,
  topo {["tie0"]} (pc_body' w ds o) ∧
  (l = nd "tie0" C0 false [] :: pc_body w ds o ∨
   (l = pc_body w ds o ∧ ∀ n inf, (n, inf) ∈ pc_body w ds o → "tie0" ∉ n_fi inf)).
Proof.
  unfold popcount_l. destruct (popcount_loop _ _ _ _) as [[o acc]| | |] eqn:E; try done.
  apply (loop_topo _ _ _ _ _ _ ({["tie0"]} ∪ keyset (pc_ins w))) in E as (ds & -> & Htp & Ho).
  - intros H. exists ds, o. split.
    + unfold pc_body'. apply topo_app. split; [|apply topo_app; split; [exact Htp|]].
      * apply topo_all. intros ni Hni. unfold pc_ins in Hni. apply elem_of_list_fmap in Hni as (i & -> & _).
        unfold nd. cbn [snd n_fi mk_node]. set_solver.
      * apply topo_all. intros [n inf] Hni. apply elem_of_outs in Hni as (i & y & Hi & -> & ->). cbn [snd n_fi mk_node].
        apply elem_of_list_lookup_2 in Hi. specialize (Ho y Hi).
        apply sub1. by rewrite <- (keyset_perm _ _ (blocks_perm 0 ds)).
    + change (Ok ((if existsb (λ ni : string * ninfo, bool_decide ("tie0" ∈ n_fi ni.2)) (pc_body w ds o)
                   then [nd "tie0" C0 false []] else []) ++ pc_body w ds o) = Ok l) in H.
      destruct (existsb _ _) eqn:Ex; injection H as <-; [by left|]. right. split; [done|].
      intros n inf Hin Ht. assert (existsb (λ ni : string * ninfo, bool_decide ("tie0" ∈ n_fi ni.2)) (pc_body w ds o) = true); [|congruence].
      apply existsb_exists. exists (n, inf). split; [by apply elem_of_list_In|]. by apply bool_decide_eq_true.
  - apply elem_of_union. left. by apply elem_of_singleton.
  - intros l0 x (i & -> & Hi)%elem_of_list_fmap Hx. apply elem_of_list_singleton in Hx. subst x.
    apply elem_of_union. right. rewrite elem_of_keyset, ins_keys. apply elem_of_list_fmap. by exists i.
Qed.

(* ---- node types ---- *)
Definition gate_ty (t : gtype) : Prop := t = C0 ∨ t = Buf ∨ t = And ∨ t = Or ∨ t = Xor.
Lemma gate_ty_plain t : gate_ty t → plain_ty t ∧ t ≠ Input.
Proof. intros [-> |[-> |[-> |[-> | ->]]]]; repeat split; discriminate. Qed.

Lemma pc_adder_ty p aw ns ms n inf : (n, inf) ∈ pc_adder p aw ns ms → gate_ty (n_ty inf).
Proof.
  unfold pc_adder, nd, gate_ty. intros [H|[H|H]%elem_of_app]%elem_of_cons.
  - apply pair_eq2 in H as [_ ->]. cbn [n_ty mk_node]. tauto.
  - apply elem_of_flat_map in H as (i & _ & H). unfold pc_slice, fa_core, nd in H. cbn [app] in H.
    split_mem H; apply pair_eq2 in H as [_ ->]; cbn [n_ty mk_node]; tauto.
  - apply elem_of_list_singleton in H. apply pair_eq2 in H as [_ ->]. cbn [n_ty mk_node]. tauto.
Qed.
Lemma blocks_ty i ds n inf : (n, inf) ∈ blocks i ds → gate_ty (n_ty inf).
Proof.
  revert i. induction ds as [|d ds IH]; intros i; cbn [blocks]; [by intros ?%elem_of_nil|].
  intros [H|H]%elem_of_app; [by eapply pc_adder_ty|by eapply IH].
Qed.
Lemma body_ty w ds o n inf : (n, inf) ∈ pc_body w ds o →
  (n_ty inf = Input ∧ n ∈ names "in_" w) ∨ gate_ty (n_ty inf).
Proof.
  unfold pc_body. intros [H|[H|H]%elem_of_app]%elem_of_app.
  - left. unfold pc_ins, nd in H. apply elem_of_list_fmap in H as (i & [-> ->]%pair_eq2 & Hi).
    split; [done|]. unfold names. apply elem_of_list_fmap. by exists i.
  - right. by eapply blocks_ty.
  - right. apply elem_of_outs in H as (i & y & _ & _ & ->). unfold gate_ty. cbn [n_ty mk_node]. tauto.
Qed.

Section final.
  Context (w : nat) (ds : list (list string * list string)) (o : list string) (l : list (string * ninfo)).
  Hypothesis Htopo : topo {["tie0"]} (pc_body' w ds o).
  Hypothesis Hl : l = nd "tie0" C0 false [] :: pc_body w ds o ∨
                  (l = pc_body w ds o ∧ ∀ n inf, (n, inf) ∈ pc_body w ds o → "tie0" ∉ n_fi inf).

  Local Lemma l_NoDup : NoDup l.*1.
  Proof.
    destruct Hl as [-> |[-> _]]; [|apply body_NoDup]. rewrite fmap_cons. apply NoDup_cons. split; [|apply body_NoDup].
    intros H%body_hd. done.
  Qed.
  Local Lemma l_body n inf : (n, inf) ∈ pc_body w ds o → (n, inf) ∈ l.
  Proof. destruct Hl as [-> |[-> _]]; [by right|done]. Qed.
  Local Lemma l_ty n inf : (n, inf) ∈ l → (n_ty inf = Input ∧ n ∈ names "in_" w) ∨ gate_ty (n_ty inf).
  Proof.
    destruct Hl as [-> |[-> _]]; [|apply body_ty]. intros [H|H]%elem_of_cons; [|by eapply body_ty].
    right. unfold nd in H. apply pair_eq2 in H as [_ ->]. unfold gate_ty. cbn [n_ty mk_node]. tauto.
  Qed.

  Lemma pc_closed_acyclic : closed (list_to_map l) ∧ acyclic (list_to_map l).
  Proof.
    destruct Hl as [El|[El Hfi]].
    - apply (topo_combinational l (nd "tie0" C0 false [] :: pc_body' w ds o)); [apply l_NoDup| |].
      + rewrite El. apply perm_skip. apply body_perm.
      + cbn [topo]. split; [unfold nd; cbn [snd n_fi mk_node]; set_solver|].
        eapply topo_mono; [|exact Htopo]. unfold nd. cbn [fst]. set_solver.
    - apply (topo_combinational l (pc_body' w ds o)); [apply l_NoDup|rewrite El; apply body_perm|].
      apply (topo_strengthen "tie0").
      + intros [n inf] Hni. apply (Hfi n inf). by rewrite body_perm.
      + eapply topo_mono; [|exact Htopo]. set_solver.
  Qed.

  Lemma pc_plain n i : (list_to_map l : circuit) !! n = Some i → plain_ty (n_ty i).
  Proof.
    intros H%elem_of_list_to_map_2. apply l_ty in H as [[-> _]|H]; [split; discriminate|].
    by apply gate_ty_plain in H as [? _].
  Qed.

  Lemma pc_inputs : inputs (list_to_map l) = list_to_set (names "in_" w).
  Proof.
    apply set_eq. intros n. rewrite elem_of_inputs, elem_of_list_to_set. split.
    - intros (inf & Hn%elem_of_list_to_map_2 & Hty). apply l_ty in Hn as [[_ Hn]|Hg]; [done|].
      apply gate_ty_plain in Hg as [_ Hg]. done.
    - unfold names. intros (i & -> & Hi)%elem_of_list_fmap.
      exists (mk_node Input false (list_to_set [])). split; [|done].
      apply elem_of_list_to_map_1; [apply l_NoDup|]. apply l_body. unfold pc_body. apply elem_of_app. left.
      unfold pc_ins. apply elem_of_list_fmap. by exists i.
  Qed.
End final.

(* ================================================================== 6. the theorem *)
Theorem popcount_combinational w C : 1 ≤ w → popcount w = Ok C → combinational (c_g C) (names "in_" w).
Proof.
  intros Hw HC. pose proof (popcount_lint_clean w C Hw HC) as Hlint.
  unfold popcount, rmap in HC. destruct (popcount_l w) as [l| | |] eqn:El; try done.
  cbn [rbind] in HC. injection HC as <-. cbn [c_g mkC] in *.
  apply popcount_l_shape' in El as (ds & o & Htopo & Hl).
  destruct (pc_closed_acyclic w ds o l Htopo Hl) as [Hc Ha]. split; [exact Hc|]. split; [exact Ha|].
  rewrite <- (pc_inputs w ds o l Hl).
  apply (free_nodes_inputs (mkC "popcount" l) Hlint). intros n i. apply (pc_plain w ds o l Hl).
Qed.

Print Assumptions popcount_combinational.
