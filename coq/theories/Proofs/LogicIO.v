(* C13: interface of the ripple-carry adder for every width: exactly the named inputs and outputs. *)
From Coq Require Import Ascii.
From stdpp Require Import strings gmap sets fin_sets pretty numbers.
From CG Require Export Proofs.LogicKit.
From CG Require Import Proofs.LogicProofs Proofs.LogicLint.
Open Scope string_scope.
Open Scope list_scope.

Lemma elem_of_names p w n : n ∈ names p w ↔ ∃ k, k < w ∧ n = bitname p k.
Proof.
  unfold names. rewrite elem_of_list_fmap. split.
  - intros (k & -> & Hk%elem_of_seq). exists k. split; [lia|done].
  - intros (k & Hk & ->). exists k. split; [done|]. apply elem_of_seq. lia.
Qed.

Section adder_io.
  Context (w : nat) (ci co : bool).
  Local Notation c := (c_g (adder w ci co)).

  Local Lemma lookup_adder n i : c !! n = Some i ↔ (n, i) ∈ adder_l w ci co.
  Proof. symmetry. apply elem_of_list_to_map, adder_keys_NoDup. Qed.

  (* every listed node, with its type and output mark, by family *)
  Local Lemma adder_l_cases n i : (n, i) ∈ adder_l w ci co →
    (n = "cin" ∧ n_ty i = (if ci then Input else C0) ∧ n_out i = false) ∨
    (∃ k, k < w ∧ (n = bitname "a_" k ∨ n = bitname "b_" k) ∧ n_ty i = Input ∧ n_out i = false) ∨
    (∃ k, k < w ∧ n = bitname "out_" k ∧ n_ty i = Buf ∧ n_out i = true) ∨
    (co = true ∧ n = "cout" ∧ n_ty i = Buf ∧ n_out i = true) ∨
    (n_ty i ≠ Input ∧ n_out i = false).
  Proof.
    intros Hin. unfold adder_l, nd in Hin.
    apply elem_of_cons in Hin as [Hin|Hin]; [|apply elem_of_app in Hin as [Hin|Hin]].
    - apply pair_eq' in Hin as [-> ->]. left. done.
    - apply elem_of_flat_map in Hin as (k & Hk%elem_of_seq & Hin). unfold adder_slice, fa_sub, fa_core, nd in Hin.
      apply elem_of_app in Hin as [Hin|Hin]; [|apply elem_of_app in Hin as [Hin|Hin]].
      + split_mem Hin; apply pair_eq' in Hin as [-> ->].
        * right. left. exists k. split; [lia|]. split; [by left|done].
        * right. left. exists k. split; [lia|]. split; [by right|done].
        * right. right. left. exists k. split; [lia|done].
      + split_mem Hin; apply pair_eq' in Hin as [-> ->]; do 4 right; done.
      + split_mem Hin; apply pair_eq' in Hin as [-> ->]; do 4 right; done.
    - destruct co; [|by apply elem_of_nil in Hin]. apply elem_of_list_singleton in Hin.
      apply pair_eq' in Hin as [-> ->]. do 3 right. left. done.
  Qed.

  Local Lemma in_slice k x : k < w → x ∈ adder_slice k → x ∈ adder_l w ci co.
  Proof.
    intros Hk Hx. unfold adder_l. right. apply elem_of_app. left. apply elem_of_flat_map. exists k.
    split; [apply elem_of_seq; lia|done].
  Qed.

  Theorem adder_inputs : inputs c = list_to_set (names "a_" w ++ names "b_" w ++ (if ci then ["cin"] else [])).
  Proof.
    apply set_eq. intros n. rewrite elem_of_inputs, elem_of_list_to_set, !elem_of_app, !elem_of_names. split.
    - intros (i & Hn%lookup_adder & Hty). apply adder_l_cases in Hn as [(-> & Ht & _)|[(k & Hk & Hn & _)|[(k & _ & _ & Ht & _)|[(_ & _ & Ht & _)|[Ht _]]]]]; try congruence.
      + right. right. destruct ci; [by left|congruence].
      + destruct Hn as [->| ->]; [left|right; left]; eauto.
    - intros [(k & Hk & ->)|[(k & Hk & ->)|Hcin]].
      + eexists. split; [apply lookup_adder, (in_slice k _ Hk); unfold adder_slice; apply elem_of_app; left; left|done].
      + eexists. split; [apply lookup_adder, (in_slice k _ Hk); unfold adder_slice; apply elem_of_app; left; right; left|done].
      + assert (ci = true ∧ n = "cin") as [Hci ->].
        { clear -Hcin. destruct ci; [by apply elem_of_list_singleton in Hcin|by apply elem_of_nil in Hcin]. }
        eexists. split; [apply lookup_adder; unfold adder_l; left|]. cbn [n_ty mk_node]. by rewrite Hci.
  Qed.

  Theorem adder_outputs : outputs c = list_to_set (names "out_" w ++ (if co then ["cout"] else [])).
  Proof.
    apply set_eq. intros n. rewrite elem_of_outputs, elem_of_list_to_set, !elem_of_app, !elem_of_names. split.
    - intros (i & Hn%lookup_adder & Ho). apply adder_l_cases in Hn as [(_ & _ & Hf)|[(k & _ & _ & _ & Hf)|[(k & Hk & -> & _)|[(-> & -> & _)|[_ Hf]]]]]; try congruence.
      + left. eauto.
      + right. by left.
    - intros [(k & Hk & ->)|Hco].
      + eexists. split; [apply lookup_adder, (in_slice k _ Hk); unfold adder_slice; apply elem_of_app; left; right; right; left|done].
      + assert (co = true ∧ n = "cout") as [Hcot ->].
        { clear -Hco. destruct co; [by apply elem_of_list_singleton in Hco|by apply elem_of_nil in Hco]. }
        eexists. split; [apply lookup_adder; unfold adder_l; right; apply elem_of_app; right; rewrite Hcot; left|done].
  Qed.
End adder_io.
