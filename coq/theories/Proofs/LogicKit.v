(* C13 toolkit: characters of decimal names, gate values on explicit operand lists, consistent valuations of
   list-built circuits, little-endian numbers. *)
From Coq Require Import Ascii.
From stdpp Require Import strings gmap sets fin_sets pretty numbers.
From CG Require Export Proofs.LogicOracle.
From CG Require Import Base.Fold.
Open Scope string_scope.
Open Scope list_scope.   (* ++ is list append here; string append is written +:+ *)

(* std++ makes string append `simpl never`; here names like "fa_" +:+ pretty i must compute on their literal prefix *)
Lemma sapp_cons c s t : String c s +:+ t = String c (s +:+ t). Proof. done. Qed.
Lemma sapp_nil t : "" +:+ t = t. Proof. done. Qed.

(* ------------------------------------------------------------------ decimal names *)
Definition is_digit (c : ascii) : bool := let k := nat_of_ascii c in ((48 <=? k)%nat && (k <=? 57)%nat).
Fixpoint str_all (P : ascii → bool) (s : string) : bool :=
  match s with EmptyString => true | String c r => P c && str_all P r end.

Lemma pretty_N_char_digit x : is_digit (pretty_N_char x) = true.
Proof. unfold pretty_N_char. by repeat case_match. Qed.
Lemma pretty_N_go_digits x s : str_all is_digit s = true → str_all is_digit (pretty_N_go x s) = true.
Proof.
  revert s. induction (N.lt_wf_0 x) as [x _ IH]; intros s Hs.
  assert (x = 0 ∨ 0 < x)%N as [->|?] by lia; [by rewrite pretty_N_go_0|].
  rewrite pretty_N_go_step by done. apply IH; [by apply N.div_lt|].
  simpl. by rewrite pretty_N_char_digit.
Qed.
Lemma pretty_nat_digits (i : nat) : str_all is_digit (pretty i) = true.
Proof.
  unfold pretty, pretty_nat, pretty, pretty_N. case_decide; [done|]. by apply pretty_N_go_digits.
Qed.

(* the text after the first underscore, and its leading digits: recovers i from "fa_<i>_x", "a_<i>", ... *)
Fixpoint after_us (s : string) : string :=
  match s with EmptyString => EmptyString | String c r => if Ascii.eqb c "_" then r else after_us r end.
Fixpoint take_digits (s : string) : string :=
  match s with EmptyString => EmptyString | String c r => if is_digit c then String c (take_digits r) else EmptyString end.
Definition ends_digits (t : string) : Prop := t = "" ∨ ∃ c r, t = String c r ∧ is_digit c = false.
Lemma take_digits_app a t : str_all is_digit a = true → ends_digits t → take_digits (a +:+ t) = a.
Proof.
  intros Ha Ht. induction a as [|c a IH]; simpl in *.
  - destruct Ht as [->|(c & r & -> & Hc)]; [done|]. simpl. by rewrite Hc.
  - apply andb_true_iff in Ha as [Hc Ha]. rewrite Hc. f_equal. by apply IH.
Qed.
Lemma take_digits_pretty (i : nat) t : ends_digits t → take_digits (pretty i +:+ t) = pretty i.
Proof. apply take_digits_app, pretty_nat_digits. Qed.
Lemma string_app_empty_r s : s +:+ "" = s.
Proof. induction s as [|c s IH]; [done|]. rewrite sapp_cons. f_equal. exact IH. Qed.
Lemma take_digits_pretty0 (i : nat) : take_digits (pretty i) = pretty i.
Proof.
  transitivity (take_digits (pretty i +:+ "")); [by rewrite string_app_empty_r|].
  apply take_digits_pretty. by left.
Qed.
Lemma str_all_app P a b : str_all P (a +:+ b) = str_all P a && str_all P b.
Proof. induction a as [|c a IH]; [done|]. rewrite sapp_cons. simpl. by rewrite IH, andb_assoc. Qed.
(* no dot in a name made of non-dot pieces *)
Definition not_dot (c : ascii) : bool := negb (Ascii.eqb c ".").
Lemma digit_not_dot s : str_all is_digit s = true → str_all not_dot s = true.
Proof.
  induction s as [|c s IH]; [done|]. simpl. intros [Hc Hs]%andb_true_iff. rewrite IH by done.
  rewrite andb_true_r. unfold not_dot. destruct (Ascii.eqb_spec c "."); [subst; done|done].
Qed.
Lemma pretty_not_dot (i : nat) : str_all not_dot (pretty i) = true.
Proof. apply digit_not_dot, pretty_nat_digits. Qed.

(* ------------------------------------------------------------------ gate values on explicit operand lists *)
Lemma gate_val_list t v (l : list string) : NoDup l →
  gate_val t v (list_to_set l) = xorb (g_inv t) (gfold t (v <$> l)).
Proof.
  intros Hl. unfold gate_val. f_equal. apply gfold_perm, fmap_Permutation. by apply elements_list_to_set.
Qed.
Lemma gate_val_1 t v a : gate_val t v (list_to_set [a]) = xorb (g_inv t) (g_op t (v a) (g_unit t)).
Proof. rewrite gate_val_list; [done|]. apply NoDup_singleton. Qed.
Lemma gate_val_2 t v a b : a ≠ b →
  gate_val t v (list_to_set [a; b]) = xorb (g_inv t) (g_op t (v a) (g_op t (v b) (g_unit t))).
Proof.
  intros H. rewrite gate_val_list; [done|]. apply NoDup_cons. split; [set_solver|apply NoDup_singleton].
Qed.
(* and / or over arbitrary operand sets *)
Lemma gfold_and l : gfold And l = true ↔ ∀ b, b ∈ l → b = true.
Proof.
  induction l as [|x l IH]; simpl; [set_solver|]. unfold gfold in *. simpl. rewrite andb_true_iff, IH.
  setoid_rewrite elem_of_cons. naive_solver.
Qed.
Lemma gfold_or l : gfold Or l = true ↔ ∃ b, b ∈ l ∧ b = true.
Proof.
  induction l as [|x l IH]; simpl; [set_solver|]. unfold gfold in *. simpl. rewrite orb_true_iff, IH.
  setoid_rewrite elem_of_cons. naive_solver.
Qed.
Lemma gate_val_and v (s : gset string) : gate_val And v s = true ↔ ∀ x, x ∈ s → v x = true.
Proof.
  unfold gate_val. change (foldr (g_op And) (g_unit And) (v <$> elements s)) with (gfold And (v <$> elements s)).
  change (g_inv And) with false. rewrite xorb_false_l, gfold_and. split.
  - intros H x Hx. apply H, elem_of_list_fmap. exists x. by rewrite elem_of_elements.
  - intros H b (x & -> & Hx%elem_of_elements)%elem_of_list_fmap. by apply H.
Qed.
Lemma gate_val_or v (s : gset string) : gate_val Or v s = true ↔ ∃ x, x ∈ s ∧ v x = true.
Proof.
  unfold gate_val. change (foldr (g_op Or) (g_unit Or) (v <$> elements s)) with (gfold Or (v <$> elements s)).
  change (g_inv Or) with false. rewrite xorb_false_l, gfold_or. split.
  - intros (b & (x & -> & Hx%elem_of_elements)%elem_of_list_fmap & Hb). eauto.
  - intros (x & Hx & Hv). exists (v x). split; [|done]. apply elem_of_list_fmap. exists x. by rewrite elem_of_elements.
Qed.

(* node_ok for the node shapes the generators produce *)
Lemma nonempty_list_to_set (a : string) l : (list_to_set (a :: l) : gset string) ≠ ∅.
Proof. rewrite list_to_set_cons. set_solver. Qed.
Lemma node_ok_buf v n o a : node_ok v n (mk_node Buf o (list_to_set [a])) ↔ v n = v a.
Proof.
  unfold node_ok, is_free. cbn [mk_node n_ty n_fi]. rewrite bool_decide_eq_false_2 by apply nonempty_list_to_set.
  rewrite gate_val_1. simpl. by destruct (v a).
Qed.
Lemma node_ok_not v n o a : node_ok v n (mk_node Not o (list_to_set [a])) ↔ v n = negb (v a).
Proof.
  unfold node_ok, is_free. cbn [mk_node n_ty n_fi]. rewrite bool_decide_eq_false_2 by apply nonempty_list_to_set.
  rewrite gate_val_1. simpl. by destruct (v a).
Qed.
Lemma node_ok_and2 v n o a b : a ≠ b → node_ok v n (mk_node And o (list_to_set [a; b])) ↔ v n = v a && v b.
Proof. intros H. unfold node_ok, is_free. cbn [mk_node n_ty n_fi]. rewrite gate_val_2 by done. simpl. by destruct (v a), (v b). Qed.
Lemma node_ok_or2 v n o a b : a ≠ b → node_ok v n (mk_node Or o (list_to_set [a; b])) ↔ v n = v a || v b.
Proof. intros H. unfold node_ok, is_free. cbn [mk_node n_ty n_fi]. rewrite gate_val_2 by done. simpl. by destruct (v a), (v b). Qed.
Lemma node_ok_xor2 v n o a b : a ≠ b → node_ok v n (mk_node Xor o (list_to_set [a; b])) ↔ v n = xorb (v a) (v b).
Proof. intros H. unfold node_ok, is_free. cbn [mk_node n_ty n_fi]. rewrite gate_val_2 by done. simpl. by destruct (v a), (v b). Qed.
Lemma node_ok_c0 v n o : node_ok v n (mk_node C0 o (list_to_set [])) ↔ v n = false.
Proof. done. Qed.

(* ------------------------------------------------------------------ list-built circuits *)
Lemma consistent_list_to_map (l : list (string * ninfo)) v :
  NoDup (l.*1) → consistent (list_to_map l) v → ∀ n i, (n, i) ∈ l → node_ok v n i.
Proof. intros Hnd Hc n i Hin. apply Hc. by apply elem_of_list_to_map_1. Qed.

Lemma elem_of_flat_map {A B} (f : A → list B) (l : list A) y :
  y ∈ flat_map f l ↔ ∃ x, x ∈ l ∧ y ∈ f x.
Proof.
  rewrite elem_of_list_In, in_flat_map. setoid_rewrite elem_of_list_In. done.
Qed.
Lemma fmap_flat_map {A B C} (g : B → C) (f : A → list B) (l : list A) :
  g <$> flat_map f l = flat_map (λ x, g <$> f x) l.
Proof. induction l as [|x l IH]; [done|]. simpl. by rewrite fmap_app, IH. Qed.
Lemma NoDup_flat_map {A B} (f : A → list B) (l : list A) :
  NoDup l → (∀ x, x ∈ l → NoDup (f x)) → (∀ x y z, x ∈ l → y ∈ l → z ∈ f x → z ∈ f y → x = y) →
  NoDup (flat_map f l).
Proof.
  intros Hl. induction Hl as [|x l Hx Hl IH]; intros Hf Hdisj; simpl; [constructor|].
  apply NoDup_app. split; [apply Hf; left|]. split.
  - intros z Hz (y & Hy & Hzy)%elem_of_flat_map.
    assert (x = y) as -> by (eapply Hdisj; eauto; [left|by right]). done.
  - apply IH; [intros; apply Hf; by right|]. intros a b z Ha Hb. apply Hdisj; by right.
Qed.

(* ------------------------------------------------------------------ little-endian numbers *)
Lemma foldr_bits (b : nat → bool) l acc :
  foldr (λ i a, (N.b2n (b i) + 2 * a)%N) acc l
  = (foldr (λ i a, (N.b2n (b i) + 2 * a)%N) 0 l + 2 ^ N.of_nat (length l) * acc)%N.
Proof.
  induction l as [|x l IH]; cbn [foldr length].
  - change (N.of_nat 0) with 0%N. rewrite N.pow_0_r. lia.
  - rewrite IH, Nat2N.inj_succ, N.pow_succ_r'. lia.
Qed.
Lemma bitsN_S v p w : bitsN v p (S w) = (bitsN v p w + 2 ^ N.of_nat w * N.b2n (v (p +:+ pretty w)))%N.
Proof.
  unfold bitsN. rewrite seq_S, foldr_app. simpl.
  rewrite (foldr_bits (λ i, v (p +:+ pretty i))). rewrite seq_length. f_equal. lia.
Qed.
Lemma bitsN_lt v p w : (bitsN v p w < 2 ^ N.of_nat w)%N.
Proof.
  induction w as [|w IH]; [unfold bitsN; simpl; lia|]. rewrite bitsN_S, Nat2N.inj_succ, N.pow_succ_r'.
  destruct (v (p +:+ pretty w)); cbn [N.b2n]; lia.
Qed.
Lemma bitsN_ext v v' p w : (∀ i, i < w → v (p +:+ pretty i) = v' (p +:+ pretty i)) → bitsN v p w = bitsN v' p w.
Proof.
  induction w as [|w IH]; [done|]. intros H. rewrite !bitsN_S, IH, H by (intros; try apply H; lia). done.
Qed.
