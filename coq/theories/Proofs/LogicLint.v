(* C13: the generated blocks are lint-clean, for every width (adder; half/full adder by evaluation). *)
From Coq Require Import Ascii.
From stdpp Require Import strings gmap sets fin_sets pretty numbers.
From CG Require Export Proofs.LogicKit.
From CG Require Import Model.Lint Proofs.LintProofs Proofs.LogicProofs.
Open Scope string_scope.
Open Scope list_scope.

Lemma lint_tables_ok : tables_ok gen_tables = true.
Proof. vm_compute. reflexivity. Qed.

Lemma has_dot_false s : str_all not_dot s = true → has_dot s = false.
Proof.
  induction s as [|c s IH]; [done|]. simpl. intros [Hc Hs]%andb_true_iff. unfold not_dot in Hc.
  destruct (Ascii.eqb c "."); [done|]. by apply IH.
Qed.

Lemma pair_eq' {A B} (a c : A) (b d : B) : (a, b) = (c, d) → a = c ∧ b = d.
Proof. by intros [= -> ->]. Qed.
Ltac in_list := repeat first [apply elem_of_list_here | apply elem_of_list_further].
Ltac not_in_list H := apply elem_of_list_In in H; simpl in H; intuition discriminate.

(* the node shapes the generators produce never violate a lint rule (default flags) *)
Section shapes.
  Context (C : Circuit) (n : string) (o : bool).
  Hypothesis Hdot : has_dot n = false.
  Local Ltac shape :=
    unfold node_violates; cbn [n_ty n_fi n_out mk_node];
    intros [H|[[H _]|[[H1 H2]|[[H _]|[[H1 H2]|[(_ & H1 & H2)|[[H _]|[H _]]]]]]]];
    [ apply H; unfold doc_supported; in_list | congruence | .. | discriminate H | discriminate H ].
  Lemma nv_input : ¬ node_violates C default_flags n (mk_node Input o (list_to_set [])).
  Proof. shape; [by apply H2|discriminate H|not_in_list H1|not_in_list H1]. Qed.
  Lemma nv_c0 : ¬ node_violates C default_flags n (mk_node C0 o (list_to_set [])).
  Proof. shape; [by apply H2|discriminate H|not_in_list H1|not_in_list H1]. Qed.
  Lemma nv_buf a : ¬ node_violates C default_flags n (mk_node Buf o (list_to_set [a])).
  Proof.
    shape; [not_in_list H1|discriminate H| |by apply nonempty_list_to_set in H2].
    rewrite list_to_set_singleton, size_singleton in H2. lia.
  Qed.
  Lemma nv_not a : ¬ node_violates C default_flags n (mk_node Not o (list_to_set [a])).
  Proof.
    shape; [not_in_list H1|discriminate H| |by apply nonempty_list_to_set in H2].
    rewrite list_to_set_singleton, size_singleton in H2. lia.
  Qed.
  Lemma nv_and a l : ¬ node_violates C default_flags n (mk_node And o (list_to_set (a :: l))).
  Proof. shape; [not_in_list H1|discriminate H|not_in_list H1|by apply nonempty_list_to_set in H2]. Qed.
  Lemma nv_or a l : ¬ node_violates C default_flags n (mk_node Or o (list_to_set (a :: l))).
  Proof. shape; [not_in_list H1|discriminate H|not_in_list H1|by apply nonempty_list_to_set in H2]. Qed.
  Lemma nv_xor a l : ¬ node_violates C default_flags n (mk_node Xor o (list_to_set (a :: l))).
  Proof. shape; [not_in_list H1|discriminate H|not_in_list H1|by apply nonempty_list_to_set in H2]. Qed.
End shapes.

(* a blackbox-free circuit built from a node list is lint-clean when no listed node violates a rule *)
Lemma lint_clean_list name l :
  (∀ n i, (n, i) ∈ l → ¬ node_violates (mkC name l) default_flags n i) → lint_clean (mkC name l).
Proof.
  intros H. apply (lint_ok_iff gen_tables lint_tables_ok). intros [(n & i & Hn & Hv)|(inst & d & Hd & _)].
  - apply (H n i); [|done]. by apply elem_of_list_to_map_2.
  - simpl in Hd. by rewrite lookup_empty in Hd.
Qed.

Ltac no_dot := apply has_dot_false; unfold pre, bitname; rewrite ?str_all_app, ?pretty_not_dot; reflexivity.

Lemma fa_core_clean C (q : string → string) o n i :
  (∀ s, str_all not_dot s = true → has_dot (q s) = false) → (n, i) ∈ fa_core q o → ¬ node_violates C default_flags n i.
Proof.
  intros Hq Hin. unfold fa_core, nd in Hin. split_mem Hin; apply pair_eq' in Hin as [-> ->];
    first [apply nv_buf | apply nv_and | apply nv_or | apply nv_xor]; by apply Hq.
Qed.

Lemma half_adder_lint_clean : lint_clean half_adder.
Proof. by vm_compute. Qed.
Lemma full_adder_lint_clean : lint_clean full_adder.
Proof. by vm_compute. Qed.

Theorem adder_lint_clean w ci co : lint_clean (adder w ci co).
Proof.
  apply lint_clean_list. intros n i Hin. unfold adder_l, nd in Hin.
  apply elem_of_cons in Hin as [Hin|Hin]; [|apply elem_of_app in Hin as [Hin|Hin]].
  - apply pair_eq' in Hin as [-> ->]. destruct ci; [by apply nv_input|by apply nv_c0].
  - apply elem_of_flat_map in Hin as (k & _ & Hin). unfold adder_slice, fa_sub, nd in Hin.
    apply elem_of_app in Hin as [Hin|Hin]; [|apply elem_of_app in Hin as [Hin|Hin]].
    + split_mem Hin; apply pair_eq' in Hin as [-> ->]; first [apply nv_input | apply nv_buf]; no_dot.
    + split_mem Hin; apply pair_eq' in Hin as [-> ->]; apply nv_buf; no_dot.
    + eapply fa_core_clean; [|exact Hin]. intros s Hs. apply has_dot_false. unfold pre, bitname.
      rewrite !str_all_app, pretty_not_dot, Hs. reflexivity.
  - destruct co; [|by apply elem_of_nil in Hin]. apply elem_of_list_singleton in Hin. apply pair_eq' in Hin as [-> ->].
    by apply nv_buf.
Qed.
