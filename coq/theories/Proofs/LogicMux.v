(* C13, mux(w) for every width: the node list of logic.mux, its meaning under every consistent valuation
   (out = in_<value of the select lines>, false when that value is >= w), lint cleanliness, interface. *)
From Coq Require Import Ascii.
From stdpp Require Import strings gmap sets fin_sets pretty numbers.
From CG Require Export Proofs.LogicKit.
From CG Require Import Base.Fold Proofs.LogicProofs Model.Lint Proofs.LintProofs.
Open Scope string_scope.
Open Scope list_scope.   (* ++ is list append; string append is +:+ *)

(* ------------------------------------------------------------------ the model is the closed-form node list *)
Lemma mux_model w : 1 ≤ w → mux w = Ok (mkC "mux" (mux_l w (sel_width w))).
Proof. intros H. unfold mux. rewrite clog2_log2_up by lia. done. Qed.
Lemma mux_zero : mux 0 = Raise ValueError.
Proof. unfold mux. rewrite clog2_rejects by lia. done. Qed.

(* ------------------------------------------------------------------ itertools.product over the reversed pairs *)
Lemma bind_singleton {A B} (f : A → B) (l : list A) : (t ← l; [f t]) = f <$> l.
Proof. induction l as [|x l IH]; [done|]. csimpl. by rewrite IH. Qed.

Lemma mux_tuples_S k : mux_tuples (S k) =
  ((bitname "not_sel_" k ::.) <$> mux_tuples k) ++ ((bitname "sel_" k ::.) <$> mux_tuples k).
Proof.
  unfold mux_tuples. rewrite seq_S, fmap_app, reverse_app.
  change (reverse (sel_pair <$> [0 + k])) with [sel_pair k].
  cbn [app product]. change (sel_pair k) with [bitname "not_sel_" k; bitname "sel_" k].
  set (P := product _). cbn [mbind list_bind app]. rewrite app_nil_r.
  rewrite !bind_singleton. done.
Qed.

Lemma mux_tuples_length k : length (mux_tuples k) = 2 ^ k.
Proof.
  induction k as [|k IH]; [done|]. rewrite mux_tuples_S, app_length, !fmap_length, IH, Nat.pow_succ_r'. lia.
Qed.

Lemma pow2_N k : N.of_nat (2 ^ k) = (2 ^ N.of_nat k)%N.
Proof. by rewrite Nat2N.inj_pow. Qed.

Lemma mux_tuples_sel v k :
  (∀ j, j < k → v (bitname "not_sel_" j) = negb (v (bitname "sel_" j))) →
  ∀ i t, mux_tuples k !! i = Some t →
    ((∀ x, x ∈ t → v x = true) ↔ N.to_nat (bitsN v "sel_" k) = i).
Proof.
  induction k as [|k IH]; intros Hn i t Hi.
  - destruct i as [|i]; [|done]. injection Hi as <-. split; [done|]. intros _ x Hx. by apply elem_of_nil in Hx.
  - rewrite mux_tuples_S in Hi. rewrite bitsN_S.
    pose proof (bitsN_lt v "sel_" k) as Hlt. rewrite <- pow2_N in *.
    pose proof (Hn k ltac:(lia)) as Hk. unfold bitname in Hk.
    assert (IH' := IH ltac:(intros; apply Hn; lia)). clear IH.
    destruct (decide (i < 2 ^ k)) as [Hlt'|Hge].
    + rewrite lookup_app_l in Hi by (by rewrite fmap_length, mux_tuples_length).
      rewrite list_lookup_fmap in Hi. destruct (mux_tuples k !! i) as [t'|] eqn:Ht'; [|done].
      injection Hi as <-. specialize (IH' _ _ Ht').
      split.
      * intros H. assert (v ("sel_" +:+ pretty k) = false) as ->.
        { apply negb_true_iff. rewrite <- Hk. apply H. left. }
        cbn [N.b2n]. rewrite N.mul_0_r, N.add_0_r. apply IH'. intros x Hx. apply H. by right.
      * intros H. destruct (v ("sel_" +:+ pretty k)) eqn:E; cbn [N.b2n] in H; [lia|].
        rewrite N.mul_0_r, N.add_0_r in H. intros x [->|Hx]%elem_of_cons.
        -- unfold bitname. by rewrite Hk.
        -- by apply IH'.
    + rewrite lookup_app_r in Hi by (rewrite fmap_length, mux_tuples_length; lia).
      rewrite fmap_length, mux_tuples_length in Hi.
      rewrite list_lookup_fmap in Hi. destruct (mux_tuples k !! (i - 2 ^ k)) as [t'|] eqn:Ht'; [|done].
      injection Hi as <-. specialize (IH' _ _ Ht').
      split.
      * intros H. assert (v ("sel_" +:+ pretty k) = true) as -> by (apply H; left).
        cbn [N.b2n]. assert (N.to_nat (bitsN v "sel_" k) = i - 2 ^ k); [|lia].
        apply IH'. intros x Hx. apply H. by right.
      * intros H. destruct (v ("sel_" +:+ pretty k)) eqn:E; cbn [N.b2n] in H; [|lia].
        intros x [->|Hx]%elem_of_cons; [done|]. revert x Hx. apply IH'. lia.
Qed.


(* ------------------------------------------------------------------ the node list *)
Lemma elem_of_mux_l w k p : p ∈ mux_l w k ↔
    (∃ i, i < w ∧ p = nd (bitname "in_" i) Input false [])
  ∨ (∃ j, j < k ∧ p = nd (bitname "sel_" j) Input false [])
  ∨ (∃ j, j < k ∧ p = nd (bitname "not_sel_" j) Not false [bitname "sel_" j])
  ∨ p = nd "out" Or true (bitname "and_" <$> seq 0 w)
  ∨ (∃ i sel, take w (mux_tuples k) !! i = Some sel ∧ p = nd (bitname "and_" i) And false (sel ++ [bitname "in_" i])).
Proof.
  unfold mux_l. rewrite !elem_of_app, elem_of_list_fmap, elem_of_flat_map, elem_of_list_singleton, elem_of_lookup_imap.
  setoid_rewrite elem_of_seq. setoid_rewrite elem_of_cons. setoid_rewrite elem_of_list_singleton.
  split.
  - intros [(i & -> & Hi)|[(j & Hj & [->| ->])|[->|(i & sel & -> & Hs)]]].
    + left. exists i. split; [lia|done].
    + right; left. exists j. split; [lia|done].
    + right; right; left. exists j. split; [lia|done].
    + right; right; right; by left.
    + right; right; right; right. by exists i, sel.
  - intros [(i & Hi & ->)|[(j & Hj & ->)|[(j & Hj & ->)|[->|(i & sel & Hs & ->)]]]].
    + left. exists i. split; [done|lia].
    + right; left. exists j. split; [lia|]. by left.
    + right; left. exists j. split; [lia|]. by right.
    + right; right; by left.
    + right; right; right. by exists i, sel.
Qed.

Lemma bitname_inj p i j : bitname p i = bitname p j → i = j.
Proof. unfold bitname. intros H%(inj (String.append p)). by apply (inj pretty) in H. Qed.

Ltac name_clash H := exfalso; unfold bitname in H; rewrite ?sapp_cons, ?sapp_nil in H; discriminate H.

Lemma mux_l_functional w k n x y : (n, x) ∈ mux_l w k → (n, y) ∈ mux_l w k → x = y.
Proof.
  rewrite !elem_of_mux_l. unfold nd.
  intros [(i & Hi & [-> ->]%pair_equal_spec)|[(j & Hj & [-> ->]%pair_equal_spec)|[(j & Hj & [-> ->]%pair_equal_spec)|[[-> ->]%pair_equal_spec|(i & sel & Hs & [-> ->]%pair_equal_spec)]]]];
  intros [(i' & Hi' & [E ->]%pair_equal_spec)|[(j' & Hj' & [E ->]%pair_equal_spec)|[(j' & Hj' & [E ->]%pair_equal_spec)|[[E ->]%pair_equal_spec|(i' & sel' & Hs' & [E ->]%pair_equal_spec)]]]];
    try done; try (name_clash E).
  - apply bitname_inj in E as ->. done.
  - apply bitname_inj in E as ->. congruence.
Qed.

Lemma mux_l_lookup w k n x : (n, x) ∈ mux_l w k → (list_to_map (mux_l w k) : circuit) !! n = Some x.
Proof. intros H. apply elem_of_list_to_map_1'; [|done]. intros y Hy. by eapply mux_l_functional. Qed.

Lemma sel_width_spec w : 1 ≤ w → w ≤ 2 ^ sel_width w.
Proof.
  intros H. destruct (clog2_spec (Z.of_nat w) (sel_width w)) as [Hle _]; [lia|by apply clog2_log2_up; lia|].
  apply Nat2Z.inj_le. rewrite Nat2Z.inj_pow. done.
Qed.

Section mux_sem.
  Context (w k : nat) (v : val).
  Hypothesis Hw : w ≤ 2 ^ k.
  Hypothesis Hc : consistent (list_to_map (mux_l w k)) v.

  Local Lemma mux_ok n x : (n, x) ∈ mux_l w k → node_ok v n x.
  Proof. intros H. apply Hc. by apply mux_l_lookup. Qed.

  Local Lemma mux_not j : j < k → v (bitname "not_sel_" j) = negb (v (bitname "sel_" j)).
  Proof.
    intros Hj. apply (node_ok_not v _ false). apply (mux_ok _ (mk_node Not false (list_to_set [bitname "sel_" j]))).
    apply elem_of_mux_l. right; right; left. by exists j.
  Qed.

  Local Lemma mux_out : v "out" = true ↔ ∃ i, i < w ∧ v (bitname "and_" i) = true.
  Proof.
    assert (H : node_ok v "out" (mk_node Or true (list_to_set (bitname "and_" <$> seq 0 w)))).
    { apply mux_ok, elem_of_mux_l. right; right; right; by left. }
    unfold node_ok, is_free in H. cbn [mk_node n_ty n_fi] in H. rewrite H, gate_val_or.
    setoid_rewrite elem_of_list_to_set. setoid_rewrite elem_of_list_fmap. setoid_rewrite elem_of_seq.
    split.
    - intros (x & (i & -> & Hi) & Hx). exists i. split; [lia|done].
    - intros (i & Hi & Hx). exists (bitname "and_" i). split; [|done]. exists i. split; [done|lia].
  Qed.

  Local Lemma mux_and i sel : take w (mux_tuples k) !! i = Some sel →
    v (bitname "and_" i) = true ↔ (∀ x, x ∈ sel → v x = true) ∧ v (bitname "in_" i) = true.
  Proof.
    intros Hs.
    assert (H : node_ok v (bitname "and_" i) (mk_node And false (list_to_set (sel ++ [bitname "in_" i])))).
    { apply mux_ok, elem_of_mux_l. right; right; right; right. by exists i, sel. }
    unfold node_ok, is_free in H. cbn [mk_node n_ty n_fi] in H. rewrite H, gate_val_and.
    setoid_rewrite elem_of_list_to_set. setoid_rewrite elem_of_app. setoid_rewrite elem_of_list_singleton.
    split.
    - intros Hx. split; [intros x ?|]; apply Hx; auto.
    - intros [H1 H2] x [?| ->]; auto.
  Qed.

  Lemma mux_sem : let i := N.to_nat (bitsN v "sel_" k) in
    v "out" = if (i <? w)%nat then v (bitname "in_" i) else false.
  Proof.
    intros s.
    assert (Hs : s < 2 ^ k).
    { unfold s. pose proof (bitsN_lt v "sel_" k) as Hlt. rewrite <- pow2_N in Hlt. lia. }
    assert (Hiff : v "out" = true ↔ s < w ∧ v (bitname "in_" s) = true).
    { rewrite mux_out. split.
      - intros (i & Hi & Ha).
        destruct (lookup_lt_is_Some_2 (mux_tuples k) i) as [t Ht]; [rewrite mux_tuples_length; lia|].
        assert (Ht' : take w (mux_tuples k) !! i = Some t) by (by rewrite lookup_take).
        destruct (proj1 (mux_and _ _ Ht') Ha) as [Hl Hin].
        pose proof (proj1 (mux_tuples_sel v k mux_not _ _ Ht) Hl) as Hsi. fold s in Hsi. by subst i.
      - intros [Hlt Hin]. exists s. split; [done|].
        destruct (lookup_lt_is_Some_2 (mux_tuples k) s) as [t Ht]; [by rewrite mux_tuples_length|].
        assert (Ht' : take w (mux_tuples k) !! s = Some t) by (by rewrite lookup_take).
        apply (mux_and _ _ Ht'). split; [|done]. by apply (mux_tuples_sel v k mux_not _ _ Ht). }
    destruct (Nat.ltb_spec s w) as [Hlt|Hge].
    - destruct (v (bitname "in_" s)) eqn:E; [by apply Hiff|].
      destruct (v "out") eqn:Eo; [|done]. destruct Hiff as [Hiff _]. destruct (Hiff eq_refl). congruence.
    - destruct (v "out") eqn:Eo; [|done]. destruct Hiff as [Hiff _]. destruct (Hiff eq_refl). lia.
  Qed.
End mux_sem.

Theorem mux_correct w C v : 1 ≤ w → mux w = Ok C → consistent (c_g C) v →
  let k := sel_width w in let i := N.to_nat (bitsN v "sel_" k) in
  v "out" = if (i <? w)%nat then v (bitname "in_" i) else false.
Proof.
  intros Hw. rewrite mux_model by done. intros [= <-] Hc. cbn [c_g mkC] in Hc.
  apply mux_sem; [by apply sel_width_spec|done].
Qed.

(* ------------------------------------------------------------------ lint *)
Lemma mux_tables_ok : tables_ok gen_tables = true.
Proof. vm_compute. reflexivity. Qed.

Lemma has_dot_false s : str_all not_dot s = true → has_dot s = false.
Proof.
  induction s as [|a s IH]; [done|]. cbn [str_all has_dot]. unfold not_dot at 1.
  intros [Ha Hs]%andb_true_iff. destruct (Ascii.eqb a "."); [done|]. by apply IH.
Qed.
Lemma bitname_no_dot p i : str_all not_dot p = true → has_dot (bitname p i) = false.
Proof. intros H. apply has_dot_false. unfold bitname. by rewrite str_all_app, H, pretty_not_dot. Qed.

Lemma clean_node C n t o (fi : gset string) : has_dot n = false →
  match t with Input => fi = ∅ | Not => size fi = 1 | And | Or => fi ≠ ∅ | _ => False end →
  ¬ node_violates C default_flags n (mk_node t o fi).
Proof.
  intros Hd Ht. unfold node_violates. cbn [mk_node n_ty n_fi n_out]. rewrite Hd.
  change (undriven default_flags) with true. change (single_in default_flags) with false.
  change (unloaded default_flags) with false.
  unfold doc_supported, doc_no_fanin, doc_single, doc_multi.
  destruct t; try done.
  all: intros [H|[[H _]|[[H1 H2]|[[H _]|[[H1 H2]|[(_ & H1 & H2)|[[H _]|[H _]]]]]]]]; try done.
  all: try (apply H; set_solver). all: try (clear -H1; set_solver).
  all: try (subst; rewrite ?size_empty in *; done || lia).
Qed.

Lemma size_list_to_set_1 (a : string) : size (list_to_set [a] : gset string) = 1.
Proof. rewrite list_to_set_cons, list_to_set_nil, (right_id_L ∅ (∪)). apply size_singleton. Qed.
Lemma list_to_set_nonempty (l : list string) : l ≠ [] → (list_to_set l : gset string) ≠ ∅.
Proof. destruct l as [|a l]; [done|]. intros _. apply nonempty_list_to_set. Qed.

Theorem mux_lint_clean w C : 1 ≤ w → mux w = Ok C → lint_clean C.
Proof.
  intros Hw. rewrite mux_model by done. intros [= <-].
  unfold lint_clean, lint. apply (lint_ok_iff gen_tables mux_tables_ok).
  intros [(n & i & Hn & Hv)|(inst & d & Hd & _)]; [|cbn [c_bbs mkC] in Hd; by rewrite lookup_empty in Hd].
  cbn [c_g mkC] in Hn. apply elem_of_list_to_map_2, elem_of_mux_l in Hn. revert Hv. unfold nd in Hn.
  destruct Hn as [(i' & Hi & [= -> ->])|[(j & Hj & [= -> ->])|[(j & Hj & [= -> ->])|[[= -> ->]|(i' & sel & Hs & [= -> ->])]]]];
    apply clean_node; try (by apply bitname_no_dot); try done.
  - apply size_list_to_set_1.
  - apply list_to_set_nonempty. destruct w; [lia|]. done.
  - apply list_to_set_nonempty. by destruct sel.
Qed.

(* ------------------------------------------------------------------ interface *)
Lemma mux_io w C : 1 ≤ w → mux w = Ok C →
  inputs (c_g C) = list_to_set (names "in_" w ++ names "sel_" (sel_width w)) ∧ outputs (c_g C) = {["out"]}.
Proof.
  intros Hw. rewrite mux_model by done. intros [= <-]. cbn [c_g mkC]. set (k := sel_width w).
  split; apply set_eq; intros n.
  - rewrite elem_of_inputs, elem_of_list_to_set, elem_of_app. unfold names. rewrite !elem_of_list_fmap.
    setoid_rewrite elem_of_seq. split.
    + intros (x & Hn & Hty). apply elem_of_list_to_map_2, elem_of_mux_l in Hn. unfold nd in Hn.
      destruct Hn as [(i' & Hi & [= -> ->])|[(j & Hj & [= -> ->])|[(j & Hj & [= -> ->])|[[= -> ->]|(i' & sel & Hs & [= -> ->])]]]];
        try discriminate Hty.
      * left. exists i'. split; [done|lia].
      * right. exists j. split; [done|lia].
    + intros [(i & -> & Hi)|(j & -> & Hj)].
      * exists (mk_node Input false (list_to_set [])). split; [|done]. apply mux_l_lookup, elem_of_mux_l.
        left. exists i. split; [lia|done].
      * exists (mk_node Input false (list_to_set [])). split; [|done]. apply mux_l_lookup, elem_of_mux_l.
        right; left. exists j. split; [lia|done].
  - rewrite elem_of_outputs, elem_of_singleton. split.
    + intros (x & Hn & Ho). apply elem_of_list_to_map_2, elem_of_mux_l in Hn. unfold nd in Hn.
      destruct Hn as [(i' & Hi & [= -> ->])|[(j & Hj & [= -> ->])|[(j & Hj & [= -> ->])|[[= -> ->]|(i' & sel & Hs & [= -> ->])]]]];
        try discriminate Ho. done.
    + intros ->. exists (mk_node Or true (list_to_set (bitname "and_" <$> seq 0 w))). split; [|done].
      apply mux_l_lookup, elem_of_mux_l. right; right; right; by left.
Qed.

Print Assumptions mux_correct.
Print Assumptions mux_lint_clean.
Print Assumptions mux_io.
