(* C13: specification vocabulary (numbers read off a valuation) and the executable oracle used by Run_C13,
   with the lemmas that tie each boolean to the Prop it decides. *)
From stdpp Require Import strings gmap sets fin_sets pretty numbers sorting.
From CG Require Export Base.Oracle Model.Logic.
Open Scope string_scope.

(* value of the little-endian bit vector p0, p1, ... p(w-1) under v   (p = "a_", "out_", ...) *)
Definition bitsN (v : val) (p : string) (w : nat) : N :=
  foldr (λ i acc, (N.b2n (v (p ++ pretty i)) + 2 * acc)%N) 0%N (seq 0 w).
(* number of ones among p0 .. p(w-1) *)
Definition onesN (v : val) (p : string) (w : nat) : N :=
  N.of_nat (length (filter (λ i, v (p ++ pretty i) = true) (seq 0 w))).
Definition names (s : string) (w : nat) : list string := bitname s <$> seq 0 w.

(* ---- a per-circuit certificate that makes evalc THE consistent valuation, for every assignment ---- *)
Definition boundedb (c : circuit) (r : gmap string nat) : bool :=
  bool_decide (map_Forall (λ n _, rank_of r n ≤ size c) c).
(* rank table by relaxation, stopping at the first fixpoint (depth + 1 rounds instead of size + 1); whatever it
   returns is CHECKED by check_rank / boundedb, so the early exit needs no proof *)
Fixpoint relax_fix (k : nat) (c : circuit) (r : gmap string nat) : gmap string nat :=
  match k with O => r | S k => let r' := relax c r in if bool_decide (r' = r) then r else relax_fix k c r' end.
Definition rank_fast (c : circuit) : gmap string nat := relax_fix (S (size c)) c ∅.
(* closedb with dom c computed once (convertible with Types.closedb; vm_compute shares the let) *)
Definition closedb_fast (c : circuit) : bool :=
  let d := dom c in bool_decide (map_Forall (λ _ i, n_fi i ⊆ d) c).
Definition cert_r (c : circuit) (r : gmap string nat) : bool := closedb_fast c && (check_rank c r && boundedb c r).
Definition certb (c : circuit) : bool := cert_r c (rank_fast c).

Lemma certb_sound c : certb c = true →
  closed c ∧ acyclic c ∧ ∀ a, consistent c (evalc c a) ∧
     ∀ v, consistent c v → agrees (free_nodes c) v a → agrees (dom c) v (evalc c a).
Proof.
  unfold certb, cert_r. change (closedb_fast c) with (closedb c). rewrite !andb_true_iff. intros (Hcl%closedb_spec & Hr & Hb).
  assert (Hac := check_rank_sound _ _ Hr).
  unfold check_rank in Hr. rewrite bool_decide_eq_true in Hr.
  unfold boundedb in Hb. rewrite bool_decide_eq_true in Hb.
  set (r := rank_fast c) in *.
  assert (Hrank : ∀ n i f, c !! n = Some i → f ∈ n_fi i → rank_of r f < rank_of r n).
  { intros n i f Hn Hf. exact (Hr n i Hn f Hf). }
  split; [done|]. split; [done|]. intros a.
  assert (Hc : consistent c (evalc c a)).
  { unfold evalc. apply (eval_consistent c (rank_of r) Hrank a (S (size c))); [|done].
    intros n [i Hn]%elem_of_dom. specialize (Hb n i Hn). simpl in Hb. lia. }
  split; [done|]. intros v Hv Ha.
  eapply (consistent_unique c (rank_of r) Hrank); eauto.
  intros n Hn. rewrite Ha by done.
  unfold free_nodes in Hn. apply elem_of_dom in Hn as [i Hi].
  apply map_filter_lookup_Some in Hi as [Hi Hf]. symmetry. unfold evalc. by eapply eval_free.
Qed.

(* all assignments of the free nodes (an assignment = the list of the names that are 1) *)
Definition lval (ones : list string) : val := λ n, bool_decide (n ∈ ones).
Definition free_vals (c : circuit) : list val := lval <$> subsets (elements (free_nodes c)).
Lemma free_vals_complete c (v : val) : ∃ a, a ∈ free_vals c ∧ ∀ n, n ∈ free_nodes c → a n = v n.
Proof.
  destruct (subsets_complete (elements (free_nodes c)) v) as (s' & Hin & Heq).
  exists (lval s'). split; [unfold free_vals; by apply elem_of_list_fmap_1|].
  intros n Hn%elem_of_elements. unfold lval. specialize (Heq n Hn).
  destruct (v n) eqn:E; [apply bool_decide_eq_true; tauto|apply bool_decide_eq_false].
  intros H. apply Heq in H. done.
Qed.
Definition forall_vals (c : circuit) (P : val → bool) : bool := forallb (λ a, P (evalc c a)) (free_vals c).

(* ---- the arithmetic specifications, evaluated on a circuit ---- *)
Definition io_ok (c : circuit) (ins outs : list string) : bool :=
  bool_decide (inputs c = list_to_set ins) && bool_decide (outputs c = list_to_set outs).

Definition half_adder_ok (c : circuit) : bool :=
  certb c && io_ok c ["x"; "y"] ["c"; "s"] &&
  forall_vals c (λ v, eqb (v "s") (xorb (v "x") (v "y")) && eqb (v "c") (v "x" && v "y")).
Definition full_adder_ok (c : circuit) : bool :=
  certb c && io_ok c ["x"; "y"; "cin"] ["s"; "cout"] &&
  forall_vals c (λ v, (N.b2n (v "s") + 2 * N.b2n (v "cout") =? N.b2n (v "x") + N.b2n (v "y") + N.b2n (v "cin"))%N).
Definition adder_ok (w : nat) (ci co : bool) (c : circuit) : bool :=
  certb c && io_ok c (names "a_" w ++ names "b_" w ++ (if ci then ["cin"] else [])) (names "out_" w ++ (if co then ["cout"] else [])) &&
  forall_vals c (λ v,
    let total := (bitsN v "a_" w + bitsN v "b_" w + N.b2n (ci && v "cin"))%N in
    (bitsN v "out_" w =? total mod 2 ^ N.of_nat w)%N && (negb co || (N.b2n (v "cout") =? total / 2 ^ N.of_nat w)%N)).
(* number of select lines the property speaks of: the least k with w <= 2^k *)
Definition sel_width (w : nat) : nat := Z.to_nat (Z.log2_up (Z.of_nat w)).
Definition mux_ok (w : nat) (c : circuit) : bool :=
  let k := sel_width w in
  certb c && io_ok c (names "in_" w ++ names "sel_" k) ["out"] &&
  forall_vals c (λ v, let i := N.to_nat (bitsN v "sel_" k) in
                     eqb (v "out") (if (i <? w)%nat then v (bitname "in_" i) else false)).
Definition popcount_ok (w : nat) (c : circuit) : bool :=
  let m := size (outputs c) in
  certb c && io_ok c (names "in_" w) (names "out_" m) &&
  forall_vals c (λ v, (bitsN v "out_" m =? onesN v "in_" w)%N).

(* what forall_vals establishes: the predicate holds for EVERY consistent valuation of the circuit *)
Lemma forall_vals_sound c P : certb c = true → forall_vals c P = true →
  (∀ v v' : val, (∀ n, n ∈ dom c → v n = v' n) → P v = P v') →
  ∀ v, consistent c v → P v = true.
Proof.
  intros Hcert Hall Hext v Hv.
  destruct (certb_sound c Hcert) as (Hcl & Hac & Hev).
  destruct (free_vals_complete c v) as (a & Hin & Ha).
  unfold forall_vals in Hall. rewrite forallb_forall in Hall.
  specialize (Hall a). rewrite <- elem_of_list_In in Hall. specialize (Hall Hin).
  destruct (Hev a) as [_ Huniq].
  rewrite (Hext v (evalc c a)); [done|].
  apply Huniq; [done|]. intros n Hn. symmetry. by apply Ha.
Qed.

(* ---- subset sweeps for widths whose full truth table is out of reach (two-digit indices: w >= 11).
   The vectors are generated here, from w alone; a sweep is a TEST of the returned circuit on those vectors
   (each evaluated by the certified evaluator), not a decision for all vectors ---- *)
(* one pass over the nodes in rank order with a value table (evalc re-evaluates shared cones, which is exponential in the
   depth of popcount's adder chain); the table is not trusted: every vector's result is checked with consistentb and
   against the assignment on the free nodes, which makes it THE consistent valuation (memo_unique) *)
Definition rank_le (p q : nat * string) : Prop := p.1 ≤ q.1.
Global Instance rank_le_dec p q : Decision (rank_le p q).
Proof. unfold rank_le. apply _. Defined.
Definition topo_order_r (c : circuit) (r : gmap string nat) : list string :=
  (λ p, p.2) <$> merge_sort rank_le ((λ n, (rank_of r n, n)) <$> elements (dom c)).
Definition eval_memo (c : circuit) (order : list string) (a : val) : val :=
  let m := foldl (λ (m : gmap string bool) n,
             match c !! n with
             | Some i => <[n := if is_free i then a n else
                                match n_ty i with C0 => false | C1 => true
                                | t => gate_val t (λ x, default false (m !! x)) (n_fi i) end]> m
             | None => m end) ∅ order in
  λ n, default (a n) (m !! n).
(* certificate and sweep share one rank table *)
Definition sweep (c : circuit) (P : val → bool) (vs : list (list string)) : bool :=
  let r := rank_fast c in let order := topo_order_r c r in let fr := elements (free_nodes c) in
  cert_r c r && forallb (λ ones, let a := lval ones in let v := eval_memo c order a in
                   consistentb c v && eq_on fr v a && P v) vs.
Lemma memo_unique c (a vm v : val) : certb c = true → consistentb c vm = true → eq_on (elements (free_nodes c)) vm a = true →
  consistent c v → agrees (free_nodes c) v a → agrees (dom c) v vm.
Proof.
  intros Hcert Hvm%consistentb_spec Heq Hv Ha.
  destruct (certb_sound c Hcert) as (Hcl & [rank Hrank] & _).
  apply (consistent_unique c rank Hrank); [done..|].
  intros n Hn. rewrite Ha by done. symmetry. rewrite eq_on_spec in Heq. apply Heq. by apply elem_of_elements.
Qed.
Definition sel_ones (k s : nat) : list string :=
  omap (λ j, if Nat.testbit s j then Some (bitname "sel_" j) else None) (seq 0 k).
(* every select value x (all data inputs 0, or exactly one data input 1) *)
Definition mux_sweep (w k : nat) : list (list string) :=
  s ← seq 0 (2 ^ k); d ← [] :: ((λ i, [bitname "in_" i]) <$> seq 0 w); [(sel_ones k s ++ d)%list].
Definition mux_sweep_ok (w : nat) (c : circuit) : bool :=
  let k := sel_width w in
  io_ok c (names "in_" w ++ names "sel_" k) ["out"] &&
  sweep c (λ v, let i := N.to_nat (bitsN v "sel_" k) in
                eqb (v "out") (if (i <? w)%nat then v (bitname "in_" i) else false)) (mux_sweep w k).
(* zero, all ones (+1), single bits of a, of b, of both (carry from every position), each base pattern also with cin *)
Definition adder_sweep (w : nat) (ci : bool) : list (list string) :=
  let base := [[]; names "a_" w; (names "a_" w ++ names "b_" w)%list; (names "a_" w ++ [bitname "b_" 0])%list] in
  (base ++ flat_map (λ i, [[bitname "a_" i]; [bitname "b_" i]; [bitname "a_" i; bitname "b_" i]]) (seq 0 w)
   ++ (if ci then ("cin" ::.) <$> base else []))%list.
Definition adder_sweep_ok (w : nat) (ci co : bool) (c : circuit) : bool :=
  io_ok c (names "a_" w ++ names "b_" w ++ (if ci then ["cin"] else [])) (names "out_" w ++ (if co then ["cout"] else [])) &&
  sweep c (λ v,
    let total := (bitsN v "a_" w + bitsN v "b_" w + N.b2n (ci && v "cin"))%N in
    (bitsN v "out_" w =? total mod 2 ^ N.of_nat w)%N && (negb co || (N.b2n (v "cout") =? total / 2 ^ N.of_nat w)%N))
    (adder_sweep w ci).
(* w <= 6: every vector.  Otherwise: no input, each single input, the first j inputs, all inputs, all inputs but one
   (the vectors that need the top output bits) *)
Definition popcount_sweep (w : nat) : list (list string) :=
  if (w <=? 6)%nat then subsets (names "in_" w) else
  ([] :: ((λ i, [bitname "in_" i]) <$> seq 0 w) ++ ((λ j, names "in_" j) <$> seq 2 (w - 1))
      ++ ((λ i, filter (λ n, n ≠ bitname "in_" i) (names "in_" w)) <$> seq 0 w))%list.
Definition popcount_sweep_ok (w : nat) (c : circuit) : bool :=
  let m := size (outputs c) in
  io_ok c (names "in_" w) (names "out_" m) &&
  sweep c (λ v, (bitsN v "out_" m =? onesN v "in_" w)%N) (popcount_sweep w).
