(* C13, popcount: counting lemmas and what a positive oracle verdict means (the all-width proof is LogicPopAll.v). *)
From Coq Require Import Ascii.
From stdpp Require Import strings gmap sets fin_sets pretty numbers.
From CG Require Export Proofs.LogicKit.
From CG Require Import Model.Lint Proofs.LogicProofs.
Open Scope string_scope.
Open Scope list_scope.

Lemma onesN_S v p w : onesN v p (S w) = (onesN v p w + N.b2n (v (p +:+ pretty w)))%N.
Proof.
  unfold onesN. rewrite seq_S, filter_app, app_length, Nat2N.inj_add. f_equal.
  rewrite filter_cons, filter_nil. simpl. destruct (v (p +:+ pretty w)); by case_decide.
Qed.
Lemma onesN_ext v v' p w : (∀ i, i < w → v (p +:+ pretty i) = v' (p +:+ pretty i)) → onesN v p w = onesN v' p w.
Proof.
  induction w as [|w IH]; [done|]. intros H. rewrite !onesN_S, IH, H by (intros; try apply H; lia). done.
Qed.

Lemma names_in_dom (c : circuit) (S : gset string) p w :
  S = list_to_set (names p w) → S ⊆ dom c → ∀ i, i < w → p +:+ pretty i ∈ dom c.
Proof.
  intros -> Hsub i Hi. apply Hsub, elem_of_list_to_set. unfold names. apply elem_of_list_fmap.
  exists i. split; [done|]. apply elem_of_seq. lia.
Qed.
Lemma inputs_dom (c : circuit) : inputs c ⊆ dom c.
Proof. intros n (i & Hn & _)%elem_of_inputs. by apply elem_of_dom. Qed.
Lemma outputs_dom (c : circuit) : outputs c ⊆ dom c.
Proof. intros n (i & Hn & _)%elem_of_outputs. by apply elem_of_dom. Qed.

(* a positive verdict of the oracle on a circuit is the popcount statement for ALL its consistent valuations *)
Lemma popcount_ok_sound w c v : popcount_ok w c = true → consistent c v →
  bitsN v "out_" (size (outputs c)) = onesN v "in_" w.
Proof.
  unfold popcount_ok. set (m := size (outputs c)). rewrite !andb_true_iff.
  intros [[Hcert Hio] Hall] Hv. unfold io_ok in Hio. apply andb_true_iff in Hio as [Hin Hout].
  apply bool_decide_eq_true in Hin, Hout.
  apply N.eqb_eq.
  apply (forall_vals_sound c (λ v, (bitsN v "out_" m =? onesN v "in_" w)%N) Hcert Hall); [|done].
  intros v1 v2 Heq. f_equal.
  - apply bitsN_ext. intros i Hi. apply Heq. eapply names_in_dom; [exact Hout|apply outputs_dom|done].
  - apply onesN_ext. intros i Hi. apply Heq. eapply names_in_dom; [exact Hin|apply inputs_dom|done].
Qed.
