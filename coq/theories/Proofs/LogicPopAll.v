(* C13, popcount(w) for EVERY width: the adder tree of logic.popcount counts the ones of its inputs. *)
From Coq Require Import Ascii.
From stdpp Require Import strings gmap sets fin_sets pretty numbers.
From CG Require Export Proofs.LogicKit.
From CG Require Import Base.Fold Proofs.LogicProofs Proofs.LogicPop.
Open Scope string_scope.
Open Scope list_scope.   (* ++ is list append; string append is +:+ *)

(* ================================================================== 1. numbers read off lists of nets *)
Definition bitsF (f : nat → bool) (w : nat) : N := foldr (λ i acc, (N.b2n (f i) + 2 * acc)%N) 0%N (seq 0 w).
Definition value (v : val) (l : list string) : N := foldr (λ n acc, (N.b2n (v n) + 2 * acc)%N) 0%N l.
Definition sumv (v : val) (ps : list (list string)) : N := foldr (λ q s, (value v q + s)%N) 0%N ps.

Lemma bitsN_bitsF v p w : bitsN v p w = bitsF (λ i, v (p +:+ pretty i)) w.
Proof. reflexivity. Qed.
Lemma bitsF_S f w : bitsF f (S w) = (bitsF f w + 2 ^ N.of_nat w * N.b2n (f w))%N.
Proof.
  unfold bitsF. rewrite seq_S, foldr_app. simpl.
  rewrite (foldr_bits f). rewrite seq_length. f_equal. lia.
Qed.
Lemma bitsF_ext f g w : (∀ i, i < w → f i = g i) → bitsF f w = bitsF g w.
Proof.
  induction w as [|w IH]; [done|]. intros H. rewrite !bitsF_S, IH, H by (intros; try apply H; lia). done.
Qed.
Lemma value_app v l1 l2 : value v (l1 ++ l2) = (value v l1 + 2 ^ N.of_nat (length l1) * value v l2)%N.
Proof.
  induction l1 as [|x l1 IH]; cbn [app value foldr length].
  - change (N.of_nat 0) with 0%N. rewrite N.pow_0_r. fold (value v l2). lia.
  - fold (value v (l1 ++ l2)) (value v l1). rewrite IH, Nat2N.inj_succ, N.pow_succ_r'. lia.
Qed.
Lemma value_bitsF v l f : (∀ i y, l !! i = Some y → f i = v y) → bitsF f (length l) = value v l.
Proof.
  induction l as [|y l IH] using rev_ind; intros H; [done|].
  rewrite app_length, Nat.add_1_r, bitsF_S, value_app, IH.
  - rewrite (H (length l) y); [cbn [value foldr]; lia|].
    rewrite lookup_app_r by lia. by rewrite Nat.sub_diag.
  - intros i z Hi. apply H. rewrite lookup_app_l; [done|]. by eapply lookup_lt_Some.
Qed.
Lemma value_fmap_seq v (g : nat → string) m : value v (g <$> seq 0 m) = bitsF (λ i, v (g i)) m.
Proof.
  symmetry. rewrite <- (value_bitsF v (g <$> seq 0 m) (λ i, v (g i))); [by rewrite fmap_length, seq_length|].
  intros i y Hi. rewrite list_lookup_fmap in Hi. destruct (seq 0 m !! i) as [j|] eqn:E; [|done].
  apply lookup_seq in E as [-> _]. by injection Hi as <-.
Qed.
Lemma value_tie v k : v "tie0" = false → value v (replicate k "tie0") = 0%N.
Proof. intros H. induction k as [|k IH]; [done|]. cbn [replicate value foldr]. fold (value v (replicate k "tie0")). rewrite IH, H. done. Qed.
Lemma value_pad v aw l : v "tie0" = false → value v (pad aw l) = value v l.
Proof. intros H. unfold pad. rewrite value_app, value_tie by done. lia. Qed.
Lemma pad_length aw l : length l ≤ aw → length (pad aw l) = aw.
Proof. intros H. unfold pad. rewrite app_length, replicate_length. lia. Qed.
Lemma sumv_app v a b : sumv v (a ++ b) = (sumv v a + sumv v b)%N.
Proof. induction a as [|x a IH]; [done|]. cbn [app sumv foldr]. fold (sumv v (a ++ b)) (sumv v a). rewrite IH. lia. Qed.

(* a ripple of full adders *)
Lemma ripple (out a b carry : nat → bool) w : carry 0 = false →
  (∀ i, i < w → out i = xor3 (a i) (b i) (carry i) ∧ carry (S i) = maj (a i) (b i) (carry i)) →
  (bitsF out w + 2 ^ N.of_nat w * N.b2n (carry w) = bitsF a w + bitsF b w)%N.
Proof.
  intros H0. induction w as [|w IH]; intros H.
  - rewrite H0. unfold bitsF. simpl. lia.
  - specialize (IH ltac:(intros; apply H; lia)). destruct (H w ltac:(lia)) as [Ho Hc].
    rewrite !bitsF_S, Ho, Hc, Nat2N.inj_succ, N.pow_succ_r'. unfold xor3, maj.
    destruct (a w), (b w), (carry w); cbn [xorb andb orb N.b2n] in *; lia.
Qed.

(* ================================================================== 2. names *)
Lemma pair_eq2 {A B} (a c : A) (b d : B) : (a, b) = (c, d) → a = c ∧ b = d.
Proof. by intros [= -> ->]. Qed.
Lemma pre_inj p s t : pre p s = pre p t → s = t.
Proof. unfold pre. intros H. apply (inj (String.append p)) in H. by apply (inj (String.append "_")) in H. Qed.
Lemma pre_ne p s t : s ≠ t → pre p s ≠ pre p t.
Proof. intros Hne H. by apply pre_inj in H. Qed.
Lemma bitname_inj' p i j : bitname p i = bitname p j → i = j.
Proof. unfold bitname. intros H%(inj (String.append p)). by apply (inj pretty) in H. Qed.

Lemma pc_name_ne p aw n : n ≠ "cout" → pc_name p aw n = pre p n.
Proof. intros H. unfold pc_name. by rewrite bool_decide_eq_false_2. Qed.
Lemma pc_name_cout p aw : pc_name p aw "cout" = pre p (bitname "out_" aw).
Proof. reflexivity. Qed.
Lemma pc_name_pre p aw n : ∃ r, pc_name p aw n = pre p r.
Proof. unfold pc_name. case_bool_decide; eauto. Qed.
Lemma pc_name_fa p aw i s : pc_name p aw (pre (bitname "fa_" i) s) = pre p (pre (bitname "fa_" i) s).
Proof. apply pc_name_ne. unfold pre, bitname. rewrite !sapp_cons. discriminate. Qed.
Lemma pc_name_bit p aw c s i : c ≠ "c"%char → pc_name p aw (bitname (String c s) i) = pre p (bitname (String c s) i).
Proof. intros Hc. apply pc_name_ne. unfold bitname. rewrite sapp_cons. intros [= ? _]. done. Qed.

(* ================================================================== 3. one adder instance *)
Section instance.
  Context (p : string) (aw : nat) (ns ms : list string) (v : val).
  Hypothesis Hns : length ns = aw.
  Hypothesis Hms : length ms = aw.
  Hypothesis nodes : ∀ n inf, (n, inf) ∈ pc_adder p aw ns ms → node_ok v n inf.
  Let q := pc_name p aw.

  Local Lemma inst_slice j : j < aw → ∀ n inf, (n, inf) ∈ pc_slice q (ns !!! j) (ms !!! j) j → node_ok v n inf.
  Proof.
    intros Hj n inf Hin. apply nodes. unfold pc_adder. right. apply elem_of_app. left.
    apply elem_of_flat_map. exists j. split; [|done]. apply elem_of_seq. lia.
  Qed.

  Local Lemma inst_bit j : j < aw →
    v (q (bitname "out_" j)) = xor3 (v (ns !!! j)) (v (ms !!! j)) (v (q (carry_name j))) ∧
    v (q (carry_name (S j))) = maj (v (ns !!! j)) (v (ms !!! j)) (v (q (carry_name j))).
  Proof.
    intros Hj. pose proof (inst_slice j Hj) as H.
    node_of H 0 Ha. node_of H 1 Hb. node_of H 2 Ho. node_of H 3 Hx. node_of H 4 Hy. node_of H 5 Hcin.
    apply node_ok_buf in Ha, Hb, Ho, Hx, Hy, Hcin.
    destruct (fa_core_sem (λ s, q (pre (bitname "fa_" j) s)) false v) as [Hs Hco].
    1-3: unfold q; rewrite !pc_name_fa; by do 2 apply pre_ne.
    { intros n inf Hin. apply H. unfold pc_slice. apply elem_of_app. by right. }
    cbv beta in Hs, Hco. rewrite Hx, Hy, Hcin, Ha, Hb in Hs, Hco. rewrite Ho. split; [exact Hs|exact Hco].
  Qed.

  Lemma inst_sum :
    value v ((λ j, pre p (bitname "out_" j)) <$> seq 0 (S aw)) = (value v ns + value v ms)%N.
  Proof.
    assert (Hc0 : v (q "cin") = false).
    { apply (node_ok_c0 v (q "cin") false). apply (nodes (q "cin") (mk_node C0 false (list_to_set []))).
      unfold pc_adder. left. }
    assert (Hco : v (q "cout") = v (q (carry_name aw))).
    { apply (node_ok_buf v (q "cout") false). apply nodes. unfold pc_adder. right. apply elem_of_app. right. left. }
    pose proof (ripple (λ j, v (q (bitname "out_" j))) (λ j, v (ns !!! j)) (λ j, v (ms !!! j)) (λ j, v (q (carry_name j)))
                  aw Hc0 inst_bit) as Hr.
    cbv beta in Hr. rewrite <- Hco in Hr. unfold q in Hr at 2. rewrite pc_name_cout in Hr.
    rewrite value_fmap_seq, bitsF_S.
    rewrite (bitsF_ext _ (λ j, v (q (bitname "out_" j)))) by (intros; unfold q; by rewrite pc_name_bit).
    rewrite Hr. f_equal.
    - rewrite <- Hns. apply value_bitsF. intros i y Hi. by rewrite (list_lookup_total_correct _ _ _ Hi).
    - rewrite <- Hms. apply value_bitsF. intros i y Hi. by rewrite (list_lookup_total_correct _ _ _ Hi).
  Qed.
End instance.

(* ================================================================== 4. the queue loop *)
Definition blk (k : nat) (d : list string * list string) : list (string * ninfo) :=
  let aw := max (length d.1) (length d.2) in pc_adder (bitname "add_" k) aw (pad aw d.1) (pad aw d.2).
Fixpoint blocks (i : nat) (ds : list (list string * list string)) : list (string * ninfo) :=
  match ds with [] => [] | d :: r => blk i d ++ blocks (S i) r end.

Lemma blk_sum k d v : v "tie0" = false → (∀ n inf, (n, inf) ∈ blk k d → node_ok v n inf) →
  value v ((λ j, pre (bitname "add_" k) (bitname "out_" j)) <$> seq 0 (S (max (length d.1) (length d.2))))
  = (value v d.1 + value v d.2)%N.
Proof.
  intros Ht H. unfold blk in H. cbv zeta in H.
  set (aw := max (length d.1) (length d.2)) in *.
  rewrite (inst_sum _ aw (pad aw d.1) (pad aw d.2) v); [by rewrite !value_pad| | |exact H]; apply pad_length; lia.
Qed.

Lemma loop_inv fuel : ∀ i ps acc o acc', popcount_loop fuel i ps acc = Ok (o, acc') →
  ∃ ds, acc' = acc ++ blocks i ds ∧
    ∀ v, v "tie0" = false → (∀ n inf, (n, inf) ∈ blocks i ds → node_ok v n inf) → value v o = sumv v ps.
Proof.
  induction fuel as [|f IH]; intros i ps acc o acc' H; [done|].
  cbn [popcount_loop] in H. destruct ps as [|ns [|ms rest]]; [done| |].
  - injection H as <- <-. exists []. split; [by rewrite app_nil_r|]. intros v _ _. cbn [sumv foldr]. lia.
  - apply IH in H as (ds & -> & Hsem). exists ((ns, ms) :: ds). split; [cbn [blocks]; by rewrite app_assoc|].
    intros v Ht Hn. rewrite Hsem; [|done|intros n inf Hin; apply Hn; cbn [blocks]; apply elem_of_app; by right].
    rewrite sumv_app. cbn [sumv foldr]. fold (sumv v rest).
    pose proof (blk_sum i (ns, ms) v Ht) as Hb. cbn [fst snd] in Hb. rewrite Hb; [lia|].
    intros n inf Hin. apply Hn. cbn [blocks]. apply elem_of_app. by left.
Qed.

Lemma loop_total fuel : ∀ i ps acc, ps ≠ [] → length ps ≤ fuel → ∃ r, popcount_loop fuel i ps acc = Ok r.
Proof.
  induction fuel as [|f IH]; intros i ps acc Hne Hl; [destruct ps; [done|simpl in Hl; lia]|].
  cbn [popcount_loop]. destruct ps as [|ns [|ms rest]]; [done|eauto|].
  apply IH; [by destruct rest|]. rewrite app_length. cbn [length] in *. lia.
Qed.

Lemma init_sum v w : sumv v ((λ i, [bitname "in_" i]) <$> seq 0 w) = onesN v "in_" w.
Proof.
  induction w as [|w IH]; [done|]. rewrite seq_S, fmap_app, sumv_app, IH, onesN_S.
  cbn [fmap list_fmap sumv foldr value]. unfold bitname. simpl (0 + w). lia.
Qed.

(* ================================================================== 5. node names are pairwise distinct *)
Lemma pc_adder_keys p aw ns ms : (pc_adder p aw ns ms).*1 = pc_name p aw <$> (adder_l aw false true).*1.
Proof.
  rewrite adder_keys. unfold pc_adder. rewrite !fmap_cons, !fmap_app, !fmap_flat_map. reflexivity.
Qed.

Lemma out_not_key aw ci co : bitname "out_" aw ∉ (adder_l aw ci co).*1.
Proof.
  rewrite adder_keys. intros [H|[H|H]%elem_of_app]%elem_of_cons.
  - unfold bitname in H. rewrite sapp_cons in H. discriminate H.
  - apply elem_of_flat_map in H as (i & Hi%elem_of_seq & H).
    apply slice_idx_keys in H; [|apply pretty_nat_digits].
    assert (H' : slice_idx (bitname "out_" aw) = pretty aw).
    { apply slice_idx_keys; [apply pretty_nat_digits|]. unfold slice_keys, bitname. do 2 right. left. }
    rewrite H' in H. apply (inj pretty) in H. lia.
  - destruct co; [|by apply elem_of_nil in H]. apply elem_of_list_singleton in H.
    unfold bitname in H. rewrite sapp_cons in H. discriminate H.
Qed.

Lemma pc_adder_NoDup p aw ns ms : NoDup (pc_adder p aw ns ms).*1.
Proof.
  rewrite pc_adder_keys. apply NoDup_fmap_2_strong; [|apply adder_keys_NoDup].
  intros x y Hx Hy. unfold pc_name. repeat case_bool_decide; subst.
  - done.
  - intros E%pre_inj. subst y. by apply out_not_key in Hy.
  - intros E%pre_inj. subst x. by apply out_not_key in Hx.
  - apply pre_inj.
Qed.

Lemma pc_adder_key_pre p aw ns ms n : n ∈ (pc_adder p aw ns ms).*1 → ∃ r, n = pre p r.
Proof. rewrite pc_adder_keys. intros (x & -> & _)%elem_of_list_fmap. apply pc_name_pre. Qed.

Lemma blocks_keys i ds n : n ∈ (blocks i ds).*1 → ∃ k r, i ≤ k ∧ n = pre (bitname "add_" k) r.
Proof.
  revert i. induction ds as [|d ds IH]; intros i; cbn [blocks]; [by intros ?%elem_of_nil|].
  rewrite fmap_app, elem_of_app. intros [H|H].
  - apply pc_adder_key_pre in H as [r ->]. by exists i, r.
  - apply IH in H as (k & r & ? & ->). exists k, r. split; [lia|done].
Qed.

Lemma add_idx k r : slice_idx (pre (bitname "add_" k) r) = pretty k.
Proof.
  unfold slice_idx, pre, bitname. rewrite !sapp_cons, !sapp_nil. cbn [after_us Ascii.eqb Bool.eqb].
  apply take_digits_app; [apply pretty_nat_digits|]. right. eexists _, _. split; reflexivity.
Qed.

Definition hd_char (s : string) : ascii := match s with String c _ => c | EmptyString => "000"%char end.
Lemma add_hd k r : hd_char (pre (bitname "add_" k) r) = "a"%char.
Proof. unfold pre, bitname. rewrite !sapp_cons. reflexivity. Qed.
Lemma bitname_hd c s i : hd_char (bitname (String c s) i) = c.
Proof. unfold bitname. rewrite sapp_cons. reflexivity. Qed.

Lemma blocks_NoDup i ds : NoDup (blocks i ds).*1.
Proof.
  revert i. induction ds as [|d ds IH]; intros i; cbn [blocks]; [constructor|].
  rewrite fmap_app. apply NoDup_app. split; [apply pc_adder_NoDup|split; [|apply IH]].
  intros n [r ->]%pc_adder_key_pre (k & r' & Hk & E)%blocks_keys.
  apply (f_equal slice_idx) in E. rewrite !add_idx in E. apply (inj pretty) in E. lia.
Qed.
Lemma blocks_hd i ds n : n ∈ (blocks i ds).*1 → hd_char n = "a"%char.
Proof. intros (k & r & _ & ->)%blocks_keys. apply add_hd. Qed.

(* ================================================================== 6. the whole node list *)
Definition pc_ins (w : nat) : list (string * ninfo) := (λ i, nd (bitname "in_" i) Input false []) <$> seq 0 w.
Definition pc_outs (o : list string) : list (string * ninfo) := imap (λ i y, nd (bitname "out_" i) Buf true [y]) o.
Definition pc_body (w : nat) ds o : list (string * ninfo) := pc_ins w ++ blocks 0 ds ++ pc_outs o.

Lemma ins_keys w : (pc_ins w).*1 = bitname "in_" <$> seq 0 w.
Proof. unfold pc_ins. rewrite <- list_fmap_compose. reflexivity. Qed.
Lemma imap_keys (g : nat → string) (o : list string) :
  (imap (λ i y, nd (g i) Buf true [y]) o).*1 = g <$> seq 0 (length o).
Proof.
  revert g. induction o as [|y o IH]; intros g; [done|].
  rewrite imap_cons. cbn [length seq]. rewrite !fmap_cons. f_equal.
  rewrite <- fmap_S_seq, <- list_fmap_compose. exact (IH (g ∘ S)).
Qed.
Lemma outs_keys o : (pc_outs o).*1 = bitname "out_" <$> seq 0 (length o).
Proof. apply imap_keys. Qed.
Lemma names_NoDup p w : NoDup (bitname p <$> seq 0 w).
Proof. apply NoDup_fmap_2_strong; [|apply NoDup_seq]. intros x y _ _. apply bitname_inj'. Qed.
Lemma names_hd c s w n : n ∈ bitname (String c s) <$> seq 0 w → hd_char n = c.
Proof. intros (i & -> & _)%elem_of_list_fmap. apply bitname_hd. Qed.

Lemma body_hd w ds o n : n ∈ (pc_body w ds o).*1 → hd_char n ≠ "t"%char.
Proof.
  unfold pc_body. rewrite !fmap_app, !elem_of_app, ins_keys, outs_keys.
  intros [H|[H|H]]; [apply names_hd in H|apply blocks_hd in H|apply names_hd in H]; by rewrite H.
Qed.
Lemma body_NoDup w ds o : NoDup (pc_body w ds o).*1.
Proof.
  unfold pc_body. rewrite !fmap_app, ins_keys, outs_keys.
  apply NoDup_app. split; [apply names_NoDup|split].
  - intros n Hn [H|H]%elem_of_app; apply names_hd in Hn; [apply blocks_hd in H|apply names_hd in H]; congruence.
  - apply NoDup_app. split; [apply blocks_NoDup|split; [|apply names_NoDup]].
    intros n Hn H. apply blocks_hd in Hn. apply names_hd in H. congruence.
Qed.

Lemma popcount_l_shape w l : popcount_l w = Ok l → ∃ ds o,
  (∀ v, v "tie0" = false → (∀ n inf, (n, inf) ∈ blocks 0 ds → node_ok v n inf) → value v o = onesN v "in_" w) ∧
  (l = nd "tie0" C0 false [] :: pc_body w ds o ∨
   (l = pc_body w ds o ∧ ∀ n inf, (n, inf) ∈ pc_body w ds o → "tie0" ∉ n_fi inf)).
Proof.
  unfold popcount_l. destruct (popcount_loop _ _ _ _) as [[o acc]| | |] eqn:E; try done.
  apply loop_inv in E as (ds & -> & Hsem). intros H. exists ds, o. split.
  { intros v Ht Hn. rewrite <- init_sum. by apply Hsem. }
  change (Ok ((if existsb (λ ni : string * ninfo, bool_decide ("tie0" ∈ n_fi ni.2)) (pc_body w ds o)
               then [nd "tie0" C0 false []] else []) ++ pc_body w ds o) = Ok l) in H.
  destruct (existsb _ _) eqn:Ex; injection H as <-; [by left|]. right. split; [done|].
  intros n inf Hin Ht. assert (existsb (λ ni : string * ninfo, bool_decide ("tie0" ∈ n_fi ni.2)) (pc_body w ds o) = true); [|congruence].
  apply existsb_exists. exists (n, inf). split; [by apply elem_of_list_In|]. by apply bool_decide_eq_true.
Qed.

(* ---- outputs ---- *)
Lemma pc_adder_unmarked p aw ns ms n inf : (n, inf) ∈ pc_adder p aw ns ms → n_out inf = false.
Proof.
  unfold pc_adder, nd. intros [H|[H|H]%elem_of_app]%elem_of_cons.
  - by apply pair_eq2 in H as [_ ->].
  - apply elem_of_flat_map in H as (i & _ & H). unfold pc_slice, fa_core, nd in H. cbn [app] in H.
    split_mem H; by apply pair_eq2 in H as [_ ->].
  - apply elem_of_list_singleton in H. by apply pair_eq2 in H as [_ ->].
Qed.
Lemma blocks_unmarked i ds n inf : (n, inf) ∈ blocks i ds → n_out inf = false.
Proof.
  revert i. induction ds as [|d ds IH]; intros i; cbn [blocks]; [by intros ?%elem_of_nil|].
  intros [H|H]%elem_of_app; [by eapply pc_adder_unmarked|by eapply IH].
Qed.
Lemma elem_of_outs o n inf : (n, inf) ∈ pc_outs o ↔
  ∃ i y, o !! i = Some y ∧ n = bitname "out_" i ∧ inf = mk_node Buf true (list_to_set [y]).
Proof.
  unfold pc_outs. rewrite elem_of_lookup_imap. unfold nd. split.
  - intros (i & y & [-> ->]%pair_eq2 & Hi). by exists i, y.
  - intros (i & y & Hi & -> & ->). by exists i, y.
Qed.

Lemma node_ok_ext v v' n inf : v n = v' n → agrees (n_fi inf) v v' → node_ok v n inf → node_ok v' n inf.
Proof.
  intros Hn Ha. unfold node_ok. destruct (is_free inf); [done|].
  destruct (n_ty inf); rewrite <- ?Hn, <- ?(gate_val_ext _ v v' _ Ha); done.
Qed.

Section final.
  Context (w : nat) (ds : list (list string * list string)) (o : list string) (l : list (string * ninfo)) (v : val).
  Hypothesis Hsem : ∀ v, v "tie0" = false → (∀ n inf, (n, inf) ∈ blocks 0 ds → node_ok v n inf) → value v o = onesN v "in_" w.
  Hypothesis Hl : l = nd "tie0" C0 false [] :: pc_body w ds o ∨
                  (l = pc_body w ds o ∧ ∀ n inf, (n, inf) ∈ pc_body w ds o → "tie0" ∉ n_fi inf).
  Hypothesis Hv : consistent (list_to_map l) v.

  Local Lemma l_NoDup : NoDup l.*1.
  Proof.
    destruct Hl as [-> |[-> _]]; [|apply body_NoDup]. rewrite fmap_cons. apply NoDup_cons. split; [|apply body_NoDup].
    intros H%body_hd. done.
  Qed.
  Local Lemma l_body n inf : (n, inf) ∈ pc_body w ds o → (n, inf) ∈ l.
  Proof. destruct Hl as [-> |[-> _]]; [by right|done]. Qed.

  Lemma pc_outputs : outputs (list_to_map l) = list_to_set (names "out_" (length o)).
  Proof.
    apply set_eq. intros n. rewrite elem_of_outputs, elem_of_list_to_set. unfold names. rewrite elem_of_list_fmap. split.
    - intros (inf & Hn%elem_of_list_to_map_2 & Ho).
      assert (Hb : (n, inf) ∈ pc_body w ds o).
      { destruct Hl as [-> |[-> _]]; [|done]. apply elem_of_cons in Hn as [Hn|Hn]; [|done].
        unfold nd in Hn. apply pair_eq2 in Hn as [_ ->]. discriminate Ho. }
      unfold pc_body in Hb. apply elem_of_app in Hb as [Hb|[Hb|Hb]%elem_of_app].
      + unfold pc_ins, nd in Hb. apply elem_of_list_fmap in Hb as (i & [_ ->]%pair_eq2 & _). discriminate Ho.
      + apply blocks_unmarked in Hb. congruence.
      + apply elem_of_outs in Hb as (i & y & Hi & -> & _). exists i. split; [done|].
        apply elem_of_seq. apply lookup_lt_Some in Hi. lia.
    - intros (i & -> & Hi%elem_of_seq).
      destruct (lookup_lt_is_Some_2 o i) as [y Hy]; [lia|].
      exists (mk_node Buf true (list_to_set [y])). split; [|done].
      apply elem_of_list_to_map_1; [apply l_NoDup|]. apply l_body. unfold pc_body. rewrite !elem_of_app. right; right.
      apply elem_of_outs. by exists i, y.
  Qed.

  Lemma pc_correct : bitsN v "out_" (size (outputs (list_to_map l))) = onesN v "in_" w.
  Proof.
    rewrite pc_outputs. unfold names. rewrite size_list_to_set, fmap_length, seq_length by apply names_NoDup.
    assert (Hnodes : ∀ n inf, (n, inf) ∈ l → node_ok v n inf) by (apply consistent_list_to_map; [apply l_NoDup|exact Hv]).
    set (v0 := λ n, if bool_decide (n = "tie0") then false else v n).
    assert (Hv0 : ∀ n, hd_char n ≠ "t"%char → v n = v0 n).
    { intros n Hn. unfold v0. case_bool_decide; [by subst n|done]. }
    assert (Hbody : ∀ n inf, (n, inf) ∈ pc_body w ds o → node_ok v0 n inf).
    { intros n inf Hin. apply (node_ok_ext v); [| |apply Hnodes; by apply l_body].
      - apply Hv0. eapply body_hd. apply elem_of_list_fmap. by exists (n, inf).
      - intros x Hx. unfold v0. case_bool_decide as Hxt; [|done]. subst x.
        destruct Hl as [-> |[-> Hfi]]; [|destruct (Hfi n inf Hin Hx)].
        apply (node_ok_c0 v "tie0" false). apply (Hnodes "tie0" (mk_node C0 false (list_to_set []))). left. }
    transitivity (value v0 o); [|transitivity (onesN v0 "in_" w)].
    - rewrite bitsN_bitsF, (bitsF_ext _ (λ i, v0 ("out_" +:+ pretty i))) by (intros; apply Hv0; by rewrite sapp_cons).
      apply value_bitsF. intros i y Hi. apply (node_ok_buf v0 _ true). apply Hbody.
      unfold pc_body. rewrite !elem_of_app. right; right. apply elem_of_outs. by exists i, y.
    - apply Hsem; [reflexivity|]. intros n inf Hin. apply Hbody. unfold pc_body. rewrite !elem_of_app. right; by left.
    - apply onesN_ext. intros i _. symmetry. apply Hv0. by rewrite sapp_cons.
  Qed.
End final.

(* ================================================================== 7. the theorems *)
Lemma popcount_total w : 1 ≤ w → ∃ C, popcount w = Ok C.
Proof.
  intros Hw. unfold popcount, rmap, popcount_l.
  destruct (loop_total (S w) 0 ((λ i, [bitname "in_" i]) <$> seq 0 w) []) as [r ->].
  - destruct w; [lia|]. done.
  - rewrite fmap_length, seq_length. lia.
  - cbn [rbind]. eauto.
Qed.

Theorem popcount_correct w C v : 1 ≤ w → popcount w = Ok C → consistent (c_g C) v →
  bitsN v "out_" (size (outputs (c_g C))) = onesN v "in_" w.
Proof.
  intros _ HC Hv. unfold popcount, rmap in HC. destruct (popcount_l w) as [l| | |] eqn:El; try done.
  cbn [rbind] in HC. injection HC as <-. cbn [c_g mkC] in *.
  apply popcount_l_shape in El as (ds & o & Hsem & Hl). by eapply pc_correct.
Qed.

(* ================================================================== 8. lint *)
From CG Require Import Model.Lint Proofs.LintProofs Proofs.LogicLint.

Lemma pc_name_no_dot k aw s : str_all not_dot s = true → has_dot (pc_name (bitname "add_" k) aw s) = false.
Proof.
  intros Hs. apply has_dot_false. unfold pc_name.
  case_bool_decide; unfold pre, bitname; rewrite ?str_all_app, ?pretty_not_dot, ?Hs; reflexivity.
Qed.
Local Ltac nodot := unfold pre, bitname; rewrite ?str_all_app, ?pretty_not_dot; reflexivity.

Lemma pc_adder_clean C k aw ns ms n i :
  (n, i) ∈ pc_adder (bitname "add_" k) aw ns ms → ¬ node_violates C default_flags n i.
Proof.
  unfold pc_adder, nd. intros [H|[H|H]%elem_of_app]%elem_of_cons.
  - apply pair_eq2 in H as [-> ->]. apply nv_c0. by apply pc_name_no_dot.
  - apply elem_of_flat_map in H as (j & _ & H). unfold pc_slice, nd in H. apply elem_of_app in H as [H|H].
    + split_mem H; apply pair_eq2 in H as [-> ->]; apply nv_buf; apply pc_name_no_dot; nodot.
    + refine (fa_core_clean C _ _ n i _ H). intros s Hs. cbv beta. apply pc_name_no_dot.
      unfold pre, bitname. rewrite !str_all_app, pretty_not_dot, Hs. reflexivity.
  - apply elem_of_list_singleton in H. apply pair_eq2 in H as [-> ->]. apply nv_buf. by apply pc_name_no_dot.
Qed.
Lemma blocks_clean C i ds n inf : (n, inf) ∈ blocks i ds → ¬ node_violates C default_flags n inf.
Proof.
  revert i. induction ds as [|d ds IH]; intros i; cbn [blocks]; [by intros ?%elem_of_nil|].
  intros [H|H]%elem_of_app; [by eapply pc_adder_clean|by eapply IH].
Qed.
Lemma body_clean C w ds o n inf : (n, inf) ∈ pc_body w ds o → ¬ node_violates C default_flags n inf.
Proof.
  unfold pc_body. intros [H|[H|H]%elem_of_app]%elem_of_app.
  - unfold pc_ins, nd in H. apply elem_of_list_fmap in H as (i & [-> ->]%pair_eq2 & _). apply nv_input. no_dot.
  - by eapply blocks_clean.
  - apply elem_of_outs in H as (i & y & _ & -> & ->). apply nv_buf. no_dot.
Qed.

Theorem popcount_lint_clean w C : 1 ≤ w → popcount w = Ok C → lint_clean C.
Proof.
  intros _ HC. unfold popcount, rmap in HC. destruct (popcount_l w) as [l| | |] eqn:El; try done.
  cbn [rbind] in HC. injection HC as <-.
  apply popcount_l_shape in El as (ds & o & _ & Hl). apply lint_clean_list. intros n i Hin.
  destruct Hl as [-> |[-> _]]; [|by eapply body_clean].
  apply elem_of_cons in Hin as [Hin|Hin]; [|by eapply body_clean].
  unfold nd in Hin. apply pair_eq2 in Hin as [-> ->]. by apply nv_c0.
Qed.

Print Assumptions popcount_correct.
Print Assumptions popcount_total.
Print Assumptions popcount_lint_clean.
