(* C13 proofs (in progress). *)
From stdpp Require Import strings gmap sets fin_sets pretty numbers.
From CG Require Export Proofs.LogicOracle.
Open Scope string_scope.
