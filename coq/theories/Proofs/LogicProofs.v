(* C13 proofs: bit helpers, half/full adder, ripple-carry adder and mux for every width. *)
From Coq Require Import Ascii.
From stdpp Require Import strings gmap sets fin_sets pretty numbers.
From CG Require Export Proofs.LogicOracle.
From CG Require Import Base.Fold.
Open Scope string_scope.
Open Scope list_scope.   (* ++ is list append here; string append is written +:+ *)

(* ================================================================== 1. utils.py helpers *)

Lemma clog2_rejects num : (num < 1)%Z → clog2 num = Raise ValueError.
Proof. intros H. unfold clog2. by rewrite (proj2 (Z.ltb_lt _ _) H). Qed.

Lemma clog2_loop_ok num fuel accum : (1 ≤ num)%Z →
  let L := Z.to_nat (Z.log2_up num) in
  accum ≤ L → fuel + accum = S L → (accum = 0 ∨ (2 ^ (Z.of_nat accum - 1) < num)%Z) →
  clog2_loop fuel num (2 ^ Z.of_nat accum) accum = Ok L.
Proof.
  intros Hnum L. revert accum. induction fuel as [|fuel IH]; intros accum Hle Hsum Hlow; [lia|].
  assert (HL : Z.of_nat L = Z.log2_up num) by (unfold L; pose proof (Z.log2_up_nonneg num); lia).
  simpl. destruct (2 ^ Z.of_nat accum <? num)%Z eqn:E.
  - apply Z.ltb_lt in E.
    assert (accum < L).
    { assert (1 < num)%Z by (pose proof (Z.pow_pos_nonneg 2 (Z.of_nat accum)); lia).
      pose proof (Z.log2_up_spec num ltac:(done)) as [_ Hup]. rewrite <- HL in Hup.
      assert (2 ^ Z.of_nat accum < 2 ^ Z.of_nat L)%Z as Hlt by lia.
      apply Z.pow_lt_mono_r_iff in Hlt; lia. }
    replace (2 * 2 ^ Z.of_nat accum)%Z with (2 ^ Z.of_nat (S accum))%Z
      by (rewrite Nat2Z.inj_succ, Z.pow_succ_r; lia).
    apply IH; [lia|lia|]. right. by replace (Z.of_nat (S accum) - 1)%Z with (Z.of_nat accum) by lia.
  - apply Z.ltb_ge in E. f_equal.
    destruct (decide (accum = 0)) as [->|Hnz]; [|destruct Hlow as [?|Hlow]; [lia|]].
    + simpl in E. assert (num = 1)%Z as -> by lia. done.
    + assert (Z.log2_up num = Z.of_nat accum); [|lia].
      apply Z.log2_up_unique; [lia|]. replace (Z.pred (Z.of_nat accum)) with (Z.of_nat accum - 1)%Z by lia. lia.
Qed.

Lemma clog2_log2_up num : (1 ≤ num)%Z → clog2 num = Ok (Z.to_nat (Z.log2_up num)).
Proof.
  intros H. unfold clog2. rewrite (proj2 (Z.ltb_ge _ _) H).
  apply (clog2_loop_ok num _ 0 H); [lia|lia|by left].
Qed.

Lemma clog2_spec num k : (1 ≤ num)%Z → clog2 num = Ok k →
  (num ≤ 2 ^ Z.of_nat k)%Z ∧ (k = 0 ∨ (2 ^ (Z.of_nat k - 1) < num)%Z).
Proof.
  intros H. rewrite clog2_log2_up by done. intros [= <-].
  pose proof (Z.log2_up_nonneg num). rewrite Z2Nat.id by done.
  destruct (decide (num = 1%Z)) as [->|]; [simpl; split; [done|by left]|].
  pose proof (Z.log2_up_spec num ltac:(lia)) as [H1 H2]. split; [done|]. right.
  by replace (Z.log2_up num - 1)%Z with (Z.pred (Z.log2_up num)) by lia.
Qed.

(* ---- int_to_bin / bin_to_int ---- *)
Definition of_lsb (l : list bool) : N := foldr (λ b acc, (N.b2n b + 2 * acc)%N) 0%N l.
Lemma of_msb_app l1 l2 : of_msb (l1 ++ l2) = foldl (λ acc b, (2 * acc + N.b2n b)%N) (of_msb l1) l2.
Proof. unfold of_msb. by rewrite foldl_app. Qed.
Lemma of_msb_reverse l : of_msb (reverse l) = of_lsb l.
Proof.
  induction l as [|b l IH]; [done|]. rewrite reverse_cons, of_msb_app. simpl. rewrite IH. lia.
Qed.
Lemma of_lsb_pos_bits p : of_lsb (pos_bits_le p) = Npos p.
Proof. induction p as [p IH|p IH|]; simpl; rewrite ?IH; try done; lia. Qed.
Lemma of_msb_digits i : of_msb (bin_digits i) = i.
Proof. destruct i as [|p]; [done|]. simpl. by rewrite of_msb_reverse, of_lsb_pos_bits. Qed.
Lemma of_msb_zfill w l : of_msb (zfill w l) = of_msb l.
Proof.
  unfold zfill. rewrite of_msb_app.
  assert (of_msb (replicate (w - length l) false) = 0%N) as ->; [|done].
  induction (w - length l) as [|k IH]; [done|].
  change (replicate (S k) false) with ([false] ++ replicate k false). rewrite of_msb_app. exact IH.
Qed.
Lemma bin_digits_nonempty i : bin_digits i ≠ [].
Proof.
  destruct i as [|p]; [done|]. simpl. intros H. apply (f_equal length) in H.
  rewrite reverse_length in H. destruct p; simpl in H; lia.
Qed.
Lemma zfill_nonempty w l : l ≠ [] → zfill w l ≠ [].
Proof. unfold zfill. destruct l; [done|]. intros _ H. by apply app_eq_nil in H as [_ ?]. Qed.

(* the round trip holds for EVERY i (zfill never truncates), both endiannesses *)
Lemma bin_roundtrip i w lend : bin_to_int (int_to_bin i w lend) lend = Ok i.
Proof.
  unfold bin_to_int, int_to_bin.
  assert (Hs : (if lend then reverse (if lend then reverse (zfill w (bin_digits i)) else zfill w (bin_digits i))
                else (if lend then reverse (zfill w (bin_digits i)) else zfill w (bin_digits i))) = zfill w (bin_digits i)).
  { destruct lend; [apply reverse_involutive|done]. }
  rewrite Hs. pose proof (zfill_nonempty w _ (bin_digits_nonempty i)) as Hne.
  destruct (zfill w (bin_digits i)) eqn:E; [done|]. rewrite <- E. by rewrite of_msb_zfill, of_msb_digits.
Qed.

Lemma pos_bits_length p w : (Npos p < 2 ^ N.of_nat w)%N → length (pos_bits_le p) ≤ w.
Proof.
  revert w. induction p as [p IH|p IH|]; intros w H; simpl.
  - destruct w as [|w]; [simpl in H; lia|]. rewrite Nat2N.inj_succ, N.pow_succ_r' in H.
    specialize (IH w). assert (N.pos p < 2 ^ N.of_nat w)%N by lia. apply IH in H0. lia.
  - destruct w as [|w]; [simpl in H; lia|]. rewrite Nat2N.inj_succ, N.pow_succ_r' in H.
    specialize (IH w). assert (N.pos p < 2 ^ N.of_nat w)%N by lia. apply IH in H0. lia.
  - destruct w as [|w]; [simpl in H; lia|]. lia.
Qed.
(* ... and the tuple has exactly w entries when i fits *)
Lemma int_to_bin_length i w lend : 1 ≤ w → (i < 2 ^ N.of_nat w)%N → length (int_to_bin i w lend) = w.
Proof.
  intros Hw Hi. unfold int_to_bin.
  assert (length (zfill w (bin_digits i)) = w) as Hl.
  { unfold zfill. rewrite app_length, replicate_length.
    assert (length (bin_digits i) ≤ w); [|lia].
    destruct i as [|p]; simpl; [lia|]. rewrite reverse_length. by apply pos_bits_length. }
  destruct lend; [by rewrite reverse_length|done].
Qed.
Lemma bin_to_int_empty lend : bin_to_int [] lend = Raise ValueError.
Proof. by destruct lend. Qed.

(* ================================================================== 2. half adder, full adder *)
From CG Require Import Proofs.LogicKit.

Definition xor3 (a b c : bool) : bool := xorb (xorb a b) c.
Definition maj (a b c : bool) : bool := (a && b) || (xorb a b && c).

Ltac node_of H k name :=
  match type of H with ∀ n i, (n, i) ∈ ?l → _ => pose proof (H _ _ (elem_of_list_lookup_2 l k _ eq_refl)) as name end.

(* the ten gates of a full adder, under any naming q of its nodes that keeps the operand pairs apart *)
Lemma fa_core_sem (q : string → string) o v :
  q "x_y_ha_x" ≠ q "x_y_ha_y" → q "cin_s_ha_x" ≠ q "cin_s_ha_y" → q "x_y_ha_c" ≠ q "cin_s_ha_c" →
  (∀ n i, (n, i) ∈ fa_core q o → node_ok v n i) →
  v (q "s") = xor3 (v (q "x")) (v (q "y")) (v (q "cin")) ∧ v (q "cout") = maj (v (q "x")) (v (q "y")) (v (q "cin")).
Proof.
  intros N1 N2 N3 H.
  node_of H 0 H0. node_of H 1 H1. node_of H 2 H2. node_of H 3 H3. node_of H 4 H4.
  node_of H 5 H5. node_of H 6 H6. node_of H 7 H7. node_of H 8 H8. node_of H 9 H9.
  apply node_ok_buf in H0, H1, H4, H5, H9.
  apply node_ok_and2 in H2, H6; [|done..]. apply node_ok_xor2 in H3, H7; [|done..]. apply node_ok_or2 in H8; [|done].
  rewrite H9, H8, H7, H6, H5, H4, H3, H2, H1, H0. unfold xor3, maj. split; [done|].
  by destruct (v (q "x")), (v (q "y")), (v (q "cin")).
Qed.

Lemma half_adder_correct v : consistent (c_g half_adder) v →
  v "s" = xorb (v "x") (v "y") ∧ v "c" = v "x" && v "y".
Proof.
  intros Hc.
  assert (H : ∀ n i, (n, i) ∈ half_adder_l → node_ok v n i).
  { apply consistent_list_to_map; [|exact Hc]. by apply (bool_decide_unpack _). }
  node_of H 2 H2. node_of H 3 H3. apply node_ok_and2 in H2; [|done]. apply node_ok_xor2 in H3; [|done]. done.
Qed.

Lemma full_adder_correct v : consistent (c_g full_adder) v →
  (N.b2n (v "s") + 2 * N.b2n (v "cout") = N.b2n (v "x") + N.b2n (v "y") + N.b2n (v "cin"))%N.
Proof.
  intros Hc.
  assert (H : ∀ n i, (n, i) ∈ full_adder_l → node_ok v n i).
  { apply consistent_list_to_map; [|exact Hc]. by apply (bool_decide_unpack _). }
  destruct (fa_core_sem id true v) as [Hs Hco]; [done..| |].
  { intros n i Hin. apply H. unfold full_adder_l. apply elem_of_app. by right. }
  unfold id in *. rewrite Hs, Hco. unfold xor3, maj. by destruct (v "x"), (v "y"), (v "cin").
Qed.

(* ================================================================== 3. names of the ripple-carry adder *)
(* the 16 node names of bit slice i, as a function of the decimal text p of i *)
Definition slice_keys (p : string) : list string :=
  [ "a_" +:+ p; "b_" +:+ p; "out_" +:+ p; "fa_" +:+ p +:+ "_x"; "fa_" +:+ p +:+ "_y"; "fa_" +:+ p +:+ "_cin";
    "fa_" +:+ p +:+ "_x_y_ha_x"; "fa_" +:+ p +:+ "_x_y_ha_y"; "fa_" +:+ p +:+ "_x_y_ha_c"; "fa_" +:+ p +:+ "_x_y_ha_s";
    "fa_" +:+ p +:+ "_cin_s_ha_x"; "fa_" +:+ p +:+ "_cin_s_ha_y"; "fa_" +:+ p +:+ "_cin_s_ha_c"; "fa_" +:+ p +:+ "_cin_s_ha_s";
    "fa_" +:+ p +:+ "_cout"; "fa_" +:+ p +:+ "_s" ].
Lemma adder_slice_keys i : (adder_slice i).*1 = slice_keys (pretty i).
Proof. reflexivity. Qed.

Definition slice_idx (s : string) : string := take_digits (after_us s).
Ltac norm_names := unfold slice_keys, pre, bitname; rewrite ?sapp_cons, ?sapp_nil.
Ltac split_mem H := repeat (apply elem_of_cons in H as [H|H]); [..|by apply elem_of_nil in H].

Lemma take_digits_all p : str_all is_digit p = true → take_digits p = p.
Proof.
  intros H. transitivity (take_digits (p +:+ "")); [by rewrite string_app_empty_r|]. apply take_digits_app; [done|by left].
Qed.
Lemma slice_idx_keys p n : str_all is_digit p = true → n ∈ slice_keys p → slice_idx n = p.
Proof.
  intros Hp H. unfold slice_keys in H. split_mem H; subst n; unfold slice_idx; rewrite ?sapp_cons, ?sapp_nil; cbn [after_us Ascii.eqb Bool.eqb];
    first [by apply take_digits_all | apply take_digits_app; [done|]; right; eexists _, _; split; reflexivity].
Qed.
Lemma slice_keys_c p n : n ∈ slice_keys p → ∃ c r, n = String c r ∧ c ≠ "c"%char.
Proof.
  intros H. unfold slice_keys in H. split_mem H; subst n; rewrite ?sapp_cons; eexists _, _; (split; [reflexivity|done]).
Qed.
Lemma slice_keys_NoDup p : NoDup (slice_keys p).
Proof.
  unfold slice_keys. rewrite ?sapp_cons, ?sapp_nil.
  repeat (apply NoDup_cons; split;
    [rewrite ?not_elem_of_cons; repeat split; try apply not_elem_of_nil;
       (intros Hk; simplify_eq/=; try (apply (inj (String.append p)) in Hk; discriminate Hk))|]).
  apply NoDup_nil_2.
Qed.

Lemma adder_keys w ci co :
  (adder_l w ci co).*1 = "cin" :: flat_map (λ i, slice_keys (pretty i)) (seq 0 w) ++ (if co then ["cout"] else []).
Proof.
  unfold adder_l. rewrite fmap_cons, fmap_app, fmap_flat_map. f_equal. f_equal. by destruct co.
Qed.
Lemma adder_keys_NoDup w ci co : NoDup ((adder_l w ci co).*1).
Proof.
  rewrite adder_keys.
  assert (Hc : ∀ n, n ∈ flat_map (λ i, slice_keys (pretty i)) (seq 0 w) → ∃ c r, n = String c r ∧ c ≠ "c"%char).
  { intros n (i & _ & Hn)%elem_of_flat_map. by eapply slice_keys_c. }
  apply NoDup_cons. split.
  { intros [H|H]%elem_of_app.
    - apply Hc in H as (c & r & [= <- _] & Hne). done.
    - destruct co; [|by apply elem_of_nil in H]. apply elem_of_list_singleton in H. done. }
  apply NoDup_app. split; [|split].
  - apply NoDup_flat_map; [apply NoDup_seq|intros; apply slice_keys_NoDup|].
    intros i j z _ _ Hi Hj. apply slice_idx_keys in Hi, Hj; try apply pretty_nat_digits.
    apply (inj pretty). congruence.
  - intros n Hn Hco. destruct co; [|by apply elem_of_nil in Hco]. apply elem_of_list_singleton in Hco. subst n.
    apply Hc in Hn as (c & r & [= <- _] & Hne). done.
  - destruct co; [apply NoDup_singleton|apply NoDup_nil_2].
Qed.

(* ================================================================== 4. ripple-carry adder, every width *)
Section adder.
  Context (w : nat) (ci co : bool) (v : val).
  (* every listed node is satisfied by v (what a consistent valuation of the adder gives; also what an
     instantiated copy inside popcount gives after renaming) *)
  Hypothesis adder_nodes : ∀ n i, (n, i) ∈ adder_l w ci co → node_ok v n i.

  Local Lemma slice_nodes i : i < w → ∀ n inf, (n, inf) ∈ adder_slice i → node_ok v n inf.
  Proof.
    intros Hi n inf Hin. apply adder_nodes. unfold adder_l. right. apply elem_of_app. left.
    apply elem_of_flat_map. exists i. split; [|done]. apply elem_of_seq. lia.
  Qed.

  Local Lemma pre_neq p s t : s ≠ t → pre p s ≠ pre p t.
  Proof. intros Hne H. unfold pre in H. apply (inj (String.append p)) in H. apply (inj (String.append "_")) in H. done. Qed.

  (* one bit: sum and carry *)
  Lemma adder_bit i : i < w →
    v (bitname "out_" i) = xor3 (v (bitname "a_" i)) (v (bitname "b_" i)) (v (carry_name i)) ∧
    v (carry_name (S i)) = maj (v (bitname "a_" i)) (v (bitname "b_" i)) (v (carry_name i)).
  Proof.
    intros Hi. pose proof (slice_nodes i Hi) as H.
    node_of H 2 Ho. node_of H 3 Hx. node_of H 4 Hy. node_of H 5 Hcin.
    apply node_ok_buf in Ho, Hx, Hy, Hcin.
    destruct (fa_core_sem (pre (bitname "fa_" i)) false v) as [Hs Hco]; [by apply pre_neq..| |].
    { intros n inf Hin. apply H. unfold adder_slice, fa_sub. apply elem_of_app. right. apply elem_of_app. by right. }
    rewrite Hx, Hy, Hcin in Hs, Hco. rewrite Ho. split; [exact Hs|exact Hco].
  Qed.

  Lemma adder_cin : v "cin" = ci && v "cin".
  Proof.
    assert (Hin : nd "cin" (if ci then Input else C0) false [] ∈ adder_l w ci co) by (unfold adder_l; left).
    apply adder_nodes in Hin. revert Hin. clear. destruct ci; [done|]. intros Hin. exact Hin.
  Qed.

  Lemma adder_partial_sums k : k ≤ w →
    (bitsN v "out_" k + 2 ^ N.of_nat k * N.b2n (v (carry_name k))
     = bitsN v "a_" k + bitsN v "b_" k + N.b2n (v "cin"))%N.
  Proof.
    induction k as [|k IH]; intros Hk.
    - unfold bitsN. cbn [seq foldr carry_name]. change (N.of_nat 0) with 0%N. rewrite N.pow_0_r. lia.
    - specialize (IH ltac:(lia)). destruct (adder_bit k ltac:(lia)) as [Ho Hca].
      rewrite !bitsN_S. fold (bitname "out_" k) (bitname "a_" k) (bitname "b_" k).
      rewrite Ho, Hca, Nat2N.inj_succ, N.pow_succ_r'. unfold xor3, maj.
      destruct (v (bitname "a_" k)), (v (bitname "b_" k)), (v (carry_name k)); cbn [xorb andb orb N.b2n] in *; lia.
  Qed.

  Theorem adder_correct_nodes :
    let total := (bitsN v "a_" w + bitsN v "b_" w + N.b2n (ci && v "cin"))%N in
    bitsN v "out_" w = (total mod 2 ^ N.of_nat w)%N ∧
    (co = true → N.b2n (v "cout") = (total / 2 ^ N.of_nat w)%N).
  Proof.
    intros total. pose proof (adder_partial_sums w ltac:(lia)) as Hsum.
    rewrite adder_cin in Hsum. fold total in Hsum.
    pose proof (bitsN_lt v "out_" w) as Hlt.
    assert (Hpos : (2 ^ N.of_nat w ≠ 0)%N) by (apply N.pow_nonzero; lia).
    rewrite <- Hsum. split.
    - rewrite N.mul_comm, N.mod_add by done. by rewrite N.mod_small.
    - intros Hco. pose proof adder_nodes as H.
      assert (Hin : nd "cout" Buf true [carry_name w] ∈ adder_l w ci co).
      { unfold adder_l. rewrite Hco. right. apply elem_of_app. right. by left. }
      apply H in Hin. apply node_ok_buf in Hin. rewrite Hin.
      rewrite N.mul_comm, N.div_add by done. rewrite N.div_small by done. lia.
  Qed.
End adder.

Theorem adder_correct w ci co v : consistent (c_g (adder w ci co)) v →
  let total := (bitsN v "a_" w + bitsN v "b_" w + N.b2n (ci && v "cin"))%N in
  bitsN v "out_" w = (total mod 2 ^ N.of_nat w)%N ∧
  (co = true → N.b2n (v "cout") = (total / 2 ^ N.of_nat w)%N).
Proof.
  intros Hc. apply adder_correct_nodes. apply consistent_list_to_map; [apply adder_keys_NoDup|exact Hc].
Qed.
