(* C13 proofs: bit helpers, half/full adder, ripple-carry adder and mux for every width. *)
From Coq Require Import Ascii.
From stdpp Require Import strings gmap sets fin_sets pretty numbers.
From CG Require Export Proofs.LogicOracle.
From CG Require Import Base.Fold.
Open Scope string_scope.
Open Scope list_scope.   (* ++ is list append here; string append is written +:+ *)

(* ================================================================== 1. utils.py helpers *)

Lemma clog2_rejects num : (num < 1)%Z → clog2 num = Raise ValueError.
Proof. intros H. unfold clog2. by rewrite (proj2 (Z.ltb_lt _ _) H). Qed.

Lemma clog2_loop_ok num fuel accum : (1 ≤ num)%Z →
  let L := Z.to_nat (Z.log2_up num) in
  accum ≤ L → fuel + accum = S L → (accum = 0 ∨ (2 ^ (Z.of_nat accum - 1) < num)%Z) →
  clog2_loop fuel num (2 ^ Z.of_nat accum) accum = Ok L.
Proof.
  intros Hnum L. revert accum. induction fuel as [|fuel IH]; intros accum Hle Hsum Hlow; [lia|].
  assert (HL : Z.of_nat L = Z.log2_up num) by (unfold L; pose proof (Z.log2_up_nonneg num); lia).
  simpl. destruct (2 ^ Z.of_nat accum <? num)%Z eqn:E.
  - apply Z.ltb_lt in E.
    assert (accum < L).
    { assert (1 < num)%Z by (pose proof (Z.pow_pos_nonneg 2 (Z.of_nat accum)); lia).
      pose proof (Z.log2_up_spec num ltac:(done)) as [_ Hup]. rewrite <- HL in Hup.
      assert (2 ^ Z.of_nat accum < 2 ^ Z.of_nat L)%Z as Hlt by lia.
      apply Z.pow_lt_mono_r_iff in Hlt; lia. }
    replace (2 * 2 ^ Z.of_nat accum)%Z with (2 ^ Z.of_nat (S accum))%Z
      by (rewrite Nat2Z.inj_succ, Z.pow_succ_r; lia).
    apply IH; [lia|lia|]. right. by replace (Z.of_nat (S accum) - 1)%Z with (Z.of_nat accum) by lia.
  - apply Z.ltb_ge in E. f_equal.
    destruct (decide (accum = 0)) as [->|Hnz]; [|destruct Hlow as [?|Hlow]; [lia|]].
    + simpl in E. assert (num = 1)%Z as -> by lia. done.
    + assert (Z.log2_up num = Z.of_nat accum); [|lia].
      apply Z.log2_up_unique; [lia|]. replace (Z.pred (Z.of_nat accum)) with (Z.of_nat accum - 1)%Z by lia. lia.
Qed.

Lemma clog2_log2_up num : (1 ≤ num)%Z → clog2 num = Ok (Z.to_nat (Z.log2_up num)).
Proof.
  intros H. unfold clog2. rewrite (proj2 (Z.ltb_ge _ _) H).
  apply (clog2_loop_ok num _ 0 H); [lia|lia|by left].
Qed.

Lemma clog2_spec num k : (1 ≤ num)%Z → clog2 num = Ok k →
  (num ≤ 2 ^ Z.of_nat k)%Z ∧ (k = 0 ∨ (2 ^ (Z.of_nat k - 1) < num)%Z).
Proof.
  intros H. rewrite clog2_log2_up by done. intros [= <-].
  pose proof (Z.log2_up_nonneg num). rewrite Z2Nat.id by done.
  destruct (decide (num = 1%Z)) as [->|]; [simpl; split; [done|by left]|].
  pose proof (Z.log2_up_spec num ltac:(lia)) as [H1 H2]. split; [done|]. right.
  by replace (Z.log2_up num - 1)%Z with (Z.pred (Z.log2_up num)) by lia.
Qed.

(* ---- int_to_bin / bin_to_int ---- *)
Definition of_lsb (l : list bool) : N := foldr (λ b acc, (N.b2n b + 2 * acc)%N) 0%N l.
Lemma of_msb_app l1 l2 : of_msb (l1 ++ l2) = foldl (λ acc b, (2 * acc + N.b2n b)%N) (of_msb l1) l2.
Proof. unfold of_msb. by rewrite foldl_app. Qed.
Lemma of_msb_reverse l : of_msb (reverse l) = of_lsb l.
Proof.
  induction l as [|b l IH]; [done|]. rewrite reverse_cons, of_msb_app. simpl. rewrite IH. lia.
Qed.
Lemma of_lsb_pos_bits p : of_lsb (pos_bits_le p) = Npos p.
Proof. induction p as [p IH|p IH|]; simpl; rewrite ?IH; try done; lia. Qed.
Lemma of_msb_digits i : of_msb (bin_digits i) = i.
Proof. destruct i as [|p]; [done|]. simpl. by rewrite of_msb_reverse, of_lsb_pos_bits. Qed.
Lemma of_msb_zfill w l : of_msb (zfill w l) = of_msb l.
Proof.
  unfold zfill. rewrite of_msb_app.
  assert (of_msb (replicate (w - length l) false) = 0%N) as ->; [|done].
  induction (w - length l) as [|k IH]; [done|].
  change (replicate (S k) false) with ([false] ++ replicate k false). rewrite of_msb_app. exact IH.
Qed.
Lemma bin_digits_nonempty i : bin_digits i ≠ [].
Proof.
  destruct i as [|p]; [done|]. simpl. intros H. apply (f_equal length) in H.
  rewrite reverse_length in H. destruct p; simpl in H; lia.
Qed.
Lemma zfill_nonempty w l : l ≠ [] → zfill w l ≠ [].
Proof. unfold zfill. destruct l; [done|]. intros _ H. by apply app_eq_nil in H as [_ ?]. Qed.

(* the round trip holds for EVERY i (zfill never truncates), both endiannesses *)
Lemma bin_roundtrip i w lend : bin_to_int (int_to_bin i w lend) lend = Ok i.
Proof.
  unfold bin_to_int, int_to_bin.
  assert (Hs : (if lend then reverse (if lend then reverse (zfill w (bin_digits i)) else zfill w (bin_digits i))
                else (if lend then reverse (zfill w (bin_digits i)) else zfill w (bin_digits i))) = zfill w (bin_digits i)).
  { destruct lend; [apply reverse_involutive|done]. }
  rewrite Hs. pose proof (zfill_nonempty w _ (bin_digits_nonempty i)) as Hne.
  destruct (zfill w (bin_digits i)) eqn:E; [done|]. rewrite <- E. by rewrite of_msb_zfill, of_msb_digits.
Qed.

Lemma pos_bits_length p w : (Npos p < 2 ^ N.of_nat w)%N → length (pos_bits_le p) ≤ w.
Proof.
  revert w. induction p as [p IH|p IH|]; intros w H; simpl.
  - destruct w as [|w]; [simpl in H; lia|]. rewrite Nat2N.inj_succ, N.pow_succ_r' in H.
    specialize (IH w). assert (N.pos p < 2 ^ N.of_nat w)%N by lia. apply IH in H0. lia.
  - destruct w as [|w]; [simpl in H; lia|]. rewrite Nat2N.inj_succ, N.pow_succ_r' in H.
    specialize (IH w). assert (N.pos p < 2 ^ N.of_nat w)%N by lia. apply IH in H0. lia.
  - destruct w as [|w]; [simpl in H; lia|]. lia.
Qed.
(* ... and the tuple has exactly w entries when i fits *)
Lemma int_to_bin_length i w lend : 1 ≤ w → (i < 2 ^ N.of_nat w)%N → length (int_to_bin i w lend) = w.
Proof.
  intros Hw Hi. unfold int_to_bin.
  assert (length (zfill w (bin_digits i)) = w) as Hl.
  { unfold zfill. rewrite app_length, replicate_length.
    assert (length (bin_digits i) ≤ w); [|lia].
    destruct i as [|p]; simpl; [lia|]. rewrite reverse_length. by apply pos_bits_length. }
  destruct lend; [by rewrite reverse_length|done].
Qed.
Lemma bin_to_int_empty lend : bin_to_int [] lend = Raise ValueError.
Proof. by destruct lend. Qed.
