(* C04, "consequently" clause: the miter is satisfiable (a consistent valuation with sat = 1 exists)
   iff the two circuits can differ on a compared node while agreeing on the tied startpoints.
   Built on MiterProofs (miter_sem_gen / miter_sat_iff_differ_gen).  Everything proved; no axioms. *)
From stdpp Require Import strings gmap sets fin_sets.
From CG Require Import Base.Compose Base.Oracle Model.Miter Proofs.ComposeProofs Proofs.MiterProofs.
Open Scope string_scope.

(* ---------- 1. consistency depends only on the values at the nodes of a closed circuit ---------- *)
Lemma node_ok_agrees (v v' : val) n i :
  v n = v' n → agrees (n_fi i) v v' → node_ok v n i → node_ok v' n i.
Proof.
  intros Hn Hfi. unfold node_ok. destruct (is_free i); [done|].
  assert (Hg : ∀ t, gate_val t v (n_fi i) = gate_val t v' (n_fi i)) by (intros t; by apply gate_val_ext).
  destruct (n_ty i); rewrite <- ?Hn, <- ?Hg; done.
Qed.

Lemma consistent_agrees c v v' : closed c → agrees (dom c) v v' → consistent c v → consistent c v'.
Proof.
  intros Hcl Ha Hc n i Hn. apply (node_ok_agrees v v').
  - apply Ha. apply elem_of_dom. eauto.
  - intros f Hf. apply Ha. eapply Hcl; eauto.
  - by apply Hc.
Qed.

(* ---------- 2. strip_io does not change the consistent valuations ---------- *)
Lemma dom_strip_io c : dom (strip_io c) = dom c.
Proof. unfold strip_io. by rewrite dom_fmap_L. Qed.

Lemma lookup_strip_io c n : strip_io c !! n = strip_info <$> c !! n.
Proof. unfold strip_io. by rewrite lookup_fmap. Qed.

Lemma closed_strip_io c : closed (strip_io c) ↔ closed c.
Proof.
  unfold closed. setoid_rewrite dom_strip_io. setoid_rewrite lookup_strip_io. split.
  - intros H n i f Hn Hf. apply (H n (strip_info i) f); [by rewrite Hn|done].
  - intros H n j f Hn Hf. destruct (c !! n) as [i|] eqn:Hi; simplify_eq/=. eapply H; eauto.
Qed.

(* a non-input node is untouched up to the output mark, which node_ok does not read *)
Lemma node_ok_strip_other v n i : n_ty i ≠ Input → node_ok v n (strip_info i) ↔ node_ok v n i.
Proof.
  intros Ht. unfold node_ok, is_free, strip_info. cbn [n_ty n_fi].
  by rewrite (bool_decide_eq_false_2 (n_ty i = Input)).
Qed.
Lemma node_ok_orig_input v n i : n_ty i = Input → node_ok v n i.
Proof. intros Ht. unfold node_ok, is_free. by rewrite Ht. Qed.
Lemma node_ok_strip_input v n i : n_ty i = Input → n_fi i = ∅ → node_ok v n (strip_info i).
Proof.
  intros Ht Hf. unfold node_ok, is_free, strip_info. cbn [n_ty n_fi].
  by rewrite (bool_decide_eq_true_2 (n_ty i = Input)), (bool_decide_eq_true_2 (n_fi i = ∅)).
Qed.

(* this direction needs no hypothesis: an Input is free *)
Lemma consistent_strip_io_1 c v : consistent (strip_io c) v → consistent c v.
Proof.
  intros H n i Hn. destruct (decide (n_ty i = Input)) as [Ht|Ht].
  - by apply node_ok_orig_input.
  - apply node_ok_strip_other; [done|]. apply H. by rewrite lookup_strip_io, Hn.
Qed.

Lemma consistent_strip_io c v :
  (∀ n i, c !! n = Some i → n_ty i = Input → n_fi i = ∅) →
  consistent (strip_io c) v ↔ consistent c v.
Proof.
  intros Hin. split; [apply consistent_strip_io_1|].
  intros H n j Hn. rewrite lookup_strip_io in Hn.
  destruct (c !! n) as [i|] eqn:Hi; simplify_eq/=.
  destruct (decide (n_ty i = Input)) as [Ht|Ht].
  - apply node_ok_strip_input; eauto.
  - apply node_ok_strip_other; [done|]. by apply H.
Qed.

(* ---------- 3. stripping a prefix from a name ---------- *)
Fixpoint strip_prefix (p s : string) : option string :=
  match p with
  | EmptyString => Some s
  | String a p' =>
      match s with
      | EmptyString => None
      | String b s' => if Ascii.eqb a b then strip_prefix p' s' else None
      end
  end.
Definition unpre (p n : string) : option string := strip_prefix (p ++ "_") n.

Lemma string_app_cons a (s t : string) : String a s ++ t = String a (s ++ t).
Proof. reflexivity. Qed.
Lemma string_app_assoc' (s t u : string) : (s ++ t) ++ u = s ++ t ++ u.
Proof. induction s as [|a s IH]; [done|]. rewrite !string_app_cons. by rewrite IH. Qed.

Lemma strip_prefix_app p r : strip_prefix p (p ++ r) = Some r.
Proof.
  induction p as [|a p IH]; [done|]. rewrite string_app_cons. cbn [strip_prefix].
  by rewrite Ascii.eqb_refl.
Qed.
Lemma strip_prefix_Some p : ∀ s r, strip_prefix p s = Some r → s = p ++ r.
Proof.
  induction p as [|a p IH]; intros s r H.
  - cbn in H. by simplify_eq.
  - destruct s as [|b s]; [done|]. cbn [strip_prefix] in H.
    destruct (Ascii.eqb a b) eqn:Hab; [|done]. apply Ascii.eqb_eq in Hab as ->.
    rewrite string_app_cons. f_equal. by apply IH.
Qed.

Lemma pre_app p x : pre p x = (p ++ "_") ++ x.
Proof. unfold pre. by rewrite string_app_assoc'. Qed.
Lemma unpre_pre p x : unpre p (pre p x) = Some x.
Proof. unfold unpre. rewrite pre_app. apply strip_prefix_app. Qed.
Lemma unpre_Some p n x : unpre p n = Some x → n = pre p x.
Proof. unfold unpre. intros H%strip_prefix_Some. by rewrite pre_app. Qed.

(* the concrete prefixes of the miter never clash *)
Lemma unpre_c0_c1 x : unpre "c0" (pre "c1" x) = None. Proof. reflexivity. Qed.
Lemma unpre_c0_dif x : unpre "c0" (pre "dif" x) = None. Proof. reflexivity. Qed.
Lemma unpre_c1_dif x : unpre "c1" (pre "dif" x) = None. Proof. reflexivity. Qed.
Lemma unpre_c0_sat : unpre "c0" "sat" = None. Proof. reflexivity. Qed.
Lemma unpre_c1_sat : unpre "c1" "sat" = None. Proof. reflexivity. Qed.
Lemma unpre_dif_sat : unpre "dif" "sat" = None. Proof. reflexivity. Qed.

(* ---------- 4. the glued valuation ---------- *)
Definition differ_on (v0 v1 : val) (E : list string) : bool := existsb (λ e, xorb (v0 e) (v1 e)) E.
Definition glue (S E : list string) (v0 v1 : val) : val := λ n,
  if bool_decide (n ∈ S) then v0 n else
  match unpre "c0" n with Some x => v0 x | None =>
  match unpre "c1" n with Some x => v1 x | None =>
  match unpre "dif" n with Some e => xorb (v0 e) (v1 e) | None =>
  differ_on v0 v1 E end end end.

Section glue.
  Context (S E : list string) (v0 v1 : val).
  Lemma glue_S s : s ∈ S → glue S E v0 v1 s = v0 s.
  Proof. intros Hs. unfold glue. by rewrite bool_decide_eq_true_2. Qed.
  Lemma glue_c0 x : pre "c0" x ∉ S → glue S E v0 v1 (pre "c0" x) = v0 x.
  Proof. intros Hs. unfold glue. rewrite bool_decide_eq_false_2 by done. by rewrite unpre_pre. Qed.
  Lemma glue_c1 x : pre "c1" x ∉ S → glue S E v0 v1 (pre "c1" x) = v1 x.
  Proof.
    intros Hs. unfold glue. rewrite bool_decide_eq_false_2 by done.
    by rewrite unpre_c0_c1, unpre_pre.
  Qed.
  Lemma glue_dif e : pre "dif" e ∉ S → glue S E v0 v1 (pre "dif" e) = xorb (v0 e) (v1 e).
  Proof.
    intros Hs. unfold glue. rewrite bool_decide_eq_false_2 by done.
    by rewrite unpre_c0_dif, unpre_c1_dif, unpre_pre.
  Qed.
  Lemma glue_sat : "sat" ∉ S → glue S E v0 v1 "sat" = differ_on v0 v1 E.
  Proof. intros Hs. unfold glue. by rewrite bool_decide_eq_false_2. Qed.

  Lemma differ_on_true : differ_on v0 v1 E = true ↔ ∃ e, e ∈ E ∧ v0 e ≠ v1 e.
  Proof.
    unfold differ_on. rewrite existsb_exists. setoid_rewrite <- elem_of_list_In.
    by setoid_rewrite xorb_true_ne.
  Qed.
End glue.

(* ---------- 5. the names `miter` creates are fresh: the tied startpoints are none of the copies,
   not the comparison node and none of the xor nodes ---------- *)
Lemma miter_fresh Ca Cbo So Eo M :
  miter Ca Cbo So Eo = Ok M →
  let Cb := second Ca Cbo in let S := miter_S Ca Cb So in let E := miter_E Ca Cb Eo in
  (∀ x, x ∈ dom (c_g Ca) → pre "c0" x ∉ S) ∧ (∀ x, x ∈ dom (c_g Cb) → pre "c1" x ∉ S) ∧
  "sat" ∉ S ∧ (∀ e, e ∈ E → pre "dif" e ∉ S).
Proof.
  rewrite miter_unfold. intros H Cb S E. fold Cb S E in H.
  case_bool_decide as Hba; [|done]. case_bool_decide as Hbb; [|done]. cbn [negb] in H.
  apply miter_core_inv in H as (M1 & M2 & g3 & g4 & g5 & n4 & H1 & H2 & H3 & H4 & H5 & ->).
  destruct (add_subcircuit_struct _ _ _ _ _ H1) as (_ & _ & _ & _ & _ & _ & Hd1).
  destruct (add_subcircuit_struct _ _ _ _ _ H2) as (_ & _ & _ & _ & _ & _ & Hd2).
  change (c_g (miter_M0 Ca Cb)) with (∅ : circuit) in Hd1. rewrite dom_empty_L in Hd1.
  destruct (add_each_grown id Input (λ _, []) (λ n, [pre "c0" n; pre "c1" n]) S _ _ H3) as (Hd3 & _ & Hg3).
  rewrite list_fmap_id in Hd3, Hg3.
  apply grown_dom in Hg3.
  destruct (sat_step _ _ _ _ H4) as [Hs4 ->].
  destruct (add_each_grown (pre "dif") Xor (λ n, [pre "c0" n; pre "c1" n]) (λ _, ["sat"]) E _ _ H5) as (Hd5 & _ & _).
  rewrite dom_insert_L, Hg3 in Hd5. rewrite Hg3 in Hs4. rewrite Hd2, Hd1 in Hd3.
  clear -Hd3 Hs4 Hd5.
  split; [|split; [|split]].
  - intros x Hx Hin. apply (Hd3 (pre "c0" x)); [by apply elem_of_list_to_set|].
    apply elem_of_union_l, elem_of_union_r, elem_of_map. eauto.
  - intros x Hx Hin. apply (Hd3 (pre "c1" x)); [by apply elem_of_list_to_set|].
    apply elem_of_union_r, elem_of_map. eauto.
  - intros Hin. apply Hs4, elem_of_union_r. by apply elem_of_list_to_set.
  - intros e He Hin. apply (Hd5 (pre "dif" e)).
    + apply elem_of_list_to_set, elem_of_list_fmap. eauto.
    + apply elem_of_union_r, elem_of_union_r. by apply elem_of_list_to_set.
Qed.

(* ---------- 6. MAIN THEOREM ---------- *)
Lemma inputs_dom (c : circuit) n : n ∈ inputs c → n ∈ dom c.
Proof. intros (i & Hi & _)%elem_of_inputs. apply elem_of_dom. eauto. Qed.

(* a satisfying valuation of the miter splits into two runs that differ (no well-formedness needed
   beyond what miter_sem_gen asks for) *)
Theorem miter_sat_possible_only_if Ca Cbo So Eo M :
  let Cb := second Ca Cbo in let S := miter_S Ca Cb So in let E := miter_E Ca Cb Eo in
  list_to_set S ⊆ inputs (c_g Ca) ∩ inputs (c_g Cb) →
  miter Ca Cbo So Eo = Ok M →
  (∃ v, consistent (c_g M) v ∧ v "sat" = true) →
  (∃ v0 v1, consistent (c_g Ca) v0 ∧ consistent (c_g Cb) v1 ∧ (∀ s, s ∈ S → v0 s = v1 s) ∧
            ∃ e, e ∈ E ∧ v0 e ≠ v1 e).
Proof.
  intros Cb S E HS HM (v & Hv & Hsat).
  pose proof (miter_sat_iff_differ_gen _ _ _ _ _ HM HS v Hv) as Hd.
  apply (miter_sem_gen _ _ _ _ _ HM HS v) in Hv as (Ha & Hb & Ht & _ & _).
  exists (v ∘ pre "c0"), (v ∘ pre "c1"). split; [|split; [|split]].
  - by apply consistent_strip_io_1.
  - by apply consistent_strip_io_1.
  - intros s Hs. destruct (Ht s Hs) as [H0 H1]. unfold compose. congruence.
  - by apply Hd.
Qed.

(* two differing runs glue into a satisfying valuation of the miter *)
Theorem miter_sat_possible_if Ca Cbo So Eo M :
  let Cb := second Ca Cbo in let S := miter_S Ca Cb So in let E := miter_E Ca Cb Eo in
  closed (c_g Ca) → closed (c_g Cb) →
  (∀ n i, c_g Ca !! n = Some i → n_ty i = Input → n_fi i = ∅) →
  (∀ n i, c_g Cb !! n = Some i → n_ty i = Input → n_fi i = ∅) →
  list_to_set S ⊆ inputs (c_g Ca) ∩ inputs (c_g Cb) →
  list_to_set E ⊆ dom (c_g Ca) ∩ dom (c_g Cb) →
  miter Ca Cbo So Eo = Ok M →
  (∃ v0 v1, consistent (c_g Ca) v0 ∧ consistent (c_g Cb) v1 ∧ (∀ s, s ∈ S → v0 s = v1 s) ∧
            ∃ e, e ∈ E ∧ v0 e ≠ v1 e) →
  (∃ v, consistent (c_g M) v ∧ v "sat" = true).
Proof.
  intros Cb S E Hcla Hclb Hina Hinb HS HE HM (v0 & v1 & Hv0 & Hv1 & Htie & Hdiff).
  destruct (miter_fresh _ _ _ _ _ HM) as (Hf0 & Hf1 & Hfs & Hfd). fold Cb S E in Hf0, Hf1, Hfs, Hfd.
  assert (HSa : ∀ s, s ∈ S → s ∈ dom (c_g Ca) ∧ s ∈ dom (c_g Cb)).
  { intros s Hs. assert (s ∈ inputs (c_g Ca) ∩ inputs (c_g Cb)) as [Ha Hb]%elem_of_intersection.
    { apply HS. by apply elem_of_list_to_set. }
    split; by apply inputs_dom. }
  assert (HEa : ∀ e, e ∈ E → e ∈ dom (c_g Ca) ∧ e ∈ dom (c_g Cb)).
  { intros e He. apply elem_of_intersection, HE. by apply elem_of_list_to_set. }
  clear HE.
  set (v := glue S E v0 v1).
  assert (Hsatv : v "sat" = true).
  { unfold v. rewrite glue_sat by done. by apply differ_on_true. }
  exists v. split; [|done].
  apply (miter_sem_gen _ _ _ _ _ HM HS v). fold Cb S E.
  split; [|split; [|split; [|split]]].
  - apply consistent_strip_io; [done|]. apply (consistent_agrees _ v0); [done| |done].
    intros n Hn. unfold compose, v. by rewrite glue_c0 by auto.
  - apply consistent_strip_io; [done|]. apply (consistent_agrees _ v1); [done| |done].
    intros n Hn. unfold compose, v. by rewrite glue_c1 by auto.
  - intros s Hs. destruct (HSa s Hs) as [Ha Hb]. unfold v.
    rewrite glue_c0, glue_c1, glue_S by auto. split; [done|]. symmetry. by apply Htie.
  - intros e He. destruct (HEa e He) as [Ha Hb]. unfold v.
    by rewrite glue_dif, glue_c0, glue_c1 by auto.
  - rewrite Hsatv. split; [|done]. intros _. destruct Hdiff as (e & He & Hne).
    exists e. split; [done|]. unfold v. rewrite glue_dif by auto. by apply xorb_true_ne.
Qed.

Theorem miter_sat_possible_iff Ca Cbo So Eo M :
  let Cb := second Ca Cbo in let S := miter_S Ca Cb So in let E := miter_E Ca Cb Eo in
  closed (c_g Ca) → closed (c_g Cb) →
  (∀ n i, c_g Ca !! n = Some i → n_ty i = Input → n_fi i = ∅) →
  (∀ n i, c_g Cb !! n = Some i → n_ty i = Input → n_fi i = ∅) →
  list_to_set S ⊆ inputs (c_g Ca) ∩ inputs (c_g Cb) →
  list_to_set E ⊆ dom (c_g Ca) ∩ dom (c_g Cb) →
  miter Ca Cbo So Eo = Ok M →
  (∃ v, consistent (c_g M) v ∧ v "sat" = true) ↔
  (∃ v0 v1, consistent (c_g Ca) v0 ∧ consistent (c_g Cb) v1 ∧ (∀ s, s ∈ S → v0 s = v1 s) ∧
            ∃ e, e ∈ E ∧ v0 e ≠ v1 e).
Proof.
  intros Cb S E Hcla Hclb Hina Hinb HS HE HM. split.
  - by apply miter_sat_possible_only_if.
  - by apply miter_sat_possible_if.
Qed.

(* the hypothesis on the compared nodes holds by itself when the endpoints are left to the default *)
Lemma endpoints_dom (c : circuit) n : n ∈ endpoints c → n ∈ dom c.
Proof.
  unfold endpoints. rewrite elem_of_union, elem_of_outputs, elem_of_of_type.
  intros [(i & Hi & _)|(i & Hi & _)]; apply elem_of_dom; eauto.
Qed.
Lemma miter_E_default_dom Ca Cb Eo : Eo = None ∨ Eo = Some [] →
  list_to_set (miter_E Ca Cb Eo) ⊆ dom (c_g Ca) ∩ dom (c_g Cb).
Proof.
  intros HEo. assert (miter_E Ca Cb Eo = elements (endpoints (c_g Ca) ∩ endpoints (c_g Cb))) as ->.
  { by destruct HEo as [-> | ->]. }
  intros e [Ha Hb]%elem_of_list_to_set%elem_of_elements%elem_of_intersection.
  apply elem_of_intersection. split; by apply endpoints_dom.
Qed.

(* ---------- 7. COROLLARY: the solver's verdict on the miter decides equivalence ---------- *)
Section solver.
  (* solve c n = "there is a consistent valuation of c with node n = 1"
     (sat.solve(c, {n: True}) is not False); a section variable, never an axiom *)
  Variable solve : circuit → string → bool.
  Hypothesis solve_sound : ∀ c n, solve c n = true → ∃ v, consistent c v ∧ v n = true.
  Hypothesis solve_complete : ∀ c n v, consistent c v → v n = true → solve c n = true.

  Theorem miter_unsat_iff_equiv Ca Cbo So Eo M :
    let Cb := second Ca Cbo in let S := miter_S Ca Cb So in let E := miter_E Ca Cb Eo in
    closed (c_g Ca) → closed (c_g Cb) →
    (∀ n i, c_g Ca !! n = Some i → n_ty i = Input → n_fi i = ∅) →
    (∀ n i, c_g Cb !! n = Some i → n_ty i = Input → n_fi i = ∅) →
    list_to_set S ⊆ inputs (c_g Ca) ∩ inputs (c_g Cb) →
    list_to_set E ⊆ dom (c_g Ca) ∩ dom (c_g Cb) →
    miter Ca Cbo So Eo = Ok M →
    solve (c_g M) "sat" = false ↔
    ∀ v0 v1, consistent (c_g Ca) v0 → consistent (c_g Cb) v1 → (∀ s, s ∈ S → v0 s = v1 s) →
             ∀ e, e ∈ E → v0 e = v1 e.
  Proof.
    intros Cb S E Hcla Hclb Hina Hinb HS HE HM.
    pose proof (miter_sat_possible_iff Ca Cbo So Eo M Hcla Hclb Hina Hinb HS HE HM) as Hiff.
    fold Cb S E in Hiff. split.
    - intros Hsolve v0 v1 Hv0 Hv1 Htie e He.
      destruct (decide (v0 e = v1 e)) as [Heq|Hne]; [done|]. exfalso.
      destruct Hiff as [_ Hback]. destruct Hback as (v & Hv & Hsat); [by eauto 10|].
      rewrite (solve_complete _ _ _ Hv Hsat) in Hsolve. done.
    - intros Hequiv. destruct (solve (c_g M) "sat") eqn:Hsolve; [|done]. exfalso.
      apply solve_sound in Hsolve. apply Hiff in Hsolve as (v0 & v1 & Hv0 & Hv1 & Htie & e & He & Hne).
      apply Hne. by eapply Hequiv.
  Qed.
End solver.
