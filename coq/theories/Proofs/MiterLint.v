(* C20, second clause, for the producer tx.miter: the miter of two lint-clean circuits with the same,
   completely tied interface is lint-clean (miter_lint_clean; default / self calls as corollaries).
   Route: an invariant of the construction API (lok: the fan-in rules that do not depend on `undriven`;
   bbo: the bb_output load rule) that every successful connect / add preserves, growth (ext) of fan-ins,
   and the edges each `add` is known to create.  Everything here is proved; no axioms. *)
From Coq Require Import Ascii.
From stdpp Require Import strings gmap sets fin_sets.
From CG Require Import Base.Compose Base.Oracle Model.Miter Model.Lint Proofs.LintProofs Proofs.ComposeProofs
  Proofs.MiterProofs Proofs.UnrollLint.
Open Scope string_scope.

(* ---------- 0. glue ---------- *)
Lemma ml_tables_ok : tables_ok gen_tables = true.
Proof. vm_compute. reflexivity. Qed.
Lemma ml_lint_clean_iff C : lint_clean C ↔ ¬ violates C default_flags.
Proof. unfold lint_clean, lint. apply lint_ok_iff, ml_tables_ok. Qed.

(* the node-local rules that do not depend on `undriven` *)
Definition nok (j : ninfo) : Prop :=
  n_ty j ∈ doc_supported ∧
  (n_ty j ∈ doc_no_fanin → n_fi j = ∅) ∧
  (n_ty j ∈ doc_single → ∀ a b, a ∈ n_fi j → b ∈ n_fi j → a = b).
Definition lok (g : circuit) : Prop := ∀ n j, g !! n = Some j → nok j.
(* the bb_output rule: at most one load, and only buffers as loads *)
Definition bbo_at (g : circuit) (n : string) : Prop :=
  (∀ a b, a ∈ fanout g n → b ∈ fanout g n → a = b) ∧ (∀ m, m ∈ fanout g n → ty g m = Some Buf).
Definition bbo (g : circuit) : Prop := ∀ n j, g !! n = Some j → n_ty j = BbOut → bbo_at g n.
(* growth: nodes stay, keep their type and only gain fan-in *)
Definition ext (g g' : circuit) : Prop :=
  ∀ n j, g !! n = Some j → ∃ j', g' !! n = Some j' ∧ n_ty j' = n_ty j ∧ n_fi j ⊆ n_fi j'.
Definition has_edge (g : circuit) (u k : string) : Prop := ∃ j, g !! k = Some j ∧ u ∈ n_fi j.

Lemma ext_refl g : ext g g.
Proof. intros n j Hn. eauto. Qed.
Lemma ext_trans g1 g2 g3 : ext g1 g2 → ext g2 g3 → ext g1 g3.
Proof.
  intros H1 H2 n j Hn. destruct (H1 n j Hn) as (j2 & Hn2 & Ht2 & Hf2).
  destruct (H2 n j2 Hn2) as (j3 & Hn3 & Ht3 & Hf3). exists j3. split; [done|]. split; [congruence|].
  clear -Hf2 Hf3. set_solver.
Qed.
Lemma ext_edge g g' u k : ext g g' → has_edge g u k → has_edge g' u k.
Proof. intros H (j & Hk & Hu). destruct (H k j Hk) as (j' & Hk' & _ & Hf). exists j'. split; [done|]. by apply Hf. Qed.
Lemma ext_dom g g' k : ext g g' → k ∈ dom g → k ∈ dom g'.
Proof. intros H [j Hk]%elem_of_dom. destruct (H k j Hk) as (j' & Hk' & _). apply elem_of_dom. eauto. Qed.
Lemma ext_insert_fresh (g : circuit) n i : n ∉ dom g → ext g (<[n := i]> g).
Proof.
  intros Hn k j Hk. exists j. split; [|done]. rewrite lookup_insert_ne; [done|].
  intros ->. apply Hn, elem_of_dom. eauto.
Qed.

(* ---------- 1. what a successful connect does ---------- *)
Lemma ml_elem_of_pairs u v us vs : (u, v) ∈ pairs us vs ↔ u ∈ us ∧ v ∈ vs.
Proof.
  unfold pairs. rewrite elem_of_list_bind. split.
  - intros (u' & H & Hu). apply elem_of_list_bind in H as (v' & H & Hv). apply elem_of_list_singleton in H. by simplify_eq.
  - intros [Hu Hv]. exists u. split; [|done]. apply elem_of_list_bind. exists v. split; [|done]. by apply elem_of_list_singleton.
Qed.

Lemma ml_add_edges_lookup l : ∀ c n,
  foldl (λ c' (p : string * string), add_edge c' p.1 p.2) c l !! n =
  upd_fi (λ s, list_to_set (fst <$> filter (λ p, p.2 = n) l) ∪ s) <$> c !! n.
Proof.
  induction l as [|[u v] l IH]; intros c n; simpl.
  - destruct (c !! n) as [[t o fi]|]; simpl; [|done]. unfold upd_fi; simpl. f_equal. f_equal. set_solver.
  - rewrite IH. unfold add_edge. rewrite filter_cons. simpl. destruct (decide (v = n)) as [->|Hne].
    + rewrite lookup_alter. destruct (c !! n) as [[t o fi]|]; simpl; [|done]. unfold upd_fi; simpl. f_equal. f_equal. set_solver.
    + rewrite lookup_alter_ne by done. done.
Qed.

Lemma ml_connect_g_inv c us vs c' : connect_g c us vs = (c', Done) →
  (∀ n, ∃ X : gset string, c' !! n = upd_fi (λ s, X ∪ s) <$> c !! n ∧ ∀ u, u ∈ X ↔ u ∈ us ∧ n ∈ vs) ∧
  (us ≠ [] → vs ≠ [] → connect_check c us vs = true ∧ ∀ x, x ∈ (us ++ vs)%list → x ∈ dom c).
Proof.
  unfold connect_g. case_bool_decide as Hus; simpl.
  { intros [= <-]. split; [|done]. intros n. exists ∅. split; [|subst us; set_solver].
    destruct (c !! n) as [[t o fi]|]; simpl; [|done]. unfold upd_fi; simpl. f_equal. f_equal. set_solver. }
  case_bool_decide as Hvs; simpl.
  { intros [= <-]. split; [|done]. intros n. exists ∅. split; [|subst vs; set_solver].
    destruct (c !! n) as [[t o fi]|]; simpl; [|done]. unfold upd_fi; simpl. f_equal. f_equal. set_solver. }
  destruct (forallb _ _) eqn:Hall; cbn [negb]; [|done]. destruct (connect_check c us vs) eqn:Hck; simpl; [|done].
  intros [= <-]. split.
  - intros n. eexists. split; [apply ml_add_edges_lookup|].
    intros u. rewrite elem_of_list_to_set, elem_of_list_fmap. split.
    + intros ([u' v'] & -> & H). apply elem_of_list_filter in H as [H1 H2]. simpl in *. subst. by apply ml_elem_of_pairs.
    + intros [Hu Hv]. exists (u, n). split; [done|]. apply elem_of_list_filter. split; [done|]. by apply ml_elem_of_pairs.
  - intros _ _. split; [done|]. intros x Hx.
    rewrite forallb_forall in Hall. apply elem_of_list_In in Hx. specialize (Hall x Hx).
    by apply bool_decide_eq_true in Hall.
Qed.

Lemma connect_check_tgt c us vs v i :
  connect_check c us vs = true → v ∈ vs → c !! v = Some i →
  n_ty i ∉ conn_no_fanin ∧ (n_ty i ∈ conn_single_fanin → size (fanin c v) + length us ≤ 1).
Proof.
  unfold connect_check. intros [H1 _]%andb_true_iff Hv Hi.
  apply negb_true_iff in H1. pose proof (existsb_false _ _ H1 v Hv) as H. simpl in H.
  apply orb_false_elim in H as [Ha Hb]. unfold ty in Ha, Hb. rewrite Hi in Ha, Hb. simpl in Ha, Hb.
  apply bool_decide_eq_false in Ha. split; [done|]. intros Hs.
  rewrite (bool_decide_eq_true_2 _ Hs) in Hb. simpl in Hb. by apply Nat.ltb_ge in Hb.
Qed.

Lemma upd_fi_empty (j : ninfo) (X : gset string) : X ≡ ∅ → upd_fi (λ s, X ∪ s) j = j.
Proof. intros HX. destruct j as [t o fi]. unfold upd_fi. simpl. f_equal. clear -HX. set_solver. Qed.

Lemma connect_lok c us vs c' : lok c → connect_g c us vs = (c', Done) →
  lok c' ∧ ext c c' ∧ dom c' = dom c ∧
  (∀ u v, u ∈ us → v ∈ vs → v ∈ dom c → has_edge c' u v) ∧
  (us ≠ [] → vs ≠ [] → ∀ x, x ∈ (us ++ vs)%list → x ∈ dom c).
Proof.
  intros Hlok Hc. pose proof (connect_g_dom c us vs) as Hdom. rewrite Hc in Hdom. simpl in Hdom.
  destruct (ml_connect_g_inv _ _ _ _ Hc) as [Hlk Hck]. split; [|split; [|split; [done|split]]].
  - intros n j' Hn. destruct (Hlk n) as (X & HnX & HX). rewrite Hn in HnX.
    destruct (c !! n) as [j|] eqn:Hcn; simpl in HnX; [|done]. injection HnX as ->.
    destruct (Hlok n j Hcn) as (K1 & K3 & K4).
    destruct (decide (n ∈ vs)) as [Hv|Hv]; [|rewrite upd_fi_empty; [by apply (Hlok n)|]; clear -HX Hv; set_solver].
    destruct us as [|u0 us]; [rewrite upd_fi_empty; [by apply (Hlok n)|]; clear -HX; set_solver|].
    destruct Hck as [Hck _]; [done|by intros ->; apply elem_of_nil in Hv|].
    destruct (connect_check_tgt _ _ _ _ _ Hck Hv Hcn) as [T1 T2].
    unfold nok. cbn [upd_fi n_ty n_fi]. split; [done|]. split.
    + intros Ht. exfalso. apply T1. exact Ht.
    + intros Ht a b Ha Hb.
      assert (n_ty j ∈ conn_single_fanin) as Hs.
      { clear -Ht. unfold doc_single, conn_single_fanin in *. rewrite !elem_of_cons, elem_of_nil in *. tauto. }
      specialize (T2 Hs). simpl in T2.
      assert (us = []) as -> by (destruct us; [done|simpl in T2; lia]).
      rewrite (fanin_empty c n j Hcn) in Ha, Hb by lia.
      assert (∀ z, z ∈ X ∪ (∅ : gset string) → z = u0) as Hz.
      { intros z [Hz|Hz]%elem_of_union; [|by apply elem_of_empty in Hz]. apply HX in Hz as [Hz _].
        by apply elem_of_list_singleton in Hz. }
      rewrite (Hz a Ha), (Hz b Hb). done.
  - intros n j Hn. destruct (Hlk n) as (X & HnX & HX). rewrite Hn in HnX. simpl in HnX.
    eexists. split; [exact HnX|]. cbn [upd_fi n_ty n_fi]. split; [done|]. clear. set_solver.
  - intros u v Hu Hv [j Hj]%elem_of_dom. destruct (Hlk v) as (X & HnX & HX). rewrite Hj in HnX. simpl in HnX.
    eexists. split; [exact HnX|]. cbn [upd_fi n_fi]. apply elem_of_union_l, HX. done.
  - intros H1 H2. by destruct (Hck H1 H2).
Qed.

(* the source check of connect: a bb_output source drives buffers only, one in total *)
Lemma connect_check_src c us vs u i :
  connect_check c us vs = true → u ∈ us → c !! u = Some i → n_ty i = BbOut →
  (∀ v, v ∈ vs → ty c v = Some Buf) ∧ size (fanout c u) + length vs ≤ 1.
Proof.
  unfold connect_check. intros [_ H2]%andb_true_iff Hu Hi Ht.
  apply negb_true_iff in H2. pose proof (existsb_false _ _ H2 u Hu) as H. simpl in H.
  apply orb_false_elim in H as [_ Hb]. unfold ty in Hb at 1. rewrite Hi in Hb. simpl in Hb. rewrite Ht in Hb.
  change (is_in (Some BbOut) conn_bbout) with true in Hb. simpl in Hb.
  apply orb_false_elim in Hb as [Hb1 Hb2]. split.
  - intros v Hv. pose proof (existsb_false _ _ Hb1 v Hv) as Hv'. simpl in Hv'. apply negb_false_iff in Hv'.
    destruct (ty c v) as [t|]; simpl in Hv'; [|done]. apply bool_decide_eq_true in Hv'.
    apply elem_of_list_singleton in Hv'. by subst.
  - by apply Nat.ltb_ge in Hb2.
Qed.

Lemma connect_bbo c us vs c' : bbo c → connect_g c us vs = (c', Done) → bbo c'.
Proof.
  intros Hb Hc. destruct (ml_connect_g_inv _ _ _ _ Hc) as [Hlk Hck].
  pose proof (connect_g_shape c us vs) as Hsh. rewrite Hc in Hsh. simpl in Hsh.
  intros n j' Hn Ht. destruct (Hlk n) as (X & HnX & _). rewrite Hn in HnX.
  destruct (c !! n) as [j|] eqn:Hcn; simpl in HnX; [|done]. injection HnX as ->. cbn [upd_fi n_ty] in Ht.
  destruct (Hb n j Hcn Ht) as [U B].
  assert (Hfo : ∀ m, m ∈ fanout c' n → m ∈ fanout c n ∨ (n ∈ us ∧ m ∈ vs)).
  { intros m (i' & Hm & Hin)%elem_of_fanout. destruct (Hlk m) as (Y & HmY & HY). rewrite Hm in HmY.
    destruct (c !! m) as [i|] eqn:Hcm; simpl in HmY; [|done]. injection HmY as ->. cbn [upd_fi n_fi] in Hin.
    apply elem_of_union in Hin as [Hin|Hin]; [right; by apply HY|left]. apply elem_of_fanout. eauto. }
  assert (Hty : ∀ m, ty c' m = ty c m) by (intros m; by apply same_shape_ty).
  destruct (decide (n ∈ us ∧ vs ≠ [])) as [[Hu Hvs]|Hno].
  - assert (us ≠ []) as Hus by (intros ->; by apply elem_of_nil in Hu).
    destruct (Hck Hus Hvs) as [Hchk _].
    destruct (connect_check_src _ _ _ _ _ Hchk Hu Hcn Ht) as [S1 S2].
    destruct vs as [|v0 vs]; [done|]. simpl in S2.
    assert (vs = []) as -> by (destruct vs; [done|simpl in S2; lia]).
    assert (fanout c n ≡ ∅) as He by (apply size_empty_iff; lia).
    assert (∀ m, m ∈ fanout c' n → m = v0) as Hone.
    { intros m [Hm|[_ Hm]]%Hfo; [by apply He in Hm|by apply elem_of_list_singleton in Hm]. }
    split.
    + intros a b Ha Hb'. by rewrite (Hone a Ha), (Hone b Hb').
    + intros m Hm. rewrite (Hone m Hm), Hty. apply S1. by left.
  - assert (∀ m, m ∈ fanout c' n → m ∈ fanout c n) as Hsub.
    { intros m [Hm|[Hu Hm]]%Hfo; [done|]. exfalso. apply Hno. split; [done|]. intros ->. by apply elem_of_nil in Hm. }
    split.
    + intros a b Ha Hb'. apply U; by apply Hsub.
    + intros m Hm. rewrite Hty. by apply B, Hsub.
Qed.

Lemma insert_bbo (g : circuit) n t o : bbo g → n ∉ dom g → t ≠ BbOut → bbo (<[n := mk_node t o ∅]> g).
Proof.
  intros Hb Hn Ht k j Hk Hty. apply not_elem_of_dom in Hn.
  assert (k ≠ n) as Hkn. { intros ->. rewrite lookup_insert in Hk. injection Hk as <-. simpl in Hty. done. }
  rewrite lookup_insert_ne in Hk by done. destruct (Hb k j Hk Hty) as [U B].
  assert (Hsub : ∀ m, m ∈ fanout (<[n := mk_node t o ∅]> g) k → m ≠ n ∧ m ∈ fanout g k).
  { intros m (i & Hm & Hin)%elem_of_fanout. destruct (decide (m = n)) as [->|Hmn].
    - rewrite lookup_insert in Hm. injection Hm as <-. simpl in Hin. by apply elem_of_empty in Hin.
    - rewrite lookup_insert_ne in Hm by done. split; [done|]. apply elem_of_fanout. eauto. }
  split.
  - intros a b Ha Hb'. apply U; by apply Hsub.
  - intros m Hm. destruct (Hsub m Hm) as [Hmn Hm']. unfold ty. rewrite lookup_insert_ne by done. by apply B.
Qed.

(* ---------- 2. a successful plain `add` ---------- *)
Lemma add_g_lok g n t fi fo fl g' n' :
  af_uid fl = false → af_conn fl = false → af_redef fl = false →
  lok g → bbo g → t ∈ doc_supported → t ≠ BbOut →
  add_g g n t fi fo fl = (g', Done, n') →
  n ∉ dom g ∧ lok g' ∧ bbo g' ∧ ext g g' ∧ dom g' = {[n]} ∪ dom g ∧
  (∃ j, g' !! n = Some j ∧ n_ty j = t) ∧
  (∀ u, u ∈ fi → has_edge g' u n ∧ u ∈ dom g') ∧
  (∀ v, v ∈ fo → has_edge g' n v).
Proof.
  intros Hu Hc Hr Hlok Hbbo Hsup Hbo H.
  destruct (add_g_done _ _ _ _ _ _ _ _ Hu Hc Hr H) as (-> & Hn & g2 & H1 & H2).
  set (g1 := <[n:=mk_node t (af_out fl) ∅]> g) in *.
  assert (Hlok1 : lok g1).
  { intros k j Hk. unfold g1 in Hk. destruct (decide (k = n)) as [->|Hne].
    - rewrite lookup_insert in Hk. injection Hk as <-. unfold nok. simpl. split; [done|]. split; [done|].
      intros _ a b Ha. by apply elem_of_empty in Ha.
    - rewrite lookup_insert_ne in Hk by done. by apply (Hlok k). }
  assert (Hbbo1 : bbo g1) by (by apply insert_bbo).
  assert (Hd1 : dom g1 = {[n]} ∪ dom g) by (unfold g1; by rewrite dom_insert_L).
  destruct (connect_lok _ _ _ _ Hlok1 H1) as (Hlok2 & Hext2 & Hd2 & He2 & Hin2).
  pose proof (connect_bbo _ _ _ _ Hbbo1 H1) as Hbbo2.
  destruct (connect_lok _ _ _ _ Hlok2 H2) as (Hlok3 & Hext3 & Hd3 & He3 & Hin3).
  pose proof (connect_bbo _ _ _ _ Hbbo2 H2) as Hbbo3.
  assert (Hnd1 : n ∈ dom g1) by (rewrite Hd1; clear; set_solver).
  split; [done|]. split; [done|]. split; [done|]. split; [|split; [|split; [|split]]].
  - eapply ext_trans; [apply ext_insert_fresh, Hn|]. eapply ext_trans; eauto.
  - by rewrite Hd3, Hd2.
  - assert (g1 !! n = Some (mk_node t (af_out fl) ∅)) as Hg1 by apply lookup_insert.
    destruct (ext_trans _ _ _ Hext2 Hext3 n _ Hg1) as (j & Hj & Ht & _). eauto.
  - intros u Hu'. assert (fi ≠ []) as Hne by (intros ->; by apply elem_of_nil in Hu').
    split.
    + apply He3; [done|by left|by rewrite Hd2].
    + rewrite Hd3. apply Hin3; [done..|]. apply elem_of_app. by left.
  - intros v Hv. assert (fo ≠ []) as Hne by (intros ->; by apply elem_of_nil in Hv).
    apply (ext_edge g2); [done|]. apply He2; [by left|done|].
    apply Hin2; [done..|]. apply elem_of_app. by right.
Qed.

(* ---------- 3. loops of `add` ---------- *)
Lemma add_each_lok (ρ : string → string) t (fi fo : string → list string) l :
  t ∈ doc_supported → t ≠ BbOut → ∀ g g',
  lok g → bbo g →
  add_each (λ g n, add_g g (ρ n) t (fi n) (fo n) af_default) g l = (g', Done) →
  lok g' ∧ bbo g' ∧ ext g g' ∧
  ∀ n, n ∈ l → (∀ u, u ∈ fi n → has_edge g' u (ρ n) ∧ u ∈ dom g') ∧ (∀ v, v ∈ fo n → has_edge g' (ρ n) v).
Proof.
  intros Hsup Hbo. induction l as [|e l IH]; intros g g' Hlok Hbbo Hl.
  - apply add_each_nil in Hl as ->. split; [done|]. split; [done|]. split; [apply ext_refl|].
    intros n Hn. by apply elem_of_nil in Hn.
  - apply add_each_cons in Hl as (g1 & n1 & Hstep & Hl).
    destruct (add_g_lok _ _ _ _ _ af_default _ _ eq_refl eq_refl eq_refl Hlok Hbbo Hsup Hbo Hstep)
      as (_ & Hlok1 & Hbbo1 & Hext1 & _ & _ & Hfi & Hfo).
    destruct (IH g1 g' Hlok1 Hbbo1 Hl) as (Hlok' & Hbbo' & Hext' & Hall).
    split; [done|]. split; [done|]. split; [by eapply ext_trans|].
    intros n [->|Hn]%elem_of_cons; [|by apply Hall]. split.
    + intros u Hu. destruct (Hfi u Hu) as [A B]. split; [by eapply ext_edge|by eapply ext_dom].
    + intros v Hv. eapply ext_edge; eauto.
Qed.

(* ---------- 4. what lint-cleanliness of a blackbox-free circuit gives ---------- *)
Ltac mem_tac := unfold doc_supported, doc_no_fanin, doc_single, doc_multi in *;
  rewrite ?elem_of_app, ?elem_of_cons, ?elem_of_nil in *; intuition congruence.

Definition drv (j : ninfo) : Prop := n_ty j ∈ (doc_single ++ doc_multi)%list → n_fi j ≠ ∅.

Lemma two_elems (s : gset string) a b : a ∈ s → b ∈ s → a ≠ b → 1 < size s.
Proof.
  intros Ha Hb Hne. assert (size ({[a; b]} : gset string) ≤ size s) as H by (apply subseteq_size; set_solver).
  rewrite size_union, !size_singleton in H by set_solver. lia.
Qed.

Lemma lint_clean_facts C : lint_clean C → c_bbs C = ∅ →
  (∀ n j, c_g C !! n = Some j → has_dot n = false ∧ nok j ∧ drv j) ∧ bbo (c_g C).
Proof.
  intros Hl Hbb. apply ml_lint_clean_iff in Hl.
  assert (Hnv : ∀ n j, c_g C !! n = Some j → ¬ node_violates C default_flags n j).
  { intros n j Hn V. apply Hl. left. eauto. }
  split.
  - intros n j Hn. specialize (Hnv n j Hn). split; [|split; [split; [|split]|]].
    + destruct (has_dot n) eqn:E; [|done]. exfalso. apply Hnv. right. left. split; [done|]. rewrite Hbb. set_solver.
    + destruct (decide (n_ty j ∈ doc_supported)); [done|]. exfalso. apply Hnv. by left.
    + intros Ht. destruct (decide (n_fi j = ∅)); [done|]. exfalso. apply Hnv. right. right. left. done.
    + intros Ht a b Ha Hb. destruct (decide (a = b)); [done|]. exfalso. apply Hnv. do 4 right. left. split; [done|].
      by apply (two_elems _ a b).
    + intros Ht He. apply Hnv. do 5 right. left. done.
  - intros n j Hn Ht. specialize (Hnv n j Hn). split.
    + intros a b Ha Hb. destruct (decide (a = b)); [done|]. exfalso. apply Hnv. do 3 right. left. split; [done|]. left.
      by apply (two_elems _ a b).
    + intros m Hm. destruct (decide (ty (c_g C) m = Some Buf)); [done|]. exfalso. apply Hnv. do 3 right. left.
      split; [done|]. right. eauto.
Qed.

(* the converse, node by node *)
Lemma node_fine (C : Circuit) k j :
  has_dot k = false → nok j → drv j → (n_ty j = BbOut → bbo_at (c_g C) k) →
  ¬ node_violates C default_flags k j.
Proof.
  intros Hdot (H1 & H3 & H4) H5 H6 [V|[V|[V|[V|[V|[V|[V|V]]]]]]].
  - done.
  - destruct V as [V _]. congruence.
  - destruct V as [V1 V2]. by apply V2, H3.
  - destruct V as [V1 V2]. destruct (H6 V1) as [U B]. destruct V2 as [V2|(m & Hm & Hty)].
    + apply size_gt1 in V2 as (a & b & Ha & Hb & Hne). apply Hne. by apply U.
    + by apply Hty, B.
  - destruct V as [V1 V2]. apply size_gt1 in V2 as (a & b & Ha & Hb & Hne). apply Hne. by apply H4.
  - destruct V as (_ & V1 & V2). by apply H5.
  - destruct V as [V _]. done.
  - destruct V as [V _]. done.
Qed.

(* ---------- 5. the spliced copies ---------- *)
Lemma copy_nok (ρ : string → string) i : nok i → nok (ren_info ρ (strip_info i)).
Proof.
  intros (H1 & H3 & H4). unfold nok. cbn [ren_info strip_info n_ty n_fi]. case_bool_decide as Hin.
  - split; [mem_tac|]. split; [intros H; exfalso; clear -H; mem_tac|].
    intros _ a b Ha. rewrite H3 in Ha by (rewrite Hin; clear; mem_tac). rewrite set_map_empty in Ha. by apply elem_of_empty in Ha.
  - split; [done|]. split.
    + intros Ht. rewrite (H3 Ht). apply set_map_empty.
    + intros Ht a b (a' & -> & Ha)%elem_of_map (b' & -> & Hb)%elem_of_map. f_equal. by apply H4.
Qed.

Lemma nok_fresh t o : t ∈ doc_supported → nok (mk_node t o ∅).
Proof.
  intros H1. unfold nok. simpl. split; [done|]. split; [done|].
  intros _ a b Ha. by apply elem_of_empty in Ha.
Qed.

Lemma sat_type_cases E : (E = [] ∧ sat_type E = C0) ∨ (E ≠ [] ∧ (sat_type E = Or ∨ sat_type E = Buf)).
Proof.
  unfold sat_type. case_bool_decide; [by left|]. right. split; [done|]. destruct (1 <? length E)%nat; auto.
Qed.

Lemma pre_c0_not_dif a b : pre "c0" a ≠ pre "dif" b.
Proof. unfold pre. simpl. intros [=]. Qed.
Lemma pre_c0_not_sat a : pre "c0" a ≠ "sat".
Proof. unfold pre. simpl. intros [=]. Qed.
Lemma pre_c0_not_c1 a b : pre "c0" a ≠ pre "c1" b.
Proof. unfold pre. simpl. intros [=]. Qed.
Lemma pre_c1_not_c0 a b : pre "c1" a ≠ pre "c0" b.
Proof. unfold pre. simpl. intros [=]. Qed.
Lemma nonempty_of_elem (s : gset string) u : u ∈ s → s ≠ ∅.
Proof. intros H ->. by apply elem_of_empty in H. Qed.

(* the bb_output rule in the union of two renamed copies *)
Lemma copies_bbo (g : circuit) (ca cb : circuit) p q :
  (∀ a b, pre p a ≠ pre q b) → (∀ a b, pre q a ≠ pre p b) → bbo ca → bbo cb →
  (∀ k j, g !! k = Some j →
     (∃ n i, k = pre p n ∧ ca !! n = Some i ∧ j = ren_info (pre p) (strip_info i)) ∨
     (∃ n i, k = pre q n ∧ cb !! n = Some i ∧ j = ren_info (pre q) (strip_info i))) →
  bbo g.
Proof.
  intros Hpq Hqp Ha Hb HG.
  assert (Hone : ∀ (c c2 : circuit) p1 p2, (∀ a b, pre p1 a ≠ pre p2 b) → bbo c →
     (∀ k j, g !! k = Some j →
        (∃ n i, k = pre p1 n ∧ c !! n = Some i ∧ j = ren_info (pre p1) (strip_info i)) ∨
        (∃ n i, k = pre p2 n ∧ c2 !! n = Some i ∧ j = ren_info (pre p2) (strip_info i))) →
     ∀ n i, c !! n = Some i → n_ty (strip_info i) = BbOut → bbo_at g (pre p1 n)).
  { intros c c2 p1 p2 Hne Hc HG' n i Hn Ht.
    assert (n_ty i = BbOut) as Hti. { simpl in Ht. case_bool_decide; [done|exact Ht]. }
    destruct (Hc n i Hn Hti) as [U B].
    assert (Hfo : ∀ m, m ∈ fanout g (pre p1 n) → ∃ m', m = pre p1 m' ∧ m' ∈ fanout c n ∧ ty g m = ty c m').
    { intros m (jm & Hm & Hin)%elem_of_fanout.
      destruct (HG' m jm Hm) as [(m' & i' & -> & Hm' & ->)|(m' & i' & -> & Hm' & ->)]; cbn [ren_info n_fi strip_info] in Hin;
        apply elem_of_map in Hin as (z & Hz & Hzin).
      - apply (inj (pre p1)) in Hz as <-. exists m'. split; [done|]. split; [apply elem_of_fanout; eauto|].
        unfold ty. rewrite Hm, Hm'. simpl.
        assert (ty c m' = Some Buf) as Hb'. { apply B. apply elem_of_fanout. eauto. }
        unfold ty in Hb'. rewrite Hm' in Hb'. simpl in Hb'. injection Hb' as ->. by rewrite bool_decide_eq_false_2.
      - exfalso. by apply (Hne n z). }
    split.
    - intros a b (a' & -> & Ha' & _)%Hfo (b' & -> & Hb' & _)%Hfo. f_equal. by apply U.
    - intros m Hm. destruct (Hfo m Hm) as (m' & -> & Hm' & ->). by apply B. }
  intros k j Hk Ht. destruct (HG k j Hk) as [(n & i & -> & Hn & ->)|(n & i & -> & Hn & ->)].
  - by apply (Hone ca cb p q Hpq Ha HG n i Hn).
  - refine (Hone cb ca q p Hqp Hb _ n i Hn Ht). intros k' j' Hk'. destruct (HG k' j' Hk'); [by right|by left].
Qed.

(* ---------- 6. the miter after the blackbox checks ---------- *)
Lemma miter_core_lint Ca Cb S E M :
  c_bbs Ca = ∅ → c_bbs Cb = ∅ →
  miter_core Ca Cb S E = Ok M →
  lint_clean Ca → lint_clean Cb →
  list_to_set S = inputs (c_g Ca) → list_to_set S = inputs (c_g Cb) →
  lint_clean M.
Proof.
  intros Hba Hbb HM Hla Hlb HSa HSb.
  destruct (lint_clean_facts Ca Hla Hba) as [HA HAb].
  destruct (lint_clean_facts Cb Hlb Hbb) as [HB HBb].
  destruct (miter_core_struct _ _ _ _ _ HM) as (Hbbs & _).
  apply miter_core_inv in HM as (M1 & M2 & g3 & g4 & g5 & n4 & H1 & H2 & H3 & H4 & H5 & ->).
  destruct (add_subcircuit_inv _ _ _ _ _ H1) as (_ & Hf1 & _ & _ & _ & Hg1).
  destruct (add_subcircuit_inv _ _ _ _ _ H2) as (_ & Hf2 & _ & _ & _ & Hg2).
  simpl in Hg1, Hg2. injection Hg1 as Hg1. injection Hg2 as Hg2.
  assert (HG2 : ∀ k j, c_g M2 !! k = Some j →
     (∃ n i, k = pre "c0" n ∧ c_g Ca !! n = Some i ∧ j = ren_info (pre "c0") (strip_info i)) ∨
     (∃ n i, k = pre "c1" n ∧ c_g Cb !! n = Some i ∧ j = ren_info (pre "c1") (strip_info i))).
  { intros k j Hk. rewrite <- Hg2 in Hk.
    destruct (spliced_lookup_child M1 Cb "c1" k j Hf2 Hk) as [Hk1|?]; [|by right].
    rewrite <- Hg1 in Hk1.
    destruct (spliced_lookup_child (miter_M0 Ca Cb) Ca "c0" k j Hf1 Hk1) as [Hk0|?]; [|by left].
    simpl in Hk0. by rewrite lookup_empty in Hk0. }
  assert (Hlok2 : lok (c_g M2)).
  { intros k j Hk. destruct (HG2 k j Hk) as [(n & i & -> & Hn & ->)|(n & i & -> & Hn & ->)]; apply copy_nok.
    - by apply (HA n).
    - by apply (HB n). }
  assert (Hbbo2 : bbo (c_g M2)).
  { exact (copies_bbo _ _ _ "c0" "c1" pre_c0_not_c1 pre_c1_not_c0 HAb HBb HG2). }
  destruct (add_each_lok id Input (λ _, []) (λ n, [pre "c0" n; pre "c1" n]) S ltac:(clear; mem_tac) ltac:(done) _ _ Hlok2 Hbbo2 H3)
    as (Hlok3 & Hbbo3 & Hext3 & Htie).
  destruct (add_each_grown id Input (λ _, []) (λ n, [pre "c0" n; pre "c1" n]) S _ _ H3) as (_ & _ & Hgr3).
  rewrite list_fmap_id in Hgr3.
  destruct (sat_step _ _ _ _ H4) as [Hs4 ->].
  set (g4 := <["sat":=mk_node (sat_type E) true ∅]> g3) in *.
  assert (Hst : sat_type E ∈ doc_supported ∧ sat_type E ≠ BbOut).
  { destruct (sat_type_cases E) as [[_ ->]|[_ [->| ->]]]; (split; [clear; mem_tac|done]). }
  assert (Hlok4 : lok g4).
  { intros k j Hk. unfold g4 in Hk. destruct (decide (k = "sat")) as [->|Hne].
    - rewrite lookup_insert in Hk. injection Hk as <-. apply nok_fresh, Hst.
    - rewrite lookup_insert_ne in Hk by done. by apply (Hlok3 k). }
  assert (Hbbo4 : bbo g4) by (apply insert_bbo; [done..|apply Hst]).
  assert (Hext4 : ext g3 g4) by apply ext_insert_fresh, Hs4.
  destruct (add_each_lok (pre "dif") Xor (λ n, [pre "c0" n; pre "c1" n]) (λ _, ["sat"]) E ltac:(clear; mem_tac) ltac:(done) _ _ Hlok4 Hbbo4 H5)
    as (Hlok5 & Hbbo5 & Hext5 & Hdif).
  destruct (add_each_grown (pre "dif") Xor (λ n, [pre "c0" n; pre "c1" n]) (λ _, ["sat"]) E _ _ H5) as (_ & _ & Hgr5).
  assert (Hext35 : ext g3 g5) by (eapply ext_trans; eauto).
  assert (Hext25 : ext (c_g M2) g5) by (eapply ext_trans; eauto).
  assert (HSdot : ∀ s, s ∈ S → has_dot s = false).
  { intros s Hs. assert (s ∈ inputs (c_g Ca)) as (i & Hi & _)%elem_of_inputs by (rewrite <- HSa; by apply elem_of_list_to_set).
    by apply (HA s i). }
  assert (Hold : ∀ k j, g5 !! k = Some j → k ∉ (list_to_set (pre "dif" <$> E) : gset string) → k ≠ "sat" →
      has_dot k = false ∧ drv j).
  { intros k j Hk Hnd Hns. unfold drv.
    destruct (grown_lookup_old _ _ _ _ _ _ _ Hgr5 Hnd Hk) as (j4 & Hk4 & Ht4 & _).
    unfold g4 in Hk4. rewrite lookup_insert_ne in Hk4 by done.
    destruct (decide (k ∈ (list_to_set S : gset string))) as [HkS|HkS].
    - destruct (grown_lookup_new _ _ _ _ _ _ Hgr3 HkS) as (j3 & Hk3 & Ht3 & _). rewrite Hk4 in Hk3. injection Hk3 as <-.
      split; [apply HSdot; by apply (proj1 (elem_of_list_to_set (C:=gset string) k S))|].
      rewrite <- Ht4, Ht3. intros H. exfalso. clear -H. mem_tac.
    - destruct (grown_lookup_old _ _ _ _ _ _ _ Hgr3 HkS Hk4) as (j2 & Hk2 & Ht2 & _).
      destruct (Hext25 k j2 Hk2) as (j' & Hk' & _ & Hsub). rewrite Hk in Hk'. injection Hk' as <-.
      assert (Hcopy : ∀ (C : Circuit) p n i,
        (∀ n i, c_g C !! n = Some i → has_dot n = false ∧ nok i ∧ drv i) → list_to_set S = inputs (c_g C) →
        has_dot p = false → (∀ s, s ∈ S → has_edge g3 s (pre p s)) →
        k = pre p n → c_g C !! n = Some i → j2 = ren_info (pre p) (strip_info i) →
        has_dot k = false ∧ (n_ty j ∈ (doc_single ++ doc_multi)%list → n_fi j ≠ ∅)).
      { intros C p n i HC HS Hp Hedges -> Hn ->. destruct (HC n i Hn) as (Hdot & _ & W5).
        split; [by rewrite has_dot_pre, Hp, Hdot|].
        rewrite <- Ht4, <- Ht2. cbn [ren_info strip_info n_ty]. case_bool_decide as Hin.
        - intros _. assert (n ∈ S) as HnS.
          { apply (elem_of_list_to_set (C:=gset string)). rewrite HS. apply elem_of_inputs. eauto. }
          destruct (ext_edge _ _ _ _ Hext35 (Hedges n HnS)) as (j' & Hk' & Hu). rewrite Hk in Hk'. injection Hk' as <-.
          by eapply nonempty_of_elem.
        - intros Ht. specialize (W5 Ht). apply set_choose_L in W5 as [z Hz].
          apply (nonempty_of_elem _ (pre p z)). apply Hsub. cbn [ren_info strip_info n_fi]. apply elem_of_map. eauto. }
      destruct (HG2 k j2 Hk2) as [(n & i & Hkn & Hn & Hj2)|(n & i & Hkn & Hn & Hj2)].
      + apply (Hcopy Ca "c0" n i); try done. intros s Hs. destruct (Htie s Hs) as [_ Hfo]. apply Hfo. by left.
      + apply (Hcopy Cb "c1" n i); try done. intros s Hs. destruct (Htie s Hs) as [_ Hfo]. apply Hfo. right. by left. }
  apply ml_lint_clean_iff. intros [(k & j & Hk & Hv)|(inst & d & Hd & _)].
  2:{ rewrite Hbbs, Hba, Hbb, !kmap_empty in Hd. by rewrite !(left_id_L ∅ (∪)), lookup_empty in Hd. }
  change (c_g (with_g M2 g5)) with g5 in Hk.
  assert (has_dot k = false ∧ drv j) as [Hd Hdr].
  2:{ apply (node_fine (with_g M2 g5) k j Hd); [by apply (Hlok5 k)|done| |exact Hv]. intros Ht. by apply (Hbbo5 k j). }
  destruct (decide (k ∈ (list_to_set (pre "dif" <$> E) : gset string))) as [Hkd|Hkd].
  - apply elem_of_list_to_set, elem_of_list_fmap in Hkd as (e & -> & He).
    destruct (Hdif e He) as [Hfi _]. destruct (Hfi (pre "c0" e)) as [Hedge Hdom]; [by left|].
    split.
    + apply elem_of_dom in Hdom as [j0 Hj0]. destruct (Hold _ _ Hj0) as [Hd0 _].
      * rewrite elem_of_list_to_set, elem_of_list_fmap. intros (e' & He' & _). by apply pre_c0_not_dif in He'.
      * apply pre_c0_not_sat.
      * rewrite has_dot_pre in Hd0 |- *. simpl in *. done.
    + intros _. destruct Hedge as (j' & Hk' & Hu). rewrite Hk in Hk'. injection Hk' as <-. by eapply nonempty_of_elem.
  - destruct (decide (k = "sat")) as [->|Hks]; [|by apply Hold].
    split; [reflexivity|]. unfold drv.
    destruct (grown_lookup_old _ _ _ _ _ _ _ Hgr5 Hkd Hk) as (j4 & Hk4 & Ht4 & _).
    unfold g4 in Hk4. rewrite lookup_insert in Hk4. injection Hk4 as <-. simpl in Ht4.
    rewrite <- Ht4. destruct (sat_type_cases E) as [[_ ->]|[HE _]]; [intros H; exfalso; clear -H; mem_tac|].
    intros _. destruct E as [|e E]; [done|]. destruct (Hdif e) as [_ Hfo]; [by left|].
    destruct (Hfo "sat") as (j' & Hk' & Hu); [by left|]. rewrite Hk in Hk'. injection Hk' as <-. by eapply nonempty_of_elem.
Qed.

(* ---------- FINAL THEOREMS ---------- *)
(* C20, second clause, for tx.miter.  The two interface hypotheses are necessary (an untied input c1_b of the
   copy is an undriven buffer).  No hypothesis on blackbox-pin typed nodes is needed: a bb_input-typed node is
   handled like any single-input gate, and `connect` never gives a bb_output-typed node a new load that is
   not a buffer or a second load. *)
Theorem miter_lint_clean Ca Cbo So Eo M :
  miter Ca Cbo So Eo = Ok M →
  let Cb := second Ca Cbo in let S := miter_S Ca Cb So in
  lint_clean Ca → lint_clean Cb →
  (* same interface, every input tied: the tied startpoints are exactly the inputs of both circuits *)
  list_to_set S = inputs (c_g Ca) → list_to_set S = inputs (c_g Cb) →
  lint_clean M.
Proof.
  rewrite miter_unfold. intros H Cb S. fold Cb in H. fold S in H.
  case_bool_decide as Hba; [|done]. case_bool_decide as Hbb; [|done]. cbn [negb] in H.
  intros Hla Hlb HSa HSb. by eapply (miter_core_lint Ca Cb S).
Qed.

(* the statement with the two permitted simplifying hypotheses (they are not used) *)
Corollary miter_lint_clean_nopins Ca Cbo So Eo M :
  miter Ca Cbo So Eo = Ok M →
  let Cb := second Ca Cbo in let S := miter_S Ca Cb So in
  lint_clean Ca → lint_clean Cb →
  list_to_set S = inputs (c_g Ca) → list_to_set S = inputs (c_g Cb) →
  of_type (c_g Ca) (λ t, is_ty BbIn t || is_ty BbOut t) = ∅ → of_type (c_g Cb) (λ t, is_ty BbIn t || is_ty BbOut t) = ∅ →
  lint_clean M.
Proof. intros H Cb S Hla Hlb HSa HSb _ _. exact (miter_lint_clean Ca Cbo So Eo M H Hla Hlb HSa HSb). Qed.

(* the default call: all common startpoints are tied; without bb_output-typed nodes these are the inputs *)
Lemma startpoints_no_bbout (g : circuit) : of_type g (is_ty BbOut) = ∅ → startpoints g = inputs g.
Proof.
  intros Ho. apply set_eq. intros n. unfold startpoints, inputs. rewrite !elem_of_of_type. split.
  - intros (i & Hi & Ht). exists i. split; [done|]. apply orb_true_iff in Ht as [Ht|Ht]; [done|].
    exfalso. assert (n ∈ of_type g (is_ty BbOut)) as Hin by (apply elem_of_of_type; eauto).
    rewrite Ho in Hin. by apply elem_of_empty in Hin.
  - intros (i & Hi & Ht). exists i. split; [done|]. rewrite Ht. done.
Qed.

Corollary miter_default_lint_clean Ca Cb M :
  c_g Cb ≠ ∅ →
  miter Ca (Some Cb) None None = Ok M →
  lint_clean Ca → lint_clean Cb →
  inputs (c_g Ca) = inputs (c_g Cb) →
  of_type (c_g Ca) (is_ty BbOut) = ∅ → of_type (c_g Cb) (is_ty BbOut) = ∅ →
  lint_clean M.
Proof.
  intros Hg H Hla Hlb Hin Hoa Hob.
  pose proof (miter_lint_clean _ _ _ _ _ H) as Hs. cbv zeta in Hs.
  assert (second Ca (Some Cb) = Cb) as E1 by (unfold second; by rewrite bool_decide_eq_false_2).
  rewrite E1 in Hs.
  change (miter_S Ca Cb None) with (elements (startpoints (c_g Ca) ∩ startpoints (c_g Cb))) in Hs.
  rewrite list_to_set_elements_L, !startpoints_no_bbout, <- Hin in Hs by done.
  apply Hs; try done; clear; set_solver.
Qed.

(* the self-miter `miter(c)` with default startpoints *)
Corollary miter_self_lint_clean Ca M :
  miter Ca None None None = Ok M →
  lint_clean Ca → of_type (c_g Ca) (is_ty BbOut) = ∅ →
  lint_clean M.
Proof.
  intros H Hla Hoa.
  pose proof (miter_lint_clean _ _ _ _ _ H) as Hs. cbv zeta in Hs.
  change (second Ca None) with Ca in Hs.
  change (miter_S Ca Ca None) with (elements (startpoints (c_g Ca) ∩ startpoints (c_g Ca))) in Hs.
  rewrite list_to_set_elements_L, !startpoints_no_bbout in Hs by done.
  apply Hs; try done; clear; set_solver.
Qed.
