(* C04: specification of tx.miter (Model/Miter.v): structure and semantics of the miter circuit.
   Everything here is proved; no axioms. *)
From stdpp Require Import strings gmap sets fin_sets.
From CG Require Import Base.Compose Base.Oracle Model.Miter Proofs.ComposeProofs.
Open Scope string_scope.

(* ---------- 1. a successful plain `add` ---------- *)
Lemma fanin_fresh (g : circuit) n : n ∉ dom g → fanin g n = ∅.
Proof. intros H. unfold fanin. apply not_elem_of_dom in H. by rewrite H. Qed.

Lemma add_g_done g n t fi fo fl g' n' :
  af_uid fl = false → af_conn fl = false → af_redef fl = false →
  add_g g n t fi fo fl = (g', Done, n') →
  n' = n ∧ n ∉ dom g ∧
  ∃ g2, connect_g (<[n := mk_node t (af_out fl) ∅]> g) [n] fo = (g2, Done) ∧
        connect_g g2 fi [n] = (g', Done).
Proof.
  intros Hu Hc Hr. unfold add_g. rewrite Hu, Hc, Hr. cbn [negb andb].
  destruct (bool_decide (n ∈ dom g)) eqn:Hn; cbn [negb andb]; [done|].
  apply bool_decide_eq_false in Hn.
  destruct (negb (bool_decide (t ∈ supported_types))); [done|].
  destruct ((1 <? length fi)%nat && bool_decide (t ∈ add_single_fanin)); [done|].
  destruct (negb (bool_decide (fi = [])) && bool_decide (t ∈ add_no_fanin)); [done|].
  destruct (bool_decide (n = "")); [done|].
  destruct (starts_digit n); [done|].
  rewrite (fanin_fresh g n Hn). cbv zeta. cbv beta iota.
  destruct (connect_g (<[n:=mk_node t (af_out fl) ∅]> g) [n] fo) as [c2 o] eqn:H1.
  destruct o as [|e]; [|done].
  destruct (connect_g c2 fi [n]) as [c3 o3] eqn:H2.
  destruct o3 as [|e]; [|destruct e; done].
  intros [= <- <-]. split; [done|]. split; [done|]. exists c2. done.
Qed.

Lemma connect_g_nil_l c vs : connect_g c [] vs = (c, Done).
Proof. reflexivity. Qed.
Lemma connect_g_nil_r c us : connect_g c us [] = (c, Done).
Proof. unfold connect_g. by rewrite (bool_decide_eq_true_2 ([] = [])), orb_true_r. Qed.

Lemma connect_g_done c us vs c' : us ≠ [] → vs ≠ [] → connect_g c us vs = (c', Done) →
  c' = foldl (λ c' (p : string * string), add_edge c' p.1 p.2) c (pairs us vs) ∧
  ∀ x, x ∈ (us ++ vs)%list → x ∈ dom c.
Proof.
  intros Hus Hvs. unfold connect_g.
  rewrite (bool_decide_eq_false_2 (us = [])), (bool_decide_eq_false_2 (vs = [])) by done. cbn [orb].
  destruct (forallb _ (us ++ vs)) eqn:Hall; cbn [negb]; [|done].
  destruct (connect_check c us vs); cbn [negb]; [|done].
  intros [= <-]. split; [done|]. intros x Hx.
  rewrite forallb_forall in Hall. apply elem_of_list_In in Hx. specialize (Hall x Hx).
  by apply bool_decide_eq_true in Hall.
Qed.

(* ---------- 2. fresh nodes ---------- *)
Lemma consistent_insert_fresh (g : circuit) n i v : n ∉ dom g →
  consistent (<[n := i]> g) v ↔ consistent g v ∧ node_ok v n i.
Proof.
  intros Hn. apply not_elem_of_dom in Hn. unfold consistent. split.
  - intros H. split.
    + intros k j Hk. apply H. rewrite lookup_insert_ne; [done|]. intros ->. congruence.
    + apply H. by rewrite lookup_insert.
  - intros [H Hi] k j Hk. destruct (decide (k = n)) as [->|Hne].
    + rewrite lookup_insert in Hk. by simplify_eq.
    + rewrite lookup_insert_ne in Hk by done. by apply H.
Qed.

Lemma node_ok_input v n o fi : node_ok v n (mk_node Input o fi).
Proof. done. Qed.

(* all nodes but one *)
Definition consistent_except (g : circuit) (x : string) (v : val) : Prop :=
  ∀ n i, n ≠ x → g !! n = Some i → node_ok v n i.
Lemma consistent_split g x i v : g !! x = Some i →
  consistent g v ↔ consistent_except g x v ∧ node_ok v x i.
Proof.
  intros Hx. unfold consistent, consistent_except. split.
  - intros H. split; [intros n j _ Hn; by apply H|by apply H].
  - intros [H Hi] n j Hn. destruct (decide (n = x)) as [->|Hne]; [|by apply H].
    rewrite Hx in Hn. by simplify_eq.
Qed.
Lemma consistent_except_insert (g : circuit) x i v : x ∉ dom g →
  consistent_except (<[x := i]> g) x v ↔ consistent g v.
Proof.
  intros Hx. apply not_elem_of_dom in Hx. unfold consistent, consistent_except. split.
  - intros H n j Hn. assert (n ≠ x) by (intros ->; congruence).
    apply H; [done|]. by rewrite lookup_insert_ne.
  - intros H n j Hne Hn. rewrite lookup_insert_ne in Hn by done. by apply H.
Qed.

(* ---------- 3. growth of a graph by fresh nodes of one shape ---------- *)
Definition grown (g g' : circuit) (N : gset string) (t : gtype) (o : bool) : Prop :=
  ∀ k, shape <$> g' !! k = if decide (k ∈ N) then Some (t, o) else shape <$> g !! k.

Lemma grown_nil g t o : grown g g ∅ t o.
Proof. intros k. by rewrite decide_False by set_solver. Qed.
Lemma grown_one g g' n t o fi : same_shape g' (<[n := mk_node t o fi]> g) → grown g g' {[n]} t o.
Proof.
  intros H k. rewrite (H k). destruct (decide (k ∈ ({[n]} : gset string))) as [->%elem_of_singleton|Hk].
  - by rewrite lookup_insert.
  - rewrite lookup_insert_ne; [done|]. set_solver.
Qed.
Lemma grown_trans g g1 g2 N1 N2 t o : grown g g1 N1 t o → grown g1 g2 N2 t o → grown g g2 (N1 ∪ N2) t o.
Proof.
  intros H1 H2 k. rewrite (H2 k). destruct (decide (k ∈ N2)) as [Hk|Hk].
  - by rewrite decide_True by set_solver.
  - rewrite (H1 k). destruct (decide (k ∈ N1)) as [Hk1|Hk1].
    + by rewrite decide_True by set_solver.
    + by rewrite decide_False by set_solver.
Qed.
Lemma grown_lookup_new g g' N t o k : grown g g' N t o → k ∈ N →
  ∃ i, g' !! k = Some i ∧ n_ty i = t ∧ n_out i = o.
Proof.
  intros H Hk. specialize (H k). rewrite decide_True in H by done.
  destruct (g' !! k) as [i|]; simplify_eq/=. exists i. unfold shape in H. by simplify_eq.
Qed.
Lemma grown_lookup_old g g' N t o k i : grown g g' N t o → k ∉ N → g' !! k = Some i →
  ∃ j, g !! k = Some j ∧ n_ty j = n_ty i ∧ n_out j = n_out i.
Proof.
  intros H Hk Hi. specialize (H k). rewrite decide_False, Hi in H by done.
  destruct (g !! k) as [j|]; simplify_eq/=. exists j. unfold shape in H. by simplify_eq.
Qed.
Lemma grown_lookup_old' g g' N t o k j : grown g g' N t o → k ∉ N → g !! k = Some j →
  ∃ i, g' !! k = Some i ∧ n_ty i = n_ty j ∧ n_out i = n_out j.
Proof.
  intros H Hk Hj. specialize (H k). rewrite decide_False, Hj in H by done.
  destruct (g' !! k) as [i|]; simplify_eq/=. exists i. unfold shape in H. by simplify_eq.
Qed.
Lemma grown_ty g g' N t o k : grown g g' N t o → k ∉ N → ty g' k = ty g k.
Proof.
  intros H Hk. specialize (H k). rewrite decide_False in H by done. unfold ty.
  destruct (g' !! k) as [i|], (g !! k) as [j|]; simpl in *; try done. unfold shape in H. congruence.
Qed.
Lemma grown_dom g g' N t o : grown g g' N t o → dom g' = dom g ∪ N.
Proof.
  intros H. apply set_eq. intros k. rewrite elem_of_union, !elem_of_dom. specialize (H k).
  destruct (decide (k ∈ N)) as [Hk|Hk].
  - destruct (g' !! k); simplify_eq/=. split; [by right|eauto].
  - destruct (g' !! k), (g !! k); simplify_eq/=; split; try (intros [[? ?]|?]); try (intros [? ?]); eauto; done.
Qed.
Lemma grown_inputs g g' N t o : grown g g' N t o → N ## dom g →
  inputs g' = inputs g ∪ (if bool_decide (t = Input) then N else ∅).
Proof.
  intros H Hd. apply set_eq. intros k. rewrite elem_of_union, !elem_of_inputs. split.
  - intros (i & Hi & Ht). destruct (decide (k ∈ N)) as [Hk|Hk].
    + right. destruct (grown_lookup_new _ _ _ _ _ _ H Hk) as (i' & Hi' & Ht' & _).
      rewrite Hi in Hi'. simplify_eq. by rewrite bool_decide_eq_true_2.
    + left. destruct (grown_lookup_old _ _ _ _ _ _ _ H Hk Hi) as (j & Hj & Htj & _). exists j. split; congruence.
  - intros [(j & Hj & Ht)|Hk].
    + assert (k ∉ N) as Hk. { intros Hk. apply (Hd k Hk). apply elem_of_dom. eauto. }
      destruct (grown_lookup_old' _ _ _ _ _ _ _ H Hk Hj) as (i & Hi & Hti & _). exists i. split; congruence.
    + case_bool_decide as Ht; [|set_solver].
      destruct (grown_lookup_new _ _ _ _ _ _ H Hk) as (i & Hi & Hti & _). exists i. split; congruence.
Qed.
Lemma grown_outputs g g' N t o : grown g g' N t o → N ## dom g →
  outputs g' = outputs g ∪ (if o then N else ∅).
Proof.
  intros H Hd. apply set_eq. intros k. rewrite elem_of_union, !elem_of_outputs. split.
  - intros (i & Hi & Ht). destruct (decide (k ∈ N)) as [Hk|Hk].
    + right. destruct (grown_lookup_new _ _ _ _ _ _ H Hk) as (i' & Hi' & _ & Ho').
      rewrite Hi in Hi'. simplify_eq. by rewrite Ht.
    + left. destruct (grown_lookup_old _ _ _ _ _ _ _ H Hk Hi) as (j & Hj & _ & Hoj). exists j. split; congruence.
  - intros [(j & Hj & Ht)|Hk].
    + assert (k ∉ N) as Hk. { intros Hk. apply (Hd k Hk). apply elem_of_dom. eauto. }
      destruct (grown_lookup_old' _ _ _ _ _ _ _ H Hk Hj) as (i & Hi & _ & Hoi). exists i. split; congruence.
    + destruct o; [|set_solver].
      destruct (grown_lookup_new _ _ _ _ _ _ H Hk) as (i & Hi & _ & Hoi). exists i. split; congruence.
Qed.

(* ---------- 4. the shape effect of one plain `add`; the loop combinator ---------- *)
Lemma add_g_grown g n t fi fo fl g' n' :
  af_uid fl = false → af_conn fl = false → af_redef fl = false →
  add_g g n t fi fo fl = (g', Done, n') →
  n ∉ dom g ∧ grown g g' {[n]} t (af_out fl).
Proof.
  intros Hu Hc Hr H. destruct (add_g_done _ _ _ _ _ _ _ _ Hu Hc Hr H) as (-> & Hn & g2 & H1 & H2).
  split; [done|]. apply (grown_one _ _ _ _ _ ∅).
  pose proof (connect_g_shape (<[n:=mk_node t (af_out fl) ∅]> g) [n] fo) as S1. rewrite H1 in S1.
  pose proof (connect_g_shape g2 fi [n]) as S2. rewrite H2 in S2.
  eapply same_shape_trans; [exact S2|exact S1].
Qed.

Definition each_step (f : circuit → string → circuit * outcome * string) (st : circuit * outcome) (n : string)
  : circuit * outcome :=
  match st with (g, Done) => let '(g', o, _) := f g n in (g', o) | _ => st end.
Lemma add_each_eq f g ns : add_each f g ns = foldl (each_step f) (g, Done) ns.
Proof. reflexivity. Qed.
Lemma each_fail f g e ns : foldl (each_step f) (g, Fail e) ns = (g, Fail e).
Proof. induction ns; simpl; done. Qed.
Lemma add_each_nil f g g' : add_each f g [] = (g', Done) → g' = g.
Proof. by intros [= <-]. Qed.
Lemma add_each_cons f g n ns g' : add_each f g (n :: ns) = (g', Done) →
  ∃ g1 n1, f g n = (g1, Done, n1) ∧ add_each f g1 ns = (g', Done).
Proof.
  rewrite add_each_eq. simpl. destruct (f g n) as [[g1 o1] n1] eqn:Hf.
  destruct o1 as [|e]; [|by rewrite each_fail]. intros H. by exists g1, n1.
Qed.

Lemma ty_Some (g : circuit) x t : ty g x = Some t → ∃ i, g !! x = Some i ∧ n_ty i = t.
Proof. unfold ty. destruct (g !! x) as [i|]; intros; simplify_eq/=. eauto. Qed.

(* ---------- 5. the tie loop ---------- *)
Lemma tie_step g n a b g' n' :
  add_g g n Input [] [a; b] af_default = (g', Done, n') →
  ty g a = Some Buf → ty g b = Some Buf →
  ∀ v, consistent g' v ↔ consistent g v ∧ v a = v n ∧ v b = v n.
Proof.
  intros H Ha Hb.
  destruct (add_g_done _ _ _ _ _ af_default _ _ eq_refl eq_refl eq_refl H) as (-> & Hn & g2 & H1 & H2).
  rewrite connect_g_nil_l in H2. simplify_eq. intros v.
  assert (Htg : ∀ x, x ∈ [a; b] → ∃ i, (<[n:=mk_node Input (af_out af_default) ∅]> g) !! x = Some i ∧ (n_ty i = Buf ∨ n_ty i = BbIn)).
  { intros x Hx. assert (ty g x = Some Buf) as Hty.
    { apply elem_of_cons in Hx as [->|Hx]; [done|]. by apply elem_of_list_singleton in Hx as ->. }
    apply ty_Some in Hty as (i & Hi & Hti). exists i. split; [|by left].
    rewrite lookup_insert_ne; [done|]. intros ->. apply Hn, elem_of_dom. eauto. }
  rewrite (connect_out_sem _ _ _ _ Htg H1).
  rewrite consistent_insert_fresh by done. split.
  - intros [[Hc _] Hall]. split; [done|]. split; apply Hall; set_solver.
  - intros (Hc & Hva & Hvb). split; [split; [done|apply node_ok_input]|].
    intros x Hx. apply elem_of_cons in Hx as [->|Hx]; [done|].
    apply elem_of_list_singleton in Hx as ->. done.
Qed.

Definition tie_add (g : circuit) (n : string) := add_g g n Input [] [pre "c0" n; pre "c1" n] af_default.
Definition dif_add (g : circuit) (n : string) := add_g g (pre "dif" n) Xor [pre "c0" n; pre "c1" n] ["sat"] af_default.

Lemma tie_loop l : ∀ g g',
  add_each tie_add g l = (g', Done) →
  (∀ s, s ∈ l → ty g (pre "c0" s) = Some Buf ∧ ty g (pre "c1" s) = Some Buf) →
  list_to_set l ## dom g ∧ NoDup l ∧ grown g g' (list_to_set l) Input false ∧
  ∀ v, consistent g' v ↔ consistent g v ∧ ∀ s, s ∈ l → v (pre "c0" s) = v s ∧ v (pre "c1" s) = v s.
Proof.
  induction l as [|s l IH]; intros g g' Hl Hty.
  - apply add_each_nil in Hl as ->. split; [set_solver|]. split; [constructor|]. split; [apply grown_nil|].
    intros v. split; [|tauto]. intros H. split; [done|]. intros s Hs. by apply elem_of_nil in Hs.
  - apply add_each_cons in Hl as (g1 & n1 & Hstep & Hl). unfold tie_add in Hstep.
    destruct (add_g_grown _ _ _ _ _ af_default _ _ eq_refl eq_refl eq_refl Hstep) as [Hs Hg1]. change (af_out af_default) with false in Hg1.
    destruct (Hty s) as [Ha Hb]; [by left|].
    pose proof (tie_step _ _ _ _ _ _ Hstep Ha Hb) as Hsem1.
    destruct (IH g1 g' Hl) as (Hd & Hnd & Hg & Hsem).
    { intros s' Hs'. destruct (Hty s') as [Ha' Hb']; [by right|].
      assert (∀ x t, ty g x = Some t → x ∉ ({[s]} : gset string)) as Hfresh.
      { intros x t (i & Hi & _)%ty_Some ->%elem_of_singleton. apply Hs, elem_of_dom. eauto. }
      rewrite !(grown_ty _ _ _ _ _ _ Hg1) by eauto. done. }
    rewrite (grown_dom _ _ _ _ _ Hg1) in Hd.
    split; [|split; [|split]].
    + rewrite list_to_set_cons. clear -Hd Hs. set_solver.
    + constructor; [|done]. intros Hin. apply (Hd s); [by apply elem_of_list_to_set|clear; set_solver].
    + rewrite list_to_set_cons. by eapply grown_trans.
    + intros v. rewrite Hsem, Hsem1. split.
      * intros [(Hc & Hva & Hvb) Hall]. split; [done|]. intros s' [->|Hs']%elem_of_cons; auto.
      * intros [Hc Hall]. split; [split; [done|]|].
        -- apply Hall. by left.
        -- intros s' Hs'. apply Hall. by right.
Qed.

(* ---------- 6. the sat node ---------- *)
Lemma sat_step g t g' n' :
  add_g g "sat" t [] [] af_output = (g', Done, n') →
  "sat" ∉ dom g ∧ g' = <["sat" := mk_node t true ∅]> g.
Proof.
  intros H. destruct (add_g_done _ _ _ _ _ af_output _ _ eq_refl eq_refl eq_refl H) as (-> & Hn & g2 & H1 & H2).
  rewrite connect_g_nil_r in H1. rewrite connect_g_nil_l in H2. simpl in *. by simplify_eq.
Qed.

(* ---------- 7. the dif loop ---------- *)
Lemma gate_val_xor2 (v : val) a b : a ≠ b → gate_val Xor v {[a; b]} = xorb (v a) (v b).
Proof.
  intros Hab. unfold gate_val.
  change (foldr (g_op Xor) (g_unit Xor) (v <$> elements ({[a; b]} : gset string)))
    with (gfold Xor (v <$> elements ({[a; b]} : gset string))).
  rewrite (gfold_perm Xor _ (v <$> [a; b])).
  - simpl. by destruct (v a), (v b).
  - apply fmap_Permutation. rewrite elements_union_singleton by (clear -Hab; set_solver).
    by rewrite elements_singleton.
Qed.

Lemma node_ok_xor2 (v : val) d o a b : a ≠ b →
  node_ok v d (mk_node Xor o {[a; b]}) ↔ v d = xorb (v a) (v b).
Proof. intros Hab. unfold node_ok. simpl. by rewrite gate_val_xor2. Qed.

Lemma pre_c0_c1 e : pre "c0" e ≠ pre "c1" e.
Proof. unfold pre. simpl. intros [=]. Qed.
Lemma pre_dif_sat e : pre "dif" e ≠ "sat".
Proof. unfold pre. simpl. intros [=]. Qed.

Lemma dif_step g d a b g' n' T o F :
  add_g g d Xor [a; b] ["sat"] af_default = (g', Done, n') → d ≠ "sat" → a ≠ b →
  g !! "sat" = Some (mk_node T o F) →
  g' !! "sat" = Some (mk_node T o ({[d]} ∪ F)) ∧
  ∀ v, consistent_except g' "sat" v ↔ consistent_except g "sat" v ∧ v d = xorb (v a) (v b).
Proof.
  intros H Hd Hab Hsat.
  destruct (add_g_done _ _ _ _ _ af_default _ _ eq_refl eq_refl eq_refl H) as (-> & Hn & g2 & H1 & H2).
  apply connect_g_done in H1 as [-> _]; [|done..].
  apply connect_g_done in H2 as [-> _]; [|done..].
  change (af_out af_default) with false. unfold pairs. simpl. unfold add_edge.
  apply not_elem_of_dom in Hn.
  assert (Hlk : ∀ k, k ≠ d →
    alter (upd_fi (λ s, {[b]} ∪ s)) d (alter (upd_fi (λ s, {[a]} ∪ s)) d
      (alter (upd_fi (λ s, {[d]} ∪ s)) "sat" (<[d:=mk_node Xor false ∅]> g))) !! k
    = alter (upd_fi (λ s, {[d]} ∪ s)) "sat" g !! k).
  { intros k Hk. rewrite !lookup_alter_ne by done.
    destruct (decide (k = "sat")) as [->|Hks].
    - rewrite !lookup_alter. by rewrite lookup_insert_ne.
    - rewrite !lookup_alter_ne by done. by rewrite lookup_insert_ne. }
  assert (Hdd :
    alter (upd_fi (λ s, {[b]} ∪ s)) d (alter (upd_fi (λ s, {[a]} ∪ s)) d
      (alter (upd_fi (λ s, {[d]} ∪ s)) "sat" (<[d:=mk_node Xor false ∅]> g))) !! d
    = Some (mk_node Xor false {[a; b]})).
  { rewrite !lookup_alter. rewrite lookup_alter_ne by done. rewrite lookup_insert. simpl.
    unfold upd_fi, mk_node. simpl. do 2 f_equal. clear. set_solver. }
  split.
  - rewrite Hlk by done. rewrite lookup_alter, Hsat. done.
  - intros v. rewrite <- (node_ok_xor2 v d false a b Hab). unfold consistent_except. split.
    + intros Hc. split.
      * intros n i Hns Hi. assert (n ≠ d) as Hnd by (intros ->; congruence).
        apply Hc; [done|]. rewrite Hlk by done. by rewrite lookup_alter_ne.
      * apply Hc; done.
    + intros [Hc Hok] n i Hns Hi. destruct (decide (n = d)) as [->|Hnd].
      * rewrite Hdd in Hi. by simplify_eq.
      * rewrite Hlk in Hi by done. rewrite lookup_alter_ne in Hi by done. by apply Hc.
Qed.

Lemma dif_loop T o l : ∀ g g' F,
  add_each dif_add g l = (g', Done) →
  g !! "sat" = Some (mk_node T o F) →
  list_to_set (pre "dif" <$> l) ## dom g ∧ NoDup l ∧
  grown g g' (list_to_set (pre "dif" <$> l)) Xor false ∧
  g' !! "sat" = Some (mk_node T o (list_to_set (pre "dif" <$> l) ∪ F)) ∧
  ∀ v, consistent_except g' "sat" v ↔
       consistent_except g "sat" v ∧
       ∀ e, e ∈ l → v (pre "dif" e) = xorb (v (pre "c0" e)) (v (pre "c1" e)).
Proof.
  induction l as [|e l IH]; intros g g' F Hl Hsat.
  - apply add_each_nil in Hl as ->. simpl. split; [clear; set_solver|]. split; [constructor|].
    split; [apply grown_nil|]. split.
    { rewrite Hsat. do 2 f_equal. clear. set_solver. }
    intros v. split; [|tauto]. intros H. split; [done|]. intros s Hs. by apply elem_of_nil in Hs.
  - apply add_each_cons in Hl as (g1 & n1 & Hstep & Hl). unfold dif_add in Hstep.
    destruct (add_g_grown _ _ _ _ _ af_default _ _ eq_refl eq_refl eq_refl Hstep) as [Hs Hg1].
    change (af_out af_default) with false in Hg1.
    destruct (dif_step _ _ _ _ _ _ _ _ _ Hstep (pre_dif_sat e) (pre_c0_c1 e) Hsat) as [Hsat1 Hsem1].
    destruct (IH g1 g' _ Hl Hsat1) as (Hd & Hnd & Hg & Hsat' & Hsem).
    rewrite (grown_dom _ _ _ _ _ Hg1) in Hd.
    rewrite fmap_cons, list_to_set_cons.
    split; [|split; [|split; [|split]]].
    + clear -Hd Hs. set_solver.
    + constructor; [|done]. intros Hin. apply (Hd (pre "dif" e)); [|clear; set_solver].
      apply elem_of_list_to_set, elem_of_list_fmap. eauto.
    + by eapply grown_trans.
    + rewrite Hsat'. do 2 f_equal. clear. set_solver.
    + intros v. rewrite Hsem, Hsem1. split.
      * intros [[Hc Hv] Hall]. split; [done|]. intros e' [->|He']%elem_of_cons; auto.
      * intros [Hc Hall]. split; [split; [done|]|].
        -- apply Hall. by left.
        -- intros e' He'. apply Hall. by right.
Qed.

(* generic structural effect of an `add` loop *)
Lemma add_each_grown (ρ : string → string) t (fi fo : string → list string) l : ∀ g g',
  add_each (λ g n, add_g g (ρ n) t (fi n) (fo n) af_default) g l = (g', Done) →
  list_to_set (ρ <$> l) ## dom g ∧ NoDup (ρ <$> l) ∧ grown g g' (list_to_set (ρ <$> l)) t false.
Proof.
  induction l as [|e l IH]; intros g g' Hl.
  - apply add_each_nil in Hl as ->. simpl. split; [clear; set_solver|]. split; [constructor|apply grown_nil].
  - apply add_each_cons in Hl as (g1 & n1 & Hstep & Hl).
    destruct (add_g_grown _ _ _ _ _ af_default _ _ eq_refl eq_refl eq_refl Hstep) as [Hs Hg1].
    change (af_out af_default) with false in Hg1.
    destruct (IH g1 g' Hl) as (Hd & Hnd & Hg).
    rewrite (grown_dom _ _ _ _ _ Hg1) in Hd.
    rewrite fmap_cons, list_to_set_cons. split; [|split].
    + clear -Hd Hs. set_solver.
    + constructor; [|done]. intros Hin. apply (Hd (ρ e)); [|clear; set_solver].
      by apply elem_of_list_to_set.
    + by eapply grown_trans.
Qed.

(* ---------- 8. the comparison node ---------- *)
Lemma gate_val_or (v : val) (s : gset string) : gate_val Or v s = true ↔ ∃ u, u ∈ s ∧ v u = true.
Proof.
  unfold gate_val. change (g_inv Or) with false. rewrite xorb_false_l.
  change (g_op Or) with orb. change (g_unit Or) with false. setoid_rewrite <- elem_of_elements.
  induction (elements s) as [|x l IH]; simpl.
  - split; [done|]. intros (u & Hu & _). by apply elem_of_nil in Hu.
  - rewrite orb_true_iff, IH. split.
    + intros [Hx|(u & Hu & Hv)]; [exists x; split; [by left|done]|exists u; split; [by right|done]].
    + intros (u & [->|Hu]%elem_of_cons & Hv); [by left|right; eauto].
Qed.

Lemma sat_type_not_input E : sat_type E ≠ Input.
Proof. unfold sat_type. repeat case_match; done. Qed.

Lemma sat_node_ok (v : val) E o :
  node_ok v "sat" (mk_node (sat_type E) o (list_to_set (pre "dif" <$> E) ∪ ∅))
  ↔ (v "sat" = true ↔ ∃ e, e ∈ E ∧ v (pre "dif" e) = true).
Proof.
  destruct E as [|e [|e' E]].
  - assert (sat_type [] = C0) as -> by reflexivity. unfold node_ok; simpl. split.
    + intros ->. split; [done|]. intros (e & He & _). by apply elem_of_nil in He.
    + intros H. destruct (v "sat"); [|done]. destruct H as [H _].
      destruct (H eq_refl) as (e & He & _). by apply elem_of_nil in He.
  - assert (sat_type [e] = Buf) as -> by reflexivity.
    assert (list_to_set (pre "dif" <$> [e]) ∪ ∅ = ({[pre "dif" e]} : gset string)) as ->.
    { rewrite fmap_cons, fmap_nil, list_to_set_cons, list_to_set_nil. clear. set_solver. }
    rewrite (node_ok_driven v "sat" _ (pre "dif" e)); [|by left|done]. split.
    + intros Hv. rewrite Hv. split.
      * intros Hd. exists e. split; [by left|done].
      * intros (e0 & ->%elem_of_list_singleton & H). done.
    + intros [H1 H2]. destruct (v "sat") eqn:Hs.
      * destruct (H1 eq_refl) as (e0 & ->%elem_of_list_singleton & Hv). done.
      * destruct (v (pre "dif" e)) eqn:Hd; [|done]. apply H2. exists e. split; [by left|done].
  - assert (sat_type (e :: e' :: E) = Or) as -> by reflexivity.
    set (L := e :: e' :: E). unfold node_ok, is_free. cbn [n_ty mk_node n_fi].
    set (F := list_to_set (pre "dif" <$> L) ∪ ∅).
    assert (HF : gate_val Or v F = true ↔ ∃ e0, e0 ∈ L ∧ v (pre "dif" e0) = true).
    { rewrite gate_val_or. unfold F. split.
      - intros (u & Hu & Hv). rewrite elem_of_union, elem_of_list_to_set, elem_of_list_fmap in Hu.
        destruct Hu as [(e0 & -> & He0)|Hu]; [eauto|]. by apply elem_of_empty in Hu.
      - intros (e0 & He0 & Hv). exists (pre "dif" e0). split; [|done].
        apply elem_of_union_l, elem_of_list_to_set, elem_of_list_fmap. eauto. }
    rewrite <- HF. destruct (v "sat"), (gate_val Or v F); intuition congruence.
Qed.

(* ---------- 9. the spliced copies: tied inputs are buffers ---------- *)
Lemma spliced_input_ty P SC name s :
  (∀ n, n ∈ dom (c_g SC) → pre name n ∉ dom (c_g P)) → s ∈ inputs (c_g SC) →
  ty (c_g P ∪ rename (pre name) (strip_io (c_g SC))) (pre name s) = Some Buf.
Proof.
  intros Hfresh (i & Hi & Hty)%elem_of_inputs. unfold ty.
  rewrite lookup_union_r.
  - rewrite lookup_rename by apply _. unfold strip_io. rewrite lookup_fmap, Hi. simpl.
    by rewrite Hty, bool_decide_eq_true_2.
  - apply not_elem_of_dom. apply Hfresh. apply elem_of_dom. eauto.
Qed.
Lemma ty_union_l (c d : circuit) k t : ty c k = Some t → ty (c ∪ d) k = Some t.
Proof.
  intros (i & Hi & <-)%ty_Some. unfold ty. by rewrite (lookup_union_Some_l _ _ _ _ Hi).
Qed.

Lemma inputs_empty : inputs (∅ : circuit) = ∅.
Proof. apply set_eq. intros k. rewrite elem_of_inputs. split; [|set_solver]. intros (i & Hi & _). by rewrite lookup_empty in Hi. Qed.
Lemma outputs_empty : outputs (∅ : circuit) = ∅.
Proof. apply set_eq. intros k. rewrite elem_of_outputs. split; [|set_solver]. intros (i & Hi & _). by rewrite lookup_empty in Hi. Qed.
Lemma consistent_empty v : consistent ∅ v.
Proof. intros n i Hi. by rewrite lookup_empty in Hi. Qed.
Lemma out_targets_free_nil P SC : out_targets_free P SC [].
Proof. intros kv net Hkv. by apply elem_of_nil in Hkv. Qed.

(* ---------- 10. the miter after the blackbox checks ---------- *)
Definition miter_M0 (Ca Cb : Circuit) : Circuit :=
  {| c_name := "miter_" ++ c_name Ca ++ "_" ++ c_name Cb; c_g := ∅; c_bbs := ∅ |}.
Definition miter_core (Ca Cb : Circuit) (S E : list string) : res Circuit :=
  lift_out (add_subcircuit (miter_M0 Ca Cb) Ca "c0" []) (λ M1,
  lift_out (add_subcircuit M1 Cb "c1" []) (λ M2,
  lift_out (add_each tie_add (c_g M2) S) (λ g3,
  let '(g4, o, _) := add_g g3 "sat" (sat_type E) [] [] af_output in
  lift_out (g4, o) (λ g4,
  lift_out (add_each dif_add g4 E) (λ g5,
  Ok (with_g M2 g5)))))).

Lemma miter_unfold Ca Cbo So Eo :
  miter Ca Cbo So Eo =
  if negb (bool_decide (c_bbs Ca = ∅)) then Raise ValueError else
  if negb (bool_decide (c_bbs (second Ca Cbo) = ∅)) then Raise ValueError else
  miter_core Ca (second Ca Cbo) (miter_S Ca (second Ca Cbo) So) (miter_E Ca (second Ca Cbo) Eo).
Proof. reflexivity. Qed.

Lemma miter_core_inv Ca Cb S E M :
  miter_core Ca Cb S E = Ok M →
  ∃ M1 M2 g3 g4 g5 n4,
    add_subcircuit (miter_M0 Ca Cb) Ca "c0" [] = (M1, Done) ∧
    add_subcircuit M1 Cb "c1" [] = (M2, Done) ∧
    add_each tie_add (c_g M2) S = (g3, Done) ∧
    add_g g3 "sat" (sat_type E) [] [] af_output = (g4, Done, n4) ∧
    add_each dif_add g4 E = (g5, Done) ∧
    M = with_g M2 g5.
Proof.
  unfold miter_core, lift_out.
  destruct (add_subcircuit (miter_M0 Ca Cb) Ca "c0" []) as [M1 [|e1]] eqn:H1; [|done].
  destruct (add_subcircuit M1 Cb "c1" []) as [M2 [|e2]] eqn:H2; [|done].
  destruct (add_each tie_add (c_g M2) S) as [g3 [|e3]] eqn:H3; [|done].
  destruct (add_g g3 "sat" (sat_type E) [] [] af_output) as [[g4 [|e4]] n4] eqn:H4; [|done].
  destruct (add_each dif_add g4 E) as [g5 [|e5]] eqn:H5; [|done].
  intros [= <-]. by exists M1, M2, g3, g4, g5, n4.
Qed.

Lemma miter_core_struct Ca Cb S E M :
  miter_core Ca Cb S E = Ok M →
  c_bbs M = kmap (pre "c1") (c_bbs Cb) ∪ (kmap (pre "c0") (c_bbs Ca) ∪ ∅) ∧
  NoDup S ∧ NoDup E ∧
  inputs (c_g M) = list_to_set S ∧ outputs (c_g M) = {["sat"]} ∧
  dom (c_g M) = list_to_set S ∪ set_map (pre "c0") (dom (c_g Ca)) ∪ set_map (pre "c1") (dom (c_g Cb))
                ∪ {["sat"]} ∪ list_to_set (pre "dif" <$> E).
Proof.
  intros (M1 & M2 & g3 & g4 & g5 & n4 & H1 & H2 & H3 & H4 & H5 & ->)%miter_core_inv.
  destruct (add_subcircuit_struct _ _ _ _ _ H1) as (_ & Hb1 & _ & _ & Hi1 & Ho1 & Hd1).
  destruct (add_subcircuit_struct _ _ _ _ _ H2) as (_ & Hb2 & _ & _ & Hi2 & Ho2 & Hd2).
  change (c_g (miter_M0 Ca Cb)) with (∅ : circuit) in *.
  change (c_bbs (miter_M0 Ca Cb)) with (∅ : gmap string bbdef) in *.
  rewrite inputs_empty in Hi1. rewrite outputs_empty in Ho1. rewrite dom_empty_L in Hd1.
  destruct (add_each_grown id Input (λ _, []) (λ n, [pre "c0" n; pre "c1" n]) S _ _ H3) as (Hd3 & Hn3 & Hg3).
  rewrite list_fmap_id in Hd3, Hn3, Hg3.
  destruct (sat_step _ _ _ _ H4) as [Hs4 ->].
  assert (Hg4 : grown g3 (<["sat":=mk_node (sat_type E) true ∅]> g3) {["sat"]} (sat_type E) true).
  { eapply grown_one, same_shape_refl. }
  assert (Hd4 : ({["sat"]} : gset string) ## dom g3) by (clear -Hs4; set_solver).
  destruct (add_each_grown (pre "dif") Xor (λ n, [pre "c0" n; pre "c1" n]) (λ _, ["sat"]) E _ _ H5) as (Hd5 & Hn5 & Hg5).
  change (c_g (with_g M2 g5)) with g5. change (c_bbs (with_g M2 g5)) with (c_bbs M2).
  split; [by rewrite Hb2, Hb1|]. split; [done|]. split; [by apply NoDup_fmap_1 in Hn5|].
  split; [|split].
  - rewrite (grown_inputs _ _ _ _ _ Hg5 Hd5), (grown_inputs _ _ _ _ _ Hg4 Hd4), (grown_inputs _ _ _ _ _ Hg3 Hd3), Hi2, Hi1.
    rewrite (bool_decide_eq_false_2 (Xor = Input)) by done.
    rewrite (bool_decide_eq_false_2 (sat_type E = Input)) by apply sat_type_not_input.
    rewrite (bool_decide_eq_true_2 (Input = Input)) by done. clear. set_solver.
  - rewrite (grown_outputs _ _ _ _ _ Hg5 Hd5), (grown_outputs _ _ _ _ _ Hg4 Hd4), (grown_outputs _ _ _ _ _ Hg3 Hd3), Ho2, Ho1.
    clear. set_solver.
  - rewrite (grown_dom _ _ _ _ _ Hg5), (grown_dom _ _ _ _ _ Hg4), (grown_dom _ _ _ _ _ Hg3), Hd2, Hd1.
    clear. set_solver.
Qed.

Lemma miter_core_sem Ca Cb S E M :
  list_to_set S ⊆ inputs (c_g Ca) ∩ inputs (c_g Cb) →
  miter_core Ca Cb S E = Ok M →
  ∀ v, consistent (c_g M) v ↔
    consistent (strip_io (c_g Ca)) (v ∘ pre "c0") ∧ consistent (strip_io (c_g Cb)) (v ∘ pre "c1") ∧
    (∀ s, s ∈ S → v (pre "c0" s) = v s ∧ v (pre "c1" s) = v s) ∧
    (∀ e, e ∈ E → v (pre "dif" e) = xorb (v (pre "c0" e)) (v (pre "c1" e))) ∧
    (v "sat" = true ↔ ∃ e, e ∈ E ∧ v (pre "dif" e) = true).
Proof.
  intros HS (M1 & M2 & g3 & g4 & g5 & n4 & H1 & H2 & H3 & H4 & H5 & ->)%miter_core_inv.
  pose proof (add_subcircuit_sem _ _ _ _ _ H1 (out_targets_free_nil _ _)) as Hsem1.
  pose proof (add_subcircuit_sem _ _ _ _ _ H2 (out_targets_free_nil _ _)) as Hsem2.
  destruct (add_subcircuit_inv _ _ _ _ _ H1) as (_ & Hf1 & _ & _ & _ & Hg1).
  destruct (add_subcircuit_inv _ _ _ _ _ H2) as (_ & Hf2 & _ & _ & _ & Hg2).
  simpl in Hg1, Hg2. injection Hg1 as Hg1. injection Hg2 as Hg2.
  assert (Hty : ∀ s, s ∈ S → ty (c_g M2) (pre "c0" s) = Some Buf ∧ ty (c_g M2) (pre "c1" s) = Some Buf).
  { intros s Hs. assert (s ∈ inputs (c_g Ca) ∩ inputs (c_g Cb)) as [Ha Hb]%elem_of_intersection.
    { apply HS. by apply elem_of_list_to_set. }
    rewrite <- Hg2. split.
    - apply ty_union_l. rewrite <- Hg1. exact (spliced_input_ty (miter_M0 Ca Cb) Ca "c0" s Hf1 Ha).
    - exact (spliced_input_ty M1 Cb "c1" s Hf2 Hb). }
  destruct (tie_loop _ _ _ H3 Hty) as (_ & _ & _ & Hsem3).
  destruct (sat_step _ _ _ _ H4) as [Hs4 ->].
  destruct (dif_loop (sat_type E) true E _ _ ∅ H5 (lookup_insert _ _ _)) as (_ & _ & _ & Hsat5 & Hsem5).
  change (c_g (with_g M2 g5)) with g5. intros v.
  rewrite (consistent_split _ _ _ v Hsat5), Hsem5, consistent_except_insert by done.
  rewrite sat_node_ok, Hsem3, Hsem2, Hsem1.
  pose proof (consistent_empty v) as He.
  change (c_g (miter_M0 Ca Cb)) with (∅ : circuit).
  assert (∀ SC nm, Forall (conn_ok SC nm v) []) as Hnil by (intros; constructor).
  split.
  - intros (((((_ & Ha & _) & Hb & _) & Ht) & Hd) & Hs). done.
  - intros (Ha & Hb & Ht & Hd & Hs). specialize (Hnil Ca "c0") as Hn0. specialize (Hnil Cb "c1") as Hn1. done.
Qed.

(* ---------- FINAL THEOREMS ---------- *)
(* general form: whatever second circuit / startpoints / endpoints the call selects *)
Theorem miter_struct_gen Ca Cbo So Eo M :
  miter Ca Cbo So Eo = Ok M →
  let Cb := second Ca Cbo in let S := miter_S Ca Cb So in let E := miter_E Ca Cb Eo in
  c_bbs Ca = ∅ ∧ c_bbs Cb = ∅ ∧ c_bbs M = ∅ ∧ NoDup S ∧ NoDup E ∧
  inputs (c_g M) = list_to_set S ∧ outputs (c_g M) = {["sat"]} ∧
  dom (c_g M) = list_to_set S ∪ set_map (pre "c0") (dom (c_g Ca)) ∪ set_map (pre "c1") (dom (c_g Cb))
                ∪ {["sat"]} ∪ list_to_set (pre "dif" <$> E).
Proof.
  rewrite miter_unfold. intros H Cb S E. fold Cb S E in H.
  case_bool_decide as Hba; [|done]. case_bool_decide as Hbb; [|done]. cbn [negb] in H.
  destruct (miter_core_struct _ _ _ _ _ H) as (Hb & Hn1 & Hn2 & Hi & Ho & Hd).
  split; [done|]. split; [done|]. split; [|done].
  rewrite Hb, Hba, Hbb, !kmap_empty. by rewrite !(left_id_L ∅ (∪)).
Qed.

Theorem miter_sem_gen Ca Cbo So Eo M :
  miter Ca Cbo So Eo = Ok M →
  let Cb := second Ca Cbo in let S := miter_S Ca Cb So in let E := miter_E Ca Cb Eo in
  list_to_set S ⊆ inputs (c_g Ca) ∩ inputs (c_g Cb) →
  ∀ v, consistent (c_g M) v ↔
    consistent (strip_io (c_g Ca)) (v ∘ pre "c0") ∧ consistent (strip_io (c_g Cb)) (v ∘ pre "c1") ∧
    (∀ s, s ∈ S → v (pre "c0" s) = v s ∧ v (pre "c1" s) = v s) ∧
    (∀ e, e ∈ E → v (pre "dif" e) = xorb (v (pre "c0" e)) (v (pre "c1" e))) ∧
    (v "sat" = true ↔ ∃ e, e ∈ E ∧ v (pre "dif" e) = true).
Proof.
  rewrite miter_unfold. intros H Cb S E HS. fold Cb S E in H.
  case_bool_decide as Hba; [|done]. case_bool_decide as Hbb; [|done]. cbn [negb] in H.
  by apply miter_core_sem.
Qed.

Lemma xorb_true_ne a b : xorb a b = true ↔ a ≠ b.
Proof. destruct a, b; simpl; split; congruence. Qed.

Corollary miter_sat_iff_differ_gen Ca Cbo So Eo M :
  miter Ca Cbo So Eo = Ok M →
  let Cb := second Ca Cbo in let S := miter_S Ca Cb So in let E := miter_E Ca Cb Eo in
  list_to_set S ⊆ inputs (c_g Ca) ∩ inputs (c_g Cb) →
  ∀ v, consistent (c_g M) v →
       (v "sat" = true ↔ ∃ e, e ∈ E ∧ v (pre "c0" e) ≠ v (pre "c1" e)).
Proof.
  intros H Cb S E HS v Hv.
  apply (miter_sem_gen _ _ _ _ _ H HS v) in Hv as (_ & _ & _ & Hd & Hs).
  rewrite Hs. split; intros (e & He & Hx); exists e; (split; [done|]).
  - apply xorb_true_ne. by rewrite <- Hd.
  - rewrite Hd by done. by apply xorb_true_ne.
Qed.

(* the explicit call: both circuits, startpoints and endpoints given and non-empty *)
Lemma miter_args Ca Cb S E : c_g Cb ≠ ∅ → S ≠ [] → E ≠ [] →
  second Ca (Some Cb) = Cb ∧ miter_S Ca Cb (Some S) = S ∧ miter_E Ca Cb (Some E) = E.
Proof.
  intros Hg HS HE. split; [|split].
  - unfold second. by rewrite bool_decide_eq_false_2.
  - by destruct S.
  - by destruct E.
Qed.

Theorem miter_struct Ca Cb S E M :
  c_g Cb ≠ ∅ → S ≠ [] → E ≠ [] →
  miter Ca (Some Cb) (Some S) (Some E) = Ok M →
  c_bbs Ca = ∅ ∧ c_bbs Cb = ∅ ∧ c_bbs M = ∅ ∧
  inputs (c_g M) = list_to_set S ∧ outputs (c_g M) = {["sat"]} ∧
  dom (c_g M) = list_to_set S ∪ set_map (pre "c0") (dom (c_g Ca)) ∪ set_map (pre "c1") (dom (c_g Cb)) ∪ {["sat"]} ∪ list_to_set (pre "dif" <$> E).
Proof.
  intros Hg HS HE H. destruct (miter_args Ca Cb S E Hg HS HE) as (E1 & E2 & E3).
  pose proof (miter_struct_gen _ _ _ _ _ H) as Hs. cbv zeta in Hs. rewrite E1, E2, E3 in Hs.
  destruct Hs as (? & ? & ? & _ & _ & ? & ? & ?). done.
Qed.

(* success of the call implies that the given collections are duplicate-free *)
Theorem miter_nodup Ca Cb S E M :
  c_g Cb ≠ ∅ → S ≠ [] → E ≠ [] →
  miter Ca (Some Cb) (Some S) (Some E) = Ok M → NoDup S ∧ NoDup E.
Proof.
  intros Hg HS HE H. destruct (miter_args Ca Cb S E Hg HS HE) as (E1 & E2 & E3).
  pose proof (miter_struct_gen _ _ _ _ _ H) as Hs. cbv zeta in Hs. rewrite E1, E2, E3 in Hs.
  destruct Hs as (_ & _ & _ & ? & ? & _). done.
Qed.

Theorem miter_sem Ca Cb S E M :
  c_g Cb ≠ ∅ → S ≠ [] → E ≠ [] →
  list_to_set S ⊆ inputs (c_g Ca) ∩ inputs (c_g Cb) →
  miter Ca (Some Cb) (Some S) (Some E) = Ok M →
  ∀ v, consistent (c_g M) v ↔
    consistent (strip_io (c_g Ca)) (v ∘ pre "c0") ∧ consistent (strip_io (c_g Cb)) (v ∘ pre "c1") ∧
    (∀ s, s ∈ S → v (pre "c0" s) = v s ∧ v (pre "c1" s) = v s) ∧
    (∀ e, e ∈ E → v (pre "dif" e) = xorb (v (pre "c0" e)) (v (pre "c1" e))) ∧
    (v "sat" = true ↔ ∃ e, e ∈ E ∧ v (pre "dif" e) = true).
Proof.
  intros Hg HS HE Hin H. destruct (miter_args Ca Cb S E Hg HS HE) as (E1 & E2 & E3).
  pose proof (miter_sem_gen _ _ _ _ _ H) as Hs. cbv zeta in Hs. rewrite E1, E2, E3 in Hs. by apply Hs.
Qed.

Corollary miter_sat_iff_differ Ca Cb S E M :
  c_g Cb ≠ ∅ → S ≠ [] → E ≠ [] →
  list_to_set S ⊆ inputs (c_g Ca) ∩ inputs (c_g Cb) →
  miter Ca (Some Cb) (Some S) (Some E) = Ok M →
  ∀ v, consistent (c_g M) v → (v "sat" = true ↔ ∃ e, e ∈ E ∧ v (pre "c0" e) ≠ v (pre "c1" e)).
Proof.
  intros Hg HS HE Hin H. destruct (miter_args Ca Cb S E Hg HS HE) as (E1 & E2 & E3).
  pose proof (miter_sat_iff_differ_gen _ _ _ _ _ H) as Hs. cbv zeta in Hs. rewrite E1, E2, E3 in Hs. by apply Hs.
Qed.

(* self-miter: `miter(c0)` compares the circuit with a second copy of itself *)
Corollary miter_self_sem Ca S E M :
  S ≠ [] → E ≠ [] →
  list_to_set S ⊆ inputs (c_g Ca) →
  miter Ca None (Some S) (Some E) = Ok M →
  ∀ v, consistent (c_g M) v ↔
    consistent (strip_io (c_g Ca)) (v ∘ pre "c0") ∧ consistent (strip_io (c_g Ca)) (v ∘ pre "c1") ∧
    (∀ s, s ∈ S → v (pre "c0" s) = v s ∧ v (pre "c1" s) = v s) ∧
    (∀ e, e ∈ E → v (pre "dif" e) = xorb (v (pre "c0" e)) (v (pre "c1" e))) ∧
    (v "sat" = true ↔ ∃ e, e ∈ E ∧ v (pre "dif" e) = true).
Proof.
  intros HS HE Hin H.
  pose proof (miter_sem_gen _ _ _ _ _ H) as Hs. cbv zeta in Hs.
  change (second Ca None) with Ca in Hs.
  assert (miter_S Ca Ca (Some S) = S) as E2 by (by destruct S).
  assert (miter_E Ca Ca (Some E) = E) as E3 by (by destruct E).
  rewrite E2, E3 in Hs. apply Hs. clear -Hin. set_solver.
Qed.

(* default collections: all common startpoints are tied, all common endpoints are compared *)
Corollary miter_default_sem Ca Cb M :
  c_g Cb ≠ ∅ →
  startpoints (c_g Ca) ∩ startpoints (c_g Cb) ⊆ inputs (c_g Ca) ∩ inputs (c_g Cb) →
  miter Ca (Some Cb) None None = Ok M →
  let S := startpoints (c_g Ca) ∩ startpoints (c_g Cb) in
  let E := endpoints (c_g Ca) ∩ endpoints (c_g Cb) in
  ∀ v, consistent (c_g M) v ↔
    consistent (strip_io (c_g Ca)) (v ∘ pre "c0") ∧ consistent (strip_io (c_g Cb)) (v ∘ pre "c1") ∧
    (∀ s, s ∈ S → v (pre "c0" s) = v s ∧ v (pre "c1" s) = v s) ∧
    (∀ e, e ∈ E → v (pre "dif" e) = xorb (v (pre "c0" e)) (v (pre "c1" e))) ∧
    (v "sat" = true ↔ ∃ e, e ∈ E ∧ v (pre "dif" e) = true).
Proof.
  intros Hg Hin H S E.
  pose proof (miter_sem_gen _ _ _ _ _ H) as Hs. cbv zeta in Hs.
  assert (second Ca (Some Cb) = Cb) as E1 by (unfold second; by rewrite bool_decide_eq_false_2).
  rewrite E1 in Hs. change (miter_S Ca Cb None) with (elements S) in Hs.
  change (miter_E Ca Cb None) with (elements E) in Hs.
  intros v. rewrite Hs by (by rewrite list_to_set_elements_L).
  setoid_rewrite elem_of_elements. done.
Qed.

(* nothing to compare: the endpoints are left to the default and the circuits share none;
   `sat` is the constant 0 *)
Corollary miter_sem_empty Ca Cb S M :
  c_g Cb ≠ ∅ → S ≠ [] →
  list_to_set S ⊆ inputs (c_g Ca) ∩ inputs (c_g Cb) →
  endpoints (c_g Ca) ∩ endpoints (c_g Cb) = ∅ →
  miter Ca (Some Cb) (Some S) None = Ok M →
  ∀ v, consistent (c_g M) v → v "sat" = false.
Proof.
  intros Hg HS Hin HE H v Hv.
  pose proof (miter_sem_gen _ _ _ _ _ H) as Hs. cbv zeta in Hs.
  assert (second Ca (Some Cb) = Cb) as E1 by (unfold second; by rewrite bool_decide_eq_false_2).
  assert (miter_S Ca Cb (Some S) = S) as E2 by (by destruct S).
  assert (miter_E Ca Cb None = []) as E3.
  { unfold miter_E, choice. by rewrite HE, elements_empty. }
  rewrite E1, E2, E3 in Hs. apply (Hs Hin v) in Hv as (_ & _ & _ & _ & Hsat).
  destruct (v "sat"); [|done]. destruct Hsat as [Hsat _].
  destruct (Hsat eq_refl) as (e & He & _). by apply elem_of_nil in He.
Qed.
