(* Specification of Api.add_subcircuit_gen false (strip_io = False): the spliced copy keeps its Input
   nodes and its output marks.  Structure and semantics of the spliced parent.
   Everything here is proved; no axioms. *)
From stdpp Require Import strings gmap sets fin_sets.
From CG Require Import Base.Compose Base.Oracle Model.Compose6 Proofs.ComposeProofs.
Open Scope string_scope.

(* ---------- add_subcircuit_gen false unpacked ---------- *)
Lemma add_subcircuit_nostrip_unfold C SC name conns :
  add_subcircuit_gen false C SC name conns =
  if existsb (λ b, bool_decide (pre name b ∈ dom (c_bbs C))) (elements (dom (c_bbs SC))) then (C, Fail ValueError) else
  if existsb (λ n, bool_decide (pre name n ∈ dom (c_g C))) (elements (dom (c_g SC))) then (C, Fail ValueError) else
  if existsb (λ kv : string * list string,
                negb (bool_decide (kv.1 ∈ inputs (c_g SC))) && negb (bool_decide (kv.1 ∈ outputs (c_g SC)))) conns
  then (C, Fail ValueError) else
  let g0 := update_g (c_g C) (rename_g (pre name) (c_g SC)) in
  let r := foldl (conn_step SC name) (g0, Done) conns in
  match r.2 with
  | Fail ValueError =>
      ({| c_name := c_name C; c_g := remove_g r.1 (pre name <$> elements (dom (c_g SC))); c_bbs := c_bbs C |}, r.2)
  | _ => ({| c_name := c_name C; c_g := r.1;
             c_bbs := map_fold (λ b d acc, <[pre name b := d]> acc) (c_bbs C) (c_bbs SC) |}, r.2)
  end.
Proof. reflexivity. Qed.

Lemma add_subcircuit_nostrip_inv P SC name conns P' :
  add_subcircuit_gen false P SC name conns = (P', Done) →
  (∀ b, b ∈ dom (c_bbs SC) → pre name b ∉ dom (c_bbs P)) ∧
  (∀ n, n ∈ dom (c_g SC) → pre name n ∉ dom (c_g P)) ∧
  (∀ kv, kv ∈ conns → kv.1 ∈ inputs (c_g SC) ∨ kv.1 ∈ outputs (c_g SC)) ∧
  c_name P' = c_name P ∧
  c_bbs P' = kmap (pre name) (c_bbs SC) ∪ c_bbs P ∧
  foldl (conn_step SC name) (c_g P ∪ rename (pre name) (c_g SC), Done) conns = (c_g P', Done).
Proof.
  rewrite add_subcircuit_nostrip_unfold.
  destruct (existsb _ (elements (dom (c_bbs SC)))) eqn:E1; [done|].
  destruct (existsb _ (elements (dom (c_g SC)))) eqn:E2; [done|].
  destruct (existsb _ conns) eqn:E3; [done|].
  assert (H1 : ∀ b, b ∈ dom (c_bbs SC) → pre name b ∉ dom (c_bbs P)).
  { intros b Hb. pose proof (existsb_false _ _ E1 b) as H. simpl in H.
    eapply bool_decide_eq_false_1. apply H. by apply elem_of_elements. }
  assert (H2 : ∀ n, n ∈ dom (c_g SC) → pre name n ∉ dom (c_g P)).
  { intros n Hn. pose proof (existsb_false _ _ E2 n) as H. simpl in H.
    eapply bool_decide_eq_false_1. apply H. by apply elem_of_elements. }
  assert (H3 : ∀ kv, kv ∈ conns → kv.1 ∈ inputs (c_g SC) ∨ kv.1 ∈ outputs (c_g SC)).
  { intros kv Hkv. pose proof (existsb_false _ _ E3 kv Hkv) as H. simpl in H.
    apply andb_false_iff in H as [H|H]; apply negb_false_iff, bool_decide_eq_true in H; auto. }
  assert (Hg : update_g (c_g P) (rename_g (pre name) (c_g SC)) = c_g P ∪ rename (pre name) (c_g SC)).
  { rewrite rename_g_eq. apply update_g_disjoint.
    rewrite dom_rename by apply _. intros k Hk (n & -> & Hn)%elem_of_map. by apply (H2 n). }
  cbv zeta. rewrite Hg. rewrite registry_fold.
  destruct (foldl (conn_step SC name) _ conns) as [g' o] eqn:Hf. simpl.
  destruct o as [|e]; [|destruct e; done].
  intros [= <-]. simpl. done.
Qed.

(* ---------- the spliced graph c_g P ∪ rename (pre name) (c_g SC) ---------- *)
Lemma nostrip_lookup P SC name k j :
  (∀ n, n ∈ dom (c_g SC) → pre name n ∉ dom (c_g P)) →
  (c_g P ∪ rename (pre name) (c_g SC)) !! k = Some j ↔
  c_g P !! k = Some j ∨ ∃ n i, k = pre name n ∧ c_g SC !! n = Some i ∧ j = ren_info (pre name) i.
Proof.
  intros Hfresh. rewrite lookup_union_Some_raw. rewrite lookup_rename_Some by apply _. split.
  - intros [H|[_ H]]; auto.
  - intros [H|(n & i & -> & Hn & ->)]; [by left|right]. split; [|eauto].
    apply not_elem_of_dom, Hfresh. apply elem_of_dom. eauto.
Qed.

Lemma nostrip_dom P SC name :
  dom (c_g P ∪ rename (pre name) (c_g SC)) = dom (c_g P) ∪ set_map (pre name) (dom (c_g SC)).
Proof. rewrite dom_union_L, dom_rename by apply _. done. Qed.

Lemma nostrip_inputs P SC name :
  (∀ n, n ∈ dom (c_g SC) → pre name n ∉ dom (c_g P)) →
  inputs (c_g P ∪ rename (pre name) (c_g SC)) = inputs (c_g P) ∪ set_map (pre name) (inputs (c_g SC)).
Proof.
  intros Hfresh. apply set_eq. intros k.
  rewrite elem_of_union, elem_of_map, !elem_of_inputs. split.
  - intros (j & Hj & Ht). apply nostrip_lookup in Hj; [|done]. destruct Hj as [Hj|(n & i & -> & Hn & ->)]; [left; eauto|].
    right. exists n. split; [done|]. apply elem_of_inputs. eauto.
  - intros [(j & Hj & Ht)|(n & -> & (i & Hi & Ht)%elem_of_inputs)].
    + exists j. split; [|done]. apply nostrip_lookup; auto.
    + exists (ren_info (pre name) i). split; [|done]. apply nostrip_lookup; [done|]. right. eauto.
Qed.

Lemma nostrip_outputs P SC name :
  (∀ n, n ∈ dom (c_g SC) → pre name n ∉ dom (c_g P)) →
  outputs (c_g P ∪ rename (pre name) (c_g SC)) = outputs (c_g P) ∪ set_map (pre name) (outputs (c_g SC)).
Proof.
  intros Hfresh. apply set_eq. intros k.
  rewrite elem_of_union, elem_of_map, !elem_of_outputs. split.
  - intros (j & Hj & Ht). apply nostrip_lookup in Hj; [|done]. destruct Hj as [Hj|(n & i & -> & Hn & ->)]; [left; eauto|].
    right. exists n. split; [done|]. apply elem_of_outputs. eauto.
  - intros [(j & Hj & Ht)|(n & -> & (i & Hi & Ht)%elem_of_outputs)].
    + exists j. split; [|done]. apply nostrip_lookup; auto.
    + exists (ren_info (pre name) i). split; [|done]. apply nostrip_lookup; [done|]. right. eauto.
Qed.

Lemma nostrip_ty_input P SC name io :
  (∀ n, n ∈ dom (c_g SC) → pre name n ∉ dom (c_g P)) →
  io ∈ inputs (c_g SC) → ty (c_g P ∪ rename (pre name) (c_g SC)) (pre name io) = Some Input.
Proof.
  intros Hfresh (i & Hi & Ht)%elem_of_inputs. unfold ty.
  assert ((c_g P ∪ rename (pre name) (c_g SC)) !! pre name io = Some (ren_info (pre name) i)) as ->.
  { apply nostrip_lookup; [done|]. right. eauto. }
  simpl. by rewrite Ht.
Qed.

(* ---------- a connection into an Input node is accepted only when it is empty ---------- *)
Lemma connect_input_target c us x c' :
  ty c x = Some Input → connect_g c us [x] = (c', Done) → us = [] ∧ c' = c.
Proof.
  intros Hty. unfold connect_g. destruct us as [|u us].
  { simpl. by intros [= <-]. }
  rewrite (bool_decide_eq_false_2 (u :: us = [])), (bool_decide_eq_false_2 ([x] = [])) by done.
  cbn [orb]. destruct (negb (forallb _ _)); [done|].
  assert (connect_check c (u :: us) [x] = false) as ->; [|done].
  unfold connect_check. apply andb_false_iff. left. apply negb_false_iff.
  cbn [existsb]. rewrite Hty. reflexivity.
Qed.

(* the whole connection fold, child inputs still of type Input *)
Lemma conn_fold_nostrip SC name g2 :
  (∀ io, io ∈ inputs (c_g SC) → ty g2 (pre name io) = Some Input) →
  ∀ conns g g', same_shape g g2 →
  foldl (conn_step SC name) (g, Done) conns = (g', Done) →
  ∀ kv, kv ∈ conns → kv.1 ∈ inputs (c_g SC) → kv.2 = [].
Proof.
  intros Hin. induction conns as [|kv conns IH]; intros g g' Hsh Hf kv' Hkv' Hio.
  { by apply elem_of_nil in Hkv'. }
  change (foldl (conn_step SC name) (conn_step SC name (g, Done) kv) conns = (g', Done)) in Hf.
  destruct (conn_step SC name (g, Done) kv) as [g1 o1] eqn:Hstep.
  destruct o1 as [|e]; [|by rewrite conn_fold_fail in Hf].
  assert (Hsh1 : same_shape g1 g2).
  { eapply same_shape_trans; [|exact Hsh]. pose proof (conn_step_shape SC name (g, Done) kv) as H.
    by rewrite Hstep in H. }
  apply elem_of_cons in Hkv' as [->|Hkv']; [|by eapply (IH g1 g')].
  unfold conn_step in Hstep. rewrite bool_decide_eq_true_2 in Hstep by done.
  apply connect_input_target in Hstep as [? _]; [done|].
  rewrite (same_shape_ty _ _ _ Hsh). by apply Hin.
Qed.

Lemma conn_fold_sem_nostrip SC name g2 :
  (∀ io, io ∈ inputs (c_g SC) → ty g2 (pre name io) = Some Input) →
  ∀ conns,
  (∀ kv net, kv ∈ conns → kv.1 ∉ inputs (c_g SC) → net ∈ kv.2 → ty g2 net = Some Buf ∨ ty g2 net = Some BbIn) →
  ∀ g g', same_shape g g2 →
  foldl (conn_step SC name) (g, Done) conns = (g', Done) →
  ∀ v, consistent g' v ↔ consistent g v ∧ Forall (conn_ok SC name v) conns.
Proof.
  intros Hin. induction conns as [|kv conns IH]; intros Hout g g' Hsh Hf v.
  { simpl in Hf. simplify_eq. split; [|tauto]. intros H. split; [done|]. constructor. }
  change (foldl (conn_step SC name) (conn_step SC name (g, Done) kv) conns = (g', Done)) in Hf.
  destruct (conn_step SC name (g, Done) kv) as [g1 o1] eqn:Hstep.
  destruct o1 as [|e]; [|by rewrite conn_fold_fail in Hf].
  assert (Hsh1 : same_shape g1 g2).
  { eapply same_shape_trans; [|exact Hsh]. pose proof (conn_step_shape SC name (g, Done) kv) as H.
    by rewrite Hstep in H. }
  rewrite (IH (λ kv' net Hkv, Hout kv' net (elem_of_list_further _ _ _ Hkv)) g1 g' Hsh1 Hf v).
  rewrite Forall_cons.
  assert (Hone : consistent g1 v ↔ consistent g v ∧ conn_ok SC name v kv); [|tauto].
  assert (Hty : ∀ n t, ty g2 n = Some t → ∃ i, g !! n = Some i ∧ n_ty i = t).
  { intros n t Ht. rewrite <- (same_shape_ty _ _ n Hsh) in Ht. unfold ty in Ht.
    destruct (g !! n) as [i|]; simplify_eq/=. eauto. }
  unfold conn_step in Hstep. unfold conn_ok. case_bool_decide as Hio.
  - (* an entry for a child input: accepted only when empty, and then nothing happens *)
    apply connect_input_target in Hstep as [He ->].
    + rewrite He. split; [|tauto]. intros Hc. split; [done|]. intros net Hnet. by apply elem_of_nil in Hnet.
    + rewrite (same_shape_ty _ _ _ Hsh). by apply Hin.
  - rewrite (connect_out_sem g (pre name kv.1) kv.2 g1); [| |exact Hstep].
    + split; intros [Hc H]; (split; [done|]).
      * intros net Hnet. split; [done|intros _; by apply H].
      * intros x Hx. by apply H.
    + intros x Hx. destruct (Hout kv x) as [Hb|Hb]; [by left|done|done| |];
        destruct (Hty _ _ Hb) as (i & Hi & Ht); eauto.
Qed.

(* ---------- FINAL THEOREMS ---------- *)
Theorem add_subcircuit_nostrip_struct P SC name conns P' :
  add_subcircuit_gen false P SC name conns = (P', Done) →
  c_name P' = c_name P ∧
  c_bbs P' = kmap (pre name) (c_bbs SC) ∪ c_bbs P ∧
  inputs (c_g P') = inputs (c_g P) ∪ set_map (pre name) (inputs (c_g SC)) ∧
  outputs (c_g P') = outputs (c_g P) ∪ set_map (pre name) (outputs (c_g SC)) ∧
  dom (c_g P') = dom (c_g P) ∪ set_map (pre name) (dom (c_g SC)) ∧
  (* a child input that stays an `input` node cannot be driven: only empty attachments are accepted *)
  (∀ kv, kv ∈ conns → kv.1 ∈ inputs (c_g SC) → kv.2 = []).
Proof.
  intros (Hbb & Hfresh & _ & Hname & Hbbs & Hf)%add_subcircuit_nostrip_inv.
  pose proof (conn_fold_shape SC name conns (c_g P ∪ rename (pre name) (c_g SC), Done)) as Hsh.
  rewrite Hf in Hsh. simpl in Hsh.
  split; [done|]. split; [done|]. split; [|split; [|split]].
  - rewrite (same_shape_inputs _ _ Hsh). by apply nostrip_inputs.
  - rewrite (same_shape_outputs _ _ Hsh). by apply nostrip_outputs.
  - rewrite (same_shape_dom _ _ Hsh). apply nostrip_dom.
  - eapply (conn_fold_nostrip SC name (c_g P ∪ rename (pre name) (c_g SC))); [|apply same_shape_refl|exact Hf].
    intros io Hio. by apply nostrip_ty_input.
Qed.

Theorem add_subcircuit_nostrip_sem P SC name conns P' :
  add_subcircuit_gen false P SC name conns = (P', Done) → out_targets_free P SC conns →
  ∀ v, consistent (c_g P') v ↔
       consistent (c_g P) v ∧ consistent (c_g SC) (v ∘ pre name) ∧ Forall (conn_ok SC name v) conns.
Proof.
  intros (_ & Hfresh & _ & _ & _ & Hf)%add_subcircuit_nostrip_inv Hfree v.
  set (g2 := c_g P ∪ rename (pre name) (c_g SC)) in *.
  assert (Hdisj : dom (c_g P) ## dom (rename (pre name) (c_g SC))).
  { rewrite dom_rename by apply _.
    intros k Hk (n & -> & Hn)%elem_of_map. by apply (Hfresh n). }
  rewrite (conn_fold_sem_nostrip SC name g2) with (conns := conns) (g := g2) (g' := c_g P');
    [| | |apply same_shape_refl|exact Hf].
  - unfold g2. rewrite consistent_union by done. rewrite consistent_rename by apply _. tauto.
  - (* child inputs are still Input nodes in the spliced graph *)
    intros io Hio. by apply nostrip_ty_input.
  - (* targets of child outputs are free buffers of the parent, untouched by the splice *)
    intros kv net Hkv Hio Hnet. destruct (Hfree kv net Hkv Hio Hnet) as (i & Hi & Hty & _).
    unfold ty, g2. rewrite (lookup_union_Some_l _ _ _ _ Hi). simpl.
    destruct Hty as [-> | ->]; auto.
Qed.
