(* Lemmas about paths: decomposition, pigeonhole (a long path contains a cycle), simple paths,
   the n-step view, and edge reversal.  Used by C12 and C16. *)
From stdpp Require Import strings gmap sets relations.
From CG Require Import Sem Model.Paths.
Open Scope string_scope.
Open Scope list_scope.

Lemma fanin_dom c u w : u ∈ fanin c w → w ∈ dom c.
Proof. intros (i & Hi & _)%elem_of_fanin. apply elem_of_dom. eauto. Qed.
Lemma fanin_closed c u w : closed c → u ∈ fanin c w → u ∈ dom c.
Proof. intros Hc (i & Hi & Hf)%elem_of_fanin. eapply Hc; eauto. Qed.
Lemma fanout_dom c u w : w ∈ fanout c u → w ∈ dom c.
Proof. intros (i & Hi & _)%elem_of_fanout. apply elem_of_dom. eauto. Qed.
Lemma fanout_fanin c u w : w ∈ fanout c u ↔ u ∈ fanin c w.
Proof. by rewrite elem_of_fanout, elem_of_fanin. Qed.

Lemma pathl_end_dom c u v l : pathl c u v l → v ∈ dom c.
Proof. induction 1; done. Qed.
Lemma pathl_hd c u v l : pathl c u v l → ∃ l', l = u :: l'.
Proof. destruct 1; eauto. Qed.
Lemma pathl_in_dom c u v l : closed c → pathl c u v l → ∀ x, x ∈ l → x ∈ dom c.
Proof.
  intros Hc. induction 1 as [u Hu|u w v l Hf Hp IH]; intros x Hx.
  - apply elem_of_list_singleton in Hx as ->. done.
  - apply elem_of_cons in Hx as [->|Hx]; [|auto]. by eapply fanin_closed.
Qed.
Lemma pathl_start_dom c u v l : closed c → pathl c u v l → u ∈ dom c.
Proof. intros Hc Hp. destruct (pathl_hd _ _ _ _ Hp) as [l' ->]. eapply pathl_in_dom; eauto. by left. Qed.

Lemma pathl_suffix c u v l1 x l2 : pathl c u v (l1 ++ x :: l2) → pathl c x v (x :: l2).
Proof.
  revert u. induction l1 as [|a l1 IH]; simpl; intros u H.
  - destruct (pathl_hd _ _ _ _ H) as [l' E]. injection E as -> ->. exact H.
  - inversion H; subst.
    + destruct l1; discriminate.
    + eauto.
Qed.
Lemma pathl_prefix c u v l1 x l2 : x ∈ dom c → pathl c u v (l1 ++ x :: l2) → pathl c u x (l1 ++ [x]).
Proof.
  intros Hx. revert u. induction l1 as [|a l1 IH]; simpl; intros u H.
  - destruct (pathl_hd _ _ _ _ H) as [l' E]. injection E as -> ->. by apply pathl_nil.
  - inversion H; subst.
    + destruct l1; discriminate.
    + eapply pathl_step; eauto.
Qed.

(* ---- reachability ---- *)
Lemma reach_refl c u : u ∈ dom c → reach c u u.
Proof. intros. exists 0, [u]. split; [by constructor|done]. Qed.
Lemma path_step c u w v k : u ∈ fanin c w → path c w v k → path c u v (S k).
Proof. intros Hf (l & Hp & Hl). exists (u :: l). split; [by eapply pathl_step|simpl; lia]. Qed.
Lemma reach_step c u w v : u ∈ fanin c w → reach c w v → reach1 c u v.
Proof. intros Hf [k Hk]. exists k. by eapply path_step. Qed.
Lemma reach1_reach c u v : reach1 c u v → reach c u v.
Proof. intros [k Hk]. by exists (S k). Qed.
Lemma path_inv c u v k : path c u v (S k) → ∃ w, u ∈ fanin c w ∧ path c w v k.
Proof.
  intros (l & Hp & Hl). inversion Hp; subst; [discriminate|]. simpl in Hl.
  eexists. split; [done|]. eexists. split; [done|lia].
Qed.
Lemma path_0 c u v : path c u v 0 ↔ u = v ∧ u ∈ dom c.
Proof.
  split.
  - intros (l & Hp & Hl). inversion Hp; subst; [done|].
    simpl in Hl. destruct (pathl_hd _ _ _ _ H0) as [? ->]. discriminate.
  - intros [-> ?]. exists [v]. split; [by constructor|done].
Qed.
Lemma reach1_inv c u v : reach1 c u v ↔ ∃ w, u ∈ fanin c w ∧ reach c w v.
Proof.
  split.
  - intros [k (w & ? & ?)%path_inv]. exists w. split; [done|by exists k].
  - intros (w & ? & ?). by eapply reach_step.
Qed.
Lemma reach_case c u v : reach c u v ↔ (u = v ∧ u ∈ dom c) ∨ reach1 c u v.
Proof.
  split.
  - intros [[|k] Hk]; [left; by apply path_0|right; by exists k].
  - intros [[-> ?]|?]; [by apply reach_refl|by apply reach1_reach].
Qed.
Lemma reach_end_dom c u v : reach c u v → v ∈ dom c.
Proof. intros (k & l & Hp & _). by eapply pathl_end_dom. Qed.

(* ---- pigeonhole ---- *)
Lemma nodup_path_short c u v l : closed c → pathl c u v l → NoDup l → length l ≤ size c.
Proof.
  intros Hc Hp Hnd. rewrite <- size_dom. unfold size, set_size. simpl.
  apply submseteq_length, NoDup_submseteq; [done|]. intros x Hx. apply elem_of_elements. by eapply pathl_in_dom.
Qed.
Lemma dup_split (l : list string) : ¬ NoDup l → ∃ x l1 l2 l3, l = l1 ++ x :: l2 ++ x :: l3.
Proof.
  induction l as [|a l IH]; intros H.
  - destruct H. constructor.
  - destruct (decide (a ∈ l)) as [Hin|Hin].
    + apply elem_of_list_split in Hin as (l2 & l3 & ->). by exists a, [], l2, l3.
    + destruct IH as (x & l1 & l2 & l3 & ->). { intros ?. apply H. by constructor. }
      by exists x, (a :: l1), l2, l3.
Qed.
Lemma long_path_cycle c u v l : closed c → pathl c u v l → size c < length l → has_cycle c.
Proof.
  intros Hc Hp Hlen. destruct (decide (NoDup l)) as [Hnd|Hnd].
  { pose proof (nodup_path_short _ _ _ _ Hc Hp Hnd). lia. }
  apply dup_split in Hnd as (x & l1 & l2 & l3 & ->).
  assert (x ∈ dom c) as Hx. { eapply pathl_in_dom; eauto. set_solver. }
  apply pathl_suffix in Hp. change (x :: l2 ++ x :: l3) with ((x :: l2) ++ x :: l3) in Hp.
  apply pathl_prefix in Hp; [|done].
  exists x, (length l2), ((x :: l2) ++ [x]). split; [done|]. simpl. rewrite app_length. simpl. lia.
Qed.
Lemma path_bound c u v k : closed c → ¬ has_cycle c → path c u v k → k < size c.
Proof.
  intros Hc Hn (l & Hp & Hl). destruct (decide (k < size c)); [done|]. destruct Hn.
  eapply long_path_cycle; eauto. lia.
Qed.

Lemma pathl_simple c u v l : pathl c u v l → ∃ l', pathl c u v l' ∧ NoDup l' ∧ length l' ≤ length l.
Proof.
  induction 1 as [u Hu | u w v l Hf Hp (l' & Hp' & Hnd & Hlen)].
  - exists [u]. split; [by constructor|]. split; [apply NoDup_singleton|done].
  - destruct (decide (u ∈ l')) as [Hin|Hin].
    + apply elem_of_list_split in Hin as (l1 & l2 & ->). exists (u :: l2).
      split; [by eapply pathl_suffix|]. split.
      * by apply NoDup_app in Hnd as (_ & _ & ?).
      * rewrite app_length in Hlen. simpl in *. lia.
    + exists (u :: l'). split; [by eapply pathl_step|]. split; [by constructor|simpl; lia].
Qed.
(* every connection is realised by a path of fewer than size c edges *)
Lemma path_short c u v k : closed c → path c u v k → ∃ j, j ≤ k ∧ j < size c ∧ path c u v j.
Proof.
  intros Hc (l & Hp & Hl). destruct (pathl_simple _ _ _ _ Hp) as (l' & Hp' & Hnd & Hlen).
  pose proof (nodup_path_short _ _ _ _ Hc Hp' Hnd).
  destruct (pathl_hd _ _ _ _ Hp') as [l'' ->]. simpl in *.
  exists (length l''). split; [lia|]. split; [lia|]. by exists (u :: l'').
Qed.

(* ---- rank functions exclude cycles ---- *)
Lemma pathl_rank c (rank : string → nat) u v l :
  (∀ n i f, c !! n = Some i → f ∈ n_fi i → rank f < rank n) → pathl c u v l → rank u + length l ≤ S (rank v).
Proof.
  intros Hr. induction 1 as [u Hu|u w v l Hf Hp IH]; simpl; [lia|].
  apply elem_of_fanin in Hf as (i & Hi & Hf). specialize (Hr _ _ _ Hi Hf). lia.
Qed.
Lemma acyclic_no_cycle c : acyclic c → ¬ has_cycle c.
Proof.
  intros [rank Hr] (u & k & l & Hp & Hl). pose proof (pathl_rank _ _ _ _ _ Hr Hp). lia.
Qed.

(* ---- the n-step view ---- *)
Lemma pathl_nsteps c u v l : pathl c u v l → nsteps (edge c) (pred (length l)) u v.
Proof.
  induction 1 as [u Hu|u w v l Hf Hp IH]; simpl; [constructor|].
  destruct (pathl_hd _ _ _ _ Hp) as [l' ->]. simpl in *. econstructor; eauto.
Qed.
Lemma nsteps_pathl c k u v : nsteps (edge c) k u v → v ∈ dom c → ∃ l, pathl c u v l ∧ length l = S k.
Proof.
  induction 1 as [x|n x y z Hxy Hyz IH]; intros Hv.
  - exists [x]. split; [by constructor|done].
  - destruct (IH Hv) as (l & Hp & Hl). exists (x :: l). split; [by eapply pathl_step|simpl; lia].
Qed.
Lemma path_nsteps c u v k : path c u v k ↔ nsteps (edge c) k u v ∧ v ∈ dom c.
Proof.
  split.
  - intros (l & Hp & Hl). split; [|by eapply pathl_end_dom]. apply pathl_nsteps in Hp. by rewrite Hl in Hp.
  - intros [? ?]. by apply nsteps_pathl.
Qed.
Lemma path_snoc c u w v k : path c u w k → w ∈ fanin c v → path c u v (S k).
Proof.
  intros [Hn _]%path_nsteps Hf. apply path_nsteps. split; [|by eapply fanin_dom].
  eapply nsteps_r; eauto.
Qed.
Lemma path_snoc_inv c u v k : closed c → path c u v (S k) → ∃ w, path c u w k ∧ w ∈ fanin c v.
Proof.
  intros Hc [Hn Hv]%path_nsteps. apply nsteps_inv_r in Hn as (w & Hn & Hf).
  exists w. split; [|done]. apply path_nsteps. split; [done|]. by eapply fanin_closed.
Qed.
Lemma path_trans c u w v j k : path c u w j → path c w v k → path c u v (j + k).
Proof.
  intros [H1 _]%path_nsteps [H2 ?]%path_nsteps. apply path_nsteps. split; [|done]. by eapply nsteps_trans.
Qed.
Lemma reach_trans c u w v : reach c u w → reach c w v → reach c u v.
Proof. intros [j ?] [k ?]. exists (j + k). by eapply path_trans. Qed.

(* ---- edge reversal ---- *)
Lemma nsteps_flip {A} (R : relation A) n x y : nsteps R n x y → nsteps (flip R) n y x.
Proof.
  induction 1 as [x|n x y z Hxy Hyz IH]; [constructor|]. eapply nsteps_r; eauto.
Qed.
Lemma rev_g_lookup c n : rev_g c !! n = (λ i, {| n_ty := n_ty i; n_out := n_out i; n_fi := fanout c n |}) <$> c !! n.
Proof. unfold rev_g. rewrite map_lookup_imap. by destruct (c !! n). Qed.
Lemma rev_g_dom c : dom (rev_g c) = dom c.
Proof. apply set_eq. intros n. rewrite !elem_of_dom, rev_g_lookup. destruct (c !! n); simpl; split; intros [? ?]; eauto; done. Qed.
Lemma rev_g_fanin c n : closed c → fanin (rev_g c) n = fanout c n.
Proof.
  intros Hc. unfold fanin at 1. rewrite rev_g_lookup. destruct (c !! n) eqn:E; simpl; [done|].
  apply set_eq. intros m. split; [set_solver|]. intros (i & Hi & Hn)%elem_of_fanout.
  assert (n ∈ dom c) as Hd by (eapply Hc; eauto). apply elem_of_dom in Hd as [? ?]. congruence.
Qed.
Lemma rev_g_edge c u w : closed c → edge (rev_g c) u w ↔ edge c w u.
Proof. intros Hc. unfold edge. rewrite rev_g_fanin by done. apply fanout_fanin. Qed.
Lemma rev_g_closed c : closed c → closed (rev_g c).
Proof.
  intros Hc n i f Hn Hf. rewrite rev_g_dom. rewrite rev_g_lookup in Hn.
  destruct (c !! n) eqn:E; simplify_eq/=. by eapply fanout_dom.
Qed.
Lemma rev_g_nsteps c k u v : closed c → nsteps (edge (rev_g c)) k u v ↔ nsteps (edge c) k v u.
Proof.
  intros Hc. split; intros H.
  - apply nsteps_flip in H. eapply nsteps_congruence with (f := id); [|exact H]. intros x y Hxy. by apply rev_g_edge.
  - apply nsteps_flip in H. eapply nsteps_congruence with (f := id); [|exact H]. intros x y Hxy. by apply rev_g_edge.
Qed.
Lemma path_rev c u v k : closed c → path (rev_g c) u v k ↔ path c v u k.
Proof.
  intros Hc. rewrite !path_nsteps, rev_g_dom, rev_g_nsteps by done. split; intros [H ?]; (split; [done|]).
  - destruct k; [inversion H; by subst|]. apply nsteps_inv_r in H as (w & _ & Hf). by eapply fanin_dom.
  - destruct k; [inversion H; by subst|]. inversion H; subst. by eapply fanin_closed.
Qed.
Lemma has_cycle_rev c : closed c → has_cycle (rev_g c) ↔ has_cycle c.
Proof. intros Hc. split; intros (u & k & Hk); exists u, k; [by apply (path_rev c) in Hk|by apply (path_rev c)]. Qed.
