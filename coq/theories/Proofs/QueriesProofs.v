(* The graph queries of C12 against their graph-theoretic definitions. *)
From stdpp Require Import strings gmap sets relations.
From CG Require Import Sem Model.Paths Proofs.PathsProofs Model.Queries.
Open Scope string_scope.
Open Scope list_scope.

(* ---- closure ---- *)
Lemma elem_of_grow c S x : x ∈ grow c S ↔ x ∈ S ∨ ∃ z, z ∈ S ∧ edge c x z.
Proof.
  unfold grow, edge. rewrite elem_of_union, elem_of_union_list. split; intros [?|H]; auto; right.
  - destruct H as (X & (z & -> & Hz)%elem_of_list_fmap & Hx). exists z. split; [by apply elem_of_elements|done].
  - destruct H as (z & Hz & Hx). exists (fanin c z). split; [|done]. apply elem_of_list_fmap. exists z. split; [done|by apply elem_of_elements].
Qed.
Lemma iter_fix {A} (f : A → A) k x : f x = x → Nat.iter k f x = x.
Proof. intros H. induction k as [|k IH]; simpl; [done|]. by rewrite IH. Qed.
Lemma close_iter fuel c S : close fuel c S = Nat.iter fuel (grow c) S.
Proof.
  revert S. induction fuel as [|f IH]; intros S; [done|]. cbn [close]. case_decide as E.
  - symmetry. by apply iter_fix.
  - rewrite IH. by rewrite Nat.iter_succ_r.
Qed.
Lemma iter_grow_spec c S0 k x : x ∈ Nat.iter k (grow c) S0 ↔ ∃ y j, y ∈ S0 ∧ j ≤ k ∧ nsteps (edge c) j x y.
Proof.
  revert x. induction k as [|k IH]; intros x; simpl.
  - split.
    + intros Hx. exists x, 0. split; [done|]. split; [done|constructor].
    + intros (y & j & Hy & Hj & Hn). assert (j = 0) as -> by lia. by inversion Hn; subst.
  - rewrite elem_of_grow. split.
    + intros [Hx|(z & Hz & Hxz)].
      * apply IH in Hx as (y & j & ? & ? & ?). exists y, j. repeat split; [done|lia|done].
      * apply IH in Hz as (y & j & ? & ? & ?). exists y, (S j). repeat split; [done|lia|]. by econstructor.
    + intros (y & j & Hy & Hj & Hn). destruct (decide (j ≤ k)) as [Hle|Hgt].
      * left. apply IH. eauto.
      * assert (j = S k) as -> by lia. inversion Hn as [|? ? z ? Hxz Hzy]; subst. right. exists z. split; [|done].
        apply IH. exists y, k. eauto.
Qed.
Lemma elem_of_fanin_l c ns y : y ∈ fanin_l c ns ↔ ∃ n, n ∈ ns ∧ y ∈ fanin c n.
Proof.
  unfold fanin_l. rewrite elem_of_union_list. split.
  - intros (X & (n & -> & Hn)%elem_of_list_fmap & Hy). eauto.
  - intros (n & Hn & Hy). exists (fanin c n). split; [|done]. apply elem_of_list_fmap. eauto.
Qed.

(* transitive_fanin = proper ancestors *)
Theorem tfi_spec c ns x : closed c → (x ∈ tfi c ns ↔ ∃ n, n ∈ ns ∧ reach1 c x n).
Proof.
  intros Hc. unfold tfi. rewrite close_iter, iter_grow_spec. split.
  - intros (y & j & (n & Hn & Hy)%elem_of_fanin_l & _ & Hs). exists n. split; [done|]. exists j.
    apply path_nsteps. split; [|by eapply fanin_dom]. eapply nsteps_r; eauto.
  - intros (n & Hn & k & Hk). apply path_snoc_inv in Hk as (w & Hw & Hwn); [|done].
    destruct (path_short _ _ _ _ Hc Hw) as (j & _ & Hj & [Hp _]%path_nsteps).
    exists w, j. split; [apply elem_of_fanin_l; eauto|]. split; [lia|done].
Qed.
(* transitive_fanout = proper descendants *)
Theorem tfo_spec c ns x : closed c → (x ∈ tfo c ns ↔ ∃ n, n ∈ ns ∧ reach1 c n x).
Proof.
  intros Hc. unfold tfo. rewrite tfi_spec by by apply rev_g_closed.
  split; intros (n & Hn & k & Hk); exists n; (split; [done|]); exists k; by apply (path_rev c).
Qed.

(* fanin(ns) / fanout(ns) are the direct predecessors / successors *)
Lemma elem_of_fanout_l c ns y : y ∈ fanout_l c ns ↔ ∃ n, n ∈ ns ∧ n ∈ fanin c y.
Proof.
  unfold fanout_l. rewrite elem_of_union_list. setoid_rewrite <- fanout_fanin. split.
  - intros (X & (n & -> & Hn)%elem_of_list_fmap & Hy). eauto.
  - intros (n & Hn & Hy). exists (fanout c n). split; [|done]. apply elem_of_list_fmap. eauto.
Qed.

(* ---- cycles are decidable through tfi ---- *)
Lemma has_cycle_tfi c : closed c → (has_cycle c ↔ ∃ n, n ∈ dom c ∧ n ∈ tfi c [n]).
Proof.
  intros Hc. split.
  - intros (u & Hu). exists u. split; [by eapply reach_end_dom, reach1_reach|]. apply tfi_spec; [done|]. exists u. split; [by left|done].
  - intros (n & _ & (n' & ->%elem_of_list_singleton & Hr)%tfi_spec); [|done]. by exists n.
Qed.
Lemma has_cycle_dec c : closed c → has_cycle c ∨ ¬ has_cycle c.
Proof.
  intros Hc. destruct (decide (set_Exists (λ n, n ∈ tfi c [n]) (dom c))) as [H|H].
  - left. apply has_cycle_tfi; [done|]. destruct H as (n & ? & ?). eauto.
  - right. intros (n & ? & ?)%has_cycle_tfi; [|done]. apply H. by exists n.
Qed.

(* ---- startpoints(ns) / endpoints(ns) ---- *)
Lemma startpoints_dom c x : x ∈ startpoints c → x ∈ dom c.
Proof. intros (i & Hi & _)%elem_of_of_type. apply elem_of_dom. eauto. Qed.
Theorem startpoints_of_spec c ns x : closed c → ns ≠ [] →
  (x ∈ startpoints_of c ns ↔ x ∈ startpoints c ∧ ∃ n, n ∈ ns ∧ reach c x n).
Proof.
  intros Hc Hne. unfold startpoints_of. destruct ns as [|n0 ns']; [done|]. set (ns := n0 :: ns').
  rewrite elem_of_intersection, elem_of_union, elem_of_list_to_set, tfi_spec by done. split.
  - intros [[Hx|(n & Hn & Hr)] Hs]; (split; [done|]).
    + exists x. split; [done|]. by apply reach_refl, startpoints_dom.
    + exists n. split; [done|]. by apply reach1_reach.
  - intros [Hs (n & Hn & [[-> _]|Hr]%reach_case)]; (split; [|done]); [by left|right; eauto].
Qed.
Lemma endpoints_dom c x : x ∈ endpoints c → x ∈ dom c.
Proof. intros [(i & Hi & _)%elem_of_outputs|(i & Hi & _)%elem_of_of_type]%elem_of_union; apply elem_of_dom; eauto. Qed.
Theorem endpoints_of_spec c ns x : closed c → ns ≠ [] →
  (x ∈ endpoints_of c ns ↔ x ∈ endpoints c ∧ ∃ n, n ∈ ns ∧ reach c n x).
Proof.
  intros Hc Hne. unfold endpoints_of. destruct ns as [|n0 ns']; [done|]. set (ns := n0 :: ns').
  rewrite elem_of_intersection, elem_of_union, elem_of_list_to_set, tfo_spec by done. split.
  - intros [[Hx|(n & Hn & Hr)] Hs]; (split; [done|]).
    + exists x. split; [done|]. by apply reach_refl, endpoints_dom.
    + exists n. split; [done|]. by apply reach1_reach.
  - intros [Hs (n & Hn & [[-> _]|Hr]%reach_case)]; (split; [|done]); [by left|right; eauto].
Qed.

(* ---- reconvergent_fanout_nodes ---- *)
Lemma cone_spec c a m : closed c → a ∈ dom c → (m ∈ cone (rev_g c) a ↔ reach c a m).
Proof.
  intros Hc Ha. unfold cone. rewrite elem_of_union, elem_of_singleton. fold (tfo c [a]). rewrite tfo_spec, reach_case by done. split.
  - intros [->|(n & ->%elem_of_list_singleton & Hr)]; [by left|by right].
  - intros [[-> _]|Hr]; [by left|right]. exists a. split; [by left|done].
Qed.
Theorem reconvergent_spec c g : closed c →
  (g ∈ reconvergent c ↔ ∃ a b m, a ≠ b ∧ a ∈ fanout c g ∧ b ∈ fanout c g ∧ reach c a m ∧ reach c b m).
Proof.
  intros Hc. unfold reconvergent. cbv zeta. rewrite elem_of_filter. unfold reconv_at. cbv zeta. split.
  - intros [H Hg]. apply existsb_exists in H as (p & Hp & H). apply existsb_exists in H as (q & Hq & H).
    rewrite <- elem_of_list_In in Hp, Hq.
    apply elem_of_list_fmap in Hp as (a & -> & Ha). apply elem_of_list_fmap in Hq as (b & -> & Hb).
    apply elem_of_elements in Ha, Hb. simpl in H.
    apply andb_true_iff in H as [Hab Hne]. apply negb_true_iff, bool_decide_eq_false in Hab, Hne.
    apply set_choose_L in Hne as [m Hm]. apply elem_of_intersection in Hm as [H1 H2].
    exists a, b, m. split; [done|]. split; [done|]. split; [done|].
    split; apply (cone_spec c); try done; by eapply fanout_dom.
  - intros (a & b & m & Hab & Ha & Hb & Hra & Hrb). split.
    + apply existsb_exists. exists (a, cone (rev_g c) a). split.
      { apply elem_of_list_In, elem_of_list_fmap. exists a. split; [done|by apply elem_of_elements]. }
      apply existsb_exists. exists (b, cone (rev_g c) b). split.
      { apply elem_of_list_In, elem_of_list_fmap. exists b. split; [done|by apply elem_of_elements]. }
      simpl. apply andb_true_iff. split; apply negb_true_iff, bool_decide_eq_false; [done|].
      intros He. assert (m ∈ cone (rev_g c) a ∩ cone (rev_g c) b) as Hm.
      { apply elem_of_intersection. split; apply cone_spec; try done; by eapply fanout_dom. }
      rewrite He in Hm. by apply elem_of_empty in Hm.
    + apply fanout_fanin in Ha. by eapply fanin_closed.
Qed.

(* ---- topological order checker ---- *)
Lemma topo_go_sound c seen l : topo_go c seen l = true →
  ∀ l1 n l2, l = l1 ++ n :: l2 → fanin c n ⊆ seen ∪ list_to_set l1.
Proof.
  revert seen. induction l as [|b l IH]; intros seen H l1 n l2 E; [destruct l1; discriminate|].
  simpl in H. apply andb_true_iff in H as [H1 H2]. apply bool_decide_eq_true in H1.
  destruct l1 as [|b' l1]; simplify_eq/=.
  - clear -H1. set_solver.
  - specialize (IH _ H2 l1 n l2 eq_refl). clear -IH. set_solver.
Qed.
Theorem topo_order_sound c l : is_topo_order c l = true →
  NoDup l ∧ (∀ x, x ∈ l ↔ x ∈ dom c) ∧ ∀ l1 n l2, l = l1 ++ n :: l2 → ∀ f, f ∈ fanin c n → f ∈ l1.
Proof.
  unfold is_topo_order, enum_ok. rewrite andb_true_iff, bool_decide_eq_true. intros [[Hnd Hset] Hgo].
  split; [done|]. split; [intros x; by rewrite <- Hset, elem_of_list_to_set|].
  intros l1 n l2 E f Hf. pose proof (topo_go_sound _ _ _ Hgo l1 n l2 E f Hf) as H.
  apply elem_of_union in H as [H|H]; [by apply elem_of_empty in H|by apply elem_of_list_to_set in H].
Qed.

(* ---- the longest-path table ---- *)
Lemma lmax_ge (g : string → nat) l x : x ∈ l → g x ≤ foldr (λ f acc, max acc (g f)) 0 l.
Proof.
  induction l as [|a l IH]; intros Hx; [by apply elem_of_nil in Hx|]. simpl.
  apply elem_of_cons in Hx as [->|Hx]; [lia|]. specialize (IH Hx). lia.
Qed.
Lemma lmax_attained (g : string → nat) l : l ≠ [] → ∃ x, x ∈ l ∧ foldr (λ f acc, max acc (g f)) 0 l = g x.
Proof.
  induction l as [|a l IH]; intros Hne; [done|]. simpl. destruct l as [|b l].
  - exists a. split; [by left|]. simpl. lia.
  - destruct IH as (x & Hx & E); [done|]. rewrite E.
    destruct (decide (g a ≤ g x)); [exists x; split; [by right|lia]|exists a; split; [by left|lia]].
Qed.
Lemma max_over_ge g X f : f ∈ X → g f ≤ max_over g X.
Proof. intros Hf. apply lmax_ge. by apply elem_of_elements. Qed.
Lemma max_over_attained g (X : gset string) : X = ∅ ∧ max_over g X = 0 ∨ ∃ f, f ∈ X ∧ max_over g X = g f.
Proof.
  unfold max_over. destruct (decide (X = ∅)) as [->|Hne]; [left; by rewrite elements_empty|right].
  destruct (lmax_attained g (elements X)) as (x & Hx & E).
  { intros E. apply Hne. apply elements_empty_inv in E. by apply leibniz_equiv. }
  exists x. split; [by apply elem_of_elements|done].
Qed.

Definition D (c : circuit) (k : nat) (n : string) : nat := lvl (Nat.iter k (relax c) ∅) n.
Lemma D_0 c n : D c 0 n = 0.
Proof. unfold D, lvl. simpl. by rewrite lookup_empty. Qed.
Lemma D_S c k n : D c (S k) n = match c !! n with Some i => max_over (λ f, S (D c k f)) (n_fi i) | None => 0 end.
Proof. unfold D, lvl. simpl. unfold relax at 1. rewrite lookup_fmap. by destruct (c !! n). Qed.
Lemma D_exists c k : closed c → ∀ n, n ∈ dom c → ∃ u, path c u n (D c k n).
Proof.
  intros Hc. induction k as [|k IH]; intros n Hn.
  - rewrite D_0. exists n. by apply path_0.
  - rewrite D_S. pose proof Hn as Hn'. apply elem_of_dom in Hn' as [i Hi]. rewrite Hi.
    destruct (max_over_attained (λ f, S (D c k f)) (n_fi i)) as [[_ E]|(f & Hf & E)]; rewrite E.
    + exists n. by apply path_0.
    + destruct (IH f) as [u Hu]; [by eapply Hc|]. exists u. eapply path_snoc; [done|]. apply elem_of_fanin. eauto.
Qed.
Lemma D_upper c k : closed c → ∀ u n j, path c u n j → j ≤ k → j ≤ D c k n.
Proof.
  intros Hc. induction k as [|k IH]; intros u n j Hp Hj; [lia|]. destruct j as [|j]; [lia|].
  apply path_snoc_inv in Hp as (w & Hw & Hf); [|done]. apply elem_of_fanin in Hf as (i & Hi & Hf).
  rewrite D_S, Hi. pose proof (max_over_ge (λ f, S (D c k f)) (n_fi i) w Hf) as H. simpl in H.
  specialize (IH u w j Hw). lia.
Qed.
(* on an acyclic graph the table entry is the length of a longest path into the node *)
Theorem depth_table_spec c n : closed c → ¬ has_cycle c → n ∈ dom c →
  (∃ u, path c u n (lvl (depth_table c) n)) ∧ ∀ u k, path c u n k → k ≤ lvl (depth_table c) n.
Proof.
  intros Hc Hac Hn. split; [by apply (D_exists c (size c))|]. intros u k Hp.
  pose proof (path_bound _ _ _ _ Hc Hac Hp). apply (D_upper c (size c) Hc u n k Hp). lia.
Qed.
Lemma check_table_acyclic c r : check_table c r = true → acyclic c.
Proof.
  unfold check_table. rewrite bool_decide_eq_true. intros H. exists (lvl r). intros n i f Hn Hf. exact (H n i Hn f Hf).
Qed.
Theorem is_cyclic_spec c : closed c → (is_cyclic c = true ↔ has_cycle c).
Proof.
  intros Hc. unfold is_cyclic. rewrite negb_true_iff. split.
  - intros Hchk. destruct (has_cycle_dec c Hc) as [|Hac]; [done|]. exfalso.
    assert (check_table c (depth_table c) = true) as Ht; [|congruence].
    unfold check_table. apply bool_decide_eq_true. intros n i Hn f Hf.
    assert (f ∈ dom c) as Hfd by (eapply Hc; eauto).
    destruct (D_exists c (size c) Hc f Hfd) as [u Hu].
    assert (path c u n (S (D c (size c) f))) as Hp by (eapply path_snoc; [done|]; apply elem_of_fanin; eauto).
    pose proof (path_bound _ _ _ _ Hc Hac Hp).
    pose proof (D_upper c (size c) Hc u n _ Hp). unfold D in *. unfold depth_table. lia.
  - intros Hcy. destruct (check_table c (depth_table c)) eqn:E; [|done].
    destruct (acyclic_no_cycle c); [by eapply check_table_acyclic|done].
Qed.

(* fanin_depth / fanout_depth (maximum): rejection of cyclic graphs, and the longest path into / out of the node set *)
Theorem fanin_depth_spec c ns d : closed c → ns ≠ [] → Forall (.∈ dom c) ns →
  (has_cycle c → fanin_depth c ns = Raise ValueError) ∧
  (¬ has_cycle c → fanin_depth c ns = Ok d →
     (∃ u n, n ∈ ns ∧ path c u n d) ∧ ∀ u n k, n ∈ ns → path c u n k → k ≤ d).
Proof.
  intros Hc Hne Hdom. unfold fanin_depth. split.
  - intros Hcy. apply is_cyclic_spec in Hcy; [|done]. by rewrite Hcy.
  - intros Hac. destruct (is_cyclic c) eqn:E; [apply is_cyclic_spec in E; done|].
    destruct ns as [|n0 ns']; [done|]. intros Hd. cbv zeta in Hd.
    assert (d = foldr (λ n acc, max acc (lvl (depth_table c) n)) 0 (n0 :: ns')) as -> by congruence. clear Hd.
    rewrite Forall_forall in Hdom. split.
    + destruct (lmax_attained (lvl (depth_table c)) (n0 :: ns') Hne) as (n & Hn & ->).
      destruct (depth_table_spec c n Hc Hac (Hdom n Hn)) as [[u Hu] _]. eauto.
    + intros u n k Hn Hp. destruct (depth_table_spec c n Hc Hac (Hdom n Hn)) as [_ Hub].
      pose proof (lmax_ge (lvl (depth_table c)) (n0 :: ns') n Hn). specialize (Hub u k Hp). lia.
Qed.
Theorem fanout_depth_spec c ns d : closed c → ns ≠ [] → Forall (.∈ dom c) ns →
  (has_cycle c → fanout_depth c ns = Raise ValueError) ∧
  (¬ has_cycle c → fanout_depth c ns = Ok d →
     (∃ u n, n ∈ ns ∧ path c n u d) ∧ ∀ u n k, n ∈ ns → path c n u k → k ≤ d).
Proof.
  intros Hc Hne Hdom. unfold fanout_depth.
  assert (Forall (.∈ dom (rev_g c)) ns) as Hdom' by (by rewrite rev_g_dom).
  destruct (fanin_depth_spec (rev_g c) ns d (rev_g_closed c Hc) Hne Hdom') as [H1 H2]. split.
  - intros Hcy. apply H1. by apply has_cycle_rev.
  - intros Hac Hd. destruct H2 as [(u & n & Hn & Hp) Hub]; [by rewrite has_cycle_rev|done|]. split.
    + exists u, n. split; [done|]. by apply (path_rev c).
    + intros u' n' k Hn' Hp'. apply (Hub u' n' k Hn'). by apply (path_rev c).
Qed.

(* ---- kcuts ---- *)
Lemma kc_step_lookup c k ord T m :
  kc_step c k ord T !! m = (λ i, if decide (n_fi i = ∅) then [{[m]}]
      else filter (λ s, size s ≤ k) (reduce_merge k ((λ f, default [] (T !! f)) <$> ord m)) ++ [{[m]}]) <$> c !! m.
Proof. unfold kc_step. rewrite map_lookup_imap. by destruct (c !! m). Qed.
(* every cut other than {n} has at most k nodes (k = 0 included) *)
Theorem kcuts_width c n k ord cuts : kcuts c n k ord = Ok cuts → ∀ cut, cut ∈ cuts → cut = {[n]} ∨ size cut ≤ k.
Proof.
  unfold kcuts. destruct (negb _); [done|]. intros [= <-] cut. simpl. rewrite kc_step_lookup.
  destruct (c !! n) as [i|]; simpl; [|by intros ?%elem_of_nil]. case_decide.
  - intros ->%elem_of_list_singleton. by left.
  - intros [[? _]%elem_of_list_filter| ->%elem_of_list_singleton]%elem_of_app; [by right|by left].
Qed.

Definition separates_from_sources (c : circuit) (n : string) (cut : gset string) : Prop :=
  ∀ s l, fanin c s = ∅ → pathl c s n l → ∃ x, x ∈ cut ∧ x ∈ l.
Lemma pathl_last_in c u v l : pathl c u v l → v ∈ l.
Proof. induction 1; [by left|by right]. Qed.
Lemma pathl_snoc_inv c u v l : closed c → pathl c u v l →
  (u = v ∧ l = [u]) ∨ ∃ w l', l = l' ++ [v] ∧ pathl c u w l' ∧ w ∈ fanin c v.
Proof.
  intros Hc. induction 1 as [u Hu|u w0 v l Hf Hp IH]; [by left|right].
  destruct IH as [[-> ->]|(w & l' & -> & Hp' & Hw)].
  - exists u, [u]. split; [done|]. split; [|done]. apply pathl_nil. by eapply fanin_closed.
  - exists w, (u :: l'). split; [done|]. split; [|done]. by eapply pathl_step.
Qed.
Lemma elem_of_merge k A B s : s ∈ merge k A B → ∃ a b, a ∈ A ∧ b ∈ B ∧ s = a ∪ b.
Proof.
  unfold merge. intros [_ H]%elem_of_list_filter. apply elem_of_list_bind in H as (a & H & Ha).
  apply elem_of_list_bind in H as (b & H & Hb). apply elem_of_list_singleton in H. eauto.
Qed.
Lemma foldl_merge_sup k r : ∀ x cut, cut ∈ foldl (merge k) x r →
  (∃ cx, cx ∈ x ∧ cx ⊆ cut) ∧ ∀ L, L ∈ r → ∃ cl, cl ∈ L ∧ cl ⊆ cut.
Proof.
  induction r as [|L r IH]; intros x cut Hcut; simpl in Hcut.
  - split; [eauto|]. by intros L ?%elem_of_nil.
  - destruct (IH _ _ Hcut) as [(cm & Hcm & Hsub) Hr]. apply elem_of_merge in Hcm as (a & b & Ha & Hb & ->). split.
    + exists a. split; [done|]. clear -Hsub. set_solver.
    + intros L' [->|HL']%elem_of_cons; [|by apply Hr]. exists b. split; [done|]. clear -Hsub. set_solver.
Qed.
Lemma reduce_merge_sup k Ls cut : cut ∈ reduce_merge k Ls → ∀ L, L ∈ Ls → ∃ cl, cl ∈ L ∧ cl ⊆ cut.
Proof.
  destruct Ls as [|x r]; simpl; [by intros ?%elem_of_nil|]. intros [(cx & ? & ?) Hr]%foldl_merge_sup L [->|HL]%elem_of_cons; eauto.
Qed.
Lemma kc_step_sep c k ord T : closed c → (∀ m, m ∈ dom c → enum_ok (ord m) (fanin c m) = true) →
  (∀ m cuts, T !! m = Some cuts → ∀ cut, cut ∈ cuts → separates_from_sources c m cut) →
  ∀ m cuts, kc_step c k ord T !! m = Some cuts → ∀ cut, cut ∈ cuts → separates_from_sources c m cut.
Proof.
  intros Hc Hord IH m cuts. rewrite kc_step_lookup. destruct (c !! m) as [i|] eqn:Hm; simpl; [|done]. intros [= <-] cut Hcut.
  assert (separates_from_sources c m {[m]}) as Hself.
  { intros s l _ Hp. exists m. split; [by apply elem_of_singleton|by eapply pathl_last_in]. }
  case_decide as Hfi; [by apply elem_of_list_singleton in Hcut as ->|].
  apply elem_of_app in Hcut as [[_ Hcut]%elem_of_list_filter|Hcut]; [|by apply elem_of_list_singleton in Hcut as ->].
  intros s l Hs Hp. destruct (pathl_snoc_inv _ _ _ _ Hc Hp) as [[-> ->]|(w & l' & -> & Hp' & Hw)].
  { unfold fanin in Hs. rewrite Hm in Hs. done. }
  assert (m ∈ dom c) as Hmd by (apply elem_of_dom; eauto).
  specialize (Hord m Hmd). unfold enum_ok in Hord. apply bool_decide_eq_true in Hord as [_ Hset].
  assert (w ∈ ord m) as Hwo by (apply (elem_of_list_to_set (C := gset string)); by rewrite Hset).
  destruct (reduce_merge_sup _ _ _ Hcut (default [] (T !! w))) as (cl & Hcl & Hsub).
  { apply elem_of_list_fmap. eauto. }
  destruct (T !! w) as [cw|] eqn:Hw'; simpl in Hcl; [|by apply elem_of_nil in Hcl].
  destruct (IH w cw Hw' cl Hcl s l' Hs Hp') as (x & Hx & Hxl). exists x. split; [by apply Hsub|]. apply elem_of_app. by left.
Qed.
(* every cut meets every path from a source (a node without fan-in) to n *)
Theorem kcuts_separates c n k ord cuts : closed c → kcuts c n k ord = Ok cuts →
  ∀ cut, cut ∈ cuts → separates_from_sources c n cut.
Proof.
  intros Hc. unfold kcuts. destruct (forallb _ _) eqn:Hall; simpl; [|done]. intros [= <-] cut Hcut.
  assert (∀ m, m ∈ dom c → enum_ok (ord m) (fanin c m) = true) as Hord.
  { intros m Hm. rewrite forallb_forall in Hall. apply Hall. apply elem_of_list_In. by apply elem_of_elements. }
  assert (∀ j m cuts, Nat.iter j (kc_step c k ord) ∅ !! m = Some cuts → ∀ cut, cut ∈ cuts → separates_from_sources c m cut) as Hinv.
  { induction j as [|j IHj]; [intros m cs; simpl; by rewrite lookup_empty|]. simpl. by apply kc_step_sep. }
  match type of Hcut with _ ∈ default [] ?o => destruct o as [cs|] eqn:E end; simpl in Hcut; [|by apply elem_of_nil in Hcut].
  by eapply (Hinv (S (lvl (depth_table c) n))).
Qed.

(* ---- levelize ---- *)
Lemma lmax_ext (g h : string → nat) l : (∀ x, x ∈ l → g x = h x) →
  foldr (λ f acc, max acc (g f)) 0 l = foldr (λ f acc, max acc (h f)) 0 l.
Proof.
  induction l as [|a l IH]; intros H; [done|]. simpl. rewrite IH, (H a) by (intros; apply H; by right) || by left. done.
Qed.
Lemma max_over_ext g h (X : gset string) : (∀ x, x ∈ X → g x = h x) → max_over g X = max_over h X.
Proof. intros H. apply lmax_ext. intros x Hx. apply H. by apply elem_of_elements. Qed.
(* on an acyclic graph the table is a fixed point of the relaxation *)
Lemma depth_table_fix c n i : closed c → ¬ has_cycle c → c !! n = Some i →
  lvl (depth_table c) n = max_over (λ f, S (lvl (depth_table c) f)) (n_fi i).
Proof.
  intros Hc Hac Hn. change (D c (size c) n = max_over (λ f, S (D c (size c) f)) (n_fi i)).
  assert (n ∈ dom c) as Hd by (apply elem_of_dom; eauto).
  pose proof (D_S c (size c) n) as HS. rewrite Hn in HS. rewrite <- HS. apply Nat.le_antisymm.
  - destruct (D_exists c (size c) Hc n Hd) as [u Hu]. apply (D_upper c (S (size c)) Hc u n _ Hu).
    pose proof (path_bound _ _ _ _ Hc Hac Hu). lia.
  - destruct (D_exists c (S (size c)) Hc n Hd) as [u Hu]. apply (D_upper c (size c) Hc u n _ Hu).
    pose proof (path_bound _ _ _ _ Hc Hac Hu). lia.
Qed.
Lemma levelize_go_inv c : closed c → ¬ has_cycle c →
  ∀ rest lv seen, topo_go c seen rest = true → seen ⊆ dom lv → (∀ x, x ∈ rest → x ∈ dom c) →
    (∀ m d, lv !! m = Some d → d = lvl (depth_table c) m ∧ m ∈ dom c) →
    (∀ m d, levelize_go c rest lv !! m = Some d → d = lvl (depth_table c) m ∧ m ∈ dom c) ∧
    (∀ x, x ∈ rest → x ∈ dom (levelize_go c rest lv)) ∧ dom lv ⊆ dom (levelize_go c rest lv).
Proof.
  intros Hc Hac. induction rest as [|n rest IH]; intros lv seen Hgo Hseen Hdom Hlv; simpl.
  - split; [done|]. split; [by intros x ?%elem_of_nil|done].
  - simpl in Hgo. apply andb_true_iff in Hgo as [Hfi Hgo]. apply bool_decide_eq_true in Hfi.
    assert (n ∈ dom c) as Hn by (apply Hdom; by left). apply elem_of_dom in Hn as [i Hi].
    destruct (lv !! n) as [d0|] eqn:E.
    + destruct (IH lv ({[n]} ∪ seen) Hgo) as (H1 & H2 & H3); [|by intros; apply Hdom; right|done|].
      { intros x [->%elem_of_singleton|Hx]%elem_of_union; [apply elem_of_dom; eauto|by apply Hseen]. }
      split; [done|]. split; [|done]. intros x [->|Hx]%elem_of_cons; [|by apply H2]. apply H3, elem_of_dom. eauto.
    + set (v := max_over (λ f, S (lvl lv f)) (fanin c n)).
      assert (v = lvl (depth_table c) n) as Hv.
      { rewrite (depth_table_fix c n i Hc Hac Hi). unfold v, fanin. rewrite Hi. simpl. apply max_over_ext.
        intros f Hf. f_equal. assert (f ∈ dom lv) as Hfd. { apply Hseen, Hfi. unfold fanin. by rewrite Hi. }
        apply elem_of_dom in Hfd as [d Hd]. unfold lvl at 1. rewrite Hd. simpl. by destruct (Hlv f d Hd). }
      destruct (IH (<[n := v]> lv) ({[n]} ∪ seen) Hgo) as (H1 & H2 & H3); [|by intros; apply Hdom; right| |].
      { rewrite dom_insert_L. clear -Hseen. set_solver. }
      { intros m d. destruct (decide (m = n)) as [->|Hne].
        - rewrite lookup_insert. intros [= <-]. split; [done|]. apply elem_of_dom; eauto.
        - rewrite lookup_insert_ne by done. apply Hlv. }
      split; [done|]. rewrite dom_insert_L in H3. split.
      * intros x [->|Hx]%elem_of_cons; [|by apply H2]. apply H3. clear. set_solver.
      * clear -H3. set_solver.
Qed.
(* levelize(c) = longest path from a node without fan-in, whatever valid topological order topo_sort returned *)
Theorem levelize_eq_depth c order lv : closed c → ¬ has_cycle c →
  (∀ n i, c !! n = Some i → lev0 (n_ty i) = true → n_fi i = ∅) →
  levelize c order = Ok lv →
  dom lv = dom c ∧ ∀ n d, lv !! n = Some d → (∃ u, path c u n d) ∧ ∀ u k, path c u n k → k ≤ d.
Proof.
  intros Hc Hac Hsrc. unfold levelize. destruct (is_cyclic c); [done|]. destruct (is_topo_order c order) eqn:Ht; simpl; [|done].
  intros [= <-]. unfold is_topo_order, enum_ok in Ht. apply andb_true_iff in Ht as [[_ Hset]%bool_decide_eq_true Hgo].
  set (init := (λ _ : ninfo, 0) <$> filter (λ p, lev0 (n_ty p.2) = true) c).
  destruct (levelize_go_inv c Hc Hac order init ∅ Hgo) as (H1 & H2 & _).
  - clear. set_solver.
  - intros x Hx. rewrite <- Hset. by apply elem_of_list_to_set.
  - intros m d. unfold init. rewrite lookup_fmap. destruct (filter _ c !! m) as [i|] eqn:E; simpl; [|done]. intros [= <-].
    apply map_filter_lookup_Some in E as [Hm Hl]. simpl in Hl. split; [|apply elem_of_dom; eauto].
    rewrite (depth_table_fix c m i Hc Hac Hm), (Hsrc m i Hm Hl). done.
  - split.
    + apply set_eq. intros x. split.
      * intros [d Hd]%elem_of_dom. by destruct (H1 x d Hd).
      * intros Hx. apply H2. apply (elem_of_list_to_set (C := gset string)). by rewrite Hset.
    + intros n d Hd. destruct (H1 n d Hd) as [-> Hn]. by apply depth_table_spec.
Qed.

(* a graph that has a topological order has no cycle: the checker rejects every list on a cyclic graph *)
Lemma topo_path_before c l :
  (∀ l1 n l2, l = l1 ++ n :: l2 → ∀ f, f ∈ fanin c n → f ∈ l1) →
  ∀ u v p, pathl c u v p → 2 ≤ length p → ∀ l1 l2, l = l1 ++ v :: l2 → u ∈ l1.
Proof.
  intros Hs u v p. induction 1 as [u Hu|u w v p Hf Hp IH]; intros Hlen l1 l2 E; [simpl in Hlen; lia|].
  destruct (decide (2 ≤ length p)) as [Hl|Hl].
  - specialize (IH Hl l1 l2 E). apply elem_of_list_split in IH as (a & b & ->).
    rewrite <- app_assoc in E. simpl in E. pose proof (Hs a w _ E u Hf) as Hu. apply elem_of_app. by left.
  - inversion Hp; subst.
    + by eapply Hs.
    + destruct (pathl_hd _ _ _ _ H0) as [? ->]. simpl in Hl. lia.
Qed.
Theorem topo_order_acyclic c l : is_topo_order c l = true → ¬ has_cycle c.
Proof.
  intros (Hnd & Hdom & Hs)%topo_order_sound (u & k & p & Hp & Hlen).
  assert (u ∈ l) as Hu by (apply Hdom; by eapply pathl_end_dom).
  apply elem_of_list_split in Hu as (l1 & l2 & ->).
  assert (u ∈ l1) as Hin by (eapply (topo_path_before c _ Hs u u p Hp); [lia|done]).
  apply NoDup_app in Hnd as (_ & Hdis & _). apply (Hdis u Hin). by left.
Qed.
