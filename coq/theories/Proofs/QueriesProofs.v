(* The graph queries of C12 against their graph-theoretic definitions. *)
From stdpp Require Import strings gmap sets relations.
From CG Require Import Sem Model.Paths Proofs.PathsProofs Model.Queries.
Open Scope string_scope.
Open Scope list_scope.

(* ---- closure ---- *)
Lemma elem_of_grow c S x : x ∈ grow c S ↔ x ∈ S ∨ ∃ z, z ∈ S ∧ edge c x z.
Proof.
  unfold grow, edge. rewrite elem_of_union, elem_of_union_list. split; intros [?|H]; auto; right.
  - destruct H as (X & (z & -> & Hz)%elem_of_list_fmap & Hx). exists z. split; [by apply elem_of_elements|done].
  - destruct H as (z & Hz & Hx). exists (fanin c z). split; [|done]. apply elem_of_list_fmap. exists z. split; [done|by apply elem_of_elements].
Qed.
Lemma iter_fix {A} (f : A → A) k x : f x = x → Nat.iter k f x = x.
Proof. intros H. induction k as [|k IH]; simpl; [done|]. by rewrite IH. Qed.
Lemma close_iter fuel c S : close fuel c S = Nat.iter fuel (grow c) S.
Proof.
  revert S. induction fuel as [|f IH]; intros S; [done|]. cbn [close]. case_decide as E.
  - symmetry. by apply iter_fix.
  - rewrite IH. by rewrite Nat.iter_succ_r.
Qed.
Lemma iter_grow_spec c S0 k x : x ∈ Nat.iter k (grow c) S0 ↔ ∃ y j, y ∈ S0 ∧ j ≤ k ∧ nsteps (edge c) j x y.
Proof.
  revert x. induction k as [|k IH]; intros x; simpl.
  - split.
    + intros Hx. exists x, 0. split; [done|]. split; [done|constructor].
    + intros (y & j & Hy & Hj & Hn). assert (j = 0) as -> by lia. by inversion Hn; subst.
  - rewrite elem_of_grow. split.
    + intros [Hx|(z & Hz & Hxz)].
      * apply IH in Hx as (y & j & ? & ? & ?). exists y, j. repeat split; [done|lia|done].
      * apply IH in Hz as (y & j & ? & ? & ?). exists y, (S j). repeat split; [done|lia|]. by econstructor.
    + intros (y & j & Hy & Hj & Hn). destruct (decide (j ≤ k)) as [Hle|Hgt].
      * left. apply IH. eauto.
      * assert (j = S k) as -> by lia. inversion Hn as [|? ? z ? Hxz Hzy]; subst. right. exists z. split; [|done].
        apply IH. exists y, k. eauto.
Qed.
Lemma elem_of_fanin_l c ns y : y ∈ fanin_l c ns ↔ ∃ n, n ∈ ns ∧ y ∈ fanin c n.
Proof.
  unfold fanin_l. rewrite elem_of_union_list. split.
  - intros (X & (n & -> & Hn)%elem_of_list_fmap & Hy). eauto.
  - intros (n & Hn & Hy). exists (fanin c n). split; [|done]. apply elem_of_list_fmap. eauto.
Qed.

(* transitive_fanin = proper ancestors *)
Theorem tfi_spec c ns x : closed c → (x ∈ tfi c ns ↔ ∃ n, n ∈ ns ∧ reach1 c x n).
Proof.
  intros Hc. unfold tfi. rewrite close_iter, iter_grow_spec. split.
  - intros (y & j & (n & Hn & Hy)%elem_of_fanin_l & _ & Hs). exists n. split; [done|]. exists j.
    apply path_nsteps. split; [|by eapply fanin_dom]. eapply nsteps_r; eauto.
  - intros (n & Hn & k & Hk). apply path_snoc_inv in Hk as (w & Hw & Hwn); [|done].
    destruct (path_short _ _ _ _ Hc Hw) as (j & _ & Hj & [Hp _]%path_nsteps).
    exists w, j. split; [apply elem_of_fanin_l; eauto|]. split; [lia|done].
Qed.
(* transitive_fanout = proper descendants *)
Theorem tfo_spec c ns x : closed c → (x ∈ tfo c ns ↔ ∃ n, n ∈ ns ∧ reach1 c n x).
Proof.
  intros Hc. unfold tfo. rewrite tfi_spec by by apply rev_g_closed.
  split; intros (n & Hn & k & Hk); exists n; (split; [done|]); exists k; by apply (path_rev c).
Qed.
