(* C15, character level: on the canonical rendering of a well-formed line list no scan pattern matches anywhere but at the start of its own statements, so the four scans recover the line list. *)
From Coq Require Import Ascii.
From stdpp Require Import strings list.
From CG Require Import Model.Regex Model.Bench Model.BenchSpec Model.BenchScan Proofs.RegexProofs Proofs.RegexSound Proofs.BenchProofs.
Open Scope string_scope.

Definition nop (l : list nat) : Prop := 40 ∉ l.
Lemma nop_app a b : nop (a ++ b) ↔ nop a ∧ nop b.
Proof. unfold nop. rewrite elem_of_app. tauto. Qed.
(* the first opening parenthesis splits a text uniquely *)
Lemma split_paren x y s t : nop x → nop y → (x ++ 40 :: s = y ++ 40 :: t)%list → x = y ∧ s = t.
Proof.
  revert y. induction x as [|a x IH]; intros [|b y] Hx Hy H; simpl in H.
  - by injection H.
  - injection H as <- _. exfalso. apply Hy. by left.
  - injection H as -> _. exfalso. apply Hx. by left.
  - injection H as -> H. destruct (IH y) as [-> ->]; [intros ?; apply Hx; by right|intros ?; apply Hy; by right|done|done].
Qed.
Lemma prefix_paren b r y t : nop b → (b ++ r = y ++ 40 :: t)%list → ∃ z, y = (b ++ z)%list.
Proof.
  revert y. induction b as [|a b IH]; intros y Hb H; [eauto|]. destruct y as [|c y]; simpl in H.
  - injection H as -> _. exfalso. apply Hb. by left.
  - injection H as -> H. destruct (IH y) as [z ->]; [intros ?; apply Hb; by right|done|]. eauto.
Qed.

(* a canonical line is pre ( body ) ; a head y ( of a match that starts inside the line or at its newline is a suffix of pre *)
Lemma head_in_pre pre body a b rest y tl :
  nop pre → nop body → 41 ∉ y → nop y → (match y with x :: _ => x ≠ 10 | [] => False end) →
  (pre ++ 40 :: body ++ [41; 10] = a ++ b)%list → b ≠ [] → (b ++ rest = y ++ 40 :: tl)%list → ∃ a', pre = (a' ++ y)%list.
Proof.
  intros Hpre Hbody Hy41 Hy Hy10 Hsplit Hb Heq.
  apply app_eq_app in Hsplit as [l [[-> Hl]|[-> Hl]]].
  - (* b starts inside pre *) subst b. exists a. f_equal. apply nop_app in Hpre as [_ Hl]. rewrite <- app_assoc in Heq. simpl in Heq.
    by destruct (split_paren l y _ _ Hl Hy Heq) as [-> _].
  - (* b starts at or after the parenthesis *) exfalso. destruct l as [|x l].
    + simpl in Hl. subst b. simpl in Heq.
      destruct (split_paren [] y _ _ ltac:(unfold nop; set_solver) Hy Heq) as [<- _]. done.
    + simpl in Hl. injection Hl as <- Hl.
      assert (Hnb : nop b). { assert (nop (body ++ [41; 10])) as Hn by (apply nop_app; split; [done|unfold nop; set_solver]). rewrite Hl in Hn. by apply nop_app in Hn as [_ ?]. }
      destruct (prefix_paren b rest y tl Hnb Heq) as [z ->].
      destruct (decide (b = [10])) as [->|Hb10]; [simpl in Hy10; done|].
      apply Hy41. apply elem_of_app. left.
      apply (f_equal (@rev nat)) in Hl. rewrite !rev_app_distr in Hl. simpl in Hl.
      destruct (rev b) as [|r1 rb] eqn:Erb; [apply (f_equal (@rev nat)) in Erb; rewrite rev_involutive in Erb; simpl in Erb; done|].
      simpl in Hl. injection Hl as <- Hl. destruct rb as [|r2 rb].
      * exfalso. apply Hb10. apply (f_equal (@rev nat)) in Erb. by rewrite rev_involutive in Erb.
      * simpl in Hl. injection Hl as <- _. apply (f_equal (@rev nat)) in Erb. rewrite rev_involutive in Erb. rewrite Erb. simpl.
        rewrite !elem_of_app. left. right. by left.
Qed.

(* ---- inversion of the language ---- *)
Lemma lang_seq_inv a b w : lang (RSeq a b) w → ∃ u v, w = (u ++ v)%list ∧ lang a u ∧ lang b v.
Proof. inversion 1; subst; eauto. Qed.
Lemma lang_cls_inv c w : lang (RCls c) w → ∃ x, w = [x] ∧ in_cls c x = true.
Proof. inversion 1; subst; eauto. Qed.
Lemma lang_grp_inv i a w : lang (RGrp i a) w → lang a w.
Proof. by inversion 1. Qed.
Lemma lang_lit_inv c w : lang (RLit c) w → w = [c].
Proof.
  intros (x & -> & Hx)%lang_cls_inv. f_equal. unfold in_cls, existsb in Hx. simpl fst in Hx. simpl snd in Hx.
  rewrite xorb_false_l, orb_false_r in Hx. apply andb_true_iff in Hx as [H1 H2]. apply Nat.leb_le in H1. apply Nat.leb_le in H2. lia.
Qed.
Lemma lang_star_cls c w : lang (RStar (RCls c)) w → Forall (λ x, in_cls c x = true) w.
Proof.
  intros H. remember (RStar (RCls c)) as r eqn:Er. induction H; try discriminate.
  - constructor.
  - injection Er as ->. apply lang_cls_inv in H as (x & -> & Hx). simpl. constructor; [done|]. by apply IHlang2.
Qed.
(* words of a pattern built from literals, sequence, alternation and groups *)
Fixpoint words (r : re) : option (list (list nat)) :=
  match r with
  | REps => Some [[]]
  | RCls (Cl false [(a, b)]) => if (a =? b)%nat then Some [[a]] else None
  | RSeq a b => match words a, words b with Some x, Some y => Some (u ← x; v ← y; [(u ++ v)%list]) | _, _ => None end
  | RAlt a b => match words a, words b with Some x, Some y => Some (x ++ y)%list | _, _ => None end
  | RGrp _ a => words a
  | _ => None
  end.
Lemma words_sound r : ∀ ws w, words r = Some ws → lang r w → w ∈ ws.
Proof.
  induction r as [|c|a IHa b IHb|a IHa b IHb|a IHa|i a IHa]; intros ws w Hw Hl; simpl in Hw.
  - injection Hw as <-. inversion Hl. by left.
  - destruct c as [[] rs]; [done|]. destruct rs as [|[lo hi] [|? ?]]; try done.
    destruct (lo =? hi)%nat eqn:E; [|done]. injection Hw as <-. apply Nat.eqb_eq in E as ->.
    change (RCls (Cl false [(hi, hi)])) with (RLit hi) in Hl. apply lang_lit_inv in Hl as ->. by left.
  - destruct (words a) as [x|]; [|done]. destruct (words b) as [y|]; [|done]. injection Hw as <-.
    apply lang_seq_inv in Hl as (u & v & -> & Hu & Hv). apply elem_of_list_bind. exists u. split; [|by eapply IHa].
    apply elem_of_list_bind. exists v. split; [by left|by eapply IHb].
  - destruct (words a) as [x|]; [|done]. destruct (words b) as [y|]; [|done]. injection Hw as <-.
    apply elem_of_app. inversion Hl; subst; [left; by eapply IHa|right; by eapply IHb].
  - done.
  - apply lang_grp_inv in Hl. by eapply IHa.
Qed.

(* ---- what a successful match of each scan pattern starts with ---- *)
Definition is_ws (l : list nat) : Prop := Forall (λ x, in_cls c_ws x = true) l.
Definition is_id (l : list nat) : Prop := ∃ a p, l = a :: p ∧ in_cls c_alpha a = true ∧ Forall (λ x, in_cls c_idc x = true) p.
Lemma lang_ident w : lang (RSeq (RCls c_alpha) (RStar (RCls c_idc))) w → is_id w.
Proof.
  intros (u & v & -> & Hu & Hv)%lang_seq_inv. apply lang_cls_inv in Hu as (a & -> & Ha). apply lang_star_cls in Hv.
  exists a, v. done.
Qed.

Definition kw_in : list (list nat) := [[73; 78; 80; 85; 84]; [105; 110; 112; 117; 116]].
Definition kw_out : list (list nat) := [[79; 85; 84; 80; 85; 84]; [111; 117; 116; 112; 117; 116]].
Definition kw_dff : list (list nat) := [[68; 70; 70]; [100; 102; 102]].
Definition kw_gate : list (list nat) := codes <$> rd_alts.

Lemma shape_input s rest cs : match_here rd_re_input s = Some (rest, cs) →
  ∃ kw sp tl, s = (kw ++ sp ++ 40 :: tl)%list ∧ kw ∈ kw_in ∧ is_ws sp.
Proof.
  intros (u & -> & Hu)%match_here_sound. unfold rd_re_input in Hu.
  apply lang_seq_inv in Hu as (kw & u1 & -> & Hkw & Hu). apply lang_seq_inv in Hu as (sp & u2 & -> & Hsp & Hu).
  apply lang_seq_inv in Hu as (p & tl & -> & Hp & _). apply lang_lit_inv in Hp as ->. apply lang_star_cls in Hsp.
  exists kw, sp, (tl ++ rest)%list. split; [by rewrite <- !app_assoc|]. split; [|done].
  eapply words_sound; [|exact Hkw]. vm_compute. reflexivity.
Qed.
Lemma shape_output s rest cs : match_here rd_re_output s = Some (rest, cs) →
  ∃ kw sp tl, s = (kw ++ sp ++ 40 :: tl)%list ∧ kw ∈ kw_out ∧ is_ws sp.
Proof.
  intros (u & -> & Hu)%match_here_sound. unfold rd_re_output in Hu.
  apply lang_seq_inv in Hu as (kw & u1 & -> & Hkw & Hu). apply lang_seq_inv in Hu as (sp & u2 & -> & Hsp & Hu).
  apply lang_seq_inv in Hu as (p & tl & -> & Hp & _). apply lang_lit_inv in Hp as ->. apply lang_star_cls in Hsp.
  exists kw, sp, (tl ++ rest)%list. split; [by rewrite <- !app_assoc|]. split; [|done].
  eapply words_sound; [|exact Hkw]. vm_compute. reflexivity.
Qed.
Lemma shape_gate s rest cs : match_here rd_re_gate s = Some (rest, cs) →
  ∃ id sp1 sp2 g tl, s = (id ++ sp1 ++ 61 :: sp2 ++ g ++ 40 :: tl)%list ∧ is_id id ∧ is_ws sp1 ∧ is_ws sp2 ∧ g ∈ kw_gate.
Proof.
  intros (u & -> & Hu)%match_here_sound. unfold rd_re_gate in Hu.
  apply lang_seq_inv in Hu as (id & u1 & -> & Hid & Hu). apply lang_grp_inv, lang_ident in Hid.
  apply lang_seq_inv in Hu as (sp1 & u2 & -> & Hsp1 & Hu). apply lang_star_cls in Hsp1.
  apply lang_seq_inv in Hu as (e & u3 & -> & He & Hu). apply lang_lit_inv in He as ->.
  apply lang_seq_inv in Hu as (sp2 & u4 & -> & Hsp2 & Hu). apply lang_star_cls in Hsp2.
  apply lang_seq_inv in Hu as (g & u5 & -> & Hg & Hu).
  apply lang_seq_inv in Hu as (p & tl & -> & Hp & _). apply lang_lit_inv in Hp as ->.
  exists id, sp1, sp2, g, (tl ++ rest)%list. split; [by rewrite <- !app_assoc|]. repeat split; try done.
  eapply words_sound; [|exact Hg]. vm_compute. reflexivity.
Qed.
Lemma shape_dff s rest cs : match_here rd_re_dff s = Some (rest, cs) →
  ∃ id sp1 sp2 g tl, s = (id ++ sp1 ++ 61 :: sp2 ++ g ++ 40 :: tl)%list ∧ is_id id ∧ is_ws sp1 ∧ is_ws sp2 ∧ g ∈ kw_dff.
Proof.
  intros (u & -> & Hu)%match_here_sound. unfold rd_re_dff in Hu.
  apply lang_seq_inv in Hu as (id & u1 & -> & Hid & Hu). apply lang_grp_inv, lang_ident in Hid.
  apply lang_seq_inv in Hu as (sp1 & u2 & -> & Hsp1 & Hu). apply lang_star_cls in Hsp1.
  apply lang_seq_inv in Hu as (e & u3 & -> & He & Hu). apply lang_lit_inv in He as ->.
  apply lang_seq_inv in Hu as (sp2 & u4 & -> & Hsp2 & Hu). apply lang_star_cls in Hsp2.
  apply lang_seq_inv in Hu as (g & u5 & -> & Hg & Hu).
  apply lang_seq_inv in Hu as (p & tl & -> & Hp & _). apply lang_lit_inv in Hp as ->.
  exists id, sp1, sp2, g, (tl ++ rest)%list. split; [by rewrite <- !app_assoc|]. repeat split; try done.
  eapply words_sound; [|exact Hg]. vm_compute. reflexivity.
Qed.

(* ---- characters ---- *)
Definition np (x : nat) : Prop := x ≠ 40 ∧ x ≠ 41.
Lemma ws_np x : in_cls c_ws x = true → np x ∧ x ≠ 61.
Proof.
  unfold c_ws, in_cls, existsb. simpl fst. simpl snd. rewrite xorb_false_l, orb_false_r. intros H.
  apply orb_true_iff in H as [H|H]; apply andb_true_iff in H as [H1 H2]; apply Nat.leb_le in H1; apply Nat.leb_le in H2; unfold np; lia.
Qed.
Lemma idc_np x : in_cls c_idc x = true → np x ∧ x ≠ 61 ∧ x ≠ 32 ∧ x ≠ 10.
Proof.
  unfold c_idc, in_cls, existsb. simpl fst. simpl snd. rewrite xorb_false_l, !orb_false_r. intros H.
  repeat (apply orb_true_iff in H as [H|H]); apply andb_true_iff in H as [H1 H2]; apply Nat.leb_le in H1; apply Nat.leb_le in H2; unfold np; lia.
Qed.
Lemma kw_chars : Forall (Forall (λ x, np x ∧ x ≠ 61 ∧ x ≠ 32 ∧ x ≠ 10 ∧ in_cls c_ws x = false)) (kw_in ++ kw_out ++ kw_dff ++ kw_gate).
Proof. apply (bool_decide_unpack _). vm_compute. exact I. Qed.
Lemma kw_char l x : l ∈ (kw_in ++ kw_out ++ kw_dff ++ kw_gate)%list → x ∈ l → np x ∧ x ≠ 61 ∧ x ≠ 32 ∧ x ≠ 10 ∧ in_cls c_ws x = false.
Proof. intros Hl Hx. pose proof kw_chars as H. rewrite Forall_forall in H. specialize (H l Hl). rewrite Forall_forall in H. by apply H. Qed.
Lemma in_gate_kw g : g ∈ kw_gate → g ∈ (kw_in ++ kw_out ++ kw_dff ++ kw_gate)%list.
Proof. rewrite !elem_of_app. auto. Qed.

(* ---- canonical lines: pre ( body ) ---- *)
Definition pre_of (l : bline) : list nat :=
  match l with
  | BInput _ => codes "INPUT" | BOutput _ => codes "OUTPUT"
  | BGate net g _ => (codes net ++ [32; 61; 32] ++ codes g)%list
  | BDff q _ => (codes q ++ [32; 61; 32; 68; 70; 70])%list end.
Definition body_of (l : bline) : list nat :=
  match l with BInput n | BOutput n => codes n | BGate _ _ ops => optext ops | BDff _ d => codes d end.
Definition canon (l : bline) : Prop :=
  match l with
  | BInput n | BOutput n => ident n = true
  | BGate net g ops => ident net = true ∧ g ∈ rd_alts ∧ ops ≠ [] ∧ Forall (λ o, ident o = true) ops
  | BDff q d => ident q = true ∧ ident d = true end.
Lemma render_split l : render_line l = (pre_of l ++ 40 :: body_of l ++ [41])%list.
Proof. destruct l; unfold render_line, pre_of, body_of, optext; simpl; rewrite <- ?app_assoc; reflexivity. Qed.
Lemma ident_chars n x : ident n = true → x ∈ codes n → np x ∧ x ≠ 61 ∧ x ≠ 32 ∧ x ≠ 10.
Proof.
  intros (a & p & Hn & Ha & Hp)%ident_codes Hx. rewrite Hn in Hx. apply elem_of_cons in Hx as [->|Hx]; [by apply idc_np, alpha_idc|].
  rewrite Forall_forall in Hp. by apply idc_np, Hp.
Qed.
Lemma optext_chars ops x : Forall (λ o, ident o = true) ops → x ∈ optext ops → np x ∧ x ≠ 10.
Proof.
  unfold optext. induction 1 as [|o r Ho Hr IH]; [by intros ?%elem_of_nil|]. destruct r as [|o2 r'].
  - simpl. intros Hx. destruct (ident_chars o x Ho Hx) as (? & _ & _ & ?). done.
  - change (join (codes ", ") (codes <$> o :: o2 :: r')) with (codes o ++ codes ", " ++ join (codes ", ") (codes <$> o2 :: r'))%list.
    rewrite !elem_of_app. intros [Hx|[Hx|Hx]].
    + destruct (ident_chars o x Ho Hx) as (? & _ & _ & ?). done.
    + change (codes ", ") with [44; 32] in Hx. unfold np. rewrite !elem_of_cons, elem_of_nil in Hx. lia.
    + by apply IH.
Qed.
Lemma canon_nop l : canon l → nop (pre_of l) ∧ nop (body_of l).
Proof.
  unfold nop. destruct l as [n|n|net g ops|q d]; simpl; intros Hc.
  - split; [vm_compute (codes "INPUT"); rewrite !elem_of_cons, elem_of_nil; lia|]. intros Hx. destruct (ident_chars n 40 Hc Hx) as ([? _] & _). done.
  - split; [vm_compute (codes "OUTPUT"); rewrite !elem_of_cons, elem_of_nil; lia|]. intros Hx. destruct (ident_chars n 40 Hc Hx) as ([? _] & _). done.
  - destruct Hc as (Hn & Hg & Hne & Hops). split.
    + intros Hx. apply elem_of_app in Hx as [Hx|Hx]; [destruct (ident_chars net 40 Hn Hx) as ([? _] & _); done|].
      simpl in Hx. do 3 (apply elem_of_cons in Hx as [Hx|Hx]; [lia|]).
      * assert (Hk : codes g ∈ kw_gate) by (by apply elem_of_list_fmap_1). destruct (kw_char _ 40 (in_gate_kw _ Hk) Hx) as ([? _] & _). done.
    + intros Hx. destruct (optext_chars ops 40 Hops Hx) as ([? _] & _). done.
  - destruct Hc as [Hq Hd]. split.
    + intros Hx. apply elem_of_app in Hx as [Hx|Hx]; [destruct (ident_chars q 40 Hq Hx) as ([? _] & _); done|].
      rewrite !elem_of_cons, elem_of_nil in Hx. lia.
    + intros Hx. destruct (ident_chars d 40 Hd Hx) as ([? _] & _). done.
Qed.

(* ---- list helpers ---- *)
Lemma split_first (c : nat) x y s t : c ∉ x → c ∉ y → (x ++ c :: s = y ++ c :: t)%list → x = y ∧ s = t.
Proof.
  revert y. induction x as [|a x IH]; intros [|b y] Hx Hy H; simpl in H.
  - by injection H.
  - injection H as <- _. exfalso. apply Hy. by left.
  - injection H as -> _. exfalso. apply Hx. by left.
  - injection H as -> H. destruct (IH y) as [-> ->]; [intros ?; apply Hx; by right|intros ?; apply Hy; by right|done|done].
Qed.
Lemma split_last (c : nat) x y s t : c ∉ s → c ∉ t → (x ++ c :: s = y ++ c :: t)%list → s = t.
Proof.
  intros Hs Ht H. apply (f_equal (@rev nat)) in H. rewrite !rev_app_distr in H. simpl in H. rewrite <- !app_assoc in H. simpl in H.
  assert (Hr : ∀ l : list nat, c ∉ l → c ∉ rev l).
  { intros l Hl Hin. apply Hl. apply elem_of_list_In in Hin. apply (proj2 (in_rev _ _)) in Hin. by apply elem_of_list_In. }
  apply split_first in H as [H _]; [|by apply Hr..].
  apply (f_equal (@rev nat)) in H. by rewrite !rev_involutive in H.
Qed.
Lemma tail_nonws (a' kw sp P : list nat) c : is_ws sp → in_cls c_ws c = false → (a' ++ kw ++ sp = P ++ [c])%list → sp = [].
Proof.
  intros Hsp Hc H. destruct sp as [|x sp'] using rev_ind; [done|]. exfalso. rewrite !app_assoc in H. apply app_inj_tail in H as [_ ->].
  unfold is_ws in Hsp. apply Forall_app in Hsp as [_ Hx]. apply Forall_cons in Hx as [Hx _]. cbv beta in Hx. congruence.
Qed.
Lemma suffix_space (a' kw X G : list nat) : (a' ++ kw = X ++ 32 :: G)%list → length G < length kw → 32 ∈ kw.
Proof.
  intros H Hlen. apply app_eq_app in H as [l [[-> H]|[-> H]]].
  - destruct l as [|x l]; simpl in H; [subst kw; by left|]. injection H as -> H. subst G. rewrite app_length in Hlen. lia.
  - rewrite H. apply elem_of_app. right. by left.
Qed.
Lemma kw_gate_facts : Forall (λ k : list nat, k ≠ [] ∧ length k ≤ 4) kw_gate.
Proof. apply (bool_decide_unpack _). vm_compute. exact I. Qed.
Lemma pre_last l : canon l → ∃ P c, pre_of l = (P ++ [c])%list ∧ in_cls c_ws c = false.
Proof.
  destruct l as [n|n|net g ops|q d]; simpl; intros Hc.
  - exists [73; 78; 80; 85], 84. done.
  - exists [79; 85; 84; 80; 85], 84. done.
  - destruct Hc as (_ & Hg & _). assert (Hk : codes g ∈ kw_gate) by (by apply elem_of_list_fmap_1).
    pose proof kw_gate_facts as Hf. rewrite Forall_forall in Hf. destruct (Hf _ Hk) as [Hne _].
    destruct (codes g) as [|c G] using rev_ind; [done|]. clear IHG.
    exists (codes net ++ 32 :: 61 :: 32 :: G)%list, c. split; [by rewrite <- !app_assoc|].
    destruct (kw_char _ c (in_gate_kw _ Hk)) as (_ & _ & _ & _ & ?); [apply elem_of_app; right; by left|done].
  - exists (codes q ++ [32; 61; 32; 68; 70])%list, 70. split; [by rewrite <- !app_assoc|done].
Qed.

(* ---- no false matches: a scan pattern matches nowhere inside (or at the newline of) a canonical line of another kind ---- *)
Lemma line_shape l : (render_line l ++ [10] = pre_of l ++ 40 :: body_of l ++ [41; 10])%list.
Proof. rewrite render_split. rewrite <- !app_assoc. simpl. by rewrite <- app_assoc. Qed.

(* common part for INPUT / OUTPUT: the keyword is a suffix of pre *)
Lemma kw_suffix l a b rest kw sp tl (kws : list (list nat)) : canon l → kw ∈ kws → (∀ k, k ∈ kws → k ∈ (kw_in ++ kw_out ++ kw_dff ++ kw_gate)%list) → is_ws sp →
  (render_line l ++ [10] = a ++ b)%list → b ≠ [] → (b ++ rest = kw ++ sp ++ 40 :: tl)%list → kw ≠ [] →
  ∃ a', pre_of l = (a' ++ kw)%list.
Proof.
  intros Hc Hkw Hkws Hsp Hsplit Hb Heq Hne. destruct (canon_nop l Hc) as [Hp Hbd]. rewrite line_shape in Hsplit.
  assert (Hy : ∀ x, x ∈ (kw ++ sp)%list → np x ∧ x ≠ 10 ∨ in_cls c_ws x = true ∧ np x).
  { intros x [Hx|Hx]%elem_of_app.
    - left. destruct (kw_char kw x (Hkws _ Hkw) Hx) as (? & _ & _ & ? & _). done.
    - right. unfold is_ws in Hsp. rewrite Forall_forall in Hsp. split; [by apply Hsp|]. by apply ws_np, Hsp. }
  destruct (head_in_pre (pre_of l) (body_of l) a b rest (kw ++ sp) tl) as [a' Ha']; try done.
  - intros Hx. destruct (Hy 41 Hx) as [[[_ ?] _]|[_ [_ ?]]]; done.
  - intros Hx. destruct (Hy 40 Hx) as [[[? _] _]|[_ [? _]]]; done.
  - destruct kw as [|k0 kw']; [done|]. simpl. destruct (kw_char (k0 :: kw') k0 (Hkws _ Hkw)) as (_ & _ & _ & ? & _); [by left|done].
  - by rewrite <- app_assoc.
  - destruct (pre_last l Hc) as (P & c & HP & Hcw). rewrite HP in Ha'.
    rewrite (tail_nonws a' kw sp P c Hsp Hcw) in Ha' by done. rewrite app_nil_r in Ha'. exists a'. by rewrite HP.
Qed.

Ltac rev_eq H := apply (f_equal (@rev nat)) in H; rewrite ?rev_app_distr in H; simpl in H.

Lemma nomatch_input l a b rest : canon l → (∀ n, l ≠ BInput n) → (render_line l ++ [10] = a ++ b)%list → b ≠ [] →
  match_here rd_re_input (b ++ rest) = None.
Proof.
  intros Hc Hk Hsplit Hb. destruct (match_here rd_re_input (b ++ rest)) as [[r cs]|] eqn:E; [exfalso|done].
  apply shape_input in E as (kw & sp & tl & Heq & Hkw & Hsp).
  destruct (kw_suffix l a b rest kw sp tl kw_in Hc Hkw) as [a' Ha']; try done.
  { intros k Hk'. apply elem_of_app. by left. }
  { intros ->. unfold kw_in in Hkw. rewrite !elem_of_cons, elem_of_nil in Hkw. naive_solver. }
  assert (H32 : 32 ∉ kw). { intros Hx. destruct (kw_char kw 32 ltac:(apply elem_of_app; by left) Hx) as (_ & _ & ? & _). done. }
  assert (Hlen : length kw = 5). { unfold kw_in in Hkw. rewrite !elem_of_cons, elem_of_nil in Hkw. destruct Hkw as [->|[->|[]]]; done. }
  destruct l as [n|n|net g ops|q d]; simpl in Ha'.
  - by eapply Hk.
  - unfold kw_in in Hkw. rewrite !elem_of_cons, elem_of_nil in Hkw. change (codes "OUTPUT") with [79; 85; 84; 80; 85; 84] in Ha'.
    destruct Hkw as [->|[->|[]]]; rev_eq Ha'; discriminate.
  - destruct Hc as (_ & Hg & _). assert (Hkg : codes g ∈ kw_gate) by (by apply elem_of_list_fmap_1).
    pose proof kw_gate_facts as Hf. rewrite Forall_forall in Hf. destruct (Hf _ Hkg) as [_ Hl4].
    apply H32. apply (suffix_space a' kw (codes net ++ [32; 61]) (codes g)); [rewrite <- Ha'; by rewrite <- app_assoc|lia].
  - apply H32. apply (suffix_space a' kw (codes q ++ [32; 61]) [68; 70; 70]); [rewrite <- Ha'; by rewrite <- app_assoc|simpl; lia].
Qed.

Lemma nomatch_output l a b rest : canon l → (∀ n, l ≠ BOutput n) → (render_line l ++ [10] = a ++ b)%list → b ≠ [] →
  match_here rd_re_output (b ++ rest) = None.
Proof.
  intros Hc Hk Hsplit Hb. destruct (match_here rd_re_output (b ++ rest)) as [[r cs]|] eqn:E; [exfalso|done].
  apply shape_output in E as (kw & sp & tl & Heq & Hkw & Hsp).
  destruct (kw_suffix l a b rest kw sp tl kw_out Hc Hkw) as [a' Ha']; try done.
  { intros k Hk'. rewrite !elem_of_app. auto. }
  { intros ->. unfold kw_out in Hkw. rewrite !elem_of_cons, elem_of_nil in Hkw. naive_solver. }
  assert (H32 : 32 ∉ kw). { intros Hx. destruct (kw_char kw 32 ltac:(rewrite !elem_of_app; auto) Hx) as (_ & _ & ? & _). done. }
  assert (Hlen : length kw = 6). { unfold kw_out in Hkw. rewrite !elem_of_cons, elem_of_nil in Hkw. destruct Hkw as [->|[->|[]]]; done. }
  destruct l as [n|n|net g ops|q d]; simpl in Ha'.
  - change (codes "INPUT") with [73; 78; 80; 85; 84] in Ha'. apply (f_equal length) in Ha'. rewrite app_length in Ha'. simpl in Ha'. lia.
  - by eapply Hk.
  - destruct Hc as (_ & Hg & _). assert (Hkg : codes g ∈ kw_gate) by (by apply elem_of_list_fmap_1).
    pose proof kw_gate_facts as Hf. rewrite Forall_forall in Hf. destruct (Hf _ Hkg) as [_ Hl4].
    apply H32. apply (suffix_space a' kw (codes net ++ [32; 61]) (codes g)); [rewrite <- Ha'; by rewrite <- app_assoc|lia].
  - apply H32. apply (suffix_space a' kw (codes q ++ [32; 61]) [68; 70; 70]); [rewrite <- Ha'; by rewrite <- app_assoc|simpl; lia].
Qed.

(* common part for the gate / DFF patterns: id sp = sp g is a suffix of pre *)
Lemma assign_suffix l a b rest id sp1 sp2 g tl : canon l → is_id id → is_ws sp1 → is_ws sp2 → g ∈ (kw_in ++ kw_out ++ kw_dff ++ kw_gate)%list →
  (render_line l ++ [10] = a ++ b)%list → b ≠ [] → (b ++ rest = id ++ sp1 ++ 61 :: sp2 ++ g ++ 40 :: tl)%list →
  ∃ a', pre_of l = (a' ++ id ++ sp1 ++ 61 :: sp2 ++ g)%list.
Proof.
  intros Hc (i0 & ip & -> & Hi0 & Hip) Hsp1 Hsp2 Hg Hsplit Hb Heq. destruct (canon_nop l Hc) as [Hp Hbd]. rewrite line_shape in Hsplit.
  set (y := ((i0 :: ip) ++ sp1 ++ 61 :: sp2 ++ g)%list).
  assert (Hy : ∀ x, x ∈ y → np x).
  { unfold y. intros x Hx. rewrite !elem_of_app in Hx. unfold is_ws in *. rewrite Forall_forall in Hsp1, Hsp2, Hip.
    destruct Hx as [Hx|[Hx|Hx]].
    - apply elem_of_cons in Hx as [->|Hx]; [by apply idc_np, alpha_idc|by apply idc_np, Hip].
    - by apply ws_np, Hsp1.
    - apply elem_of_cons in Hx as [->|Hx]; [unfold np; lia|]. apply elem_of_app in Hx as [Hx|Hx]; [by apply ws_np, Hsp2|].
      by destruct (kw_char g x Hg Hx) as (? & _). }
  destruct (head_in_pre (pre_of l) (body_of l) a b rest y tl) as [a' Ha']; try done.
  - intros Hx. by destruct (Hy 41 Hx).
  - intros Hx. by destruct (Hy 40 Hx).
  - unfold y. simpl. intros ->. apply alpha_idc, idc_np in Hi0 as (_ & _ & _ & ?). done.
  - unfold y. rewrite Heq. rewrite <- !app_assoc. simpl. by rewrite <- !app_assoc.
  - exists a'. by rewrite Ha'.
Qed.
Lemma no61 (l : list nat) : (∀ x, x ∈ l → x ≠ 61) → 61 ∉ l.
Proof. intros H Hx. by apply (H 61). Qed.

Lemma nomatch_gate l a b rest : canon l → (∀ n g ops, l ≠ BGate n g ops) → (render_line l ++ [10] = a ++ b)%list → b ≠ [] →
  match_here rd_re_gate (b ++ rest) = None.
Proof.
  intros Hc Hk Hsplit Hb. destruct (match_here rd_re_gate (b ++ rest)) as [[r cs]|] eqn:E; [exfalso|done].
  apply shape_gate in E as (id & sp1 & sp2 & g & tl & Heq & Hid & Hsp1 & Hsp2 & Hg).
  destruct (assign_suffix l a b rest id sp1 sp2 g tl Hc Hid Hsp1 Hsp2 (in_gate_kw _ Hg) Hsplit Hb Heq) as [a' Ha'].
  assert (H61 : 61 ∈ pre_of l). { rewrite Ha'. rewrite !elem_of_app. right. right. right. by left. }
  destruct l as [n|n|net g0 ops|q d]; simpl in Ha', H61.
  - change (codes "INPUT") with [73; 78; 80; 85; 84] in H61. rewrite !elem_of_cons, elem_of_nil in H61. lia.
  - change (codes "OUTPUT") with [79; 85; 84; 80; 85; 84] in H61. rewrite !elem_of_cons, elem_of_nil in H61. lia.
  - by eapply Hk.
  - destruct Hc as [Hq _].
    assert (Ht : (sp2 ++ g)%list = [32; 68; 70; 70]).
    { apply (split_last 61 ((a' ++ id) ++ sp1) (codes q ++ [32])).
      - apply no61. intros x [Hx|Hx]%elem_of_app; [unfold is_ws in Hsp2; rewrite Forall_forall in Hsp2; by apply ws_np, Hsp2|].
        by destruct (kw_char g x (in_gate_kw _ Hg) Hx) as (_ & ? & _).
      - rewrite !elem_of_cons, elem_of_nil. lia.
      - rewrite <- !app_assoc. simpl. symmetry. exact Ha'. }
    unfold kw_gate in Hg. vm_compute in Hg. repeat (apply elem_of_cons in Hg as [->|Hg]; [rev_eq Ht; discriminate|]). by apply elem_of_nil in Hg.
Qed.

Lemma nomatch_dff l a b rest : canon l → (∀ q d, l ≠ BDff q d) → (render_line l ++ [10] = a ++ b)%list → b ≠ [] →
  match_here rd_re_dff (b ++ rest) = None.
Proof.
  intros Hc Hk Hsplit Hb. destruct (match_here rd_re_dff (b ++ rest)) as [[r cs]|] eqn:E; [exfalso|done].
  apply shape_dff in E as (id & sp1 & sp2 & g & tl & Heq & Hid & Hsp1 & Hsp2 & Hg).
  assert (Hg' : g ∈ (kw_in ++ kw_out ++ kw_dff ++ kw_gate)%list) by (rewrite !elem_of_app; auto).
  destruct (assign_suffix l a b rest id sp1 sp2 g tl Hc Hid Hsp1 Hsp2 Hg' Hsplit Hb Heq) as [a' Ha'].
  assert (H61 : 61 ∈ pre_of l). { rewrite Ha'. rewrite !elem_of_app. right. right. right. by left. }
  destruct l as [n|n|net g0 ops|q d]; simpl in Ha', H61.
  - change (codes "INPUT") with [73; 78; 80; 85; 84] in H61. rewrite !elem_of_cons, elem_of_nil in H61. lia.
  - change (codes "OUTPUT") with [79; 85; 84; 80; 85; 84] in H61. rewrite !elem_of_cons, elem_of_nil in H61. lia.
  - destruct Hc as (Hn & Hg0 & _). assert (Hkg : codes g0 ∈ kw_gate) by (by apply elem_of_list_fmap_1).
    assert (Ht : (sp2 ++ g)%list = (32 :: codes g0)%list).
    { apply (split_last 61 ((a' ++ id) ++ sp1) (codes net ++ [32])).
      - apply no61. intros x [Hx|Hx]%elem_of_app; [unfold is_ws in Hsp2; rewrite Forall_forall in Hsp2; by apply ws_np, Hsp2|].
        by destruct (kw_char g x Hg' Hx) as (_ & ? & _).
      - apply no61. intros x [->|Hx]%elem_of_cons; [lia|]. by destruct (kw_char _ x (in_gate_kw _ Hkg) Hx) as (_ & ? & _).
      - rewrite <- !app_assoc. simpl. symmetry. exact Ha'. }
    let v := eval vm_compute in kw_gate in change kw_gate with v in Hkg. unfold kw_dff in Hg. rewrite !elem_of_cons, elem_of_nil in Hg.
    destruct Hg as [->|[->|[]]];
      repeat (apply elem_of_cons in Hkg as [E|Hkg]; [rewrite E in Ht; rev_eq Ht; discriminate|]); by apply elem_of_nil in Hkg.
  - by eapply Hk.
Qed.

(* ---- findall over a canonical text, line by line ---- *)
Lemma render_cons l ls : render (l :: ls) = (render_line l ++ 10 :: render ls)%list.
Proof. unfold render. rewrite bind_cons. by rewrite <- app_assoc. Qed.
Lemma findall_skip rx (L R : list nat) :
  (∀ a b, L = (a ++ b)%list → b ≠ [] → match_here rx (b ++ R) = None) →
  ∀ b a n, L = (a ++ b)%list → length b ≤ n → findall_n n rx (b ++ R) = findall_n (n - length b) rx R.
Proof.
  intros Hno. induction b as [|x b IH]; intros a n HL Hn.
  - simpl. by rewrite Nat.sub_0_r.
  - destruct n as [|n]; [simpl in Hn; lia|]. simpl app. simpl findall_n.
    pose proof (Hno a (x :: b) HL ltac:(done)) as Hnone. simpl app in Hnone. rewrite Hnone. simpl length. simpl Nat.sub.
    apply (IH (a ++ [x])%list); [by rewrite <- app_assoc|simpl in Hn; lia].
Qed.
Lemma findall_hit rx (s rest : list nat) cs n : match_here rx s = Some (rest, cs) → length rest < length s →
  findall_n (S n) rx s = cs :: findall_n n rx rest.
Proof.
  destruct s as [|x s1]; [simpl; lia|]. intros Hm Hlt. simpl. rewrite Hm. simpl in Hlt. apply Nat.ltb_lt in Hlt. by rewrite Hlt.
Qed.
Lemma findall_miss rx x (s : list nat) n : match_here rx (x :: s) = None → findall_n (S n) rx (x :: s) = findall_n n rx s.
Proof. intros Hm. simpl. by rewrite Hm. Qed.
Lemma findall_lines rx (isk : bline → bool) (cap : bline → caps) :
  (∀ l rest, canon l → isk l = true → match_here rx (render_line l ++ rest) = Some (rest, cap l)) →
  (∀ l a b rest, canon l → isk l = false → (render_line l ++ [10] = a ++ b)%list → b ≠ [] → match_here rx (b ++ rest) = None) →
  (∀ rest, match_here rx (10 :: rest) = None) →
  ∀ ls, Forall canon ls → ∀ n, length (render ls) ≤ n → findall_n n rx (render ls) = cap <$> filter (λ l, isk l = true) ls.
Proof.
  intros Hyes Hno Hnl ls Hc. induction Hc as [|l ls Hl Hls IH]; intros n Hn.
  - destruct n; done.
  - rewrite render_cons. rewrite render_cons in Hn. rewrite app_length in Hn. simpl in Hn. rewrite filter_cons. destruct (isk l) eqn:Ek.
    + rewrite decide_True by done. rewrite fmap_cons.
      assert (Hpos : 0 < length (render_line l)) by (rewrite render_split; destruct (pre_of l); simpl; lia).
      destruct n as [|n]; [lia|].
      rewrite (findall_hit rx _ _ _ n (Hyes l _ Hl Ek)) by (rewrite app_length; simpl; lia).
      f_equal. destruct n as [|n]; [lia|]. rewrite findall_miss by apply Hnl. apply IH. lia.
    + rewrite decide_False by done.
      change (render_line l ++ 10 :: render ls)%list with (render_line l ++ [10] ++ render ls)%list. rewrite app_assoc.
      rewrite (findall_skip rx (render_line l ++ [10]) (render ls) (λ a b HL Hb, Hno l a b (render ls) Hl Ek HL Hb) _ [] n eq_refl).
      * apply IH. rewrite app_length. simpl. lia.
      * rewrite app_length. simpl. lia.
Qed.

(* ---- assembly ---- *)
Lemma nl_input rest : match_here rd_re_input (10 :: rest) = None. Proof. reflexivity. Qed.
Lemma nl_output rest : match_here rd_re_output (10 :: rest) = None. Proof. reflexivity. Qed.
Lemma nl_gate rest : match_here rd_re_gate (10 :: rest) = None. Proof. reflexivity. Qed.
Lemma nl_dff rest : match_here rd_re_dff (10 :: rest) = None. Proof. reflexivity. Qed.

Definition cap_in (l : bline) : caps := match l with BInput n | BOutput n => [(1, codes n)] | _ => [] end.
Definition cap_gate (l : bline) : caps := match l with BGate net g ops => [(3, optext ops); (2, codes g); (1, codes net)] | _ => [] end.
Definition cap_dff (l : bline) : caps := match l with BDff q d => [(3, codes d); (2, [68; 70; 70]); (1, codes q)] | _ => [] end.

Lemma canon_gate_stmt l : canon l → is_stmt_gate l = true ↔ ∃ net g ops, l = BGate net g ops.
Proof.
  destruct l as [n|n|net g ops|q d]; simpl; intros Hc; try (split; [done|by intros (? & ? & ? & ?)]).
  destruct Hc as (_ & Hg & Hne & _). split; [eauto|]. intros _. rewrite bool_decide_eq_true_2 by done. by rewrite bool_decide_eq_false_2.
Qed.

Section canonical.
  Context (ls : list bline) (Hc : Forall canon ls).
  Let t := render ls.

  Lemma fa_input : findall rd_re_input t = cap_in <$> filter (λ l, is_input l = true) ls.
  Proof.
    apply (findall_lines rd_re_input is_input cap_in); [| |apply nl_input|done|done].
    - intros l rest Hl Hk. destruct l; try done. by apply match_input.
    - intros l a b rest Hl Hk. apply nomatch_input; [done|]. intros n ->. done.
  Qed.
  Lemma fa_output : findall rd_re_output t = cap_in <$> filter (λ l, is_output l = true) ls.
  Proof.
    apply (findall_lines rd_re_output is_output cap_in); [| |apply nl_output|done|done].
    - intros l rest Hl Hk. destruct l; try done. by apply match_output.
    - intros l a b rest Hl Hk. apply nomatch_output; [done|]. intros n ->. done.
  Qed.
  Lemma fa_gate : findall rd_re_gate t = cap_gate <$> filter (λ l, is_stmt_gate l = true) ls.
  Proof.
    apply (findall_lines rd_re_gate is_stmt_gate cap_gate); [| |apply nl_gate|done|done].
    - intros l rest Hl Hk. apply (canon_gate_stmt l Hl) in Hk as (net & g & ops & ->). destruct Hl as (? & ? & ? & ?). by apply match_gate.
    - intros l a b rest Hl Hk. apply nomatch_gate; [done|]. intros net g ops ->.
      assert (is_stmt_gate (BGate net g ops) = true) by (apply canon_gate_stmt; eauto). congruence.
  Qed.
  Lemma fa_dff : findall rd_re_dff t = cap_dff <$> filter (λ l, is_dff l = true) ls.
  Proof.
    apply (findall_lines rd_re_dff is_dff cap_dff); [| |apply nl_dff|done|done].
    - intros l rest Hl Hk. destruct l; try done. destruct Hl. by apply match_dff.
    - intros l a b rest Hl Hk. apply nomatch_dff; [done|]. intros q d ->. done.
  Qed.
End canonical.

(* no comment character in a canonical text *)
Lemma idc_ge x : in_cls c_idc x = true → 48 ≤ x.
Proof.
  unfold c_idc, in_cls, existsb. simpl fst. simpl snd. rewrite xorb_false_l, !orb_false_r. intros H.
  repeat (apply orb_true_iff in H as [H|H]); apply andb_true_iff in H as [H1 H2]; apply Nat.leb_le in H1; lia.
Qed.
Lemma ident_ge n x : ident n = true → x ∈ codes n → 48 ≤ x.
Proof.
  intros (a & p & Hn & Ha & Hp)%ident_codes Hx. rewrite Hn in Hx. apply elem_of_cons in Hx as [->|Hx]; [by apply idc_ge, alpha_idc|].
  rewrite Forall_forall in Hp. by apply idc_ge, Hp.
Qed.
Lemma optext_no35 ops x : Forall (λ o, ident o = true) ops → x ∈ optext ops → x ≠ 35.
Proof.
  unfold optext. induction 1 as [|o r Ho Hr IH]; [by intros ?%elem_of_nil|]. destruct r as [|o2 r'].
  - simpl. intros Hx. pose proof (ident_ge o x Ho Hx). lia.
  - change (join (codes ", ") (codes <$> o :: o2 :: r')) with (codes o ++ codes ", " ++ join (codes ", ") (codes <$> o2 :: r'))%list.
    rewrite !elem_of_app. intros [Hx|[Hx|Hx]].
    + pose proof (ident_ge o x Ho Hx). lia.
    + change (codes ", ") with [44; 32] in Hx. rewrite !elem_of_cons, elem_of_nil in Hx. lia.
    + by apply IH.
Qed.
Lemma kw_gate_no35 : Forall (Forall (λ x, x ≠ 35)) kw_gate.
Proof. apply (bool_decide_unpack _). vm_compute. exact I. Qed.
Lemma line_no35 l x : canon l → x ∈ (render_line l ++ [10])%list → x ≠ 35.
Proof.
  intros Hl Hx. apply elem_of_app in Hx as [Hx|Hx]; [|apply elem_of_list_singleton in Hx; lia].
  destruct l as [n|n|net g ops|q d]; simpl in Hl; unfold render_line in Hx.
  - change (codes "INPUT(") with [73; 78; 80; 85; 84; 40] in Hx. rewrite !elem_of_app, !elem_of_cons, elem_of_nil in Hx.
    destruct Hx as [Hx|[Hx|Hx]]; [lia|pose proof (ident_ge n x Hl Hx); lia|lia].
  - change (codes "OUTPUT(") with [79; 85; 84; 80; 85; 84; 40] in Hx. rewrite !elem_of_app, !elem_of_cons, elem_of_nil in Hx.
    destruct Hx as [Hx|[Hx|Hx]]; [lia|pose proof (ident_ge n x Hl Hx); lia|lia].
  - destruct Hl as (Hn & Hg & Hne & Hops). change (codes " = ") with [32; 61; 32] in Hx. fold (optext ops) in Hx.
    rewrite !elem_of_app, !elem_of_cons, elem_of_nil in Hx.
    destruct Hx as [Hx|[Hx|[Hx|[Hx|[Hx|Hx]]]]]; try lia.
    + pose proof (ident_ge net x Hn Hx). lia.
    + pose proof kw_gate_no35 as Hf. rewrite Forall_forall in Hf. specialize (Hf (codes g) ltac:(by apply elem_of_list_fmap_1)).
      rewrite Forall_forall in Hf. by apply Hf.
    + by eapply optext_no35.
  - destruct Hl as [Hq Hd]. change (codes " = DFF(") with [32; 61; 32; 68; 70; 70; 40] in Hx.
    rewrite !elem_of_app, !elem_of_cons, elem_of_nil in Hx.
    destruct Hx as [Hx|[Hx|[Hx|Hx]]]; try lia; [pose proof (ident_ge q x Hq Hx)|pose proof (ident_ge d x Hd Hx)]; lia.
Qed.
Lemma render_no35 ls x : Forall canon ls → x ∈ render ls → x ≠ 35.
Proof.
  intros Hc (l & Hx & Hl)%elem_of_list_bind. rewrite Forall_forall in Hc. by eapply line_no35; [apply Hc|].
Qed.
Lemma delete_noop (s : list nat) : (∀ x, x ∈ s → x ≠ 35) → ∀ n, delete_n n rd_re_comment s = s.
Proof.
  induction s as [|x s IH]; intros Hs n; [by destruct n|]. destruct n as [|n]; [done|]. simpl delete_n.
  assert (Hm : match_here rd_re_comment (x :: s) = None).
  { unfold match_here, rd_re_comment. rewrite mt_seq. apply mt_lit_miss. intros E. apply (Hs x); [by left|done]. }
  rewrite Hm. f_equal. apply IH. intros y Hy. apply Hs. by right.
Qed.

(* decoding the captures of the statements of one kind gives the statements back *)
Lemma decode_inputs L : Forall canon L → Forall (λ l, is_input l = true) L →
  (cap_in <$> L) ≫= (λ cs, BInput <$> split_ops (group 1 cs)) = L.
Proof.
  induction 1 as [|l L Hl HL IH]; intros Hk; [done|]. apply Forall_cons in Hk as [Hk1 Hk2]. rewrite fmap_cons, bind_cons, IH by done.
  destruct l; try done. simpl in Hl. change (group 1 (cap_in (BInput n))) with (codes n). by rewrite split_ops_ident.
Qed.
Lemma decode_outputs L : Forall canon L → Forall (λ l, is_output l = true) L →
  (cap_in <$> L) ≫= (λ cs, BOutput <$> split_ops (group 1 cs)) = L.
Proof.
  induction 1 as [|l L Hl HL IH]; intros Hk; [done|]. apply Forall_cons in Hk as [Hk1 Hk2]. rewrite fmap_cons, bind_cons, IH by done.
  destruct l; try done. simpl in Hl. change (group 1 (cap_in (BOutput n))) with (codes n). by rewrite split_ops_ident.
Qed.
Lemma decode_gates L : Forall canon L → Forall (λ l, is_stmt_gate l = true) L →
  (λ cs, BGate (text_of (group 1 cs)) (text_of (group 2 cs)) (split_ops (group 3 cs))) <$> (cap_gate <$> L) = L.
Proof.
  induction 1 as [|l L Hl HL IH]; intros Hk; [done|]. apply Forall_cons in Hk as [Hk1 Hk2]. rewrite !fmap_cons, IH by done. f_equal.
  destruct l as [?|?|net g ops|? ?]; try done. destruct Hl as (Hn & Hg & Hne & Hops).
  change (group 1 _) with (codes net). change (group 2 _) with (codes g). change (group 3 _) with (optext ops).
  by rewrite !text_of_codes, split_ops_optext.
Qed.
Lemma decode_dffs L : Forall canon L → Forall (λ l, is_dff l = true) L →
  (λ cs, BDff (text_of (group 1 cs)) (text_of (clean (group 3 cs)))) <$> (cap_dff <$> L) = L.
Proof.
  induction 1 as [|l L Hl HL IH]; intros Hk; [done|]. apply Forall_cons in Hk as [Hk1 Hk2]. rewrite !fmap_cons, IH by done. f_equal.
  destruct l as [?|?|? ? ?|q d]; try done. destruct Hl as [Hq Hd].
  change (group 1 _) with (codes q). change (group 3 _) with (codes d).
  rewrite clean_plain by (by apply ident_plain). by rewrite !text_of_codes.
Qed.
Lemma Forall_filter_canon (P : bline → Prop) `{!∀ l, Decision (P l)} ls : Forall canon ls → Forall canon (filter P ls) ∧ Forall P (filter P ls).
Proof.
  intros Hc. split; apply Forall_forall; intros l [Hp Hl]%elem_of_list_filter; [|done]. rewrite Forall_forall in Hc. by apply Hc.
Qed.

(* THE character-level theorem for canonical texts: the four scans recover the line list (statements by pass) *)
Theorem scan_canonical_canon ls : Forall canon ls → scan_codes (render ls) = by_pass ls.
Proof.
  intros Hc. unfold scan_codes. unfold delete_all. rewrite delete_noop by (intros x Hx; by eapply render_no35).
  unfold by_pass, scan_inputs, scan_gates, scan_dffs, scan_outputs.
  rewrite (fa_input ls Hc), (fa_output ls Hc), (fa_gate ls Hc), (fa_dff ls Hc).
  destruct (Forall_filter_canon (λ l, is_input l = true) ls Hc) as [H1 H1'].
  destruct (Forall_filter_canon (λ l, is_stmt_gate l = true) ls Hc) as [H2 H2'].
  destruct (Forall_filter_canon (λ l, is_dff l = true) ls Hc) as [H3 H3'].
  destruct (Forall_filter_canon (λ l, is_output l = true) ls Hc) as [H4 H4'].
  by rewrite decode_inputs, decode_gates, decode_dffs, decode_outputs.
Qed.

Lemma wf_canon ls : wfb ls = true → Forall canon ls.
Proof.
  intros Hwf. apply Forall_forall. intros l Hl. pose proof (wf_line ls Hwf l Hl) as Hok.
  destruct l as [n|n|net g ops|q d]; simpl in *; try done.
  - apply andb_true_iff in Hok as [Hid Hok]. destruct (doc_gate g) as [T|] eqn:Hd; [|done]. split; [done|]. split.
    { pose proof (fold_gate_doc g) as Hf. rewrite Hd in Hf. unfold fold_gate in Hf. by case_bool_decide. }
    split. { intros ->. case_bool_decide; apply bool_decide_eq_true in Hok; simpl in Hok; lia. }
    apply Forall_forall. intros o Ho. apply (operand_ident ls Hwf). unfold operands. apply elem_of_list_bind. exists (BGate net g ops). done.
  - split; [done|]. apply (operand_ident ls Hwf). unfold operands. apply elem_of_list_bind. exists (BDff q d). split; [by left|done].
Qed.
Theorem scan_canonical ls : wfb ls = true → scan_codes (render ls) = by_pass ls.
Proof. intros Hwf. by apply scan_canonical_canon, wf_canon. Qed.
