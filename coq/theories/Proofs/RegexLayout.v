(* C15, character level over layouts: arbitrary whitespace at every position the scan patterns allow, either keyword case, blanks around operands, comments, blank lines, any line order -- the scans recover the line list. *)
From Coq Require Import Ascii.
From stdpp Require Import strings list.
From CG Require Import Model.Regex Model.Bench Model.BenchSpec Model.BenchScan Model.BenchLayout.
From CG Require Import Proofs.RegexProofs Proofs.RegexSound Proofs.RegexCanon Proofs.BenchProofs.
Open Scope string_scope.

(* ================= statements with arbitrary whitespace and either keyword case are recognised ================= *)
Lemma head_not c (w : list nat) x rest : Forall (λ z, in_cls c z = false) w → in_cls c x = false →
  match (w ++ x :: rest)%list with [] => True | z :: _ => in_cls c z = false end.
Proof. intros Hw Hx. destruct w as [|z w]; [done|]. simpl. by apply Forall_cons in Hw as [? _]. Qed.
Lemma ws_not_idc x : in_cls c_ws x = true → in_cls c_idc x = false.
Proof.
  intros H. destruct (in_cls c_idc x) eqn:E; [|done]. apply idc_ge in E.
  unfold c_ws, in_cls, existsb in H. simpl fst in H. simpl snd in H. rewrite xorb_false_l, orb_false_r in H.
  apply orb_true_iff in H as [H|H]; apply andb_true_iff in H as [H1 H2]; apply Nat.leb_le in H2; lia.
Qed.
Lemma ws_all_not_idc w : Forall ws_char w → Forall (λ z, in_cls c_idc z = false) w.
Proof. intros H. eapply Forall_impl; [exact H|]. intros x Hx. by apply ws_not_idc. Qed.

Lemma match_input_lay n y rest : ident n = true → lay_ok y →
  match_here rd_re_input (render_line_lay (BInput n) y ++ rest) = Some (rest, [(1, codes n)]).
Proof.
  intros (a & p & Hn & Ha & Hp)%ident_codes (Hw1 & Hw2 & Hw3 & _). unfold match_here, render_line_lay, rd_re_input, kw_input.
  rewrite Hn. repeat (rewrite <- app_assoc || rewrite <- app_comm_cons).
  assert (Hcore : ∀ cs0, mt (RSeq (RStar (RCls c_ws)) (RSeq (RLit 40) (RSeq (RStar (RCls c_ws))
            (RSeq (RGrp 1 (RSeq (RCls c_alpha) (RStar (RCls c_idc)))) (RSeq (RStar (RCls c_ws)) (RLit 41))))))
            (l_w1 y ++ 40 :: l_w2 y ++ a :: p ++ l_w3 y ++ 41 :: rest) cs0 (λ s' cs, Some (s', cs)) = Some (rest, (1, a :: p) :: cs0)).
  { intros cs0. repeat mstep.
    refine (star_cls_greedy c_ws (l_w1 y) (40 :: _) _ _ _ Hw1 _ _); [reflexivity|cbv beta]. repeat mstep.
    refine (star_cls_greedy c_ws (l_w2 y) (a :: _) _ _ _ Hw2 _ _); [by apply alpha_not_ws|cbv beta]. repeat mstep.
    rewrite mt_cls_hit by exact Ha.
    refine (star_cls_greedy c_idc p (l_w3 y ++ 41 :: rest) _ _ _ Hp _ _); [apply head_not; [by apply ws_all_not_idc|reflexivity]|cbv beta].
    change (a :: p ++ l_w3 y ++ 41 :: rest)%list with ((a :: p) ++ l_w3 y ++ 41 :: rest)%list. rewrite take_app_len. repeat mstep.
    refine (star_cls_greedy c_ws (l_w3 y) (41 :: rest) _ _ _ Hw3 _ _); [reflexivity|cbv beta]. repeat mstep. reflexivity. }
  destruct (l_lc y).
  - change (codes "input") with [105; 110; 112; 117; 116]. simpl app. mstep. rewrite mt_alt_r by none_tac. do 9 mstep. apply Hcore.
  - change (codes "INPUT") with [73; 78; 80; 85; 84]. simpl app. mstep. apply mt_alt_l. do 9 mstep. apply Hcore.
Qed.

Lemma match_output_lay n y rest : ident n = true → lay_ok y →
  match_here rd_re_output (render_line_lay (BOutput n) y ++ rest) = Some (rest, [(1, codes n)]).
Proof.
  intros (a & p & Hn & Ha & Hp)%ident_codes (Hw1 & Hw2 & Hw3 & _). unfold match_here, render_line_lay, rd_re_output, kw_output.
  rewrite Hn. repeat (rewrite <- app_assoc || rewrite <- app_comm_cons).
  assert (Hcore : ∀ cs0, mt (RSeq (RStar (RCls c_ws)) (RSeq (RLit 40) (RSeq (RStar (RCls c_ws))
            (RSeq (RGrp 1 (RSeq (RCls c_alpha) (RStar (RCls c_idc)))) (RSeq (RStar (RCls c_ws)) (RLit 41))))))
            (l_w1 y ++ 40 :: l_w2 y ++ a :: p ++ l_w3 y ++ 41 :: rest) cs0 (λ s' cs, Some (s', cs)) = Some (rest, (1, a :: p) :: cs0)).
  { intros cs0. repeat mstep.
    refine (star_cls_greedy c_ws (l_w1 y) (40 :: _) _ _ _ Hw1 _ _); [reflexivity|cbv beta]. repeat mstep.
    refine (star_cls_greedy c_ws (l_w2 y) (a :: _) _ _ _ Hw2 _ _); [by apply alpha_not_ws|cbv beta]. repeat mstep.
    rewrite mt_cls_hit by exact Ha.
    refine (star_cls_greedy c_idc p (l_w3 y ++ 41 :: rest) _ _ _ Hp _ _); [apply head_not; [by apply ws_all_not_idc|reflexivity]|cbv beta].
    change (a :: p ++ l_w3 y ++ 41 :: rest)%list with ((a :: p) ++ l_w3 y ++ 41 :: rest)%list. rewrite take_app_len. repeat mstep.
    refine (star_cls_greedy c_ws (l_w3 y) (41 :: rest) _ _ _ Hw3 _ _); [reflexivity|cbv beta]. repeat mstep. reflexivity. }
  destruct (l_lc y).
  - change (codes "output") with [111; 117; 116; 112; 117; 116]. simpl app. mstep. rewrite mt_alt_r by none_tac. do 11 mstep. apply Hcore.
  - change (codes "OUTPUT") with [79; 85; 84; 80; 85; 84]. simpl app. mstep. apply mt_alt_l. do 11 mstep. apply Hcore.
Qed.

(* blanks and the operand text *)
Lemma blank_ws x : blank_char x → ws_char x.
Proof. unfold blank_char, rd_strip_codes. rewrite !elem_of_cons, elem_of_nil. intros [->|[->|[->|[]]]]; reflexivity. Qed.
Lemma ws_notrp x : ws_char x → in_cls c_notrp x = true.
Proof.
  intros H. destruct (ws_np x H) as [[_ H41] _]. unfold c_notrp, in_cls, existsb. simpl fst. simpl snd. rewrite orb_false_r.
  apply negb_true_iff, andb_false_iff. destruct (decide (x ≤ 41)); [left; apply Nat.leb_gt; lia|right; apply Nat.leb_gt; lia].
Qed.
Lemma ident_all_notrp n : ident n = true → Forall (λ x, in_cls c_notrp x = true) (codes n).
Proof. intros H. by destruct (ident_notrp n H). Qed.
Lemma blanks_notrp w : Forall blank_char w → Forall (λ x, in_cls c_notrp x = true) w.
Proof. intros H. eapply Forall_impl; [exact H|]. intros x Hx. by apply ws_notrp, blank_ws. Qed.
Lemma optext_lay_notrp ob oa ops : (∀ i, Forall blank_char (ob i)) → (∀ i, Forall blank_char (oa i)) → Forall (λ o, ident o = true) ops →
  ∀ i, Forall (λ x, in_cls c_notrp x = true) (optext_lay ob oa i ops).
Proof.
  intros Hb Ha Hops. induction Hops as [|o r Ho Hr IH]; intros i; [constructor|]. destruct r as [|o2 r'].
  - simpl. rewrite !Forall_app. auto using blanks_notrp, ident_all_notrp.
  - change (optext_lay ob oa i (o :: o2 :: r')) with (ob i ++ codes o ++ oa i ++ 44 :: optext_lay ob oa (S i) (o2 :: r'))%list.
    rewrite !Forall_app. split; [by apply blanks_notrp|]. split; [by apply ident_all_notrp|]. split; [by apply blanks_notrp|].
    constructor; [reflexivity|apply IH].
Qed.
Lemma optext_lay_ne ob oa ops i : ops ≠ [] → Forall (λ o, ident o = true) ops → optext_lay ob oa i ops ≠ [].
Proof.
  intros Hne Hops. destruct ops as [|o r]; [done|]. apply Forall_cons in Hops as [Ho _]. destruct (ident_notrp o Ho) as [Hc _].
  destruct r; simpl; destruct (ob i); simpl; try done; destruct (codes o); done.
Qed.

Definition dff_ot (y : lay) (d : string) : list nat := (l_ob y 0 ++ codes d ++ l_oa y 0)%list.
Lemma match_dff_lay q d y rest : ident q = true → ident d = true → lay_ok y →
  match_here rd_re_dff (render_line_lay (BDff q d) y ++ rest) = Some (rest, [(3, dff_ot y d); (2, kw_dffs (l_lc y)); (1, codes q)]).
Proof.
  intros (a & p & Hq & Ha & Hp)%ident_codes Hd (Hw1 & Hw2 & _ & Hob & Hoa). unfold match_here, render_line_lay, rd_re_dff.
  assert (Hot : Forall (λ x, in_cls c_notrp x = true) (dff_ot y d)).
  { unfold dff_ot. rewrite !Forall_app. auto using blanks_notrp, ident_all_notrp. }
  assert (Hne : dff_ot y d ≠ []). { unfold dff_ot. destruct (ident_notrp d Hd) as [Hc _]. destruct (l_ob y 0); simpl; [by destruct (codes d)|done]. }
  rewrite Hq. fold (dff_ot y d). destruct (dff_ot y d) as [|b r] eqn:Eot; [done|]. apply Forall_cons in Hot as [Hb Hr].
  replace ((a :: p) ++ l_w1 y ++ 61 :: l_w2 y ++ kw_dffs (l_lc y) ++ 40 :: l_ob y 0 ++ codes d ++ l_oa y 0 ++ [41])%list
    with ((a :: p) ++ l_w1 y ++ 61 :: l_w2 y ++ kw_dffs (l_lc y) ++ 40 :: (b :: r) ++ [41])%list
    by (rewrite <- Eot; unfold dff_ot; by rewrite <- !app_assoc).
  repeat (rewrite <- app_assoc || rewrite <- app_comm_cons).
  repeat mstep. rewrite mt_cls_hit by exact Ha.
  refine (star_cls_greedy c_idc p (l_w1 y ++ 61 :: _) _ _ _ Hp _ _); [apply head_not; [by apply ws_all_not_idc|reflexivity]|cbv beta].
  match goal with |- context [take (length (a :: p ++ ?t) - length ?t) _] => change (a :: p ++ t)%list with ((a :: p) ++ t)%list; rewrite take_app_len end.
  repeat mstep.
  refine (star_cls_greedy c_ws (l_w1 y) (61 :: _) _ _ _ Hw1 _ _); [reflexivity|cbv beta]. repeat mstep.
  unfold kw_dffs. destruct (l_lc y).
  - change (codes "dff") with [100; 102; 102]. simpl app.
    refine (star_cls_greedy c_ws (l_w2 y) (100 :: _) _ _ _ Hw2 _ _); [reflexivity|cbv beta]. repeat mstep.
    rewrite mt_alt_r by none_tac. repeat mstep.
    match goal with |- context [take (length ?s - length (40 :: ?t)) ?s] =>
      let l1 := split_at s (40 :: t) in change s with (l1 ++ 40 :: t)%list; rewrite take_app_len end.
    unfold RPlus. repeat mstep. rewrite mt_cls_hit by exact Hb.
    refine (star_cls_greedy c_notrp r (41 :: rest) _ _ _ Hr _ _); [reflexivity|cbv beta].
    change (b :: r ++ 41 :: rest)%list with ((b :: r) ++ 41 :: rest)%list. rewrite take_app_len. repeat mstep. reflexivity.
  - change (codes "DFF") with [68; 70; 70]. simpl app.
    refine (star_cls_greedy c_ws (l_w2 y) (68 :: _) _ _ _ Hw2 _ _); [reflexivity|cbv beta]. repeat mstep.
    apply mt_alt_l. repeat mstep.
    match goal with |- context [take (length ?s - length (40 :: ?t)) ?s] =>
      let l1 := split_at s (40 :: t) in change s with (l1 ++ 40 :: t)%list; rewrite take_app_len end.
    unfold RPlus. repeat mstep. rewrite mt_cls_hit by exact Hb.
    refine (star_cls_greedy c_notrp r (41 :: rest) _ _ _ Hr _ _); [reflexivity|cbv beta].
    change (b :: r ++ 41 :: rest)%list with ((b :: r) ++ 41 :: rest)%list. rewrite take_app_len. repeat mstep. reflexivity.
Qed.

Definition gate_ot (y : lay) (ops : list string) : list nat := optext_lay (l_ob y) (l_oa y) 0 ops.
Lemma match_gate_lay net g ops y rest : ident net = true → g ∈ rd_alts → ops ≠ [] → Forall (λ o, ident o = true) ops → lay_ok y →
  match_here rd_re_gate (render_line_lay (BGate net g ops) y ++ rest) = Some (rest, [(3, gate_ot y ops); (2, codes g); (1, codes net)]).
Proof.
  intros (a & p & Hq & Ha & Hp)%ident_codes Hg Hne Hops (Hw1 & Hw2 & _ & Hob & Hoa). unfold match_here, render_line_lay, rd_re_gate.
  pose proof (optext_lay_notrp _ _ ops Hob Hoa Hops 0) as Hot. pose proof (optext_lay_ne (l_ob y) (l_oa y) ops 0 Hne Hops) as Hne'.
  fold (gate_ot y ops) in Hot, Hne' |- *. destruct (gate_ot y ops) as [|b r] eqn:Eot; [done|]. apply Forall_cons in Hot as [Hb Hr].
  rewrite Hq. repeat (rewrite <- app_assoc || rewrite <- app_comm_cons).
  repeat mstep. rewrite mt_cls_hit by exact Ha.
  refine (star_cls_greedy c_idc p (l_w1 y ++ 61 :: _) _ _ _ Hp _ _); [apply head_not; [by apply ws_all_not_idc|reflexivity]|cbv beta].
  match goal with |- context [take (length (a :: p ++ ?t) - length ?t) _] => change (a :: p ++ t)%list with ((a :: p) ++ t)%list; rewrite take_app_len end.
  repeat mstep.
  refine (star_cls_greedy c_ws (l_w1 y) (61 :: _) _ _ _ Hw1 _ _); [reflexivity|cbv beta]. repeat mstep.
  vm_compute in Hg.
  repeat (apply elem_of_cons in Hg as [->|Hg]); [..|by apply elem_of_nil in Hg].
  all: match goal with |- context [codes ?w] => let v := eval vm_compute in (codes w) in change (codes w) with v end; simpl app.
  all: refine (star_cls_greedy c_ws (l_w2 y) _ _ _ _ Hw2 _ _); [reflexivity|cbv beta].
  all: repeat mstep; repeat skip_alt; first [apply mt_alt_l|idtac]; repeat mstep.
  all: match goal with |- context [take (length ?s - length (40 :: ?t)) ?s] =>
         let l1 := split_at s (40 :: t) in change s with (l1 ++ 40 :: t)%list; rewrite take_app_len end.
  all: unfold RPlus; repeat mstep; rewrite mt_cls_hit by exact Hb.
  all: refine (star_cls_greedy c_notrp r (41 :: rest) _ _ _ Hr _ _); [reflexivity|cbv beta].
  all: change (b :: r ++ 41 :: rest)%list with ((b :: r) ++ 41 :: rest)%list; rewrite take_app_len; repeat mstep; reflexivity.
Qed.

(* ================= no false matches in laid-out statements ================= *)
Lemma ws_char_cls x : ws_char x → in_cls c_ws x = true.
Proof. exact id. Qed.
Definition nonws_head (y : list nat) : Prop := match y with x :: _ => in_cls c_ws x = false | [] => False end.
Lemma ws_nop w : Forall ws_char w → nop w.
Proof. intros H Hx. rewrite Forall_forall in H. destruct (ws_np 40 (H 40 Hx)) as [[? _] _]. done. Qed.
(* a statement is pre ( body ) followed by a whitespace gap; the head y ( of a match starting anywhere in it is a suffix of pre *)
Lemma head_in_pre_gap pre body gap a b rest y tl :
  nop pre → nop body → Forall ws_char gap → 41 ∉ y → nop y → nonws_head y →
  (pre ++ 40 :: body ++ 41 :: gap = a ++ b)%list → b ≠ [] → (b ++ rest = y ++ 40 :: tl)%list → ∃ a', pre = (a' ++ y)%list.
Proof.
  intros Hpre Hbody Hgap Hy41 Hy Hyh Hsplit Hb Heq.
  apply app_eq_app in Hsplit as [l [[-> Hl]|[-> Hl]]].
  - subst b. exists a. f_equal. apply nop_app in Hpre as [_ Hl]. rewrite <- app_assoc in Heq. simpl in Heq.
    by destruct (split_paren l y _ _ Hl Hy Heq) as [-> _].
  - exfalso. destruct l as [|x l].
    + simpl in Hl. subst b. simpl in Heq. destruct (split_paren [] y _ _ ltac:(unfold nop; set_solver) Hy Heq) as [<- _]. done.
    + simpl in Hl. injection Hl as <- Hl.
      assert (Hnb : nop b).
      { assert (nop (body ++ 41 :: gap)) as Hn. { apply nop_app. split; [done|]. intros [E|Hx]%elem_of_cons; [done|]. by apply (ws_nop gap). }
        rewrite Hl in Hn. by apply nop_app in Hn as [_ ?]. }
      destruct (prefix_paren b rest y tl Hnb Heq) as [z ->].
      apply app_eq_app in Hl as [l2 [[-> Hl]|[-> Hl]]].
      * apply Hy41. apply elem_of_app. left. rewrite Hl. apply elem_of_app. right. by left.
      * destruct l2 as [|x2 l2]; simpl in Hl.
        -- apply Hy41. apply elem_of_app. left. rewrite <- Hl. by left.
        -- injection Hl as <- Hl. destruct b as [|b0 b]; [done|]. change (in_cls c_ws b0 = false) in Hyh.
           assert (Hw : ws_char b0). { rewrite Forall_forall in Hgap. apply Hgap. rewrite Hl. apply elem_of_app. right. by left. }
           apply ws_char_cls in Hw. congruence.
Qed.

(* splitting whitespace off non-whitespace *)
Lemma split_ws_head (sp w g k : list nat) : Forall ws_char sp → Forall ws_char w → nonws_head g → nonws_head k →
  (sp ++ g = w ++ k)%list → sp = w ∧ g = k.
Proof.
  revert w. induction sp as [|x sp IH]; intros [|z w] Hsp Hw Hg Hk H; simpl in H.
  - done.
  - exfalso. subst g. change (in_cls c_ws z = false) in Hg. apply Forall_cons in Hw as [Hz _]. apply ws_char_cls in Hz. congruence.
  - exfalso. subst k. change (in_cls c_ws x = false) in Hk. apply Forall_cons in Hsp as [Hx _]. apply ws_char_cls in Hx. congruence.
  - injection H as -> H. apply Forall_cons in Hsp as [_ Hsp]. apply Forall_cons in Hw as [_ Hw].
    destruct (IH w Hsp Hw Hg Hk H) as [-> ->]. done.
Qed.
Lemma rev_ws w : Forall ws_char w → Forall ws_char (rev w).
Proof. intros H. apply Forall_forall. intros x Hx. rewrite Forall_forall in H. apply H. apply elem_of_list_In. apply in_rev. by apply elem_of_list_In. Qed.
Lemma split_ws_tail (x z sp w : list nat) c1 c2 x' z' : x = (x' ++ [c1])%list → z = (z' ++ [c2])%list →
  in_cls c_ws c1 = false → in_cls c_ws c2 = false → Forall ws_char sp → Forall ws_char w →
  (x ++ sp = z ++ w)%list → sp = w ∧ x = z.
Proof.
  intros -> -> Hc1 Hc2 Hsp Hw H. apply (f_equal (@rev nat)) in H. rewrite !rev_app_distr in H. simpl in H.
  destruct (split_ws_head (rev sp) (rev w) (c1 :: rev x') (c2 :: rev z')) as [E1 E2]; try done; try (by apply rev_ws).
  apply (f_equal (@rev nat)) in E1. rewrite !rev_involutive in E1. split; [done|].
  injection E2 as -> E2. apply (f_equal (@rev nat)) in E2. rewrite !rev_involutive in E2. by rewrite E2.
Qed.
Lemma suffix_char (c : nat) (a' kw X G : list nat) : (a' ++ kw = X ++ c :: G)%list → length G < length kw → c ∈ kw.
Proof.
  intros H Hlen. apply app_eq_app in H as [l [[-> H]|[-> H]]].
  - destruct l as [|x l]; simpl in H; [subst kw; by left|]. injection H as -> H. subst G. rewrite app_length in Hlen. lia.
  - rewrite H. apply elem_of_app. right. by left.
Qed.

Definition pre_lay (l : bline) (y : lay) : list nat :=
  match l with
  | BInput _ => (kw_input (l_lc y) ++ l_w1 y)%list | BOutput _ => (kw_output (l_lc y) ++ l_w1 y)%list
  | BGate net g _ => ((codes net ++ l_w1 y ++ 61 :: l_w2 y) ++ codes g)%list
  | BDff q _ => ((codes q ++ l_w1 y ++ 61 :: l_w2 y) ++ kw_dffs (l_lc y))%list end.
Definition body_lay (l : bline) (y : lay) : list nat :=
  match l with
  | BInput n | BOutput n => (l_w2 y ++ codes n ++ l_w3 y)%list
  | BGate _ _ ops => gate_ot y ops | BDff _ d => dff_ot y d end.
Lemma line_lay_split l y : render_line_lay l y = (pre_lay l y ++ 40 :: body_lay l y ++ [41])%list.
Proof. destruct l; unfold render_line_lay, pre_lay, body_lay, gate_ot, dff_ot; repeat (rewrite <- app_assoc || rewrite <- app_comm_cons); reflexivity. Qed.

Lemma kw_in_mem lc : kw_input lc ∈ kw_in. Proof. destruct lc; [right; left|left]. Qed.
Lemma kw_out_mem lc : kw_output lc ∈ kw_out. Proof. destruct lc; [right; left|left]. Qed.
Lemma kw_dff_mem lc : kw_dffs lc ∈ kw_dff. Proof. destruct lc; [right; left|left]. Qed.
Lemma kw_all_in lc : kw_input lc ∈ (kw_in ++ kw_out ++ kw_dff ++ kw_gate)%list. Proof. rewrite !elem_of_app. left. apply kw_in_mem. Qed.
Lemma kw_all_out lc : kw_output lc ∈ (kw_in ++ kw_out ++ kw_dff ++ kw_gate)%list. Proof. rewrite !elem_of_app. right. left. apply kw_out_mem. Qed.
Lemma kw_all_dff lc : kw_dffs lc ∈ (kw_in ++ kw_out ++ kw_dff ++ kw_gate)%list. Proof. rewrite !elem_of_app. right. right. left. apply kw_dff_mem. Qed.
Lemma kw_nop k : k ∈ (kw_in ++ kw_out ++ kw_dff ++ kw_gate)%list → nop k.
Proof. intros Hk Hx. destruct (kw_char k 40 Hk Hx) as ([? _] & _). done. Qed.
Lemma ident_nop n : ident n = true → nop (codes n).
Proof. intros H Hx. destruct (ident_chars n 40 H Hx) as ([? _] & _). done. Qed.
Lemma notrp_nop w : Forall (λ x, in_cls c_notrp x = true) w → Forall (λ x, x ≠ 41) w.
Proof. intros H. eapply Forall_impl; [exact H|]. intros x Hx ->. done. Qed.
Lemma blanks_nop w : Forall blank_char w → nop w.
Proof. intros H. apply ws_nop. eapply Forall_impl; [exact H|]. apply blank_ws. Qed.
Lemma optext_lay_nop ob oa ops : (∀ i, Forall blank_char (ob i)) → (∀ i, Forall blank_char (oa i)) → Forall (λ o, ident o = true) ops →
  ∀ i, nop (optext_lay ob oa i ops).
Proof.
  intros Hb Ha Hops. induction Hops as [|o r Ho Hr IH]; intros i; [unfold nop; set_solver|]. destruct r as [|o2 r'].
  - simpl. rewrite !nop_app. auto using blanks_nop, ident_nop.
  - change (optext_lay ob oa i (o :: o2 :: r')) with (ob i ++ codes o ++ oa i ++ 44 :: optext_lay ob oa (S i) (o2 :: r'))%list.
    rewrite !nop_app. split; [by apply blanks_nop|]. split; [by apply ident_nop|]. split; [by apply blanks_nop|].
    intros [E|Hx]%elem_of_cons; [done|]. by apply (IH (S i)).
Qed.
Lemma canon_lay_nop l y : canon l → lay_ok y → nop (pre_lay l y) ∧ nop (body_lay l y).
Proof.
  intros Hc (Hw1 & Hw2 & Hw3 & Hob & Hoa). destruct l as [n|n|net g ops|q d]; simpl in Hc; unfold pre_lay, body_lay.
  - rewrite !nop_app. auto using ws_nop, ident_nop, kw_nop, kw_all_in.
  - rewrite !nop_app. auto using ws_nop, ident_nop, kw_nop, kw_all_out.
  - destruct Hc as (Hn & Hg & Hne & Hops). rewrite !nop_app. split; [|by apply optext_lay_nop].
    split; [|apply kw_nop, in_gate_kw; by apply elem_of_list_fmap_1]. split; [by apply ident_nop|]. split; [by apply ws_nop|].
    intros [E|Hx]%elem_of_cons; [done|]. by apply (ws_nop (l_w2 y)).
  - destruct Hc as [Hq Hd]. unfold dff_ot. rewrite !nop_app. split; [|auto using blanks_nop, ident_nop].
    split; [|apply kw_nop, kw_all_dff]. split; [by apply ident_nop|]. split; [by apply ws_nop|].
    intros [E|Hx]%elem_of_cons; [done|]. by apply (ws_nop (l_w2 y)).
Qed.

Lemma unit_shape l y gap : (render_line_lay l y ++ gap = pre_lay l y ++ 40 :: body_lay l y ++ 41 :: gap)%list.
Proof. rewrite line_lay_split. repeat (rewrite <- app_assoc || rewrite <- app_comm_cons). reflexivity. Qed.

Lemma kw_head_lay l y gap a b rest kw sp tl : canon l → lay_ok y → Forall ws_char gap →
  kw ∈ (kw_in ++ kw_out ++ kw_dff ++ kw_gate)%list → kw ≠ [] → is_ws sp →
  (render_line_lay l y ++ gap = a ++ b)%list → b ≠ [] → (b ++ rest = kw ++ sp ++ 40 :: tl)%list →
  ∃ a', pre_lay l y = (a' ++ kw ++ sp)%list.
Proof.
  intros Hc Hy Hgap Hkw Hne Hsp Hsplit Hb Heq. destruct (canon_lay_nop l y Hc Hy) as [Hp Hbd]. rewrite unit_shape in Hsplit.
  assert (Hyc : ∀ x, x ∈ (kw ++ sp)%list → np x).
  { intros x [Hx|Hx]%elem_of_app; [by destruct (kw_char kw x Hkw Hx) as (? & _)|].
    unfold is_ws in Hsp. rewrite Forall_forall in Hsp. by apply ws_np, Hsp. }
  destruct (head_in_pre_gap (pre_lay l y) (body_lay l y) gap a b rest (kw ++ sp) tl) as [a' Ha']; try done.
  - intros Hx. by destruct (Hyc 41 Hx).
  - intros Hx. by destruct (Hyc 40 Hx).
  - destruct kw as [|k0 kw']; [done|]. simpl. by destruct (kw_char (k0 :: kw') k0 Hkw ltac:(by left)) as (_ & _ & _ & _ & ?).
  - by rewrite <- app_assoc.
  - by exists a'.
Qed.

(* the part of an assignment statement before its keyword ends with a blank or with '=' *)
Lemma assign_last (X w1 w2 : list nat) : Forall ws_char w2 → ∃ X' c, (X ++ w1 ++ 61 :: w2 = X' ++ [c])%list ∧ (ws_char c ∨ c = 61).
Proof.
  intros Hw. destruct w2 as [|c w2'] using rev_ind.
  - exists (X ++ w1)%list, 61. split; [by rewrite <- app_assoc|by right].
  - exists (X ++ w1 ++ 61 :: w2')%list, c. split; [by repeat (rewrite <- app_assoc || rewrite <- app_comm_cons)|].
    left. apply Forall_app in Hw as [_ Hc]. by apply Forall_cons in Hc as [? _].
Qed.
Lemma kw_last k : k ∈ (kw_in ++ kw_out ++ kw_dff ++ kw_gate)%list → k ≠ [] → ∃ k' c, k = (k' ++ [c])%list ∧ in_cls c_ws c = false.
Proof.
  intros Hk Hne. destruct k as [|c k'] using rev_ind; [done|]. exists k', c. split; [done|].
  by destruct (kw_char _ c Hk ltac:(apply elem_of_app; right; by left)) as (_ & _ & _ & _ & ?).
Qed.
Lemma kw_ne k : k ∈ (kw_in ++ kw_out ++ kw_dff ++ kw_gate)%list → k ≠ [].
Proof.
  assert (H : Forall (λ k : list nat, k ≠ []) (kw_in ++ kw_out ++ kw_dff ++ kw_gate)) by (apply (bool_decide_unpack _); vm_compute; exact I).
  rewrite Forall_forall in H. apply H.
Qed.
(* a keyword of letters cannot end where an assignment statement's keyword (at most 4 letters) ends *)
Lemma kw_not_assign_suffix a' kw X w1 w2 G : kw ∈ (kw_in ++ kw_out)%list → Forall ws_char w2 → length G ≤ 4 →
  (a' ++ kw = (X ++ w1 ++ 61 :: w2) ++ G)%list → False.
Proof.
  intros Hkw Hw2 HG H. destruct (assign_last X w1 w2 Hw2) as (X' & c & HX & Hc). rewrite HX in H. rewrite <- app_assoc in H. simpl in H.
  assert (Hkw' : kw ∈ (kw_in ++ kw_out ++ kw_dff ++ kw_gate)%list) by (rewrite !elem_of_app in *; tauto).
  assert (Hlen : 5 ≤ length kw).
  { unfold kw_in, kw_out in Hkw. simpl in Hkw. rewrite !elem_of_cons, elem_of_nil in Hkw. destruct Hkw as [->|[->|[->|[->|[]]]]]; simpl; lia. }
  pose proof (suffix_char c a' kw X' G H ltac:(lia)) as Hin.
  destruct (kw_char kw c Hkw' Hin) as (_ & H61 & _ & _ & Hnw). destruct Hc as [Hc| ->]; [|done]. apply ws_char_cls in Hc. congruence.
Qed.

Lemma is_ws_char sp : is_ws sp → Forall ws_char sp. Proof. done. Qed.
Lemma kw_in_out_all kw : kw ∈ (kw_in ++ kw_out)%list → kw ∈ (kw_in ++ kw_out ++ kw_dff ++ kw_gate)%list.
Proof. rewrite !elem_of_app. tauto. Qed.

(* INPUT / OUTPUT patterns on statements of another kind: shared analysis; kws is the pattern's keyword list *)
Lemma nomatch_io_lay l y gap a b rest kw sp tl : canon l → lay_ok y → Forall ws_char gap →
  kw ∈ (kw_in ++ kw_out)%list → is_ws sp →
  (render_line_lay l y ++ gap = a ++ b)%list → b ≠ [] → (b ++ rest = kw ++ sp ++ 40 :: tl)%list →
  (∃ a' lc n, (l = BInput n ∧ (a' ++ kw = kw_input lc)%list) ∨ (l = BOutput n ∧ (a' ++ kw = kw_output lc)%list)).
Proof.
  intros Hc Hy Hgap Hkw Hsp Hsplit Hb Heq. pose proof (kw_in_out_all kw Hkw) as Hkw'.
  destruct (kw_head_lay l y gap a b rest kw sp tl Hc Hy Hgap Hkw' (kw_ne _ Hkw') Hsp Hsplit Hb Heq) as [a' Ha'].
  destruct (kw_last kw Hkw' (kw_ne _ Hkw')) as (k' & c1 & Hk & Hc1). destruct Hy as (Hw1 & Hw2 & _).
  destruct l as [n|n|net g ops|q d]; unfold pre_lay in Ha'.
  - destruct (kw_last _ (kw_all_in (l_lc y)) (kw_ne _ (kw_all_in _))) as (z' & c2 & Hz & Hc2).
    destruct (split_ws_tail (a' ++ kw) (kw_input (l_lc y)) sp (l_w1 y) c1 c2 (a' ++ k') z') as [_ E]; try done.
    { rewrite Hk. by rewrite app_assoc. } { by rewrite <- app_assoc. }
    exists a', (l_lc y), n. by left.
  - destruct (kw_last _ (kw_all_out (l_lc y)) (kw_ne _ (kw_all_out _))) as (z' & c2 & Hz & Hc2).
    destruct (split_ws_tail (a' ++ kw) (kw_output (l_lc y)) sp (l_w1 y) c1 c2 (a' ++ k') z') as [_ E]; try done.
    { rewrite Hk. by rewrite app_assoc. } { by rewrite <- app_assoc. }
    exists a', (l_lc y), n. by right.
  - exfalso. destruct Hc as (_ & Hg & _). assert (Hkg : codes g ∈ kw_gate) by (by apply elem_of_list_fmap_1).
    destruct (kw_last _ (in_gate_kw _ Hkg) (kw_ne _ (in_gate_kw _ Hkg))) as (g' & c2 & Hg2 & Hc2).
    assert (sp = []) as ->. { apply (tail_nonws a' kw sp ((codes net ++ l_w1 y ++ 61 :: l_w2 y) ++ g') c2 Hsp Hc2). rewrite <- Ha', Hg2. by rewrite app_assoc. }
    rewrite app_nil_r in Ha'. pose proof kw_gate_facts as Hf. rewrite Forall_forall in Hf. destruct (Hf _ Hkg) as [_ Hl4].
    by eapply (kw_not_assign_suffix a' kw (codes net) (l_w1 y) (l_w2 y) (codes g)).
  - exfalso. destruct (kw_last _ (kw_all_dff (l_lc y)) (kw_ne _ (kw_all_dff _))) as (g' & c2 & Hg2 & Hc2).
    assert (sp = []) as ->. { apply (tail_nonws a' kw sp ((codes q ++ l_w1 y ++ 61 :: l_w2 y) ++ g') c2 Hsp Hc2). rewrite <- Ha', Hg2. by rewrite app_assoc. }
    rewrite app_nil_r in Ha'. eapply (kw_not_assign_suffix a' kw (codes q) (l_w1 y) (l_w2 y) (kw_dffs (l_lc y))); try done.
    destruct (l_lc y); simpl; lia.
Qed.

Lemma nomatch_input_lay l y gap a b rest : canon l → lay_ok y → Forall ws_char gap → (∀ n, l ≠ BInput n) →
  (render_line_lay l y ++ gap = a ++ b)%list → b ≠ [] → match_here rd_re_input (b ++ rest) = None.
Proof.
  intros Hc Hy Hgap Hk Hsplit Hb. destruct (match_here rd_re_input (b ++ rest)) as [[r cs]|] eqn:E; [exfalso|done].
  apply shape_input in E as (kw & sp & tl & Heq & Hkw & Hsp).
  destruct (nomatch_io_lay l y gap a b rest kw sp tl Hc Hy Hgap ltac:(apply elem_of_app; by left) Hsp Hsplit Hb Heq) as (a' & lc & n & [[-> _]|[-> E]]).
  - by eapply Hk.
  - unfold kw_in in Hkw. rewrite !elem_of_cons, elem_of_nil in Hkw. unfold kw_output in E.
    destruct lc; [change (codes "output") with [111; 117; 116; 112; 117; 116] in E|change (codes "OUTPUT") with [79; 85; 84; 80; 85; 84] in E];
      destruct Hkw as [->|[->|[]]]; rev_eq E; discriminate.
Qed.
Lemma nomatch_output_lay l y gap a b rest : canon l → lay_ok y → Forall ws_char gap → (∀ n, l ≠ BOutput n) →
  (render_line_lay l y ++ gap = a ++ b)%list → b ≠ [] → match_here rd_re_output (b ++ rest) = None.
Proof.
  intros Hc Hy Hgap Hk Hsplit Hb. destruct (match_here rd_re_output (b ++ rest)) as [[r cs]|] eqn:E; [exfalso|done].
  apply shape_output in E as (kw & sp & tl & Heq & Hkw & Hsp).
  destruct (nomatch_io_lay l y gap a b rest kw sp tl Hc Hy Hgap ltac:(apply elem_of_app; by right) Hsp Hsplit Hb Heq) as (a' & lc & n & [[-> E]|[-> _]]).
  - unfold kw_out in Hkw. rewrite !elem_of_cons, elem_of_nil in Hkw. unfold kw_input in E.
    destruct lc; [change (codes "input") with [105; 110; 112; 117; 116] in E|change (codes "INPUT") with [73; 78; 80; 85; 84] in E];
      destruct Hkw as [->|[->|[]]]; apply (f_equal length) in E; rewrite app_length in E; simpl in E; lia.
  - by eapply Hk.
Qed.

Lemma assign_head_lay l y gap a b rest id sp1 sp2 g tl : canon l → lay_ok y → Forall ws_char gap →
  is_id id → is_ws sp1 → is_ws sp2 → g ∈ (kw_in ++ kw_out ++ kw_dff ++ kw_gate)%list →
  (render_line_lay l y ++ gap = a ++ b)%list → b ≠ [] → (b ++ rest = id ++ sp1 ++ 61 :: sp2 ++ g ++ 40 :: tl)%list →
  ∃ a', pre_lay l y = (a' ++ id ++ sp1 ++ 61 :: sp2 ++ g)%list.
Proof.
  intros Hc Hy Hgap (i0 & ip & -> & Hi0 & Hip) Hsp1 Hsp2 Hg Hsplit Hb Heq. destruct (canon_lay_nop l y Hc Hy) as [Hp Hbd]. rewrite unit_shape in Hsplit.
  set (h := ((i0 :: ip) ++ sp1 ++ 61 :: sp2 ++ g)%list).
  assert (Hh : ∀ x, x ∈ h → np x).
  { unfold h. intros x Hx. rewrite !elem_of_app in Hx. unfold is_ws in *. rewrite Forall_forall in Hsp1, Hsp2, Hip.
    destruct Hx as [Hx|[Hx|Hx]].
    - apply elem_of_cons in Hx as [->|Hx]; [by apply idc_np, alpha_idc|by apply idc_np, Hip].
    - by apply ws_np, Hsp1.
    - apply elem_of_cons in Hx as [->|Hx]; [unfold np; lia|]. apply elem_of_app in Hx as [Hx|Hx]; [by apply ws_np, Hsp2|].
      by destruct (kw_char g x Hg Hx) as (? & _). }
  destruct (head_in_pre_gap (pre_lay l y) (body_lay l y) gap a b rest h tl) as [a' Ha']; try done.
  - intros Hx. by destruct (Hh 41 Hx).
  - intros Hx. by destruct (Hh 40 Hx).
  - unfold h. simpl. by apply alpha_not_ws.
  - unfold h. rewrite Heq. repeat (rewrite <- app_assoc || rewrite <- app_comm_cons). reflexivity.
  - exists a'. by rewrite Ha'.
Qed.
Lemma gate_dff_disjoint k : k ∈ kw_gate → k ∈ kw_dff → False.
Proof.
  assert (H : Forall (λ k : list nat, k ∉ kw_dff) kw_gate) by (apply (bool_decide_unpack _); vm_compute; exact I).
  rewrite Forall_forall in H. intros Hk. by apply H.
Qed.
Lemma kw_nonws_head k : k ∈ (kw_in ++ kw_out ++ kw_dff ++ kw_gate)%list → nonws_head k.
Proof.
  intros Hk. pose proof (kw_ne k Hk). destruct k as [|c k']; [done|]. simpl.
  by destruct (kw_char _ c Hk ltac:(by left)) as (_ & _ & _ & _ & ?).
Qed.
Lemma no61_kw_ws (w k : list nat) : Forall ws_char w → k ∈ (kw_in ++ kw_out ++ kw_dff ++ kw_gate)%list → 61 ∉ (w ++ k)%list.
Proof.
  intros Hw Hk [Hx|Hx]%elem_of_app.
  - rewrite Forall_forall in Hw. destruct (ws_np 61 (Hw 61 Hx)) as [_ ?]. done.
  - by destruct (kw_char k 61 Hk Hx) as (_ & ? & _).
Qed.

Lemma nomatch_gate_lay l y gap a b rest : canon l → lay_ok y → Forall ws_char gap → (∀ n g ops, l ≠ BGate n g ops) →
  (render_line_lay l y ++ gap = a ++ b)%list → b ≠ [] → match_here rd_re_gate (b ++ rest) = None.
Proof.
  intros Hc Hy Hgap Hk Hsplit Hb. destruct (match_here rd_re_gate (b ++ rest)) as [[r cs]|] eqn:E; [exfalso|done].
  apply shape_gate in E as (id & sp1 & sp2 & g & tl & Heq & Hid & Hsp1 & Hsp2 & Hg).
  destruct (assign_head_lay l y gap a b rest id sp1 sp2 g tl Hc Hy Hgap Hid Hsp1 Hsp2 (in_gate_kw _ Hg) Hsplit Hb Heq) as [a' Ha'].
  assert (H61 : 61 ∈ pre_lay l y). { rewrite Ha'. rewrite !elem_of_app. right. right. right. by left. }
  pose proof Hy as (Hw1 & Hw2 & _).
  destruct l as [n|n|net g0 ops|q d]; unfold pre_lay in Ha', H61.
  - by apply (no61_kw_ws (l_w1 y) (kw_input (l_lc y)) Hw1 (kw_all_in _)) in H61 || (apply elem_of_app in H61 as [H61|H61];
      [by destruct (kw_char _ 61 (kw_all_in (l_lc y)) H61) as (_ & ? & _)|rewrite Forall_forall in Hw1; by destruct (ws_np 61 (Hw1 61 H61))]).
  - apply elem_of_app in H61 as [H61|H61];
      [by destruct (kw_char _ 61 (kw_all_out (l_lc y)) H61) as (_ & ? & _)|rewrite Forall_forall in Hw1; by destruct (ws_np 61 (Hw1 61 H61))].
  - by eapply Hk.
  - assert (Ht : (sp2 ++ g)%list = (l_w2 y ++ kw_dffs (l_lc y))%list).
    { apply (split_last 61 ((a' ++ id) ++ sp1) (codes q ++ l_w1 y)).
      - by apply no61_kw_ws, in_gate_kw.
      - apply no61_kw_ws; [done|apply kw_all_dff].
      - repeat (rewrite <- app_assoc || rewrite <- app_comm_cons). rewrite <- Ha'. by repeat (rewrite <- app_assoc || rewrite <- app_comm_cons). }
    apply split_ws_head in Ht as [_ ->]; try done; [|by apply kw_nonws_head, in_gate_kw|apply kw_nonws_head, kw_all_dff].
    eapply gate_dff_disjoint; [exact Hg|apply kw_dff_mem].
Qed.
Lemma nomatch_dff_lay l y gap a b rest : canon l → lay_ok y → Forall ws_char gap → (∀ q d, l ≠ BDff q d) →
  (render_line_lay l y ++ gap = a ++ b)%list → b ≠ [] → match_here rd_re_dff (b ++ rest) = None.
Proof.
  intros Hc Hy Hgap Hk Hsplit Hb. destruct (match_here rd_re_dff (b ++ rest)) as [[r cs]|] eqn:E; [exfalso|done].
  apply shape_dff in E as (id & sp1 & sp2 & g & tl & Heq & Hid & Hsp1 & Hsp2 & Hg).
  assert (Hg' : g ∈ (kw_in ++ kw_out ++ kw_dff ++ kw_gate)%list) by (rewrite !elem_of_app; auto).
  destruct (assign_head_lay l y gap a b rest id sp1 sp2 g tl Hc Hy Hgap Hid Hsp1 Hsp2 Hg' Hsplit Hb Heq) as [a' Ha'].
  assert (H61 : 61 ∈ pre_lay l y). { rewrite Ha'. rewrite !elem_of_app. right. right. right. by left. }
  pose proof Hy as (Hw1 & Hw2 & _).
  destruct l as [n|n|net g0 ops|q d]; unfold pre_lay in Ha', H61.
  - apply elem_of_app in H61 as [H61|H61];
      [by destruct (kw_char _ 61 (kw_all_in (l_lc y)) H61) as (_ & ? & _)|rewrite Forall_forall in Hw1; by destruct (ws_np 61 (Hw1 61 H61))].
  - apply elem_of_app in H61 as [H61|H61];
      [by destruct (kw_char _ 61 (kw_all_out (l_lc y)) H61) as (_ & ? & _)|rewrite Forall_forall in Hw1; by destruct (ws_np 61 (Hw1 61 H61))].
  - destruct Hc as (_ & Hg0 & _). assert (Hkg : codes g0 ∈ kw_gate) by (by apply elem_of_list_fmap_1).
    assert (Ht : (sp2 ++ g)%list = (l_w2 y ++ codes g0)%list).
    { apply (split_last 61 ((a' ++ id) ++ sp1) (codes net ++ l_w1 y)).
      - by apply no61_kw_ws.
      - by apply no61_kw_ws, in_gate_kw.
      - repeat (rewrite <- app_assoc || rewrite <- app_comm_cons). rewrite <- Ha'. by repeat (rewrite <- app_assoc || rewrite <- app_comm_cons). }
    apply split_ws_head in Ht as [_ ->]; try done; [|by apply kw_nonws_head|by apply kw_nonws_head, in_gate_kw].
    by eapply gate_dff_disjoint.
  - by eapply Hk.
Qed.

(* ================= findall over a laid-out text ================= *)
Lemma ws_le32 x : ws_char x → x ≤ 32.
Proof.
  unfold ws_char, in_cls, existsb. simpl fst. simpl snd. rewrite xorb_false_l, orb_false_r. intros H.
  apply orb_true_iff in H as [H|H]; apply andb_true_iff in H as [_ H2]; apply Nat.leb_le in H2; lia.
Qed.
Lemma ws_not_alpha x : ws_char x → in_cls c_alpha x = false.
Proof. intros H. destruct (in_cls c_alpha x) eqn:E; [|done]. apply alpha_not_ws in E. apply ws_char_cls in H. congruence. Qed.
Lemma ws_first_input x rest : ws_char x → match_here rd_re_input (x :: rest) = None.
Proof.
  intros H%ws_le32. unfold match_here, rd_re_input. rewrite mt_seq. rewrite mt_alt_r; [|rewrite mt_seq; apply mt_lit_miss; lia].
  rewrite mt_seq. apply mt_lit_miss. lia.
Qed.
Lemma ws_first_output x rest : ws_char x → match_here rd_re_output (x :: rest) = None.
Proof.
  intros H%ws_le32. unfold match_here, rd_re_output. rewrite mt_seq. rewrite mt_alt_r; [|rewrite mt_seq; apply mt_lit_miss; lia].
  rewrite mt_seq. apply mt_lit_miss. lia.
Qed.
Lemma ws_first_gate x rest : ws_char x → match_here rd_re_gate (x :: rest) = None.
Proof. intros H%ws_not_alpha. unfold match_here, rd_re_gate. rewrite mt_seq, mt_grp, mt_seq. by apply mt_cls_miss. Qed.
Lemma ws_first_dff x rest : ws_char x → match_here rd_re_dff (x :: rest) = None.
Proof. intros H%ws_not_alpha. unfold match_here, rd_re_dff. rewrite mt_seq, mt_grp, mt_seq. by apply mt_cls_miss. Qed.

Lemma gap_skip rx (gap R : list nat) : (∀ x rest, ws_char x → match_here rx (x :: rest) = None) → Forall ws_char gap →
  ∀ n, length gap ≤ n → findall_n n rx (gap ++ R) = findall_n (n - length gap) rx R.
Proof.
  intros Hws Hgap n Hn. apply (findall_skip rx gap R) with (a := []); [|done|done].
  intros a b -> Hb. destruct b as [|x b']; [done|]. simpl. apply Hws. apply Forall_app in Hgap as [_ Hg]. by apply Forall_cons in Hg as [? _].
Qed.

Definition unit := (bline * lay * list nat)%type.
Definition unit_ok (u : unit) : Prop := canon u.1.1 ∧ lay_ok u.1.2 ∧ Forall ws_char u.2.
Definition unit_text (u : unit) : list nat := (render_line_lay u.1.1 u.1.2 ++ u.2)%list.
Definition units_text (us : list unit) : list nat := us ≫= unit_text.
Lemma line_lay_pos l y : 0 < length (render_line_lay l y).
Proof. rewrite line_lay_split, app_length. simpl. lia. Qed.

Lemma findall_units rx (isk : bline → bool) (cap : unit → caps) :
  (∀ u rest, unit_ok u → isk u.1.1 = true → match_here rx (render_line_lay u.1.1 u.1.2 ++ rest) = Some (rest, cap u)) →
  (∀ u a b rest, unit_ok u → isk u.1.1 = false → (unit_text u = a ++ b)%list → b ≠ [] → match_here rx (b ++ rest) = None) →
  (∀ x rest, ws_char x → match_here rx (x :: rest) = None) →
  ∀ us, Forall unit_ok us → ∀ n, length (units_text us) ≤ n →
  findall_n n rx (units_text us) = cap <$> filter (λ u, isk u.1.1 = true) us.
Proof.
  intros Hyes Hno Hws us Hok. induction Hok as [|u us Hu Hus IH]; intros n Hn.
  - destruct n; done.
  - unfold units_text in *. rewrite bind_cons in *. fold (units_text us) in *. rewrite app_length in Hn. rewrite filter_cons.
    destruct (isk u.1.1) eqn:Ek.
    + rewrite decide_True by done. rewrite fmap_cons. unfold unit_text in *. rewrite app_length in Hn. rewrite <- app_assoc.
      pose proof (line_lay_pos u.1.1 u.1.2) as Hpos. destruct n as [|n]; [lia|].
      rewrite (findall_hit rx _ _ _ n (Hyes u _ Hu Ek)) by (rewrite !app_length; lia).
      f_equal. destruct Hu as (_ & _ & Hgap). rewrite (gap_skip rx u.2 _ Hws Hgap) by lia. apply IH. lia.
    + rewrite decide_False by done.
      rewrite (findall_skip rx (unit_text u) (units_text us) (λ a b HL Hb, Hno u a b (units_text us) Hu Ek HL Hb) _ [] n eq_refl) by lia.
      apply IH. lia.
Qed.

(* ================= comment removal on a laid-out text ================= *)
Lemma delete_fuel rx : ∀ n m s, length s ≤ n → length s ≤ m → delete_n n rx s = delete_n m rx s.
Proof.
  induction n as [|n IH]; intros m s Hn Hm.
  - destruct s; [by destruct m|simpl in Hn; lia].
  - destruct m as [|m]; [destruct s; [done|simpl in Hm; lia]|]. destruct s as [|x s1]; [done|]. simpl in Hn, Hm. simpl delete_n.
    destruct (match_here rx (x :: s1)) as [[rest cs]|]; [|f_equal; apply IH; lia].
    destruct (length rest <? S (length s1))%nat eqn:E; [|f_equal; apply IH; lia].
    apply Nat.ltb_lt in E. apply IH; lia.
Qed.
Lemma del_keep x s n : x ≠ 35 → delete_n (S n) rd_re_comment (x :: s) = x :: delete_n n rd_re_comment s.
Proof.
  intros Hx. simpl delete_n.
  assert (Hm : match_here rd_re_comment (x :: s) = None). { unfold match_here, rd_re_comment. rewrite mt_seq. apply mt_lit_miss. lia. }
  by rewrite Hm.
Qed.
Lemma del_plain (s R : list nat) : (∀ x, x ∈ s → x ≠ 35) → ∀ n, length s ≤ n →
  delete_n n rd_re_comment (s ++ R) = (s ++ delete_n (n - length s) rd_re_comment R)%list.
Proof.
  induction s as [|x s IH]; intros Hs n Hn; [simpl; by rewrite Nat.sub_0_r|].
  destruct n as [|n]; [simpl in Hn; lia|]. simpl app. rewrite del_keep by (apply Hs; by left). simpl length. simpl Nat.sub.
  f_equal. apply IH; [intros y Hy; apply Hs; by right|simpl in Hn; lia].
Qed.
Definition c_notnl := Cl true [(10, 10)].
Lemma del_comment (c R : list nat) n : 10 ∉ c →
  delete_n (S n) rd_re_comment (35 :: c ++ 10 :: R) = delete_n n rd_re_comment (10 :: R).
Proof.
  intros Hc. simpl delete_n.
  assert (Hm : match_here rd_re_comment (35 :: c ++ 10 :: R) = Some (10 :: R, [])).
  { unfold match_here, rd_re_comment. rewrite mt_seq, mt_lit. cbv beta.
    refine (star_cls_greedy c_notnl c (10 :: R) _ _ _ _ _ _); [|reflexivity|reflexivity].
    apply Forall_forall. intros x Hx. unfold c_notnl, in_cls, existsb. simpl fst. simpl snd. rewrite orb_false_r.
    apply negb_true_iff, andb_false_iff. assert (x ≠ 10) by (intros ->; done).
    destruct (decide (x ≤ 10)); [left; apply Nat.leb_gt; lia|right; apply Nat.leb_gt; lia]. }
  rewrite Hm. match goal with |- (if ?b then _ else _) = _ => assert (b = true) as -> end; [|done].
  apply Nat.ltb_lt. simpl. rewrite app_length. simpl. lia.
Qed.
Lemma ws_no35 w x : Forall ws_char w → x ∈ w → x ≠ 35.
Proof. intros H Hx. rewrite Forall_forall in H. pose proof (ws_le32 x (H x Hx)). lia. Qed.
(* removing the comments of a gap leaves its whitespace, each comment replaced by the newline that ended it *)
Lemma del_gap (g : list seg) (R Rp : list nat) : Forall seg_ok g →
  (∀ n, length R ≤ n → delete_n n rd_re_comment R = Rp) →
  ∀ n, length (render_gap g ++ R) ≤ n → delete_n n rd_re_comment (render_gap g ++ R) = (gap_plain g ++ Rp)%list.
Proof.
  intros Hg HR. induction Hg as [|s g Hs Hg IH]; intros n Hn; [by apply HR|].
  unfold render_gap, gap_plain in *. rewrite !bind_cons in *. fold (render_gap g) (gap_plain g) in *.
  rewrite <- !app_assoc in *. rewrite app_length in Hn. destruct s as [w|c]; simpl in *.
  - rewrite del_plain by (eauto using ws_no35 || lia). f_equal. apply IH. lia.
  - rewrite <- app_assoc in *. simpl in *. destruct n as [|n]; [lia|]. rewrite del_comment by done.
    assert (Hlc : length (c ++ [10]) = length c + 1) by apply app_length.
    destruct n as [|n]; [lia|]. rewrite del_keep by lia. f_equal. apply IH. lia.
Qed.

(* no comment character inside a laid-out statement *)
Lemma kw_all_no35 : Forall (Forall (λ x, x ≠ 35)) (kw_in ++ kw_out ++ kw_dff ++ kw_gate).
Proof. apply (bool_decide_unpack _). vm_compute. exact I. Qed.
Lemma kw_no35 k x : k ∈ (kw_in ++ kw_out ++ kw_dff ++ kw_gate)%list → x ∈ k → x ≠ 35.
Proof. intros Hk Hx. pose proof kw_all_no35 as H. rewrite Forall_forall in H. specialize (H k Hk). rewrite Forall_forall in H. by apply H. Qed.
Lemma blank_no35 w x : Forall blank_char w → x ∈ w → x ≠ 35.
Proof. intros H. apply ws_no35. eapply Forall_impl; [exact H|apply blank_ws]. Qed.
Lemma ident_no35 n x : ident n = true → x ∈ codes n → x ≠ 35.
Proof. intros H Hx. pose proof (ident_ge n x H Hx). lia. Qed.
Lemma optext_lay_no35 ob oa ops x : (∀ i, Forall blank_char (ob i)) → (∀ i, Forall blank_char (oa i)) → Forall (λ o, ident o = true) ops →
  ∀ i, x ∈ optext_lay ob oa i ops → x ≠ 35.
Proof.
  intros Hb Ha Hops. induction Hops as [|o r Ho Hr IH]; intros i; [by intros ?%elem_of_nil|]. destruct r as [|o2 r'].
  - simpl. rewrite !elem_of_app. intros [Hx|[Hx|Hx]]; eauto using blank_no35, ident_no35.
  - change (optext_lay ob oa i (o :: o2 :: r')) with (ob i ++ codes o ++ oa i ++ 44 :: optext_lay ob oa (S i) (o2 :: r'))%list.
    rewrite !elem_of_app, elem_of_cons. intros [Hx|[Hx|[Hx|[->|Hx]]]]; eauto using blank_no35, ident_no35.
Qed.
Lemma line_lay_no35 l y x : canon l → lay_ok y → x ∈ render_line_lay l y → x ≠ 35.
Proof.
  intros Hc (Hw1 & Hw2 & Hw3 & Hob & Hoa). destruct l as [n|n|net g ops|q d]; simpl in Hc; unfold render_line_lay.
  - rewrite !elem_of_app, !elem_of_cons, !elem_of_app, elem_of_cons, elem_of_nil.
    intros [Hx|[Hx|[->|[Hx|[Hx|[Hx|[->|[]]]]]]]]; eauto using ws_no35, ident_no35, kw_no35, kw_all_in.
  - rewrite !elem_of_app, !elem_of_cons, !elem_of_app, elem_of_cons, elem_of_nil.
    intros [Hx|[Hx|[->|[Hx|[Hx|[Hx|[->|[]]]]]]]]; eauto using ws_no35, ident_no35, kw_no35, kw_all_out.
  - destruct Hc as (Hn & Hg & Hne & Hops). assert (Hkg : codes g ∈ kw_gate) by (by apply elem_of_list_fmap_1).
    rewrite !elem_of_app, !elem_of_cons, !elem_of_app, elem_of_cons, !elem_of_app, elem_of_cons, elem_of_nil.
    intros [Hx|[Hx|[->|[Hx|[Hx|[->|[Hx|[->|[]]]]]]]]]; eauto using ws_no35, ident_no35, kw_no35, in_gate_kw, optext_lay_no35.
  - destruct Hc as [Hq Hd].
    rewrite !elem_of_app, !elem_of_cons, !elem_of_app, elem_of_cons, !elem_of_app, elem_of_cons, elem_of_nil.
    intros [Hx|[Hx|[->|[Hx|[Hx|[->|[Hx|[Hx|[Hx|[->|[]]]]]]]]]]]; eauto using ws_no35, ident_no35, kw_no35, kw_all_dff, blank_no35.
Qed.

Definition lunit := (bline * lay * list seg)%type.
Definition lunit_ok (p : lunit) : Prop := canon p.1.1 ∧ lay_ok p.1.2 ∧ Forall seg_ok p.2.
Definition plain_unit (p : lunit) : unit := (p.1.1, p.1.2, gap_plain p.2).
Lemma gap_plain_ws g : Forall seg_ok g → Forall ws_char (gap_plain g).
Proof.
  intros H. unfold gap_plain. apply Forall_forall. intros x (s & Hx & Hs)%elem_of_list_bind. rewrite Forall_forall in H. specialize (H s Hs).
  destruct s as [w|c]; simpl in *; [rewrite Forall_forall in H; by apply H|]. apply elem_of_list_singleton in Hx as ->. reflexivity.
Qed.
Lemma plain_unit_ok p : lunit_ok p → unit_ok (plain_unit p).
Proof. intros (? & ? & ?). split; [done|]. split; [done|]. by apply gap_plain_ws. Qed.
Lemma del_units (ls : list lunit) : Forall lunit_ok ls →
  ∀ n, length (ls ≫= λ p, render_line_lay p.1.1 p.1.2 ++ render_gap p.2)%list ≤ n →
  delete_n n rd_re_comment (ls ≫= λ p, render_line_lay p.1.1 p.1.2 ++ render_gap p.2)%list = units_text (plain_unit <$> ls).
Proof.
  induction 1 as [|p ls Hp Hls IH]; intros n Hn; [by destruct n|].
  rewrite bind_cons in *. rewrite fmap_cons. unfold units_text. rewrite bind_cons. fold (units_text (plain_unit <$> ls)).
  destruct Hp as (Hc & Hy & Hg). rewrite <- app_assoc in *. rewrite app_length in Hn.
  rewrite del_plain by (eauto using line_lay_no35 || lia). unfold unit_text at 1. simpl. rewrite <- app_assoc. f_equal.
  apply del_gap; [done|exact IH|lia].
Qed.

(* ================= the scans of a laid-out text ================= *)
Definition cap_in_u (u : unit) : caps := cap_in u.1.1.
Definition cap_gate_u (u : unit) : caps :=
  match u.1.1 with BGate net g ops => [(3, gate_ot u.1.2 ops); (2, codes g); (1, codes net)] | _ => [] end.
Definition cap_dff_u (u : unit) : caps :=
  match u.1.1 with BDff q d => [(3, dff_ot u.1.2 d); (2, kw_dffs (l_lc u.1.2)); (1, codes q)] | _ => [] end.

Section layout_scan.
  Context (gp : list nat) (us : list unit) (Hgp : Forall ws_char gp) (Hus : Forall unit_ok us).
  Let t := (gp ++ units_text us)%list.

  Lemma findall_lay rx isk cap :
    (∀ u rest, unit_ok u → isk u.1.1 = true → match_here rx (render_line_lay u.1.1 u.1.2 ++ rest) = Some (rest, cap u)) →
    (∀ u a b rest, unit_ok u → isk u.1.1 = false → (unit_text u = a ++ b)%list → b ≠ [] → match_here rx (b ++ rest) = None) →
    (∀ x rest, ws_char x → match_here rx (x :: rest) = None) →
    findall rx t = cap <$> filter (λ u, isk u.1.1 = true) us.
  Proof.
    intros Hyes Hno Hws. unfold findall, t. rewrite (gap_skip rx gp _ Hws Hgp) by (rewrite app_length; lia).
    apply (findall_units rx isk cap Hyes Hno Hws us Hus). rewrite app_length. lia.
  Qed.
  Lemma fa_input_lay : findall rd_re_input t = cap_in_u <$> filter (λ u, is_input u.1.1 = true) us.
  Proof.
    apply findall_lay; [| |apply ws_first_input].
    - intros [[l y] g] rest Hu Hk. destruct Hu as (Hc & Hy & Hg). cbn [fst snd] in *. destruct l; try done. by apply match_input_lay.
    - intros [[l y] g] a b rest Hu Hk. destruct Hu as (Hc & Hy & Hg). unfold unit_text. cbn [fst snd] in *. apply nomatch_input_lay; try done. intros n ->. done.
  Qed.
  Lemma fa_output_lay : findall rd_re_output t = cap_in_u <$> filter (λ u, is_output u.1.1 = true) us.
  Proof.
    apply findall_lay; [| |apply ws_first_output].
    - intros [[l y] g] rest Hu Hk. destruct Hu as (Hc & Hy & Hg). cbn [fst snd] in *. destruct l; try done. by apply match_output_lay.
    - intros [[l y] g] a b rest Hu Hk. destruct Hu as (Hc & Hy & Hg). unfold unit_text. cbn [fst snd] in *. apply nomatch_output_lay; try done. intros n ->. done.
  Qed.
  Lemma fa_gate_lay : findall rd_re_gate t = cap_gate_u <$> filter (λ u, is_stmt_gate u.1.1 = true) us.
  Proof.
    apply findall_lay; [| |apply ws_first_gate].
    - intros [[l y] g] rest Hu Hk. destruct Hu as (Hc & Hy & Hg). cbn [fst snd] in *. apply (canon_gate_stmt l Hc) in Hk as (net & g0 & ops & ->).
      destruct Hc as (? & ? & ? & ?). unfold cap_gate_u. simpl. by apply match_gate_lay.
    - intros [[l y] g] a b rest Hu Hk. destruct Hu as (Hc & Hy & Hg). unfold unit_text. cbn [fst snd] in *. apply nomatch_gate_lay; try done. intros net g0 ops ->.
      assert (is_stmt_gate (BGate net g0 ops) = true) by (apply canon_gate_stmt; eauto). congruence.
  Qed.
  Lemma fa_dff_lay : findall rd_re_dff t = cap_dff_u <$> filter (λ u, is_dff u.1.1 = true) us.
  Proof.
    apply findall_lay; [| |apply ws_first_dff].
    - intros [[l y] g] rest Hu Hk. destruct Hu as (Hc & Hy & Hg). cbn [fst snd] in *. destruct l; try done. destruct Hc. unfold cap_dff_u. simpl. by apply match_dff_lay.
    - intros [[l y] g] a b rest Hu Hk. destruct Hu as (Hc & Hy & Hg). unfold unit_text. cbn [fst snd] in *. apply nomatch_dff_lay; try done. intros q d ->. done.
  Qed.
End layout_scan.

(* ---- decoding ---- *)
Lemma clean_blank w : Forall blank_char w → clean w = [].
Proof. unfold clean, remove_chars. induction 1 as [|x w Hx Hw IH]; [done|]. rewrite filter_cons_False by (intros Hn; by apply Hn). exact IH. Qed.
Lemma clean_optext_lay ob oa ops : (∀ i, Forall blank_char (ob i)) → (∀ i, Forall blank_char (oa i)) → Forall (λ o, ident o = true) ops →
  ∀ i, clean (optext_lay ob oa i ops) = clean (optext ops).
Proof.
  intros Hb Ha Hops. unfold optext. induction Hops as [|o r Ho Hr IH]; intros i; [done|]. destruct r as [|o2 r'].
  - simpl. rewrite !clean_app. rewrite (clean_blank (ob i)) by apply Hb. rewrite (clean_blank (oa i)) by apply Ha. simpl. by rewrite app_nil_r.
  - change (optext_lay ob oa i (o :: o2 :: r')) with (ob i ++ codes o ++ oa i ++ 44 :: optext_lay ob oa (S i) (o2 :: r'))%list.
    change (join (codes ", ") (codes <$> o :: o2 :: r')) with (codes o ++ codes ", " ++ join (codes ", ") (codes <$> o2 :: r'))%list.
    change (44 :: optext_lay ob oa (S i) (o2 :: r'))%list with ([44] ++ optext_lay ob oa (S i) (o2 :: r'))%list.
    rewrite !clean_app. rewrite (clean_blank (ob i)) by apply Hb. rewrite (clean_blank (oa i)) by apply Ha. rewrite !app_nil_l.
    rewrite (IH (S i)). reflexivity.
Qed.
Lemma split_ops_lay y ops : lay_ok y → ops ≠ [] → Forall (λ o, ident o = true) ops → split_ops (gate_ot y ops) = ops.
Proof.
  intros (_ & _ & _ & Hob & Hoa) Hne Hops. unfold split_ops, gate_ot. rewrite clean_optext_lay by done. by apply split_ops_optext.
Qed.
Lemma clean_dff_ot y d : lay_ok y → ident d = true → clean (dff_ot y d) = codes d.
Proof.
  intros (_ & _ & _ & Hob & Hoa) Hd. unfold dff_ot. rewrite !clean_app. rewrite (clean_blank (l_ob y 0)) by apply Hob. rewrite (clean_blank (l_oa y 0)) by apply Hoa. rewrite app_nil_r. simpl.
  by apply clean_plain, ident_plain.
Qed.
Lemma fmap_as_bind {A B} (f : A → B) (l : list A) : f <$> l = l ≫= λ x, [f x].
Proof. induction l as [|x l IH]; [done|]. by rewrite fmap_cons, bind_cons, IH. Qed.
Lemma decode_units (isk : bline → bool) (cap : unit → caps) (dec : caps → list bline) us : Forall unit_ok us →
  (∀ u, unit_ok u → isk u.1.1 = true → dec (cap u) = [u.1.1]) →
  (cap <$> filter (λ u, isk u.1.1 = true) us) ≫= dec = filter (λ l, isk l = true) ((λ u : unit, u.1.1) <$> us).
Proof.
  intros Hus Hd. induction Hus as [|u us Hu Hus IH]; [done|]. rewrite fmap_cons, !filter_cons. destruct (isk u.1.1) eqn:E.
  - rewrite !decide_True by done. rewrite fmap_cons, bind_cons. rewrite Hd by done. simpl. f_equal. exact IH.
  - rewrite !decide_False by done. exact IH.
Qed.

Theorem scan_units gp us : Forall ws_char gp → Forall unit_ok us →
  (scan_inputs (gp ++ units_text us) ++ scan_gates (gp ++ units_text us) ++ scan_dffs (gp ++ units_text us) ++ scan_outputs (gp ++ units_text us))%list
  = by_pass ((λ u : unit, u.1.1) <$> us).
Proof.
  intros Hgp Hus. unfold scan_inputs, scan_gates, scan_dffs, scan_outputs, by_pass.
  rewrite (fa_input_lay gp us Hgp Hus), (fa_output_lay gp us Hgp Hus), (fa_gate_lay gp us Hgp Hus), (fa_dff_lay gp us Hgp Hus).
  rewrite (fmap_as_bind _ (cap_gate_u <$> _)), (fmap_as_bind _ (cap_dff_u <$> _)).
  rewrite (decode_units is_input cap_in_u), (decode_units is_stmt_gate cap_gate_u), (decode_units is_dff cap_dff_u), (decode_units is_output cap_in_u); try done.
  - intros [[l y] g] (Hc & Hy & _) Hk. cbn [fst snd] in *. destruct l; try done. unfold cap_in_u. simpl.
    change (group 1 [(1, codes n)]) with (codes n). by rewrite split_ops_ident.
  - intros [[l y] g] (Hc & Hy & _) Hk. cbn [fst snd] in *. destruct l as [?|?|?|q d]; try done. destruct Hc as [Hq Hd]. unfold cap_dff_u. cbn [fst snd].
    change (group 1 _) with (codes q). change (group 3 _) with (dff_ot y d). rewrite clean_dff_ot by done. by rewrite !text_of_codes.
  - intros [[l y] g] (Hc & Hy & _) Hk. cbn [fst snd] in *. apply (canon_gate_stmt l Hc) in Hk as (net & g0 & ops & ->). destruct Hc as (Hn & Hg & Hne & Hops).
    unfold cap_gate_u. cbn [fst snd]. change (group 1 _) with (codes net). change (group 2 _) with (codes g0). change (group 3 _) with (gate_ot y ops).
    by rewrite !text_of_codes, split_ops_lay.
  - intros [[l y] g] (Hc & Hy & _) Hk. cbn [fst snd] in *. destruct l; try done. unfold cap_in_u. simpl.
    change (group 1 [(1, codes n)]) with (codes n). by rewrite split_ops_ident.
Qed.

(* THE character-level theorem over layouts *)
Theorem scan_layout_canon g0 (ls : list lunit) : Forall seg_ok g0 → Forall lunit_ok ls →
  scan_codes (render_layout g0 ls) = by_pass ((λ p : lunit, p.1.1) <$> ls).
Proof.
  intros Hg0 Hls. unfold scan_codes, delete_all, render_layout.
  rewrite (del_gap g0 _ (units_text (plain_unit <$> ls)) Hg0 (del_units ls Hls)) by done.
  rewrite scan_units; [|by apply gap_plain_ws|apply Forall_fmap; eapply Forall_impl; [exact Hls|apply plain_unit_ok]].
  rewrite <- list_fmap_compose. done.
Qed.

Definition lines_of (ls : list lunit) : list bline := (λ p : lunit, p.1.1) <$> ls.
Definition layouts_ok (g0 : list seg) (ls : list lunit) : Prop := Forall seg_ok g0 ∧ Forall (λ p : lunit, lay_ok p.1.2 ∧ Forall seg_ok p.2) ls.
Theorem scan_layout g0 ls : wfb (lines_of ls) = true → layouts_ok g0 ls → scan_codes (render_layout g0 ls) = by_pass (lines_of ls).
Proof.
  intros Hwf [Hg0 Hls]. apply scan_layout_canon; [done|]. pose proof (wf_canon _ Hwf) as Hc. unfold lines_of in Hc.
  rewrite Forall_fmap in Hc. rewrite Forall_forall in Hc, Hls. apply Forall_forall. intros p Hp. destruct (Hls p Hp). split; [by apply Hc|done].
Qed.

(* ---- a final comment without terminating newline ---- *)
Lemma del_fin fin : fin_ok fin → ∀ n, length (render_fin fin) ≤ n → delete_n n rd_re_comment (render_fin fin) = [].
Proof.
  destruct fin as [c|]; simpl; intros Hc n Hn; [|by destruct n]. destruct n as [|n]; [lia|]. simpl delete_n.
  assert (Hm : match_here rd_re_comment (35 :: c) = Some ([], [])).
  { unfold match_here, rd_re_comment. rewrite mt_seq, mt_lit. cbv beta. rewrite <- (app_nil_r c) at 1.
    refine (star_cls_greedy c_notnl c [] _ _ _ _ _ _); [|done|reflexivity].
    apply Forall_forall. intros x Hx. unfold c_notnl, in_cls, existsb. simpl fst. simpl snd. rewrite orb_false_r.
    apply negb_true_iff, andb_false_iff. assert (x ≠ 10) by (intros ->; done).
    destruct (decide (x ≤ 10)); [left; apply Nat.leb_gt; lia|right; apply Nat.leb_gt; lia]. }
  rewrite Hm. simpl. by destruct n.
Qed.
Lemma del_units_tail (ls : list lunit) (T Tp : list nat) : Forall lunit_ok ls →
  (∀ n, length T ≤ n → delete_n n rd_re_comment T = Tp) →
  ∀ n, length ((ls ≫= λ p, render_line_lay p.1.1 p.1.2 ++ render_gap p.2) ++ T)%list ≤ n →
  delete_n n rd_re_comment ((ls ≫= λ p, render_line_lay p.1.1 p.1.2 ++ render_gap p.2) ++ T)%list = (units_text (plain_unit <$> ls) ++ Tp)%list.
Proof.
  intros Hls HT. induction Hls as [|p ls Hp Hls IH]; intros n Hn; [by apply HT|].
  rewrite bind_cons in *. rewrite fmap_cons. unfold units_text. rewrite bind_cons. fold (units_text (plain_unit <$> ls)).
  destruct Hp as (Hc & Hy & Hg). rewrite <- !app_assoc in *. rewrite app_length in Hn.
  rewrite del_plain by (eauto using line_lay_no35 || lia). unfold unit_text at 1. simpl. rewrite <- !app_assoc. f_equal.
  apply del_gap; [done|exact IH|lia].
Qed.
Theorem scan_layout_fin g0 ls fin : wfb (lines_of ls) = true → layouts_ok g0 ls → fin_ok fin →
  scan_codes (render_layout_fin g0 ls fin) = by_pass (lines_of ls).
Proof.
  intros Hwf [Hg0 Hls] Hfin.
  assert (Hls' : Forall lunit_ok ls).
  { pose proof (wf_canon _ Hwf) as Hc. unfold lines_of in Hc. rewrite Forall_fmap in Hc. rewrite Forall_forall in Hc, Hls.
    apply Forall_forall. intros p Hp. destruct (Hls p Hp). split; [by apply Hc|done]. }
  unfold scan_codes, delete_all, render_layout_fin, render_layout. rewrite <- app_assoc.
  rewrite (del_gap g0 _ (units_text (plain_unit <$> ls) ++ []) Hg0 (del_units_tail ls _ [] Hls' (del_fin fin Hfin))) by done.
  rewrite app_nil_r. rewrite scan_units; [|by apply gap_plain_ws|apply Forall_fmap; eapply Forall_impl; [exact Hls'|apply plain_unit_ok]].
  unfold lines_of. rewrite <- list_fmap_compose. done.
Qed.
