(* C15, character level: facts about the regex model on the regenerated scan patterns -- at the start of its canonical statement each pattern matches exactly the statement and the reader's post-processing of the captures gives back the line. *)
From Coq Require Import Ascii.
From stdpp Require Import strings list.
From CG Require Import Model.Regex Model.Bench Model.BenchSpec Model.BenchScan.
Open Scope string_scope.

(* greedy star over a character class: if the continuation succeeds after the longest run, that is the answer *)
Lemma star_cls_greedy {R} c p r cs (k : list nat → caps → option R) x :
  Forall (λ a, in_cls c a = true) p → match r with [] => True | a :: _ => in_cls c a = false end →
  k r cs = Some x → mt (RStar (RCls c)) (p ++ r) cs k = Some x.
Proof.
  intros Hp Hr Hk. simpl mt. generalize (Nat.le_refl (length (p ++ r))).
  generalize (length (p ++ r)) at 2 3. intros n Hn. rewrite app_length in Hn.
  assert (Hn' : length p ≤ n) by lia. clear Hn. revert n Hn'.
  induction Hp as [|a p Ha Hp IH]; intros n Hn.
  - simpl. destruct n as [|n]; [done|]. destruct r as [|b r]; [by rewrite Hk|]. by rewrite Hr, Hk.
  - destruct n as [|n]; [simpl in Hn; lia|]. simpl. rewrite Ha.
    assert (Hlt : (length (p ++ r) <? S (length (p ++ r)))%nat = true) by (apply Nat.ltb_lt; lia).
    rewrite Hlt. rewrite IH by (simpl in Hn; lia). done.
Qed.

(* one-step equations of the matcher *)
Lemma mt_seq {R} a b s cs (k : list nat → caps → option R) : mt (RSeq a b) s cs k = mt a s cs (λ s' cs', mt b s' cs' k).
Proof. reflexivity. Qed.
Lemma mt_grp {R} i a s cs (k : list nat → caps → option R) :
  mt (RGrp i a) s cs k = mt a s cs (λ s' cs', k s' ((i, take (length s - length s') s) :: cs')).
Proof. reflexivity. Qed.
Lemma mt_cls_hit {R} c x s cs (k : list nat → caps → option R) : in_cls c x = true → mt (RCls c) (x :: s) cs k = k s cs.
Proof. intros H. simpl. by rewrite H. Qed.
Lemma mt_cls_miss {R} c x s cs (k : list nat → caps → option R) : in_cls c x = false → mt (RCls c) (x :: s) cs k = None.
Proof. intros H. simpl. by rewrite H. Qed.
Lemma mt_lit {R} x s cs (k : list nat → caps → option R) : mt (RLit x) (x :: s) cs k = k s cs.
Proof. apply mt_cls_hit. simpl. by rewrite Nat.leb_refl. Qed.
Lemma mt_lit_miss {R} x y s cs (k : list nat → caps → option R) : x ≠ y → mt (RLit x) (y :: s) cs k = None.
Proof.
  intros H. apply mt_cls_miss. unfold in_cls, existsb. simpl fst. simpl snd.
  destruct (x <=? y)%nat eqn:E1, (y <=? x)%nat eqn:E2; try reflexivity.
  apply Nat.leb_le in E1, E2. lia.
Qed.
Lemma mt_alt_l {R} a b s cs (k : list nat → caps → option R) x : mt a s cs k = Some x → mt (RAlt a b) s cs k = Some x.
Proof. intros H. simpl. by rewrite H. Qed.
Lemma mt_alt_r {R} a b s cs (k : list nat → caps → option R) : mt a s cs k = None → mt (RAlt a b) s cs k = mt b s cs k.
Proof. intros H. simpl. by rewrite H. Qed.
Lemma take_app_len {A} (l1 l2 : list A) : take (length (l1 ++ l2) - length l2) (l1 ++ l2) = l1.
Proof. rewrite app_length. replace (length l1 + length l2 - length l2) with (length l1) by lia. by rewrite take_app. Qed.

(* identifiers are what the name group of the patterns accepts *)
Definition c_alpha := Cl false [(97, 122); (65, 90)].
Definition c_idc := Cl false [(97, 122); (65, 90); (48, 57); (95, 95)].
Definition c_ws := Cl false [(9, 13); (28, 32)].
Lemma alpha_cls a : is_alpha a = true → in_cls c_alpha (nat_of_ascii a) = true.
Proof.
  unfold is_alpha. cbv zeta. generalize (nat_of_ascii a). intros k H.
  unfold c_alpha, in_cls, existsb. simpl fst. simpl snd. rewrite xorb_false_l, orb_false_r.
  apply orb_true_iff in H as [H|H]; rewrite H; [by rewrite orb_true_r|done].
Qed.
Lemma idc_cls a : is_idchar a = true → in_cls c_idc (nat_of_ascii a) = true.
Proof.
  unfold is_idchar, is_alpha. cbv zeta. generalize (nat_of_ascii a). intros k H.
  unfold c_idc, in_cls, existsb. simpl fst. simpl snd. rewrite xorb_false_l, orb_false_r.
  apply orb_true_iff in H as [H|H].
  - apply orb_true_iff in H as [H|H]; [|rewrite H; by rewrite !orb_true_r].
    apply orb_true_iff in H as [H|H]; rewrite H; [by rewrite !orb_true_r|done].
  - apply Nat.eqb_eq in H as ->. reflexivity.
Qed.
Lemma ident_codes n : ident n = true →
  ∃ a p, codes n = a :: p ∧ in_cls c_alpha a = true ∧ Forall (λ x, in_cls c_idc x = true) p.
Proof.
  destruct n as [|a r]; [done|]. simpl. intros [Ha Hr]%andb_true_iff. exists (nat_of_ascii a), (codes r).
  split; [done|]. split; [by apply alpha_cls|]. clear Ha. induction r as [|b r IH]; [constructor|].
  simpl in Hr. apply andb_true_iff in Hr as [Hb Hr]. constructor; [by apply idc_cls|by apply IH].
Qed.

Lemma alpha_not_ws a : in_cls c_alpha a = true → in_cls c_ws a = false.
Proof.
  unfold c_alpha, c_ws, in_cls, existsb. simpl fst. simpl snd. rewrite !xorb_false_l, !orb_false_r. intros H.
  apply orb_true_iff in H as [H|H]; apply andb_true_iff in H as [H1 H2]; apply Nat.leb_le in H1, H2;
    apply orb_false_iff; split; apply andb_false_iff; first [left; apply Nat.leb_gt; lia | right; apply Nat.leb_gt; lia].
Qed.

Ltac mstep := first [rewrite mt_seq | rewrite mt_lit | rewrite mt_grp]; cbv beta.
Ltac mstar pp rr := refine (star_cls_greedy _ pp rr _ _ _ _ _ _);
  [ first [apply List.Forall_nil | assumption] | lazy beta iota; first [reflexivity | assumption | idtac] | cbv beta ].

(* at the start of a canonical INPUT statement the input scan matches exactly the statement and captures the name *)
Lemma match_input n rest : ident n = true →
  match_here rd_re_input (render_line (BInput n) ++ rest) = Some (rest, [(1, codes n)]).
Proof.
  intros (a & p & Hn & Ha & Hp)%ident_codes. unfold match_here, render_line, rd_re_input.
  change (codes "INPUT(") with [73; 78; 80; 85; 84; 40]. rewrite Hn. rewrite <- !app_assoc. simpl app.
  mstep. apply mt_alt_l. repeat mstep.
  mstar (@nil nat) (40 :: a :: p ++ 41 :: rest). repeat mstep.
  mstar (@nil nat) (a :: p ++ 41 :: rest). { by apply alpha_not_ws. }
  repeat mstep. rewrite mt_cls_hit by exact Ha.
  mstar p (41 :: rest).
  change (a :: p ++ 41 :: rest)%list with ((a :: p) ++ 41 :: rest)%list. rewrite take_app_len. repeat mstep.
  mstar (@nil nat) (41 :: rest). repeat mstep. reflexivity.
Qed.

Lemma match_output n rest : ident n = true →
  match_here rd_re_output (render_line (BOutput n) ++ rest) = Some (rest, [(1, codes n)]).
Proof.
  intros (a & p & Hn & Ha & Hp)%ident_codes. unfold match_here, render_line, rd_re_output.
  change (codes "OUTPUT(") with [79; 85; 84; 80; 85; 84; 40]. rewrite Hn. rewrite <- !app_assoc. simpl app.
  mstep. apply mt_alt_l. repeat mstep.
  mstar (@nil nat) (40 :: a :: p ++ 41 :: rest). repeat mstep.
  mstar (@nil nat) (a :: p ++ 41 :: rest). { by apply alpha_not_ws. }
  repeat mstep. rewrite mt_cls_hit by exact Ha.
  mstar p (41 :: rest).
  change (a :: p ++ 41 :: rest)%list with ((a :: p) ++ 41 :: rest)%list. rewrite take_app_len. repeat mstep.
  mstar (@nil nat) (41 :: rest). repeat mstep. reflexivity.
Qed.

Definition c_notrp := Cl true [(41, 41)].
Lemma idc_notrp x : in_cls c_idc x = true → in_cls c_notrp x = true.
Proof.
  unfold c_idc, c_notrp, in_cls, existsb. simpl fst. simpl snd. rewrite xorb_false_l, !orb_false_r. intros H.
  apply negb_true_iff. apply andb_false_iff.
  repeat (apply orb_true_iff in H as [H|H]); apply andb_true_iff in H as [H1 H2]; apply Nat.leb_le in H1, H2;
    first [left; apply Nat.leb_gt; lia | right; apply Nat.leb_gt; lia].
Qed.
Lemma alpha_idc x : in_cls c_alpha x = true → in_cls c_idc x = true.
Proof.
  unfold c_idc, c_alpha, in_cls, existsb. simpl fst. simpl snd. rewrite !xorb_false_l, !orb_false_r. intros H.
  apply orb_true_iff in H as [H|H]; rewrite H; [done|by rewrite !orb_true_r].
Qed.
Lemma ws_cls_32 : Forall (λ a, in_cls c_ws a = true) [32].
Proof. constructor; [reflexivity|constructor]. Qed.

Lemma match_dff q d rest : ident q = true → ident d = true →
  match_here rd_re_dff (render_line (BDff q d) ++ rest) = Some (rest, [(3, codes d); (2, [68; 70; 70]); (1, codes q)]).
Proof.
  intros (a & p & Hq & Ha & Hp)%ident_codes (b & r & Hd & Hb & Hr)%ident_codes. unfold match_here, render_line, rd_re_dff.
  change (codes " = DFF(") with [32; 61; 32; 68; 70; 70; 40]. rewrite Hq, Hd. rewrite <- !app_assoc. simpl app.
  repeat mstep. rewrite mt_cls_hit by exact Ha.
  mstar p (32 :: 61 :: 32 :: 68 :: 70 :: 70 :: 40 :: b :: r ++ 41 :: rest).
  change (a :: p ++ 32 :: 61 :: 32 :: 68 :: 70 :: 70 :: 40 :: b :: r ++ 41 :: rest)%list
    with ((a :: p) ++ 32 :: 61 :: 32 :: 68 :: 70 :: 70 :: 40 :: b :: r ++ 41 :: rest)%list. rewrite take_app_len. repeat mstep.
  refine (star_cls_greedy c_ws [32] (61 :: 32 :: 68 :: 70 :: 70 :: 40 :: b :: r ++ 41 :: rest) _ _ _ ws_cls_32 _ _); [reflexivity|cbv beta].
  repeat mstep.
  refine (star_cls_greedy c_ws [32] (68 :: 70 :: 70 :: 40 :: b :: r ++ 41 :: rest) _ _ _ ws_cls_32 _ _); [reflexivity|cbv beta].
  repeat mstep. apply mt_alt_l. repeat mstep.
  change (68 :: 70 :: 70 :: 40 :: b :: r ++ 41 :: rest)%list with ([68; 70; 70] ++ 40 :: b :: r ++ 41 :: rest)%list. rewrite take_app_len.
  repeat mstep. unfold RPlus. repeat mstep. rewrite mt_cls_hit by (apply idc_notrp, alpha_idc, Hb).
  refine (star_cls_greedy c_notrp r (41 :: rest) _ _ _ _ _ _); [eapply Forall_impl; [exact Hr|apply idc_notrp]|reflexivity|cbv beta].
  change (b :: r ++ 41 :: rest)%list with ((b :: r) ++ 41 :: rest)%list. rewrite take_app_len. repeat mstep. reflexivity.
Qed.

(* the operand text of a canonical gate statement *)
Definition optext (ops : list string) : list nat := join (codes ", ") (codes <$> ops).
Lemma ident_notrp n : ident n = true → codes n ≠ [] ∧ Forall (λ x, in_cls c_notrp x = true) (codes n).
Proof.
  intros (a & p & Hn & Ha & Hp)%ident_codes. rewrite Hn. split; [done|]. constructor; [by apply idc_notrp, alpha_idc|].
  eapply Forall_impl; [exact Hp|apply idc_notrp].
Qed.
Lemma optext_notrp ops : ops ≠ [] → Forall (λ o, ident o = true) ops →
  optext ops ≠ [] ∧ Forall (λ x, in_cls c_notrp x = true) (optext ops).
Proof.
  intros Hne Hall. unfold optext. induction Hall as [|o r Ho Hr IH]; [done|].
  destruct (ident_notrp o Ho) as [Hn1 Hn2]. destruct r as [|o2 r'].
  - simpl. done.
  - change (join (codes ", ") (codes <$> o :: o2 :: r')) with (codes o ++ codes ", " ++ join (codes ", ") (codes <$> o2 :: r'))%list.
    destruct (IH ltac:(done)) as [_ IH2]. split; [by destruct (codes o)|].
    apply Forall_app. split; [done|]. apply Forall_app. split; [|done]. change (codes ", ") with [44; 32]. repeat constructor.
Qed.

Ltac split_at s s' := match s with | s' => constr:(@nil nat) | ?x :: ?s1 => let l := split_at s1 s' in constr:(x :: l) end.
Ltac none_tac := repeat (first [rewrite mt_seq | rewrite mt_lit | rewrite mt_grp]; cbv beta); rewrite mt_lit_miss by done; reflexivity.
Ltac skip_alt := rewrite mt_alt_r; [|none_tac].

Lemma match_gate net g ops rest : ident net = true → g ∈ rd_alts → ops ≠ [] → Forall (λ o, ident o = true) ops →
  match_here rd_re_gate (render_line (BGate net g ops) ++ rest) = Some (rest, [(3, optext ops); (2, codes g); (1, codes net)]).
Proof.
  intros (a & p & Hq & Ha & Hp)%ident_codes Hg Hne Hops. destruct (optext_notrp ops Hne Hops) as [Ht1 Ht2].
  unfold match_here, render_line, rd_re_gate. fold (optext ops). destruct (optext ops) as [|b r] eqn:Et; [done|].
  apply Forall_cons in Ht2 as [Hb Hr].
  change (codes " = ") with [32; 61; 32]. rewrite Hq. rewrite <- !app_assoc. simpl app.
  repeat mstep. rewrite mt_cls_hit by exact Ha.
  mstar p (32 :: 61 :: 32 :: codes g ++ 40 :: b :: r ++ 41 :: rest).
  change (a :: p ++ 32 :: 61 :: 32 :: codes g ++ 40 :: b :: r ++ 41 :: rest)%list
    with ((a :: p) ++ 32 :: 61 :: 32 :: codes g ++ 40 :: b :: r ++ 41 :: rest)%list. rewrite take_app_len. repeat mstep.
  refine (star_cls_greedy c_ws [32] (61 :: 32 :: codes g ++ 40 :: b :: r ++ 41 :: rest) _ _ _ ws_cls_32 _ _); [reflexivity|cbv beta].
  repeat mstep.
  vm_compute in Hg.
  repeat (apply elem_of_cons in Hg as [->|Hg]); [..|by apply elem_of_nil in Hg].
  all: match goal with |- context [codes ?w] => let v := eval vm_compute in (codes w) in change (codes w) with v end; simpl app.
  all: refine (star_cls_greedy c_ws [32] _ _ _ _ ws_cls_32 _ _); [reflexivity|cbv beta].
  all: repeat mstep; repeat skip_alt; first [apply mt_alt_l|idtac]; repeat mstep.
  all: match goal with |- context [take (length ?s - length (40 :: ?t)) ?s] =>
         let l1 := split_at s (40 :: t) in change s with (l1 ++ 40 :: t)%list; rewrite take_app_len end.
  all: unfold RPlus; repeat mstep; rewrite mt_cls_hit by exact Hb.
  all: refine (star_cls_greedy c_notrp r (41 :: rest) _ _ _ Hr _ _); [reflexivity|cbv beta].
  all: change (b :: r ++ 41 :: rest)%list with ((b :: r) ++ 41 :: rest)%list; rewrite take_app_len; repeat mstep; reflexivity.
Qed.

(* ---- decoding the captures ---- *)
Lemma text_of_codes n : text_of (codes n) = n.
Proof.
  unfold text_of, codes. induction n as [|a r IH]; [done|]. simpl. rewrite ascii_nat_embedding. f_equal. exact IH.
Qed.
Definition plain (w : list nat) : Prop := Forall (λ x, x ∉ rd_strip_codes ∧ x ≠ rd_split_code) w.
Lemma idc_plain x : in_cls c_idc x = true → x ∉ rd_strip_codes ∧ x ≠ rd_split_code.
Proof.
  unfold c_idc, in_cls, existsb. simpl fst. simpl snd. rewrite xorb_false_l, !orb_false_r. intros H.
  assert (Hx : 48 ≤ x). { repeat (apply orb_true_iff in H as [H|H]); apply andb_true_iff in H as [H1 H2]; apply Nat.leb_le in H1; lia. }
  unfold rd_strip_codes, rd_split_code. split.
  - rewrite !elem_of_cons, elem_of_nil. lia.
  - intros E. rewrite E in Hx. lia.
Qed.
Lemma ident_plain n : ident n = true → plain (codes n).
Proof.
  intros (a & p & Hn & Ha & Hp)%ident_codes. rewrite Hn. constructor; [by apply idc_plain, alpha_idc|].
  eapply Forall_impl; [exact Hp|apply idc_plain].
Qed.
Lemma clean_plain w : plain w → clean w = w.
Proof.
  unfold clean, remove_chars. induction 1 as [|x w [Hx _] Hw IH]; [done|]. rewrite filter_cons_True by done. by rewrite IH.
Qed.
Lemma clean_app a b : clean (a ++ b) = (clean a ++ clean b)%list.
Proof. unfold clean, remove_chars. apply filter_app. Qed.
Lemma split_plain w : plain w → split_on rd_split_code w = [w].
Proof.
  unfold plain, rd_split_code. induction 1 as [|x w [_ Hx] Hw IH]; [done|]. simpl split_on. rewrite IH. apply Nat.eqb_neq in Hx. by rewrite Hx.
Qed.
Lemma split_app_sep w rest : plain w → split_on rd_split_code (w ++ rd_split_code :: rest) = w :: split_on rd_split_code rest.
Proof.
  unfold plain, rd_split_code. induction 1 as [|x w [_ Hx] Hw IH].
  - reflexivity.
  - simpl app. simpl split_on. rewrite IH. apply Nat.eqb_neq in Hx. by rewrite Hx.
Qed.
Lemma split_ops_optext ops : ops ≠ [] → Forall (λ o, ident o = true) ops → split_ops (optext ops) = ops.
Proof.
  intros Hne Hall. unfold split_ops, optext. induction Hall as [|o r Ho Hr IH]; [done|].
  pose proof (ident_plain o Ho) as Hp. destruct r as [|o2 r'].
  - simpl. rewrite clean_plain, split_plain by done. simpl. by rewrite text_of_codes.
  - change (join (codes ", ") (codes <$> o :: o2 :: r')) with (codes o ++ codes ", " ++ join (codes ", ") (codes <$> o2 :: r'))%list.
    rewrite !clean_app. rewrite (clean_plain (codes o)) by done. change (clean (codes ", ")) with [rd_split_code].
    simpl app. rewrite split_app_sep by done. rewrite fmap_cons, text_of_codes. f_equal. apply IH. done.
Qed.
Lemma split_ops_ident n : ident n = true → split_ops (codes n) = [n].
Proof. intros H. unfold split_ops. rewrite clean_plain, split_plain by (by apply ident_plain). simpl. by rewrite text_of_codes. Qed.

(* THE statement-level theorems: at the start of its canonical statement each scan pattern matches exactly the statement,
   and the reader's post-processing of the captures gives back the line *)
Theorem stmt_input n rest : ident n = true → ∃ cs, match_here rd_re_input (render_line (BInput n) ++ rest) = Some (rest, cs)
  ∧ BInput <$> split_ops (group 1 cs) = [BInput n].
Proof. intros H. eexists. split; [by apply match_input|]. change (group 1 [(1, codes n)]) with (codes n). by rewrite split_ops_ident. Qed.
Theorem stmt_output n rest : ident n = true → ∃ cs, match_here rd_re_output (render_line (BOutput n) ++ rest) = Some (rest, cs)
  ∧ BOutput <$> split_ops (group 1 cs) = [BOutput n].
Proof. intros H. eexists. split; [by apply match_output|]. change (group 1 [(1, codes n)]) with (codes n). by rewrite split_ops_ident. Qed.
Theorem stmt_dff q d rest : ident q = true → ident d = true → ∃ cs, match_here rd_re_dff (render_line (BDff q d) ++ rest) = Some (rest, cs)
  ∧ BDff (text_of (group 1 cs)) (text_of (clean (group 3 cs))) = BDff q d.
Proof.
  intros Hq Hd. eexists. split; [by apply match_dff|]. change (group 1 _) with (codes q). change (group 3 _) with (codes d).
  rewrite clean_plain by (by apply ident_plain). by rewrite !text_of_codes.
Qed.
Theorem stmt_gate net g ops rest : ident net = true → g ∈ rd_alts → ops ≠ [] → Forall (λ o, ident o = true) ops →
  ∃ cs, match_here rd_re_gate (render_line (BGate net g ops) ++ rest) = Some (rest, cs)
  ∧ BGate (text_of (group 1 cs)) (text_of (group 2 cs)) (split_ops (group 3 cs)) = BGate net g ops.
Proof.
  intros Hn Hg Hne Hops. eexists. split; [by apply match_gate|].
  change (group 1 _) with (codes net). change (group 2 _) with (codes g). change (group 3 _) with (optext ops).
  by rewrite !text_of_codes, split_ops_optext.
Qed.
