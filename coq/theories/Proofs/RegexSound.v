(* Soundness of the regex model (Model/Regex.v) against a declarative language semantics. *)
From stdpp Require Import strings list.
From CG Require Import Model.Regex.
Open Scope string_scope.

(* the language of a pattern *)
Inductive lang : re → list nat → Prop :=
| L_eps : lang REps []
| L_cls c x : in_cls c x = true → lang (RCls c) [x]
| L_seq a b u v : lang a u → lang b v → lang (RSeq a b) (u ++ v)
| L_altl a b u : lang a u → lang (RAlt a b) u
| L_altr a b u : lang b u → lang (RAlt a b) u
| L_star0 a : lang (RStar a) []
| L_star1 a u v : lang a u → lang (RStar a) v → lang (RStar a) (u ++ v)
| L_grp i a u : lang a u → lang (RGrp i a) u.

(* whatever the matcher accepts is a prefix in the language of the pattern, and the continuation succeeded on the rest *)
Theorem mt_sound {R} r : ∀ s cs (k : list nat → caps → option R) x,
  mt r s cs k = Some x → ∃ u s' cs', s = (u ++ s')%list ∧ lang r u ∧ k s' cs' = Some x.
Proof.
  induction r as [|c|a IHa b IHb|a IHa b IHb|a IHa|i a IHa]; intros s cs k x H.
  - exists [], s, cs. split; [done|]. split; [constructor|done].
  - simpl in H. destruct s as [|y s]; [done|]. destruct (in_cls c y) eqn:E; [|done].
    exists [y], s, cs. split; [done|]. split; [by constructor|done].
  - simpl in H. apply IHa in H as (u & s1 & cs1 & -> & Hu & H). apply IHb in H as (v & s2 & cs2 & -> & Hv & H).
    exists (u ++ v)%list, s2, cs2. split; [by rewrite app_assoc|]. split; [by constructor|done].
  - simpl in H. destruct (mt a s cs k) as [y|] eqn:E.
    + injection H as ->. apply IHa in E as (u & s1 & cs1 & -> & Hu & H). exists u, s1, cs1. split; [done|]. split; [by apply L_altl|done].
    + apply IHb in H as (u & s1 & cs1 & -> & Hu & H). exists u, s1, cs1. split; [done|]. split; [by apply L_altr|done].
  - simpl in H. revert H. generalize (length s). intros n. revert s cs. induction n as [|n IHn]; intros s cs H.
    + exists [], s, cs. split; [done|]. split; [constructor|done].
    + match type of H with match ?m with _ => _ end = _ => destruct m as [y|] eqn:E end.
      * injection H as ->. apply IHa in E as (u & s1 & cs1 & -> & Hu & H).
        destruct (length s1 <? length (u ++ s1))%nat; [|done].
        apply IHn in H as (v & s2 & cs2 & -> & Hv & H). exists (u ++ v)%list, s2, cs2.
        split; [by rewrite app_assoc|]. split; [by constructor|done].
      * exists [], s, cs. split; [done|]. split; [constructor|done].
  - simpl in H. apply IHa in H as (u & s1 & cs1 & -> & Hu & H). eexists u, s1, _. split; [done|]. split; [by constructor|exact H].
Qed.

Corollary match_here_sound r s rest cs : match_here r s = Some (rest, cs) → ∃ u, s = (u ++ rest)%list ∧ lang r u.
Proof.
  intros H. apply mt_sound in H as (u & s' & cs' & -> & Hu & [= -> ->]). eauto.
Qed.

(* every match findall reports is a match of the pattern at some position of the text *)
Lemma findall_n_sound r n : ∀ s cs, cs ∈ findall_n n r s → ∃ pre t rest, s = (pre ++ t)%list ∧ match_here r t = Some (rest, cs).
Proof.
  induction n as [|n IH]; intros s cs H; [by apply elem_of_nil in H|].
  simpl in H. destruct s as [|x s1]; [by apply elem_of_nil in H|].
  destruct (match_here r (x :: s1)) as [[rest cs0]|] eqn:E.
  - apply elem_of_cons in H as [->|H]; [exists [], (x :: s1), rest; done|].
    apply IH in H as (pre & t & rest' & Heq & Hm).
    destruct (length rest <? length (x :: s1))%nat.
    + apply match_here_sound in E as (u & Hs & _). exists (u ++ pre)%list, t, rest'. split; [|done]. rewrite Hs, Heq. by rewrite app_assoc.
    + exists (x :: pre), t, rest'. split; [|done]. simpl. by rewrite Heq.
  - apply IH in H as (pre & t & rest' & Heq & Hm). exists (x :: pre), t, rest'. split; [|done]. simpl. by rewrite Heq.
Qed.
Theorem findall_sound r s cs : cs ∈ findall r s → ∃ pre t rest u, s = (pre ++ t)%list ∧ t = (u ++ rest)%list ∧ lang r u ∧ match_here r t = Some (rest, cs).
Proof.
  intros (pre & t & rest & Hs & Hm)%findall_n_sound. destruct (match_here_sound _ _ _ _ Hm) as (u & Ht & Hu).
  exists pre, t, rest, u. done.
Qed.
