(* Removing nodes that drive no kept node (C09: the pin / unloaded-input removals of sequential_unroll): consistent valuations
   of the pruned graph are exactly the restrictions of consistent valuations of the whole graph.  Stage S2a of
   C09_sequential_unroll_full (docs/C09-handover.md). *)
From stdpp Require Import strings gmap sets fin_sets.
From CG Require Import Proofs.ApiProofs.
From CG Require Import Base.Api Base.Compose Base.Oracle Proofs.UnrollProofs.
Open Scope string_scope.

(* ---------- removing nodes that drive no kept node ---------- *)
Section remove.
  Context (h : circuit) (ns : list string).
  Let S : gset string := list_to_set ns.
  (* no kept node reads a removed node *)
  Context (Hdis : ∀ n i, h !! n = Some i → n ∉ S → n_fi i ## S).

  Lemma remove_kept_lookup n : n ∉ S → remove_g h ns !! n = h !! n.
  Proof.
    intros Hn. rewrite remove_lookup, decide_False by done. destruct (h !! n) as [i|] eqn:E; simpl; [|done].
    f_equal. destruct i as [t o fi]. unfold upd_fi. simpl. f_equal. specialize (Hdis n _ E Hn). simpl in Hdis. unfold S in *. set_solver.
  Qed.
  Lemma remove_consistent_restrict y : consistent h y → consistent (remove_g h ns) y.
  Proof.
    intros Hy n i Hn. destruct (decide (n ∈ S)) as [Hin|Hns].
    - rewrite remove_lookup, decide_True in Hn by done. done.
    - rewrite remove_kept_lookup in Hn by done. by apply Hy.
  Qed.
  Lemma remove_acyclic : acyclic h → acyclic (remove_g h ns).
  Proof.
    intros [r Hr]. exists r. intros n i' f Hn Hf. rewrite remove_lookup in Hn. destruct (decide _); [done|].
    destruct (h !! n) as [i|] eqn:E; [|done]. injection Hn as <-. simpl in Hf. eapply Hr; eauto. set_solver.
  Qed.
  Lemma remove_free n : n ∈ free_nodes (remove_g h ns) ↔ n ∈ free_nodes h ∧ n ∉ S.
  Proof.
    unfold free_nodes. rewrite !elem_of_dom. split.
    - intros [i Hi]. apply map_filter_lookup_Some in Hi as [Hi Hf].
      assert (n ∉ S) as Hn by (intros Hin; rewrite remove_lookup, decide_True in Hi by done; done).
      rewrite remove_kept_lookup in Hi by done. split; [|done]. exists i. by apply map_filter_lookup_Some.
    - intros [[i Hi] Hn]. apply map_filter_lookup_Some in Hi as [Hi Hf]. exists i. apply map_filter_lookup_Some.
      split; [|done]. by rewrite remove_kept_lookup.
  Qed.
  (* every consistent valuation of the pruned graph extends to the whole graph, unchanged on the kept nodes *)
  Lemma remove_consistent_extend x : closed h → acyclic h → consistent (remove_g h ns) x →
    consistent h (evalc h x) ∧ agrees (free_nodes h) (evalc h x) x ∧ (∀ n, n ∈ dom h → n ∉ S → evalc h x n = x n).
  Proof.
    intros Hcl Hac Hx. split; [by apply evalc_consistent|]. split; [intros n Hn; by apply evalc_free|].
    intros n Hn HnS. destruct (remove_acyclic Hac) as [r Hr].
    symmetry. eapply (consistent_unique (remove_g h ns) r Hr); [by apply remove_closed|exact Hx| | |].
    - apply remove_consistent_restrict. by apply evalc_consistent.
    - intros m [Hm _]%remove_free. symmetry. by apply evalc_free.
    - apply elem_of_dom. rewrite remove_kept_lookup by done. by apply elem_of_dom.
  Qed.
End remove.
