(* remove_unloaded deletes exactly the dead logic (C16): specification and proofs. *)
From stdpp Require Import strings gmap sets.
From CG Require Import Sem Model.Paths Proofs.PathsProofs Model.RemoveUnloaded.
Open Scope string_scope.
Open Scope list_scope.

(* ---- specification vocabulary (DESIGN.md appendix C) ---- *)
Definition live (c : circuit) (n : string) : Prop := ∃ e, e ∈ endpoints c ∧ reach c n e.
Definition rm_ty (inp : bool) (t : gtype) : Prop := t ≠ BbIn ∧ (inp = false → t ≠ Input ∧ t ≠ BbOut).
Definition removable (c : circuit) (inp : bool) (n : string) (i : ninfo) : Prop := ¬ live c n ∧ rm_ty inp (n_ty i).

(* wiring rules that Circuit.connect enforces (C07): a bb_input pin drives nothing; inputs and bb_output pins are not driven *)
Definition bbin_sinks (c : circuit) : Prop := ∀ n i f, c !! n = Some i → f ∈ n_fi i → ty c f ≠ Some BbIn.
Definition sources_undriven (c : circuit) : Prop := ∀ n i, c !! n = Some i → n_ty i = Input ∨ n_ty i = BbOut → n_fi i = ∅.
Definition bbin_sinksb (c : circuit) : bool :=
  bool_decide (map_Forall (λ _ i, set_Forall (λ f, ty c f ≠ Some BbIn) (n_fi i)) c).
Definition sources_undrivenb (c : circuit) : bool :=
  bool_decide (map_Forall (λ _ i, n_ty i = Input ∨ n_ty i = BbOut → n_fi i = ∅) c).
Lemma bbin_sinksb_spec c : bbin_sinksb c = true ↔ bbin_sinks c.
Proof.
  unfold bbin_sinksb, bbin_sinks. rewrite bool_decide_eq_true. unfold map_Forall, set_Forall. naive_solver.
Qed.
Lemma sources_undrivenb_spec c : sources_undrivenb c = true ↔ sources_undriven c.
Proof. unfold sources_undrivenb, sources_undriven. rewrite bool_decide_eq_true. unfold map_Forall. naive_solver. Qed.

(* ---- obligation on the regenerated type lists ---- *)
Definition all_gtypes := [Buf; And; Or; Xor; Not; Nand; Nor; Xnor; C0; C1; CX; Input; BbIn; BbOut; Unsup; NoTy].
Lemma all_gtypes_complete t : t ∈ all_gtypes.
Proof. destruct t; unfold all_gtypes; set_solver. Qed.
Definition same_tin (l1 l2 : list gtype) : bool := forallb (λ t, eqb (tin t l1) (tin t l2)) all_gtypes.
Lemma same_tin_spec l1 l2 : same_tin l1 l2 = true → ∀ t, tin t l1 = tin t l2.
Proof.
  intros H t. unfold same_tin in H. rewrite forallb_forall in H.
  apply eqb_prop, H. rewrite <- elem_of_list_In. apply all_gtypes_complete.
Qed.
Definition ru_tables_ok (T : ru_tables) : bool :=
  same_tin (keep_true T) [BbIn] && same_tin (keep_false T) [BbIn; Input; BbOut] && same_tin (skip_fanin T) [Input; BbOut].
Definition doc_ru_tables := {| keep_true := [BbIn]; keep_false := [BbIn; Input; BbOut]; skip_fanin := [Input; BbOut] |}.

(* ---- graph surgery lemmas ---- *)
Lemma remove_g_lookup c n m : fanout c n = ∅ → remove_g c [n] !! m = if decide (m = n) then None else c !! m.
Proof.
  intros Hfo. unfold remove_g. rewrite lookup_fmap.
  destruct (decide (m = n)) as [->|Hne].
  - rewrite (map_filter_lookup_None_2 _ _ n); [done|]. right. intros x _. simpl. set_solver.
  - destruct (c !! m) as [i|] eqn:E.
    + rewrite (map_filter_lookup_Some_2 _ _ _ i); [|done|simpl; set_solver]. simpl. f_equal.
      destruct i as [t o fi]; unfold upd_fi; simpl. f_equal.
      assert (n ∉ fi). { intros Hin. assert (m ∈ fanout c n) by (apply elem_of_fanout; eauto). set_solver. }
      set_solver.
    + rewrite (map_filter_lookup_None_2 _ _ m); [done|]. by left.
Qed.
Lemma fanout_delete c c' n m :
  (∀ k, c' !! k = if decide (k = n) then None else c !! k) → fanout c' m = fanout c m ∖ {[n]}.
Proof.
  intros H. apply set_eq. intros w. rewrite elem_of_difference, !elem_of_fanout, H, elem_of_singleton.
  destruct (decide (w = n)); naive_solver.
Qed.
Lemma filter_none {A} (P : A → Prop) `{∀ x, Decision (P x)} (l : list A) : (∀ x, x ∈ l → ¬ P x) → filter P l = [].
Proof.
  induction l as [|a l IH]; intros H'; [done|]. rewrite filter_cons_False by (apply H'; left).
  apply IH. intros x Hx. apply H'. by right.
Qed.
Lemma NoDup_reverse {A} (l : list A) : NoDup l → NoDup (reverse l).
Proof. by rewrite reverse_Permutation. Qed.
Lemma diff_single_empty (X : gset string) n : X ∖ {[n]} = ∅ → X ≠ ∅ → X = {[n]}.
Proof.
  intros Hd Hne. assert (∀ x, x ∈ X → x = n) as Hall.
  { intros x Hx. destruct (decide (x = n)) as [|Hxn]; [done|]. exfalso.
    assert (x ∈ X ∖ {[n]}) as Hx' by (apply elem_of_difference; split; [done|by rewrite elem_of_singleton]).
    rewrite Hd in Hx'. by apply elem_of_empty in Hx'. }
  apply set_eq. intros x. rewrite elem_of_singleton. split; [apply Hall|]. intros ->.
  apply set_choose_L in Hne as [w Hw]. by rewrite <- (Hall w Hw).
Qed.
Lemma order_ok_spec l s : order_ok l s = true ↔ NoDup l ∧ ∀ x, x ∈ l ↔ x ∈ s.
Proof.
  unfold order_ok. rewrite bool_decide_eq_true. split; intros [? H]; (split; [done|]).
  - intros x. by rewrite <- H, elem_of_list_to_set.
  - apply set_eq. intros x. by rewrite elem_of_list_to_set.
Qed.

Lemma ru_loop_nil T inp ord fuel c rem : ru_loop T inp ord fuel c [] rem = Ok (c, rem).
Proof. by destruct fuel. Qed.

Section with_tables.
  Context (T : ru_tables) (HT : ru_tables_ok T = true).

  Lemma keep_spec inp t : tin t (ru_keep T inp) = false ↔ rm_ty inp t.
  Proof.
    unfold ru_tables_ok in HT. rewrite !andb_true_iff in HT. destruct HT as [[H1 H2] _].
    unfold ru_keep, rm_ty. destruct inp; [rewrite (same_tin_spec _ _ H1)|rewrite (same_tin_spec _ _ H2)];
      destruct t; vm_compute; intuition congruence.
  Qed.
  Lemma skip_spec t : tin t (skip_fanin T) = true ↔ t = Input ∨ t = BbOut.
  Proof.
    unfold ru_tables_ok in HT. rewrite !andb_true_iff in HT. destruct HT as [_ H3].
    rewrite (same_tin_spec _ _ H3). destruct t; vm_compute; intuition congruence.
  Qed.

  Section run.
    Context (inp : bool) (ord : string → list string) (c0 : circuit).
    Hypothesis Hsinks : bbin_sinks c0.

    (* loop invariant: c = c0 without the removed nodes; the stack holds exactly the unloaded removable nodes of c *)
    Record inv (c : circuit) (st rem : list string) : Prop := {
      inv_look : ∀ m, c !! m = if decide (m ∈ rem) then None else c0 !! m;
      inv_nd_st : NoDup st;
      inv_st : ∀ m, m ∈ st → ∃ i, c !! m = Some i ∧ rm_ty inp (n_ty i) ∧ n_out i = false ∧ fanout c m = ∅;
      inv_full : ∀ m i, c !! m = Some i → rm_ty inp (n_ty i) → n_out i = false → fanout c m = ∅ → m ∈ st;
      inv_nd_rem : NoDup rem;
      inv_dead : ∀ m, m ∈ rem → ∃ i, c0 !! m = Some i ∧ removable c0 inp m i;
    }.

    Lemma inv_c0 c st rem m i : inv c st rem → c !! m = Some i → c0 !! m = Some i ∧ m ∉ rem.
    Proof. intros I Hm. rewrite (inv_look _ _ _ I) in Hm. by case_decide. Qed.

    Lemma ru_push_spec c fi : ru_push T inp c fi = true ↔
      ∃ j, c !! fi = Some j ∧ (inp = false → n_ty j ≠ Input ∧ n_ty j ≠ BbOut) ∧ n_out j = false ∧ size (fanout c fi) = 1.
    Proof.
      unfold ru_push. destruct (c !! fi) as [j|]; [|naive_solver].
      assert (negb (negb inp && tin (n_ty j) (skip_fanin T)) = true ↔ (inp = false → n_ty j ≠ Input ∧ n_ty j ≠ BbOut)) as Hk.
      { pose proof (skip_spec (n_ty j)) as Hs. destruct inp; simpl; [split; [discriminate|done]|].
        destruct (tin (n_ty j) (skip_fanin T)); simpl; split; try done.
        - intros H. destruct (proj1 Hs eq_refl) as [E|E]; destruct (H eq_refl); congruence.
        - intros _ _. split; intros E; [specialize (proj2 Hs (or_introl E))|specialize (proj2 Hs (or_intror E))]; done. }
      rewrite !andb_true_iff, Hk, negb_true_iff, bool_decide_eq_true. split.
      - intros [[? ?] ?]. eauto 10.
      - intros (? & [= <-] & ? & ? & ?). done.
    Qed.

    Lemma size1_elem (X : gset string) n : size X = 1 → n ∈ X → X = {[n]}.
    Proof.
      intros Hs Hn. apply set_eq. intros x. rewrite elem_of_singleton. split; [|by intros ->].
      intros Hx. exact (size_singleton_inv X x n Hs Hx Hn).
    Qed.

    Lemma inv_step c n rest rem :
      inv c (n :: rest) rem → order_ok (ord n) (fanin c n) = true →
      inv (remove_g c [n]) (reverse (filter (λ fi, ru_push T inp c fi = true) (ord n)) ++ rest) (rem ++ [n]).
    Proof.
      intros I [Hnd Hord]%order_ok_spec.
      destruct (inv_st _ _ _ I n) as (i & Hn & Hty & Hout & Hfo); [by left|].
      pose proof (remove_g_lookup c n) as Hl. specialize (λ m, Hl m Hfo).
      pose proof (λ m, fanout_delete c (remove_g c [n]) n m Hl) as Hfd.
      pose proof (NoDup_cons_1_1 _ _ (inv_nd_st _ _ _ I)) as Hnrest.
      pose proof (NoDup_cons_1_2 _ _ (inv_nd_st _ _ _ I)) as Hndrest.
      destruct (inv_c0 _ _ _ _ _ I Hn) as [Hn0 Hnrem].
      assert (∀ m, m ∈ filter (λ fi, ru_push T inp c fi = true) (ord n) →
                 m ≠ n ∧ ∃ j, c !! m = Some j ∧ rm_ty inp (n_ty j) ∧ n_out j = false ∧ fanout c m = {[n]}) as Hnew.
      { intros m [Hp Hm]%elem_of_list_filter. apply Hord in Hm.
        apply ru_push_spec in Hp as (j & Hj & Htj & Hoj & Hsz).
        assert (n ∈ fanout c m) as Hnm by (by apply fanout_fanin).
        split. { intros ->. rewrite Hfo in Hnm. clear -Hnm. set_solver. }
        exists j. split; [done|]. split; [|split; [done|by apply size1_elem]].
        split; [|done]. intros Hbb. apply elem_of_fanin in Hm as (i' & Hi' & Hmi). rewrite Hn in Hi'. injection Hi' as <-.
        destruct (inv_c0 _ _ _ _ _ I Hj) as [Hj0 _].
        apply (Hsinks _ _ _ Hn0 Hmi). unfold ty. rewrite Hj0. simpl. by rewrite Hbb. }
      split.
      - intros m. rewrite Hl, (inv_look _ _ _ I).
        destruct (decide (m = n)) as [->|Hne]; [rewrite decide_True by (clear; set_solver); done|].
        destruct (decide (m ∈ rem)) as [Hmr|Hmr]; [rewrite decide_True by (clear -Hmr; set_solver)|rewrite decide_False by (clear -Hmr Hne; set_solver)]; done.
      - apply NoDup_app. split; [apply NoDup_reverse, NoDup_filter, Hnd|]. split; [|done].
        intros m Hm Hr. rewrite elem_of_reverse in Hm. destruct (Hnew m Hm) as (_ & j & _ & _ & _ & Hfm).
        destruct (inv_st _ _ _ I m) as (_ & _ & _ & _ & Hfm'); [by right|]. rewrite Hfm in Hfm'. clear -Hfm'. set_solver.
      - intros m [Hm|Hm]%elem_of_app.
        + rewrite elem_of_reverse in Hm. destruct (Hnew m Hm) as (Hne & j & Hj & ? & ? & Hfm). exists j. rewrite Hl, Hfd, Hfm.
          rewrite decide_False by done. split; [done|]. split; [done|]. split; [done|]. apply difference_diag_L.
        + destruct (inv_st _ _ _ I m) as (j & Hj & ? & ? & Hfm); [by right|]. exists j. rewrite Hl, Hfd, Hfm.
          rewrite decide_False by (intros ->; done). split; [done|]. split; [done|]. split; [done|]. apply set_eq. intros x. rewrite elem_of_difference. split; [intros [Hx _]|intros Hx]; by apply elem_of_empty in Hx.
      - intros m j. rewrite Hl, Hfd. destruct (decide (m = n)) as [->|Hne]; [done|]. intros Hj Htj Hoj Hfm.
        rewrite elem_of_app, elem_of_reverse. destruct (decide (fanout c m = ∅)) as [He|He].
        + right. pose proof (inv_full _ _ _ I m j Hj Htj Hoj He) as Hin. apply elem_of_cons in Hin as [?|?]; done.
        + left. apply elem_of_list_filter.
          pose proof (diff_single_empty _ _ Hfm He) as Hfn.
          split; [|apply Hord, fanout_fanin; rewrite Hfn; by apply elem_of_singleton]. apply ru_push_spec. exists j. split; [done|].
          split; [by apply Htj|]. split; [done|]. by rewrite Hfn, size_singleton.
      - apply NoDup_app. split; [apply (inv_nd_rem _ _ _ I)|]. split; [|apply NoDup_singleton].
        intros m Hm ->%elem_of_list_singleton. done.
      - intros m [Hm|Hm]%elem_of_app; [by apply (inv_dead _ _ _ I)|]. apply elem_of_list_singleton in Hm as ->.
        exists i. split; [done|]. split; [|done].
        intros (e & He & [[<- _]|(w & Hw & Hr)%reach1_inv]%reach_case).
        + apply elem_of_union in He as [(i' & Hi' & Ho)%elem_of_outputs|(i' & Hi' & Hb)%elem_of_of_type].
          * rewrite Hn0 in Hi'. injection Hi' as <-. congruence.
          * rewrite Hn0 in Hi'. injection Hi' as <-. unfold is_ty in Hb. apply bool_decide_eq_true in Hb. by destruct Hty.
        + apply elem_of_fanin in Hw as (iw & Hiw & Hnw).
          destruct (decide (w ∈ rem)) as [Hwr|Hwr].
          * destruct (inv_dead _ _ _ I w Hwr) as (? & _ & Hdead & _). apply Hdead. by exists e.
          * assert (w ∈ fanout c n) as Hwn; [|rewrite Hfo in Hwn; clear -Hwn; set_solver]. apply elem_of_fanout. exists iw. split; [|done].
            rewrite (inv_look _ _ _ I). by rewrite decide_False.
    Qed.

    Lemma ru_loop_inv fuel : ∀ c st rem c' removed,
      inv c st rem → ru_loop T inp ord fuel c st rem = Ok (c', removed) → inv c' [] removed.
    Proof.
      induction fuel as [|fuel IH]; intros c st rem c' removed I; destruct st as [|n rest]; simpl.
      - intros [= <- <-]. done.
      - done.
      - intros [= <- <-]. done.
      - destruct (negb (bool_decide (n ∈ dom c))); [done|].
        destruct (order_ok (ord n) (fanin c n)) eqn:Ho; simpl; [|done].
        apply IH. by apply inv_step.
    Qed.

    (* enough fuel, legal orders: the loop terminates normally *)
    Lemma remove_g_size c n : n ∈ dom c → fanout c n = ∅ → size (remove_g c [n]) < size c.
    Proof.
      intros Hn Hfo. rewrite <- !size_dom. apply subset_size.
      assert (∀ m, m ∈ dom (remove_g c [n]) ↔ m ∈ dom c ∧ m ≠ n) as Hd.
      { intros m. rewrite !elem_of_dom, remove_g_lookup by done. destruct (decide (m = n)); split; intros H; try done.
        - by destruct H.
        - by destruct H.
        - by destruct H. }
      split; [intros m; rewrite Hd; tauto|]. intros Hsub. specialize (Hsub n Hn). apply Hd in Hsub. by destruct Hsub.
    Qed.
    Lemma ru_loop_total fuel : ∀ c st rem,
      inv c st rem → size c ≤ fuel → (∀ n, n ∈ dom c0 → order_ok (ord n) (fanin c0 n) = true) →
      ∃ c' removed, ru_loop T inp ord fuel c st rem = Ok (c', removed).
    Proof.
      induction fuel as [|fuel IH]; intros c st rem I Hsz Hord; destruct st as [|n rest]; simpl; eauto.
      - destruct (inv_st _ _ _ I n) as (i & Hn & _); [by left|].
        assert (n ∈ dom c) as Hd by (apply elem_of_dom; eauto). pose proof (size_dom c) as E.
        assert (size (dom c) ≠ 0); [|lia]. apply size_non_empty_iff. clear -Hd. set_solver.
      - destruct (inv_st _ _ _ I n) as (i & Hn & _ & _ & Hfo); [by left|].
        assert (n ∈ dom c) as Hd by (apply elem_of_dom; eauto).
        rewrite (bool_decide_eq_true_2 _ Hd). simpl.
        destruct (inv_c0 _ _ _ _ _ I Hn) as [Hn0 _].
        assert (fanin c n = fanin c0 n) as -> by (unfold fanin; by rewrite Hn, Hn0).
        rewrite Hord by (apply elem_of_dom; eauto). simpl.
        apply IH; [|pose proof (remove_g_size c n Hd Hfo); lia|done].
        assert (fanin c0 n = fanin c n) as E by (unfold fanin; by rewrite Hn, Hn0).
        apply inv_step; [done|]. rewrite <- E. apply Hord. apply elem_of_dom; eauto.
    Qed.
  End run.

  Lemma ru_unloaded_spec inp c n : ru_unloaded T inp c n = true ↔
    ∃ i, c !! n = Some i ∧ rm_ty inp (n_ty i) ∧ n_out i = false ∧ fanout c n = ∅.
  Proof.
    unfold ru_unloaded. destruct (c !! n) as [i|]; [|naive_solver].
    rewrite !andb_true_iff, !negb_true_iff, bool_decide_eq_true, keep_spec. naive_solver.
  Qed.

  Lemma inv_init inp c nodes : order_ok nodes (dom c) = true →
    inv inp c c (reverse (filter (λ n, ru_unloaded T inp c n = true) nodes)) [].
  Proof.
    intros [Hnd Hn]%order_ok_spec. split.
    - intros m. by rewrite decide_False by set_solver.
    - by apply NoDup_reverse, NoDup_filter.
    - intros m Hm. rewrite elem_of_reverse in Hm. apply elem_of_list_filter in Hm as [Hm _]. by apply ru_unloaded_spec.
    - intros m i Hi ? ? ?. apply elem_of_reverse, elem_of_list_filter. split; [apply ru_unloaded_spec; eauto|].
      apply Hn, elem_of_dom. eauto.
    - constructor.
    - intros m Hm. by apply elem_of_nil in Hm.
  Qed.

  (* every surviving dead removable node starts arbitrarily long paths *)
  Lemma dead_chain inp c0 c' removed : inv inp c0 c' [] removed → sources_undriven c0 →
    ∀ k m i, c' !! m = Some i → rm_ty inp (n_ty i) → ¬ live c0 m → ∃ v, path c0 m v k.
  Proof.
    intros I Hsrc. induction k as [|k IH]; intros m i Hm Hty Hdead.
    - exists m. apply path_0. split; [done|]. destruct (inv_c0 _ _ _ _ _ _ _ I Hm) as [? _]. apply elem_of_dom; eauto.
    - destruct (inv_c0 _ _ _ _ _ _ _ I Hm) as [Hm0 _].
      assert (m ∈ dom c0) as Hd by (apply elem_of_dom; eauto).
      assert (n_out i = false) as Hout.
      { destruct (n_out i) eqn:E; [|done]. destruct Hdead. exists m. split; [|by apply reach_refl].
        apply elem_of_union_l, elem_of_outputs. eauto. }
      assert (fanout c' m ≠ ∅) as Hne.
      { intros He. pose proof (inv_full _ _ _ _ _ I m i Hm Hty Hout He) as Hin. by apply elem_of_nil in Hin. }
      apply set_choose_L in Hne as [w (j & Hw & Hmj)%elem_of_fanout].
      destruct (inv_c0 _ _ _ _ _ _ _ I Hw) as [Hw0 _].
      assert (m ∈ fanin c0 w) as Hmw by (apply elem_of_fanin; eauto).
      assert (¬ live c0 w) as Hdw.
      { intros (e & He & Hr). apply Hdead. exists e. split; [done|]. apply reach1_reach. by eapply reach_step. }
      assert (rm_ty inp (n_ty j)) as Htj.
      { split.
        - intros Hb. apply Hdw. exists w. split; [|apply reach_refl, elem_of_dom; eauto].
          apply elem_of_union_r, elem_of_of_type. exists j. split; [done|]. unfold is_ty. by apply bool_decide_eq_true.
        - intros _. split; intros Ht; [pose proof (Hsrc _ _ Hw0 (or_introl Ht)) as He|pose proof (Hsrc _ _ Hw0 (or_intror Ht)) as He]; rewrite He in Hmj; clear -Hmj; set_solver. }
      destruct (IH w j Hw Htj Hdw) as [v Hv]. exists v. by eapply path_step.
  Qed.

  (* ---- the property ---- *)
  Theorem remove_unloaded_spec C inp nodes ord C' removed :
    closed (c_g C) → bbin_sinks (c_g C) →
    remove_unloaded_with T C inp nodes ord = Ok (C', removed) →
    NoDup removed ∧
    (∀ n, n ∈ removed → ∃ i, c_g C !! n = Some i ∧ removable (c_g C) inp n i) ∧
    (¬ has_cycle (c_g C) → sources_undriven (c_g C) →
       ∀ n i, c_g C !! n = Some i → removable (c_g C) inp n i → n ∈ removed) ∧
    (∀ n, n ∉ removed → c_g C' !! n = c_g C !! n) ∧ (∀ n, n ∈ removed → c_g C' !! n = None) ∧
    c_name C' = c_name C ∧ c_bbs C' = c_bbs C ∧
    (∀ nodes' ord', order_ok nodes' (dom (c_g C')) = true → remove_unloaded_with T C' inp nodes' ord' = Ok (C', [])).
  Proof.
    intros Hcl Hsinks. unfold remove_unloaded_with.
    destruct (order_ok nodes (dom (c_g C))) eqn:Ho; simpl; [|done].
    case_bool_decide as Hty; [|done].
    destruct (ru_loop T inp ord (size (c_g C)) (c_g C) _ []) as [[c' r]| | |] eqn:Hrun; simpl; try done.
    intros [= <- <-]. simpl.
    pose proof (ru_loop_inv inp ord (c_g C) Hsinks _ _ _ _ _ _ (inv_init inp (c_g C) nodes Ho) Hrun) as I.
    split; [apply (inv_nd_rem _ _ _ _ _ I)|].
    split; [apply (inv_dead _ _ _ _ _ I)|].
    split.
    { intros Hac Hsrc n i Hn [Hdead Hrt]. destruct (decide (n ∈ r)) as [|Hnr]; [done|]. exfalso.
      assert (c' !! n = Some i) as Hn' by (rewrite (inv_look _ _ _ _ _ I); by rewrite decide_False).
      destruct (dead_chain inp (c_g C) c' r I Hsrc (size (c_g C)) n i Hn' Hrt Hdead) as [v Hv].
      pose proof (path_bound _ _ _ _ Hcl Hac Hv). lia. }
    split; [intros n Hn; rewrite (inv_look _ _ _ _ _ I); by rewrite decide_False|].
    split; [intros n Hn; rewrite (inv_look _ _ _ _ _ I); by rewrite decide_True|].
    split; [done|]. split; [done|].
    intros nodes' ord' Ho'. rewrite Ho'. simpl.
    rewrite bool_decide_eq_true_2.
    2:{ intros m i Hm. destruct (inv_c0 _ _ _ _ _ _ _ I Hm) as [Hm0 _]. by eapply Hty. }
    rewrite filter_none; [rewrite reverse_nil, ru_loop_nil; reflexivity|].
    intros m _ (i & Hi & ? & ? & ?)%ru_unloaded_spec.
    pose proof (inv_full _ _ _ _ _ I m i Hi) as Hin. by apply elem_of_nil in Hin; auto.
  Qed.

  Corollary remove_unloaded_exact C inp nodes ord C' removed :
    closed (c_g C) → ¬ has_cycle (c_g C) → bbin_sinks (c_g C) → sources_undriven (c_g C) →
    remove_unloaded_with T C inp nodes ord = Ok (C', removed) →
    ∀ n, n ∈ removed ↔ ∃ i, c_g C !! n = Some i ∧ removable (c_g C) inp n i.
  Proof.
    intros Hc Hac Hs Hu Hr n. destruct (remove_unloaded_spec _ _ _ _ _ _ Hc Hs Hr) as (_ & Hsound & Hcompl & _).
    split; [apply Hsound|]. intros (i & Hi & Hrm). by eapply Hcompl.
  Qed.

  Theorem remove_unloaded_total C inp nodes ord :
    bbin_sinks (c_g C) → map_Forall (λ _ i, n_ty i ≠ NoTy) (c_g C) →
    order_ok nodes (dom (c_g C)) = true → (∀ n, n ∈ dom (c_g C) → order_ok (ord n) (fanin (c_g C) n) = true) →
    ∃ C' removed, remove_unloaded_with T C inp nodes ord = Ok (C', removed).
  Proof.
    intros Hsinks Hty Ho Hord. unfold remove_unloaded_with. rewrite Ho. simpl. rewrite bool_decide_eq_true_2 by done.
    destruct (ru_loop_total inp ord (c_g C) Hsinks (size (c_g C)) _ _ _ (inv_init inp (c_g C) nodes Ho) (le_n _) Hord) as (c' & r & ->).
    simpl. eauto.
  Qed.
End with_tables.


(* ---- the specification made executable (used by the oracle in Run_C16) ---- *)
From CG Require Import Model.Queries Proofs.QueriesProofs.

Definition live_set (c : circuit) : gset string := endpoints c ∪ tfi c (elements (endpoints c)).
Definition rm_tyb (inp : bool) (t : gtype) : bool :=
  negb (bool_decide (t = BbIn)) && (inp || negb (bool_decide (t = Input)) && negb (bool_decide (t = BbOut))).
Definition dead_removable (c : circuit) (inp : bool) : gset string :=
  let L := live_set c in dom (filter (λ p, p.1 ∉ L ∧ rm_tyb inp (n_ty p.2) = true) c).

Lemma endpoints_dom c e : e ∈ endpoints c → e ∈ dom c.
Proof.
  intros [(i & Hi & _)%elem_of_outputs|(i & Hi & _)%elem_of_of_type]%elem_of_union; apply elem_of_dom; eauto.
Qed.
Lemma live_set_spec c n : closed c → n ∈ live_set c ↔ live c n.
Proof.
  intros Hc. unfold live_set, live. rewrite elem_of_union, tfi_spec by done. setoid_rewrite elem_of_elements. split.
  - intros [He|(e & He & Hr)]; [exists n; split; [done|]; by apply reach_refl, endpoints_dom|].
    exists e. split; [done|by apply reach1_reach].
  - intros (e & He & [[-> _]|Hr]%reach_case); [by left|right; eauto].
Qed.
Lemma rm_tyb_spec inp t : rm_tyb inp t = true ↔ rm_ty inp t.
Proof. unfold rm_tyb, rm_ty. destruct inp, t; vm_compute; intuition congruence. Qed.
Lemma dead_removable_spec c inp n : closed c →
  n ∈ dead_removable c inp ↔ ∃ i, c !! n = Some i ∧ removable c inp n i.
Proof.
  intros Hc. unfold dead_removable, removable. cbv zeta. rewrite elem_of_dom. unfold is_Some.
  setoid_rewrite map_filter_lookup_Some. simpl. setoid_rewrite (live_set_spec c n Hc). setoid_rewrite rm_tyb_spec. done.
Qed.
