(* C08, signal_probability: the cone {n} ∪ transitive fan-in is closed under fan-in and consists of the nodes that reach n;
   the sub-circuit on it is the restriction of the circuit; hence the exact count over the cone's startpoints is the number of
   valuations of the startpoints reaching n under which n is 1 in the whole (acyclic) circuit. *)
From stdpp Require Import strings gmap sets fin_sets.
From CG Require Import Base.Fold Cnf.Tmpl.
From CG Require Import Model.Lint Proofs.LintProofs.
From CG Require Import Model.Sat.
From CG Require Import Proofs.SatProofs Proofs.SatCount.
Local Open Scope list_scope.

(* paths along fan-in edges (DESIGN.md appendix C) *)
Inductive pathl (c : circuit) : string → string → list string → Prop :=
| pathl_nil u : u ∈ dom c → pathl c u u [u]
| pathl_step u w v l : u ∈ fanin c w → pathl c w v l → pathl c u v (u :: l).
Definition reach (c : circuit) (u v : string) : Prop := ∃ l, pathl c u v l.
Lemma reach_refl c u : u ∈ dom c → reach c u u.
Proof. intros. eexists. by constructor. Qed.
Lemma reach_step c u w v : u ∈ fanin c w → reach c w v → reach c u v.
Proof. intros Hu [l Hl]. eexists. by econstructor. Qed.
Lemma reach_trans c u w v : reach c u w → reach c w v → reach c u v.
Proof.
  intros [l Hl] Hv. induction Hl as [u Hu|u x w l Hux _ IH]; [done|]. eapply reach_step; [done|]. by apply IH.
Qed.

(* ---- the iteration that computes the cone ---- *)
Notation step c s := (s ∪ fanins c s) (only parsing).
Lemma elem_of_fanins c s x : x ∈ fanins c s ↔ ∃ y, y ∈ s ∧ x ∈ fanin c y.
Proof.
  unfold fanins. rewrite elem_of_union_list. split.
  - intros (X & HX & Hx). apply elem_of_list_fmap in HX as (y & -> & Hy). apply elem_of_elements in Hy. eauto.
  - intros (y & Hy & Hx). exists (fanin c y). split; [|done]. apply elem_of_list_fmap. exists y. split; [done|]. by apply elem_of_elements.
Qed.
Lemma tfi_n_S k c s : tfi_n (S k) c s = tfi_n k c (step c s).
Proof. done. Qed.
Lemma tfi_incl k c s : s ⊆ tfi_n k c s.
Proof. revert s. induction k as [|k IH]; intros s; [done|]. rewrite tfi_n_S. etrans; [|apply IH]. set_solver. Qed.
Lemma tfi_n_fix k c s : step c s = s → tfi_n k c s = s.
Proof. intros H. induction k as [|k IH]; [done|]. by rewrite tfi_n_S, H. Qed.
Lemma step_dom c s : closed c → s ⊆ dom c → step c s ⊆ dom c.
Proof.
  intros Hcl Hs x [Hx|Hx]%elem_of_union; [auto|]. apply elem_of_fanins in Hx as (y & Hy & Hx).
  apply elem_of_fanin in Hx as (i & Hi & Hx). eapply Hcl; eauto.
Qed.
Lemma tfi_n_dom k c s : closed c → s ⊆ dom c → tfi_n k c s ⊆ dom c.
Proof. intros Hcl. revert s. induction k as [|k IH]; intros s Hs; [done|]. rewrite tfi_n_S. apply IH. by apply step_dom. Qed.
(* after enough rounds the set is stable *)
Lemma tfi_n_stable c : closed c → ∀ k s, s ⊆ dom c → size (dom c) ≤ size s + k → step c (tfi_n k c s) = tfi_n k c s.
Proof.
  intros Hcl k. induction k as [|k IH]; intros s Hs Hsz.
  - simpl. apply set_eq. intros x. split; [|set_solver].
    intros Hx. assert (dom c ⊆ s) as Hds.
    { destruct (decide (dom c ⊆ s)) as [|Hns]; [done|]. exfalso.
      assert (s ⊂ dom c) as Hsub by (split; done). apply subset_size in Hsub. lia. }
    apply Hds. by apply (step_dom c s Hcl Hs).
  - rewrite tfi_n_S. destruct (decide (step c s = s)) as [E|E].
    + rewrite E. by rewrite (tfi_n_fix k c s E).
    + apply IH; [by apply step_dom|].
      assert (s ⊂ step c s) as Hsub.
      { split; [set_solver|]. intros H. apply E. apply set_eq. intros x. split; [apply H|set_solver]. }
      apply subset_size in Hsub. lia.
Qed.

Section cone.
  Context (c : circuit) (n : string).
  Hypothesis Hcl : closed c.
  Hypothesis Hn : n ∈ dom c.
  Notation K := (cone c n).

  Lemma cone_self : n ∈ K.
  Proof. unfold cone. apply (tfi_incl (size c) c {[n]}). set_solver. Qed.
  Lemma cone_dom : K ⊆ dom c.
  Proof. unfold cone. apply tfi_n_dom; [done|]. set_solver. Qed.
  Lemma cone_closed m f : m ∈ K → f ∈ fanin c m → f ∈ K.
  Proof.
    intros Hm Hf. unfold cone. rewrite <- (tfi_n_stable c Hcl (size c) {[n]}).
    - apply elem_of_union. right. apply elem_of_fanins. eauto.
    - set_solver.
    - rewrite size_singleton, size_dom. lia.
  Qed.
  Lemma tfi_n_reach k : ∀ s m, s ⊆ dom c → m ∈ tfi_n k c s → ∃ x, x ∈ s ∧ reach c m x.
  Proof.
    induction k as [|k IH]; intros s m Hs Hm.
    - exists m. split; [done|]. apply reach_refl. by apply Hs.
    - rewrite tfi_n_S in Hm. destruct (IH (step c s) m (step_dom c s Hcl Hs) Hm) as (x & Hx & Hr).
      apply elem_of_union in Hx as [Hx|Hx]; [eauto|].
      apply elem_of_fanins in Hx as (y & Hy & Hx). exists y. split; [done|].
      eapply reach_trans; [done|]. eapply reach_step; [done|]. apply reach_refl. by apply Hs.
  Qed.
  Lemma cone_reach m : m ∈ K ↔ reach c m n.
  Proof.
    split.
    - intros Hm. destruct (tfi_n_reach (size c) {[n]} m) as (x & Hx & Hr); [set_solver|done|].
      apply elem_of_singleton in Hx. by subst.
    - intros [l Hl]. remember n as v eqn:Ev. induction Hl as [u Hu|u w v l Huw _ IH]; subst.
      + apply cone_self.
      + eapply cone_closed; [by apply IH|done].
  Qed.

  (* the sub-circuit is the restriction of c to the cone *)
  Lemma sub_lookup m i : subgraph c K !! m = Some i ↔ m ∈ K ∧ c !! m = Some i.
  Proof.
    unfold subgraph. rewrite lookup_fmap. split.
    - intros H. destruct (filter _ c !! m) as [j|] eqn:E; [|done]. simpl in H. injection H as <-.
      apply map_filter_lookup_Some in E as [Hj Hm]. simpl in Hm. split; [done|]. rewrite Hj. f_equal.
      destruct j as [t o fi]. unfold upd_fi. simpl. f_equal. apply set_eq. intros f. split; [|set_solver].
      intros Hf. apply elem_of_intersection. split; [done|]. eapply cone_closed; [done|]. apply elem_of_fanin. eauto.
    - intros [Hm Hi]. rewrite (map_filter_lookup_Some_2 _ _ m i Hi Hm). simpl. f_equal.
      destruct i as [t o fi]. unfold upd_fi. simpl. f_equal. apply set_eq. intros f. split; [set_solver|].
      intros Hf. apply elem_of_intersection. split; [done|]. eapply cone_closed; [done|]. apply elem_of_fanin. eauto.
  Qed.
  Lemma sub_closed : closed (subgraph c K).
  Proof.
    intros m i f [Hm Hi]%sub_lookup Hf.
    assert (f ∈ K) as HfK by (eapply cone_closed; [done|]; apply elem_of_fanin; eauto).
    assert (f ∈ dom c) as [j Hj]%elem_of_dom by (eapply Hcl; eauto).
    apply elem_of_dom. exists j. by apply sub_lookup.
  Qed.
  Lemma sub_acyclic : acyclic c → acyclic (subgraph c K).
  Proof. intros [r Hr]. exists r. intros m i f [_ Hi]%sub_lookup Hf. eauto. Qed.
  Lemma sub_consistent v : consistent c v → consistent (subgraph c K) v.
  Proof. intros Hv m i [_ Hi]%sub_lookup. eauto. Qed.
  Lemma sub_startpoints s : s ∈ startpoints (subgraph c K) ↔ s ∈ startpoints c ∧ reach c s n.
  Proof.
    unfold startpoints. rewrite !elem_of_of_type, <- cone_reach. split.
    - intros (i & [? ?]%sub_lookup & ?). eauto.
    - intros [(i & ? & ?) ?]. exists i. split; [|done]. by apply sub_lookup.
  Qed.
End cone.

Lemma startpoints_free c m : m ∈ startpoints c → m ∈ free_nodes c.
Proof.
  unfold startpoints, free_nodes. rewrite elem_of_of_type, elem_of_dom. intros (i & Hi & Ht). exists i.
  apply map_filter_lookup_Some. split; [done|]. simpl. unfold is_free, is_ty in *. destruct (n_ty i); done.
Qed.

Section sp_full.
  Context (T : cnf_tables).
  Hypothesis Htab : cnf_tables_ok T = true.

  Lemma node_cnf_not_x m i ops G : node_cnf T m i ops = Ok G → n_ty i ≠ CX.
  Proof.
    intros H E. destruct (CG.Proofs.SatProofs.tab_facts T Htab) as (Hdem & Hb & _). specialize (Hb CX).
    unfold node_cnf, demote in H. rewrite E, Hdem in H. simpl in H.
    destruct (decide (CX = NoTy)); [done|].
    destruct (decide (length ops = 1)); destruct (assoc CX (t_branches T)) as [[]|]; simpl in Hb; done.
  Qed.
  Lemma cnf_nodes_each ord l F : cnf_nodes T ord l = Ok F →
    ∀ m i, (m, i) ∈ l → ∃ ops G, ops_of ord m i = Ok ops ∧ node_cnf T m i ops = Ok G.
  Proof.
    revert F. induction l as [|[m' j] l IH]; intros F HF m i Hin; [by apply elem_of_nil in Hin|]. simpl in HF.
    destruct (ops_of ord m' j) as [ops| | |] eqn:Eo; simpl in HF; try done.
    destruct (node_cnf T m' j ops) as [G| | |] eqn:EG; simpl in HF; try done.
    destruct (cnf_nodes T ord l) as [F'| | |] eqn:EF; simpl in HF; try done.
    apply elem_of_cons in Hin as [[= -> ->]|Hin]; [eauto|]. eapply IH; eauto.
  Qed.

  Context (solver : solver_t).
  Hypothesis solver_sound : ∀ F a, solver F = Some a → sat a F.
  Hypothesis solver_complete : ∀ F, solver F = None → ∀ a, ¬ sat a F.

  Theorem signal_probability_full C n q : lint_clean C → closed (c_g C) → acyclic (c_g C) → n ∈ dom (c_g C) →
    signal_probability_with solver T C n = Ok q →
    ∃ (sp : gset string) (l : list (gmap string bool)),
      (∀ s, s ∈ sp ↔ s ∈ startpoints (c_g C) ∧ reach (c_g C) s n) ∧ NoDup l ∧
      (∀ ρ, ρ ∈ l ↔ dom ρ = sp ∧ ∀ v, consistent (c_g C) v → agreesA ρ v → v n = true) ∧
      QArith_base.Qeq q (QArith_base.Qmake (Z.of_nat (length l)) (Pos.of_nat (2 ^ size sp))).
  Proof.
    intros Hl Hcl Hac Hn Hq. pose proof Hq as Hq0.
    unfold signal_probability_with in Hq.
    destruct (subcircuit C (cone (c_g C) n)) as [S| | |] eqn:ES; simpl in Hq; try done.
    assert (HS : c_g S = subgraph (c_g C) (cone (c_g C) n)).
    { unfold subcircuit in ES. destruct (has_bb_pin _ _); [done|]. by injection ES as <-. }
    simpl in Hq.
    destruct (model_count_with solver T S (default_ord (c_g S)) {[n := true]}) as [k| | |] eqn:Emc; simpl in Hq; try done.
    assert (Hwf : cnf_wf (c_g S)).
    { unfold model_count_with in Emc.
      destruct (cnf_assume T S (default_ord (c_g S)) {[n := true]}) as [F'| | |] eqn:EF'; simpl in Emc; try done.
      unfold cnf_assume in EF'. destruct (cnf_with T S (default_ord (c_g S))) as [F| | |] eqn:EF; simpl in EF'; try done.
      intros m i Hm. pose proof Hm as Hm'. rewrite HS in Hm. apply sub_lookup in Hm as [HmK Hmi]; [|done|done].
      apply (lint_node_wf C m i Hl Hmi).
      destruct (cnf_nodes_each _ _ _ EF m i) as (ops & G & _ & HG); [by apply elem_of_map_to_list|].
      by eapply node_cnf_not_x. }
    destruct (signal_probability_partial T Htab solver solver_sound solver_complete C n S ES Hwf Hn) as (k' & Hk' & l & Hnd & Hlen & Hl').
    rewrite Hk' in Hq0. injection Hq0 as <-.
    exists (startpoints (c_g S)), l. split; [|split; [done|split]].
    - intros s. rewrite HS. by apply sub_startpoints.
    - intros ρ. rewrite Hl'. unfold extendable.
      assert (Hcl' : closed (c_g S)) by (rewrite HS; by apply sub_closed).
      assert (HnS : n ∈ dom (c_g S)).
      { pose proof Hn as [i Hi]%elem_of_dom. apply elem_of_dom. exists i. rewrite HS.
        apply (proj2 (sub_lookup (c_g C) n Hcl Hn n i)). split; [by apply cone_self|done]. }
      split; intros [Hd H]; (split; [done|]).
      + destruct H as (w & Hw & Hwn & Hwρ). intros v Hv Hvρ.
        destruct Hac as [r Hr].
        assert (Hr' : ∀ m i f, c_g S !! m = Some i → f ∈ n_fi i → r f < r m).
        { intros m i f Hm Hf. rewrite HS in Hm. apply sub_lookup in Hm as [_ Hm]; eauto. }
        assert (Hvw : agrees (dom (c_g S)) v w).
        { apply (consistent_unique (c_g S) r Hr'); [done| |done|].
          - rewrite HS. apply sub_consistent; done.
          - rewrite (free_startpoints _ Hwf), <- Hd. intros m [b Hb]%elem_of_dom. by rewrite (Hvρ m b Hb), (Hwρ m b Hb). }
        rewrite (Hvw n HnS). apply Hwn. by rewrite lookup_singleton.
      + destruct (unique_extension (c_g C) Hcl Hac (λ m, default false (ρ !! m))) as (v & Hv & Hag & _).
        assert (Hvρ : agreesA ρ v).
        { intros m b Hb. rewrite Hag; [by rewrite Hb|]. apply startpoints_free.
          assert (m ∈ startpoints (c_g S)) as Hm by (rewrite <- Hd; apply elem_of_dom; eauto).
          rewrite HS in Hm. apply sub_startpoints in Hm as [? _]; done. }
        exists v. split; [rewrite HS; apply sub_consistent; done|]. split; [|done].
        intros m b [-> <-]%lookup_singleton_Some. by apply H.
    - rewrite Hlen. apply QArith_base.Qeq_refl.
  Qed.
End sp_full.
