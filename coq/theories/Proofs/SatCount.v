(* Proofs for C08: the model_count loop counts the startpoint valuations that extend to a consistent valuation satisfying the
   assumptions (relative to a sound and complete solver; termination within the fuel is part of the statement);
   the DIMACS structure has exactly those projected models. *)
From stdpp Require Import strings gmap sets fin_sets.
From CG Require Import Base.Fold Cnf.Tmpl.
From CG Require Import Model.Lint Proofs.LintProofs.
From CG Require Import Model.Sat.
From CG Require Import Proofs.SatProofs.
Local Open Scope list_scope.

(* ---- all bool vectors of a given length (for the bound on the number of loop iterations) ---- *)
Fixpoint all_bools (k : nat) : list (list bool) :=
  match k with O => [[]] | S k => (cons true <$> all_bools k) ++ (cons false <$> all_bools k) end.
Lemma all_bools_length k : length (all_bools k) = 2 ^ k.
Proof. induction k as [|k IH]; simpl; [done|]. rewrite app_length, !fmap_length, IH. lia. Qed.
Lemma all_bools_complete l : l ∈ all_bools (length l).
Proof.
  induction l as [|b l IH]; simpl; [by apply elem_of_list_singleton|].
  apply elem_of_app. destruct b; [left|right]; by apply elem_of_list_fmap_1.
Qed.
Lemma nodup_vectors_bound k (L : list (list bool)) : NoDup L → (∀ l, l ∈ L → length l = k) → length L ≤ 2 ^ k.
Proof.
  intros Hnd Hlen. rewrite <- all_bools_length. apply submseteq_length. apply NoDup_submseteq; [done|].
  intros l Hl. rewrite <- (Hlen l Hl). apply all_bools_complete.
Qed.

(* ---- blocking clauses ---- *)
Definition proj (sp : list string) (a : asg) : list bool := (λ n, a (VN n)) <$> sp.
Lemma block_sat sp a a' : sat_clause a' (block a sp) = true ↔ proj sp a' ≠ proj sp a.
Proof.
  unfold block, proj, sat_clause. induction sp as [|n sp IH].
  - simpl. split; [done|intros H; by destruct H].
  - change (sat_lit a' (negb (a (VN n)), VN n) || existsb (sat_lit a') (map (λ n, (negb (a (VN n)), VN n)) sp) = true
            ↔ a' (VN n) :: ((λ n, a' (VN n)) <$> sp) ≠ a (VN n) :: ((λ n, a (VN n)) <$> sp)).
    rewrite orb_true_iff. unfold sat_lit at 1. simpl. split.
    + intros [H|H]; [intros [= E _]; rewrite E in H; by destruct (a (VN n))|]. apply IH in H. intros [= _ ?]. done.
    + intros H. destruct (decide (a' (VN n) = a (VN n))) as [E|E].
      * right. apply IH. intros E2. apply H. by rewrite E, E2.
      * left. destruct (a' (VN n)), (a (VN n)); done.
Qed.
Definition blocks (sp : list string) (B : list asg) : list clause := (λ a, block a sp) <$> B.
Lemma blocks_sat sp F B a' : sat a' (F ++ blocks sp B) ↔ sat a' F ∧ proj sp a' ∉ proj sp <$> B.
Proof.
  unfold sat. rewrite sat_cnf_app, andb_true_iff. f_equiv. unfold blocks, sat_cnf.
  induction B as [|a B IH]; simpl; [split; [intros _; apply not_elem_of_nil|done]|].
  rewrite andb_true_iff, IH, block_sat, not_elem_of_cons. done.
Qed.

Section count.
  Context (solver : solver_t).
  Hypothesis solver_sound : ∀ F a, solver F = Some a → sat a F.
  Hypothesis solver_complete : ∀ F, solver F = None → ∀ a, ¬ sat a F.
  Context (F : list clause) (sp : list string).

  (* loop invariant: B = the models found so far, pairwise different on the startpoints; F ++ blocks B is the solver's formula *)
  Lemma mc_loop_spec fuel : ∀ B,
    (∀ a, a ∈ B → sat a F) → NoDup (proj sp <$> B) → 2 ^ length sp < length B + fuel →
    ∃ B', mc_loop solver fuel (F ++ blocks sp B) sp (length B) = Ok (length B') ∧ NoDup (proj sp <$> B') ∧
          (∀ a, a ∈ B' → sat a F) ∧ (∀ a, sat a F → proj sp a ∈ proj sp <$> B').
  Proof.
    induction fuel as [|fuel IH]; intros B HB Hnd Hfuel.
    - exfalso. pose proof (nodup_vectors_bound (length sp) (proj sp <$> B) Hnd) as Hb. rewrite fmap_length in Hb.
      assert (length B ≤ 2 ^ length sp); [|lia]. apply Hb. intros l (a & -> & _)%elem_of_list_fmap. unfold proj. by rewrite fmap_length.
    - simpl. destruct (solver (F ++ blocks sp B)) as [a|] eqn:Es.
      + apply solver_sound, blocks_sat in Es as [Ha Hnew].
        assert (Happ : (F ++ blocks sp B) ++ [block a sp] = F ++ blocks sp (B ++ [a])).
        { unfold blocks. rewrite fmap_app, app_assoc. done. }
        rewrite Happ. replace (S (length B)) with (length (B ++ [a])) by (rewrite app_length; simpl; lia).
        apply IH.
        * intros a' [?| ->%elem_of_list_singleton]%elem_of_app; auto.
        * rewrite fmap_app. apply NoDup_app. split; [done|]. split; [|apply NoDup_singleton].
          intros l Hl ->%elem_of_list_singleton. done.
        * rewrite app_length. simpl. lia.
      + exists B. split; [done|]. split; [done|]. split; [done|]. intros a Ha.
        destruct (decide (proj sp a ∈ proj sp <$> B)) as [|Hn]; [done|]. exfalso.
        apply (solver_complete _ Es a). apply blocks_sat. done.
  Qed.

  Theorem mc_loop_total_correct :
    ∃ B, mc_loop solver (S (2 ^ length sp)) F sp 0 = Ok (length B) ∧ NoDup (proj sp <$> B) ∧
         (∀ a, a ∈ B → sat a F) ∧ (∀ a, sat a F → proj sp a ∈ proj sp <$> B).
  Proof.
    destruct (mc_loop_spec (S (2 ^ length sp)) []) as (B & H & ?); [by intros ? ?%elem_of_nil|constructor|simpl; lia|].
    exists B. split; [|done]. unfold blocks in H. simpl in H. by rewrite app_nil_r in H.
  Qed.
End count.

(* ---- projections as finite maps on the startpoints ---- *)
Definition pm (sp : gset string) (a : asg) : gmap string bool := map_imap (λ n _, Some (a (VN n))) (gset_to_gmap () sp).
Lemma pm_lookup sp a n : pm sp a !! n = if decide (n ∈ sp) then Some (a (VN n)) else None.
Proof.
  unfold pm. rewrite map_lookup_imap, lookup_gset_to_gmap. destruct (decide (n ∈ sp)).
  - by rewrite option_guard_True.
  - by rewrite option_guard_False.
Qed.
Lemma pm_dom sp a : dom (pm sp a) = sp.
Proof.
  apply set_eq. intros n. rewrite elem_of_dom, pm_lookup. destruct (decide (n ∈ sp)) as [H|H].
  - split; [done|]. intros _. eauto.
  - split; [by intros [? ?]|done].
Qed.
Lemma proj_pm sp a : proj (elements sp) a = (λ m : gmap string bool, (λ n, default false (m !! n)) <$> elements sp) (pm sp a).
Proof.
  unfold proj. apply list_fmap_ext. intros i n Hn. rewrite pm_lookup.
  rewrite decide_True; [done|]. apply elem_of_elements. by eapply elem_of_list_lookup_2.
Qed.
Lemma fmap_eq_pointwise {A B} (f g : A → B) (l : list A) : f <$> l = g <$> l → ∀ x, x ∈ l → f x = g x.
Proof.
  induction l as [|y l IH]; simpl; intros H x Hx; [by apply elem_of_nil in Hx|].
  injection H as H1 H2. apply elem_of_cons in Hx as [->|Hx]; auto.
Qed.

Definition extendable (C : Circuit) (A : gmap string bool) (ρ : gmap string bool) : Prop :=
  dom ρ = startpoints (c_g C) ∧ ∃ v, consistent (c_g C) v ∧ agreesA A v ∧ agreesA ρ v.

Section count_top.
  Context (T : cnf_tables).
  Hypothesis Htab : cnf_tables_ok T = true.
  Context (solver : solver_t).
  Hypothesis solver_sound : ∀ F a, solver F = Some a → sat a F.
  Hypothesis solver_complete : ∀ F, solver F = None → ∀ a, ¬ sat a F.

  (* the projected models of the (assumption-extended) formula are exactly the extendable startpoint valuations *)
  Lemma projected_models C ord A F F' : cnf_wf (c_g C) → cnf_with T C ord = Ok F →
    (∀ a, sat a F' ↔ sat a F ∧ agreesA A (a ∘ VN)) →
    ∀ ρ, extendable C A ρ ↔ ∃ a, sat a F' ∧ ρ = pm (startpoints (c_g C)) a.
  Proof.
    intros Hwf HF Hsat ρ. split.
    - intros (Hdom & v & Hv & HA & Hρ). exists (ext v). split.
      + apply Hsat. split; [by eapply cnf_with_complete_ext|]. intros n b ?. by apply HA.
      + apply map_eq. intros n. rewrite pm_lookup. destruct (decide (n ∈ startpoints (c_g C))) as [Hn|Hn].
        * rewrite <- Hdom in Hn. apply elem_of_dom in Hn as [x Hx]. rewrite Hx. f_equal. symmetry. by apply Hρ.
        * apply not_elem_of_dom. by rewrite Hdom.
    - intros (a & Ha & ->). split; [apply pm_dom|]. apply Hsat in Ha as [Ha HA]. exists (a ∘ VN).
      split; [by eapply cnf_with_sound|]. split; [done|]. intros n b Hn. rewrite pm_lookup in Hn.
      destruct (decide _); [|done]. by injection Hn.
  Qed.

  Theorem model_count_spec C ord A : cnf_wf (c_g C) → ord_ok (c_g C) ord → dom A ⊆ dom (c_g C) →
    ∃ k, model_count_with solver T C ord A = Ok k ∧
         ∃ l : list (gmap string bool), NoDup l ∧ length l = k ∧ ∀ ρ, ρ ∈ l ↔ extendable C A ρ.
  Proof.
    intros Hwf Ho Hd. destruct (cnf_with_total T Htab C ord Hwf Ho) as [F HF].
    destruct (cnf_assume_spec T C ord A F HF Hd) as (F' & HF' & Hsat).
    unfold model_count_with. rewrite HF'. simpl.
    set (sp := startpoints (c_g C)).
    destruct (mc_loop_total_correct solver solver_sound solver_complete F' (elements sp)) as (B & Hrun & Hnd & HB & Hall).
    exists (length B). split; [exact Hrun|]. exists (pm sp <$> B). split; [|split; [by rewrite fmap_length|]].
    - eapply (NoDup_fmap_1 (λ m : gmap string bool, (λ n, default false (m !! n)) <$> elements sp)).
      rewrite <- list_fmap_compose. erewrite list_fmap_ext; [exact Hnd|]. intros i a _. simpl. symmetry. apply proj_pm.
    - intros ρ. rewrite (projected_models C ord A F F' Hwf HF Hsat ρ). split.
      + intros (a & -> & Ha)%elem_of_list_fmap. eauto.
      + intros (a & Ha & ->). apply Hall in Ha as (b & Hpb & Hb)%elem_of_list_fmap.
        apply elem_of_list_fmap. exists b. split; [|done]. apply map_eq. intros n. rewrite !pm_lookup. fold sp.
        destruct (decide (n ∈ sp)) as [Hn|Hn]; [|done]. f_equal.
        apply (fmap_eq_pointwise _ _ _ Hpb). by apply elem_of_elements.
  Qed.

  (* the DIMACS structure: header counts, sampling set, and projected models *)
  Theorem dimacs_spec C ord A : cnf_wf (c_g C) → ord_ok (c_g C) ord → dom A ⊆ dom (c_g C) →
    ∃ d, dimacs_with T C ord A = Ok d ∧ d_ind d = VN <$> elements (startpoints (c_g C)) ∧
         d_ncl d = length (d_clauses d) ∧ d_nv d = length (vars_of (d_clauses d)) ∧
         ∀ ρ, extendable C A ρ ↔ ∃ a, sat a (d_clauses d) ∧ ρ = pm (startpoints (c_g C)) a.
  Proof.
    intros Hwf Ho Hd. destruct (cnf_with_total T Htab C ord Hwf Ho) as [F HF].
    destruct (cnf_assume_spec T C ord A F HF Hd) as (F' & HF' & Hsat).
    unfold dimacs_with. rewrite HF'. simpl. eexists. split; [reflexivity|]. simpl.
    split; [done|]. split; [done|]. split; [done|]. exact (projected_models C ord A F F' Hwf HF Hsat).
  Qed.

  (* signal_probability = exact count over the cone sub-circuit / 2^|its startpoints|, provided the sub-circuit is in the encoder's domain *)
  Lemma tfi_n_incl k c s : s ⊆ tfi_n k c s.
  Proof. revert s. induction k as [|k IH]; intros s; simpl; [done|]. etrans; [|apply IH]. set_solver. Qed.
  Lemma subgraph_dom c s n : n ∈ dom c → n ∈ s → n ∈ dom (subgraph c s).
  Proof.
    intros [i Hi]%elem_of_dom Hs. unfold subgraph. apply elem_of_dom. rewrite lookup_fmap.
    rewrite (map_filter_lookup_Some_2 _ _ n i); [done|done|done].
  Qed.
  Theorem signal_probability_partial C n S : subcircuit C (cone (c_g C) n) = Ok S → cnf_wf (c_g S) → n ∈ dom (c_g C) →
    ∃ k, signal_probability_with solver T C n = Ok (QArith_base.Qmake (Z.of_nat k) (Pos.of_nat (2 ^ size (startpoints (c_g S))))) ∧
         ∃ l : list (gmap string bool), NoDup l ∧ length l = k ∧ ∀ ρ, ρ ∈ l ↔ extendable S {[ n := true ]} ρ.
  Proof.
    intros HS Hwf Hn. unfold signal_probability_with. rewrite HS. simpl.
    destruct (model_count_spec S (default_ord (c_g S)) {[ n := true ]} Hwf) as (k & Hk & Hl).
    - intros m i Hm. unfold default_ord, fanin. by rewrite Hm.
    - rewrite dom_singleton_L. apply singleton_subseteq_l.
      unfold subcircuit in HS. destruct (has_bb_pin _ _); [done|]. injection HS as <-. simpl.
      apply subgraph_dom; [done|]. apply tfi_n_incl. set_solver.
    - exists k. rewrite Hk. simpl. split; [done|exact Hl].
  Qed.
End count_top.
