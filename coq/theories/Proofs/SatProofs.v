(* Proofs for C01: the CNF model is exact for circuit semantics; solve meets its specification relative to a solver. *)
From stdpp Require Import strings gmap sets fin_sets.
From CG Require Import Base.Fold Cnf.Tmpl.
From CG Require Import Model.Lint Proofs.LintProofs.
From CG Require Import Model.Sat.
From CG Require Export Proofs.SatTables.
Local Open Scope list_scope.

(* ================= 3. one node: its clauses mean node_ok ================= *)
Lemma lift_sat a F : sat_cnf a (map lift_cl F) = Tmpl.sat_cnf (a ∘ VN) F.
Proof.
  unfold sat_cnf, Tmpl.sat_cnf. induction F as [|cl F IH]; simpl; [done|]. rewrite IH. f_equal.
  unfold sat_clause, Tmpl.sat_clause, lift_cl. induction cl as [|l cl IHc]; simpl; [done|]. rewrite IHc. done.
Qed.
Lemma ext_VN v : ∀ n, (ext v ∘ VN) n = v n.
Proof. done. Qed.
Lemma parity_fold (w : val) ops : fold_right (λ m acc, xorb (w m) acc) false ops = gfold Xor (w <$> ops).
Proof. unfold gfold. induction ops as [|m ops IH]; simpl; [done|]. by rewrite IH. Qed.
Lemma gfold_xnor l : gfold Xnor l = gfold Xor l.
Proof. done. Qed.
Lemma gfold_one t x : gfold t [x] = x.
Proof. unfold gfold. simpl. apply g_op_unit. Qed.

Section with_tables.
  Context (T : cnf_tables).
  Hypothesis Htab : cnf_tables_ok T = true.

  Local Lemma tab_facts :
    (∀ t, assoc t (t_demote T) = demote_doc t) ∧ (∀ t, branch_ok t (assoc t (t_branches T)) = true)
    ∧ sem_ok spec_xor (t_xor T) = true ∧ sem_ok spec_inv (t_xnor_inv T) = true ∧ t_else T = ValueError.
  Proof.
    unfold cnf_tables_ok in Htab. rewrite !andb_true_iff in Htab. destruct Htab as [[[H1 H2] H3] H4].
    rewrite forallb_forall in H1. apply bool_decide_eq_true in H4.
    assert (∀ t, bool_decide (assoc t (t_demote T) = demote_doc t) && branch_ok t (assoc t (t_branches T)) = true) as H.
    { intros t. apply H1. apply elem_of_list_In. apply all_types_complete. }
    repeat split; try done; intros t; specialize (H t); apply andb_true_iff in H as [Ha Hb]; [by apply bool_decide_eq_true in Ha|done].
  Qed.

  Lemma x3T_sat a x y c : sat_cnf a (x3T T x y c) = eqb (a c) (xorb (a x) (a y)).
  Proof. destruct tab_facts as (_ & _ & Hx & _). unfold x3T. by rewrite (sem_ok_spec _ _ Hx). Qed.
  Lemma inv_sat a n : sat_cnf a (inst_cls (role_var n (VN n)) (t_xnor_inv T)) = eqb (a (VN n)) (negb (a (VI n))).
  Proof. destruct tab_facts as (_ & _ & _ & Hi & _). by rewrite (sem_ok_spec _ _ Hi). Qed.

  Lemma chainT_step f y x z rest : chainT T (S f) (y :: x :: z :: rest)
    = ((chainT T f (z :: rest ++ [VX x y])).1, x3T T x y (VX x y) ++ (chainT T f (z :: rest ++ [VX x y])).2).
  Proof. reflexivity. Qed.
  Lemma chain_step f y x z rest : chain (S f) (y :: x :: z :: rest)
    = (fst (chain f (z :: rest ++ [VX x y])), xor3 x y (VX x y) ++ snd (chain f (z :: rest ++ [VX x y]))).
  Proof. reflexivity. Qed.
  Lemma chainT_chain a fuel : ∀ r, (chainT T fuel r).1 = fst (chain fuel r) ∧ sat_cnf a (chainT T fuel r).2 = sat_cnf a (snd (chain fuel r)).
  Proof.
    induction fuel as [|f IH]; intros r; [done|].
    destruct r as [|y [|x [|z rest]]]; try done.
    rewrite chainT_step, chain_step. destruct (IH (z :: rest ++ [VX x y])) as [IH1 IH2].
    split; [exact IH1|]. cbn [fst snd]. rewrite !sat_cnf_app, x3T_sat, xor3_sat. by rewrite IH2.
  Qed.

  Lemma parityT_ok xnor n ops : 2 ≤ length ops →
    ∃ G, parityT T xnor n ops = Ok G ∧ ∀ a, sat_cnf a G = sat_cnf a (parity_gate xnor n ops).
  Proof.
    intros Hlen. unfold parityT, parity_gate.
    pose proof (chain_two (length ops) (rev (map VN ops))) as HL.
    rewrite rev_length, map_length in HL. specialize (HL ltac:(lia)).
    cbv zeta. rewrite (proj1 (chainT_chain (λ _, true) _ _)).
    destruct (fst (chain (length ops) (rev (map VN ops)))) as [|y [|x [|z l]]] eqn:E; simpl in HL; try lia.
    eexists. split; [reflexivity|]. intros a.
    destruct xnor; rewrite !sat_cnf_app, ?x3T_sat, ?xor3_sat, ?inv_sat, (proj2 (chainT_chain a _ _)); [|done].
    f_equal. f_equal. unfold sat_cnf, sat_clause, sat_lit. simpl. destruct (a (VN n)), (a (VI n)); done.
  Qed.

  Local Lemma branch_single t : t = Buf ∨ t = BbIn ∨ t = Not →
    ∃ cls, assoc t (t_branches T) = Some (BSingle cls) ∧ sem_ok (spec_single (g_inv t)) cls = true.
  Proof.
    destruct tab_facts as (_ & Hb & _). specialize (Hb t).
    intros [->|[->| ->]]; destruct (assoc _ (t_branches T)) as [[]|]; simpl in Hb; try discriminate; eauto.
  Qed.
  Local Lemma branch_multi t : is_andor t = true →
    ∃ pn pf an af, assoc t (t_branches T) = Some (BMulti pn pf an af) ∧ tmpl_ok t {| per_n := pn; per_f := pf; all_n := an; all_f := af |} = true.
  Proof.
    destruct tab_facts as (_ & Hb & _). specialize (Hb t).
    destruct t; try discriminate; intros _; destruct (assoc _ (t_branches T)) as [[]|]; simpl in Hb; try discriminate; eauto 10.
  Qed.
  Local Lemma branch_parity t : t = Xor ∨ t = Xnor → assoc t (t_branches T) = Some BParity.
  Proof.
    destruct tab_facts as (_ & Hb & _). specialize (Hb t).
    intros [-> | ->]; destruct (assoc _ (t_branches T)) as [[]|]; simpl in Hb; try discriminate; eauto.
  Qed.
  Local Lemma branch_unit t spec : (t = C0 ∧ spec = spec_c0) ∨ (t = C1 ∧ spec = spec_c1) ∨ ((t = Input ∨ t = BbOut) ∧ spec = spec_free) →
    ∃ cls, assoc t (t_branches T) = Some (BUnit cls) ∧ sem_ok spec cls = true.
  Proof.
    destruct tab_facts as (_ & Hb & _). specialize (Hb t).
    intros [[-> ->]|[[-> ->]|[[-> | ->] ->]]]; destruct (assoc _ (t_branches T)) as [[]|]; simpl in Hb; try discriminate; eauto.
  Qed.

  Definition gsem (t : gtype) (w : val) (n : string) (ops : list string) : Prop :=
    w n = xorb (g_inv t) (gfold t (w <$> ops)).

  (* a gate with at least one operand *)
  Lemma gate_sem t n i ops : n_ty i = t → is_gate t = true → 1 ≤ length ops →
    (t = Buf ∨ t = BbIn ∨ t = Not → length ops = 1) →
    ∃ G, node_cnf T n i ops = Ok G ∧ (∀ a, sat_cnf a G = true → gsem t (a ∘ VN) n ops) ∧ (∀ v, gsem t v n ops → sat_cnf (ext v) G = true).
  Proof.
    intros Ety Hg Hlen Hone. destruct tab_facts as (Hdem & _ & _ & _ & _).
    unfold node_cnf. rewrite Ety. destruct (decide (t = NoTy)) as [->|_]; [done|].
    unfold demote. rewrite Hdem.
    destruct (decide (length ops = 1)) as [H1|H1].
    - (* one operand: the buf / not clauses, possibly after demotion *)
      destruct ops as [|f [|]]; simpl in H1; try lia. clear H1 Hlen Hone.
      assert (∃ d, default t (demote_doc t) = d ∧ (d = Buf ∨ d = BbIn ∨ d = Not) ∧ g_inv d = g_inv t) as (d & -> & Hd & Hinv).
      { destruct t; try discriminate; simpl; eauto 10. }
      destruct (branch_single d Hd) as (cls & -> & Hok). rewrite Hinv in Hok.
      eexists. split; [reflexivity|].
      assert (Hs : ∀ a, sat_cnf a (inst_cls (role_var n (VN f)) cls) = eqb (a (VN n)) (xorb (g_inv t) (a (VN f)))).
      { intros a. by rewrite (sem_ok_spec _ _ Hok). }
      unfold gsem. split.
      + intros a Ha. rewrite Hs in Ha. apply eqb_prop in Ha.
        change ((a ∘ VN) <$> [f]) with [a (VN f)]. by rewrite gfold_one.
      + intros v Hv. rewrite Hs. change (v <$> [f]) with [v f] in Hv. rewrite gfold_one in Hv.
        change (ext v (VN n)) with (v n). change (ext v (VN f)) with (v f). rewrite Hv. apply eqb_reflx.
    - assert (2 ≤ length ops) as H2 by lia.
      destruct (is_andor t) eqn:Hao.
      + destruct (branch_multi t Hao) as (pn & pf & an & af & -> & Hok).
        eexists. split; [reflexivity|]. unfold inst_multi, gsem.
        split.
        * intros a Ha. rewrite lift_sat, (inst_correct t) in Ha by done. by apply eqb_prop in Ha.
        * intros v Hv. rewrite lift_sat, (inst_correct t) by done. simpl. rewrite Hv. apply eqb_reflx.
      + assert (t = Xor ∨ t = Xnor) as Hp.
        { destruct t; try discriminate; auto; exfalso; specialize (Hone ltac:(auto)); lia. }
        rewrite (branch_parity t Hp).
        destruct (parityT_ok (negb (bool_decide (t = Xor))) n ops H2) as (G & -> & HG).
        exists G. split; [done|]. unfold gsem.
        assert (Hx : negb (bool_decide (t = Xor)) = g_inv t) by (destruct Hp as [-> | ->]; done).
        assert (Hf : ∀ l, gfold t l = gfold Xor l) by (destruct Hp as [-> | ->]; done).
        split.
        * intros a Ha. rewrite HG in Ha. apply parity_gate_sound in Ha; [|done].
          rewrite Hx in Ha. rewrite Hf, <- parity_fold. exact Ha.
        * intros v Hv. rewrite HG. apply parity_gate_complete; [done|].
          rewrite Hx, parity_fold, <- Hf. exact Hv.
  Qed.
End with_tables.

Section with_tables2.
  Context (T : cnf_tables).
  Hypothesis Htab : cnf_tables_ok T = true.

  Lemma ops_perm ord n i ops : ops_of ord n i = Ok ops → ops ≡ₚ elements (n_fi i).
  Proof.
    unfold ops_of. destruct (bool_decide (NoDup (ord n)) && bool_decide (list_to_set (ord n) = n_fi i)) eqn:E; [|done].
    intros [= <-]. apply andb_true_iff in E as [H1 H2]. apply bool_decide_eq_true in H1, H2.
    apply NoDup_Permutation; [done|apply NoDup_elements|]. intros x. rewrite elem_of_elements, <- H2, elem_of_list_to_set. done.
  Qed.
  Lemma ops_total ord n i : ord n ≡ₚ elements (n_fi i) → ops_of ord n i = Ok (ord n).
  Proof.
    intros Hp. unfold ops_of. rewrite andb_true_intro; [done|]. split; apply bool_decide_eq_true.
    - rewrite Hp. apply NoDup_elements.
    - apply set_eq. intros x. rewrite elem_of_list_to_set, Hp, elem_of_elements. done.
  Qed.

  Local Lemma unit_cnf t spec n i ops : n_ty i = t →
    (t = C0 ∧ spec = spec_c0) ∨ (t = C1 ∧ spec = spec_c1) ∨ ((t = Input ∨ t = BbOut) ∧ spec = spec_free) →
    ∃ cls, node_cnf T n i ops = Ok (inst_cls (role_var n (VN n)) cls) ∧ sem_ok spec cls = true.
  Proof.
    intros Ety Ht. destruct (tab_facts T Htab) as (Hdem & _).
    destruct (branch_unit T Htab t spec Ht) as (cls & Hb & Hok). exists cls. split; [|done].
    unfold node_cnf, demote. rewrite Ety, Hdem.
    assert (default t (demote_doc t) = t ∧ t ≠ NoTy) as [-> ?].
    { destruct Ht as [[-> _]|[[-> _]|[[-> | ->] _]]]; done. }
    destruct (decide (t = NoTy)); [done|]. destruct (decide (length ops = 1)); by rewrite Hb.
  Qed.

  Lemma node_sem n i ops : node_wf i → ops ≡ₚ elements (n_fi i) →
    ∃ G, node_cnf T n i ops = Ok G ∧ (∀ a, sat_cnf a G = true → node_ok (a ∘ VN) n i) ∧ (∀ v, node_ok v n i → sat_cnf (ext v) G = true).
  Proof.
    intros Hwf Hp.
    assert (Hlen : length ops = size (n_fi i)). { unfold size, set_size. simpl. by rewrite Hp. }
    assert (Hgv : ∀ t w, gate_val t w (n_fi i) = xorb (g_inv t) (gfold t (w <$> ops))).
    { intros. unfold gate_val. f_equal. apply gfold_perm. by rewrite Hp. }
    destruct (is_gate (n_ty i)) eqn:Hg.
    - assert (1 ≤ length ops) as H1 by (unfold node_wf in Hwf; destruct (n_ty i); try discriminate; lia).
      destruct (gate_sem T Htab (n_ty i) n i ops eq_refl Hg H1) as (G & HG & Hs & Hc).
      { intros Ht. unfold node_wf in Hwf. destruct Ht as [E|[E|E]]; rewrite E in Hwf; lia. }
      exists G. split; [done|].
      assert (Hok : ∀ w, node_ok w n i ↔ gsem (n_ty i) w n ops).
      { intros w. unfold node_ok, is_free, gsem. rewrite <- Hgv.
        assert (n_fi i ≠ ∅) by (intros E; rewrite E, size_empty in Hlen; lia).
        destruct (n_ty i); try discriminate; rewrite ?bool_decide_eq_false_2 by done; done. }
      split; [intros a Ha; apply Hok; eauto|intros v Hv; apply Hc, Hok, Hv].
    - unfold node_wf in Hwf.
      destruct (n_ty i) eqn:Ety; try discriminate; try done.
      + destruct (unit_cnf C0 spec_c0 n i ops Ety) as (cls & -> & Hok); [auto|]. eexists. split; [done|].
        unfold node_ok, is_free. rewrite Ety. split.
        * intros a Ha. rewrite (sem_ok_spec _ _ Hok) in Ha. unfold spec_c0 in Ha. by apply negb_true_iff in Ha.
        * intros v Hv. rewrite (sem_ok_spec _ _ Hok). unfold spec_c0. simpl. by rewrite Hv.
      + destruct (unit_cnf C1 spec_c1 n i ops Ety) as (cls & -> & Hok); [auto|]. eexists. split; [done|].
        unfold node_ok, is_free. rewrite Ety. split.
        * intros a Ha. by rewrite (sem_ok_spec _ _ Hok) in Ha.
        * intros v Hv. by rewrite (sem_ok_spec _ _ Hok).
      + destruct (unit_cnf Input spec_free n i ops Ety) as (cls & -> & Hok); [auto 10|]. eexists. split; [done|].
        unfold node_ok, is_free. rewrite Ety. split; [done|]. intros v _. by rewrite (sem_ok_spec _ _ Hok).
      + destruct (unit_cnf BbOut spec_free n i ops Ety) as (cls & -> & Hok); [auto 10|]. eexists. split; [done|].
        unfold node_ok, is_free. rewrite Ety. split; [done|]. intros v _. by rewrite (sem_ok_spec _ _ Hok).
  Qed.

  (* ---- the fold over the nodes ---- *)
  Definition node_sat (ord : string → list string) (a : asg) (p : string * ninfo) : Prop :=
    ∃ ops G, ops_of ord p.1 p.2 = Ok ops ∧ node_cnf T p.1 p.2 ops = Ok G ∧ sat_cnf a G = true.
  Lemma cnf_nodes_sat ord l F : cnf_nodes T ord l = Ok F → ∀ a, sat_cnf a F = true ↔ Forall (node_sat ord a) l.
  Proof.
    revert F. induction l as [|[n i] l IH]; intros F; simpl.
    - intros [= <-] a. split; [constructor|done].
    - destruct (ops_of ord n i) as [ops| | |] eqn:Eo; simpl; try done.
      destruct (node_cnf T n i ops) as [G| | |] eqn:EG; simpl; try done.
      destruct (cnf_nodes T ord l) as [F'| | |] eqn:EF; simpl; try done.
      intros [= <-] a. rewrite sat_cnf_app, andb_true_iff, Forall_cons, (IH F' eq_refl a). unfold node_sat at 1. simpl.
      split; [intros [? ?]; split; [by exists ops, G|done]|]. intros [(ops' & G' & H1 & H2 & H3) ?]. split; [|done]. simpl in *. congruence.
  Qed.
  Lemma cnf_nodes_total ord l : Forall (λ p, ∃ ops G, ops_of ord p.1 p.2 = Ok ops ∧ node_cnf T p.1 p.2 ops = Ok G) l → ∃ F, cnf_nodes T ord l = Ok F.
  Proof.
    induction 1 as [|[n i] l (ops & G & H1 & H2) _ [F IH]]; simpl; [eauto|]. simpl in *. rewrite H1. simpl. rewrite H2. simpl. rewrite IH. simpl. eauto.
  Qed.

  Definition ord_ok (c : circuit) (ord : string → list string) : Prop := ∀ n i, c !! n = Some i → ord n ≡ₚ elements (n_fi i).

  Theorem cnf_with_total C ord : cnf_wf (c_g C) → ord_ok (c_g C) ord → ∃ F, cnf_with T C ord = Ok F.
  Proof.
    intros Hwf Ho. apply cnf_nodes_total. apply Forall_forall. intros [n i] Hin%elem_of_map_to_list. simpl.
    destruct (node_sem n i (ord n) (Hwf n i Hin) (Ho n i Hin)) as (G & HG & _). exists (ord n), G. split; [|done].
    apply ops_total. by apply Ho.
  Qed.
  Theorem cnf_with_sound C ord F : cnf_wf (c_g C) → cnf_with T C ord = Ok F → ∀ a, sat a F → consistent (c_g C) (a ∘ VN).
  Proof.
    intros Hwf HF a Ha n i Hn. apply (cnf_nodes_sat _ _ _ HF a) in Ha. rewrite Forall_forall in Ha.
    destruct (Ha (n, i)) as (ops & G & H1 & H2 & H3); [by apply elem_of_map_to_list|]. simpl in *.
    destruct (node_sem n i ops (Hwf n i Hn) (ops_perm _ _ _ _ H1)) as (G' & HG' & Hs & _).
    apply Hs. congruence.
  Qed.
  Theorem cnf_with_complete_ext C ord F : cnf_wf (c_g C) → cnf_with T C ord = Ok F → ∀ v, consistent (c_g C) v → sat (ext v) F.
  Proof.
    intros Hwf HF v Hv. apply (cnf_nodes_sat _ _ _ HF). apply Forall_forall. intros [n i] Hn%elem_of_map_to_list.
    (* the node's own ops / clauses exist because the whole fold succeeded *)
    assert (∃ ops G, ops_of ord n i = Ok ops ∧ node_cnf T n i ops = Ok G) as (ops & G & H1 & H2).
    { clear -HF Hn. unfold cnf_with in HF. apply elem_of_map_to_list in Hn. revert F HF Hn.
      induction (map_to_list (c_g C)) as [|[m j] l IH]; intros F HF Hin; [by apply elem_of_nil in Hin|]. simpl in HF.
      destruct (ops_of ord m j) as [ops| | |] eqn:Eo; simpl in HF; try done.
      destruct (node_cnf T m j ops) as [G| | |] eqn:EG; simpl in HF; try done.
      destruct (cnf_nodes T ord l) as [F'| | |] eqn:EF; simpl in HF; try done.
      apply elem_of_cons in Hin as [[= -> ->]|Hin]; [eauto|]. eapply IH; eauto. }
    exists ops, G. split; [done|]. split; [done|].
    destruct (node_sem n i ops (Hwf n i Hn) (ops_perm _ _ _ _ H1)) as (G' & HG' & _ & Hc).
    assert (G' = G) as -> by congruence. apply Hc, Hv, Hn.
  Qed.
End with_tables2.

(* ================= 4. top-level statements ================= *)
Definition agreesA (A : gmap string bool) (v : val) : Prop := ∀ n b, A !! n = Some b → v n = b.

Lemma free_startpoints c : cnf_wf c → free_nodes c = startpoints c.
Proof.
  intros Hwf. apply set_eq. intros n. unfold free_nodes, startpoints. rewrite elem_of_dom, elem_of_of_type.
  split.
  - intros [i [Hn Hf]%map_filter_lookup_Some]. exists i. split; [done|]. simpl in Hf.
    specialize (Hwf n i Hn). unfold node_wf in Hwf. unfold is_free in Hf. unfold is_ty.
    destruct (n_ty i); try done; exfalso; apply bool_decide_eq_true in Hf; rewrite Hf, size_empty in Hwf; lia.
  - intros (i & Hn & Ht). exists i. apply map_filter_lookup_Some. split; [done|]. simpl. unfold is_free, is_ty in *.
    destruct (n_ty i); try done.
Qed.
Lemma consistent_agree c v v' : closed c → agrees (dom c) v v' → consistent c v → consistent c v'.
Proof.
  intros Hcl Hag Hv n i Hn. specialize (Hv n i Hn). unfold node_ok in *. destruct (is_free i); [done|].
  assert (H1 : v n = v' n) by (apply Hag, elem_of_dom; eauto).
  assert (H2 : ∀ t, gate_val t v (n_fi i) = gate_val t v' (n_fi i)).
  { intros. apply gate_val_ext. intros f Hf. apply Hag. eapply Hcl; eauto. }
  destruct (n_ty i); rewrite <- ?H1, <- ?H2; done.
Qed.

Section top.
  Context (T : cnf_tables).
  Hypothesis Htab : cnf_tables_ok T = true.

  Theorem cnf_complete C ord F : cnf_wf (c_g C) → cnf_with T C ord = Ok F →
    ∀ v, consistent (c_g C) v → ∃ a, sat a F ∧ agrees (dom (c_g C)) (a ∘ VN) v.
  Proof. intros Hwf HF v Hv. exists (ext v). split; [by eapply cnf_with_complete_ext|done]. Qed.

  Theorem cnf_acyclic_unique C ord F : cnf_wf (c_g C) → closed (c_g C) → acyclic (c_g C) → cnf_with T C ord = Ok F →
    ∀ ρ : val, ∃ a, sat a F ∧ agrees (startpoints (c_g C)) (a ∘ VN) ρ ∧
      ∀ a', sat a' F → agrees (startpoints (c_g C)) (a' ∘ VN) ρ → agrees (dom (c_g C)) (a ∘ VN) (a' ∘ VN).
  Proof.
    intros Hwf Hcl Hac HF ρ. destruct (unique_extension _ Hcl Hac ρ) as (v & Hv & Hag & Hu).
    rewrite (free_startpoints _ Hwf) in *.
    exists (ext v). split; [by eapply cnf_with_complete_ext|]. split; [exact Hag|].
    intros a' Ha' Hag'. apply Hu; [|done]. by eapply cnf_with_sound.
  Qed.

  Lemma sat_assume a A F : sat a (assume A F) ↔ sat a F ∧ agreesA A (a ∘ VN).
  Proof.
    unfold assume, sat. rewrite sat_cnf_app, andb_true_iff.
    assert (sat_cnf a (map (λ p : string * bool, [(p.2, VN p.1)]) (map_to_list A)) = true ↔ agreesA A (a ∘ VN)) as ->; [|done].
    unfold sat_cnf. rewrite forallb_forall. split.
    - intros H n b Hn. specialize (H [(b, VN n)]). simpl. apply eqb_prop.
      assert (sat_clause a [(b, VN n)] = true) as Hc.
      { apply H. apply in_map_iff. exists (n, b). split; [done|]. by apply elem_of_list_In, elem_of_map_to_list. }
      unfold sat_clause, sat_lit in Hc. simpl in Hc. by rewrite orb_false_r in Hc.
    - intros H cl Hin. apply in_map_iff in Hin as ([n b] & <- & Hin). apply elem_of_list_In, elem_of_map_to_list in Hin.
      unfold sat_clause, sat_lit. simpl. specialize (H n b Hin). simpl in H. rewrite H, orb_false_r. apply eqb_reflx.
  Qed.
  Lemma cnf_assume_spec C ord A F : cnf_with T C ord = Ok F → dom A ⊆ dom (c_g C) →
    ∃ F', cnf_assume T C ord A = Ok F' ∧ ∀ a, sat a F' ↔ sat a F ∧ agreesA A (a ∘ VN).
  Proof.
    intros HF Hd. unfold cnf_assume. rewrite HF. simpl. destruct (decide (A = ∅)) as [->|].
    - exists F. split; [done|]. intros a. split; [|tauto]. intros ?. split; [done|]. intros n b. by rewrite lookup_empty.
    - rewrite decide_True by done. exists (assume A F). split; [done|]. intros a. apply sat_assume.
  Qed.
  Lemma readback_lookup c a n : readback c a !! n = (c !! n) ≫= λ _, Some (a (VN n)).
  Proof. unfold readback. by rewrite map_lookup_imap. Qed.
  Lemma readback_dom c a : dom (readback c a) = dom c.
  Proof.
    apply set_eq. intros n. rewrite !elem_of_dom, readback_lookup. destruct (c !! n); simpl; split; intros [? ?]; eauto; done.
  Qed.

  Context (solver : solver_t).
  Hypothesis solver_sound : ∀ F a, solver F = Some a → sat a F.
  Hypothesis solver_complete : ∀ F, solver F = None → ∀ a, ¬ sat a F.

  Theorem solve_with_spec C ord A : cnf_wf (c_g C) → closed (c_g C) → ord_ok (c_g C) ord →
    (¬ dom A ⊆ dom (c_g C) → solve_with solver T C ord A = Raise ValueError) ∧
    (dom A ⊆ dom (c_g C) →
       (solve_with solver T C ord A = Ok None ∧ ¬ ∃ v, consistent (c_g C) v ∧ agreesA A v) ∨
       (∃ r, solve_with solver T C ord A = Ok (Some r) ∧ dom r = dom (c_g C) ∧
             let v := λ n, default false (r !! n) in consistent (c_g C) v ∧ agreesA A v)).
  Proof.
    intros Hwf Hcl Ho. destruct (cnf_with_total T Htab C ord Hwf Ho) as [F HF]. split.
    - intros Hnd. unfold solve_with, cnf_assume. rewrite HF. simpl.
      destruct (decide (A = ∅)) as [->|]; [exfalso; apply Hnd; rewrite dom_empty_L; set_solver|].
      by rewrite decide_False by done.
    - intros Hd. destruct (cnf_assume_spec C ord A F HF Hd) as (F' & HF' & Hsat).
      unfold solve_with. rewrite HF'. simpl. destruct (solver F') as [a|] eqn:Es.
      + right. exists (readback (c_g C) a). split; [done|]. split; [apply readback_dom|].
        apply solver_sound, Hsat in Es as [Ha HA].
        assert (Hag : agrees (dom (c_g C)) (a ∘ VN) (λ n, default false (readback (c_g C) a !! n))).
        { intros n [i Hn]%elem_of_dom. rewrite readback_lookup, Hn. done. }
        split.
        * eapply consistent_agree; [done|exact Hag|]. by eapply cnf_with_sound.
        * intros n b Hn. rewrite <- Hag; [by apply HA|]. apply Hd. apply elem_of_dom. eauto.
      + left. split; [done|]. intros (v & Hv & HA). apply (solver_complete F' Es (ext v)). apply Hsat.
        split; [by eapply cnf_with_complete_ext|]. intros n b Hn. by apply HA.
  Qed.
End top.
