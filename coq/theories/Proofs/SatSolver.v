(* Non-vacuity of the solver hypotheses of C01 / C08: a (hopelessly slow) search over all assignments of the variables that occur
   in the formula is a sound and complete solver.  Used only for the `Example`s in Properties/C01.v, C08.v. *)
From stdpp Require Import strings gmap sets fin_sets.
From CG Require Import Model.Sat.
Local Open Scope list_scope.

Fixpoint sublists {A} (l : list A) : list (list A) :=
  match l with [] => [[]] | x :: r => let s := sublists r in s ++ map (cons x) s end.
Lemma sublists_filter {A} (P : A → Prop) `{∀ x, Decision (P x)} (l : list A) : filter P l ∈ sublists l.
Proof.
  induction l as [|x l IH]; simpl; [by apply elem_of_list_singleton|].
  rewrite filter_cons. apply elem_of_app. destruct (decide (P x)); [right|by left].
  apply elem_of_list_In, in_map, elem_of_list_In, IH.
Qed.
Definition lasg (ones : list var) : asg := λ x, bool_decide (x ∈ ones).
Definition brute (F : list clause) : option asg :=
  (λ p : nat * asg, p.2) <$> list_find (λ a : asg, sat_cnf a F = true) (lasg <$> sublists (vars_of F)).

Lemma sat_cnf_ext a a' F : (∀ cl l, cl ∈ F → l ∈ cl → a l.2 = a' l.2) → sat_cnf a F = sat_cnf a' F.
Proof.
  intros H. unfold sat_cnf. induction F as [|cl F IH]; simpl; [done|].
  rewrite IH by (intros; eapply H; [by right|done]). f_equal.
  assert (Hc : ∀ l, l ∈ cl → a l.2 = a' l.2) by (intros; eapply H; [by left|done]). clear -Hc.
  unfold sat_clause. induction cl as [|l cl IHc]; simpl; [done|].
  rewrite IHc by (intros; apply Hc; by right). unfold sat_lit. rewrite (Hc l) by (by left). done.
Qed.
Lemma elem_of_vars_of F cl (l : lit) : cl ∈ F → l ∈ cl → l.2 ∈ vars_of F.
Proof.
  intros Hcl Hl. unfold vars_of. apply elem_of_remove_dups, elem_of_list_In, in_concat.
  exists (map snd cl). split; [apply in_map; by apply elem_of_list_In|]. change (l.2) with (snd l). apply in_map. by apply elem_of_list_In.
Qed.

Theorem brute_sound F a : brute F = Some a → sat a F.
Proof.
  unfold brute. destruct (list_find _ _) as [[i a']|] eqn:E; [|done]. intros [= <-].
  apply list_find_Some in E as (_ & H & _). exact H.
Qed.
Theorem brute_complete F : brute F = None → ∀ a, ¬ sat a F.
Proof.
  unfold brute. destruct (list_find _ _) as [[i a']|] eqn:E; [done|]. intros _ a Ha.
  apply list_find_None in E. rewrite Forall_forall in E.
  set (ones := filter (λ x, a x = true) (vars_of F)).
  apply (E (lasg ones)).
  - apply elem_of_list_fmap_1. apply sublists_filter.
  - rewrite <- Ha. apply sat_cnf_ext. intros cl l Hcl Hl. unfold lasg, ones.
    pose proof (elem_of_vars_of F cl l Hcl Hl) as Hv.
    destruct (a l.2) eqn:Ea.
    + apply bool_decide_eq_true. apply elem_of_list_filter. done.
    + apply bool_decide_eq_false. intros [? _]%elem_of_list_filter. congruence.
Qed.
