(* C01/C08: semantic obligations on the regenerated clause templates; what lint-cleanliness gives the encoder. *)
From stdpp Require Import strings gmap sets fin_sets.
From CG Require Import Base.Fold Cnf.Tmpl.
From CG Require Import Model.Lint Proofs.LintProofs.
From CG Require Import Model.Sat.
Local Open Scope list_scope.

(* ================= 1. obligations on the regenerated templates (semantic, decidable) ================= *)
Definition rsat (f : role → bool) (cls : list tclause) : bool := forallb (existsb (λ l : tlit, eqb (f l.2) l.1)) cls.
Definition rtab (n f a b c i : bool) : role → bool :=
  λ r, match r with RN => n | RF => f | RA => a | RB => b | RC => c | RI => i end.

Lemma sat_inst a ρ cls : sat_cnf a (inst_cls ρ cls) = rsat (a ∘ ρ) cls.
Proof.
  unfold sat_cnf, inst_cls, rsat. induction cls as [|cl cls IH]; simpl; [done|]. rewrite IH. f_equal.
  unfold sat_clause, inst_cl. induction cl as [|l cl IHc]; simpl; [done|]. rewrite IHc. done.
Qed.
Lemma rsat_ext f g cls : (∀ r, f r = g r) → rsat f cls = rsat g cls.
Proof.
  intros H. unfold rsat. induction cls as [|cl cls IH]; simpl; [done|]. rewrite IH. f_equal.
  induction cl as [|l cl IHc]; simpl; [done|]. rewrite IHc, H. done.
Qed.
Lemma rsat_tab f cls : rsat f cls = rsat (rtab (f RN) (f RF) (f RA) (f RB) (f RC) (f RI)) cls.
Proof. apply rsat_ext. by intros []. Qed.

Definition bools := [true; false].
Lemma forallb_bools P : forallb P bools = true → ∀ b, P b = true.
Proof. simpl. rewrite !andb_true_iff. intros (? & ? & _) []; done. Qed.
Definition all6 (P : bool → bool → bool → bool → bool → bool → bool) : bool :=
  forallb (λ n, forallb (λ f, forallb (λ a, forallb (λ b, forallb (λ c, forallb (λ i, P n f a b c i) bools) bools) bools) bools) bools) bools.
Lemma all6_spec P : all6 P = true → ∀ n f a b c i, P n f a b c i = true.
Proof.
  intros H n f a b c i. unfold all6 in H.
  pose proof (forallb_bools _ H n) as H1. pose proof (forallb_bools _ H1 f) as H2. pose proof (forallb_bools _ H2 a) as H3.
  pose proof (forallb_bools _ H3 b) as H4. pose proof (forallb_bools _ H4 c) as H5. exact (forallb_bools _ H5 i).
Qed.
(* the template means `spec` of the six role values *)
Definition sem_ok (spec : bool → bool → bool → bool → bool → bool → bool) (cls : list tclause) : bool :=
  all6 (λ n f a b c i, eqb (rsat (rtab n f a b c i) cls) (spec n f a b c i)).
Lemma sem_ok_spec spec cls : sem_ok spec cls = true →
  ∀ a ρ, sat_cnf a (inst_cls ρ cls) = spec (a (ρ RN)) (a (ρ RF)) (a (ρ RA)) (a (ρ RB)) (a (ρ RC)) (a (ρ RI)).
Proof.
  intros H a ρ. rewrite sat_inst, rsat_tab. apply eqb_prop. exact (all6_spec _ H _ _ _ _ _ _).
Qed.

Definition spec_single (inv : bool) : bool → bool → bool → bool → bool → bool → bool := λ n f _ _ _ _, eqb n (xorb inv f).
Definition spec_c0 : bool → bool → bool → bool → bool → bool → bool := λ n _ _ _ _ _, negb n.
Definition spec_c1 : bool → bool → bool → bool → bool → bool → bool := λ n _ _ _ _ _, n.
Definition spec_free : bool → bool → bool → bool → bool → bool → bool := λ _ _ _ _ _ _, true.
Definition spec_xor : bool → bool → bool → bool → bool → bool → bool := λ _ _ a b c _, eqb c (xorb a b).
Definition spec_inv : bool → bool → bool → bool → bool → bool → bool := λ n _ _ _ _ i, eqb n (negb i).

(* the documented encoder: which arm serves which type, and what its clauses mean *)
Definition branch_ok (t : gtype) (b : option branch) : bool :=
  match t, b with
  | (And | Nand | Or | Nor), Some (BMulti pn pf an af) => tmpl_ok t {| per_n := pn; per_f := pf; all_n := an; all_f := af |}
  | (Buf | BbIn), Some (BSingle cls) => sem_ok (spec_single false) cls
  | Not, Some (BSingle cls) => sem_ok (spec_single true) cls
  | (Xor | Xnor), Some BParity => true
  | C0, Some (BUnit cls) => sem_ok spec_c0 cls
  | C1, Some (BUnit cls) => sem_ok spec_c1 cls
  | (Input | BbOut), Some (BUnit cls) => sem_ok spec_free cls
  | (CX | Unsup | NoTy), None => true
  | _, _ => false
  end.
Definition demote_doc (t : gtype) : option gtype :=
  match t with And | Or | Xor => Some Buf | Nand | Nor | Xnor => Some Not | _ => None end.
Definition cnf_tables_ok (T : cnf_tables) : bool :=
  forallb (λ t, bool_decide (assoc t (t_demote T) = demote_doc t) && branch_ok t (assoc t (t_branches T))) all_types
  && sem_ok spec_xor (t_xor T) && sem_ok spec_inv (t_xnor_inv T) && bool_decide (t_else T = ValueError).

(* ================= 2. what lint-cleanliness gives the encoder ================= *)
Definition node_wf (i : ninfo) : Prop :=
  match n_ty i with
  | Buf | Not | BbIn => size (n_fi i) = 1
  | And | Nand | Or | Nor | Xor | Xnor => 1 ≤ size (n_fi i)
  | C0 | C1 | Input | BbOut => True
  | CX | Unsup | NoTy => False
  end.
Definition cnf_wf (c : circuit) : Prop := ∀ n i, c !! n = Some i → node_wf i.

Lemma lint_tables_ok : tables_ok gen_tables = true.
Proof. vm_compute. reflexivity. Qed.

Lemma lint_node_wf C n i : lint_clean C → c_g C !! n = Some i → n_ty i ≠ CX → node_wf i.
Proof.
  intros Hl Hn HX. unfold lint_clean in Hl.
  apply (lint_ok_iff gen_tables lint_tables_ok) in Hl.
  assert (Hnv : ¬ node_violates C default_flags n i).
  { intros Hv. apply Hl. left. eauto. }
  unfold node_violates in Hnv. unfold node_wf.
  assert (Hund : undriven default_flags = true) by reflexivity.
  assert (Hsz : n_fi i = ∅ ↔ size (n_fi i) = 0).
  { split; [intros ->; apply size_empty|]. intros. apply leibniz_equiv. by apply size_empty_iff. }
  unfold doc_supported, doc_single, doc_multi in Hnv.
  destruct (n_ty i) eqn:E; try done; try lia.
  all: try (destruct (decide (size (n_fi i) = 1)) as [|Hne]; [done|]; exfalso; apply Hnv;
            destruct (decide (size (n_fi i) = 0)) as [H0|H0];
            [ do 5 right; left; split; [done|]; split; [set_solver|by apply Hsz]
            | do 4 right; left; split; [set_solver|lia] ]).
  all: try (destruct (decide (1 ≤ size (n_fi i))) as [|Hne]; [done|]; exfalso; apply Hnv;
            do 5 right; left; split; [done|]; split; [set_solver|apply Hsz; lia]).
  all: exfalso; apply Hnv; left; set_solver.
Qed.
Lemma lint_wf C : lint_clean C → no_x (c_g C) → cnf_wf (c_g C).
Proof.
  intros Hl Hx n i Hn. apply (lint_node_wf C n i Hl Hn).
  intros E. unfold no_x in Hx. assert (n ∈ of_type (c_g C) (is_ty CX)) as Hin; [|rewrite Hx in Hin; set_solver].
  apply elem_of_of_type. exists i. split; [done|]. unfold is_ty. by apply bool_decide_eq_true.
Qed.
