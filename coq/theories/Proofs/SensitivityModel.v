(* C11: the MODEL functions of Model/Sensitivity.v produce the shapes of Proofs/SensitivityProofs.v
   (so sensitization_spec_full / sensitivity_transform_spec_full hold).  Built on the add_subcircuit / add_g inversions of the
   C04/C06 development (Proofs/ComposeProofs.v, Proofs/MiterProofs.v). *)
From Coq Require Import QArith.
From stdpp Require Import strings gmap sets fin_sets pretty.
From CG Require Import Model.Compose6 Proofs.SensitivityProofs Proofs.ComposeProofs Proofs.MiterProofs.
Open Scope string_scope.
Open Scope nat_scope.

(* ================================================================================================ *)
(* A. effect of API steps on look-ups                                                                 *)
(* eff g g' A: no key disappears, and every pre-existing key outside A keeps its record *)
Definition eff (g g' : circuit) (A : gset string) : Prop :=
  dom g ⊆ dom g' ∧ ∀ k, k ∈ dom g → k ∉ A → g' !! k = g !! k.
Lemma eff_refl g : eff g g ∅.
Proof. split; [set_solver|done]. Qed.
Lemma eff_trans g g1 g2 A1 A2 : eff g g1 A1 → eff g1 g2 A2 → eff g g2 (A1 ∪ A2).
Proof.
  intros [D1 H1] [D2 H2]. split; [set_solver|]. intros k Hk Hn.
  rewrite H2 by set_solver. apply H1; set_solver.
Qed.
Lemma eff_weaken g g' A B : A ⊆ B → eff g g' A → eff g g' B.
Proof. intros HAB [D H]. split; [done|]. intros k Hk Hn. apply H; set_solver. Qed.
Lemma eff_lookup g g' A k i : eff g g' A → g !! k = Some i → k ∉ A → g' !! k = Some i.
Proof. intros [_ H] Hk Hn. rewrite H; [done| |done]. apply elem_of_dom; eauto. Qed.
Lemma eff_dom g g' A k : eff g g' A → k ∈ dom g → k ∈ dom g'.
Proof. intros [D _]. apply D. Qed.

Lemma str_len_app (a b : string) : String.length (a ++ b) = String.length a + String.length b.
Proof. induction a as [|c a IH]; simpl; [done|]. f_equal. exact IH. Qed.
Lemma pre_ne p s : pre p s ≠ s.
Proof.
  intros H. apply (f_equal String.length) in H. unfold pre in H. rewrite !str_len_app in H. simpl in H. lia.
Qed.

Definition add_edges (c : circuit) (l : list (string * string)) : circuit :=
  foldl (λ c' (p : string * string), add_edge c' p.1 p.2) c l.
Lemma add_edge_lookup c u x k :
  add_edge c u x !! k = if decide (k = x) then upd_fi (λ s, {[u]} ∪ s) <$> c !! k else c !! k.
Proof. unfold add_edge. destruct (decide (k = x)) as [->|H]; [by rewrite lookup_alter|by rewrite lookup_alter_ne]. Qed.
(* edges from one source to several targets *)
Lemma upd_fi_empty i : upd_fi (λ s : gset string, ∅ ∪ s) i = i.
Proof. destruct i. unfold upd_fi. simpl. f_equal. set_solver. Qed.
Lemma upd_fi_comp A B i : upd_fi (λ s : gset string, A ∪ s) (upd_fi (λ s, B ∪ s) i) = upd_fi (λ s, (A ∪ B) ∪ s) i.
Proof. destruct i. unfold upd_fi. simpl. f_equal. set_solver. Qed.
Lemma add_edges_nil c : add_edges c [] = c.
Proof. reflexivity. Qed.
Lemma add_edges_cons c u x l : add_edges c ((u, x) :: l) = add_edges (add_edge c u x) l.
Proof. reflexivity. Qed.
Lemma add_edges_from u vs : ∀ c k,
  add_edges c ((λ x, (u, x)) <$> vs) !! k = if decide (k ∈ vs) then upd_fi (λ s, {[u]} ∪ s) <$> c !! k else c !! k.
Proof.
  induction vs as [|x vs IH]; intros c k.
  - rewrite fmap_nil, add_edges_nil. case_decide as H; [by apply elem_of_nil in H|done].
  - rewrite fmap_cons, add_edges_cons, IH, add_edge_lookup.
    destruct (decide (k ∈ vs)) as [Hin|Hin]; destruct (decide (k = x)) as [->|Hne].
    + rewrite decide_True by (by left). destruct (c !! x) as [i|]; [|done]. simpl. f_equal. rewrite upd_fi_comp. f_equal.
      destruct i; unfold upd_fi; simpl; f_equal; set_solver.
    + by rewrite decide_True by (by right).
    + by rewrite decide_True by (by left).
    + rewrite decide_False; [done|]. intros [?|?]%elem_of_cons; done.
Qed.
(* edges from several sources to one target *)
Lemma add_edges_to us x : ∀ c k,
  add_edges c ((λ u, (u, x)) <$> us) !! k = if decide (k = x) then upd_fi (λ s, list_to_set us ∪ s) <$> c !! k else c !! k.
Proof.
  induction us as [|u us IH]; intros c k.
  - rewrite fmap_nil, add_edges_nil. destruct (decide (k = x)); [|done]. destruct (c !! k) as [i|]; [|done].
    simpl. f_equal. by rewrite upd_fi_empty.
  - rewrite fmap_cons, add_edges_cons, IH, add_edge_lookup. destruct (decide (k = x)) as [->|Hne]; [|done].
    destruct (c !! x) as [i|]; [|done]. simpl. f_equal. rewrite upd_fi_comp.
    destruct i; unfold upd_fi; simpl; f_equal; set_solver.
Qed.
Lemma pairs_singleton_r (us : list string) (x : string) : pairs us [x] = (λ u, (u, x)) <$> us.
Proof. unfold pairs. induction us as [|u us IH]; [done|]. rewrite bind_cons, fmap_cons, <- IH. reflexivity. Qed.

(* connect_g, accepted *)
Lemma connect_from c u vs c' : connect_g c [u] vs = (c', Done) →
  (∀ k, c' !! k = if decide (k ∈ vs) then upd_fi (λ s, {[u]} ∪ s) <$> c !! k else c !! k) ∧
  (vs ≠ [] → u ∈ dom c ∧ ∀ x, x ∈ vs → x ∈ dom c).
Proof.
  destruct vs as [|x vs].
  - rewrite connect_g_nil_r. intros [= <-]. split; [|done]. intros k. case_decide as H; [by apply elem_of_nil in H|done].
  - intros H. apply connect_g_done in H as [-> Hd]; [|done..]. rewrite pairs_singleton_l. split.
    + intros k. apply (add_edges_from u (x :: vs)).
    + intros _. split; [apply Hd; by left|]. intros y Hy. apply Hd. by right.
Qed.
Lemma connect_to c us x c' : connect_g c us [x] = (c', Done) →
  (∀ k, c' !! k = if decide (k = x) then upd_fi (λ s, list_to_set us ∪ s) <$> c !! k else c !! k) ∧
  (us ≠ [] → x ∈ dom c ∧ ∀ u, u ∈ us → u ∈ dom c).
Proof.
  destruct us as [|u us].
  - rewrite connect_g_nil_l. intros [= <-]. split; [|done]. intros k. destruct (decide (k = x)); [|done].
    destruct (c !! k) as [i|]; [|done]. simpl. f_equal. by rewrite upd_fi_empty.
  - intros H. apply connect_g_done in H as [-> Hd]; [|done..]. rewrite pairs_singleton_r. split.
    + intros k. apply (add_edges_to (u :: us) x).
    + intros _. split; [apply Hd; set_solver|]. intros y Hy. apply Hd. set_solver.
Qed.

(* a successful plain add(n, t, fanin=fi, fanout=fo) *)
Lemma add_g_lookup g n t fi fo fl g' n' :
  af_uid fl = false → af_conn fl = false → af_redef fl = false →
  add_g g n t fi fo fl = (g', Done, n') → n ∉ fo →
  n' = n ∧ n ∉ dom g ∧
  g' !! n = Some (mk_node t (af_out fl) (list_to_set fi)) ∧
  (∀ k, k ≠ n → g' !! k = if decide (k ∈ fo) then upd_fi (λ s, {[n]} ∪ s) <$> g !! k else g !! k) ∧
  (∀ x, x ∈ fo → x ∈ dom g) ∧ (∀ x, x ∈ fi → x ∈ dom g ∨ x = n).
Proof.
  intros Hu Hc Hr H Hnfo.
  destruct (add_g_done _ _ _ _ _ _ _ _ Hu Hc Hr H) as (-> & Hn & g2 & H1 & H2).
  destruct (connect_from _ _ _ _ H1) as [L1 D1]. destruct (connect_to _ _ _ _ H2) as [L2 D2].
  split; [done|]. split; [done|]. split; [|split; [|split]].
  - rewrite L2, decide_True by done. rewrite L1, decide_False by done. rewrite lookup_insert. simpl. f_equal.
    unfold upd_fi, mk_node. simpl. f_equal. set_solver.
  - intros k Hk. rewrite L2, decide_False by done. rewrite L1. by rewrite lookup_insert_ne.
  - intros x Hx. destruct fo as [|y fo]; [by apply elem_of_nil in Hx|]. destruct D1 as [_ D1]; [done|].
    specialize (D1 x Hx). rewrite dom_insert_L in D1. apply elem_of_union in D1 as [->%elem_of_singleton|?]; [done|done].
  - intros x Hx. destruct fi as [|y fi]; [by apply elem_of_nil in Hx|]. destruct D2 as [_ D2]; [done|].
    specialize (D2 x Hx).
    assert (dom g2 = dom (<[n := mk_node t (af_out fl) ∅]> g)) as Hd.
    { pose proof (connect_g_dom (<[n := mk_node t (af_out fl) ∅]> g) [n] fo) as Hd. by rewrite H1 in Hd. }
    rewrite Hd, dom_insert_L in D2. apply elem_of_union in D2 as [->%elem_of_singleton|?]; auto.
Qed.
Lemma add_g_eff g n t fi fo fl g' n' :
  af_uid fl = false → af_conn fl = false → af_redef fl = false →
  add_g g n t fi fo fl = (g', Done, n') → n ∉ fo → eff g g' (list_to_set fo).
Proof.
  intros Hu Hc Hr H Hnfo. destruct (add_g_lookup _ _ _ _ _ _ _ _ Hu Hc Hr H Hnfo) as (_ & Hn & Hl & Hk & _).
  split.
  - intros k Hk'. apply elem_of_dom. destruct (decide (k = n)) as [->|Hne]; [by rewrite Hl|].
    rewrite (Hk k Hne). apply elem_of_dom in Hk' as [i Hi]. rewrite Hi. destruct (decide (k ∈ fo)); simpl; eauto.
  - intros k Hd Hnot. assert (k ≠ n) by (intros ->; done). rewrite (Hk k) by done.
    rewrite decide_False; [done|]. intros Hin. apply Hnot. by apply elem_of_list_to_set.
Qed.

(* add_subcircuit without connections: the closed form of ComposeProofs *)
Lemma add_sub_nil P SC name P' : add_subcircuit P SC name [] = (P', Done) →
  c_g P' = c_g P ∪ rename (pre name) (strip_io (c_g SC)) ∧ c_name P' = c_name P ∧
  c_bbs P' = kmap (pre name) (c_bbs SC) ∪ c_bbs P ∧
  (∀ n, n ∈ dom (c_g SC) → pre name n ∉ dom (c_g P)).
Proof.
  intros H. destruct (add_subcircuit_inv _ _ _ _ _ H) as (_ & Hf & _ & Hn & Hb & Hg). simpl in Hg. by simplify_eq.
Qed.
Lemma add_sub_lookup_new P SC name P' x i : add_subcircuit P SC name [] = (P', Done) → c_g SC !! x = Some i →
  c_g P' !! pre name x = Some (ren_info (pre name) (strip_info i)).
Proof.
  intros H Hx. destruct (add_sub_nil _ _ _ _ H) as (-> & _ & _ & Hf).
  rewrite lookup_union_r.
  - rewrite lookup_rename by apply _. unfold strip_io. by rewrite lookup_fmap, Hx.
  - apply not_elem_of_dom, Hf. apply elem_of_dom. eauto.
Qed.
Lemma add_sub_eff P SC name P' : add_subcircuit P SC name [] = (P', Done) → eff (c_g P) (c_g P') ∅.
Proof.
  intros H. destruct (add_sub_nil _ _ _ _ H) as (-> & _ & _ & Hf). split.
  - rewrite dom_union_L. set_solver.
  - intros k [i Hk]%elem_of_dom _. rewrite Hk. by apply lookup_union_Some_l.
Qed.

(* my add_each (generic element type) *)
Lemma my_add_each_fail {X} (f : circuit → X → circuit * outcome * string) g e xs :
  foldl (λ st x, match st with (g, Done) => let '(g', o, _) := f g x in (g', o) | _ => st end) (g, Fail e) xs = (g, Fail e).
Proof. induction xs; simpl; done. Qed.
Lemma my_add_each_cons {X} (f : circuit → X → circuit * outcome * string) g x xs g' :
  add_each f g (x :: xs) = (g', Done) → ∃ g1 n1, f g x = (g1, Done, n1) ∧ add_each f g1 xs = (g', Done).
Proof.
  unfold add_each. simpl. destruct (f g x) as [[g1 o1] n1] eqn:Hf.
  destruct o1 as [|e]; [|by rewrite my_add_each_fail]. intros H. by exists g1, n1.
Qed.
Lemma my_add_each_nil {X} (f : circuit → X → circuit * outcome * string) g g' : add_each f g [] = (g', Done) → g' = g.
Proof. by intros [= <-]. Qed.


(* ================================================================================================ *)
(* B. sensitization_transform produces sens_shape                                                     *)
(* combinational, lint-clean, blackbox-free graph: what the property quantifies over *)
Record comb (c : circuit) : Prop := {
  cb_closed : closed c;
  cb_acyclic : acyclic c;
  cb_inputs_only : inputs_only c;
  cb_input_fi : ∀ x i, c !! x = Some i → n_ty i = Input → n_fi i = ∅;
  cb_nobb : ∀ x i, c !! x = Some i → n_ty i ≠ BbIn ∧ n_ty i ≠ BbOut }.

Lemma comb_startpoints c : comb c → startpoints c = inputs c.
Proof.
  intros Hc. apply set_eq. intros x. unfold startpoints. rewrite elem_of_of_type, elem_of_inputs. split.
  - intros (i & Hi & Ht). exists i. split; [done|]. apply orb_true_iff in Ht as [Ht|Ht]; unfold is_ty in Ht; apply bool_decide_eq_true in Ht; [done|].
    destruct (cb_nobb c Hc x i Hi) as [_ H]. done.
  - intros (i & Hi & Ht). exists i. split; [done|]. unfold is_ty. rewrite Ht. done.
Qed.
Lemma comb_endpoints c : comb c → endpoints c = outputs c.
Proof.
  intros Hc. unfold endpoints. apply set_eq. intros x. rewrite elem_of_union, elem_of_of_type. split; [|by left].
  intros [?|(i & Hi & Ht)]; [done|]. unfold is_ty in Ht. apply bool_decide_eq_true in Ht.
  destruct (cb_nobb c Hc x i Hi) as [H _]. done.
Qed.
Lemma nonfree_not_input i : is_free i = false → n_ty i ≠ Input.
Proof. unfold is_free. by destruct (n_ty i). Qed.
Lemma strip_copy_nonfree p i : is_free i = false →
  n_ty (ren_info (pre p) (strip_info i)) = n_ty i ∧ n_fi (ren_info (pre p) (strip_info i)) = set_map (pre p) (n_fi i).
Proof. intros H. simpl. by rewrite bool_decide_eq_false_2 by (by apply nonfree_not_input). Qed.

(* the tie loop *)
Definition tie1 (g : circuit) (n : string) := add_g g n Input [] [pre "c0" n; pre "c1" n] af_default.
Definition tie_src (S : list string) (k : string) : gset string :=
  list_to_set (filter (λ s, k = pre "c0" s ∨ k = pre "c1" s) S).
Lemma tie_loop_lookup S : ∀ g g', add_each tie1 g S = (g', Done) →
  (∀ s, s ∈ S → s ∉ dom g) ∧ dom g ⊆ dom g' ∧
  ∀ k, k ∈ dom g → g' !! k = upd_fi (λ F, tie_src S k ∪ F) <$> g !! k.
Proof.
  induction S as [|s S IH]; intros g g' H.
  - apply my_add_each_nil in H as ->. split; [by intros s ?%elem_of_nil|]. split; [done|]. intros k [i Hi]%elem_of_dom.
    rewrite Hi. simpl. f_equal. unfold tie_src. rewrite filter_nil. symmetry. apply upd_fi_empty.
  - apply my_add_each_cons in H as (g1 & n1 & Hstep & Hrest). unfold tie1 in Hstep.
    assert (Hnfo : s ∉ [pre "c0" s; pre "c1" s]).
    { intros [E|[E|E%elem_of_nil]%elem_of_cons]%elem_of_cons; [| |done]; symmetry in E; by apply pre_ne in E. }
    destruct (add_g_lookup _ _ _ _ _ af_default _ _ eq_refl eq_refl eq_refl Hstep Hnfo) as (_ & Hs & Hls & Hk & _ & _).
    pose proof (add_g_eff _ _ _ _ _ af_default _ _ eq_refl eq_refl eq_refl Hstep Hnfo) as [Hd1 _].
    destruct (IH g1 g' Hrest) as (Hfr & Hd & Hlk).
    split; [|split].
    + intros s' [->|Hs']%elem_of_cons; [done|]. intros Hin. apply (Hfr s' Hs'). by apply Hd1.
    + set_solver.
    + intros k Hkd. assert (k ≠ s) by (intros ->; done).
      rewrite (Hlk k (Hd1 k Hkd)), (Hk k) by done. apply elem_of_dom in Hkd as [i Hi]. rewrite Hi.
      unfold tie_src. rewrite filter_cons.
      destruct (decide (k ∈ [pre "c0" s; pre "c1" s])) as [Hin|Hin].
      * rewrite decide_True by (apply elem_of_cons in Hin as [->|Hin]; [by left|right; by apply elem_of_list_singleton in Hin]).
        simpl. f_equal. rewrite upd_fi_comp. destruct i; unfold upd_fi; simpl; f_equal; set_solver.
      * rewrite decide_False; [done|]. intros [->| ->]; apply Hin; set_solver.
Qed.
Lemma tie_src_c0 S x : tie_src S (pre "c0" x) = if decide (x ∈ S) then {[x]} else ∅.
Proof.
  apply set_eq. intros y. unfold tie_src. rewrite elem_of_list_to_set, elem_of_list_filter.
  destruct (decide (x ∈ S)) as [Hx|Hx].
  - rewrite elem_of_singleton. split.
    + intros [[E|E] _]; [by apply (inj (pre "c0")) in E|unfold pre in E; simplify_eq/=].
    + intros ->. split; [by left|done].
  - split; [|set_solver]. intros [[E|E] Hy]; [apply (inj (pre "c0")) in E; by subst|unfold pre in E; simplify_eq/=].
Qed.
Lemma tie_src_c1 S x : tie_src S (pre "c1" x) = if decide (x ∈ S) then {[x]} else ∅.
Proof.
  apply set_eq. intros y. unfold tie_src. rewrite elem_of_list_to_set, elem_of_list_filter.
  destruct (decide (x ∈ S)) as [Hx|Hx].
  - rewrite elem_of_singleton. split.
    + intros [[E|E] _]; [unfold pre in E; simplify_eq/=|by apply (inj (pre "c1")) in E].
    + intros ->. split; [by right|done].
  - split; [|set_solver]. intros [[E|E] Hy]; [unfold pre in E; simplify_eq/=|apply (inj (pre "c1")) in E; by subst].
Qed.

(* the dif loop *)
Definition dif1 (g : circuit) (n : string) := add_g g (pre "dif" n) Xor [pre "c0" n; pre "c1" n] ["sat"] af_default.
Lemma dif_loop_lookup E : ∀ g g' isat, add_each dif1 g E = (g', Done) → g !! "sat" = Some isat →
  (∀ e, e ∈ E → g' !! pre "dif" e = Some (mk_node Xor false {[pre "c0" e; pre "c1" e]})) ∧
  g' !! "sat" = Some (upd_fi (λ F, list_to_set (pre "dif" <$> E) ∪ F) isat) ∧
  eff g g' {["sat"]}.
Proof.
  induction E as [|e E IH]; intros g g' isat H Hsat.
  - apply my_add_each_nil in H as ->. split; [by intros e ?%elem_of_nil|]. split.
    + rewrite Hsat. f_equal. symmetry. apply upd_fi_empty.
    + eapply eff_weaken; [|apply eff_refl]. set_solver.
  - apply my_add_each_cons in H as (g1 & n1 & Hstep & Hrest). unfold dif1 in Hstep.
    assert (Hnfo : pre "dif" e ∉ ["sat"]) by (intros ?%elem_of_list_singleton; by eapply pre_dif_sat).
    destruct (add_g_lookup _ _ _ _ _ af_default _ _ eq_refl eq_refl eq_refl Hstep Hnfo) as (_ & Hfresh & Hnew & Hk & _ & _).
    pose proof (add_g_eff _ _ _ _ _ af_default _ _ eq_refl eq_refl eq_refl Hstep Hnfo) as Heff1.
    assert (Hsat1 : g1 !! "sat" = Some (upd_fi (λ s, {[pre "dif" e]} ∪ s) isat)).
    { rewrite (Hk "sat") by (intros E'; symmetry in E'; by eapply pre_dif_sat). rewrite decide_True by set_solver. by rewrite Hsat. }
    destruct (IH g1 g' _ Hrest Hsat1) as (Hd & Hs & Heff).
    split; [|split].
    + intros e' [->|He']%elem_of_cons; [|by apply Hd].
      apply (eff_lookup g1 g' {["sat"]}); [done| |].
      * rewrite Hnew. f_equal. unfold mk_node. f_equal. set_solver.
      * intros ?%elem_of_singleton. by eapply pre_dif_sat.
    + rewrite Hs. f_equal. rewrite upd_fi_comp. destruct isat; unfold upd_fi; simpl; f_equal. set_solver.
    + eapply eff_weaken; [|eapply eff_trans; [exact Heff1|exact Heff]]. set_solver.
Qed.

(* miter_self unpacked *)
Lemma miter_self_inv SC M : miter_self SC = Ok M →
  ∃ M1 M2 g3 g4 g5 n4,
    c_bbs SC = ∅ ∧
    add_subcircuit {| c_name := "miter_" ++ c_name SC ++ "_" ++ c_name SC; c_g := ∅; c_bbs := ∅ |} SC "c0" [] = (M1, Done) ∧
    add_subcircuit M1 SC "c1" [] = (M2, Done) ∧
    add_each tie1 (c_g M2) (elements (startpoints (c_g SC))) = (g3, Done) ∧
    add_g g3 "sat" (match elements (endpoints (c_g SC)) with [] => C0 | [_] => Buf | _ => Or end) [] [] af_out1 = (g4, Done, n4) ∧
    add_each dif1 g4 (elements (endpoints (c_g SC))) = (g5, Done) ∧
    M = with_g M2 g5.
Proof.
  unfold miter_self, lift. case_bool_decide as Hbb; simpl; [|done].
  destruct (add_subcircuit _ SC "c0" []) as [M1 [|e1]] eqn:H1; [|done].
  destruct (add_subcircuit M1 SC "c1" []) as [M2 [|e2]] eqn:H2; [|done].
  fold tie1. destruct (add_each tie1 (c_g M2) _) as [g3 [|e3]] eqn:H3; [|done].
  destruct (add_g g3 "sat" _ [] [] af_out1) as [[g4 [|e4]] n4] eqn:H4; [|done].
  fold dif1. destruct (add_each dif1 g4 _) as [g5 [|e5]] eqn:H5; [|done].
  intros [= <-]. by exists M1, M2, g3, g4, g5, n4.
Qed.


Lemma sat_kind_ok (Es : gset string) t :
  t = match elements Es with [] => C0 | [_] => Buf | _ => Or end →
  (t = Or ∧ Es ≠ ∅) ∨ (t = Buf ∧ ∃ e, Es = {[e]}) ∨ (t = C0 ∧ Es = ∅).
Proof.
  intros ->. destruct (elements Es) as [|e [|e' l]] eqn:Hel.
  - right. right. split; [done|]. by apply elements_empty_inv in Hel; apply leibniz_equiv in Hel.
  - right. left. split; [done|]. exists e. apply set_eq. intros y. rewrite <- elem_of_elements, Hel. set_solver.
  - left. split; [done|]. intros ->. by rewrite elements_empty in Hel.
Qed.

Theorem sens_model_shape SC n M g :
  comb (c_g SC) → n ∈ dom (c_g SC) → miter_self SC = Ok M → flip_node (c_g M) n = Ok g →
  sens_shape (c_g SC) n (endpoints (c_g SC)) g.
Proof.
  intros Hc Hn HM Hflip.
  destruct (miter_self_inv _ _ HM) as (M1 & M2 & g3 & g4 & g5 & n4 & Hbb & H1 & H2 & H3 & H4 & H5 & ->).
  set (c := c_g SC) in *. set (S := elements (startpoints c)) in *. set (E := elements (endpoints c)) in *.
  change (c_g (with_g M2 g5)) with g5 in Hflip.
  (* the two copies *)
  assert (B0 : ∀ x i, c !! x = Some i → c_g M2 !! pre "c0" x = Some (ren_info (pre "c0") (strip_info i))).
  { intros x i Hx. eapply eff_lookup; [apply (add_sub_eff _ _ _ _ H2)| |set_solver]. by apply (add_sub_lookup_new _ _ _ _ x i H1). }
  assert (B1 : ∀ x i, c !! x = Some i → c_g M2 !! pre "c1" x = Some (ren_info (pre "c1") (strip_info i))).
  { intros x i Hx. by apply (add_sub_lookup_new _ _ _ _ x i H2). }
  destruct (tie_loop_lookup _ _ _ H3) as (Hfresh & Hd23 & Htie).
  assert (Hnsat : "sat" ∉ ([] : list string)) by (by intros ?%elem_of_nil).
  destruct (add_g_lookup _ _ _ _ _ af_out1 _ _ eq_refl eq_refl eq_refl H4 Hnsat) as (_ & Hsatfresh & Hsat4 & Hk4 & _ & _).
  pose proof (add_g_eff _ _ _ _ _ af_out1 _ _ eq_refl eq_refl eq_refl H4 Hnsat) as [Hd34 _].
  destruct (dif_loop_lookup _ _ _ _ H5 Hsat4) as (Hdif & Hsat5 & Heff5).
  (* keys of the copies in the miter *)
  assert (F5 : ∀ k, k ∈ dom (c_g M2) → k ≠ "sat" → g5 !! k = upd_fi (λ F, tie_src S k ∪ F) <$> c_g M2 !! k).
  { intros k Hk Hks. rewrite <- (Htie k Hk). destruct Heff5 as [_ He5]. rewrite He5; [|apply Hd34, Hd23, Hk|set_solver].
    rewrite (Hk4 k Hks). case_decide as Hin; [by apply elem_of_nil in Hin|done]. }
  assert (HS : ∀ x, x ∈ S ↔ x ∈ inputs c).
  { intros x. unfold S. rewrite elem_of_elements, (comb_startpoints c Hc). done. }
  assert (C0k : ∀ x i, c !! x = Some i →
     g5 !! pre "c0" x = Some (upd_fi (λ F, (if decide (x ∈ S) then {[x]} else ∅) ∪ F) (ren_info (pre "c0") (strip_info i)))).
  { intros x i Hx. rewrite F5; [|apply elem_of_dom; rewrite (B0 x i Hx); eauto|unfold pre; intros [=]].
    by rewrite (B0 x i Hx), tie_src_c0. }
  assert (C1k : ∀ x i, c !! x = Some i →
     g5 !! pre "c1" x = Some (upd_fi (λ F, (if decide (x ∈ S) then {[x]} else ∅) ∪ F) (ren_info (pre "c1") (strip_info i)))).
  { intros x i Hx. rewrite F5; [|apply elem_of_dom; rewrite (B1 x i Hx); eauto|unfold pre; intros [=]].
    by rewrite (B1 x i Hx), tie_src_c1. }
  (* the flip *)
  apply elem_of_dom in Hn as [i_n Hin].
  pose proof (C0k n i_n Hin) as Hc0n. pose proof (C1k n i_n Hin) as Hc1n.
  rewrite (flip_node_closed_form g5 n _ _ Hc1n Hc0n) in Hflip.
  2,3: cbn [upd_fi n_ty ren_info strip_info]; destruct (cb_nobb c Hc n i_n Hin); case_bool_decide; congruence.
  injection Hflip as <-.
  assert (FL : ∀ k, k ≠ pre "c1" n → (<[pre "c1" n := mk_node Not (n_out (upd_fi (λ F, (if decide (n ∈ S) then {[n]} else ∅) ∪ F) (ren_info (pre "c1") (strip_info i_n)))) {[pre "c0" n]}]> g5) !! k = g5 !! k).
  { intros k Hk. by rewrite lookup_insert_ne. }
  assert (NF : ∀ x i, c !! x = Some i → is_free i = false → x ∉ S).
  { intros x i Hx Hf HxS. apply HS in HxS as (i' & Hi' & Ht)%elem_of_inputs. rewrite Hx in Hi'. injection Hi' as <-.
    by apply nonfree_not_input in Hf. }
  split.
  - (* copy c0 *) intros x i Hx Hf. exists (upd_fi (λ F, ∅ ∪ F) (ren_info (pre "c0") (strip_info i))).
    rewrite FL by (unfold pre; intros [=]). rewrite (C0k x i Hx), decide_False by (by eapply NF).
    split; [done|]. rewrite upd_fi_empty. by apply strip_copy_nonfree.
  - (* copy c1 *) intros x i Hx Hf Hne. exists (upd_fi (λ F, ∅ ∪ F) (ren_info (pre "c1") (strip_info i))).
    rewrite FL by (intros E'; by apply (inj (pre "c1")) in E'). rewrite (C1k x i Hx), decide_False by (by eapply NF).
    split; [done|]. rewrite upd_fi_empty. by apply strip_copy_nonfree.
  - (* ties c0 *) intros s Hs. pose proof Hs as (i & Hi & Ht)%elem_of_inputs.
    eexists. rewrite FL by (unfold pre; intros [=]). rewrite (C0k s i Hi), decide_True by (by apply HS).
    split; [done|]. cbn [upd_fi n_ty n_fi ren_info strip_info]. rewrite Ht, bool_decide_eq_true_2 by done. split; [done|].
    rewrite (cb_input_fi c Hc s i Hi Ht), set_map_empty. set_solver.
  - (* ties c1 *) intros s Hs Hne. pose proof Hs as (i & Hi & Ht)%elem_of_inputs.
    eexists. rewrite FL by (intros E'; by apply (inj (pre "c1")) in E'). rewrite (C1k s i Hi), decide_True by (by apply HS).
    split; [done|]. cbn [upd_fi n_ty n_fi ren_info strip_info]. rewrite Ht, bool_decide_eq_true_2 by done. split; [done|].
    rewrite (cb_input_fi c Hc s i Hi Ht), set_map_empty. set_solver.
  - (* the flipped node *) eexists. rewrite lookup_insert. done.
  - (* dif nodes *) intros e He. eexists. rewrite FL by (unfold pre; intros [=]).
    rewrite (Hdif e) by (by apply elem_of_elements). done.
  - (* sat *) eexists. rewrite FL by (unfold pre; intros [=]). rewrite Hsat5. split; [done|].
    cbn [upd_fi n_ty n_fi mk_node]. split.
    + apply set_eq. intros y. rewrite elem_of_union, elem_of_list_to_set, elem_of_list_fmap, elem_of_map. split.
      * intros [(e & -> & He)|?]; [|set_solver]. exists e. split; [done|]. by apply elem_of_elements in He.
      * intros (e & -> & He). left. exists e. split; [done|]. by apply elem_of_elements.
    + by apply sat_kind_ok.
Qed.


(* ---- Circuit.transitive_fanin: the fuelled closure is closed under fan-in ---- *)
Lemma elem_of_fanin_of c (S : gset string) f : f ∈ fanin_of c S ↔ ∃ y, y ∈ S ∧ f ∈ fanin c y.
Proof.
  unfold fanin_of. rewrite elem_of_union_list. split.
  - intros (X & (y & -> & Hy)%elem_of_list_fmap & Hf). exists y. split; [by apply elem_of_elements|done].
  - intros (y & Hy & Hf). exists (fanin c y). split; [|done]. apply elem_of_list_fmap. exists y. split; [done|by apply elem_of_elements].
Qed.
Lemma fanin_of_dom c S : closed c → fanin_of c S ⊆ dom c.
Proof. intros Hcl f (y & _ & (i & Hi & Hf)%elem_of_fanin)%elem_of_fanin_of. eapply Hcl; eauto. Qed.
Lemma tfi_loop_stable k c acc : fanin_of c acc ⊆ acc → tfi_loop k c acc = acc.
Proof.
  intros H. induction k as [|k IH]; [done|]. simpl. replace (acc ∪ fanin_of c acc) with acc; [done|].
  apply set_eq. set_solver.
Qed.
Lemma tfi_loop_fix fuel c : closed c → ∀ acc, acc ⊆ dom c → size (dom c ∖ acc) ≤ fuel →
  acc ⊆ tfi_loop fuel c acc ∧ fanin_of c (tfi_loop fuel c acc) ⊆ tfi_loop fuel c acc.
Proof.
  intros Hcl. induction fuel as [|fuel IH]; intros acc Hsub Hsz.
  - simpl. split; [done|]. assert (dom c ∖ acc ≡ ∅) as He by (apply size_empty_iff; lia).
    intros f Hf. apply (fanin_of_dom c acc Hcl) in Hf. destruct (decide (f ∈ acc)); [done|]. set_solver.
  - destruct (decide (fanin_of c acc ⊆ acc)) as [Hfix|Hnf].
    + rewrite (tfi_loop_stable _ _ _ Hfix). done.
    + simpl. pose proof (fanin_of_dom c acc Hcl) as Hfd.
      destruct (IH (acc ∪ fanin_of c acc)) as [H1 H2]; [set_solver| |split; [set_solver|done]].
      assert (∃ f, f ∈ fanin_of c acc ∧ f ∉ acc) as (f & Hf & Hfa).
      { destruct (decide (fanin_of c acc ∖ acc = ∅)) as [He|Hne]; [exfalso; apply Hnf; set_solver|].
        apply set_choose_L in Hne as [f Hf]. exists f. set_solver. }
      assert (dom c ∖ (acc ∪ fanin_of c acc) ⊂ dom c ∖ acc) as Hlt.
      { split; [set_solver|]. intros Hs. specialize (Hs f). set_solver. }
      apply subset_size in Hlt. lia.
Qed.
Lemma tfi_closed c ns : closed c →
  fanin_of c (list_to_set ns) ⊆ tfi c ns ∧ fanin_of c (tfi c ns) ⊆ tfi c ns ∧ tfi c ns ⊆ dom c.
Proof.
  intros Hcl. unfold tfi. pose proof (fanin_of_dom c (list_to_set ns) Hcl) as Hd.
  destruct (tfi_loop_fix (size c) c Hcl (fanin_of c (list_to_set ns)) Hd) as [H1 H2].
  { rewrite <- size_dom. apply subseteq_size. set_solver. }
  split; [done|]. split; [done|].
  (* the loop never leaves dom c *)
  clear H1 H2. generalize (size c). intros k. revert Hd. generalize (fanin_of c (list_to_set ns)).
  induction k as [|k IH]; intros acc Hacc; [done|]. simpl. apply IH. pose proof (fanin_of_dom c acc Hcl). set_solver.
Qed.
Lemma cone_fanin_closed c (E : list string) : closed c →
  ∀ y i f, c !! y = Some i → y ∈ (list_to_set E ∪ tfi c E : gset string) → f ∈ n_fi i → f ∈ (list_to_set E ∪ tfi c E : gset string).
Proof.
  intros Hcl y i f Hy HyK Hf. destruct (tfi_closed c E Hcl) as (H1 & H2 & _). apply elem_of_union_r.
  assert (f ∈ fanin c y) by (apply elem_of_fanin; eauto).
  apply elem_of_union in HyK as [HyE|HyR]; [apply H1|apply H2]; apply elem_of_fanin_of; eauto.
Qed.

(* ---- the selected sub-circuit ---- *)
Definition sel_graph (c : circuit) (E K : gset string) : circuit :=
  map_imap (λ x i, Some (set_out (bool_decide (x ∈ E)) i)) (induced c K).
Lemma sel_lookup c E K y : sel_graph c E K !! y = set_out (bool_decide (y ∈ E)) <$> induced c K !! y.
Proof. unfold sel_graph. rewrite map_lookup_imap. by destruct (induced c K !! y). Qed.
Lemma induced_lookup c K y j : induced c K !! y = Some j ↔ ∃ i, c !! y = Some i ∧ y ∈ K ∧ j = upd_fi (λ fi, fi ∩ K) i.
Proof.
  unfold induced. rewrite lookup_fmap. split.
  - destruct (filter _ c !! y) as [i|] eqn:E; [|done]. apply map_filter_lookup_Some in E as [Hc Hin]. intros [= <-]. eauto.
  - intros (i & Hi & HK & ->). by rewrite (map_filter_lookup_Some_2 _ _ _ i).
Qed.
Lemma sel_sub_of c E K : closed c → (∀ y i f, c !! y = Some i → y ∈ K → f ∈ n_fi i → f ∈ K) → sub_of (sel_graph c E K) c.
Proof.
  intros Hcl HK. pose proof (induced_sub_of c K Hcl HK) as [Hn Hc]. split.
  - intros y j Hy. rewrite sel_lookup in Hy. destruct (induced c K !! y) as [i'|] eqn:Ei; [|done]. injection Hy as <-.
    destruct (Hn y i' Ei) as (i & Hi & Ht & Hf). exists i. done.
  - intros y j f Hy Hf. rewrite sel_lookup in Hy. destruct (induced c K !! y) as [i'|] eqn:Ei; [|done]. injection Hy as <-.
    simpl in Hf. pose proof (Hc y i' f Ei Hf) as Hd. apply elem_of_dom in Hd as [j' Hj']. apply elem_of_dom.
    exists (set_out (bool_decide (f ∈ E)) j'). by rewrite sel_lookup, Hj'.
Qed.
Lemma sub_comb c' c : sub_of c' c → comb c → comb c'.
Proof.
  intros Hs Hc. split.
  - apply Hs.
  - eapply sub_acyclic; [done|apply Hc].
  - eapply sub_inputs_only; [done|apply Hc].
  - intros x i' Hx Ht. destruct (so_nodes _ _ Hs x i' Hx) as (i & Hi & Hty & Hfi). rewrite Hfi. eapply (cb_input_fi c Hc); [done|congruence].
  - intros x i' Hx. destruct (so_nodes _ _ Hs x i' Hx) as (i & Hi & Hty & Hfi). rewrite Hty. by eapply (cb_nobb c Hc).
Qed.
Lemma sel_dom c E K y : closed c → y ∈ dom (sel_graph c E K) ↔ y ∈ K ∧ y ∈ dom c.
Proof.
  intros Hcl. rewrite !elem_of_dom. rewrite sel_lookup. split.
  - intros [j Hj]. destruct (induced c K !! y) as [i'|] eqn:Ei; [|done]. apply induced_lookup in Ei as (i & Hi & HK & _). eauto.
  - intros [HK [i Hi]]. assert (induced c K !! y = Some (upd_fi (λ fi, fi ∩ K) i)) as -> by (apply induced_lookup; eauto). eauto.
Qed.
Lemma sel_outputs c (E K : gset string) : closed c → E ⊆ K → E ⊆ dom c → outputs (sel_graph c E K) = E.
Proof.
  intros Hcl HEK HEd. apply set_eq. intros y. rewrite elem_of_outputs. split.
  - intros (j & Hj & Ho). rewrite sel_lookup in Hj. destruct (induced c K !! y); [|done]. injection Hj as <-. simpl in Ho.
    by apply bool_decide_eq_true in Ho.
  - intros Hy. assert (y ∈ dom (sel_graph c E K)) as [j Hj]%elem_of_dom by (apply sel_dom; auto).
    exists j. split; [done|]. rewrite sel_lookup in Hj. destruct (induced c K !! y); [|done]. injection Hj as <-. simpl.
    by apply bool_decide_eq_true.
Qed.

Lemma sens_at_perm c n (E E' : list string) v : (∀ e, e ∈ E ↔ e ∈ E') → sens_at c n E v ↔ sens_at c n E' v.
Proof. intros H. unfold sens_at. split; intros (e & He & Hne); exists e; (split; [by apply H|done]). Qed.

(* ---- sensitization_spec: full, for the model function ---- *)
Theorem sensitization_model_spec C n Eo T :
  c_bbs C = ∅ → comb (c_g C) → n ∈ dom (c_g C) → sensitization_transform C n Eo = Ok T →
  ∀ v, consistent (c_g T) v →
    (v "sat" = true ↔ sens_at (c_g C) n (match Eo with Some (e :: l) => e :: l | _ => elements (outputs (c_g C)) end) v).
Proof.
  intros Hbb Hc Hn HT v Hv. unfold sensitization_transform in HT. rewrite bool_decide_eq_true_2 in HT by done. cbn [negb] in HT.
  assert (Hnone : ∀ SCx name, rbind (miter_self SCx) (λ M, rbind (flip_node (c_g M) n) (λ g, Ok {| c_name := name; c_g := g; c_bbs := c_bbs M |})) = Ok T →
            ∃ M, miter_self SCx = Ok M ∧ flip_node (c_g M) n = Ok (c_g T)).
  { intros SCx name H. destruct (miter_self SCx) as [M| | |] eqn:EM; try done. simpl in H.
    destruct (flip_node (c_g M) n) as [g| | |] eqn:EF; try done. simpl in H. injection H as <-. eauto. }
  assert (Hself : sub_of (c_g C) (c_g C)).
  { split; [|apply Hc]. intros y i Hy. eauto. }
  destruct Eo as [[|e l]|].
  - (* empty selection = none *)
    destruct (Hnone _ _ HT) as (M & HM & HF).
    pose proof (sens_model_shape C n M (c_g T) Hc Hn HM HF) as Hsh.
    rewrite (comb_endpoints _ Hc) in Hsh.
    assert (HE : outputs (c_g C) ⊆ dom (c_g C)) by (intros y (i & Hi & _)%elem_of_outputs; apply elem_of_dom; eauto).
    exact (sens_shape_spec (c_g C) n (outputs (c_g C)) (c_g T) (cb_closed _ Hc) (cb_acyclic _ Hc) (cb_inputs_only _ Hc) Hn HE Hsh v Hv).
  - (* selected endpoints *)
    set (eord := e :: l) in *. case_bool_decide as Hnd; cbn [negb] in HT; [|done].
    destruct (forallb (λ x, bool_decide (x ∈ dom (c_g C))) eord) eqn:Hall; cbn [negb] in HT; [|done].
    destruct (negb (bool_decide (n ∈ tfi (c_g C) eord)) && negb (bool_decide (n ∈ (list_to_set eord : gset string)))) eqn:Hin; [done|].
    destruct (has_bb_type _); [done|].
    set (Es := (list_to_set eord : gset string)) in *. set (K := Es ∪ tfi (c_g C) eord) in *.
    change (map_imap _ (induced (c_g C) K)) with (sel_graph (c_g C) Es K) in HT.
    destruct (Hnone _ _ HT) as (M & HM & HF). cbn [c_g] in *.
    pose proof (cb_closed _ Hc) as Hcl.
    assert (HEd : Es ⊆ dom (c_g C)).
    { intros y Hy%elem_of_list_to_set. rewrite forallb_forall in Hall. specialize (Hall y ltac:(by apply elem_of_list_In)).
      by apply bool_decide_eq_true in Hall. }
    assert (Hsub : sub_of (sel_graph (c_g C) Es K) (c_g C)) by (apply sel_sub_of; [done|]; by apply cone_fanin_closed).
    assert (HcS : comb (sel_graph (c_g C) Es K)) by (by eapply sub_comb).
    assert (HnK : n ∈ K).
    { apply andb_false_iff in Hin as [H|H]; apply negb_false_iff, bool_decide_eq_true in H; set_solver. }
    assert (HnS : n ∈ dom (sel_graph (c_g C) Es K)) by (by apply sel_dom).
    assert (Hout : outputs (sel_graph (c_g C) Es K) = Es) by (apply sel_outputs; [done|set_solver|done]).
    pose proof (sens_model_shape {| c_name := "circuit"; c_g := sel_graph (c_g C) Es K; c_bbs := ∅ |} n M (c_g T) HcS HnS HM HF) as Hsh.
    cbn [c_g] in Hsh. rewrite (comb_endpoints _ HcS), Hout in Hsh.
    rewrite (sensitization_shape_spec (c_g C) (sel_graph (c_g C) Es K) n Es (c_g T) Hcl (cb_acyclic _ Hc) (cb_inputs_only _ Hc) Hsub HnS); [|
      intros y Hy; apply sel_dom; [done|]; split; [set_solver|by apply HEd]|done|done].
    apply sens_at_perm. intros y. unfold Es. by rewrite elem_of_elements, elem_of_list_to_set.
  - destruct (Hnone _ _ HT) as (M & HM & HF).
    pose proof (sens_model_shape C n M (c_g T) Hc Hn HM HF) as Hsh.
    rewrite (comb_endpoints _ Hc) in Hsh.
    assert (HE : outputs (c_g C) ⊆ dom (c_g C)) by (intros y (i & Hi & _)%elem_of_outputs; apply elem_of_dom; eauto).
    exact (sens_shape_spec (c_g C) n (outputs (c_g C)) (c_g T) (cb_closed _ Hc) (cb_acyclic _ Hc) (cb_inputs_only _ Hc) Hn HE Hsh v Hv).
Qed.


(* ================================================================================================ *)
(* C. sensitivity_transform produces sv_shape                                                         *)
(* the loop `for s in startpoints: sen.add(s, "input", fanout=orig_s)` *)
Definition otie1 (g : circuit) (s : string) := add_g g s Input [] [pre "orig" s] af_default.
Lemma otie_loop_lookup S : ∀ g g', add_each otie1 g S = (g', Done) →
  (∀ s, s ∈ S → s ∉ dom g) ∧ dom g ⊆ dom g' ∧
  ∀ k, k ∈ dom g → g' !! k = upd_fi (λ F, list_to_set (filter (λ s, k = pre "orig" s) S) ∪ F) <$> g !! k.
Proof.
  induction S as [|s S IH]; intros g g' H.
  - apply my_add_each_nil in H as ->. split; [by intros s ?%elem_of_nil|]. split; [done|]. intros k [i Hi]%elem_of_dom.
    rewrite Hi. simpl. f_equal. symmetry. apply upd_fi_empty.
  - apply my_add_each_cons in H as (g1 & n1 & Hstep & Hrest). unfold otie1 in Hstep.
    assert (Hnfo : s ∉ [pre "orig" s]) by (intros E%elem_of_list_singleton; symmetry in E; by apply pre_ne in E).
    destruct (add_g_lookup _ _ _ _ _ af_default _ _ eq_refl eq_refl eq_refl Hstep Hnfo) as (_ & Hs & Hls & Hk & _ & _).
    pose proof (add_g_eff _ _ _ _ _ af_default _ _ eq_refl eq_refl eq_refl Hstep Hnfo) as [Hd1 _].
    destruct (IH g1 g' Hrest) as (Hfr & Hd & Hlk).
    split; [|split].
    + intros s' [->|Hs']%elem_of_cons; [done|]. intros Hin. apply (Hfr s' Hs'). by apply Hd1.
    + set_solver.
    + intros k Hkd. assert (k ≠ s) by (intros ->; done).
      rewrite (Hlk k (Hd1 k Hkd)), (Hk k) by done. apply elem_of_dom in Hkd as [i Hi]. rewrite Hi.
      rewrite filter_cons.
      destruct (decide (k ∈ [pre "orig" s])) as [Hin|Hin].
      * apply elem_of_list_singleton in Hin. rewrite decide_True by done.
        simpl. f_equal. rewrite upd_fi_comp. destruct i; unfold upd_fi; simpl; f_equal; set_solver.
      * rewrite decide_False; [done|]. intros ->. apply Hin. set_solver.
Qed.
Lemma otie_src S x : list_to_set (filter (λ s, pre "orig" x = pre "orig" s) S) = (if decide (x ∈ S) then {[x]} else ∅ : gset string).
Proof.
  apply set_eq. intros y. rewrite elem_of_list_to_set, elem_of_list_filter.
  destruct (decide (x ∈ S)) as [Hx|Hx].
  - rewrite elem_of_singleton. split; [intros [E _]; by apply (inj (pre "orig")) in E|intros ->; done].
  - split; [|set_solver]. intros [E Hy]. apply (inj (pre "orig")) in E. by subst.
Qed.

(* set_type on one existing node *)
Lemma set_type_one g x t g' : set_type_g g [x] t = (g', Done) → ∃ i, g !! x = Some i ∧ g' = <[x := retype t i]> g.
Proof.
  unfold set_type_g. destruct (negb (bool_decide (t ∈ addable_types))); [done|]. cbn [foldl].
  destruct (g !! x) as [i|]; [|done]. intros [= <-]. eauto.
Qed.

(* the inner loop of one inverted copy: `for s1 in startpoints: connect / set_type + connect` *)
Definition inner_step (s0 : string) (st : circuit * outcome) (s1 : string) : circuit * outcome :=
  match st with
  | (g, Done) =>
      if bool_decide (s0 ≠ s1) then connect_g g [s1] [pre (pre "inv" s0) s1]
      else match set_type_g g [pre (pre "inv" s0) s1] Not with
           | (g', Done) => connect_g g' [s0] [pre (pre "inv" s0) s1]
           | r => r end
  | _ => st end.
Definition inner_fn (s0 s1 : string) (i : ninfo) : ninfo :=
  if decide (s0 = s1) then upd_fi (λ F, {[s0]} ∪ F) (retype Not i) else upd_fi (λ F, {[s1]} ∪ F) i.
Lemma inner_fail s0 g e l : foldl (inner_step s0) (g, Fail e) l = (g, Fail e).
Proof. induction l; simpl; done. Qed.
Lemma inner_loop s0 l : ∀ g g', NoDup l → foldl (inner_step s0) (g, Done) l = (g', Done) →
  (∀ s1, s1 ∈ l → g' !! pre (pre "inv" s0) s1 = inner_fn s0 s1 <$> g !! pre (pre "inv" s0) s1) ∧
  (∀ k, (∀ s1, s1 ∈ l → k ≠ pre (pre "inv" s0) s1) → g' !! k = g !! k).
Proof.
  induction l as [|s1 l IH]; intros g g' Hnd H.
  - simpl in H. injection H as <-. split; [by intros s ?%elem_of_nil|done].
  - apply NoDup_cons in Hnd as [Hnin Hnd]. simpl in H.
    set (x := pre (pre "inv" s0) s1) in *.
    assert (∃ g1, foldl (inner_step s0) (g1, Done) l = (g', Done) ∧ ∀ k, g1 !! k = if decide (k = x) then inner_fn s0 s1 <$> g !! k else g !! k)
      as (g1 & Hrest & Hg1).
    { case_bool_decide as Hs.
      - destruct (connect_g g [s1] [x]) as [g1 [|e]] eqn:Hc; [|by rewrite inner_fail in H].
        exists g1. split; [done|]. destruct (connect_from _ _ _ _ Hc) as [L _]. intros k. rewrite L.
        destruct (decide (k = x)) as [->|Hk].
        + rewrite decide_True by set_solver. destruct (g !! x); [|done]. simpl. unfold inner_fn. by rewrite decide_False.
        + rewrite decide_False; [done|]. by intros ?%elem_of_list_singleton.
      - subst s1.
        destruct (set_type_g g [x] Not) as [g0 [|e]] eqn:Hst; [|by rewrite inner_fail in H].
        destruct (connect_g g0 [s0] [x]) as [g1 [|e]] eqn:Hc; [|by rewrite inner_fail in H].
        exists g1. split; [done|]. destruct (set_type_one _ _ _ _ Hst) as (i & Hi & ->).
        destruct (connect_from _ _ _ _ Hc) as [L _]. intros k. rewrite L.
        destruct (decide (k = x)) as [->|Hk].
        + rewrite decide_True by set_solver. rewrite lookup_insert, Hi. simpl. unfold inner_fn. by rewrite decide_True.
        + rewrite decide_False by (by intros ?%elem_of_list_singleton). by rewrite lookup_insert_ne. }
    destruct (IH g1 g' Hnd Hrest) as [IH1 IH2]. split.
    + intros s [->|Hs]%elem_of_cons.
      * rewrite IH2; [by rewrite Hg1, decide_True|]. intros s Hs E. apply (inj (pre (pre "inv" s0))) in E. by subst.
      * rewrite (IH1 s Hs), Hg1. rewrite decide_False; [done|]. intros E. apply (inj (pre (pre "inv" s0))) in E. by subst.
    + intros k Hk. rewrite IH2 by (intros s Hs; apply Hk; by right). rewrite Hg1, decide_False; [done|]. apply Hk. by left.
Qed.


Definition pcin (i : nat) : string := "pc_in_" ++ pretty i.
Lemma pcin_inj i i' : pcin i = pcin i' → i = i'.
Proof. unfold pcin. intros H. apply (inj pretty). by simplify_eq/=. Qed.

(* one inverted copy *)
Lemma inv_copy_inv Sc SUB n ord i s0 S2 : inv_copy Sc SUB n ord i s0 = (S2, Done) →
  ∃ S' g g' n', add_subcircuit Sc SUB (pre "inv" s0) [] = (S', Done) ∧
    foldl (inner_step s0) (c_g S', Done) ord = (g, Done) ∧
    add_g g (pre "dif_out" s0) Xor [pre "orig" n; pre (pre "inv" s0) n] [pcin i] af_out1 = (g', Done, n') ∧
    S2 = with_g S' g'.
Proof.
  unfold inv_copy. destruct (add_subcircuit Sc SUB (pre "inv" s0) []) as [S' [|e]] eqn:H1; [|done].
  change (foldl _ (c_g S', Done) ord) with (foldl (inner_step s0) (c_g S', Done) ord).
  destruct (foldl (inner_step s0) (c_g S', Done) ord) as [g [|e]] eqn:H2; [|done].
  fold (pcin i). destruct (add_g g _ Xor _ _ af_out1) as [[g' o] n'] eqn:H3. intros [= <- ->]. by exists S', g, g', n'.
Qed.

Definition inv_rec (s0 : string) (ord : list string) (x : string) (j : ninfo) : ninfo :=
  let r := ren_info (pre (pre "inv" s0)) (strip_info j) in if decide (x ∈ ord) then inner_fn s0 x r else r.

Lemma inv_copy_spec Sc SUB n ord i s0 S2 :
  inv_copy Sc SUB n ord i s0 = (S2, Done) → NoDup ord → (∀ s1, s1 ∈ ord → s1 ∈ dom (c_g SUB)) → pcin i ∈ dom (c_g Sc) →
  eff (c_g Sc) (c_g S2) {[pcin i]} ∧
  (∀ x j, c_g SUB !! x = Some j → c_g S2 !! pre (pre "inv" s0) x = Some (inv_rec s0 ord x j)) ∧
  c_g S2 !! pre "dif_out" s0 = Some (mk_node Xor true {[pre "orig" n; pre (pre "inv" s0) n]}) ∧
  c_g S2 !! pcin i = upd_fi (λ F, {[pre "dif_out" s0]} ∪ F) <$> c_g Sc !! pcin i.
Proof.
  intros H Hnd Hord Hpi. destruct (inv_copy_inv _ _ _ _ _ _ _ H) as (S' & g & g' & n' & H1 & H2 & H3 & ->).
  change (c_g (with_g S' g')) with g'.
  destruct (add_sub_nil _ _ _ _ H1) as (HgS' & _ & _ & Hfresh).
  pose proof (add_sub_eff _ _ _ _ H1) as Heff1.
  destruct (inner_loop s0 ord _ _ Hnd H2) as [In1 In2].
  assert (Hnfo : pre "dif_out" s0 ∉ [pcin i]) by (intros E%elem_of_list_singleton; unfold pre, pcin in E; simplify_eq/=).
  destruct (add_g_lookup _ _ _ _ _ af_out1 _ _ eq_refl eq_refl eq_refl H3 Hnfo) as (_ & Hdfresh & Hdnew & Hk & Hfo & _).
  (* existing keys are not touched by the inner loop *)
  assert (Hold : ∀ k, k ∈ dom (c_g Sc) → g !! k = c_g Sc !! k).
  { intros k Hk'. rewrite In2.
    - destruct Heff1 as [_ He]. apply He; [done|set_solver].
    - intros s1 Hs1 ->. by apply (Hfresh s1 (Hord s1 Hs1)). }
  split; [|split; [|split]].
  - split.
    + intros k Hk'. apply elem_of_dom. destruct (decide (k = pre "dif_out" s0)) as [->|Hne]; [by rewrite Hdnew|].
      rewrite (Hk k Hne). apply elem_of_dom in Hk' as [i0 Hi0]. rewrite Hold by (apply elem_of_dom; eauto). rewrite Hi0.
      case_decide; simpl; eauto.
    + intros k Hk' Hnot. assert (k ≠ pre "dif_out" s0).
      { intros ->. apply Hdfresh. apply elem_of_dom. rewrite Hold by done. by apply elem_of_dom. }
      rewrite (Hk k) by done. rewrite decide_False by set_solver. by apply Hold.
  - intros x j Hx. rewrite (Hk _) by (unfold pre; intros [=]).
    rewrite decide_False by (intros E%elem_of_list_singleton; unfold pre, pcin in E; simplify_eq/=).
    unfold inv_rec. destruct (decide (x ∈ ord)) as [Hin|Hin].
    + rewrite (In1 x Hin). by rewrite (add_sub_lookup_new _ _ _ _ x j H1 Hx).
    + rewrite In2; [by apply (add_sub_lookup_new _ _ _ _ x j H1 Hx)|].
      intros s1 Hs1 E. apply (inj (pre (pre "inv" s0))) in E. by subst.
  - rewrite Hdnew. f_equal. unfold mk_node. f_equal. set_solver.
  - rewrite (Hk _) by (unfold pre, pcin; intros [=]). rewrite decide_True by set_solver. by rewrite Hold.
Qed.

(* the loop over enumerate(startpoints) *)
Definition outer_step (SUB : Circuit) (n : string) (ord : list string) (st : Circuit * outcome) (p : nat * string) : Circuit * outcome :=
  match st with (Sc, Done) => inv_copy Sc SUB n ord p.1 p.2 | _ => st end.
Lemma outer_fail SUB n ord Sc e l : foldl (outer_step SUB n ord) (Sc, Fail e) l = (Sc, Fail e).
Proof. induction l; simpl; done. Qed.
Lemma outer_loop SUB n ord l : NoDup ord → (∀ s1, s1 ∈ ord → s1 ∈ dom (c_g SUB)) →
  ∀ Sc S', foldl (outer_step SUB n ord) (Sc, Done) l = (S', Done) → NoDup (fst <$> l) →
  (∀ p, p ∈ l → pcin p.1 ∈ dom (c_g Sc)) →
  eff (c_g Sc) (c_g S') (list_to_set ((λ p : nat * string, pcin p.1) <$> l)) ∧
  ∀ i s0, (i, s0) ∈ l →
    (∀ x j, c_g SUB !! x = Some j → c_g S' !! pre (pre "inv" s0) x = Some (inv_rec s0 ord x j)) ∧
    c_g S' !! pre "dif_out" s0 = Some (mk_node Xor true {[pre "orig" n; pre (pre "inv" s0) n]}) ∧
    c_g S' !! pcin i = upd_fi (λ F, {[pre "dif_out" s0]} ∪ F) <$> c_g Sc !! pcin i.
Proof.
  intros Hnd Hord. induction l as [|[i s0] l IH]; intros Sc S' H Hndl Hpc.
  - simpl in H. injection H as <-. split; [apply eff_refl|]. by intros i s0 ?%elem_of_nil.
  - simpl in H. destruct (inv_copy Sc SUB n ord i s0) as [S1 [|e]] eqn:H1; [|by rewrite outer_fail in H].
    rewrite fmap_cons in Hndl. apply NoDup_cons in Hndl as [Hi Hndl]. simpl in Hi.
    destruct (inv_copy_spec _ _ _ _ _ _ _ H1 Hnd Hord (Hpc (i, s0) ltac:(by left))) as (E1 & F1 & D1 & P1).
    destruct (IH S1 S' H Hndl) as [E2 F2].
    { intros p Hp. eapply eff_dom; [exact E1|]. apply Hpc. by right. }
    set (A2 := (list_to_set ((λ p : nat * string, pcin p.1) <$> l) : gset string)) in *.
    assert (HA2 : ∀ k, k ∈ A2 → ∃ i', i' ∈ (fst <$> l) ∧ k = pcin i').
    { intros k (p & -> & Hp)%elem_of_list_to_set%elem_of_list_fmap. exists p.1. split; [|done]. apply elem_of_list_fmap. eauto. }
    split.
    + rewrite fmap_cons, list_to_set_cons. eapply eff_trans; eauto.
    + intros i' s0' [[= -> ->]|Hin]%elem_of_cons.
      * split; [|split].
        -- intros x j Hx. eapply eff_lookup; [exact E2|by apply F1|].
           intros (i' & _ & E)%HA2. unfold pre, pcin in E. simplify_eq/=.
        -- eapply eff_lookup; [exact E2|exact D1|]. intros (i' & _ & E)%HA2. unfold pre, pcin in E. simplify_eq/=.
        -- destruct E2 as [_ He2]. rewrite He2; [done| |].
           ++ apply elem_of_dom. rewrite P1. pose proof (Hpc (i, s0) ltac:(by left)) as [j Hj]%elem_of_dom. simpl in Hj. rewrite Hj. simpl. eauto.
           ++ intros (i' & Hi' & E)%HA2. apply pcin_inj in E. by subst.
      * destruct (F2 i' s0' Hin) as (Fa & Fb & Fc). split; [done|]. split; [done|]. rewrite Fc. f_equal.
        destruct E1 as [_ He1]. apply He1; [apply (Hpc (i', s0')); by right|].
        intros E%elem_of_singleton%pcin_inj. subst. apply Hi. apply elem_of_list_fmap. by exists (i, s0').
Qed.

(* the sen_out loop *)
Definition sen1 (g : circuit) (o : nat) := add_g g ("sen_out_" ++ pretty o) Buf ["pc_out_" ++ pretty o] [] af_out1.
Lemma sen_loop l : ∀ g g', add_each sen1 g l = (g', Done) →
  eff g g' ∅ ∧ ∀ o, o ∈ l → g' !! ("sen_out_" ++ pretty o) = Some (mk_node Buf true (list_to_set ["pc_out_" ++ pretty o])).
Proof.
  induction l as [|o l IH]; intros g g' H.
  - apply my_add_each_nil in H as ->. split; [apply eff_refl|]. by intros o ?%elem_of_nil.
  - apply my_add_each_cons in H as (g1 & n1 & Hstep & Hrest). unfold sen1 in Hstep.
    assert (Hnfo : "sen_out_" ++ pretty o ∉ ([] : list string)) by (by intros ?%elem_of_nil).
    destruct (add_g_lookup _ _ _ _ _ af_out1 _ _ eq_refl eq_refl eq_refl Hstep Hnfo) as (_ & _ & Hnew & _).
    pose proof (add_g_eff _ _ _ _ _ af_out1 _ _ eq_refl eq_refl eq_refl Hstep Hnfo) as E1. rewrite list_to_set_nil in E1.
    destruct (IH g1 g' Hrest) as [E2 F2]. split.
    + eapply eff_weaken; [|eapply eff_trans; eauto]. set_solver.
    + intros o' [->|Ho']%elem_of_cons; [|by apply F2]. eapply eff_lookup; [exact E2|exact Hnew|set_solver].
Qed.


(* interface of the popcount circuit the transform relies on: in_0 .. in_{m-1} are primary inputs *)
Definition pc_inputs (PC : circuit) (m : nat) : Prop :=
  ∀ i, i < m → ∃ j, PC !! ("in_" ++ pretty i) = Some j ∧ n_ty j = Input ∧ n_fi j = ∅.

Definition sv_sub (c : circuit) (n : string) : Circuit :=
  {| c_name := "circuit"; c_g := induced c (tfi c [n] ∪ {[n]}); c_bbs := ∅ |}.

Lemma sv_transform_inv C n ord PC T : sensitivity_transform C n ord PC = Ok T →
  c_bbs C = ∅ ∧ n ∈ dom (c_g C) ∧ ord ≡ₚ elements (cone_startpoints (c_g C) n) ∧
  ∃ S1 g2 S3 S4 W g5,
    add_subcircuit {| c_name := "circuit"; c_g := ∅; c_bbs := ∅ |} (sv_sub (c_g C) n) "orig" [] = (S1, Done) ∧
    add_each otie1 (c_g S1) ord = (g2, Done) ∧
    add_subcircuit (with_g S1 g2) PC "pc" [] = (S3, Done) ∧
    foldl (outer_step (sv_sub (c_g C) n) n ord) (S3, Done) (imap (λ i s, (i, s)) ord) = (S4, Done) ∧
    clog2 (length ord + 1) = Ok W ∧
    add_each sen1 (c_g S4) (seq 0 W) = (g5, Done) ∧ T = with_g S4 g5.
Proof.
  unfold sensitivity_transform. case_bool_decide as Hbb; cbn [negb]; [|done].
  case_bool_decide as Hn; cbn [negb]; [|done]. case_bool_decide as Hsp; [done|].
  case_bool_decide as Hperm; cbn [negb]; [|done].
  fold (sv_sub (c_g C) n). unfold lift.
  destruct (add_subcircuit _ (sv_sub (c_g C) n) "orig" []) as [S1 [|e1]] eqn:H1; [|done].
  fold otie1. destruct (add_each otie1 (c_g S1) ord) as [g2 [|e2]] eqn:H2; [|done].
  destruct (add_subcircuit (with_g S1 g2) PC "pc" []) as [S3 [|e3]] eqn:H3; [|done].
  change (foldl _ (S3, Done) (imap (λ i s, (i, s)) ord)) with (foldl (outer_step (sv_sub (c_g C) n) n ord) (S3, Done) (imap (λ i s, (i, s)) ord)).
  destruct (foldl (outer_step (sv_sub (c_g C) n) n ord) (S3, Done) _) as [S4 [|e4]] eqn:H4; [|done].
  destruct (clog2 (length ord + 1)) as [W| | |] eqn:HW; try done. simpl.
  fold sen1. destruct (add_each sen1 (c_g S4) (seq 0 W)) as [g5 [|e5]] eqn:H5; [|done].
  intros [= <-]. split; [done|]. split; [done|]. split; [done|]. by exists S1, g2, S3, S4, W, g5.
Qed.

Lemma fst_imap_pairs (l : list string) : fst <$> imap (λ i s, (i, s)) l = seq 0 (length l).
Proof.
  assert (∀ k, fst <$> imap (λ i s, (k + i, s)) l = seq k (length l)) as H.
  { induction l as [|s l IH]; intros k; [done|]. rewrite imap_cons. cbn [fmap list_fmap length seq]. f_equal; [simpl; lia|].
    rewrite <- (IH (S k)). f_equal. apply imap_ext. intros i x _. simpl. f_equal. lia. }
  apply (H 0).
Qed.

Theorem sv_model_shape SUB n ord PC S1 g2 S3 S4 W g5 :
  comb (c_g SUB) → NoDup ord → inputs (c_g SUB) = list_to_set ord → pc_inputs (c_g PC) (length ord) →
  add_subcircuit {| c_name := "circuit"; c_g := ∅; c_bbs := ∅ |} SUB "orig" [] = (S1, Done) →
  add_each otie1 (c_g S1) ord = (g2, Done) →
  add_subcircuit (with_g S1 g2) PC "pc" [] = (S3, Done) →
  foldl (outer_step SUB n ord) (S3, Done) (imap (λ i s, (i, s)) ord) = (S4, Done) →
  add_each sen1 (c_g S4) (seq 0 W) = (g5, Done) →
  sv_shape (c_g SUB) n ord (c_g PC) W g5.
Proof.
  intros Hc Hnd Hin Hpc H1 H2 H3 H4 H5. set (c := c_g SUB) in *.
  assert (Hord : ∀ s, s ∈ ord ↔ s ∈ inputs c) by (intros s; rewrite Hin; by rewrite elem_of_list_to_set).
  assert (Hordd : ∀ s, s ∈ ord → s ∈ dom c).
  { intros s (j & Hj & _)%Hord%elem_of_inputs. apply elem_of_dom. eauto. }
  assert (NF : ∀ x j, c !! x = Some j → is_free j = false → x ∉ ord).
  { intros x j Hx Hf (j' & Hj' & Ht)%Hord%elem_of_inputs. rewrite Hx in Hj'. injection Hj' as <-. by apply nonfree_not_input in Hf. }
  (* orig copy and its ties *)
  assert (O1 : ∀ x j, c !! x = Some j → c_g S1 !! pre "orig" x = Some (ren_info (pre "orig") (strip_info j))).
  { intros x j Hx. by apply (add_sub_lookup_new _ _ _ _ x j H1). }
  destruct (otie_loop_lookup _ _ _ H2) as (_ & Hd12 & Ht).
  assert (O2 : ∀ x j, c !! x = Some j →
     g2 !! pre "orig" x = Some (upd_fi (λ F, (if decide (x ∈ ord) then {[x]} else ∅) ∪ F) (ren_info (pre "orig") (strip_info j)))).
  { intros x j Hx. rewrite Ht by (apply elem_of_dom; rewrite (O1 x j Hx); eauto). by rewrite (O1 x j Hx), otie_src. }
  (* popcount copy *)
  pose proof (add_sub_eff _ _ _ _ H3) as E23. change (c_g (with_g S1 g2)) with g2 in E23.
  assert (P3 : ∀ x j, c_g PC !! x = Some j → c_g S3 !! pre "pc" x = Some (ren_info (pre "pc") (strip_info j))).
  { intros x j Hx. by apply (add_sub_lookup_new _ _ _ _ x j H3). }
  (* the inverted copies *)
  assert (Hl : ∀ i s0, (i, s0) ∈ imap (λ i s, (i, s)) ord ↔ ord !! i = Some s0).
  { intros i s0. rewrite elem_of_lookup_imap. split; [intros (i' & s' & [= -> ->] & H); done|intros H; eauto]. }
  assert (Hpin : ∀ i, i < length ord → ∃ j, c_g PC !! ("in_" ++ pretty i) = Some j ∧ n_ty j = Input ∧ n_fi j = ∅ ∧
                    c_g S3 !! pcin i = Some (ren_info (pre "pc") (strip_info j))).
  { intros i Hi. destruct (Hpc i Hi) as (j & Hj & Hty & Hfi). exists j. repeat split; try done. exact (P3 _ j Hj). }
  destruct (outer_loop SUB n ord _ Hnd Hordd S3 S4 H4) as [E34 F4].
  { rewrite fst_imap_pairs. apply NoDup_seq. }
  { intros [i s0] Hp%Hl. simpl. apply lookup_lt_Some in Hp. destruct (Hpin i Hp) as (j & _ & _ & _ & Hj). apply elem_of_dom. eauto. }
  set (A := (list_to_set ((λ p : nat * string, pcin p.1) <$> imap (λ i s, (i, s)) ord) : gset string)) in *.
  assert (HA : ∀ k, k ∈ A → ∃ i, i < length ord ∧ k = pcin i).
  { intros k ([i s0] & -> & Hp%Hl)%elem_of_list_to_set%elem_of_list_fmap. exists i. split; [by apply lookup_lt_Some in Hp|done]. }
  destruct (sen_loop _ _ _ H5) as [E45 F5].
  assert (E25 : eff g2 g5 A).
  { eapply eff_weaken; [|eapply eff_trans; [exact E23|eapply eff_trans; [exact E34|exact E45]]]. set_solver. }
  assert (E35 : eff (c_g S3) g5 A).
  { eapply eff_weaken; [|eapply eff_trans; [exact E34|exact E45]]. set_solver. }
  assert (Hinv : ∀ s0 x j, s0 ∈ ord → c !! x = Some j → g5 !! pre (pre "inv" s0) x = Some (inv_rec s0 ord x j)).
  { intros s0 x j (i & Hi)%elem_of_list_lookup Hx. destruct (F4 i s0 (proj2 (Hl i s0) Hi)) as (Fa & _ & _).
    eapply eff_lookup; [exact E45|by apply Fa|set_solver]. }
  split.
  - intros x j Hx Hf. eexists. split; [eapply eff_lookup; [exact E25|exact (O2 x j Hx)|]|].
    + intros (i & _ & E)%HA. unfold pre, pcin in E. simplify_eq/=.
    + rewrite decide_False by (by eapply NF). rewrite upd_fi_empty. by apply strip_copy_nonfree.
  - intros s Hs. pose proof Hs as (j & Hj & Hty)%elem_of_inputs. eexists. split; [eapply eff_lookup; [exact E25|exact (O2 s j Hj)|]|].
    + intros (i & _ & E)%HA. unfold pre, pcin in E. simplify_eq/=.
    + rewrite decide_True by (by apply Hord). cbn [upd_fi n_ty n_fi ren_info strip_info]. rewrite Hty, bool_decide_eq_true_2 by done.
      split; [done|]. rewrite (cb_input_fi c Hc s j Hj Hty), set_map_empty. set_solver.
  - intros s0 x j Hs0 Hx Hf. eexists. split; [by apply Hinv|]. unfold inv_rec. rewrite decide_False by (by eapply NF).
    by apply strip_copy_nonfree.
  - intros s0 s Hs0 Hs Hne. pose proof Hs as (j & Hj & Hty)%elem_of_inputs. eexists. split; [by apply Hinv|].
    unfold inv_rec. rewrite decide_True by (by apply Hord). unfold inner_fn. rewrite decide_False by done.
    cbn [upd_fi n_ty n_fi ren_info strip_info]. rewrite Hty, bool_decide_eq_true_2 by done. split; [done|].
    rewrite (cb_input_fi c Hc s j Hj Hty), set_map_empty. set_solver.
  - intros s0 Hs0. pose proof (proj1 (Hord s0) Hs0) as (j & Hj & Hty)%elem_of_inputs. eexists. split; [by apply Hinv|].
    unfold inv_rec. rewrite decide_True by done. unfold inner_fn. rewrite decide_True by done.
    cbn [upd_fi retype n_ty n_fi ren_info strip_info]. split; [done|].
    rewrite (cb_input_fi c Hc s0 j Hj Hty), set_map_empty. set_solver.
  - intros s0 (i & Hi)%elem_of_list_lookup. destruct (F4 i s0 (proj2 (Hl i s0) Hi)) as (_ & Fb & _).
    eexists. split; [eapply eff_lookup; [exact E45|exact Fb|set_solver]|done].
  - intros x j Hx Hf. eexists. split; [eapply eff_lookup; [exact E35|exact (P3 x j Hx)|]|by apply strip_copy_nonfree].
    intros (i & Hi & E)%HA. change (pcin i) with (pre "pc" ("in_" ++ pretty i)) in E. apply (inj (pre "pc")) in E. subst x.
    destruct (Hpc i Hi) as (j' & Hj' & Hty & _). rewrite Hx in Hj'. injection Hj' as <-. by apply nonfree_not_input in Hf.
  - intros i s0 Hi. destruct (F4 i s0 (proj2 (Hl i s0) Hi)) as (_ & _ & Fc).
    destruct (Hpin i (lookup_lt_Some _ _ _ Hi)) as (j & _ & Hty & Hfi & Hj3). rewrite Hj3 in Fc. simpl in Fc.
    eexists. split; [eapply eff_lookup; [exact E45|exact Fc|set_solver]|].
    cbn [upd_fi n_ty n_fi ren_info strip_info]. rewrite Hty, bool_decide_eq_true_2 by done. split; [done|].
    rewrite Hfi, set_map_empty. set_solver.
  - intros o Ho. eexists. split; [apply F5; apply elem_of_seq; lia|]. cbn [mk_node n_ty n_fi]. split; [done|]. set_solver.
Qed.


Lemma induced_dom c K y : y ∈ dom (induced c K) ↔ y ∈ K ∧ y ∈ dom c.
Proof.
  rewrite !elem_of_dom. split.
  - intros [j (i & Hi & HK & _)%induced_lookup]. eauto.
  - intros [HK [i Hi]]. exists (upd_fi (λ fi, fi ∩ K) i). apply induced_lookup. eauto.
Qed.
Lemma induced_inputs c K : inputs (induced c K) = inputs c ∩ K.
Proof.
  apply set_eq. intros y. rewrite elem_of_intersection, !elem_of_inputs. split.
  - intros (j & (i & Hi & HK & ->)%induced_lookup & Ht). split; [|done]. exists i. done.
  - intros [(i & Hi & Ht) HK]. exists (upd_fi (λ fi, fi ∩ K) i). split; [apply induced_lookup; eauto|done].
Qed.

(* ---- sensitivity_transform_spec: full, for the model function ---- *)
Theorem sensitivity_transform_model_spec C n ord PC T W :
  comb (c_g C) → pc_inputs (c_g PC) (length ord) →
  sensitivity_transform C n ord PC = Ok T → clog2 (length ord + 1) = Ok W →
  ∀ v, consistent (c_g T) v →
    (∀ s, s ∈ ord → v ("dif_out_" ++ s) = true ↔ flips (c_g C) n s v) ∧
    (popcount_correct (c_g PC) (length ord) W → sen_bits v W = take_bits W (count (c_g C) n ord v)).
Proof.
  intros Hc Hpc HT HW v Hv.
  destruct (sv_transform_inv _ _ _ _ _ HT) as (Hbb & Hn & Hperm & S1 & g2 & S3 & S4 & W' & g5 & H1 & H2 & H3 & H4 & HW' & H5 & ->).
  rewrite HW in HW'. injection HW' as <-.
  set (c := c_g C) in *. set (K := tfi c [n] ∪ {[n]}) in *.
  pose proof (cb_closed _ Hc) as Hcl.
  assert (HK : ∀ y i f, c !! y = Some i → y ∈ K → f ∈ n_fi i → f ∈ K).
  { assert (K = list_to_set [n] ∪ tfi c [n]) as -> by (unfold K; apply set_eq; set_solver). by apply cone_fanin_closed. }
  assert (Hsub : sub_of (induced c K) c) by (by apply induced_sub_of).
  assert (HcS : comb (induced c K)) by (by eapply sub_comb).
  assert (Hnd : NoDup ord) by (rewrite Hperm; apply NoDup_elements).
  assert (Hin : inputs (induced c K) = list_to_set ord).
  { rewrite induced_inputs. apply set_eq. intros y. rewrite elem_of_list_to_set, Hperm, elem_of_elements.
    unfold cone_startpoints. rewrite (comb_startpoints c Hc). unfold K. set_solver. }
  assert (HnS : n ∈ dom (induced c K)) by (apply induced_dom; split; [unfold K; set_solver|done]).
  pose proof (sv_model_shape (sv_sub c n) n ord PC S1 g2 S3 S4 W g5 HcS Hnd Hin Hpc H1 H2 H3 H4 H5) as Hsh.
  change (c_g (sv_sub c n)) with (induced c K) in Hsh. change (c_g (with_g S4 g5)) with g5 in Hv.
  exact (sensitivity_shape_spec c (induced c K) n ord (c_g PC) W g5 Hcl (cb_acyclic _ Hc) (cb_inputs_only _ Hc) Hsub HnS Hsh v Hv).
Qed.


(* the facts about an accepted sensitivity_transform call, packaged *)
Lemma sv_model_facts C n ord PC T W :
  comb (c_g C) → pc_inputs (c_g PC) (length ord) →
  sensitivity_transform C n ord PC = Ok T → clog2 (length ord + 1) = Ok W →
  let SUB := induced (c_g C) (tfi (c_g C) [n] ∪ {[n]}) in
  sub_of SUB (c_g C) ∧ n ∈ dom SUB ∧ NoDup ord ∧ inputs SUB = list_to_set ord ∧ sv_shape SUB n ord (c_g PC) W (c_g T).
Proof.
  intros Hc Hpc HT HW.
  destruct (sv_transform_inv _ _ _ _ _ HT) as (Hbb & Hn & Hperm & S1 & g2 & S3 & S4 & W' & g5 & H1 & H2 & H3 & H4 & HW' & H5 & ->).
  rewrite HW in HW'. injection HW' as <-.
  set (c := c_g C) in *. set (K := tfi c [n] ∪ {[n]}) in *.
  pose proof (cb_closed _ Hc) as Hcl.
  assert (HK : ∀ y i f, c !! y = Some i → y ∈ K → f ∈ n_fi i → f ∈ K).
  { assert (K = list_to_set [n] ∪ tfi c [n]) as -> by (unfold K; apply set_eq; set_solver). by apply cone_fanin_closed. }
  assert (Hsub : sub_of (induced c K) c) by (by apply induced_sub_of).
  assert (HcS : comb (induced c K)) by (by eapply sub_comb).
  assert (Hnd : NoDup ord) by (rewrite Hperm; apply NoDup_elements).
  assert (Hin : inputs (induced c K) = list_to_set ord).
  { rewrite induced_inputs. apply set_eq. intros y. rewrite elem_of_list_to_set, Hperm, elem_of_elements.
    unfold cone_startpoints. rewrite (comb_startpoints c Hc). unfold K. set_solver. }
  assert (HnS : n ∈ dom (induced c K)) by (apply induced_dom; split; [unfold K; set_solver|done]).
  pose proof (sv_model_shape (sv_sub c n) n ord PC S1 g2 S3 S4 W g5 HcS Hnd Hin Hpc H1 H2 H3 H4 H5) as Hsh.
  done.
Qed.

(* props.sensitivity on the model's sensitivity circuit: what remains as hypothesis is the certificate of T (closed, acyclic,
   free nodes = the startpoints), which `holds` checks on every recorded circuit *)
Theorem sensitivity_model_spec (solve : list (string * bool) → bool) C n ord PC T W w :
  comb (c_g C) → pc_inputs (c_g PC) (length ord) → popcount_correct (c_g PC) (length ord) W →
  sensitivity_transform C n ord PC = Ok T →
  closed (c_g T) → acyclic (c_g T) → free_nodes (c_g T) = list_to_set ord →
  clog2 (length ord) = Ok w → clog2 (length ord + 1) = Ok W →
  (∀ k, k ≤ length ord → let asm := asm_of (int_to_bin_le k w) in
     solve asm = true ↔ ∃ v, consistent (c_g T) v ∧ Forall (λ p : string * bool, v p.1 = p.2) asm) →
  ∃ k, search solve w (length ord) = Ok k ∧ is_sensitivity (c_g C) n ord k.
Proof.
  intros Hc Hpc Hpop HT HclT HacT HfT Hw HW Hsolve.
  destruct (sv_model_facts C n ord PC T W Hc Hpc HT HW) as (Hsub & HnS & Hnd & Hin & Hsh).
  destruct (clog2_spec _ _ Hw) as (Hm & _).
  eapply (sensitivity_spec solve (c_g C) _ n ord (c_g PC) W w (c_g T)); eauto; apply Hc.
Qed.


(* the facts about an accepted sensitization_transform call, packaged: the mitered sub-circuit and the compared set *)
Definition sens_sub (C : Circuit) (Eo : option (list string)) : circuit * gset string :=
  match Eo with
  | Some (e :: l) => let Es : gset string := list_to_set (e :: l) in
                     (sel_graph (c_g C) Es (Es ∪ tfi (c_g C) (e :: l)), Es)
  | _ => (c_g C, outputs (c_g C)) end.
Lemma sens_model_facts C n Eo T :
  c_bbs C = ∅ → comb (c_g C) → n ∈ dom (c_g C) → sensitization_transform C n Eo = Ok T →
  let '(SCg, Es) := sens_sub C Eo in
  sub_of SCg (c_g C) ∧ n ∈ dom SCg ∧ Es ⊆ dom SCg ∧ sens_shape SCg n Es (c_g T).
Proof.
  intros Hbb Hc Hn HT. unfold sensitization_transform in HT. rewrite bool_decide_eq_true_2 in HT by done. cbn [negb] in HT.
  assert (Hnone : ∀ SCx name, rbind (miter_self SCx) (λ M, rbind (flip_node (c_g M) n) (λ g, Ok {| c_name := name; c_g := g; c_bbs := c_bbs M |})) = Ok T →
            ∃ M, miter_self SCx = Ok M ∧ flip_node (c_g M) n = Ok (c_g T)).
  { intros SCx name H. destruct (miter_self SCx) as [M| | |] eqn:EM; try done. simpl in H.
    destruct (flip_node (c_g M) n) as [g| | |] eqn:EF; try done. simpl in H. injection H as <-. eauto. }
  assert (Hself : sub_of (c_g C) (c_g C)).
  { split; [|apply Hc]. intros y i Hy. eauto. }
  assert (Hcase0 : rbind (miter_self C) (λ M, rbind (flip_node (c_g M) n) (λ g, Ok {| c_name := c_name C ++ "_sensitize_" ++ n; c_g := g; c_bbs := c_bbs M |})) = Ok T →
     sub_of (c_g C) (c_g C) ∧ n ∈ dom (c_g C) ∧ outputs (c_g C) ⊆ dom (c_g C) ∧ sens_shape (c_g C) n (outputs (c_g C)) (c_g T)).
  { intros H. destruct (Hnone _ _ H) as (M & HM & HF).
    pose proof (sens_model_shape C n M (c_g T) Hc Hn HM HF) as Hsh. rewrite (comb_endpoints _ Hc) in Hsh.
    split; [done|]. split; [done|]. split; [|done]. intros y (i & Hi & _)%elem_of_outputs. apply elem_of_dom. eauto. }
  destruct Eo as [[|e l]|]; cbn [sens_sub]; [by apply Hcase0| |by apply Hcase0].
  set (eord := e :: l) in *. case_bool_decide as Hnd; cbn [negb] in HT; [|done].
  destruct (forallb (λ x, bool_decide (x ∈ dom (c_g C))) eord) eqn:Hall; cbn [negb] in HT; [|done].
  destruct (negb (bool_decide (n ∈ tfi (c_g C) eord)) && negb (bool_decide (n ∈ (list_to_set eord : gset string)))) eqn:Hin; [done|].
  destruct (has_bb_type _); [done|].
  set (Es := (list_to_set eord : gset string)) in *. set (K := Es ∪ tfi (c_g C) eord) in *.
  change (map_imap _ (induced (c_g C) K)) with (sel_graph (c_g C) Es K) in HT.
  destruct (Hnone _ _ HT) as (M & HM & HF). cbn [c_g] in *.
  pose proof (cb_closed _ Hc) as Hcl.
  assert (HEd : Es ⊆ dom (c_g C)).
  { intros y Hy%elem_of_list_to_set. rewrite forallb_forall in Hall. specialize (Hall y ltac:(by apply elem_of_list_In)).
    by apply bool_decide_eq_true in Hall. }
  assert (Hsub : sub_of (sel_graph (c_g C) Es K) (c_g C)) by (apply sel_sub_of; [done|]; by apply cone_fanin_closed).
  assert (HcS : comb (sel_graph (c_g C) Es K)) by (by eapply sub_comb).
  assert (HnK : n ∈ K).
  { apply andb_false_iff in Hin as [H|H]; apply negb_false_iff, bool_decide_eq_true in H; set_solver. }
  assert (HnS : n ∈ dom (sel_graph (c_g C) Es K)) by (by apply sel_dom).
  assert (Hout : outputs (sel_graph (c_g C) Es K) = Es) by (apply sel_outputs; [done|set_solver|done]).
  pose proof (sens_model_shape {| c_name := "circuit"; c_g := sel_graph (c_g C) Es K; c_bbs := ∅ |} n M (c_g T) HcS HnS HM HF) as Hsh.
  cbn [c_g] in Hsh. rewrite (comb_endpoints _ HcS), Hout in Hsh.
  split; [done|]. split; [done|]. split; [|done]. intros y Hy. apply sel_dom; [done|]. split; [set_solver|by apply HEd].
Qed.

(* the specification the props functions need, for the model's sensitization circuit; what remains as hypothesis is the
   certificate of T (closed, acyclic, free nodes = startpoints = the inputs of the mitered sub-circuit) *)
Theorem sens_spec_of_model C n Eo T :
  c_bbs C = ∅ → comb (c_g C) → n ∈ dom (c_g C) → sensitization_transform C n Eo = Ok T →
  closed (c_g T) → acyclic (c_g T) → free_nodes (c_g T) = startpoints (c_g T) → startpoints (c_g T) = inputs (sens_sub C Eo).1 →
  sens_spec (c_g C) n (elements (sens_sub C Eo).2) (elements (startpoints (c_g T))) (c_g T).
Proof.
  intros Hbb Hc Hn HT HclT HacT HfT HsT. pose proof (sens_model_facts C n Eo T Hbb Hc Hn HT) as H.
  destruct (sens_sub C Eo) as [SCg Es]. destruct H as (Hsub & HnS & HE & Hsh). cbn [fst snd] in *.
  eapply sens_spec_of_shape; eauto; apply Hc.
Qed.


(* executable check of `comb` *)
Definition combb (c : circuit) : bool :=
  closedb c && acyclicb c && inputs_onlyb c &&
  forallb (λ p : string * ninfo,
             (negb (bool_decide (n_ty p.2 = Input)) || bool_decide (n_fi p.2 = ∅)) &&
             negb (bool_decide (n_ty p.2 = BbIn)) && negb (bool_decide (n_ty p.2 = BbOut))) (map_to_list c).
Lemma combb_sound c : combb c = true → comb c.
Proof.
  unfold combb. intros [[[Hcl Hac]%andb_true_iff Hio]%andb_true_iff Hn]%andb_true_iff.
  pose proof (map_forallb _ _ Hn) as Hnodes. split.
  - by apply closedb_spec.
  - by apply acyclicb_sound.
  - by apply inputs_onlyb_sound.
  - intros x i Hx Ht. specialize (Hnodes x i Hx). simpl in Hnodes.
    apply andb_true_iff in Hnodes as [[H _]%andb_true_iff _]. rewrite Ht, bool_decide_eq_true_2 in H by done.
    simpl in H. by apply bool_decide_eq_true in H.
  - intros x i Hx. specialize (Hnodes x i Hx). simpl in Hnodes.
    apply andb_true_iff in Hnodes as [[_ H1]%andb_true_iff H2].
    apply negb_true_iff, bool_decide_eq_false in H1. apply negb_true_iff, bool_decide_eq_false in H2. done.
Qed.

(* "the call is accepted", decided by computation without normalising the result *)
Definition is_okb {A} (r : res A) : bool := match r with Ok _ => true | _ => false end.
Lemma is_okb_true {A} (r : res A) : is_okb r = true → ∃ a, r = Ok a.
Proof. destruct r; try done. eauto. Qed.


(* ================================================================================================ *)
(* D. the model's sensitization circuit is closed, acyclic and its free nodes are the tied inputs     *)
Lemma add_g_dom g n t fi fo fl g' n' :
  af_uid fl = false → af_conn fl = false → af_redef fl = false →
  add_g g n t fi fo fl = (g', Done, n') → n ∉ fo → dom g' = {[n]} ∪ dom g.
Proof.
  intros Hu Hc Hr H Hnfo. destruct (add_g_lookup _ _ _ _ _ _ _ _ Hu Hc Hr H Hnfo) as (_ & Hn & Hl & Hk & _).
  apply set_eq. intros k. rewrite elem_of_union, elem_of_singleton, !elem_of_dom. destruct (decide (k = n)) as [->|Hne].
  - rewrite Hl. split; [by left|eauto].
  - rewrite (Hk k Hne). split.
    + intros [j Hj]. right. destruct (g !! k); [eauto|]. by case_decide.
    + intros [?|[j Hj]]; [done|]. rewrite Hj. case_decide; simpl; eauto.
Qed.
Lemma tie_loop_dom S : ∀ g g', add_each tie1 g S = (g', Done) → dom g' = dom g ∪ list_to_set S.
Proof.
  induction S as [|s S IH]; intros g g' H.
  - apply my_add_each_nil in H as ->. set_solver.
  - apply my_add_each_cons in H as (g1 & n1 & Hstep & Hrest). unfold tie1 in Hstep.
    assert (Hnfo : s ∉ [pre "c0" s; pre "c1" s]).
    { intros [E|[E|E%elem_of_nil]%elem_of_cons]%elem_of_cons; [| |done]; symmetry in E; by apply pre_ne in E. }
    rewrite (IH _ _ Hrest), (add_g_dom _ _ _ _ _ af_default _ _ eq_refl eq_refl eq_refl Hstep Hnfo). set_solver.
Qed.
Lemma dif_loop_dom E : ∀ g g', add_each dif1 g E = (g', Done) → dom g' = dom g ∪ list_to_set (pre "dif" <$> E).
Proof.
  induction E as [|e E IH]; intros g g' H.
  - apply my_add_each_nil in H as ->. set_solver.
  - apply my_add_each_cons in H as (g1 & n1 & Hstep & Hrest). unfold dif1 in Hstep.
    assert (Hnfo : pre "dif" e ∉ ["sat"]) by (intros ?%elem_of_list_singleton; by eapply pre_dif_sat).
    rewrite (IH _ _ Hrest), (add_g_dom _ _ _ _ _ af_default _ _ eq_refl eq_refl eq_refl Hstep Hnfo). set_solver.
Qed.
(* the tie loop leaves the new input nodes alone *)
Lemma tie_loop_inputs S : ∀ g g', add_each tie1 g S = (g', Done) →
  (∀ s, s ∈ S → pre "c0" s ∈ dom g ∧ pre "c1" s ∈ dom g) →
  ∀ s, s ∈ S → g' !! s = Some (mk_node Input false ∅).
Proof.
  induction S as [|s S IH]; intros g g' H Hd; [by intros s ?%elem_of_nil|].
  apply my_add_each_cons in H as (g1 & n1 & Hstep & Hrest). unfold tie1 in Hstep.
  assert (Hnfo : s ∉ [pre "c0" s; pre "c1" s]).
  { intros [E|[E|E%elem_of_nil]%elem_of_cons]%elem_of_cons; [| |done]; symmetry in E; by apply pre_ne in E. }
  destruct (add_g_lookup _ _ _ _ _ af_default _ _ eq_refl eq_refl eq_refl Hstep Hnfo) as (_ & Hs & Hls & _).
  pose proof (add_g_eff _ _ _ _ _ af_default _ _ eq_refl eq_refl eq_refl Hstep Hnfo) as [Hd1 _].
  assert (Hd' : ∀ s', s' ∈ S → pre "c0" s' ∈ dom g1 ∧ pre "c1" s' ∈ dom g1).
  { intros s' Hs'. destruct (Hd s' ltac:(by right)). split; by apply Hd1. }
  intros s' [->|Hs']%elem_of_cons; [|by apply (IH g1 g' Hrest Hd')].
  destruct (tie_loop_lookup _ _ _ Hrest) as (_ & _ & Hlk).
  rewrite Hlk by (apply elem_of_dom; rewrite Hls; eauto). rewrite Hls. simpl. f_equal.
  assert (tie_src S s = ∅) as ->; [|unfold mk_node, upd_fi; simpl; f_equal; set_solver].
  apply set_eq. intros y. unfold tie_src. rewrite elem_of_list_to_set, elem_of_list_filter. split; [|set_solver].
  intros [[E|E] Hy]; exfalso; apply Hs; rewrite E; destruct (Hd y ltac:(by right)); done.
Qed.

Record sens_lookups (c : circuit) (n : string) (g : circuit) : Prop := {
  sl_dom : dom g = inputs c ∪ set_map (pre "c0") (dom c) ∪ set_map (pre "c1") (dom c) ∪ {["sat"]} ∪ set_map (pre "dif") (endpoints c);
  sl_in : ∀ s, s ∈ inputs c → g !! s = Some (mk_node Input false ∅);
  sl_c0 : ∀ x i, c !! x = Some i →
     g !! pre "c0" x = Some (upd_fi (λ F, (if decide (x ∈ inputs c) then {[x]} else ∅) ∪ F) (ren_info (pre "c0") (strip_info i)));
  sl_c1 : ∀ x i, c !! x = Some i → x ≠ n →
     g !! pre "c1" x = Some (upd_fi (λ F, (if decide (x ∈ inputs c) then {[x]} else ∅) ∪ F) (ren_info (pre "c1") (strip_info i)));
  sl_flip : ∃ o, g !! pre "c1" n = Some (mk_node Not o {[pre "c0" n]});
  sl_dif : ∀ e, e ∈ endpoints c → g !! pre "dif" e = Some (mk_node Xor false {[pre "c0" e; pre "c1" e]});
  sl_sat : ∃ t, g !! "sat" = Some (mk_node t true (set_map (pre "dif") (endpoints c))) ∧ (t = Or ∨ t = Buf ∨ t = C0) ∧
                (t = Buf → endpoints c ≠ ∅);
  sl_fresh : ∀ s, s ∈ inputs c → s ∉ (set_map (pre "c0") (dom c) : gset string) ∧ s ∉ (set_map (pre "c1") (dom c) : gset string) ∧
                                 s ≠ "sat" ∧ s ∉ (set_map (pre "dif") (endpoints c) : gset string) }.

Theorem sens_model_lookups SC n M g :
  comb (c_g SC) → n ∈ dom (c_g SC) → miter_self SC = Ok M → flip_node (c_g M) n = Ok g → sens_lookups (c_g SC) n g.
Proof.
  intros Hc Hn HM Hflip.
  destruct (miter_self_inv _ _ HM) as (M1 & M2 & g3 & g4 & g5 & n4 & Hbb & H1 & H2 & H3 & H4 & H5 & ->).
  set (c := c_g SC) in *. set (S := elements (startpoints c)) in *. set (E := elements (endpoints c)) in *.
  change (c_g (with_g M2 g5)) with g5 in Hflip.
  assert (B0 : ∀ x i, c !! x = Some i → c_g M2 !! pre "c0" x = Some (ren_info (pre "c0") (strip_info i))).
  { intros x i Hx. eapply eff_lookup; [apply (add_sub_eff _ _ _ _ H2)| |set_solver]. by apply (add_sub_lookup_new _ _ _ _ x i H1). }
  assert (B1 : ∀ x i, c !! x = Some i → c_g M2 !! pre "c1" x = Some (ren_info (pre "c1") (strip_info i))).
  { intros x i Hx. by apply (add_sub_lookup_new _ _ _ _ x i H2). }
  assert (D2 : dom (c_g M2) = set_map (pre "c0") (dom c) ∪ set_map (pre "c1") (dom c)).
  { destruct (add_sub_nil _ _ _ _ H1) as (G1 & _). destruct (add_sub_nil _ _ _ _ H2) as (G2 & _).
    rewrite G2, dom_spliced, G1, dom_spliced. simpl. rewrite dom_empty_L. fold c. set_solver. }
  destruct (tie_loop_lookup _ _ _ H3) as (Hfresh & Hd23 & Htie).
  pose proof (tie_loop_dom _ _ _ H3) as D3.
  assert (Hnsat : "sat" ∉ ([] : list string)) by (by intros ?%elem_of_nil).
  destruct (add_g_lookup _ _ _ _ _ af_out1 _ _ eq_refl eq_refl eq_refl H4 Hnsat) as (_ & Hsatfresh & Hsat4 & Hk4 & _ & _).
  pose proof (add_g_eff _ _ _ _ _ af_out1 _ _ eq_refl eq_refl eq_refl H4 Hnsat) as [Hd34 _].
  pose proof (add_g_dom _ _ _ _ _ af_out1 _ _ eq_refl eq_refl eq_refl H4 Hnsat) as D4.
  destruct (dif_loop_lookup _ _ _ _ H5 Hsat4) as (Hdif & Hsat5 & Heff5).
  pose proof (dif_loop_dom _ _ _ H5) as D5.
  assert (HS : ∀ x, x ∈ S ↔ x ∈ inputs c).
  { intros x. unfold S. rewrite elem_of_elements, (comb_startpoints c Hc). done. }
  assert (F5 : ∀ k, k ∈ dom g3 → k ≠ "sat" → g5 !! k = g3 !! k).
  { intros k Hk Hks. destruct Heff5 as [_ He5]. rewrite He5; [|apply Hd34, Hk|set_solver].
    rewrite (Hk4 k Hks). case_decide as Hin; [by apply elem_of_nil in Hin|done]. }
  assert (C0k : ∀ x i, c !! x = Some i →
     g5 !! pre "c0" x = Some (upd_fi (λ F, (if decide (x ∈ inputs c) then {[x]} else ∅) ∪ F) (ren_info (pre "c0") (strip_info i)))).
  { intros x i Hx. assert (pre "c0" x ∈ dom (c_g M2)) as Hd by (apply elem_of_dom; rewrite (B0 x i Hx); eauto).
    rewrite F5; [|by apply Hd23|unfold pre; intros [=]]. rewrite (Htie _ Hd), (B0 x i Hx), tie_src_c0. simpl. do 2 f_equal.
    destruct (decide (x ∈ S)) as [a|a], (decide (x ∈ inputs c)) as [b|b]; try done; exfalso; [apply b, HS, a|apply a, HS, b]. }
  assert (C1k : ∀ x i, c !! x = Some i →
     g5 !! pre "c1" x = Some (upd_fi (λ F, (if decide (x ∈ inputs c) then {[x]} else ∅) ∪ F) (ren_info (pre "c1") (strip_info i)))).
  { intros x i Hx. assert (pre "c1" x ∈ dom (c_g M2)) as Hd by (apply elem_of_dom; rewrite (B1 x i Hx); eauto).
    rewrite F5; [|by apply Hd23|unfold pre; intros [=]]. rewrite (Htie _ Hd), (B1 x i Hx), tie_src_c1. simpl. do 2 f_equal.
    destruct (decide (x ∈ S)) as [a|a], (decide (x ∈ inputs c)) as [b|b]; try done; exfalso; [apply b, HS, a|apply a, HS, b]. }
  apply elem_of_dom in Hn as [i_n Hin].
  pose proof (C0k n i_n Hin) as Hc0n. pose proof (C1k n i_n Hin) as Hc1n.
  rewrite (flip_node_closed_form g5 n _ _ Hc1n Hc0n) in Hflip.
  2,3: cbn [upd_fi n_ty ren_info strip_info]; destruct (cb_nobb c Hc n i_n Hin); case_bool_decide; congruence.
  injection Hflip as <-.
  assert (HdomS : ∀ s, s ∈ S → pre "c0" s ∈ dom (c_g M2) ∧ pre "c1" s ∈ dom (c_g M2)).
  { intros s (i & Hi & _)%HS%elem_of_inputs. split; apply elem_of_dom; [rewrite (B0 s i Hi)|rewrite (B1 s i Hi)]; eauto. }
  assert (HEset : (list_to_set (pre "dif" <$> E) : gset string) = set_map (pre "dif") (endpoints c)).
  { apply set_eq. intros y. rewrite elem_of_list_to_set, elem_of_list_fmap, elem_of_map. unfold E. by setoid_rewrite elem_of_elements. }
  assert (HSset : (list_to_set S : gset string) = inputs c).
  { apply set_eq. intros y. rewrite elem_of_list_to_set. apply HS. }
  split.
  - rewrite dom_insert_L. rewrite D5, D4, D3, D2, HEset, HSset.
    assert (pre "c1" n ∈ (set_map (pre "c1") (dom c) : gset string)) as Hmem by (apply elem_of_map; exists n; split; [done|apply elem_of_dom; eauto]).
    clear -Hmem. set_solver.
  - intros s Hs. rewrite lookup_insert_ne.
    2: { intros E'. destruct (Hfresh s (proj2 (HS s) Hs)). rewrite <- E', D2. apply elem_of_union_r, elem_of_map. exists n. split; [done|apply elem_of_dom; eauto]. }
    assert (s ∈ dom g3) as Hs3 by (rewrite D3; apply elem_of_union_r, elem_of_list_to_set, HS, Hs).
    rewrite F5; [by apply (tie_loop_inputs _ _ _ H3 HdomS), HS|done|]. intros ->. by apply Hsatfresh.
  - intros x i Hx. rewrite lookup_insert_ne by (unfold pre; intros [=]). by apply C0k.
  - intros x i Hx Hne. rewrite lookup_insert_ne by (intros E'; by apply (inj (pre "c1")) in E'). by apply C1k.
  - eexists. by rewrite lookup_insert.
  - intros e He. rewrite lookup_insert_ne by (unfold pre; intros [=]). apply Hdif. by apply elem_of_elements.
  - eexists. rewrite lookup_insert_ne by (unfold pre; intros [=]). rewrite Hsat5. split.
    + f_equal. unfold upd_fi, mk_node. simpl. f_equal. rewrite HEset. clear. set_solver.
    + split.
      * unfold E. destruct (elements (endpoints c)) as [|? [|]]; auto.
      * unfold E. destruct (elements (endpoints c)) as [|e0 [|]] eqn:Hel; try done. intros _ He. rewrite He, elements_empty in Hel. done.
  - intros s Hs. pose proof (Hfresh s (proj2 (HS s) Hs)) as Hf. rewrite D2 in Hf. repeat split.
    + clear -Hf. set_solver.
    + clear -Hf. set_solver.
    + intros ->. apply Hsatfresh. rewrite D3. apply elem_of_union_r, elem_of_list_to_set, HS, Hs.
    + rewrite <- HEset. intros (e & -> & He)%elem_of_list_to_set%elem_of_list_fmap.
      (* dif_e was fresh when it was added, but the input s = dif_e existed already *)
      assert (pre "dif" e ∈ dom g4) as Hin4 by (rewrite D4, D3; apply elem_of_union_r, elem_of_union_r, elem_of_list_to_set, HS, Hs).
      clear -H5 He Hin4. revert g4 H5 Hin4. induction E as [|e' E IH]; intros g4 H5 Hin4; [by apply elem_of_nil in He|].
      apply my_add_each_cons in H5 as (g1 & n1 & Hstep & Hrest). unfold dif1 in Hstep.
      assert (Hnfo : pre "dif" e' ∉ ["sat"]) by (intros ?%elem_of_list_singleton; by eapply pre_dif_sat).
      destruct (add_g_lookup _ _ _ _ _ af_default _ _ eq_refl eq_refl eq_refl Hstep Hnfo) as (_ & Hfr & _).
      apply elem_of_cons in He as [->|He]; [done|]. apply (IH He g1 Hrest).
      rewrite (add_g_dom _ _ _ _ _ af_default _ _ eq_refl eq_refl eq_refl Hstep Hnfo). set_solver.
Qed.


Definition crec (p : string) (c : circuit) (x : string) (i : ninfo) : ninfo :=
  upd_fi (λ F, (if decide (x ∈ inputs c) then {[x]} else ∅) ∪ F) (ren_info (pre p) (strip_info i)).
Lemma crec_input p c x i : n_ty i = Input → n_fi i = ∅ → x ∈ inputs c → n_ty (crec p c x i) = Buf ∧ n_fi (crec p c x i) = {[x]}.
Proof.
  intros Ht Hf Hx. unfold crec. cbn [upd_fi n_ty n_fi ren_info strip_info]. rewrite Ht, bool_decide_eq_true_2 by done.
  split; [done|]. rewrite decide_True by done. rewrite Hf, set_map_empty. set_solver.
Qed.
Lemma crec_gate p c x i : n_ty i ≠ Input → x ∉ inputs c → n_ty (crec p c x i) = n_ty i ∧ n_fi (crec p c x i) = set_map (pre p) (n_fi i).
Proof.
  intros Ht Hx. unfold crec. cbn [upd_fi n_ty n_fi ren_info strip_info]. rewrite bool_decide_eq_false_2 by done.
  split; [done|]. rewrite decide_False by done. set_solver.
Qed.

Section cert.
  Context (c : circuit) (n : string) (g : circuit).
  Hypothesis Hc : comb c.
  Hypothesis Hn : n ∈ dom c.
  Hypothesis HL : sens_lookups c n g.

  Lemma in_inputs x i : c !! x = Some i → (x ∈ inputs c ↔ n_ty i = Input).
  Proof. intros Hx. rewrite elem_of_inputs. split; [intros (i' & Hi' & Ht); congruence|eauto]. Qed.
  Lemma gate_nonfree x i : c !! x = Some i → n_ty i ≠ Input → is_free i = false.
  Proof. intros Hx Ht. destruct (is_free i) eqn:E; [|done]. by apply (cb_inputs_only c Hc x i Hx) in E. Qed.

  (* classification of the nodes of g *)
  Inductive cls (k : string) (j : ninfo) : Prop :=
  | cls_in : k ∈ inputs c → j = mk_node Input false ∅ → cls k j
  | cls_c0 x i : c !! x = Some i → k = pre "c0" x → j = crec "c0" c x i → cls k j
  | cls_c1 x i : c !! x = Some i → x ≠ n → k = pre "c1" x → j = crec "c1" c x i → cls k j
  | cls_flip o : k = pre "c1" n → j = mk_node Not o {[pre "c0" n]} → cls k j
  | cls_dif e : e ∈ endpoints c → k = pre "dif" e → j = mk_node Xor false {[pre "c0" e; pre "c1" e]} → cls k j
  | cls_sat t : k = "sat" → j = mk_node t true (set_map (pre "dif") (endpoints c)) → (t = Or ∨ t = Buf ∨ t = C0) →
                (t = Buf → endpoints c ≠ ∅) → cls k j.
  Lemma classify k j : g !! k = Some j → cls k j.
  Proof.
    intros Hk. assert (k ∈ dom g) as Hd by (apply elem_of_dom; eauto). rewrite (sl_dom _ _ _ HL) in Hd.
    apply elem_of_union in Hd as [[[[Hd|Hd]%elem_of_union|Hd]%elem_of_union|Hd]%elem_of_union|Hd].
    - apply cls_in; [done|]. rewrite (sl_in _ _ _ HL k Hd) in Hk. congruence.
    - apply elem_of_map in Hd as (x & -> & [i Hi]%elem_of_dom). eapply cls_c0; eauto.
      rewrite (sl_c0 _ _ _ HL x i Hi) in Hk. by injection Hk.
    - apply elem_of_map in Hd as (x & -> & [i Hi]%elem_of_dom). destruct (decide (x = n)) as [->|Hne].
      + destruct (sl_flip _ _ _ HL) as [o Ho]. rewrite Ho in Hk. injection Hk as <-. by eapply cls_flip.
      + eapply cls_c1; eauto. rewrite (sl_c1 _ _ _ HL x i Hi Hne) in Hk. by injection Hk.
    - apply elem_of_singleton in Hd as ->. destruct (sl_sat _ _ _ HL) as (t & Ht & Hty & Hb). rewrite Ht in Hk. injection Hk as <-.
      by eapply cls_sat.
    - apply elem_of_map in Hd as (e & -> & He). eapply cls_dif; eauto. rewrite (sl_dif _ _ _ HL e He) in Hk. by injection Hk.
  Qed.
  Lemma endpoints_dom e : e ∈ endpoints c → e ∈ dom c.
  Proof. rewrite (comb_endpoints c Hc). intros (i & Hi & _)%elem_of_outputs. apply elem_of_dom; eauto. Qed.
  Lemma in_dom_c0 x : x ∈ dom c → pre "c0" x ∈ dom g.
  Proof. intros Hx. rewrite (sl_dom _ _ _ HL). do 3 apply elem_of_union_l. apply elem_of_union_r, elem_of_map. eauto. Qed.
  Lemma in_dom_c1 x : x ∈ dom c → pre "c1" x ∈ dom g.
  Proof. intros Hx. rewrite (sl_dom _ _ _ HL). do 2 apply elem_of_union_l. apply elem_of_union_r, elem_of_map. eauto. Qed.
  Lemma in_dom_in s : s ∈ inputs c → s ∈ dom g.
  Proof. intros Hx. rewrite (sl_dom _ _ _ HL). by do 4 apply elem_of_union_l. Qed.

  (* fan-in of a copied node *)
  Lemma crec_fi p x i f : c !! x = Some i → f ∈ n_fi (crec p c x i) →
    (x ∈ inputs c ∧ f = x) ∨ (x ∉ inputs c ∧ ∃ y, y ∈ n_fi i ∧ f = pre p y).
  Proof.
    intros Hx Hf. destruct (decide (x ∈ inputs c)) as [Hin|Hin].
    - pose proof (proj1 (in_inputs x i Hx) Hin) as Ht.
      destruct (crec_input p c x i Ht (cb_input_fi c Hc x i Hx Ht) Hin) as [_ Hfi]. rewrite Hfi in Hf. left. set_solver.
    - assert (n_ty i ≠ Input) as Ht by (intros Ht; apply Hin, (in_inputs x i Hx), Ht).
      destruct (crec_gate p c x i Ht Hin) as [_ Hfi]. rewrite Hfi in Hf. apply elem_of_map in Hf as (y & -> & Hy). right. eauto.
  Qed.

  Theorem sens_closed : closed g.
  Proof.
    intros k j f Hk Hf. destruct (classify k j Hk) as [Hin ->|x i Hx -> ->|x i Hx Hne -> ->|o -> ->|e He -> ->|t -> -> _ _].
    - simpl in Hf. set_solver.
    - destruct (crec_fi _ x i f Hx Hf) as [[Hin ->]|[_ (y & Hy & ->)]]; [by apply in_dom_in|].
      apply in_dom_c0. eapply (cb_closed c Hc); eauto.
    - destruct (crec_fi _ x i f Hx Hf) as [[Hin ->]|[_ (y & Hy & ->)]]; [by apply in_dom_in|].
      apply in_dom_c1. eapply (cb_closed c Hc); eauto.
    - simpl in Hf. apply elem_of_singleton in Hf as ->. by apply in_dom_c0.
    - simpl in Hf. apply elem_of_union in Hf as [->%elem_of_singleton| ->%elem_of_singleton];
        [apply in_dom_c0|apply in_dom_c1]; by apply endpoints_dom.
    - simpl in Hf. rewrite (sl_dom _ _ _ HL). by apply elem_of_union_r.
  Qed.

  Theorem sens_free_nodes : free_nodes g = inputs c.
  Proof.
    apply set_eq. intros k. unfold free_nodes. rewrite elem_of_dom. split.
    - intros [j [Hk Hfree]%map_filter_lookup_Some]. simpl in Hfree.
      destruct (classify k j Hk) as [Hin ->|x i Hx -> ->|x i Hx Hne -> ->|o -> ->|e He -> ->|t -> -> Hty Hb]; try done.
      + exfalso. destruct (decide (x ∈ inputs c)) as [Hin|Hin].
        * pose proof (proj1 (in_inputs x i Hx) Hin) as Ht.
          destruct (crec_input "c0" c x i Ht (cb_input_fi c Hc x i Hx Ht) Hin) as [H1 H2].
          unfold is_free in Hfree. rewrite H1, H2 in Hfree. apply bool_decide_eq_true in Hfree. set_solver.
        * assert (n_ty i ≠ Input) as Ht by (intros Ht; apply Hin, (in_inputs x i Hx), Ht).
          destruct (crec_gate "c0" c x i Ht Hin) as [H1 H2]. pose proof (gate_nonfree x i Hx Ht) as Hnf.
          unfold is_free in Hfree, Hnf. rewrite H1, H2 in Hfree.
          destruct (n_ty i); try done; apply bool_decide_eq_true in Hfree; apply (proj1 (set_map_empty_iff (pre "c0") (n_fi i))) in Hfree;
            by rewrite bool_decide_eq_true_2 in Hnf.
      + exfalso. destruct (decide (x ∈ inputs c)) as [Hin|Hin].
        * pose proof (proj1 (in_inputs x i Hx) Hin) as Ht.
          destruct (crec_input "c1" c x i Ht (cb_input_fi c Hc x i Hx Ht) Hin) as [H1 H2].
          unfold is_free in Hfree. rewrite H1, H2 in Hfree. apply bool_decide_eq_true in Hfree. set_solver.
        * assert (n_ty i ≠ Input) as Ht by (intros Ht; apply Hin, (in_inputs x i Hx), Ht).
          destruct (crec_gate "c1" c x i Ht Hin) as [H1 H2]. pose proof (gate_nonfree x i Hx Ht) as Hnf.
          unfold is_free in Hfree, Hnf. rewrite H1, H2 in Hfree.
          destruct (n_ty i); try done; apply bool_decide_eq_true in Hfree; apply (proj1 (set_map_empty_iff (pre "c1") (n_fi i))) in Hfree;
            by rewrite bool_decide_eq_true_2 in Hnf.
      + exfalso. unfold is_free in Hfree. destruct Hty as [->|[->| ->]]; simpl in Hfree; try done.
        apply bool_decide_eq_true in Hfree. apply (proj1 (set_map_empty_iff (pre "dif") (endpoints c))) in Hfree. by apply Hb.
    - intros Hin. exists (mk_node Input false ∅). apply map_filter_lookup_Some. split; [by apply (sl_in _ _ _ HL)|done].
  Qed.

  Theorem sens_startpoints : startpoints g = inputs c.
  Proof.
    apply set_eq. intros k. unfold startpoints. rewrite elem_of_of_type. split.
    - intros (j & Hk & Hty).
      assert (n_ty j = Input ∨ n_ty j = BbOut) as Ht.
      { apply orb_true_iff in Hty as [H|H]; unfold is_ty in H; apply bool_decide_eq_true in H; auto. }
      destruct (classify k j Hk) as [Hin ->|x i Hx -> ->|x i Hx Hne -> ->|o -> ->|e He -> ->|t -> -> Hty' Hb]; try done.
      + exfalso. destruct (decide (x ∈ inputs c)) as [Hin|Hin].
        * pose proof (proj1 (in_inputs x i Hx) Hin) as Hti.
          destruct (crec_input "c0" c x i Hti (cb_input_fi c Hc x i Hx Hti) Hin) as [H1 _]. rewrite H1 in Ht. by destruct Ht.
        * assert (n_ty i ≠ Input) as Hti by (intros Hti; apply Hin, (in_inputs x i Hx), Hti).
          destruct (crec_gate "c0" c x i Hti Hin) as [H1 _]. rewrite H1 in Ht. destruct (cb_nobb c Hc x i Hx). by destruct Ht.
      + exfalso. destruct (decide (x ∈ inputs c)) as [Hin|Hin].
        * pose proof (proj1 (in_inputs x i Hx) Hin) as Hti.
          destruct (crec_input "c1" c x i Hti (cb_input_fi c Hc x i Hx Hti) Hin) as [H1 _]. rewrite H1 in Ht. by destruct Ht.
        * assert (n_ty i ≠ Input) as Hti by (intros Hti; apply Hin, (in_inputs x i Hx), Hti).
          destruct (crec_gate "c1" c x i Hti Hin) as [H1 _]. rewrite H1 in Ht. destruct (cb_nobb c Hc x i Hx). by destruct Ht.
      + simpl in Ht. destruct Hty' as [->|[->| ->]]; by destruct Ht.
    - intros Hin. exists (mk_node Input false ∅). split; [by apply (sl_in _ _ _ HL)|done].
  Qed.
End cert.


Section cert_acyclic.
  Context (c : circuit) (n : string) (g : circuit) (r : string → nat).
  Hypothesis Hc : comb c.
  Hypothesis Hn : n ∈ dom c.
  Hypothesis HL : sens_lookups c n g.
  Hypothesis Hr : ∀ x i f, c !! x = Some i → f ∈ n_fi i → r f < r x.

  Let cr := crank c r.
  Let B := size c.
  Definition rk0 : gmap string nat := kmap (pre "c0") (map_imap (λ x _, Some (S (cr x))) c).
  Definition rk1 : gmap string nat := kmap (pre "c1") (map_imap (λ x _, Some (S (S (B + cr x)))) c).
  Definition srank (k : string) : nat :=
    match rk0 !! k with
    | Some v => v
    | None => match rk1 !! k with
              | Some v => v
              | None => if decide (k = "sat") then 2 * B + 5
                        else if decide (k ∈ (set_map (pre "dif") (endpoints c) : gset string)) then 2 * B + 4 else 0
              end
    end.
  Lemma rk0_hit x : x ∈ dom c → rk0 !! pre "c0" x = Some (S (cr x)).
  Proof. intros [i Hi]%elem_of_dom. unfold rk0. rewrite lookup_kmap by apply _. by rewrite map_lookup_imap, Hi. Qed.
  Lemma rk1_hit x : x ∈ dom c → rk1 !! pre "c1" x = Some (S (S (B + cr x))).
  Proof. intros [i Hi]%elem_of_dom. unfold rk1. rewrite lookup_kmap by apply _. by rewrite map_lookup_imap, Hi. Qed.
  Lemma rk0_miss k : (∀ x, x ∈ dom c → k ≠ pre "c0" x) → rk0 !! k = None.
  Proof.
    intros H. unfold rk0. apply lookup_kmap_None; [apply _|]. intros x ->. rewrite map_lookup_imap.
    destruct (c !! x) as [i|] eqn:E; [|done]. exfalso. apply (H x); [apply elem_of_dom; eauto|done].
  Qed.
  Lemma rk1_miss k : (∀ x, x ∈ dom c → k ≠ pre "c1" x) → rk1 !! k = None.
  Proof.
    intros H. unfold rk1. apply lookup_kmap_None; [apply _|]. intros x ->. rewrite map_lookup_imap.
    destruct (c !! x) as [i|] eqn:E; [|done]. exfalso. apply (H x); [apply elem_of_dom; eauto|done].
  Qed.
  Lemma srank_c0 x : x ∈ dom c → srank (pre "c0" x) = S (cr x).
  Proof. intros Hx. unfold srank. by rewrite (rk0_hit x Hx). Qed.
  Lemma srank_c1 x : x ∈ dom c → srank (pre "c1" x) = S (S (B + cr x)).
  Proof.
    intros Hx. unfold srank. rewrite rk0_miss by (intros y _; unfold pre; intros [=]). by rewrite (rk1_hit x Hx).
  Qed.
  Lemma srank_sat : srank "sat" = 2 * B + 5.
  Proof.
    unfold srank. rewrite rk0_miss by (intros y _; unfold pre; intros [=]).
    rewrite rk1_miss by (intros y _; unfold pre; intros [=]). by rewrite decide_True.
  Qed.
  Lemma srank_dif e : e ∈ endpoints c → srank (pre "dif" e) = 2 * B + 4.
  Proof.
    intros He. unfold srank. rewrite rk0_miss by (intros y _; unfold pre; intros [=]).
    rewrite rk1_miss by (intros y _; unfold pre; intros [=]).
    rewrite decide_False by (unfold pre; intros [=]). rewrite decide_True; [done|]. apply elem_of_map. eauto.
  Qed.
  Lemma srank_in s : s ∈ inputs c → srank s = 0.
  Proof.
    intros Hs. destruct (sl_fresh _ _ _ HL s Hs) as (F0 & F1 & F2 & F3). unfold srank.
    rewrite rk0_miss by (intros y Hy ->; apply F0, elem_of_map; eauto).
    rewrite rk1_miss by (intros y Hy ->; apply F1, elem_of_map; eauto).
    rewrite decide_False by done. by rewrite decide_False.
  Qed.
  Lemma cr_bound x : x ∈ dom c → cr x < B.
  Proof. apply crank_bound. Qed.
  Lemma cr_mono x i f : c !! x = Some i → f ∈ n_fi i → cr f < cr x.
  Proof. apply (crank_mono c r (cb_closed c Hc) Hr). Qed.

  Theorem sens_acyclic : acyclic g.
  Proof.
    exists srank. intros k j f Hk Hf.
    destruct (classify c n g HL k j Hk) as [Hin ->|x i Hx -> ->|x i Hx Hne -> ->|o -> ->|e He -> ->|t -> -> _ _].
    - simpl in Hf. set_solver.
    - assert (x ∈ dom c) as Hxd by (apply elem_of_dom; eauto). rewrite (srank_c0 x Hxd).
      destruct (crec_fi c n g Hc Hn HL "c0" x i f Hx Hf) as [[Hin ->]|[_ (y & Hy & ->)]].
      + rewrite (srank_in x Hin). lia.
      + rewrite srank_c0 by (eapply (cb_closed c Hc); eauto). pose proof (cr_mono x i y Hx Hy). lia.
    - assert (x ∈ dom c) as Hxd by (apply elem_of_dom; eauto). rewrite (srank_c1 x Hxd).
      destruct (crec_fi c n g Hc Hn HL "c1" x i f Hx Hf) as [[Hin ->]|[_ (y & Hy & ->)]].
      + rewrite (srank_in x Hin). lia.
      + rewrite srank_c1 by (eapply (cb_closed c Hc); eauto). pose proof (cr_mono x i y Hx Hy). lia.
    - simpl in Hf. apply elem_of_singleton in Hf as ->. rewrite (srank_c0 n Hn), (srank_c1 n Hn). lia.
    - rewrite (srank_dif e He). pose proof (endpoints_dom c Hc e He) as Hed. pose proof (cr_bound e Hed).
      simpl in Hf. apply elem_of_union in Hf as [->%elem_of_singleton| ->%elem_of_singleton];
        [rewrite (srank_c0 e Hed)|rewrite (srank_c1 e Hed)]; lia.
    - rewrite srank_sat. simpl in Hf. apply elem_of_map in Hf as (e & -> & He). rewrite (srank_dif e He). lia.
  Qed.
End cert_acyclic.


(* the certificate of the model's sensitization circuit, for all inputs *)
Theorem sens_model_cert SC n M g :
  comb (c_g SC) → n ∈ dom (c_g SC) → miter_self SC = Ok M → flip_node (c_g M) n = Ok g →
  closed g ∧ acyclic g ∧ free_nodes g = inputs (c_g SC) ∧ startpoints g = inputs (c_g SC).
Proof.
  intros Hc Hn HM HF. pose proof (sens_model_lookups SC n M g Hc Hn HM HF) as HL.
  destruct (cb_acyclic _ Hc) as [r Hr].
  split; [by eapply sens_closed|]. split; [by eapply sens_acyclic|]. split; [by eapply sens_free_nodes|by eapply sens_startpoints].
Qed.

(* an accepted sensitization_transform call unpacked: the mitered sub-circuit, the miter, the flip *)
Lemma sens_model_parts C n Eo T :
  c_bbs C = ∅ → comb (c_g C) → n ∈ dom (c_g C) → sensitization_transform C n Eo = Ok T →
  ∃ SCx M, c_g SCx = (sens_sub C Eo).1 ∧ comb (c_g SCx) ∧ n ∈ dom (c_g SCx) ∧
           miter_self SCx = Ok M ∧ flip_node (c_g M) n = Ok (c_g T).
Proof.
  intros Hbb Hc Hn HT. unfold sensitization_transform in HT. rewrite bool_decide_eq_true_2 in HT by done. cbn [negb] in HT.
  assert (Hnone : ∀ SCx name, rbind (miter_self SCx) (λ M, rbind (flip_node (c_g M) n) (λ g, Ok {| c_name := name; c_g := g; c_bbs := c_bbs M |})) = Ok T →
            ∃ M, miter_self SCx = Ok M ∧ flip_node (c_g M) n = Ok (c_g T)).
  { intros SCx name H. destruct (miter_self SCx) as [M| | |] eqn:EM; try done. simpl in H.
    destruct (flip_node (c_g M) n) as [g| | |] eqn:EF; try done. simpl in H. injection H as <-. eauto. }
  assert (Hcase0 : rbind (miter_self C) (λ M, rbind (flip_node (c_g M) n) (λ g, Ok {| c_name := c_name C ++ "_sensitize_" ++ n; c_g := g; c_bbs := c_bbs M |})) = Ok T →
     ∃ SCx M, c_g SCx = c_g C ∧ comb (c_g SCx) ∧ n ∈ dom (c_g SCx) ∧ miter_self SCx = Ok M ∧ flip_node (c_g M) n = Ok (c_g T)).
  { intros H. destruct (Hnone _ _ H) as (M & HM & HF). exists C, M. done. }
  destruct Eo as [[|e l]|]; cbn [sens_sub fst]; [by apply Hcase0| |by apply Hcase0].
  set (eord := e :: l) in *. case_bool_decide as Hnd; cbn [negb] in HT; [|done].
  destruct (forallb (λ x, bool_decide (x ∈ dom (c_g C))) eord) eqn:Hall; cbn [negb] in HT; [|done].
  destruct (negb (bool_decide (n ∈ tfi (c_g C) eord)) && negb (bool_decide (n ∈ (list_to_set eord : gset string)))) eqn:Hin; [done|].
  destruct (has_bb_type _); [done|].
  set (Es := (list_to_set eord : gset string)) in *. set (K := Es ∪ tfi (c_g C) eord) in *.
  change (map_imap _ (induced (c_g C) K)) with (sel_graph (c_g C) Es K) in HT.
  destruct (Hnone _ _ HT) as (M & HM & HF).
  pose proof (cb_closed _ Hc) as Hcl.
  assert (Hsub : sub_of (sel_graph (c_g C) Es K) (c_g C)) by (apply sel_sub_of; [done|]; by apply cone_fanin_closed).
  assert (HcS : comb (sel_graph (c_g C) Es K)) by (by eapply sub_comb).
  assert (HnK : n ∈ K).
  { apply andb_false_iff in Hin as [H|H]; apply negb_false_iff, bool_decide_eq_true in H; set_solver. }
  assert (HnS : n ∈ dom (sel_graph (c_g C) Es K)) by (by apply sel_dom).
  eexists _, M. split; [|split; [|split; [|split; [exact HM|exact HF]]]]; done.
Qed.

(* the specification the props functions need, for the MODEL's sensitization circuit, all inputs: no certificate hypothesis *)
Theorem sens_spec_model C n Eo T :
  c_bbs C = ∅ → comb (c_g C) → n ∈ dom (c_g C) → sensitization_transform C n Eo = Ok T →
  startpoints (c_g T) = inputs (sens_sub C Eo).1 ∧
  sens_spec (c_g C) n (elements (sens_sub C Eo).2) (elements (startpoints (c_g T))) (c_g T).
Proof.
  intros Hbb Hc Hn HT.
  destruct (sens_model_parts C n Eo T Hbb Hc Hn HT) as (SCx & M & HSC & HcS & HnS & HM & HF).
  destruct (sens_model_cert SCx n M (c_g T) HcS HnS HM HF) as (Hcl & Hac & Hfree & Hst).
  rewrite HSC in Hfree, Hst. split; [done|].
  apply sens_spec_of_model; try done. by rewrite Hfree, Hst.
Qed.


Lemma sel_inputs c E K : inputs (sel_graph c E K) = inputs c ∩ K.
Proof.
  apply set_eq. intros y. rewrite elem_of_intersection, !elem_of_inputs. split.
  - intros (j & Hj & Ht). rewrite sel_lookup in Hj. destruct (induced c K !! y) as [j'|] eqn:E'; [|done]. injection Hj as <-.
    apply induced_lookup in E' as (i & Hi & HK & ->). split; [|done]. exists i. done.
  - intros [(i & Hi & Ht) HK]. eexists. rewrite sel_lookup.
    assert (induced c K !! y = Some (upd_fi (λ fi, fi ∩ K) i)) as -> by (apply induced_lookup; eauto). split; [done|done].
Qed.

(* ---- props.influence / avg_sensitivity / sensitize on the model's circuits: no certificate hypotheses ---- *)
Lemma sens_circuits_model C n : c_bbs C = ∅ → comb (c_g C) →
  ∀ s T, s ∈ cone_startpoints (c_g C) n → sensitization_transform C s (Some [n]) = Ok T →
    (∃ i, c_g C !! s = Some i ∧ n_ty i = Input ∧ n_fi i = ∅) ∧
    sens_spec (c_g C) s [n] (elements (cone_startpoints (c_g C) n)) (c_g T).
Proof.
  intros Hbb Hc s T Hs HT. set (c := c_g C) in *.
  assert (Hsin : s ∈ inputs c).
  { unfold cone_startpoints in Hs. rewrite (comb_startpoints c Hc) in Hs. set_solver. }
  pose proof Hsin as (i & Hi & Hty)%elem_of_inputs.
  split; [exists i; split; [done|]; split; [done|]; by eapply (cb_input_fi c Hc)|].
  assert (Hsd : s ∈ dom c) by (apply elem_of_dom; eauto).
  destruct (sens_spec_model C s (Some [n]) T Hbb Hc Hsd HT) as [Hst Hsp]. cbn [sens_sub fst snd] in Hst, Hsp.
  assert (HEs : (list_to_set [n] : gset string) = {[n]}) by (apply set_eq; set_solver).
  rewrite HEs in Hsp, Hst. rewrite elements_singleton in Hsp.
  assert (Heq : startpoints (c_g T) = cone_startpoints c n).
  { rewrite Hst, sel_inputs. unfold cone_startpoints. rewrite (comb_startpoints c Hc). apply set_eq. set_solver. }
  by rewrite Heq in Hsp.
Qed.

Theorem influence_model_full mc C n out :
  mc_exact mc → c_bbs C = ∅ → comb (c_g C) → influence mc C n = Ok out →
  out = (λ s, (s, influence_def (c_g C) n (elements (cone_startpoints (c_g C) n)) s)) <$> elements (cone_startpoints (c_g C) n).
Proof. intros Hmc Hbb Hc. apply influence_model_spec; [done|]. by apply sens_circuits_model. Qed.
Theorem avg_sensitivity_model_full mc C n a :
  mc_exact mc → c_bbs C = ∅ → comb (c_g C) → avg_sensitivity mc C n = Ok a →
  a = avg_sensitivity_def (c_g C) n (elements (cone_startpoints (c_g C) n)).
Proof. intros Hmc Hbb Hc. apply avg_sensitivity_model_spec; [done|]. by apply sens_circuits_model. Qed.
Theorem sensitize_model_full (solve : circuit → list (string * bool) → option val) C n r :
  (∀ g asm v, solve g asm = Some v → consistent g v ∧ Forall (λ p : string * bool, v p.1 = p.2) asm) →
  (∀ g asm, solve g asm = None → ¬ ∃ v, consistent g v ∧ Forall (λ p : string * bool, v p.1 = p.2) asm) →
  c_bbs C = ∅ → comb (c_g C) → n ∈ dom (c_g C) → sensitize solve C n = Ok r →
  match r with
  | Some μ => ∃ ρ : val, Forall (λ p : string * bool, ρ p.1 = p.2) μ ∧ sens_at (c_g C) n (elements (outputs (c_g C))) ρ
  | None => ∀ ρ, ¬ sens_at (c_g C) n (elements (outputs (c_g C))) ρ
  end.
Proof.
  intros Hsound Hcomp Hbb Hc Hn Hr.
  destruct (sensitization_transform C n None) as [T| | |] eqn:HT; try (unfold sensitize in Hr; rewrite HT in Hr; done).
  destruct (sens_spec_model C n None T Hbb Hc Hn HT) as [_ Hsp]. cbn [sens_sub snd] in Hsp.
  pose proof (sensitize_model_spec solve C n _ _ T r Hsound Hcomp HT Hsp Hr) as H.
  destruct r as [μ|]; [|done]. by destruct H as [_ H].
Qed.


(* ================================================================================================ *)
(* E. the model's sensitivity circuit: exact node set, all records, certificate                        *)
Lemma otie_loop_dom S : ∀ g g', add_each otie1 g S = (g', Done) → dom g' = dom g ∪ list_to_set S.
Proof.
  induction S as [|s S IH]; intros g g' H.
  - apply my_add_each_nil in H as ->. set_solver.
  - apply my_add_each_cons in H as (g1 & n1 & Hstep & Hrest). unfold otie1 in Hstep.
    assert (Hnfo : s ∉ [pre "orig" s]) by (intros E%elem_of_list_singleton; symmetry in E; by apply pre_ne in E).
    rewrite (IH _ _ Hrest), (add_g_dom _ _ _ _ _ af_default _ _ eq_refl eq_refl eq_refl Hstep Hnfo). set_solver.
Qed.
Lemma otie_loop_inputs S : ∀ g g', add_each otie1 g S = (g', Done) →
  (∀ s, s ∈ S → pre "orig" s ∈ dom g) → ∀ s, s ∈ S → g' !! s = Some (mk_node Input false ∅).
Proof.
  induction S as [|s S IH]; intros g g' H Hd; [by intros s ?%elem_of_nil|].
  apply my_add_each_cons in H as (g1 & n1 & Hstep & Hrest). unfold otie1 in Hstep.
  assert (Hnfo : s ∉ [pre "orig" s]) by (intros E%elem_of_list_singleton; symmetry in E; by apply pre_ne in E).
  destruct (add_g_lookup _ _ _ _ _ af_default _ _ eq_refl eq_refl eq_refl Hstep Hnfo) as (_ & Hs & Hls & _).
  pose proof (add_g_eff _ _ _ _ _ af_default _ _ eq_refl eq_refl eq_refl Hstep Hnfo) as [Hd1 _].
  assert (Hd' : ∀ s', s' ∈ S → pre "orig" s' ∈ dom g1) by (intros s' Hs'; apply Hd1, Hd; by right).
  intros s' [->|Hs']%elem_of_cons; [|by apply (IH g1 g' Hrest Hd')].
  destruct (otie_loop_lookup _ _ _ Hrest) as (_ & _ & Hlk).
  rewrite Hlk by (apply elem_of_dom; rewrite Hls; eauto). rewrite Hls. simpl. f_equal.
  assert (list_to_set (filter (λ s0, s = pre "orig" s0) S) = (∅ : gset string)) as ->;
    [|unfold mk_node, upd_fi; simpl; f_equal; set_solver].
  apply set_eq. intros y. rewrite elem_of_list_to_set, elem_of_list_filter. split; [|set_solver].
  intros [E Hy]. exfalso. apply Hs. rewrite E. apply Hd. by right.
Qed.

Lemma inner_loop_dom s0 l g g' : NoDup l → foldl (inner_step s0) (g, Done) l = (g', Done) → dom g' = dom g.
Proof.
  intros Hnd H. destruct (inner_loop s0 l g g' Hnd H) as [I1 I2]. apply set_eq. intros k. rewrite !elem_of_dom.
  destruct (decide (k ∈ (pre (pre "inv" s0) <$> l))) as [(s1 & -> & Hs1)%elem_of_list_fmap|Hno].
  - rewrite (I1 s1 Hs1). destruct (g !! _); simpl; split; intros [? ?]; eauto; done.
  - rewrite I2; [done|]. intros s1 Hs1 ->. apply Hno. apply elem_of_list_fmap. eauto.
Qed.

Lemma inv_copy_dom Sc SUB n ord i s0 S2 : inv_copy Sc SUB n ord i s0 = (S2, Done) → NoDup ord →
  dom (c_g S2) = dom (c_g Sc) ∪ set_map (pre (pre "inv" s0)) (dom (c_g SUB)) ∪ {[pre "dif_out" s0]} ∧
  (∀ x, x ∈ dom (c_g SUB) → pre (pre "inv" s0) x ∉ dom (c_g Sc)) ∧ pre "dif_out" s0 ∉ dom (c_g Sc).
Proof.
  intros H Hnd. destruct (inv_copy_inv _ _ _ _ _ _ _ H) as (S' & g & g' & n' & H1 & H2 & H3 & ->).
  change (c_g (with_g S' g')) with g'.
  destruct (add_sub_nil _ _ _ _ H1) as (HgS' & _ & _ & Hfresh).
  assert (Hnfo : pre "dif_out" s0 ∉ [pcin i]) by (intros E%elem_of_list_singleton; unfold pre, pcin in E; simplify_eq/=).
  destruct (add_g_lookup _ _ _ _ _ af_out1 _ _ eq_refl eq_refl eq_refl H3 Hnfo) as (_ & Hdfresh & _).
  pose proof (inner_loop_dom _ _ _ _ Hnd H2) as Hdi.
  rewrite (add_g_dom _ _ _ _ _ af_out1 _ _ eq_refl eq_refl eq_refl H3 Hnfo), Hdi, HgS', dom_spliced.
  split; [clear; set_solver|]. split; [done|].
  intros Hin. apply Hdfresh. rewrite Hdi, HgS', dom_spliced. clear -Hin. set_solver.
Qed.

Lemma outer_loop_dom SUB n ord l : NoDup ord →
  ∀ Sc S', foldl (outer_step SUB n ord) (Sc, Done) l = (S', Done) →
  (∀ k, k ∈ dom (c_g S') ↔ k ∈ dom (c_g Sc) ∨
        ∃ i s0, (i, s0) ∈ l ∧ ((∃ x, x ∈ dom (c_g SUB) ∧ k = pre (pre "inv" s0) x) ∨ k = pre "dif_out" s0)) ∧
  (∀ i s0, (i, s0) ∈ l → (∀ x, x ∈ dom (c_g SUB) → pre (pre "inv" s0) x ∉ dom (c_g Sc)) ∧ pre "dif_out" s0 ∉ dom (c_g Sc)).
Proof.
  intros Hnd. induction l as [|[i s0] l IH]; intros Sc S' H.
  - simpl in H. injection H as <-. split; [|by intros i s0 ?%elem_of_nil]. intros k. split; [by left|].
    intros [?|(i & s0 & ?%elem_of_nil & _)]; done.
  - simpl in H. destruct (inv_copy Sc SUB n ord i s0) as [S1 [|e]] eqn:H1; [|by rewrite outer_fail in H].
    destruct (inv_copy_dom _ _ _ _ _ _ _ H1 Hnd) as (D1 & Fi & Fd). destruct (IH S1 S' H) as [D2 F2]. split.
    + intros k. rewrite (D2 k), D1. rewrite !elem_of_union, elem_of_singleton, elem_of_map. split.
      * intros [[[?|(x & -> & Hx)]| ->]|(i' & s0' & Hin & Hk)]; [by left| | |].
        -- right. exists i, s0. split; [by left|]. left. eauto.
        -- right. exists i, s0. split; [by left|]. by right.
        -- right. exists i', s0'. split; [by right|done].
      * intros [?|(i' & s0' & [[= -> ->]|Hin]%elem_of_cons & Hk)]; [by do 3 left| |].
        -- left. destruct Hk as [(x & Hx & ->)| ->]; [left; right; eauto|by right].
        -- right. eauto.
    + intros i' s0' [[= -> ->]|Hin]%elem_of_cons; [done|].
      destruct (F2 i' s0' Hin) as [Fa Fb]. assert (dom (c_g Sc) ⊆ dom (c_g S1)) as Hsub by (rewrite D1; clear; set_solver).
      split; [intros x Hx Hk; by apply (Fa x Hx), Hsub|intros Hk; by apply Fb, Hsub].
Qed.

(* the names of the inverted copies are unambiguous in an accepted run (inv_<s0>_<x> is not injective in general) *)
Lemma inv_unique SUB n ord l : NoDup ord → NoDup (snd <$> l) →
  ∀ Sc S', foldl (outer_step SUB n ord) (Sc, Done) l = (S', Done) →
  ∀ i s0 i' s0' x y, (i, s0) ∈ l → (i', s0') ∈ l → x ∈ dom (c_g SUB) → y ∈ dom (c_g SUB) →
    pre (pre "inv" s0) x = pre (pre "inv" s0') y → s0 = s0' ∧ x = y.
Proof.
  intros Hnd. induction l as [|[i0 t0] l IH]; intros Hndl Sc S' H i s0 i' s0' x y Hin Hin' Hx Hy E; [by apply elem_of_nil in Hin|].
  simpl in H. destruct (inv_copy Sc SUB n ord i0 t0) as [S1 [|e]] eqn:H1; [|by rewrite outer_fail in H].
  rewrite fmap_cons in Hndl. apply NoDup_cons in Hndl as [Ht0 Hndl]. simpl in Ht0.
  destruct (inv_copy_dom _ _ _ _ _ _ _ H1 Hnd) as (D1 & _ & _).
  destruct (outer_loop_dom SUB n ord l Hnd S1 S' H) as [_ F2].
  assert (Hhead : ∀ z, z ∈ dom (c_g SUB) → pre (pre "inv" t0) z ∈ dom (c_g S1)).
  { intros z Hz. rewrite D1. apply elem_of_union_l, elem_of_union_r, elem_of_map. eauto. }
  apply elem_of_cons in Hin as [[= -> ->]|Hin]; apply elem_of_cons in Hin' as [[= -> ->]|Hin'].
  - split; [done|]. by apply (inj (pre (pre "inv" t0))) in E.
  - exfalso. destruct (F2 i' s0' Hin') as [Fa _]. apply (Fa y Hy). rewrite <- E. by apply Hhead.
  - exfalso. destruct (F2 i s0 Hin) as [Fa _]. apply (Fa x Hx). rewrite E. by apply Hhead.
  - by eapply (IH Hndl S1 S' H i s0 i' s0' x y).
Qed.

Lemma sen_loop_dom l : ∀ g g', add_each sen1 g l = (g', Done) →
  dom g' = dom g ∪ list_to_set ((λ o, "sen_out_" ++ pretty o) <$> l) ∧
  (∀ o, o ∈ l → "sen_out_" ++ pretty o ∉ dom g ∧ "pc_out_" ++ pretty o ∈ dom g).
Proof.
  induction l as [|o l IH]; intros g g' H.
  - apply my_add_each_nil in H as ->. split; [set_solver|]. by intros o ?%elem_of_nil.
  - apply my_add_each_cons in H as (g1 & n1 & Hstep & Hrest). unfold sen1 in Hstep.
    assert (Hnfo : "sen_out_" ++ pretty o ∉ ([] : list string)) by (by intros ?%elem_of_nil).
    destruct (add_g_lookup _ _ _ _ _ af_out1 _ _ eq_refl eq_refl eq_refl Hstep Hnfo) as (_ & Hfr & _ & _ & _ & Hfi).
    pose proof (add_g_dom _ _ _ _ _ af_out1 _ _ eq_refl eq_refl eq_refl Hstep Hnfo) as D1.
    destruct (IH g1 g' Hrest) as [D2 F2]. split.
    + rewrite D2, D1, fmap_cons, list_to_set_cons. clear; set_solver.
    + intros o' [->|Ho']%elem_of_cons.
      * split; [done|]. destruct (Hfi ("pc_out_" ++ pretty o) ltac:(by left)) as [?|E]; [done|]. simplify_eq/=.
      * destruct (F2 o' Ho') as [Fa Fb]. rewrite D1 in Fa, Fb. split; [set_solver|].
        apply elem_of_union in Fb as [E%elem_of_singleton|?]; [simplify_eq/=|done].
Qed.


Definition orec (ord : list string) (x : string) (i : ninfo) : ninfo :=
  upd_fi (λ F, (if decide (x ∈ ord) then {[x]} else ∅) ∪ F) (ren_info (pre "orig") (strip_info i)).
Definition pin (i : nat) : string := "in_" ++ pretty i.

Record sv_lookups (c : circuit) (n : string) (ord : list string) (P : circuit) (W : nat) (g : circuit) : Prop := {
  vl_dom : ∀ k, k ∈ dom g →
     k ∈ ord ∨ (∃ x, x ∈ dom c ∧ k = pre "orig" x) ∨ (∃ x, x ∈ dom P ∧ k = pre "pc" x) ∨
     (∃ s0 x, s0 ∈ ord ∧ x ∈ dom c ∧ k = pre (pre "inv" s0) x) ∨ (∃ s0, s0 ∈ ord ∧ k = pre "dif_out" s0) ∨
     (∃ o, o < W ∧ k = "sen_out_" ++ pretty o);
  vl_in : ∀ s, s ∈ ord → g !! s = Some (mk_node Input false ∅);
  vl_orig : ∀ x i, c !! x = Some i → g !! pre "orig" x = Some (orec ord x i);
  vl_inv : ∀ s0 x i, s0 ∈ ord → c !! x = Some i → g !! pre (pre "inv" s0) x = Some (inv_rec s0 ord x i);
  vl_dif : ∀ s0, s0 ∈ ord → g !! pre "dif_out" s0 = Some (mk_node Xor true {[pre "orig" n; pre (pre "inv" s0) n]});
  vl_pcin : ∀ i s0 j, ord !! i = Some s0 → P !! pin i = Some j →
     g !! pre "pc" (pin i) = Some (upd_fi (λ F, {[pre "dif_out" s0]} ∪ F) (ren_info (pre "pc") (strip_info j)));
  vl_pc : ∀ x j, P !! x = Some j → (∀ i, i < length ord → x ≠ pin i) → g !! pre "pc" x = Some (ren_info (pre "pc") (strip_info j));
  vl_sen : ∀ o, o < W → g !! ("sen_out_" ++ pretty o) = Some (mk_node Buf true {[ "pc_out_" ++ pretty o ]}) ∧
                        "pc_out_" ++ pretty o ∈ dom g;
  vl_fresh : ∀ s, s ∈ ord →
     (∀ x, x ∈ dom c → s ≠ pre "orig" x) ∧ (∀ x, x ∈ dom P → s ≠ pre "pc" x) ∧
     (∀ s0 x, s0 ∈ ord → x ∈ dom c → s ≠ pre (pre "inv" s0) x) ∧ (∀ s0, s0 ∈ ord → s ≠ pre "dif_out" s0) ∧
     (∀ o, o < W → s ≠ "sen_out_" ++ pretty o);
  vl_uniq : ∀ s0 s0' x y, s0 ∈ ord → s0' ∈ ord → x ∈ dom c → y ∈ dom c →
     pre (pre "inv" s0) x = pre (pre "inv" s0') y → s0 = s0' ∧ x = y }.

Lemma snd_imap_pairs (l : list string) : snd <$> imap (λ i s, (i, s)) l = l.
Proof.
  assert (∀ k, snd <$> imap (λ i s, (k + i, s)) l = l) as H.
  { induction l as [|s l IH]; intros k; [done|]. rewrite imap_cons. cbn [fmap list_fmap]. f_equal.
    rewrite <- (IH (S k)) at 2. f_equal. apply imap_ext. intros i x _. simpl. f_equal. lia. }
  apply (H 0).
Qed.

Theorem sv_model_lookups SUB n ord PC S1 g2 S3 S4 W g5 :
  comb (c_g SUB) → NoDup ord → inputs (c_g SUB) = list_to_set ord → pc_inputs (c_g PC) (length ord) →
  add_subcircuit {| c_name := "circuit"; c_g := ∅; c_bbs := ∅ |} SUB "orig" [] = (S1, Done) →
  add_each otie1 (c_g S1) ord = (g2, Done) →
  add_subcircuit (with_g S1 g2) PC "pc" [] = (S3, Done) →
  foldl (outer_step SUB n ord) (S3, Done) (imap (λ i s, (i, s)) ord) = (S4, Done) →
  add_each sen1 (c_g S4) (seq 0 W) = (g5, Done) →
  sv_lookups (c_g SUB) n ord (c_g PC) W g5.
Proof.
  intros Hc Hnd Hin Hpc H1 H2 H3 H4 H5. set (c := c_g SUB) in *. set (P := c_g PC) in *.
  assert (Hord : ∀ s, s ∈ ord ↔ s ∈ inputs c) by (intros s; rewrite Hin; by rewrite elem_of_list_to_set).
  assert (Hordd : ∀ s, s ∈ ord → s ∈ dom c).
  { intros s (j & Hj & _)%Hord%elem_of_inputs. apply elem_of_dom. eauto. }
  (* orig copy and its ties *)
  assert (O1 : ∀ x j, c !! x = Some j → c_g S1 !! pre "orig" x = Some (ren_info (pre "orig") (strip_info j))).
  { intros x j Hx. by apply (add_sub_lookup_new _ _ _ _ x j H1). }
  assert (D1 : dom (c_g S1) = set_map (pre "orig") (dom c)).
  { destruct (add_sub_nil _ _ _ _ H1) as (G1 & _). rewrite G1, dom_spliced. simpl. rewrite dom_empty_L. fold c. clear; set_solver. }
  destruct (otie_loop_lookup _ _ _ H2) as (Hfr2 & Hd12 & Ht).
  pose proof (otie_loop_dom _ _ _ H2) as D2.
  assert (O2 : ∀ x j, c !! x = Some j → g2 !! pre "orig" x = Some (orec ord x j)).
  { intros x j Hx. rewrite Ht by (apply elem_of_dom; rewrite (O1 x j Hx); eauto). by rewrite (O1 x j Hx), otie_src. }
  assert (I2 : ∀ s, s ∈ ord → g2 !! s = Some (mk_node Input false ∅)).
  { apply (otie_loop_inputs _ _ _ H2). intros s (j & Hj & _)%Hord%elem_of_inputs. apply elem_of_dom. rewrite (O1 s j Hj). eauto. }
  (* popcount copy *)
  pose proof (add_sub_eff _ _ _ _ H3) as E23. change (c_g (with_g S1 g2)) with g2 in E23.
  destruct (add_sub_nil _ _ _ _ H3) as (G3 & _ & _ & Hfr3). change (c_g (with_g S1 g2)) with g2 in G3, Hfr3.
  assert (D3 : dom (c_g S3) = dom g2 ∪ set_map (pre "pc") (dom P)) by (rewrite G3; exact (dom_spliced (with_g S1 g2) PC "pc")).
  assert (P3 : ∀ x j, P !! x = Some j → c_g S3 !! pre "pc" x = Some (ren_info (pre "pc") (strip_info j))).
  { intros x j Hx. by apply (add_sub_lookup_new _ _ _ _ x j H3). }
  (* the inverted copies *)
  assert (Hl : ∀ i s0, (i, s0) ∈ imap (λ i s, (i, s)) ord ↔ ord !! i = Some s0).
  { intros i s0. rewrite elem_of_lookup_imap. split; [intros (i' & s' & [= -> ->] & H); done|intros H; eauto]. }
  assert (Hpin : ∀ i, i < length ord → ∃ j, P !! pin i = Some j ∧ n_ty j = Input ∧ n_fi j = ∅ ∧
                    c_g S3 !! pcin i = Some (ren_info (pre "pc") (strip_info j))).
  { intros i Hi. destruct (Hpc i Hi) as (j & Hj & Hty & Hfi). exists j. repeat split; try done. exact (P3 _ j Hj). }
  destruct (outer_loop SUB n ord _ Hnd Hordd S3 S4 H4) as [E34 F4].
  { rewrite fst_imap_pairs. apply NoDup_seq. }
  { intros [i s0] Hp%Hl. simpl. apply lookup_lt_Some in Hp. destruct (Hpin i Hp) as (j & _ & _ & _ & Hj). apply elem_of_dom. eauto. }
  destruct (outer_loop_dom SUB n ord _ Hnd S3 S4 H4) as [D4 Fr4].
  set (A := (list_to_set ((λ p : nat * string, pcin p.1) <$> imap (λ i s, (i, s)) ord) : gset string)) in *.
  assert (HA : ∀ k, k ∈ A → ∃ i, i < length ord ∧ k = pcin i).
  { intros k ([i s0] & -> & Hp%Hl)%elem_of_list_to_set%elem_of_list_fmap. exists i. split; [by apply lookup_lt_Some in Hp|done]. }
  destruct (sen_loop _ _ _ H5) as [E45 F5].
  destruct (sen_loop_dom _ _ _ H5) as [D5 Fr5].
  assert (E25 : eff g2 g5 A).
  { eapply eff_weaken; [|eapply eff_trans; [exact E23|eapply eff_trans; [exact E34|exact E45]]]. clear; set_solver. }
  assert (E35 : eff (c_g S3) g5 A).
  { eapply eff_weaken; [|eapply eff_trans; [exact E34|exact E45]]. clear; set_solver. }
  assert (Hs2 : ∀ s, s ∈ ord → s ∈ dom g2) by (intros s Hs; rewrite D2; apply elem_of_union_r; by apply elem_of_list_to_set).
  assert (Hs3 : ∀ s, s ∈ ord → s ∈ dom (c_g S3)) by (intros s Hs; rewrite D3; apply elem_of_union_l; by apply Hs2).
  assert (Hs4 : ∀ s, s ∈ ord → s ∈ dom (c_g S4)) by (intros s Hs; apply D4; left; by apply Hs3).
  assert (HnotA : ∀ s, s ∈ ord → s ∉ A).
  { intros s Hs (i & Hi & ->)%HA. destruct (Hpc i Hi) as (j & Hj & _).
    apply (Hfr3 (pin i)); [apply elem_of_dom; eauto|]. by apply Hs2. }
  split.
  - (* node set *)
    intros k Hk. rewrite D5 in Hk. apply elem_of_union in Hk as [Hk|Hk].
    + apply D4 in Hk as [Hk|(i & s0 & Hin' & Hk)].
      * rewrite D3, D2, D1 in Hk. apply elem_of_union in Hk as [[Hk|Hk]%elem_of_union|Hk].
        -- apply elem_of_map in Hk as (x & -> & Hx). right; left. eauto.
        -- left. by apply elem_of_list_to_set in Hk.
        -- apply elem_of_map in Hk as (x & -> & Hx). right; right; left. eauto.
      * apply Hl in Hin'. assert (s0 ∈ ord) by (by eapply elem_of_list_lookup_2).
        destruct Hk as [(x & Hx & ->)| ->]; [right; right; right; left; eauto|right; right; right; right; left; eauto].
    + apply elem_of_list_to_set, elem_of_list_fmap in Hk as (o & -> & Ho%elem_of_seq). do 5 right. exists o. split; [lia|done].
  - intros s Hs. eapply eff_lookup; [exact E25|by apply I2|by apply HnotA].
  - intros x j Hx. eapply eff_lookup; [exact E25|exact (O2 x j Hx)|].
    intros (i & _ & E)%HA. unfold pre, pcin in E. simplify_eq/=.
  - intros s0 x j (i & Hi)%elem_of_list_lookup Hx. destruct (F4 i s0 (proj2 (Hl i s0) Hi)) as (Fa & _ & _).
    eapply eff_lookup; [exact E45|by apply Fa|set_solver].
  - intros s0 (i & Hi)%elem_of_list_lookup. destruct (F4 i s0 (proj2 (Hl i s0) Hi)) as (_ & Fb & _).
    eapply eff_lookup; [exact E45|exact Fb|set_solver].
  - intros i s0 j Hi Hj. destruct (F4 i s0 (proj2 (Hl i s0) Hi)) as (_ & _ & Fc).
    destruct (Hpin i (lookup_lt_Some _ _ _ Hi)) as (j' & Hj' & _ & _ & Hj3). rewrite Hj in Hj'. injection Hj' as <-.
    rewrite Hj3 in Fc. simpl in Fc. eapply eff_lookup; [exact E45|exact Fc|set_solver].
  - intros x j Hx Hne. eapply eff_lookup; [exact E35|exact (P3 x j Hx)|].
    intros (i & Hi & E)%HA. change (pcin i) with (pre "pc" (pin i)) in E. apply (inj (pre "pc")) in E. by apply (Hne i Hi).
  - intros o Ho. assert (o ∈ seq 0 W) as Hos by (apply elem_of_seq; lia). split.
    + rewrite (F5 o Hos). f_equal. unfold mk_node. f_equal. clear; set_solver.
    + destruct (Fr5 o Hos) as [_ Hin5]. rewrite D5. by apply elem_of_union_l.
  - intros s Hs. split; [|split; [|split; [|split]]].
    + intros x Hx ->. apply (Hfr2 _ Hs). rewrite D1. apply elem_of_map. eauto.
    + intros x Hx ->. apply (Hfr3 x Hx). by apply Hs2.
    + intros s0 x (i & Hi)%elem_of_list_lookup Hx ->. destruct (Fr4 i s0 (proj2 (Hl i s0) Hi)) as [Fa _].
      apply (Fa x Hx). by apply Hs3.
    + intros s0 (i & Hi)%elem_of_list_lookup ->. destruct (Fr4 i s0 (proj2 (Hl i s0) Hi)) as [_ Fb]. apply Fb. by apply Hs3.
    + intros o Ho ->. destruct (Fr5 o ltac:(apply elem_of_seq; lia)) as [Fa _]. apply Fa. by apply Hs4.
  - intros s0 s0' x y (i & Hi)%elem_of_list_lookup (i' & Hi')%elem_of_list_lookup Hx Hy E.
    eapply (inv_unique SUB n ord _ Hnd); [by rewrite snd_imap_pairs|exact H4|apply Hl, Hi|apply Hl, Hi'|done|done|done].
Qed.


Definition pins (m : nat) : list string := pin <$> seq 0 m.
(* what the certificate needs of the popcount circuit (C13: popcount_combinational) *)
Record pc_cert (P : circuit) (m : nat) : Prop := {
  pq_closed : closed P;
  pq_acyclic : acyclic P;
  pq_free : free_nodes P = list_to_set (pins m);
  pq_inputs : pc_inputs P m }.

Section svcert.
  Context (c : circuit) (n : string) (ord : list string) (P : circuit) (W : nat) (g : circuit).
  Hypothesis Hc : comb c.
  Hypothesis Hn : n ∈ dom c.
  Hypothesis Hnd : NoDup ord.
  Hypothesis Hin : inputs c = list_to_set ord.
  Hypothesis HP : pc_cert P (length ord).
  Hypothesis HL : sv_lookups c n ord P W g.

  Lemma ord_inputs x : x ∈ ord ↔ x ∈ inputs c.
  Proof. rewrite Hin. by rewrite elem_of_list_to_set. Qed.
  Lemma ord_info x i : c !! x = Some i → (x ∈ ord ↔ n_ty i = Input).
  Proof. intros Hx. rewrite ord_inputs, elem_of_inputs. split; [intros (i' & Hi' & Ht); congruence|eauto]. Qed.
  Lemma c_gate_nonfree x i : c !! x = Some i → n_ty i ≠ Input → is_free i = false.
  Proof. intros Hx Ht. destruct (is_free i) eqn:E; [|done]. by apply (cb_inputs_only c Hc x i Hx) in E. Qed.
  Lemma pin_lookup i : i < length ord → ∃ j, P !! pin i = Some j ∧ n_ty j = Input ∧ n_fi j = ∅.
  Proof. apply (pq_inputs _ _ HP). Qed.
  Lemma P_nonpin_nonfree x j : P !! x = Some j → x ∉ pins (length ord) → is_free j = false.
  Proof.
    intros Hx Hnp. destruct (is_free j) eqn:E; [|done]. exfalso. apply Hnp.
    assert (x ∈ free_nodes P) as Hf by (unfold free_nodes; apply elem_of_dom; exists j; by apply map_filter_lookup_Some).
    rewrite (pq_free _ _ HP) in Hf. by apply elem_of_list_to_set in Hf.
  Qed.
  Lemma elem_pins x m : x ∈ pins m ↔ ∃ i, i < m ∧ x = pin i.
  Proof. unfold pins. rewrite elem_of_list_fmap. split; [intros (i & -> & Hi%elem_of_seq); exists i; split; [lia|done]|intros (i & Hi & ->); exists i; split; [done|apply elem_of_seq; lia]]. Qed.

  (* fan-in and type of the copied records *)
  Lemma copy_rec_gate p i : is_free i = false →
    n_ty (ren_info (pre p) (strip_info i)) = n_ty i ∧ n_fi (ren_info (pre p) (strip_info i)) = set_map (pre p) (n_fi i) ∧
    is_free (ren_info (pre p) (strip_info i)) = false.
  Proof.
    intros Hf. destruct (strip_copy_nonfree p i Hf) as [H1 H2]. split; [done|]. split; [done|].
    unfold is_free in *. rewrite H1, H2. destruct (n_ty i); try done; rewrite bool_decide_eq_false in Hf |- *;
      intros He; apply Hf; by apply (set_map_empty_iff (pre p)).
  Qed.
  Lemma copy_rec_input p i : n_ty i = Input → n_fi i = ∅ →
    n_ty (ren_info (pre p) (strip_info i)) = Buf ∧ n_fi (ren_info (pre p) (strip_info i)) = ∅.
  Proof. intros Ht Hf. cbn [n_ty n_fi ren_info strip_info]. rewrite Ht, bool_decide_eq_true_2 by done. by rewrite Hf, set_map_empty. Qed.

  Inductive vcls (k : string) (j : ninfo) : Prop :=
  | vc_in : k ∈ ord → j = mk_node Input false ∅ → vcls k j
  | vc_orig x i : c !! x = Some i → k = pre "orig" x → j = orec ord x i → vcls k j
  | vc_inv s0 x i : s0 ∈ ord → c !! x = Some i → k = pre (pre "inv" s0) x → j = inv_rec s0 ord x i → vcls k j
  | vc_dif s0 : s0 ∈ ord → k = pre "dif_out" s0 → j = mk_node Xor true {[pre "orig" n; pre (pre "inv" s0) n]} → vcls k j
  | vc_pcin i s0 jj : ord !! i = Some s0 → P !! pin i = Some jj → k = pre "pc" (pin i) →
        j = upd_fi (λ F, {[pre "dif_out" s0]} ∪ F) (ren_info (pre "pc") (strip_info jj)) → vcls k j
  | vc_pc x jj : P !! x = Some jj → x ∉ pins (length ord) → k = pre "pc" x → j = ren_info (pre "pc") (strip_info jj) → vcls k j
  | vc_sen o : o < W → k = "sen_out_" ++ pretty o → j = mk_node Buf true {[ "pc_out_" ++ pretty o ]} → vcls k j.

  Lemma vclassify k j : g !! k = Some j → vcls k j.
  Proof.
    intros Hk. assert (k ∈ dom g) as Hd by (apply elem_of_dom; eauto).
    destruct (vl_dom _ _ _ _ _ _ HL k Hd) as [Hs|[(x & [i Hi]%elem_of_dom & ->)|[(x & [jj Hj]%elem_of_dom & ->)|[(s0 & x & Hs0 & [i Hi]%elem_of_dom & ->)|[(s0 & Hs0 & ->)|(o & Ho & ->)]]]]].
    - apply vc_in; [done|]. rewrite (vl_in _ _ _ _ _ _ HL k Hs) in Hk. congruence.
    - eapply vc_orig; eauto. rewrite (vl_orig _ _ _ _ _ _ HL x i Hi) in Hk. congruence.
    - destruct (decide (x ∈ pins (length ord))) as [(i & Hi & ->)%elem_pins|Hnp].
      + destruct (lookup_lt_is_Some_2 ord i Hi) as [s0 Hs0]. eapply vc_pcin; eauto.
        rewrite (vl_pcin _ _ _ _ _ _ HL i s0 jj Hs0 Hj) in Hk. congruence.
      + eapply vc_pc; eauto. rewrite (vl_pc _ _ _ _ _ _ HL x jj Hj) in Hk; [congruence|].
        intros i Hi ->. apply Hnp, elem_pins. eauto.
    - eapply vc_inv; eauto. rewrite (vl_inv _ _ _ _ _ _ HL s0 x i Hs0 Hi) in Hk. congruence.
    - eapply vc_dif; eauto. rewrite (vl_dif _ _ _ _ _ _ HL s0 Hs0) in Hk. congruence.
    - eapply vc_sen; eauto. destruct (vl_sen _ _ _ _ _ _ HL o Ho) as [Hs _]. rewrite Hs in Hk. congruence.
  Qed.

  (* fan-in of the copies of a cone node *)
  Lemma orec_fi x i f : c !! x = Some i → f ∈ n_fi (orec ord x i) →
    (x ∈ ord ∧ f = x) ∨ (x ∉ ord ∧ ∃ y, y ∈ n_fi i ∧ f = pre "orig" y).
  Proof.
    intros Hx Hf. unfold orec in Hf. destruct (decide (x ∈ ord)) as [Ho|Ho].
    - pose proof (proj1 (ord_info x i Hx) Ho) as Ht.
      destruct (copy_rec_input "orig" i Ht (cb_input_fi c Hc x i Hx Ht)) as [_ H2]. cbn [upd_fi n_fi] in Hf. rewrite H2 in Hf.
      left. split; [done|]. set_solver.
    - assert (n_ty i ≠ Input) as Ht by (intros Ht; by apply Ho, (ord_info x i Hx)).
      destruct (copy_rec_gate "orig" i (c_gate_nonfree x i Hx Ht)) as (_ & H2 & _). cbn [upd_fi n_fi] in Hf. rewrite H2 in Hf.
      right. split; [done|]. apply elem_of_union in Hf as [Hf|Hf]; [set_solver|]. apply elem_of_map in Hf as (y & -> & Hy). eauto.
  Qed.
  Lemma invrec_fi s0 x i f : c !! x = Some i → f ∈ n_fi (inv_rec s0 ord x i) →
    (x ∈ ord ∧ (f = x ∨ f = s0) ∧ f ∈ ord ∨ False) ∨ (x ∉ ord ∧ ∃ y, y ∈ n_fi i ∧ f = pre (pre "inv" s0) y).
  Proof.
    intros Hx Hf. unfold inv_rec in Hf. destruct (decide (x ∈ ord)) as [Ho|Ho].
    - pose proof (proj1 (ord_info x i Hx) Ho) as Ht.
      destruct (copy_rec_input (pre "inv" s0) i Ht (cb_input_fi c Hc x i Hx Ht)) as [_ H2].
      left. left. split; [done|]. unfold inner_fn in Hf. destruct (decide (s0 = x)) as [->|Hne]; cbn [upd_fi retype n_fi] in Hf; rewrite H2 in Hf;
        assert (f = x) as -> by set_solver; auto.
    - assert (n_ty i ≠ Input) as Ht by (intros Ht; by apply Ho, (ord_info x i Hx)).
      destruct (copy_rec_gate (pre "inv" s0) i (c_gate_nonfree x i Hx Ht)) as (_ & H2 & _). rewrite H2 in Hf.
      right. split; [done|]. apply elem_of_map in Hf as (y & -> & Hy). eauto.
  Qed.

  Lemma dom_orig x : x ∈ dom c → pre "orig" x ∈ dom g.
  Proof. intros [i Hi]%elem_of_dom. apply elem_of_dom. rewrite (vl_orig _ _ _ _ _ _ HL x i Hi). eauto. Qed.
  Lemma dom_inv s0 x : s0 ∈ ord → x ∈ dom c → pre (pre "inv" s0) x ∈ dom g.
  Proof. intros Hs [i Hi]%elem_of_dom. apply elem_of_dom. rewrite (vl_inv _ _ _ _ _ _ HL s0 x i Hs Hi). eauto. Qed.
  Lemma dom_ord s : s ∈ ord → s ∈ dom g.
  Proof. intros Hs. apply elem_of_dom. rewrite (vl_in _ _ _ _ _ _ HL s Hs). eauto. Qed.
  Lemma dom_pc x : x ∈ dom P → pre "pc" x ∈ dom g.
  Proof.
    intros [jj Hj]%elem_of_dom. apply elem_of_dom. destruct (decide (x ∈ pins (length ord))) as [(i & Hi & ->)%elem_pins|Hnp].
    - destruct (lookup_lt_is_Some_2 ord i Hi) as [s0 Hs0]. rewrite (vl_pcin _ _ _ _ _ _ HL i s0 jj Hs0 Hj). eauto.
    - rewrite (vl_pc _ _ _ _ _ _ HL x jj Hj); [eauto|]. intros i Hi ->. apply Hnp, elem_pins. eauto.
  Qed.
  Lemma dom_dif s0 : s0 ∈ ord → pre "dif_out" s0 ∈ dom g.
  Proof. intros Hs. apply elem_of_dom. rewrite (vl_dif _ _ _ _ _ _ HL s0 Hs). eauto. Qed.

  Theorem sv_closed : closed g.
  Proof.
    intros k j f Hk Hf.
    destruct (vclassify k j Hk) as [Hs ->|x i Hx -> ->|s0 x i Hs0 Hx -> ->|s0 Hs0 -> ->|i s0 jj Hi Hj -> ->|x jj Hx Hnp -> ->|o Ho -> ->].
    - simpl in Hf. set_solver.
    - destruct (orec_fi x i f Hx Hf) as [[Ho ->]|[_ (y & Hy & ->)]]; [by apply dom_ord|].
      apply dom_orig. eapply (cb_closed c Hc); eauto.
    - destruct (invrec_fi s0 x i f Hx Hf) as [[(_ & _ & Hfo)|[]]|[_ (y & Hy & ->)]]; [by apply dom_ord|].
      apply dom_inv; [done|]. eapply (cb_closed c Hc); eauto.
    - simpl in Hf. apply elem_of_union in Hf as [->%elem_of_singleton| ->%elem_of_singleton]; [by apply dom_orig|by apply dom_inv].
    - destruct (pin_lookup i (lookup_lt_Some _ _ _ Hi)) as (j' & Hj' & Ht & Hfi). rewrite Hj in Hj'. injection Hj' as <-.
      destruct (copy_rec_input "pc" jj Ht Hfi) as [_ H2]. cbn [upd_fi n_fi] in Hf. rewrite H2 in Hf.
      assert (f = pre "dif_out" s0) as -> by set_solver. apply dom_dif. by eapply elem_of_list_lookup_2.
    - destruct (copy_rec_gate "pc" jj (P_nonpin_nonfree x jj Hx Hnp)) as (_ & H2 & _). rewrite H2 in Hf.
      apply elem_of_map in Hf as (y & -> & Hy). apply dom_pc. eapply (pq_closed _ _ HP); eauto.
    - simpl in Hf. apply elem_of_singleton in Hf as ->. by destruct (vl_sen _ _ _ _ _ _ HL o Ho).
  Qed.

  Theorem sv_free_nodes : free_nodes g = list_to_set ord.
  Proof.
    apply set_eq. intros k. unfold free_nodes. rewrite elem_of_dom, elem_of_list_to_set. split.
    - intros [j [Hk Hfree]%map_filter_lookup_Some]. simpl in Hfree.
      destruct (vclassify k j Hk) as [Hs ->|x i Hx -> ->|s0 x i Hs0 Hx -> ->|s0 Hs0 -> ->|i s0 jj Hi Hj -> ->|x jj Hx Hnp -> ->|o Ho -> ->]; try done; exfalso.
      + unfold orec in Hfree. destruct (decide (x ∈ ord)) as [Ho|Ho].
        * pose proof (proj1 (ord_info x i Hx) Ho) as Ht.
          destruct (copy_rec_input "orig" i Ht (cb_input_fi c Hc x i Hx Ht)) as [H1 H2].
          unfold is_free in Hfree. cbn [upd_fi n_ty n_fi] in Hfree. rewrite H1, H2 in Hfree. apply bool_decide_eq_true in Hfree. set_solver.
        * assert (n_ty i ≠ Input) as Ht by (intros Ht; by apply Ho, (ord_info x i Hx)).
          destruct (copy_rec_gate "orig" i (c_gate_nonfree x i Hx Ht)) as (_ & _ & H3).
          rewrite upd_fi_empty in Hfree. congruence.
      + unfold inv_rec in Hfree. destruct (decide (x ∈ ord)) as [Ho|Ho].
        * pose proof (proj1 (ord_info x i Hx) Ho) as Ht.
          destruct (copy_rec_input (pre "inv" s0) i Ht (cb_input_fi c Hc x i Hx Ht)) as [H1 H2].
          unfold inner_fn, is_free in Hfree. destruct (decide (s0 = x)); cbn [upd_fi retype n_ty n_fi] in Hfree; rewrite ?H1, H2 in Hfree;
            apply bool_decide_eq_true in Hfree; set_solver.
        * assert (n_ty i ≠ Input) as Ht by (intros Ht; by apply Ho, (ord_info x i Hx)).
          destruct (copy_rec_gate (pre "inv" s0) i (c_gate_nonfree x i Hx Ht)) as (_ & _ & H3). congruence.
      + destruct (pin_lookup i (lookup_lt_Some _ _ _ Hi)) as (j' & Hj' & Ht & Hfi). rewrite Hj in Hj'. injection Hj' as <-.
        destruct (copy_rec_input "pc" jj Ht Hfi) as [H1 H2]. unfold is_free in Hfree. cbn [upd_fi n_ty n_fi] in Hfree.
        rewrite H1, H2 in Hfree. apply bool_decide_eq_true in Hfree. set_solver.
      + destruct (copy_rec_gate "pc" jj (P_nonpin_nonfree x jj Hx Hnp)) as (_ & _ & H3). congruence.
    - intros Hs. exists (mk_node Input false ∅). apply map_filter_lookup_Some. split; [by apply (vl_in _ _ _ _ _ _ HL)|done].
  Qed.
End svcert.


Lemma union_list_lookup_None (ms : list (gmap string nat)) k : (∀ m, m ∈ ms → m !! k = None) → (⋃ ms) !! k = None.
Proof.
  induction ms as [|m ms IH]; intros H; [done|]. simpl. apply lookup_union_None. split; [apply H; by left|].
  apply IH. intros m' Hm'. apply H. by right.
Qed.
Lemma union_list_lookup_Some (ms : list (gmap string nat)) k v :
  (∃ m, m ∈ ms ∧ m !! k = Some v) → (∀ m v', m ∈ ms → m !! k = Some v' → v' = v) → (⋃ ms) !! k = Some v.
Proof.
  induction ms as [|m ms IH]; intros (m0 & Hm0 & Hk) Hu; [by apply elem_of_nil in Hm0|]. simpl.
  destruct (m !! k) as [v'|] eqn:E.
  - rewrite (Hu m v' ltac:(by left) E) in E. by apply lookup_union_Some_l.
  - rewrite lookup_union_r by done. apply IH.
    + apply elem_of_cons in Hm0 as [->|Hm0]; [congruence|eauto].
    + intros m' v'' Hm' Hk'. eapply Hu; [by right|done].
Qed.

Section svacyclic.
  Context (c : circuit) (n : string) (ord : list string) (P : circuit) (W : nat) (g : circuit) (r rP : string → nat).
  Hypothesis Hc : comb c.
  Hypothesis Hn : n ∈ dom c.
  Hypothesis Hnd : NoDup ord.
  Hypothesis Hin : inputs c = list_to_set ord.
  Hypothesis HP : pc_cert P (length ord).
  Hypothesis HL : sv_lookups c n ord P W g.
  Hypothesis Hr : ∀ x i f, c !! x = Some i → f ∈ n_fi i → r f < r x.
  Hypothesis HrP : ∀ x i f, P !! x = Some i → f ∈ n_fi i → rP f < rP x.

  Let cr := crank c r.
  Let B := size c.
  Let crP := crank P rP.
  Let BP := size P.
  Definition cmap (p : string) : gmap string nat := kmap (pre p) (map_imap (λ x _, Some (S (cr x))) c).
  Definition vrk_orig : gmap string nat := cmap "orig".
  Definition vrk_inv : gmap string nat := ⋃ ((λ s0, cmap (pre "inv" s0)) <$> ord).
  Definition vrk_pc : gmap string nat := kmap (pre "pc") (map_imap (λ x _, Some (B + 2 + crP x)) P).
  Definition difset : gset string := set_map (pre "dif_out") (list_to_set ord : gset string).
  Definition senset : gset string := list_to_set ((λ o, "sen_out_" ++ pretty o) <$> seq 0 W).
  Definition vrank (k : string) : nat :=
    if decide (k ∈ ord) then 0 else
    match vrk_orig !! k with Some v => v | None =>
    match vrk_inv !! k with Some v => v | None =>
    match vrk_pc !! k with Some v => v | None =>
    if decide (k ∈ difset) then B + 1 else if decide (k ∈ senset) then B + 2 + BP else 0 end end end.

  Lemma cmap_hit p x : x ∈ dom c → cmap p !! pre p x = Some (S (cr x)).
  Proof. intros [i Hi]%elem_of_dom. unfold cmap. rewrite lookup_kmap by apply _. by rewrite map_lookup_imap, Hi. Qed.
  Lemma cmap_Some p k v : cmap p !! k = Some v → ∃ x, x ∈ dom c ∧ k = pre p x ∧ v = S (cr x).
  Proof.
    unfold cmap. intros (x & -> & Hx)%lookup_kmap_Some; [|apply _]. rewrite map_lookup_imap in Hx.
    destruct (c !! x) as [i|] eqn:E; [|done]. simpl in Hx. injection Hx as <-. exists x. split; [apply elem_of_dom; eauto|done].
  Qed.
  Lemma cmap_miss p k : (∀ x, k ≠ pre p x) → cmap p !! k = None.
  Proof. intros H. destruct (cmap p !! k) as [v|] eqn:E; [|done]. apply cmap_Some in E as (x & _ & -> & _). by destruct (H x). Qed.
  Lemma inv_miss k : (∀ s0 x, k ≠ pre (pre "inv" s0) x) → vrk_inv !! k = None.
  Proof.
    intros H. apply union_list_lookup_None. intros m (s0 & -> & _)%elem_of_list_fmap. apply cmap_miss. intros x. apply H.
  Qed.
  Lemma pc_miss k : (∀ x, k ≠ pre "pc" x) → vrk_pc !! k = None.
  Proof.
    intros H. unfold vrk_pc. apply lookup_kmap_None; [apply _|]. intros x ->. by destruct (H x).
  Qed.
  Lemma not_ord_orig x : x ∈ dom c → pre "orig" x ∉ ord.
  Proof. intros Hx Hs. destruct (vl_fresh _ _ _ _ _ _ HL _ Hs) as (F & _). by apply (F x Hx). Qed.
  Lemma not_ord_inv s0 x : s0 ∈ ord → x ∈ dom c → pre (pre "inv" s0) x ∉ ord.
  Proof. intros Hs0 Hx Hs. destruct (vl_fresh _ _ _ _ _ _ HL _ Hs) as (_ & _ & F & _). by apply (F s0 x Hs0 Hx). Qed.
  Lemma not_ord_pc x : x ∈ dom P → pre "pc" x ∉ ord.
  Proof. intros Hx Hs. destruct (vl_fresh _ _ _ _ _ _ HL _ Hs) as (_ & F & _). by apply (F x Hx). Qed.
  Lemma not_ord_dif s0 : s0 ∈ ord → pre "dif_out" s0 ∉ ord.
  Proof. intros Hs0 Hs. destruct (vl_fresh _ _ _ _ _ _ HL _ Hs) as (_ & _ & _ & F & _). by apply (F s0 Hs0). Qed.
  Lemma not_ord_sen o : o < W → "sen_out_" ++ pretty o ∉ ord.
  Proof. intros Ho Hs. destruct (vl_fresh _ _ _ _ _ _ HL _ Hs) as (_ & _ & _ & _ & F). by apply (F o Ho). Qed.

  Lemma vrank_ord s : s ∈ ord → vrank s = 0.
  Proof. intros Hs. unfold vrank. by rewrite decide_True. Qed.
  Lemma vrank_orig x : x ∈ dom c → vrank (pre "orig" x) = S (cr x).
  Proof. intros Hx. unfold vrank. rewrite decide_False by (by apply not_ord_orig). unfold vrk_orig. by rewrite (cmap_hit "orig" x Hx). Qed.
  Lemma vrank_inv s0 x : s0 ∈ ord → x ∈ dom c → vrank (pre (pre "inv" s0) x) = S (cr x).
  Proof.
    intros Hs0 Hx. unfold vrank. rewrite decide_False by (by apply not_ord_inv).
    unfold vrk_orig. rewrite cmap_miss by (intros y; unfold pre; intros [=]).
    assert (vrk_inv !! pre (pre "inv" s0) x = Some (S (cr x))) as ->; [|done].
    apply union_list_lookup_Some.
    - exists (cmap (pre "inv" s0)). split; [apply elem_of_list_fmap; eauto|by apply cmap_hit].
    - intros m v' (s0' & -> & Hs0')%elem_of_list_fmap (y & Hy & E & ->)%cmap_Some.
      destruct (vl_uniq _ _ _ _ _ _ HL s0 s0' x y Hs0 Hs0' Hx Hy E) as [_ ->]. done.
  Qed.
  Lemma vrank_pc x : x ∈ dom P → vrank (pre "pc" x) = B + 2 + crP x.
  Proof.
    intros Hx. unfold vrank. rewrite decide_False by (by apply not_ord_pc).
    unfold vrk_orig. rewrite cmap_miss by (intros y; unfold pre; intros [=]).
    rewrite inv_miss by (intros s0 y; unfold pre; intros [=]).
    apply elem_of_dom in Hx as [j Hj]. unfold vrk_pc. rewrite lookup_kmap by apply _. by rewrite map_lookup_imap, Hj.
  Qed.
  Lemma vrank_dif s0 : s0 ∈ ord → vrank (pre "dif_out" s0) = B + 1.
  Proof.
    intros Hs0. unfold vrank. rewrite decide_False by (by apply not_ord_dif).
    unfold vrk_orig. rewrite cmap_miss by (intros y; unfold pre; intros [=]).
    rewrite inv_miss by (intros s y; unfold pre; intros [=]). rewrite pc_miss by (intros y; unfold pre; intros [=]).
    rewrite decide_True; [done|]. unfold difset. apply elem_of_map. exists s0. split; [done|by apply elem_of_list_to_set].
  Qed.
  Lemma vrank_sen o : o < W → vrank ("sen_out_" ++ pretty o) = B + 2 + BP.
  Proof.
    intros Ho. unfold vrank. rewrite decide_False by (by apply not_ord_sen).
    unfold vrk_orig. rewrite cmap_miss by (intros y; unfold pre; intros [=]).
    rewrite inv_miss by (intros s y; unfold pre; intros [=]). rewrite pc_miss by (intros y; unfold pre; intros [=]).
    rewrite decide_False by (unfold difset; intros (s & E & _)%elem_of_map; unfold pre in E; simplify_eq/=).
    rewrite decide_True; [done|]. unfold senset. apply elem_of_list_to_set, elem_of_list_fmap. exists o. split; [done|apply elem_of_seq; lia].
  Qed.
  Lemma vcr_bound x : x ∈ dom c → cr x < B.
  Proof. apply crank_bound. Qed.
  Lemma vcrP_bound x : x ∈ dom P → crP x < BP.
  Proof. apply crank_bound. Qed.

  (* every node other than the sen_out buffers ranks below them *)
  Lemma vrank_below k j : g !! k = Some j → (∀ o : nat, k ≠ "sen_out_" ++ pretty o) → vrank k < B + 2 + BP.
  Proof.
    intros Hk Hns.
    destruct (vclassify c n ord P W g HL k j Hk) as [Hs ->|x i Hx -> ->|s0 x i Hs0 Hx -> ->|s0 Hs0 -> ->|i s0 jj Hi Hj -> ->|x jj Hx Hnp -> ->|o Ho -> ->].
    - rewrite (vrank_ord k Hs). lia.
    - assert (x ∈ dom c) as Hd by (apply elem_of_dom; eauto). rewrite (vrank_orig x Hd). pose proof (vcr_bound x Hd). lia.
    - assert (x ∈ dom c) as Hd by (apply elem_of_dom; eauto). rewrite (vrank_inv s0 x Hs0 Hd). pose proof (vcr_bound x Hd). lia.
    - rewrite (vrank_dif s0 Hs0). lia.
    - assert (pin i ∈ dom P) as Hd by (apply elem_of_dom; eauto). rewrite (vrank_pc _ Hd). pose proof (vcrP_bound _ Hd). lia.
    - assert (x ∈ dom P) as Hd by (apply elem_of_dom; eauto). rewrite (vrank_pc _ Hd). pose proof (vcrP_bound _ Hd). lia.
    - by destruct (Hns o).
  Qed.

  Theorem sv_acyclic : acyclic g.
  Proof.
    exists vrank. intros k j f Hk Hf.
    pose proof (cb_closed c Hc) as Hcl.
    destruct (vclassify c n ord P W g HL k j Hk) as [Hs ->|x i Hx -> ->|s0 x i Hs0 Hx -> ->|s0 Hs0 -> ->|i s0 jj Hi Hj -> ->|x jj Hx Hnp -> ->|o Ho -> ->].
    - simpl in Hf. set_solver.
    - assert (x ∈ dom c) as Hd by (apply elem_of_dom; eauto). rewrite (vrank_orig x Hd).
      destruct (orec_fi c n ord P W g Hc Hn Hnd Hin HP HL x i f Hx Hf) as [[Ho ->]|[_ (y & Hy & ->)]].
      + rewrite (vrank_ord x Ho). lia.
      + rewrite vrank_orig by (eapply Hcl; eauto). pose proof (crank_mono c r Hcl Hr x i y Hx Hy). fold cr in H. lia.
    - assert (x ∈ dom c) as Hd by (apply elem_of_dom; eauto). rewrite (vrank_inv s0 x Hs0 Hd).
      destruct (invrec_fi c n ord P W g Hc Hn Hnd Hin HP HL s0 x i f Hx Hf) as [[(_ & _ & Hfo)|[]]|[_ (y & Hy & ->)]].
      + rewrite (vrank_ord f Hfo). lia.
      + rewrite vrank_inv by (try done; eapply Hcl; eauto). pose proof (crank_mono c r Hcl Hr x i y Hx Hy). fold cr in H. lia.
    - rewrite (vrank_dif s0 Hs0). pose proof (vcr_bound n Hn). simpl in Hf.
      apply elem_of_union in Hf as [->%elem_of_singleton| ->%elem_of_singleton]; [rewrite (vrank_orig n Hn)|rewrite (vrank_inv s0 n Hs0 Hn)]; lia.
    - assert (pin i ∈ dom P) as Hd by (apply elem_of_dom; eauto). rewrite (vrank_pc _ Hd).
      destruct (pq_inputs _ _ HP i (lookup_lt_Some _ _ _ Hi)) as (j' & Hj' & Ht & Hfi). change (P !! pin i = Some j') in Hj'. rewrite Hj in Hj'. injection Hj' as <-.
      destruct (copy_rec_input "pc" jj Ht Hfi) as [_ H2]. cbn [upd_fi n_fi] in Hf. rewrite H2 in Hf.
      assert (f = pre "dif_out" s0) as -> by set_solver. rewrite vrank_dif by (by eapply elem_of_list_lookup_2). lia.
    - assert (x ∈ dom P) as Hd by (apply elem_of_dom; eauto). rewrite (vrank_pc _ Hd).
      destruct (copy_rec_gate "pc" jj (P_nonpin_nonfree ord P HP x jj Hx Hnp)) as (_ & H2 & _). rewrite H2 in Hf.
      apply elem_of_map in Hf as (y & -> & Hy). rewrite vrank_pc by (eapply (pq_closed _ _ HP); eauto).
      pose proof (crank_mono P rP (pq_closed _ _ HP) HrP x jj y Hx Hy). fold crP in H. lia.
    - rewrite (vrank_sen o Ho). simpl in Hf. apply elem_of_singleton in Hf as ->.
      destruct (vl_sen _ _ _ _ _ _ HL o Ho) as [_ [j' Hj']%elem_of_dom].
      apply (vrank_below _ j' Hj'). intros o' E. simplify_eq/=.
  Qed.
End svacyclic.


(* the certificate of the model's sensitivity circuit, for all inputs, given that the popcount circuit is combinational *)
Theorem sv_model_cert C n ord PC T W :
  comb (c_g C) → pc_cert (c_g PC) (length ord) →
  sensitivity_transform C n ord PC = Ok T → clog2 (length ord + 1) = Ok W →
  closed (c_g T) ∧ acyclic (c_g T) ∧ free_nodes (c_g T) = list_to_set ord.
Proof.
  intros Hc HP HT HW.
  destruct (sv_transform_inv _ _ _ _ _ HT) as (Hbb & Hn & Hperm & S1 & g2 & S3 & S4 & W' & g5 & H1 & H2 & H3 & H4 & HW' & H5 & ->).
  rewrite HW in HW'. injection HW' as <-.
  set (c := c_g C) in *. set (K := tfi c [n] ∪ {[n]}) in *.
  pose proof (cb_closed _ Hc) as Hcl.
  assert (HK : ∀ y i f, c !! y = Some i → y ∈ K → f ∈ n_fi i → f ∈ K).
  { assert (K = list_to_set [n] ∪ tfi c [n]) as -> by (unfold K; apply set_eq; set_solver). by apply cone_fanin_closed. }
  assert (Hsub : sub_of (induced c K) c) by (by apply induced_sub_of).
  assert (HcS : comb (induced c K)) by (by eapply sub_comb).
  assert (Hnd : NoDup ord) by (rewrite Hperm; apply NoDup_elements).
  assert (Hin : inputs (induced c K) = list_to_set ord).
  { rewrite induced_inputs. apply set_eq. intros y. rewrite elem_of_list_to_set, Hperm, elem_of_elements.
    unfold cone_startpoints. rewrite (comb_startpoints c Hc). unfold K. clear; set_solver. }
  assert (HnS : n ∈ dom (induced c K)) by (apply induced_dom; split; [unfold K; clear; set_solver|done]).
  pose proof (sv_model_lookups (sv_sub c n) n ord PC S1 g2 S3 S4 W g5 HcS Hnd Hin (pq_inputs _ _ HP) H1 H2 H3 H4 H5) as HL.
  change (c_g (sv_sub c n)) with (induced c K) in HL. change (c_g (with_g S4 g5)) with g5.
  destruct (cb_acyclic _ HcS) as [r Hr]. destruct (pq_acyclic _ _ HP) as [rP HrP].
  split; [by eapply sv_closed|]. split; [by eapply sv_acyclic|by eapply sv_free_nodes].
Qed.

(* props.sensitivity on the model's sensitivity circuit, all inputs: the search returns the sensitivity *)
Theorem sensitivity_model_full (solve : list (string * bool) → bool) C n ord PC T W w :
  comb (c_g C) → pc_cert (c_g PC) (length ord) → popcount_correct (c_g PC) (length ord) W →
  sensitivity_transform C n ord PC = Ok T →
  clog2 (length ord) = Ok w → clog2 (length ord + 1) = Ok W →
  (∀ k, k ≤ length ord → let asm := asm_of (int_to_bin_le k w) in
     solve asm = true ↔ ∃ v, consistent (c_g T) v ∧ Forall (λ p : string * bool, v p.1 = p.2) asm) →
  ∃ k, search solve w (length ord) = Ok k ∧ is_sensitivity (c_g C) n ord k.
Proof.
  intros Hc HP Hpop HT Hw HW Hsolve.
  destruct (sv_model_cert C n ord PC T W Hc HP HT HW) as (HclT & HacT & HfT).
  by eapply (sensitivity_model_spec solve C n ord PC T W w Hc (pq_inputs _ _ HP) Hpop HT HclT HacT HfT Hw HW).
Qed.
