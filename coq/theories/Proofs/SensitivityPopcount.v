(* C11: the popcount hypotheses of the sensitivity-circuit theorems discharged by C13 (logic.popcount, Proofs/LogicPopAll.v) *)
From Coq Require Import QArith.
From stdpp Require Import strings gmap sets fin_sets pretty.
From CG Require Import Proofs.SensitivityProofs Proofs.SensitivityModel.
From CG Require Model.Logic Proofs.LogicOracle Proofs.LogicPopAll Proofs.LogicCert Proofs.LogicCertPop.
Open Scope string_scope.
Open Scope nat_scope.

Lemma foldr_bits_dec (f : nat → bool) (l : list nat) :
  foldr (λ i acc, (N.b2n (f i) + 2 * acc)%N) 0%N l = N.of_nat (dec (f <$> l)).
Proof.
  induction l as [|i l IH]; [done|]. cbn [foldr fmap list_fmap]. rewrite IH, dec_cons.
  rewrite Nat2N.inj_add, Nat2N.inj_mul. f_equal. by destruct (f i).
Qed.
Lemma take_fmap_seq {A} (f : nat → A) W k : W ≤ k → take W (f <$> seq 0 k) = f <$> seq 0 W.
Proof.
  intros H. rewrite <- fmap_take. f_equal. replace k with (W + (k - W)) by lia.
  rewrite seq_app. apply take_app_alt. by rewrite seq_length.
Qed.

(* logic.popcount(m): in_0 .. in_{m-1} are primary inputs without fan-in *)
Lemma popcount_pc_inputs m PC : Logic.popcount m = Ok PC → pc_inputs (c_g PC) m.
Proof.
  unfold Logic.popcount, rmap. destruct (Logic.popcount_l m) as [l| | |] eqn:El; try done. cbn [rbind]. intros [= <-].
  apply LogicPopAll.popcount_l_shape in El as (ds & o & Hsem & Hl). cbn [c_g Logic.mkC].
  intros i Hi. exists (mk_node Input false (list_to_set [])). split; [|done].
  assert (Hnd : NoDup l.*1).
  { destruct Hl as [-> |[-> _]]; [|apply LogicPopAll.body_NoDup]. rewrite fmap_cons. apply NoDup_cons.
    split; [|apply LogicPopAll.body_NoDup]. intros H%LogicPopAll.body_hd. done. }
  apply elem_of_list_to_map_1; [exact Hnd|].
  assert (Hbody : ∀ x, x ∈ LogicPopAll.pc_body m ds o → x ∈ l) by (intros x Hx; destruct Hl as [-> |[-> _]]; [by right|done]).
  apply Hbody. unfold LogicPopAll.pc_body. rewrite !elem_of_app. left.
  unfold LogicPopAll.pc_ins. apply elem_of_list_fmap. exists i. split; [done|]. apply elem_of_seq. lia.
Qed.

(* logic.popcount(m) counts: C13's theorem in the form the sensitivity circuit uses (the low W output bits) *)
Lemma popcount_pc_correct m PC W : Logic.popcount m = Ok PC → W ≤ size (outputs (c_g PC)) →
  SensitivityProofs.popcount_correct (c_g PC) m W.
Proof.
  intros HPC HW u Hu.
  assert (Hm : 1 ≤ m). { destruct m; [discriminate HPC|lia]. }
  pose proof (LogicPopAll.popcount_correct m PC u Hm HPC Hu) as H.
  set (k := size (outputs (c_g PC))) in *.
  unfold LogicOracle.bitsN, LogicOracle.onesN in H.
  rewrite (foldr_bits_dec (λ i, u ("out_" ++ pretty i))) in H. apply Nat2N.inj in H.
  set (bits := (λ i, u ("out_" ++ pretty i)) <$> seq 0 k) in *.
  assert (Hlen : length bits = k) by (unfold bits; by rewrite fmap_length, seq_length).
  pose proof (take_bits_dec bits) as Hb. rewrite Hlen in Hb.
  rewrite <- H. rewrite <- (take_take_bits W k (dec bits) HW), Hb.
  unfold bits. symmetry. by apply take_fmap_seq.
Qed.

(* the sensitivity circuit built with logic.popcount: no popcount assumption left *)
Theorem sensitivity_transform_popcount_spec C n ord PC T W :
  comb (c_g C) → Logic.popcount (length ord) = Ok PC → W ≤ size (outputs (c_g PC)) →
  sensitivity_transform C n ord PC = Ok T → clog2 (length ord + 1) = Ok W →
  ∀ v, consistent (c_g T) v →
    (∀ s, s ∈ ord → v ("dif_out_" ++ s) = true ↔ flips (c_g C) n s v) ∧
    sen_bits v W = take_bits W (count (c_g C) n ord v).
Proof.
  intros Hc HPC HWk HT HW v Hv.
  destruct (sensitivity_transform_model_spec C n ord PC T W Hc (popcount_pc_inputs _ _ HPC) HT HW v Hv) as [H1 H2].
  split; [done|]. apply H2. by apply popcount_pc_correct.
Qed.


(* ---- logic.popcount(m) has at least clog2(m+1) output bits: every adder of the tree is wide enough ---- *)
Definition cap (ps : list (list string)) : nat := foldr (λ v acc, (2 ^ length v - 1) + acc) 0 ps.
Lemma cap_app ps qs : cap (ps ++ qs) = cap ps + cap qs.
Proof. induction ps as [|v ps IH]; simpl; [done|]. rewrite IH. lia. Qed.
Lemma pow2_pos k : 1 ≤ 2 ^ k.
Proof. induction k; simpl; lia. Qed.
Lemma popcount_loop_width fuel : ∀ i ps acc o acc', Logic.popcount_loop fuel i ps acc = Ok (o, acc') → cap ps ≤ 2 ^ length o - 1.
Proof.
  induction fuel as [|f IH]; intros i ps acc o acc' H; [done|].
  cbn [Logic.popcount_loop] in H. destruct ps as [|ns [|ms rest]]; [done| |].
  - injection H as <- <-. simpl. lia.
  - apply IH in H. rewrite cap_app in H. cbn [cap foldr] in H |- *. rewrite fmap_length, seq_length in H.
    fold (cap rest). set (a := length ns) in *. set (b := length ms) in *.
    assert (2 ^ a - 1 + (2 ^ b - 1) ≤ 2 ^ S (a `max` b) - 1); [|lia].
    pose proof (pow2_pos a). pose proof (pow2_pos b).
    assert (2 ^ a ≤ 2 ^ (a `max` b)) by (apply Nat.pow_le_mono_r; lia).
    assert (2 ^ b ≤ 2 ^ (a `max` b)) by (apply Nat.pow_le_mono_r; lia).
    rewrite Nat.pow_succ_r'. lia.
Qed.
Lemma cap_singletons (l : list string) : cap ((λ x, [x]) <$> l) = length l.
Proof. induction l as [|x l IH]; [done|]. rewrite fmap_cons. cbn [cap foldr length]. fold (cap ((λ x, [x]) <$> l)). rewrite IH. simpl. lia. Qed.

Lemma popcount_outputs_width m PC W : Logic.popcount m = Ok PC → clog2 (m + 1) = Ok W → W ≤ size (outputs (c_g PC)).
Proof.
  intros HPC HW. unfold Logic.popcount, rmap, Logic.popcount_l in HPC.
  destruct (Logic.popcount_loop _ _ _ _) as [[o acc]| | |] eqn:E; try done.
  pose proof (popcount_loop_width _ _ _ _ _ _ E) as Hcap.
  apply LogicPopAll.loop_inv in E as (ds & -> & _).
  assert (Hm : m ≤ 2 ^ length o - 1).
  { change (λ i : nat, [Logic.bitname "in_" i]) with ((λ x : string, [x]) ∘ Logic.bitname "in_") in Hcap.
    by rewrite list_fmap_compose, cap_singletons, fmap_length, seq_length in Hcap. }
  (* the number of outputs is length o *)
  set (body := LogicPopAll.pc_body m ds o) in *.
  assert (Hl : ∃ l, c_g PC = list_to_map l ∧ (l = Logic.nd "tie0" C0 false [] :: body ∨ l = body)).
  { cbn [rbind] in HPC.
    change (Ok (Logic.mkC "popcount" ((if existsb (λ ni : string * ninfo, bool_decide ("tie0" ∈ n_fi ni.2)) body
               then [Logic.nd "tie0" C0 false []] else []) ++ body)) = Ok PC) in HPC.
    injection HPC as <-. cbn [c_g Logic.mkC]. eexists. split; [done|]. destruct (existsb _ _); [by left|by right]. }
  destruct Hl as (l & -> & Hl).
  assert (Hnd : NoDup l.*1).
  { destruct Hl as [-> | ->]; [|apply LogicPopAll.body_NoDup]. rewrite fmap_cons. apply NoDup_cons.
    split; [|apply LogicPopAll.body_NoDup]. intros H%LogicPopAll.body_hd. done. }
  assert (Hsub : list_to_set (LogicOracle.names "out_" (length o)) ⊆ outputs (list_to_map l : circuit)).
  { intros n (i & -> & Hi%elem_of_seq)%elem_of_list_to_set%elem_of_list_fmap.
    destruct (lookup_lt_is_Some_2 o i) as [y Hy]; [lia|].
    apply elem_of_outputs. exists (mk_node Buf true (list_to_set [y])). split; [|done].
    apply elem_of_list_to_map_1; [exact Hnd|].
    assert ((Logic.bitname "out_" i, mk_node Buf true (list_to_set [y])) ∈ body) as Hb.
    { unfold body, LogicPopAll.pc_body. rewrite !elem_of_app. right; right. apply LogicPopAll.elem_of_outs. by exists i, y. }
    destruct Hl as [-> | ->]; [by right|done]. }
  apply subseteq_size in Hsub. rewrite size_list_to_set in Hsub by apply LogicPopAll.names_NoDup.
  unfold LogicOracle.names in Hsub. rewrite fmap_length, seq_length in Hsub.
  destruct (clog2_spec _ _ HW) as (_ & _ & [->|Hlow]); [lia|].
  assert (W - 1 < length o); [|lia]. apply (Nat.pow_lt_mono_r_iff 2); [lia|].
  pose proof (pow2_pos (length o)). lia.
Qed.

(* the sensitivity circuit built with logic.popcount: no assumption about the popcount circuit left *)
Theorem sensitivity_transform_popcount_full C n ord PC T W :
  comb (c_g C) → Logic.popcount (length ord) = Ok PC →
  sensitivity_transform C n ord PC = Ok T → clog2 (length ord + 1) = Ok W →
  ∀ v, consistent (c_g T) v →
    (∀ s, s ∈ ord → v ("dif_out_" ++ s) = true ↔ flips (c_g C) n s v) ∧
    sen_bits v W = take_bits W (count (c_g C) n ord v).
Proof.
  intros Hc HPC HT HW. eapply sensitivity_transform_popcount_spec; eauto. by eapply popcount_outputs_width.
Qed.
Lemma popcount_discharge m PC W : Logic.popcount m = Ok PC → clog2 (m + 1) = Ok W →
  pc_inputs (c_g PC) m ∧ SensitivityProofs.popcount_correct (c_g PC) m W.
Proof.
  intros H HW. split; [by apply popcount_pc_inputs|]. apply popcount_pc_correct; [done|]. by eapply popcount_outputs_width.
Qed.

(* logic.popcount(m) is combinational (C13: popcount_combinational): the certificate the sensitivity circuit needs of it *)
Lemma popcount_pc_cert m PC : Logic.popcount m = Ok PC → pc_cert (c_g PC) m.
Proof.
  intros HPC. assert (Hm : 1 ≤ m). { destruct m; [discriminate HPC|lia]. }
  destruct (LogicCertPop.popcount_combinational m PC Hm HPC) as (Hcl & Hac & Hfree).
  split; [done|done|exact Hfree|by apply popcount_pc_inputs].
Qed.
(* props.sensitivity over the model's sensitivity circuit built with logic.popcount: full, only the solver is assumed *)
Theorem sensitivity_popcount_full (solve : list (string * bool) → bool) C n ord PC T W w :
  comb (c_g C) → Logic.popcount (length ord) = Ok PC →
  sensitivity_transform C n ord PC = Ok T →
  clog2 (length ord) = Ok w → clog2 (length ord + 1) = Ok W →
  (∀ k, k ≤ length ord → let asm := asm_of (int_to_bin_le k w) in
     solve asm = true ↔ ∃ v, consistent (c_g T) v ∧ Forall (λ p : string * bool, v p.1 = p.2) asm) →
  ∃ k, search solve w (length ord) = Ok k ∧ is_sensitivity (c_g C) n ord k.
Proof.
  intros Hc HPC HT Hw HW Hsolve. destruct (popcount_discharge _ _ _ HPC HW) as [_ Hpop].
  by eapply (sensitivity_model_full solve C n ord PC T W w Hc (popcount_pc_cert _ _ HPC) Hpop HT Hw HW).
Qed.
