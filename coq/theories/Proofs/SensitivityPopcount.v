(* C11: the popcount hypotheses of the sensitivity-circuit theorems discharged by C13 (logic.popcount, Proofs/LogicPopAll.v) *)
From Coq Require Import QArith.
From stdpp Require Import strings gmap sets fin_sets pretty.
From CG Require Import Proofs.SensitivityProofs Proofs.SensitivityModel.
From CG Require Model.Logic Proofs.LogicOracle Proofs.LogicPopAll.
Open Scope string_scope.
Open Scope nat_scope.

Lemma foldr_bits_dec (f : nat → bool) (l : list nat) :
  foldr (λ i acc, (N.b2n (f i) + 2 * acc)%N) 0%N l = N.of_nat (dec (f <$> l)).
Proof.
  induction l as [|i l IH]; [done|]. cbn [foldr fmap list_fmap]. rewrite IH, dec_cons.
  rewrite Nat2N.inj_add, Nat2N.inj_mul. f_equal. by destruct (f i).
Qed.
Lemma take_fmap_seq {A} (f : nat → A) W k : W ≤ k → take W (f <$> seq 0 k) = f <$> seq 0 W.
Proof.
  intros H. rewrite <- fmap_take. f_equal. replace k with (W + (k - W)) by lia.
  rewrite seq_app. apply take_app_alt. by rewrite seq_length.
Qed.

(* logic.popcount(m): in_0 .. in_{m-1} are primary inputs without fan-in *)
Lemma popcount_pc_inputs m PC : Logic.popcount m = Ok PC → pc_inputs (c_g PC) m.
Proof.
  unfold Logic.popcount, rmap. destruct (Logic.popcount_l m) as [l| | |] eqn:El; try done. cbn [rbind]. intros [= <-].
  apply LogicPopAll.popcount_l_shape in El as (ds & o & Hsem & Hl). cbn [c_g Logic.mkC].
  intros i Hi. exists (mk_node Input false (list_to_set [])). split; [|done].
  assert (Hnd : NoDup l.*1).
  { destruct Hl as [-> |[-> _]]; [|apply LogicPopAll.body_NoDup]. rewrite fmap_cons. apply NoDup_cons.
    split; [|apply LogicPopAll.body_NoDup]. intros H%LogicPopAll.body_hd. done. }
  apply elem_of_list_to_map_1; [exact Hnd|].
  assert (Hbody : ∀ x, x ∈ LogicPopAll.pc_body m ds o → x ∈ l) by (intros x Hx; destruct Hl as [-> |[-> _]]; [by right|done]).
  apply Hbody. unfold LogicPopAll.pc_body. rewrite !elem_of_app. left.
  unfold LogicPopAll.pc_ins. apply elem_of_list_fmap. exists i. split; [done|]. apply elem_of_seq. lia.
Qed.

(* logic.popcount(m) counts: C13's theorem in the form the sensitivity circuit uses (the low W output bits) *)
Lemma popcount_pc_correct m PC W : Logic.popcount m = Ok PC → W ≤ size (outputs (c_g PC)) →
  SensitivityProofs.popcount_correct (c_g PC) m W.
Proof.
  intros HPC HW u Hu.
  assert (Hm : 1 ≤ m). { destruct m; [discriminate HPC|lia]. }
  pose proof (LogicPopAll.popcount_correct m PC u Hm HPC Hu) as H.
  set (k := size (outputs (c_g PC))) in *.
  unfold LogicOracle.bitsN, LogicOracle.onesN in H.
  rewrite (foldr_bits_dec (λ i, u ("out_" ++ pretty i))) in H. apply Nat2N.inj in H.
  set (bits := (λ i, u ("out_" ++ pretty i)) <$> seq 0 k) in *.
  assert (Hlen : length bits = k) by (unfold bits; by rewrite fmap_length, seq_length).
  pose proof (take_bits_dec bits) as Hb. rewrite Hlen in Hb.
  rewrite <- H. rewrite <- (take_take_bits W k (dec bits) HW), Hb.
  unfold bits. symmetry. by apply take_fmap_seq.
Qed.

(* the sensitivity circuit built with logic.popcount: no popcount assumption left *)
Theorem sensitivity_transform_popcount_spec C n ord PC T W :
  comb (c_g C) → Logic.popcount (length ord) = Ok PC → W ≤ size (outputs (c_g PC)) →
  sensitivity_transform C n ord PC = Ok T → clog2 (length ord + 1) = Ok W →
  ∀ v, consistent (c_g T) v →
    (∀ s, s ∈ ord → v ("dif_out_" ++ s) = true ↔ flips (c_g C) n s v) ∧
    sen_bits v W = take_bits W (count (c_g C) n ord v).
Proof.
  intros Hc HPC HWk HT HW v Hv.
  destruct (sensitivity_transform_model_spec C n ord PC T W Hc (popcount_pc_inputs _ _ HPC) HT HW v Hv) as [H1 H2].
  split; [done|]. apply H2. by apply popcount_pc_correct.
Qed.
