(* C11 proofs. *)
From Coq Require Import QArith.
From stdpp Require Import strings gmap sets fin_sets.
From CG Require Export Model.Sensitivity.
Open Scope string_scope.
Open Scope nat_scope.

(* ================================================================================================ *)
(* 1. utils.clog2 / utils.int_to_bin: the arithmetic behind the search                              *)

Lemma clog2_loop_spec fuel num a s :
  s = 2 ^ a → num ≤ s + fuel → (a = 0 ∨ 2 ^ (a - 1) < num) →
  let w := clog2_loop fuel num a s in num ≤ 2 ^ w ∧ (w = 0 ∨ 2 ^ (w - 1) < num).
Proof.
  revert a s. induction fuel as [|f IH]; intros a s Hs Hle Hlow; simpl.
  - split; [lia|done].
  - destruct (s <? num) eqn:E.
    + apply Nat.ltb_lt in E. apply IH.
      * subst s. rewrite Nat.pow_succ_r'. lia.
      * assert (1 ≤ s) by (subst s; clear; induction a; simpl; lia). lia.
      * right. replace (S a - 1) with a by lia. by subst.
    + apply Nat.ltb_ge in E. subst s. split; [lia|done].
Qed.
Lemma clog2_spec m w : clog2 m = Ok w → 1 ≤ m ∧ m ≤ 2 ^ w ∧ (w = 0 ∨ 2 ^ (w - 1) < m).
Proof.
  unfold clog2. destruct (m <? 1) eqn:E; [done|]. apply Nat.ltb_ge in E. intros [= <-].
  split; [done|]. apply (clog2_loop_spec m m 0 1); [done|lia|by left].
Qed.
Lemma clog2_ok m : 1 ≤ m → ∃ w, clog2 m = Ok w.
Proof. intros H. unfold clog2. destruct (m <? 1) eqn:E; [apply Nat.ltb_lt in E; lia|eauto]. Qed.

Lemma dec_app l k : dec (l ++ replicate k false) = dec l.
Proof. induction l as [|b l IH]; simpl; [induction k; simpl; lia|]. by rewrite IH. Qed.
Lemma odd_b2n n : (if Nat.odd n then 1 else 0) + 2 * (n / 2) = n.
Proof.
  pose proof (Nat.div_mod_eq n 2) as H. pose proof (Nat.mod_upper_bound n 2) as Hb.
  destruct (Nat.odd n) eqn:E.
  - apply Nat.odd_spec in E as [k ->]. replace (2 * k + 1) with (1 + k * 2) by lia.
    rewrite Nat.div_add by lia. simpl. lia.
  - assert (Nat.even n = true) as [k ->]%Nat.even_spec by (rewrite <- Nat.negb_odd, E; done).
    replace (2 * k) with (k * 2) by lia. rewrite Nat.div_mul by lia. lia.
Qed.
Lemma dec_cons b l : dec (b :: l) = (if b then 1 else 0) + 2 * dec l.
Proof. reflexivity. Qed.
Lemma dec_bits_le fuel n : n < fuel → dec (bits_le fuel n) = n.
Proof.
  revert n. induction fuel as [|f IH]; intros n Hn; [lia|]. cbn [bits_le].
  destruct (n <? 2) eqn:E.
  - apply Nat.ltb_lt in E. simpl. destruct n as [|[|]]; simpl; lia.
  - apply Nat.ltb_ge in E. rewrite dec_cons, IH.
    + apply odd_b2n.
    + assert (Hlt : n / 2 < n) by (apply Nat.div_lt; lia). revert Hlt. generalize (n / 2). intros; lia.
Qed.
Lemma dec_int_to_bin k w : dec (int_to_bin_le k w) = k.
Proof. unfold int_to_bin_le, bin_digits. rewrite dec_app. apply dec_bits_le. lia. Qed.
Lemma length_int_to_bin k w : w ≤ length (int_to_bin_le k w).
Proof. unfold int_to_bin_le. rewrite app_length, replicate_length. lia. Qed.

Lemma dec_lt l : dec l < 2 ^ length l.
Proof. induction l as [|b l IH]; simpl; [lia|]. destruct b; lia. Qed.
Lemma take_bits_dec l : take_bits (length l) (dec l) = l.
Proof.
  induction l as [|b l IH]; [done|]. cbn [length take_bits]. rewrite dec_cons.
  assert (Hd : ((if b then 1 else 0) + 2 * dec l) / 2 = dec l).
  { replace ((if b then 1 else 0) + 2 * dec l) with ((if b then 1 else 0) + dec l * 2) by lia.
    rewrite Nat.div_add by lia. destruct b; [rewrite (Nat.div_small 1 2) by lia|rewrite (Nat.div_small 0 2) by lia]; lia. }
  assert (Ho : Nat.odd ((if b then 1 else 0) + 2 * dec l) = b).
  { rewrite Nat.odd_add_mul_2. by destruct b. }
  rewrite Ho, Hd. by rewrite IH.
Qed.
Lemma dec_take_bits L c : dec (take_bits L c) = c mod 2 ^ L.
Proof.
  revert c. induction L as [|L IH]; intros c; cbn [take_bits].
  - change (2 ^ 0) with 1. by rewrite Nat.mod_1_r.
  - rewrite dec_cons, IH.
    assert (Hp : 2 ^ L ≠ 0) by (apply Nat.pow_nonzero; lia).
    rewrite Nat.pow_succ_r'.
    rewrite (Nat.mod_mul_r c 2 (2 ^ L)) by lia.
    pose proof (odd_b2n c) as Ho. pose proof (Nat.div_mod_eq c 2) as Hm.
    assert ((if Nat.odd c then 1 else 0) = c mod 2) by lia. lia.
Qed.
Lemma length_take_bits L c : length (take_bits L c) = L.
Proof. revert c. induction L; intros; simpl; auto. Qed.

(* the constraint "the low [length bits] bits of the count c are [bits]" *)
Definition matches (bits : list bool) (c : nat) : Prop := take_bits (length bits) c = bits.

(* the heart of the width argument: with w = clog2 m the un-truncated, w-padded digits of k pin the count down to k
   itself, except that k = 0 also admits the count m when m is a power of two (top bit unconstrained) *)
Lemma matches_enc m w k c : m ≤ 2 ^ w → k ≤ m → c ≤ m →
  matches (int_to_bin_le k w) c → c = k ∨ (k = 0 ∧ c = m).
Proof.
  intros Hm Hk Hc Hma. unfold matches in Hma.
  assert (Hd : c mod 2 ^ length (int_to_bin_le k w) = k).
  { rewrite <- dec_take_bits, Hma. apply dec_int_to_bin. }
  set (L := length (int_to_bin_le k w)) in *.
  assert (HL : w ≤ L) by apply length_int_to_bin.
  assert (2 ^ w ≤ 2 ^ L) by (apply Nat.pow_le_mono_r; lia).
  destruct (decide (c < 2 ^ L)) as [Hlt|Hge].
  - left. rewrite Nat.mod_small in Hd by done. done.
  - right. assert (c = 2 ^ L) as Hc2 by lia. rewrite Hc2 in Hd.
    rewrite Nat.mod_same in Hd by (apply Nat.pow_nonzero; lia). split; [done|lia].
Qed.
Lemma matches_self k w : matches (int_to_bin_le k w) k.
Proof. unfold matches. rewrite <- (dec_int_to_bin k w) at 2. apply take_bits_dec. Qed.

Lemma len_bits_le fuel n : n < fuel →
  1 ≤ length (bits_le fuel n) ∧ (n = 0 ∨ 2 ^ (length (bits_le fuel n) - 1) ≤ n).
Proof.
  revert n. induction fuel as [|f IH]; intros n Hn; [lia|]. cbn [bits_le].
  destruct (n <? 2) eqn:E.
  - apply Nat.ltb_lt in E. cbn [length]. split; [lia|]. destruct n as [|[|]]; [by left|right; simpl; lia|lia].
  - apply Nat.ltb_ge in E. cbn [length].
    assert (Hlt : n / 2 < n) by (apply Nat.div_lt; lia).
    assert (Hge : 1 ≤ n / 2) by (apply Nat.div_le_lower_bound; lia).
    assert (Hdm : 2 * (n / 2) ≤ n) by (apply Nat.mul_div_le; lia).
    destruct (IH (n / 2)) as [H1 H2]; [revert Hlt; generalize (n / 2); intros; lia|].
    split; [lia|]. right. destruct H2 as [H2|H2]; [lia|].
    replace (S (length (bits_le f (n / 2))) - 1) with (S (length (bits_le f (n / 2)) - 1)) by lia.
    rewrite Nat.pow_succ_r'. revert H2 Hdm. generalize (n / 2). intros; lia.
Qed.
(* the assumptions of the search never name a sen_out bit the transform does not have: the digits of k <= m padded to
   clog2(m) are at most clog2(m+1) many *)
Lemma width_ok m w W k : clog2 m = Ok w → clog2 (m + 1) = Ok W → k ≤ m → length (int_to_bin_le k w) ≤ W.
Proof.
  intros (Hm1 & Hmw & Hlow)%clog2_spec (_ & HmW & _)%clog2_spec Hk.
  assert (HW1 : 1 ≤ W). { destruct W; [simpl in HmW; lia|lia]. }
  assert (Hmono : ∀ a, 2 ^ a < 2 ^ W → a < W) by (intros a; apply Nat.pow_lt_mono_r_iff; lia).
  assert (HwW : w ≤ W).
  { destruct Hlow as [->|Hlow]; [lia|]. assert (w - 1 < W) by (apply Hmono; lia). lia. }
  unfold int_to_bin_le. rewrite app_length, replicate_length. unfold bin_digits.
  destruct (len_bits_le (S k) k) as [H1 H2]; [lia|].
  set (L := length (bits_le (S k) k)) in *.
  assert (L ≤ W).
  { destruct H2 as [->|H2]; [|assert (L - 1 < W) by (apply Hmono; lia); lia].
    subst L. simpl. lia. }
  lia.
Qed.

Lemma asm_link (name : nat → string) (v : val) bits :
  Forall (λ p : string * bool, v p.1 = p.2) (imap (λ i b, (name i, b)) bits) ↔ (λ i, v (name i)) <$> seq 0 (length bits) = bits.
Proof.
  revert name. induction bits as [|b bits IH]; intros name; [simpl; split; [done|constructor]|].
  rewrite imap_cons, Forall_cons. cbn [length seq fmap list_fmap].
  rewrite <- fmap_S_seq, <- list_fmap_compose.
  change (imap ((λ i b0, (name i, b0)) ∘ S) bits) with (imap (λ i b0, ((name ∘ S) i, b0)) bits).
  rewrite (IH (name ∘ S)). simpl. split.
  - intros [-> H]. f_equal. exact H.
  - intros [= H1 H2]. split; [done|]. exact H2.
Qed.

(* ================================================================================================ *)
(* 2. props.sensitivity: the descending search returns the maximum                                   *)
Definition sen_bits (v : val) (L : nat) : list bool := (λ i, v ("sen_out_" ++ pretty i)) <$> seq 0 L.

Section search.
  Variable T : circuit.                       (* the sensitivity circuit *)
  Variable m w : nat.                         (* number of startpoints, clog2 of it *)
  Variable cnt : val → nat.                   (* the count a consistent valuation stands for *)
  Variable solve : list (string * bool) → bool.
  (* sound and complete solver *)
  Hypothesis solve_ok : ∀ asm, solve asm = true ↔ ∃ v, consistent T v ∧ Forall (λ p : string * bool, v p.1 = p.2) asm.
  Hypothesis Hw : clog2 m = Ok w.
  Hypothesis cnt_le : ∀ v, consistent T v → cnt v ≤ m.
  (* the transform's encoding clause, for the bit positions the search constrains (see width_ok) *)
  Hypothesis enc : ∀ v k, consistent T v → k ≤ m →
    sen_bits v (length (int_to_bin_le k w)) = take_bits (length (int_to_bin_le k w)) (cnt v).
  Hypothesis nonempty : ∃ v, consistent T v.

  Lemma solve_iff k : k ≤ m → (∀ v, consistent T v → cnt v ≤ k) →
    (solve (asm_of (int_to_bin_le k w)) = true ↔ ∃ v, consistent T v ∧ cnt v = k).
  Proof.
    intros Hk Hub. destruct (clog2_spec _ _ Hw) as (_ & Hmw & _).
    rewrite solve_ok. split.
    - intros (v & Hv & Ha). exists v. split; [done|].
      unfold asm_of in Ha. apply asm_link in Ha. fold (sen_bits v (length (int_to_bin_le k w))) in Ha.
      rewrite enc in Ha by done.
      destruct (matches_enc m w k (cnt v) Hmw Hk (cnt_le v Hv) Ha) as [?|[-> ?]]; [done|].
      specialize (Hub v Hv). lia.
    - intros (v & Hv & <-). exists v. split; [done|].
      unfold asm_of. apply asm_link. fold (sen_bits v (length (int_to_bin_le (cnt v) w))).
      rewrite enc by done. apply matches_self.
  Qed.

  Lemma search_correct sen : sen ≤ m → (∀ v, consistent T v → cnt v ≤ sen) →
    ∃ k, search solve w sen = Ok k ∧ (∃ v, consistent T v ∧ cnt v = k) ∧ ∀ v, consistent T v → cnt v ≤ k.
  Proof.
    induction sen as [|sen IH]; intros Hle Hub.
    - cbn [search]. destruct (solve (asm_of (int_to_bin_le 0 w))) eqn:E.
      + exists 0. split; [done|]. split; [|done]. by apply (solve_iff 0 Hle Hub).
      + exfalso. destruct nonempty as [v Hv].
        assert (solve (asm_of (int_to_bin_le 0 w)) = true); [|congruence].
        apply (solve_iff 0 Hle Hub). exists v. split; [done|]. specialize (Hub v Hv). lia.
    - cbn [search]. destruct (solve (asm_of (int_to_bin_le (S sen) w))) eqn:E.
      + exists (S sen). split; [done|]. split; [|done]. by apply (solve_iff (S sen) Hle Hub).
      + apply IH; [lia|]. intros v Hv. pose proof (Hub v Hv) as Hc.
        destruct (decide (cnt v = S sen)) as [Heq|]; [|lia]. exfalso.
        assert (solve (asm_of (int_to_bin_le (S sen) w)) = true); [|congruence].
        apply (solve_iff (S sen) Hle Hub). eauto.
  Qed.

  Theorem search_max : ∃ k, search solve w m = Ok k ∧ (∃ v, consistent T v ∧ cnt v = k) ∧ ∀ v, consistent T v → cnt v ≤ k.
  Proof. apply search_correct; [done|apply cnt_le]. Qed.
End search.
